/-
  `vec_znx_normalize_base2k_ref` (generated term) on an arena: early returns, carry-only pass, normalising pass,
  last limb, zero extension, against the normal form `normalize_nf` of the heap model (one downward pass with the
  uniform step `nstep`).  Fuel-indexed form; `Properties/SrcVecNorm.lean` states the fuel-independent theorem.
-/
import SpqProofs.Lemmas.SrcNormVecStep
import SpqProofs.Lemmas.SrcVecTac
import SpqProofs.Lemmas.SrcFuel
namespace Spq.CIR
open Spq Spq.Heap Spq.Norm

theorem normalize_wrapper_run (nn k rsz rsl asz asl res a t : Nat)
    (hnn : nn < 2305843009213693952) (hk1 : 1 ≤ k) (hk2 : k ≤ 63)
    (hrsz : rsz < 9223372036854775808) (hasz : asz < 9223372036854775808)
    (m0 : Mem) (B : Nat) (hB : B < m0.size) (X : Array Int) (hX : X.size < 18446744073709551616)
    (hA : ∀ i, i < min rsz asz → SameOrDisj nn (res + i * rsl) (a + i * asl))
    (hTr : ∀ i, i < rsz → res + i * rsl + nn ≤ t ∨ t + nn ≤ res + i * rsl)
    (hTa : ∀ i, i < asz → a + i * asl + nn ≤ t ∨ t + nn ≤ a + i * asl)
    (hT : t + nn ≤ X.size)
    (hok : (VecZnx.normalize nn k ⟨X, true⟩ res rsz rsl a asz asl).ok = true) :
    ∀ fuel, asz + rsz + nn ≤ fuel →
      ∃ C : Array Int, C.size = nn ∧
        run fuel Gen.CSrc.vec_znx_normalize_base2k_ref
            [(nn : Int), (k : Int), (rsz : Int), (rsl : Int), (asz : Int), (asl : Int)]
            [some (B, res), some (B, a), some (B, t)] (m0.setIfInBounds B X)
          = .ok (m0.setIfInBounds B
              (Heap.writeArr (VecZnx.normalize nn k ⟨X, true⟩ res rsz rsl a asz asl).mem t C)) := by
  intro fuel hf
  have hnn64 : nn < 18446744073709551616 := by omega
  cir_enter Gen.CSrc.vec_znx_normalize_base2k_ref
  cir_simp
  have e0 : (0 : Int) % 18446744073709551616 = 0 := by decide
  simp only [e0]
  by_cases hr0 : rsz = 0
  · -- nothing to write
    subst hr0
    refine ⟨win X t nn, by simp, ?_⟩
    have hd : decide (((0 : Nat) : Int) = 0) = true := by decide
    simp only [hd, if_true]
    cir_simp
    rw [memOf_ok]
    simp only [VecZnx.normalize, if_true]
    rw [writeArr_win_self X t nn hT]
  have hd0 : decide ((rsz : Int) = 0) = false := decide_eq_false (by omega)
  simp only [hd0, Bool.false_eq_true, if_false]
  cir_simp
  simp only [e0]
  by_cases ha0 : asz = 0
  · subst ha0
    have hd : decide (((0 : Nat) : Int) = 0) = true := by decide
    simp only [hd, if_true]
    let F : Nat → Heap Int → Heap Int := fun i => limb0 (Coeffs.zero i64Ops nn) (res + i * rsl)
    have hF : OkMono F := okMono_limb0 _ _
    have hsz : ∀ k, (forLimbs 0 k F ⟨X, true⟩).mem.size = X.size := size_forLimbs_mem0 _ _ 0 ⟨X, true⟩
    have hm : VecZnx.normalize nn k ⟨X, true⟩ res rsz rsl a 0 asl = forLimbs 0 rsz F ⟨X, true⟩ := by
      simp only [VecZnx.normalize, if_neg hr0, if_true]; rfl
    rw [hm] at hok ⊢
    refine ⟨win (forLimbs 0 rsz F ⟨X, true⟩).mem t nn, by simp, ?_⟩
    rw [writeArr_win_self _ t nn (by rw [hsz]; exact hT)]
    rw [limb_for _ _ _ _ _ _ m0 B F hF ⟨X, true⟩ 0 rsz 0 (Nat.zero_le _) (by omega) (by simp) hok
      ?he0 ?hhi ?hbody fuel (by omega)]
    · cir_simp
      rfl
    case he0 => rfl
    case hhi => intro k m; rfl
    case hbody => vbody0 hsz
  have hda0 : decide ((asz : Int) = 0) = false := decide_eq_false (by omega)
  simp only [hda0, Bool.false_eq_true, if_false]
  cir_simp
  have pp2 : ∀ env, ptrAt [some (B, res), some (B, a), some (B, t)] env (.param 2) 0 = .ok (some (B, t)) :=
    fun env => by have := ptrAt_param [some (B, res), some (B, a), some (B, t)] env 2 B t 0 rfl; simpa using this
  repeat (first | cir_simp | simp only [pp2, ptrAt_null, encPtr_some, encPtr_none])
  have hi0 : wrapS (((asz : Int) - 1 % 18446744073709551616) % 18446744073709551616) = ((asz - 1 : Nat) : Int) := by
    simp only [wrapS]; omega
  rw [hi0]
  -- the model: one downward pass with the uniform step
  have hnf := normalize_nf nn k ⟨X, true⟩ res rsz rsl a asz asl hr0 ha0
  rw [foldl_reverse_range', Nat.zero_add] at hnf
  change _ = forLimbs asz rsz _ (nT nn k res rsz rsl a asz asl X asz).1 at hnf
  let F : Nat → Heap Int → Heap Int := fun i => limb0 (Coeffs.zero i64Ops nn) (res + i * rsl)
  have hF : OkMono F := okMono_limb0 _ _
  rw [hnf] at hok ⊢
  have hokN : (nT nn k res rsz rsl a asz asl X asz).1.ok = true := by
    by_cases hle : asz ≤ rsz
    · have := forLimbs_ok_prefix F hF asz _ rsz hle hok asz (Nat.le_refl _) hle
      rwa [forLimbs_nil] at this
    · have e : forLimbs asz rsz F (nT nn k res rsz rsl a asz asl X asz).1 = (nT nn k res rsz rsl a asz asl X asz).1 := by
        simp [forLimbs, show rsz - asz = 0 by omega]
      rw [e] at hok; exact hok
  have hokd : ∀ d, d ≤ asz → (nT nn k res rsz rsl a asz asl X d).1.ok = true :=
    seqD_ok _ (fun st i h => (nstep_ok _ _ _ _ _ _ _ _ _ h).1) _ _ asz hokN
  let S : Nat → State := fun d =>
    ⟨nEnv nn k rsz rsl asz asl B t d ((asz - 1 - d : Nat) : Int),
      m0.setIfInBounds B (scr t (nT nn k res rsz rsl a asz asl X d))⟩
  have hsub : ∀ i : Nat, 1 ≤ i → i < 9223372036854775808 → subS (i : Int) 1 = ((i - 1 : Nat) : Int) := by
    intro i h1 h2; simp only [subS, wrapS]; omega
  -- phase 1: carry-only pass over the limbs i = asz-1 .. rsz
  rw [exec_for_range _ _ _ _ _ _ S 0 (asz - rsz) nn (Nat.zero_le _) ?hi0 ?hc ?hs ?hx fuel (by omega)]
  case hi0 => intro f; rfl
  case hc =>
    intro d _ hd
    simp only [S, nEnv]
    cir_simp
    exact ok_decide_true (by omega)
  case hx =>
    simp only [S, nEnv]
    cir_simp
    exact ok_decide_false (by omega)
  case hs =>
    intro d _ hd f hf'
    refine (congrArg (fun x => thenStep x _) (norm_step1 nn k rsz rsl asz asl res a t m0 B hB X hnn64 hk1 hk2 hasz hX
      hTa hT d (by omega) (by omega) (hokd (d + 1) (by omega)) f hf')).trans ?_
    simp only [S, nEnv]
    cir_simp
    rw [hsub _ (by omega) (by omega)]
    rfl
  cir_simp
  -- phase 2: normalising pass over the limbs i = min(rsz, asz)-1 .. 1
  have ew1 : wrapS 1 = 1 := by decide
  rw [exec_for_range _ _ _ _ _ _ S (asz - rsz) (asz - 1) nn (by omega) ?hi0 ?hc ?hs ?hx fuel (by omega)]
  case hi0 => intro f; rfl
  case hc =>
    intro d _ hd
    simp only [S, nEnv]
    cir_simp
    rw [ew1]
    exact ok_decide_true (by omega)
  case hx =>
    simp only [S, nEnv]
    cir_simp
    rw [ew1]
    exact ok_decide_false (by omega)
  case hs =>
    intro d _ hd f hf'
    refine (congrArg (fun x => thenStep x _) (norm_step2 nn k rsz rsl asz asl res a t m0 B hB X hnn64 hk1 hk2 hasz hX
      hA hTr hTa hT d (by omega) (by omega) (hokd (d + 1) (by omega)) f hf')).trans ?_
    simp only [S, nEnv]
    cir_simp
    rw [hsub _ (by omega) (by omega)]
    rfl
  simp only [seqK_norm, exec_seq]
  -- last limb (i = 0): no carry out, the scratch keeps the previous carry
  have hinvN := nT_inv nn k res rsz rsl a asz asl X asz
  have hinvP := nT_inv nn k res rsz rsl a asz asl X (asz - 1)
  obtain ⟨C, hC, hLA⟩ : ∃ C : Array Int, C.size = nn ∧
      lastArena t (nT nn k res rsz rsl a asz asl X (asz - 1)) (nT nn k res rsz rsl a asz asl X asz)
        = writeArr (nT nn k res rsz rsl a asz asl X asz).1.mem t C := by
    cases h2 : (nT nn k res rsz rsl a asz asl X (asz - 1)).2 with
    | none =>
      exact ⟨win (nT nn k res rsz rsl a asz asl X asz).1.mem t nn, by simp, by
        rw [lastArena_none t _ _ h2, writeArr_win_self _ t nn (by rw [hinvN.size]; exact hT)]⟩
    | some c => exact ⟨c, hinvP.csize c h2, lastArena_some t _ _ c h2⟩
  refine ⟨C, hC, ?_⟩
  have hS : S (asz - 1) = ⟨nEnv nn k rsz rsl asz asl B t (asz - 1) 0,
      m0.setIfInBounds B (scr t (nT nn k res rsz rsl a asz asl X (asz - 1)))⟩ := by
    simp only [S]; rw [Nat.sub_self]; rfl
  rw [hS]
  refine (congrArg (fun x => memOf (seqK x _)) (norm_last nn k rsz rsl asz asl res a t m0 B hB X hnn64 hk1 hk2
    (by omega) (by omega) hA hTr hTa hT hokN fuel (by omega))).trans ?_
  simp only [seqK_norm]
  rw [hLA]
  -- zero extension of the limbs asz .. rsz-1
  by_cases hle : asz ≤ rsz
  · obtain ⟨dd, hdd⟩ : ∃ dd, rsz = asz + dd := ⟨rsz - asz, by omega⟩
    have hzs := forLimbs_zero_scratch nn res rsl t C hC asz (nT nn k res rsz rsl a asz asl X asz).1 dd
      (fun i _ h2 => hTr i (by omega))
    rw [← hdd] at hzs
    change (forLimbs asz rsz F _).mem = writeArr (forLimbs asz rsz F _).mem t C ∧ _ at hzs
    have hsz : ∀ j, (forLimbs asz j F ⟨writeArr (nT nn k res rsz rsl a asz asl X asz).1.mem t C,
        (nT nn k res rsz rsl a asz asl X asz).1.ok⟩).mem.size = X.size := by
      intro j
      rw [size_forLimbs_mem0 _ _ asz _ j]
      show (writeArr _ t C).size = _
      rw [size_writeArr, hinvN.size]
    simp only [nEnv]
    rw [limb_for _ _ _ _ _ _ m0 B F hF ⟨writeArr (nT nn k res rsz rsl a asz asl X asz).1.mem t C,
        (nT nn k res rsz rsl a asz asl X asz).1.ok⟩ asz rsz 0 hle (by omega) (by simp)
      (by rw [hzs.2]; exact hok) ?he0 ?hhi ?hbody fuel (by omega)]
    · rw [memOf_ok, hzs.1]
    case he0 => rfl
    case hhi => intro j m; rfl
    case hbody => vbody0 hsz
  · have e : forLimbs asz rsz F (nT nn k res rsz rsl a asz asl X asz).1 = (nT nn k res rsz rsl a asz asl X asz).1 := by
      simp [forLimbs, show rsz - asz = 0 by omega]
    change _ = R.ok (m0.setIfInBounds B (writeArr (forLimbs asz rsz F _).mem t C))
    rw [e]
    simp only [nEnv]
    rw [exec_for_range _ _ _ _ _ _ (fun _ => ⟨lset [(nn : Int), (k : Int), (rsz : Int), (rsl : Int), (asz : Int),
        (asl : Int), (nn : Int), 0, (B : Int), (t : Int), if asz - 1 = 0 then -1 else (B : Int),
        if asz - 1 = 0 then 0 else (t : Int), 0, 0] 13 (asz : Int),
        m0.setIfInBounds B (writeArr (nT nn k res rsz rsl a asz asl X asz).1.mem t C)⟩) 0 0 0 (Nat.le_refl _)
      ?hi0 ?hc ?hs ?hx fuel (by omega)]
    · rfl
    case hi0 => intro f; rfl
    case hc => intro d h1 h2; omega
    case hs => intro d h1 h2; omega
    case hx =>
      cir_simp
      exact ok_decide_false (by omega)

/-- the scratch content after the run does not depend on the fuel -/
theorem normalize_wrapper_run' (nn k rsz rsl asz asl res a t : Nat)
    (hnn : nn < 2305843009213693952) (hk1 : 1 ≤ k) (hk2 : k ≤ 63)
    (hrsz : rsz < 9223372036854775808) (hasz : asz < 9223372036854775808)
    (m0 : Mem) (B : Nat) (hB : B < m0.size) (X : Array Int) (hX : X.size < 18446744073709551616)
    (hA : ∀ i, i < min rsz asz → SameOrDisj nn (res + i * rsl) (a + i * asl))
    (hTr : ∀ i, i < rsz → res + i * rsl + nn ≤ t ∨ t + nn ≤ res + i * rsl)
    (hTa : ∀ i, i < asz → a + i * asl + nn ≤ t ∨ t + nn ≤ a + i * asl)
    (hT : t + nn ≤ X.size)
    (hok : (VecZnx.normalize nn k ⟨X, true⟩ res rsz rsl a asz asl).ok = true) :
    ∃ C : Array Int, C.size = nn ∧ ∀ fuel, asz + rsz + nn ≤ fuel →
        run fuel Gen.CSrc.vec_znx_normalize_base2k_ref
            [(nn : Int), (k : Int), (rsz : Int), (rsl : Int), (asz : Int), (asl : Int)]
            [some (B, res), some (B, a), some (B, t)] (m0.setIfInBounds B X)
          = .ok (m0.setIfInBounds B
              (Heap.writeArr (VecZnx.normalize nn k ⟨X, true⟩ res rsz rsl a asz asl).mem t C)) := by
  obtain ⟨C, hC, h0⟩ := normalize_wrapper_run nn k rsz rsl asz asl res a t hnn hk1 hk2 hrsz hasz m0 B hB X hX hA hTr
    hTa hT hok (asz + rsz + nn) (Nat.le_refl _)
  refine ⟨C, hC, fun fuel hf => ?_⟩
  rw [run_mono _ _ _ _ (asz + rsz + nn) fuel hf (by rw [h0]; intro h; cases h), h0]
end Spq.CIR
