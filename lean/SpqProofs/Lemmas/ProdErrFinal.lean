/-
  C01 rounding budget, step 11: the `k ≤ 16` forms (constant `12·(k+1)·2^-53`) and exactness when the budget is
  below `1/2` (the domain of the final conversion then follows from `|(a ⊛ b)_i| ≤ S/2`).
-/
import SpqProofs.Lemmas.ProdErrBudget
set_option linter.unusedSectionVars false
namespace Spq.ProdErr
open Finset Spq Spq.Module Spq.Fft Spq.Fft.Alg Spq.FftErr Spq.F64 Spq.Conv
variable {K : Type} [Field K] [LinearOrder K] [IsStrictOrderedRing K]

/-- `S = ‖a‖₁·nb + na·‖b‖₁` -/
def sS (K : Type) [Field K] [LinearOrder K] (k : ℕ) (a b : Array Int) (na nb : K) : K :=
  n1 K a (2 * 2 ^ k) * nb + na * n1 K b (2 * 2 ^ k)

/-- the property's form of the error term, with the proved constant: `12·log2(N)·2^-53·S`, `N = 2·2^k` -/
def E12 (K : Type) [Field K] [LinearOrder K] (k : ℕ) (a b : Array Int) (na nb : K) : K :=
  ((12 * (k + 1 : ℚ) * u64 : ℚ) : K) * sS K k a b na nb

theorem Bv_ge (v : ToZnx64Variant) : (1125899906842624 : ℚ) ≤ Bv v := by
  cases v <;> norm_num [Bv]

theorem sS_nonneg (k : ℕ) (a b : Array Int) (na nb : K) (hna : 0 ≤ na) (hnb : 0 ≤ nb) : 0 ≤ sS K k a b na nb := by
  unfold sS
  have h2 : (0 : K) ≤ n1 K a (2 * 2 ^ k) := sum_nonneg (fun _ _ => abs_nonneg _)
  have h3 : (0 : K) ≤ n1 K b (2 * 2 ^ k) := sum_nonneg (fun _ _ => abs_nonneg _)
  positivity

/-- when `E12 < 1/2` the products are far inside the domain of every conversion kernel -/
theorem outDom_of_small (c : Cfg) (k : ℕ) (hk : k ≤ 16) (a b : Array Int) (na nb : K) (hna : 0 ≤ na) (hnb : 0 ≤ nb)
    (hcb : ∀ i, i < 2 * 2 ^ k → |(((nmul (2 * 2 ^ k) a b).getD i 0 : Int) : K)| ≤ sS K k a b na nb / 2)
    (hE : E12 K k a b na nb < 1 / 2) : OutDom K c k a b na nb := by
  intro i hi
  have hS0 := sS_nonneg k a b na nb hna hnb
  have hb := budget_le16 (K := K) k hk a b na nb hna hnb
  have hc := hcb i hi
  unfold E12 at hE
  rw [show n1 K a (2 * 2 ^ k) * nb + na * n1 K b (2 * 2 ^ k) = sS K k a b na nb from rfl] at hb
  -- S < 2^53 / 24
  have h12 : ((12 * u64 : ℚ) : K) ≤ ((12 * (k + 1 : ℚ) * u64 : ℚ) : K) := by
    apply (Rat.cast_le (K := K)).2
    have hu : (0 : ℚ) ≤ u64 := le_of_lt u64_pos
    have hk0 : (0 : ℚ) ≤ (k : ℚ) := by positivity
    nlinarith
  have h1 : ((12 * u64 : ℚ) : K) * sS K k a b na nb < 1 / 2 :=
    lt_of_le_of_lt (mul_le_mul_of_nonneg_right h12 hS0) hE
  have hu : ((12 * u64 : ℚ) : K) = 12 / 9007199254740992 := by
    have : (12 * u64 : ℚ) = 12 / 9007199254740992 := by unfold u64; norm_num
    rw [this]; push_cast; rfl
  rw [hu] at h1
  have hBv : ((1125899906842624 : ℚ) : K) ≤ ((Bv c.toVariant : ℚ) : K) := (Rat.cast_le (K := K)).2 (Bv_ge _)
  have hBv' : (1125899906842624 : K) ≤ ((Bv c.toVariant : ℚ) : K) := by
    refine le_trans (le_of_eq ?_) hBv; push_cast; rfl
  have hS : sS K k a b na nb < 9007199254740992 / 24 := by
    rw [div_mul_eq_mul_div, div_lt_iff₀ (by norm_num)] at h1
    linarith
  linarith

end Spq.ProdErr
