/-
  Loop structure of the vector functions: a scalar loop and a `w`-lane SIMD loop both compute the lane
  function at every index they cover.
-/
import Spq.Conv
import Mathlib.Tactic.Ring
import Mathlib.Tactic.Linarith
import Mathlib.Tactic.IntervalCases

namespace Spq.Conv

theorem scalarLoop_size {α : Type} (n : Nat) (f : Nat → α) : (scalarLoop n f).size = n := by
  unfold scalarLoop; simp

theorem scalarLoop_getElem? {α : Type} (n : Nat) (f : Nat → α) (i : Nat) (h : i < n) :
    (scalarLoop n f)[i]? = some (f i) := by
  unfold scalarLoop; simp [h]

theorem chunks_size {α : Type} (w : Nat) (f : Nat → α) (n : Nat) : (chunks w f n).size = w * n := by
  induction n with
  | zero => simp [chunks]
  | succ k ih => simp [chunks, ih]; ring

theorem chunks_getElem? {α : Type} (w : Nat) (f : Nat → α) (n i : Nat) (h : i < w * n) :
    (chunks w f n)[i]? = some (f i) := by
  induction n with
  | zero => simp at h
  | succ k ih =>
    unfold chunks
    rw [Array.getElem?_append, chunks_size]
    by_cases hlt : i < w * k
    · simp only [hlt, if_true]; exact ih hlt
    · simp only [hlt, if_false]
      have hj : i - w * k < w := by
        have : w * (k + 1) = w * k + w := by ring
        omega
      rw [Array.getElem?_ofFn]
      simp only [hj, dite_true]
      congr 2; omega

/-- the do-while loop over `n` elements with 4 lanes covers exactly `n` elements when `4 ∣ n`, `n > 0` -/
theorem doWhileIters_mul (n w : Nat) (hw : 0 < w) (hn : 0 < n) (hdiv : n % w = 0) : w * doWhileIters n w = n := by
  unfold doWhileIters
  obtain ⟨c, rfl⟩ := Nat.dvd_of_mod_eq_zero hdiv
  have hc : 0 < c := by
    rcases Nat.eq_zero_or_pos c with rfl | h
    · simp at hn
    · exact h
  have : (w * c + w - 1) / w = c := by
    have h1 : w * c + w - 1 = w * c + (w - 1) := by omega
    rw [h1, Nat.mul_add_div hw]
    have : (w - 1) / w = 0 := Nat.div_eq_of_lt (by omega)
    rw [this]; rfl
  rw [this]
  have : max 1 c = c := by omega
  rw [this]

theorem chunksA_size {α : Type} (w : Nat) (g : Nat → Array α) (hg : ∀ k, (g k).size = w) (n : Nat) :
    (chunksA g n).size = w * n := by
  induction n with
  | zero => simp [chunksA]
  | succ k ih => simp [chunksA, ih, hg]; ring

theorem chunksA_getElem? {α : Type} (w : Nat) (g : Nat → Array α) (hg : ∀ k, (g k).size = w) (n k t : Nat)
    (hk : k < n) (ht : t < w) : (chunksA g n)[w * k + t]? = (g k)[t]? := by
  induction n with
  | zero => omega
  | succ n ih =>
    unfold chunksA
    rw [Array.getElem?_append, chunksA_size w g hg]
    by_cases hlt : k < n
    · have : w * k + t < w * n := by
        have : w * (k + 1) ≤ w * n := Nat.mul_le_mul_left _ hlt
        have : w * (k + 1) = w * k + w := by ring
        omega
      simp only [this, if_true]; exact ih hlt
    · have hkn : k = n := by omega
      subst hkn
      have : ¬ (w * k + t < w * k) := by omega
      simp only [this, if_false]
      congr 1; omega

/-! ### the shuffles of `cplx_from_any_fma` -/

/-- what one output double of `cplx_from_any_fma` is, as a function of the uint32 pattern of the input -/
def fromAnyWord (C R w : Nat) : Nat := F64.sub ((w + 2147483648) % 4294967296 + 4294967296 * C) R

theorem cplxFromAnyLane_eq (C R : Nat) (x : Int) : cplxFromAnyLane C R x = fromAnyWord C R (u32 x) := rfl

theorem addS_eq (re : V8) : V8.addEpi32 re (V8.splat 2147483648) =
   ⟨(re.l0 + 2147483648) % 4294967296, (re.l1 + 2147483648) % 4294967296, (re.l2 + 2147483648) % 4294967296,
    (re.l3 + 2147483648) % 4294967296, (re.l4 + 2147483648) % 4294967296, (re.l5 + 2147483648) % 4294967296,
    (re.l6 + 2147483648) % 4294967296, (re.l7 + 2147483648) % 4294967296⟩ := rfl
theorem shuf_lo (rea ima : V8) :
    V8.perm20 (V8.unpackloEpi32 rea ima) (V8.unpackhiEpi32 rea ima) =
      ⟨rea.l0, ima.l0, rea.l1, ima.l1, rea.l2, ima.l2, rea.l3, ima.l3⟩ := rfl
theorem shuf_hi (rea ima : V8) :
    V8.perm31 (V8.unpackloEpi32 rea ima) (V8.unpackhiEpi32 rea ima) =
      ⟨rea.l4, ima.l4, rea.l5, ima.l5, rea.l6, ima.l6, rea.l7, ima.l7⟩ := rfl

/-- the unpack / permute2x128 network interleaves real and imaginary parts: complex `t` = (re lane `t`, im lane `t`) -/
theorem cplxFromAnyIter_eq (C R : Nat) (re im : V8) :
    cplxFromAnyIter C R re im =
      #[fromAnyWord C R re.l0, fromAnyWord C R im.l0, fromAnyWord C R re.l1, fromAnyWord C R im.l1,
        fromAnyWord C R re.l2, fromAnyWord C R im.l2, fromAnyWord C R re.l3, fromAnyWord C R im.l3,
        fromAnyWord C R re.l4, fromAnyWord C R im.l4, fromAnyWord C R re.l5, fromAnyWord C R im.l5,
        fromAnyWord C R re.l6, fromAnyWord C R im.l6, fromAnyWord C R re.l7, fromAnyWord C R im.l7] := by
  unfold cplxFromAnyIter
  simp only [addS_eq, shuf_lo, shuf_hi]
  simp only [V8.splat, V8.q, fromAnyWord]

theorem cplxFromAnyIter_size (C R : Nat) (re im : V8) : (cplxFromAnyIter C R re im).size = 16 := by
  rw [cplxFromAnyIter_eq]; rfl

theorem loadI32x8_get (x : Array Int) (off t : Nat) (ht : t < 8) :
    (loadI32x8 x off).get t = u32 (x.getD (off + t) 0) := by
  interval_cases t <;> simp [loadI32x8, V8.get]

/-- `cplx_from_any_fma` on a whole vector (`8 ∣ m`): output double `2s` is the lane function of `x[s]` (real part),
    output `2s+1` the lane function of `x[m+s]` (imaginary part) -/
theorem cplxFromAnyAvx_getElem? (C R m : Nat) (x : Array Int) (hm : m % 8 = 0) (s : Nat) (hs : s < m) :
    (cplxFromAnyAvx C R m x)[2 * s]? = some (cplxFromAnyLane C R (x.getD s 0)) ∧
    (cplxFromAnyAvx C R m x)[2 * s + 1]? = some (cplxFromAnyLane C R (x.getD (m + s) 0)) := by
  unfold cplxFromAnyAvx
  have hk : s / 8 < m / 8 := by omega
  have ht : s % 8 < 8 := by omega
  have hre : ∀ t, t < 8 → (loadI32x8 x (8 * (s / 8))).get t = u32 (x.getD (8 * (s / 8) + t) 0) :=
    fun t ht => loadI32x8_get x _ t ht
  have him : ∀ t, t < 8 → (loadI32x8 x (m + 8 * (s / 8))).get t = u32 (x.getD (m + 8 * (s / 8) + t) 0) :=
    fun t ht => loadI32x8_get x _ t ht
  have hs8 : 8 * (s / 8) + s % 8 = s := by omega
  have hms8 : m + 8 * (s / 8) + s % 8 = m + s := by omega
  have hre' := hre _ ht
  have him' := him _ ht
  rw [hs8] at hre'
  rw [hms8] at him'
  rw [cplxFromAnyLane_eq, cplxFromAnyLane_eq, ← hre', ← him']
  constructor
  · have hidx0 : 2 * s = 16 * (s / 8) + 2 * (s % 8) := by omega
    rw [hidx0, chunksA_getElem? 16 _ (fun k => cplxFromAnyIter_size C R _ _) (m / 8) (s / 8) (2 * (s % 8)) hk (by omega),
      cplxFromAnyIter_eq]
    generalize s % 8 = t at ht
    interval_cases t <;> rfl
  · have hidx1 : 2 * s + 1 = 16 * (s / 8) + (2 * (s % 8) + 1) := by omega
    rw [hidx1, chunksA_getElem? 16 _ (fun k => cplxFromAnyIter_size C R _ _) (m / 8) (s / 8) (2 * (s % 8) + 1) hk (by omega),
      cplxFromAnyIter_eq]
    generalize s % 8 = t at ht
    interval_cases t <;> rfl

/-! ### the shuffles of `cplx_to_tnx32_avx2_fma` -/

theorem mixq_eq (p q : Nat) : mixq p q = 4294967296 * (q % 4294967296) + p % 4294967296 := by
  unfold mixq
  have h1 : p &&& 4294967295 = p % 4294967296 := by
    have := Nat.and_two_pow_sub_one_eq_mod p 32
    norm_num at this; exact this
  have h2 : (q * 4294967296) % 18446744073709551616 = 4294967296 * (q % 4294967296) := by omega
  rw [h1, h2, Nat.or_comm]
  have h3 := Nat.two_pow_add_eq_or_of_lt (i := 32) (b := p % 4294967296) (by norm_num; omega) (q % 4294967296)
  norm_num at h3
  exact h3.symm

theorem mixq_lo (p q : Nat) : mixq p q % 4294967296 = p % 4294967296 := by rw [mixq_eq]; omega
theorem mixq_hi (p q : Nat) : mixq p q / 4294967296 % 4294967296 = q % 4294967296 := by rw [mixq_eq]; omega

theorem ofQ_eq (q0 q1 q2 q3 : Nat) : V8.ofQ q0 q1 q2 q3 =
    ⟨q0 % 4294967296, q0 / 4294967296 % 4294967296, q1 % 4294967296, q1 / 4294967296 % 4294967296,
     q2 % 4294967296, q2 / 4294967296 % 4294967296, q3 % 4294967296, q3 / 4294967296 % 4294967296⟩ := rfl
theorem xor_splat (a : V8) (c : Nat) : V8.xor a (V8.splat c) =
    ⟨a.l0 ^^^ c, a.l1 ^^^ c, a.l2 ^^^ c, a.l3 ^^^ c, a.l4 ^^^ c, a.l5 ^^^ c, a.l6 ^^^ c, a.l7 ^^^ c⟩ := rfl
theorem permute_idx (a : V8) : V8.permutevar a ⟨0, 4, 1, 5, 2, 6, 3, 7⟩ = ⟨a.l0, a.l4, a.l1, a.l5, a.l2, a.l6, a.l3, a.l7⟩ := rfl
theorem unpacklo64 (a b : V8) : V8.unpackloEpi64 a b = ⟨a.l0, a.l1, b.l0, b.l1, a.l4, a.l5, b.l4, b.l5⟩ := rfl
theorem unpackhi64 (a b : V8) : V8.unpackhiEpi64 a b = ⟨a.l2, a.l3, b.l2, b.l3, a.l6, a.l7, b.l6, b.l7⟩ := rfl

/-- what one output word of `cplx_to_tnx32_avx2_fma` is, as a function of the input double -/
def toTnx32Word (R p : Nat) : Nat := (F64.add p R % 4294967296) ^^^ 2147483648

theorem cplxToTnx32AvxLane_eq (R p : Nat) : cplxToTnx32AvxLane R p = s32 (toTnx32Word R p) := rfl

/-- and/slli/or, xor, unpack_epi64 and permutevar8x32 de-interleave: `re` register = words of the doubles
    `0,2,…,14` (real parts), `im` register = words of the doubles `1,3,…,15` -/
theorem cplxToTnx32Iter_eq (R : Nat) (d : Nat → Nat) :
    cplxToTnx32Iter R d =
      (⟨toTnx32Word R (d 0), toTnx32Word R (d 2), toTnx32Word R (d 4), toTnx32Word R (d 6),
        toTnx32Word R (d 8), toTnx32Word R (d 10), toTnx32Word R (d 12), toTnx32Word R (d 14)⟩,
       ⟨toTnx32Word R (d 1), toTnx32Word R (d 3), toTnx32Word R (d 5), toTnx32Word R (d 7),
        toTnx32Word R (d 9), toTnx32Word R (d 11), toTnx32Word R (d 13), toTnx32Word R (d 15)⟩) := by
  unfold cplxToTnx32Iter
  simp only [ofQ_eq, xor_splat, unpacklo64, unpackhi64, permute_idx, mixq_lo, mixq_hi, toTnx32Word]

theorem V8_toArray_getElem? (a : V8) (t : Nat) (ht : t < 8) : a.toArray[t]? = some (a.get t) := by
  interval_cases t <;> rfl

theorem V8_toArray_size (a : V8) : a.toArray.size = 8 := rfl

/-- `cplx_to_tnx32_avx2_fma` on a whole vector (`8 ∣ m`): output `s` is the lane function of the real part
    `x[2s]`, output `m+s` the lane function of the imaginary part `x[2s+1]` -/
theorem cplxToTnx32Avx_getElem? (m d : Nat) (x : Array Nat) (hm : m % 8 = 0) (s : Nat) (hs : s < m) :
    (cplxToTnx32Avx m d x)[s]? = some (cplxToTnx32AvxLane (toTnx32R d) (x.getD (2 * s) 0)) ∧
    (cplxToTnx32Avx m d x)[m + s]? = some (cplxToTnx32AvxLane (toTnx32R d) (x.getD (2 * s + 1) 0)) := by
  unfold cplxToTnx32Avx
  simp only []
  have hk : s / 8 < m / 8 := by omega
  have ht : s % 8 < 8 := by omega
  have hidx : s = 8 * (s / 8) + s % 8 := by omega
  have hm8 : 8 * (m / 8) = m := by omega
  set R := toTnx32R d
  have hsz1 : (chunksA (fun i => (cplxToTnx32Iter R (fun t => x.getD (16 * i + t) 0)).1.toArray) (m / 8)).size = m := by
    rw [chunksA_size 8 _ (fun k => V8_toArray_size _), hm8]
  have hsz2 : (chunksA (fun i => (cplxToTnx32Iter R (fun t => x.getD (16 * i + t) 0)).2.toArray) (m / 8)).size = m := by
    rw [chunksA_size 8 _ (fun k => V8_toArray_size _), hm8]
  rw [cplxToTnx32AvxLane_eq, cplxToTnx32AvxLane_eq]
  constructor
  · rw [Array.getElem?_map, Array.getElem?_append, hsz1]
    simp only [hs, if_true]
    rw [hidx, chunksA_getElem? 8 _ (fun k => V8_toArray_size _) (m / 8) (s / 8) (s % 8) hk ht,
      V8_toArray_getElem? _ _ ht, cplxToTnx32Iter_eq, ← hidx]
    have h2 : 2 * s = 16 * (s / 8) + 2 * (s % 8) := by omega
    rw [h2]
    generalize s % 8 = t at ht
    interval_cases t <;> rfl
  · rw [Array.getElem?_map, Array.getElem?_append, hsz1]
    have : ¬ (m + s < m) := by omega
    simp only [this, if_false]
    have h3 : m + s - m = 8 * (s / 8) + s % 8 := by omega
    rw [h3, chunksA_getElem? 8 _ (fun k => V8_toArray_size _) (m / 8) (s / 8) (s % 8) hk ht,
      V8_toArray_getElem? _ _ ht, cplxToTnx32Iter_eq]
    have h2 : 2 * s + 1 = 16 * (s / 8) + (2 * (s % 8) + 1) := by omega
    rw [h2]
    generalize s % 8 = t at ht
    interval_cases t <;> rfl

theorem cplxToTnx32Avx_size (m d : Nat) (x : Array Nat) (hm : m % 8 = 0) : (cplxToTnx32Avx m d x).size = 2 * m := by
  unfold cplxToTnx32Avx
  simp only [Array.size_map, Array.size_append]
  rw [chunksA_size 8 _ (fun k => V8_toArray_size _), chunksA_size 8 _ (fun k => V8_toArray_size _)]
  omega

theorem cplxFromAnyAvx_size (C R m : Nat) (x : Array Int) (hm : m % 8 = 0) : (cplxFromAnyAvx C R m x).size = 2 * m := by
  unfold cplxFromAnyAvx
  rw [chunksA_size 16 _ (fun k => cplxFromAnyIter_size C R _ _)]
  omega

/-! ### the reference loops of the cplx conversions -/

theorem cplxFromRef_getElem? (f : Int → Nat) (m : Nat) (x : Array Int) (s : Nat) (hs : s < m) :
    (cplxFromRef f m x)[2 * s]? = some (f (x.getD s 0)) ∧
    (cplxFromRef f m x)[2 * s + 1]? = some (f (x.getD (m + s) 0)) := by
  unfold cplxFromRef
  constructor
  · rw [scalarLoop_getElem? _ _ _ (by omega)]
    have h1 : (2 * s % 2 == 0) = true := by simp
    have h2 : 2 * s / 2 = s := by omega
    simp only [h1, if_true, h2]
  · rw [scalarLoop_getElem? _ _ _ (by omega)]
    have h1 : ((2 * s + 1) % 2 == 0) = false := by
      have : (2 * s + 1) % 2 = 1 := by omega
      rw [this]; rfl
    have h2 : (2 * s + 1) / 2 = s := by omega
    simp only [h1, Bool.false_eq_true, if_false, h2]

theorem cplxToTnx32Ref_getElem? (m d : Nat) (x : Array Nat) (s : Nat) (hs : s < m) :
    (cplxToTnx32Ref m d x)[s]? = some (cplxToTnx32RefLane (toTnx32Factor d) (x.getD (2 * s) 0)) ∧
    (cplxToTnx32Ref m d x)[m + s]? = some (cplxToTnx32RefLane (toTnx32Factor d) (x.getD (2 * s + 1) 0)) := by
  unfold cplxToTnx32Ref
  simp only []
  constructor
  · rw [scalarLoop_getElem? _ _ _ (by omega)]
    simp only [hs, if_true]
  · rw [scalarLoop_getElem? _ _ _ (by omega)]
    have : ¬ (m + s < m) := by omega
    have h2 : m + s - m = s := by omega
    simp only [this, if_false, h2]

/-- a 4-lane do-while loop over `2m` elements (`m` even, non-zero) computes the lane function everywhere -/
theorem chunks4_getElem? {α : Type} (f : Nat → α) (m i : Nat) (hm : 0 < m) (hdiv : (2 * m) % 4 = 0) (hi : i < 2 * m) :
    (chunks 4 f (doWhileIters (2 * m) 4))[i]? = some (f i) :=
  chunks_getElem? 4 f _ i (by rw [doWhileIters_mul (2 * m) 4 (by norm_num) (by omega) hdiv]; exact hi)

theorem chunks4_size {α : Type} (f : Nat → α) (m : Nat) (hm : 0 < m) (hdiv : (2 * m) % 4 = 0) :
    (chunks 4 f (doWhileIters (2 * m) 4)).size = 2 * m := by
  rw [chunks_size, doWhileIters_mul (2 * m) 4 (by norm_num) (by omega) hdiv]

/-- the 8-lane loop of `reim_to_tnx_avx` over `2m` elements, `8 ∣ 2m` -/
theorem chunks8_getElem? {α : Type} (f : Nat → α) (m i : Nat) (hdiv : (2 * m) % 8 = 0) (hi : i < 2 * m) :
    (chunks 8 f ((2 * m + 7) / 8))[i]? = some (f i) :=
  chunks_getElem? 8 f _ i (by omega)

theorem chunks8_size {α : Type} (f : Nat → α) (m : Nat) (hdiv : (2 * m) % 8 = 0) :
    (chunks 8 f ((2 * m + 7) / 8)).size = 2 * m := by
  rw [chunks_size]; omega

end Spq.Conv
