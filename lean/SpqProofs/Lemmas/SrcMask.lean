/-
  The index masks of the rotation / automorphism kernels: for `nn = 2^t` (`t ≤ 63`, the C contract) the C
  expressions `(-p) & (2*nn - 1)` and `(a + p) & (2*nn - 1)`, evaluated with uint64/int64 wrap-around exactly
  as the interpreter does, are the residues `negMask` / `posMask` of the model.
-/
import Spq.CIR
namespace Spq.CIR

theorem pow_le_p63 (t : Nat) (ht : t ≤ 63) : 2 ^ t ≤ 9223372036854775808 := by
  have : 2 ^ t ≤ 2 ^ 63 := Nat.pow_le_pow_right (by decide) ht
  simpa using this

theorem one_le_pow2 (t : Nat) : 1 ≤ 2 ^ t := Nat.one_le_two_pow

/-- `2*nn - 1` computed in uint64 (`2*nn` may wrap to 0 when `nn = 2^63`; the difference is still `2nn-1`) -/
theorem mask_val (nn : Nat) (h1 : 1 ≤ nn) (h2 : nn ≤ 9223372036854775808) :
    ((2 % 18446744073709551616 * (nn : Int) % 18446744073709551616 - 1 % 18446744073709551616)
        % 18446744073709551616).toNat = 2 * nn - 1 := by
  omega

/-- `nn - 1` in uint64 -/
theorem mask_val1 (nn : Nat) (h1 : 1 ≤ nn) (h2 : nn ≤ 9223372036854775808) :
    (((nn : Int) - 1 % 18446744073709551616) % 18446744073709551616).toNat = nn - 1 := by
  omega

theorem p64_eq : (18446744073709551616 : Int) = ((2 ^ 64 : Nat) : Int) := by decide

/-- low bits of the uint64 image of any integer = its residue -/
theorem u64_and_mask (x : Int) (s : Nat) (hs : s ≤ 64) :
    (x % 18446744073709551616).toNat &&& (2 ^ s - 1) = (x % ((2 ^ s : Nat) : Int)).toNat := by
  rw [Nat.and_two_pow_sub_one_eq_mod]
  have hy : 0 ≤ x % 18446744073709551616 := Int.emod_nonneg _ (by decide)
  have hpos : (((2 ^ s : Nat) : Int)) ≠ 0 := by
    have : 0 < 2 ^ s := Nat.two_pow_pos s
    omega
  have hz : 0 ≤ x % ((2 ^ s : Nat) : Int) := Int.emod_nonneg _ hpos
  apply Int.ofNat_inj.mp
  rw [Int.natCast_emod, Int.toNat_of_nonneg hy, Int.toNat_of_nonneg hz]
  apply Int.emod_emod_of_dvd
  rw [p64_eq]
  exact Int.natCast_dvd_natCast.mpr (Nat.pow_dvd_pow 2 hs)

theorem two_mul_pow (t : Nat) : 2 * 2 ^ t = 2 ^ (t + 1) := by
  rw [Nat.pow_succ]; omega

/-- `(-p) & (2*nn-1)` as the interpreter evaluates it -/
theorem negmask_src (t : Nat) (ht : t ≤ 63) (p : Int) :
    ((negS p % 18446744073709551616).toNat &&&
      ((2 % 18446744073709551616 * ((2 ^ t : Nat) : Int) % 18446744073709551616 - 1 % 18446744073709551616)
        % 18446744073709551616).toNat) = negMask p (2 * 2 ^ t) := by
  rw [mask_val _ (one_le_pow2 t) (pow_le_p63 t ht), two_mul_pow, u64_and_mask _ _ (by omega)]
  unfold negMask negS wrapS
  congr 1
  have hd : (((2 ^ (t + 1) : Nat)) : Int) ∣ 18446744073709551616 := by
    rw [p64_eq]
    exact Int.natCast_dvd_natCast.mpr (Nat.pow_dvd_pow 2 (by omega))
  have h1 : ((-p + 9223372036854775808) % 18446744073709551616 - 9223372036854775808)
      % 18446744073709551616 = (-p) % 18446744073709551616 := by omega
  rw [← Int.emod_emod_of_dvd _ hd, h1, Int.emod_emod_of_dvd _ hd]

/-- `(a + p) & (2*nn-1)` with `a : uint64_t`, `p : int64_t` converted to uint64 -/
theorem posmask_src (t : Nat) (ht : t ≤ 63) (a : Nat) (p : Int) :
    ((((a : Int) + p % 18446744073709551616) % 18446744073709551616).toNat &&&
      ((2 % 18446744073709551616 * ((2 ^ t : Nat) : Int) % 18446744073709551616 - 1 % 18446744073709551616)
        % 18446744073709551616).toNat) = posMask ((a : Int) + p) (2 * 2 ^ t) := by
  rw [mask_val _ (one_le_pow2 t) (pow_le_p63 t ht), two_mul_pow, u64_and_mask _ _ (by omega)]
  unfold posMask
  congr 1
  have hd : (((2 ^ (t + 1) : Nat)) : Int) ∣ 18446744073709551616 := by
    rw [p64_eq]
    exact Int.natCast_dvd_natCast.mpr (Nat.pow_dvd_pow 2 (by omega))
  have h1 : ((a : Int) + p % 18446744073709551616) % 18446744073709551616
      = ((a : Int) + p) % 18446744073709551616 := by omega
  rw [← Int.emod_emod_of_dvd ((a : Int) + p % 18446744073709551616) hd, h1, Int.emod_emod_of_dvd _ hd]

end Spq.CIR

namespace Spq.CIR
theorem negmask_src' (t : Nat) (ht : t ≤ 63) (nn : Nat) (hnn : nn = 2 ^ t) (p : Int) :
    ((negS p % 18446744073709551616).toNat &&&
      ((2 % 18446744073709551616 * (nn : Int) % 18446744073709551616 - 1 % 18446744073709551616)
        % 18446744073709551616).toNat) = negMask p (2 * nn) := by
  subst hnn; exact negmask_src t ht p

theorem posmask_src' (t : Nat) (ht : t ≤ 63) (nn : Nat) (hnn : nn = 2 ^ t) (a : Nat) (p : Int) :
    ((((a : Int) + p % 18446744073709551616) % 18446744073709551616).toNat &&&
      ((2 % 18446744073709551616 * (nn : Int) % 18446744073709551616 - 1 % 18446744073709551616)
        % 18446744073709551616).toNat) = posMask ((a : Int) + p) (2 * nn) := by
  subst hnn; exact posmask_src t ht a p

theorem negMask_lt' (p : Int) (m : Nat) (hm : 0 < m) : negMask p m < m := by
  unfold negMask
  have h1 := Int.emod_lt_of_pos (-p) (show (0 : Int) < (m : Int) by omega)
  have h2 := Int.emod_nonneg (-p) (show ((m : Nat) : Int) ≠ 0 by omega)
  omega

theorem posMask_lt' (p : Int) (m : Nat) (hm : 0 < m) : posMask p m < m := by
  unfold posMask
  have h1 := Int.emod_lt_of_pos p (show (0 : Int) < (m : Int) by omega)
  have h2 := Int.emod_nonneg p (show ((m : Nat) : Int) ≠ 0 by omega)
  omega
end Spq.CIR
