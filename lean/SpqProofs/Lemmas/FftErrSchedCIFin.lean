/-
  C06.4: transfer and assembled rounding bound of the inverse cplx transform on binary64 (interleaved layout).
-/
import SpqProofs.Lemmas.FftErrSchedCINet
import SpqProofs.Lemmas.FftErrSchedCFin
set_option linter.unusedSectionVars false
namespace Spq.FftErr
open Finset Spq.Fft Spq.Fft.Alg Spq.Fft.RelN Spq.Fft.SimP Spq.Fft.LevelN Spq.Fft.SchedN Spq.Fft.SchedC Spq.Fft.Sim Spq.F64
variable {K : Type} [Field K] [LinearOrder K] [IsStrictOrderedRing K]

/-- **transfer**, inverse cplx -/
theorem cifft_transfer (Fb : CFlav ℕ) (FB : CFlav (ℕ × Prop)) (FQ : CFlav ℚ) (FK : CFlav K)
    (hlb : Fb.lanesOdd = false) (hlB : FB.lanesOdd = false)
    (h1 : CFlavSim (fun (x : Nat × Prop) (b : Nat) => x.1 = b) FB Fb) (h2 : CFlavSim RelQ FB FQ)
    (h3 : CFlavSim (fun (q : ℚ) (x : K) => x = (q : K)) FQ FK)
    (k : ℕ) (cN sN : ℕ → ℕ) (data : Array ℕ) (hdata : data.size = 2 * 2 ^ k)
    (hok : ∀ p, p < 2 * 2 ^ k →
      ((cplxIfftA FB (2 ^ k) ((((cplxIfftEnts (2 ^ k)).map (valP cN sN)).toArray).map lift) (data.map lift))[p]!).2)
    (j : ℕ) (hj : j < 2 ^ k) :
    Fin64 ((cplxIfftA Fb (2 ^ k) ((cplxIfftEnts (2 ^ k)).map (valP cN sN)).toArray data)[2 * j]!) ∧
    Fin64 ((cplxIfftA Fb (2 ^ k) ((cplxIfftEnts (2 ^ k)).map (valP cN sN)).toArray data)[2 * j + 1]!) ∧
    ((val ((cplxIfftA Fb (2 ^ k) ((cplxIfftEnts (2 ^ k)).map (valP cN sN)).toArray data)[2 * j]!) : ℚ) : K) =
      (VNI k (gNetCI FK (fun e => ((val (cN e) : ℚ) : K)) (fun e => ((val (sN e) : ℚ) : K)) k)
        (fun p => (((val data[2 * p]! : ℚ) : K), ((val data[2 * p + 1]! : ℚ) : K))) k j).1 ∧
    ((val ((cplxIfftA Fb (2 ^ k) ((cplxIfftEnts (2 ^ k)).map (valP cN sN)).toArray data)[2 * j + 1]!) : ℚ) : K) =
      (VNI k (gNetCI FK (fun e => ((val (cN e) : ℚ) : K)) (fun e => ((val (sN e) : ℚ) : K)) k)
        (fun p => (((val data[2 * p]! : ℚ) : K), ((val data[2 * p + 1]! : ℚ) : K))) k j).2 := by
  have hd' : (data.map lift).size = 2 * 2 ^ k := by rw [Array.size_map]; exact hdata
  have hv := deinterleave_validN (2 ^ k) data
  have hv' := deinterleave_validN (2 ^ k) (data.map lift)
  rw [table_map lift cN sN] at hok
  obtain ⟨st1, vo1⟩ := cifftRI_struct Fb cN sN k hlb (deinterleave (2 ^ k) data) hv
  obtain ⟨st2, vo2⟩ := cifftRI_struct FB (fun e => lift (cN e)) (fun e => lift (sN e)) k hlB
    (deinterleave (2 ^ k) (data.map lift)) hv'
  have in2 : ∀ p, p < 2 ^ k →
      prs (deinterleave (2 ^ k) (data.map lift)) p = (lift data[2 * p]!, lift data[2 * p + 1]!) := by
    intro p hp
    show ((deinterleave (2 ^ k) (data.map lift)).re[p]!, (deinterleave (2 ^ k) (data.map lift)).im[p]!) = _
    rw [deinterleave_reN _ _ p hp, deinterleave_imN _ _ p hp, getElem!_map lift data (2 * p) (by omega),
      getElem!_map lift data (2 * p + 1) (by omega)]
  have in1 : ∀ p, p < 2 ^ k → prs (deinterleave (2 ^ k) data) p = (data[2 * p]!, data[2 * p + 1]!) := by
    intro p hp
    show ((deinterleave (2 ^ k) data).re[p]!, (deinterleave (2 ^ k) data).im[p]!) = _
    rw [deinterleave_reN _ _ p hp, deinterleave_imN _ _ p hp]
  have r1 := VNI_rel_on (R2 (fun (x : Nat × Prop) (b : Nat) => x.1 = b)) _ _
    (fun ℓ d b u u' v v' hu hv => gNetCI_sim h1 (fun e => lift (cN e)) (fun e => lift (sN e)) cN sN
      (fun _ => rfl) (fun _ => rfl) k ℓ d b hu hv) k
    (prs (deinterleave (2 ^ k) (data.map lift))) (prs (deinterleave (2 ^ k) data))
    (fun p hp => by rw [in2 p hp, in1 p hp]; exact ⟨rfl, rfl⟩) k j (le_refl k) hj
  have r2 := VNI_rel_on (R2 RelQ) _ _
    (fun ℓ d b u u' v v' hu hv => gNetCI_sim h2 (fun e => lift (cN e)) (fun e => lift (sN e))
      (fun e => val (cN e)) (fun e => val (sN e)) (fun _ h => ⟨h, rfl⟩) (fun _ h => ⟨h, rfl⟩) k ℓ d b hu hv) k
    (prs (deinterleave (2 ^ k) (data.map lift))) (fun p => (val data[2 * p]!, val data[2 * p + 1]!))
    (fun p hp => by rw [in2 p hp]; exact ⟨fun h => ⟨h, rfl⟩, fun h => ⟨h, rfl⟩⟩) k j (le_refl k) hj
  have r3 := VNI_rel_on (R2 (fun (q : ℚ) (x : K) => x = (q : K))) _ _
    (fun ℓ d b u u' v v' hu hv => gNetCI_sim h3 (fun e => val (cN e)) (fun e => val (sN e))
      (fun e => ((val (cN e) : ℚ) : K)) (fun e => ((val (sN e) : ℚ) : K)) (fun _ => rfl) (fun _ => rfl) k ℓ d b hu hv) k
    (fun p => (val data[2 * p]!, val data[2 * p + 1]!))
    (fun p => (((val data[2 * p]! : ℚ) : K), ((val data[2 * p + 1]! : ℚ) : K)))
    (fun p _ => ⟨rfl, rfl⟩) k j (le_refl k) hj
  have f1 := hok (2 * j) (by omega)
  have f2 := hok (2 * j + 1) (by omega)
  unfold cplxIfftA at f1 f2 ⊢
  rw [interleave_reN _ _ j hj] at f1
  rw [interleave_imN _ _ j hj] at f2
  rw [interleave_reN _ _ j hj, interleave_imN _ _ j hj]
  have e1 := st1 j hj
  have e2 := st2 j hj
  rw [← e1] at r1
  rw [← e2] at r1 r2
  obtain ⟨a1, a2⟩ := r1
  obtain ⟨b1, b2⟩ := r2
  obtain ⟨c1, c2⟩ := r3
  obtain ⟨g1, g2⟩ := b1 f1
  obtain ⟨g3, g4⟩ := b2 f2
  simp only [prs] at a1 a2 g1 g2 g3 g4
  rw [a1] at g1 g2
  rw [a2] at g3 g4
  refine ⟨g1, g3, ?_, ?_⟩
  · rw [g2]; exact c1.symm
  · rw [g4]; exact c2.symm

/-- the exact (unnormalised) inverse transform of the values of the interleaved `data` -/
def exactInvC (ζi : Cplx K) (k : ℕ) (data : Array ℕ) (j : ℕ) : Cplx K := WIk k ζi (fun p => cellC data p) k j

/-- assembled bound, inverse cplx, for four related implementations -/
theorem cifft_err_gen (Fb : CFlav ℕ) (FB : CFlav (ℕ × Prop)) (FQ : CFlav ℚ) (FK : CFlav K)
    (hlb : Fb.lanesOdd = false) (hlB : FB.lanesOdd = false)
    (h1 : CFlavSim (fun (x : Nat × Prop) (b : Nat) => x.1 = b) FB Fb) (h2 : CFlavSim RelQ FB FQ)
    (h3 : CFlavSim (fun (q : ℚ) (x : K) => x = (q : K)) FQ FK)
    (hErr : CInvErrOK FK (((7 / 2 * u64 : ℚ)) : K) (eta ((u64 : ℚ) : K) (((7 / 2 * u64 : ℚ)) : K)))
    (k : ℕ) (ζi : Cplx K) (hζ : nsq ζi = 1) (hI : ζi ^ 2 ^ k = -Ic) (cN sN : ℕ → ℕ)
    (hcs : ∀ ℓ d b, ℓ + d + 1 = k → b < 2 ^ ℓ →
      nsq (toC (((val (cN (twE ℓ d b)) : ℚ) : K), ((val (sN (twE ℓ d b)) : ℚ) : K)) - ζi ^ twE ℓ d b) ≤
        (((7 / 2 * u64 : ℚ)) : K) ^ 2)
    (data : Array ℕ) (hdata : data.size = 2 * 2 ^ k)
    (hok : ∀ p, p < 2 * 2 ^ k →
      ((cplxIfftA FB (2 ^ k) ((((cplxIfftEnts (2 ^ k)).map (valP cN sN)).toArray).map lift) (data.map lift))[p]!).2) :
    (∀ p, p < 2 * 2 ^ k →
      Fin64 ((cplxIfftA Fb (2 ^ k) ((cplxIfftEnts (2 ^ k)).map (valP cN sN)).toArray data)[p]!)) ∧
    ∑ j ∈ range (2 ^ k),
        nsq (cellC (cplxIfftA Fb (2 ^ k) ((cplxIfftEnts (2 ^ k)).map (valP cN sN)).toArray data) j
          - exactInvC ζi k data j) ≤
      ((1 + ((8 * u64 : ℚ) : K)) ^ k - 1) ^ 2 * ∑ j ∈ range (2 ^ k), nsq (exactInvC ζi k data j) := by
  have xf := cifft_transfer (K := K) Fb FB FQ FK hlb hlB h1 h2 h3 k cN sN data hdata hok
  constructor
  · intro p hp
    by_cases h : p % 2 = 0
    · have := (xf (p / 2) (by omega)).1
      rwa [show 2 * (p / 2) = p by omega] at this
    · have := (xf (p / 2) (by omega)).2.1
      rwa [show 2 * (p / 2) + 1 = p by omega] at this
  have hu0 : (0 : K) ≤ ((u64 : ℚ) : K) := by
    have : (0 : ℚ) ≤ u64 := by unfold u64; positivity
    exact_mod_cast this
  have hη0 := eta_nonneg hu0 (tau64_nonneg (K := K))
  have ne := cinetN_err FK (fun e => ((val (cN e) : ℚ) : K)) (fun e => ((val (sN e) : ℚ) : K)) k ζi _ _ hErr hη0 hζ hI
    hcs (fun p => (((val data[2 * p]! : ℚ) : K), ((val data[2 * p + 1]! : ℚ) : K)))
  have e1 : ∀ j ∈ range (2 ^ k), toC (VNI k (gNetCI FK (fun e => ((val (cN e) : ℚ) : K))
      (fun e => ((val (sN e) : ℚ) : K)) k)
      (fun p => (((val data[2 * p]! : ℚ) : K), ((val data[2 * p + 1]! : ℚ) : K))) k j)
      = cellC (cplxIfftA Fb (2 ^ k) ((cplxIfftEnts (2 ^ k)).map (valP cN sN)).toArray data) j := by
    intro j hj
    obtain ⟨_, _, h3, h4⟩ := xf j (mem_range.1 hj)
    unfold cellC toC
    rw [h3, h4]
  have s1 : ∑ j ∈ range (2 ^ k), nsq (toC (VNI k (gNetCI FK (fun e => ((val (cN e) : ℚ) : K))
      (fun e => ((val (sN e) : ℚ) : K)) k)
      (fun p => (((val data[2 * p]! : ℚ) : K), ((val data[2 * p + 1]! : ℚ) : K))) k j)
      - WIk k ζi (fun p => toC (((val data[2 * p]! : ℚ) : K), ((val data[2 * p + 1]! : ℚ) : K))) k j)
      = ∑ j ∈ range (2 ^ k), nsq (cellC (cplxIfftA Fb (2 ^ k) ((cplxIfftEnts (2 ^ k)).map (valP cN sN)).toArray data) j
        - exactInvC ζi k data j) := sum_congr rfl (fun j hj => by rw [e1 j hj]; rfl)
  rw [s1] at ne
  refine le_trans ne (mul_le_mul_of_nonneg_right (pow_sub_one_sq_mono _ _ hη0 eta64_le k) ?_)
  exact sum_nonneg (fun j _ => nsq_nonneg _)

/-- the inverse cplx implementation selected by `new_cplx_ifft_precomp`: the FMA code only for `m > 4` -/
def cifamB (fma : Bool) (m : ℕ) {α : Type} (A : Arith α) (z : α) : CFlav α :=
  if fma && decide (m > 4) then cinvFma A z else cinvRef A

theorem cplxIfft_eq (fma : Bool) (m : ℕ) (T data : Array ℕ) :
    cplxIfft (if fma then "fma" else "ref") m T data = cplxIfftA (cifamB fma m f64 0) m T data := by
  cases fma <;> rfl

/-- assembled bound for the two inverse cplx implementations -/
theorem cifft_err_fam (fma : Bool) (k : ℕ) (ζi : Cplx K) (hζ : nsq ζi = 1) (hI : ζi ^ 2 ^ k = -Ic) (cN sN : ℕ → ℕ)
    (hcs : ∀ ℓ d b, ℓ + d + 1 = k → b < 2 ^ ℓ →
      nsq (toC (((val (cN (twE ℓ d b)) : ℚ) : K), ((val (sN (twE ℓ d b)) : ℚ) : K)) - ζi ^ twE ℓ d b) ≤
        (((7 / 2 * u64 : ℚ)) : K) ^ 2)
    (data : Array ℕ) (hdata : data.size = 2 * 2 ^ k)
    (hok : ∀ p, p < 2 * 2 ^ k →
      ((cplxIfftA (cifamB fma (2 ^ k) aOk (lift 0)) (2 ^ k)
        ((((cplxIfftEnts (2 ^ k)).map (valP cN sN)).toArray).map lift) (data.map lift))[p]!).2) :
    (∀ p, p < 2 * 2 ^ k →
      Fin64 ((cplxIfftA (cifamB fma (2 ^ k) f64 0) (2 ^ k) ((cplxIfftEnts (2 ^ k)).map (valP cN sN)).toArray data)[p]!)) ∧
    ∑ j ∈ range (2 ^ k),
        nsq (cellC (cplxIfftA (cifamB fma (2 ^ k) f64 0) (2 ^ k) ((cplxIfftEnts (2 ^ k)).map (valP cN sN)).toArray data) j
          - exactInvC ζi k data j) ≤
      ((1 + ((8 * u64 : ℚ) : K)) ^ k - 1) ^ 2 * ∑ j ∈ range (2 ^ k), nsq (exactInvC ζi k data j) := by
  unfold cifamB at hok ⊢
  by_cases hc : (fma && decide (2 ^ k > 4)) = true
  · rw [if_pos hc] at hok ⊢
    exact cifft_err_gen (cinvFma f64 0) (cinvFma aOk (lift 0)) (cinvFmaZ aG) (cinvFmaZ (liftA aG : Arith K)) rfl rfl
      (cinvFma_sim aOk_sim_f64 rfl) cinvFma_simZ (cinvFmaZ_sim (liftA_sim (K := K) aG aG_neg))
      (cinvFmaZ_errOK (liftA aG) _ _ (liftA_fstd aG u64 aG_fstd) tau64_nonneg)
      k ζi hζ hI cN sN hcs data hdata hok
  · rw [if_neg hc] at hok ⊢
    exact cifft_err_gen (cinvRef f64) (cinvRef aOk) (cinvRef aG) (cinvRef (liftA aG : Arith K)) rfl rfl
      (cinvRef_sim aOk_sim_f64) (cinvRef_sim aOk_sim_aG) (cinvRef_sim (liftA_sim (K := K) aG aG_neg))
      (cinvRef_errOK (liftA aG) _ _ (liftA_fstd aG u64 aG_fstd) tau64_nonneg)
      k ζi hζ hI cN sN hcs data hdata hok

/-- `((1+8u)^k − 1)² ≤ (8(k+1)u)²` over `K`, `k ≤ 16` -/
theorem bound16K (k : ℕ) (hk : k ≤ 16) :
    ((1 + ((8 * u64 : ℚ) : K)) ^ k - 1) ^ 2 ≤ (((8 * (k + 1 : ℚ) * u64 : ℚ)) : K) ^ 2 := by
  have hb := bound16 k hk
  have h1 : (1 : ℚ) ≤ (1 + 8 * u64) ^ k := one_le_pow₀ (by unfold u64; norm_num)
  have h2 : ((1 + 8 * u64) ^ k - 1) ^ 2 ≤ (8 * (k + 1 : ℚ) * u64) ^ 2 :=
    pow_le_pow_left₀ (by linarith) hb 2
  have := (Rat.cast_le (K := K)).2 h2
  push_cast at this ⊢
  exact this

/-- its exact forward transform is `m ·` the input -/
theorem exactInvC_fwd' (k : ℕ) (ζ ζi : Cplx K) (hinv : ζ * ζi = 1) (data : Array ℕ) (j : ℕ) :
    V ζ (fun q => exactInvC ζi k data q) k 0 j = 2 ^ k * cellC data j := by
  have := V_of_WIk k ζ ζi hinv (fun p => cellC data p) k (le_refl k) j
  rw [Nat.sub_self] at this
  exact this

/-- on the exact forward transform of `a` it returns `m · a` -/
theorem exactInvC_of_evals' (k : ℕ) (ζ ζi : Cplx K) (hinv : ζ * ζi = 1) (a : ℕ → Cplx K) (data : Array ℕ)
    (hdata : ∀ p, p < 2 ^ k → cellC data p = V ζ a k 0 p) (j : ℕ) (hj : j < 2 ^ k) :
    exactInvC ζi k data j = 2 ^ k * a j := by
  unfold exactInvC WIk
  rw [WI_congr_on _ k _ (fun p => V ζ a k 0 p) hdata k j (le_refl k) hj]
  have := WIk_of_evals k ζi ζ hinv a k (le_refl k) j
  rw [Nat.sub_self] at this
  exact this

end Spq.FftErr
