/-
  No-overflow from a magnitude box, step 12: a concrete instance of `VmpOkU` (the instance of `VmpErrExample.lean`).
-/
import SpqProofs.Lemmas.VmpErrOvf11
import SpqProofs.Lemmas.VmpErrOvf8
import SpqProofs.Lemmas.VmpErrExample
set_option linter.unusedSectionVars false
namespace Spq.VmpErr
open Spq Spq.Module Spq.Fft Spq.Fft.Alg Spq.Fft.RelN Spq.Fft.SimP Spq.Fft.LevelN Spq.Fft.SchedN Spq.Fft.Sim Spq.FftErr Spq.F64
  Spq.Reim4 Spq.ProdErr

theorem matDft_pU (c : Cfg) (mat : Array Int) (ncols i j : ℕ) :
    matDft (pU c) mat ncols i j = (matDft (Cfg.parts c) mat ncols i j).map lift := rfl

theorem exU_okD : ∀ p, p < 2 * 2 ^ 0 → vmpFlagU exC #[3, 4] 1 1 #[1, 2] 1 2 1 (0 * (2 * 2 ^ 0) + p) := by
  have hT : ∀ row col, row < 1 → col < 1 → (matDft (pU exC) #[3, 4] 1 row col).size = (pU exC).nn := by
    intro row col hr hc
    have : row = 0 := by omega
    have : col = 0 := by omega
    subst_vars
    rw [matDft_pU, exMD, Array.size_map]; rfl
  obtain ⟨_, L, _, _⟩ := vmp_layout_g (pU exC) (by decide) (by decide) (fun _ => ⟨rfl, rfl⟩) #[3, 4] 1 1 1 1
    ((vecDft (Cfg.parts exC) (min 1 1) #[1, 2] 1 2).map lift) (fun _ => hT)
  obtain ⟨c1, c2⟩ := L 0 0 (by decide) (by decide) (fun _ => by decide)
  obtain ⟨m1, m2⟩ := (mulA_cells arithU false 1 (by simp) ((stF exC 0 z0 z0 #[1, 2]).map lift)
    ((stF exC 0 z0 z0 #[3, 4]).map lift)).2 0 (by omega)
  have f1 := exU_okM 0 (by norm_num)
  have f2 := exU_okM 1 (by norm_num)
  have e0 : exC.mulFma = false := rfl
  have e1 : 2 ^ 0 = 1 := rfl
  rw [e0, e1] at f1 f2
  rw [m1] at f1
  rw [show (1 : ℕ) = 0 + 1 from rfl, m2] at f2
  rw [exFA, exFB] at f1 f2
  simp only [cellRe, cellIm, Bool.false_eq_true, if_false] at f1 f2
  intro p hp
  have hp' : p = 0 ∨ p = 1 := by omega
  unfold vmpFlagU
  rcases hp' with rfl | rfl
  · have c1' : (vmpApplyDftToDft (pU exC) 1 ((vecDft (Cfg.parts exC) (min 1 1) #[1, 2] 1 2).map lift) 1
        (vmpPrepare (pU exC) #[3, 4] 1 1) 1 1).getD (0 * (2 * 2 ^ 0) + 0) arithU.zero = _ := c1
    rw [c1']
    change (reRef arithU (((vecDft (Cfg.parts exC) (min 1 1) #[1, 2] 1 2).map lift).getD 0 arithU.zero)
      (((vecDft (Cfg.parts exC) (min 1 1) #[1, 2] 1 2).map lift).getD 1 arithU.zero)
      ((matDft (pU exC) #[3, 4] 1 0 0).getD 0 arithU.zero) ((matDft (pU exC) #[3, 4] 1 0 0).getD 1 arithU.zero)).2
    rw [matDft_pU, exVD, exMD]
    exact f1
  · have c2' : (vmpApplyDftToDft (pU exC) 1 ((vecDft (Cfg.parts exC) (min 1 1) #[1, 2] 1 2).map lift) 1
        (vmpPrepare (pU exC) #[3, 4] 1 1) 1 1).getD (0 * (2 * 2 ^ 0) + 1) arithU.zero = _ := c2
    rw [c2']
    change (imRef arithU (((vecDft (Cfg.parts exC) (min 1 1) #[1, 2] 1 2).map lift).getD 0 arithU.zero)
      (((vecDft (Cfg.parts exC) (min 1 1) #[1, 2] 1 2).map lift).getD 1 arithU.zero)
      ((matDft (pU exC) #[3, 4] 1 0 0).getD 0 arithU.zero) ((matDft (pU exC) #[3, 4] 1 0 0).getD 1 arithU.zero)).2
    rw [matDft_pU, exVD, exMD]
    exact f2

theorem exVmpOkU : VmpOkU exC 0 z0 z0 z0 z0 #[3, 4] 1 1 #[1, 2] 1 2 1 0 where
  okA := by
    intro i hi
    have : i = 0 := by omega
    subst this
    rw [exLimb]; exact exU_okA
  okB := by
    intro i hi
    have : i = 0 := by omega
    subst this
    rw [exEntry]; exact exU_okB
  okD := exU_okD
  okI := by
    rw [exCol]
    exact exU_okI

end Spq.VmpErr
