/-
  Helper lemmas for `Properties/BridgeFft.lean`: the FFT-side negacyclic product formulas
  (`Spq.nmulF` / `Spq.nmul` / `Spq.isum`, `Lemmas/ModuleSpec.lean`; `Spq.Prog.polyMul` / `vmpVal`, `Spq/Prog.lean`)
  are the product / sum of products of `R[X]/(X^N+1)` (`AdjoinRoot (X^N+1)`).

  Route: `nmulF = Q120Ntt.nmul` term by term (the two `if` forms of the wrap-around sign), then
  `mk_toPoly_nmul'` (`Lemmas/BridgeMul.lean`); `polyMul = nmulF` is `Closed.nmulF_eq_polyMul`.
-/
import SpqProofs.Lemmas.BridgeArr
import SpqProofs.Lemmas.ClosedPoly

namespace Spq.Bridge
open Polynomial Finset

variable {R : Type} [CommRing R]

/-- the two coefficient formulas of the negacyclic product agree (every `N`, every `k`, any commutative ring) -/
theorem nmulF_eq_nttNmul' (N : Nat) (a b : Nat → R) (k : Nat) :
    Spq.nmulF N a b k = Spq.Q120Ntt.nmul N a b k := by
  unfold Spq.nmulF Spq.Q120Ntt.nmul
  apply sum_congr rfl; intro i hi
  apply sum_congr rfl; intro j _
  have hi := mem_range.1 hi
  by_cases h1 : i + j = k
  · have h2 : ¬ (i + j = k + N) := by omega
    rw [if_pos h1, if_neg h2, if_pos h1, sub_zero]
  · by_cases h2 : i + j = k + N
    · rw [if_neg h1, if_pos h2, if_neg h1, if_pos h2, zero_sub]
    · rw [if_neg h1, if_neg h2, if_neg h1, if_neg h2, sub_zero]

theorem mk_toPoly_nmulF' (N : Nat) (a b : Nat → R) :
    mk N (toPoly N (Spq.nmulF N a b)) = mk N (toPoly N a) * mk N (toPoly N b) := by
  rw [toPoly_congr N _ _ (fun k _ => nmulF_eq_nttNmul' N a b k)]
  exact mk_toPoly_nmul' N a b

/-- `toPoly` of a finite sum of coefficient functions -/
theorem toPoly_sum (N n : Nat) (f : Nat → Nat → R) :
    toPoly N (fun k => ∑ i ∈ range n, f i k) = ∑ i ∈ range n, toPoly N (f i) := by
  unfold toPoly
  rw [sum_comm]
  apply sum_congr rfl; intro k _
  rw [map_sum, sum_mul]

/-- `ofArr` of an integer array is `icoef` -/
theorem ofArr_eq_icoef (a : Array Int) : ofArr a = Spq.icoef a := rfl

theorem toPoly_ofArr_nmul (N : Nat) (a b : Array Int) :
    toPoly N (ofArr (Spq.nmul N a b)) = toPoly N (Spq.nmulF N (ofArr a) (ofArr b)) :=
  toPoly_congr N _ _ (fun k hk => Spq.icoef_nmul N a b k hk)

theorem mk_toPoly_nmul_arr' (N : Nat) (a b : Array Int) :
    mk N (toPoly N (ofArr (Spq.nmul N a b))) = mk N (toPoly N (ofArr a)) * mk N (toPoly N (ofArr b)) := by
  rw [toPoly_ofArr_nmul]; exact mk_toPoly_nmulF' N _ _

/-- the integer array read in any commutative ring `R` (`ℤ → R` is the unique ring homomorphism) -/
theorem mk_toPoly_nmul_cast' (N : Nat) (a b : Array Int) :
    mk N (toPoly N (fun k => ((ofArr (Spq.nmul N a b) k : Int) : R))) =
      mk N (toPoly N (fun k => ((ofArr a k : Int) : R))) * mk N (toPoly N (fun k => ((ofArr b k : Int) : R))) := by
  rw [← mk_toPoly_nmulF']
  congr 1
  apply toPoly_congr; intro k hk
  have e : ofArr (Spq.nmul N a b) k = Spq.nmulF N (ofArr a) (ofArr b) k := Spq.icoef_nmul N a b k hk
  rw [e]
  exact Spq.map_nmulF (Int.castRingHom R) N (ofArr a) (ofArr b) k

theorem toPoly_ofArr_isum (N n : Nat) (f : Nat → Array Int) :
    toPoly N (ofArr (Spq.isum N n f)) = ∑ i ∈ range n, toPoly N (ofArr (f i)) := by
  rw [← toPoly_sum]
  exact toPoly_congr N _ _ (fun k hk => Spq.icoef_isum N n f k hk)

theorem mk_toPoly_isum' (N n : Nat) (f : Nat → Array Int) :
    mk N (toPoly N (ofArr (Spq.isum N n f))) = ∑ i ∈ range n, mk N (toPoly N (ofArr (f i))) := by
  rw [toPoly_ofArr_isum, map_sum]

theorem mk_toPoly_isum_nmul' (N n : Nat) (a b : Nat → Array Int) :
    mk N (toPoly N (ofArr (Spq.isum N n (fun i => Spq.nmul N (a i) (b i))))) =
      ∑ i ∈ range n, mk N (toPoly N (ofArr (a i))) * mk N (toPoly N (ofArr (b i))) := by
  rw [mk_toPoly_isum']
  exact sum_congr rfl (fun i _ => mk_toPoly_nmul_arr' N (a i) (b i))

theorem mk_toPoly_polyMul' (N : Nat) (a b : Nat → Int) :
    mk N (toPoly N (Spq.Prog.polyMul N a b)) = mk N (toPoly N a) * mk N (toPoly N b) := by
  rw [← mk_toPoly_nmulF']
  congr 1
  exact toPoly_congr N _ _ (fun k hk => (Spq.Closed.nmulF_eq_polyMul N a b k hk).symm)

/-- column `j < ncols` of `Prog.vmpVal` is the sum of products of `ℤ[X]/(X^nn+1)` -/
theorem mk_toPoly_vmpVal' (nn asz : Nat) (f : Nat → Nat → Int) (M : Spq.Prog.Val) (nrows ncols j : Nat)
    (hj : j < ncols) :
    mk nn (toPoly nn (Spq.Prog.vmpVal nn asz f M nrows ncols j)) =
      ∑ i ∈ range (min nrows asz), mk nn (toPoly nn (f i)) * mk nn (toPoly nn (fun t => M.coef (i * ncols + j) t)) := by
  have e : Spq.Prog.vmpVal nn asz f M nrows ncols j =
      fun c => ∑ i ∈ range (min nrows asz), Spq.Prog.polyMul nn (f i) (fun t => M.coef (i * ncols + j) t) c := by
    funext c
    unfold Spq.Prog.vmpVal
    rw [if_pos hj, Spq.Closed.progSumTo_eq_sum]
  rw [e, toPoly_sum, map_sum]
  exact sum_congr rfl (fun i _ => mk_toPoly_polyMul' nn _ _)

end Spq.Bridge
