/-
  In-place automorphism: level-loop state, strided loops against `Coeffs.stepRange`, IR state maps.
-/
import SpqProofs.Lemmas.SrcAutWalk
import SpqProofs.Lemmas.SrcAut
import SpqProofs.Lemmas.SrcWalk
import SpqProofs.Lemmas.SrcFuel
namespace Spq.CIR
open Spq

/-! ### strided loops -/
theorem stride_lt_iff (lo hi s k : Nat) (hs : 0 < s) :
    lo + k * s < hi ↔ k < (hi - lo + s - 1) / s := by
  constructor
  · intro h
    have : (k + 1) * s ≤ hi - lo + s - 1 := by
      rw [Nat.add_mul]; omega
    have := (Nat.le_div_iff_mul_le hs).mpr this
    omega
  · intro h
    have h1 : k + 1 ≤ (hi - lo + s - 1) / s := h
    have h2 := (Nat.le_div_iff_mul_le hs).mp h1
    rw [Nat.add_mul] at h2
    omega

/-- the array after `k` iterations of a fold over `stepRange lo hi s` -/
def strideFold (F : Array Int → Nat → Array Int) (lo s : Nat) (res : Array Int) (k : Nat) : Array Int :=
  ((List.range k).map fun t => lo + t * s).foldl F res

theorem strideFold_zero (F : Array Int → Nat → Array Int) (lo s : Nat) (res : Array Int) :
    strideFold F lo s res 0 = res := rfl

theorem strideFold_succ (F : Array Int → Nat → Array Int) (lo s : Nat) (res : Array Int) (k : Nat) :
    strideFold F lo s res (k + 1) = F (strideFold F lo s res k) (lo + k * s) := by
  unfold strideFold
  rw [List.range_succ, List.map_append, List.foldl_append]
  rfl

theorem foldl_stepRange (F : Array Int → Nat → Array Int) (lo hi s : Nat) (hs : 0 < s) (res : Array Int) :
    (Coeffs.stepRange lo hi s).foldl F res = strideFold F lo s res ((hi - lo + s - 1) / s) := by
  unfold Coeffs.stepRange strideFold
  have : s ≠ 0 := by omega
  simp [this]

/-- value of a slot written in the previous iteration (`x0` before the first one) -/
def prevD (x0 : Int) (F : Nat → Int) (k : Nat) : Int := if k = 0 then x0 else F (k - 1)
theorem prevD_zero (x0 : Int) (F : Nat → Int) : prevD x0 F 0 = x0 := rfl
theorem prevD_succ (x0 : Int) (F : Nat → Int) (k : Nat) : prevD x0 F (k + 1) = F k := by simp [prevD]

theorem list_len14 (l : List Int) (h : l.length = 14) :
    ∃ x8 x9 x10 x11 x12 x13 x14 x15 x16 x17 x18 x19 x20 x21,
      l = [x8, x9, x10, x11, x12, x13, x14, x15, x16, x17, x18, x19, x20, x21] := by
  match l, h with
  | [x8, x9, x10, x11, x12, x13, x14, x15, x16, x17, x18, x19, x20, x21], _ =>
    exact ⟨x8, x9, x10, x11, x12, x13, x14, x15, x16, x17, x18, x19, x20, x21, rfl⟩

/-! ### state of the level loop -/
structure LG where
  l : Nat
  binval : Nat
  vp : Nat
  orb : Nat
  res : Array Int
  rest : List Int

def lS (nn pm : Nat) (mem : Mem) (r : Nat) (g : LG) : State :=
  ⟨[(nn : Int), (pm : Int), ((2 * nn - 1 : Nat) : Int), ((nn - 1 : Nat) : Int), ((nn / 2 : Nat) : Int),
      (g.binval : Int), (g.vp : Int), (g.orb : Int)] ++ g.rest, mem.setIfInBounds r g.res⟩

end Spq.CIR

namespace Spq.CIR
theorem evalBin_shr_u64_one (x : Nat) : evalBin .shr .u64 (x : Int) 1 = .ok ((x / 2 : Nat) : Int) := by
  have h1 : (0 : Int) ≤ 1 ∧ (1 : Int) < ((Ty.bits .u64 : Nat) : Int) := by simp [Ty.bits]
  simp only [evalBin, h1, and_self, if_true]
  simp
theorem evalBin_shl_u64_one (x : Nat) :
    evalBin .shl .u64 (x : Int) 1 = .ok (((x : Int) * 2) % 18446744073709551616) := by
  have h1 : (0 : Int) ≤ 1 ∧ (1 : Int) < ((Ty.bits .u64 : Nat) : Int) := by simp [Ty.bits]
  simp only [evalBin, h1, and_self, if_true]
  simp [Ty.wrap]

/-- invariants of the level loop (`nn = 2^t`) -/
def LGood (t nn : Nat) (g : LG) : Prop :=
  g.binval = 2 ^ g.l ∧ g.l ≤ t ∧ g.vp < 2 * nn ∧ g.orb ≤ nn ∧ g.res.size = nn ∧ g.rest.length = 14
end Spq.CIR

namespace Spq.CIR
theorem wrapS_nat (x : Nat) (h : x < 9223372036854775808) : wrapS (x : Int) = (x : Int) := by
  unfold wrapS; omega
end Spq.CIR

namespace Spq.CIR
theorem posMask_natCast (x m : Nat) (h : x < m) : posMask (x : Int) m = x := by
  unfold posMask
  have h1 : (x : Int) % (m : Int) = (x : Int) := Int.emod_eq_of_lt (by omega) (by omega)
  rw [h1]
  omega
end Spq.CIR

namespace Spq.CIR
theorem strideFold_size (F : Array Int → Nat → Array Int) (hF : ∀ r j, (F r j).size = r.size) (lo s : Nat)
    (res : Array Int) : ∀ k, (strideFold F lo s res k).size = res.size := by
  intro k
  induction k with
  | zero => rfl
  | succ k ih => rw [strideFold_succ, hF, ih]

/-- `x & (2nn-1)` and `x & (nn-1)` for a small natural `x` held as an `Int` -/
theorem band_mask_nat (t nn : Nat) (hnn : nn = 2 ^ t) (x : Nat) :
    x &&& (2 * nn - 1) = x % (2 * nn) ∧ x &&& (nn - 1) = x % nn := by
  subst hnn
  constructor
  · rw [two_mul_pow]; exact Nat.and_two_pow_sub_one_eq_mod x (t + 1)
  · exact Nat.and_two_pow_sub_one_eq_mod x t
end Spq.CIR

namespace Spq.CIR
/-- `(vp - binval) & (nn-1)` in uint64 against the model's `(vp + 2nn - binval) % nn` -/
theorem sub_mask_mod (t nn : Nat) (hnn : nn = 2 ^ t) (ht : t ≤ 64) (vp b : Nat) (hb : b ≤ vp + 2 * nn) :
    (((vp : Int) - (b : Int)) % 18446744073709551616).toNat % nn = (vp + 2 * nn - b) % nn := by
  have hpos : (0 : Int) ≤ ((vp : Int) - (b : Int)) % 18446744073709551616 := Int.emod_nonneg _ (by decide)
  have hd : ((nn : Nat) : Int) ∣ 18446744073709551616 := by
    rw [p64_eq, hnn]
    exact Int.natCast_dvd_natCast.mpr (Nat.pow_dvd_pow 2 ht)
  apply Int.ofNat_inj.mp
  rw [Int.natCast_emod, Int.toNat_of_nonneg hpos, Int.emod_emod_of_dvd _ hd, Int.natCast_emod]
  have e : ((vp + 2 * nn - b : Nat) : Int) = ((vp : Int) - (b : Int)) + (nn : Int) * 2 := by omega
  rw [e, Int.add_mul_emod_self_left]
end Spq.CIR

namespace Spq.CIR
/-- IR state inside the paired walk of one level: slots 8–12 are dead (`xs`), 13 = `j_start`, 14 = `nb_modif`,
    15 = `j` (`jslot`), 16–21 = `tmp1 tmp2 new_j new_j_n tmp1a tmp2a` -/
def pS (nn pm : Nat) (mem : Mem) (r : Nat) (binval vp orb : Nat) (x8 x9 x10 x11 x12 : Int) (jstart : Nat)
    (jslot : Int) (a : PA) : State :=
  ⟨[(nn : Int), (pm : Int), ((2 * nn - 1 : Nat) : Int), ((nn - 1 : Nat) : Int), ((nn / 2 : Nat) : Int),
      (binval : Int), (vp : Int), (orb : Int), x8, x9, x10, x11, x12, (jstart : Int), (a.nb : Int), jslot,
      a.t1, a.t2, a.newj, a.newjn, a.t1a, a.t2a], mem.setIfInBounds r a.res⟩

/-- multiplication `j * p` in uint64 followed by `& (2nn-1)` -/
theorem mul_mask2 (t nn : Nat) (hnn : nn = 2 ^ t) (ht : t ≤ 63) (j pm : Nat) :
    ((((j : Int) * ((pm : Int) % 18446744073709551616)) % 18446744073709551616).toNat) &&& (2 * nn - 1)
      = (j * pm) % (2 * nn) := by
  have e1 : (((j : Int) * ((pm : Int) % 18446744073709551616)) % 18446744073709551616).toNat
      = (j * (pm % 18446744073709551616)) % 18446744073709551616 := by
    have : ((j : Int) * ((pm : Int) % 18446744073709551616)) = ((j * (pm % 18446744073709551616) : Nat) : Int) := by
      push_cast; rfl
    rw [this]; omega
  rw [e1, (band_mask_nat t nn hnn _).1]
  have hd : 2 * nn ∣ 18446744073709551616 := by
    rw [hnn, two_mul_pow]
    have : (18446744073709551616 : Nat) = 2 ^ 64 := by decide
    rw [this]
    exact Nat.pow_dvd_pow 2 (by omega)
  rw [Nat.mod_mod_of_dvd _ hd, Nat.mul_mod, Nat.mod_mod_of_dvd _ hd, ← Nat.mul_mod]
end Spq.CIR

namespace Spq.CIR
open Spq
/-! ### pieces of the generated function (projections, so that the lemmas about one level of the loop can be stated
    without restating the generated term) -/
/-- body of the level loop: the `for` is the fifth statement of the function body -/
def levelBody (fn : Fn) : Stmt :=
  match fn.body with
  | .seq _ (.seq _ (.seq _ (.seq _ (.for _ _ _ b)))) => b
  | _ => .skip
def levelInc (fn : Fn) : Stmt :=
  match fn.body with
  | .seq _ (.seq _ (.seq _ (.seq _ (.for _ _ inc _)))) => inc
  | _ => .skip

/-- one iteration of the level loop: body, then (unless it returned) the increment -/
def levelStep (fn : Fn) (r : Nat) (f : Nat) (σ : State) : Out :=
  thenStep (exec [some (r, 0)] (levelBody fn) f σ) fun σ' => exec [some (r, 0)] (levelInc fn) f σ'

/-! ### the model's per-level results -/
def mNegMirror (o : Ops Int) (nn binval : Nat) (res : Array Int) : Array Int :=
  let res := (Coeffs.stepRange binval (nn / 2) binval).foldl (fun r j =>
    let tmp := r.getD j o.zero
    let r := r.setIfInBounds j (o.neg (r.getD (nn - j) o.zero))
    r.setIfInBounds (nn - j) (o.neg tmp)) res
  res.setIfInBounds (nn / 2) (o.neg (res.getD (nn / 2) o.zero))

def mNegate (o : Ops Int) (nn binval : Nat) (res : Array Int) : Array Int :=
  (Coeffs.stepRange binval nn (2 * binval)).foldl (fun r j => r.setIfInBounds j (o.neg (r.getD j o.zero))) res

def mMirror (o : Ops Int) (nn binval : Nat) (res : Array Int) : Array Int :=
  (Coeffs.stepRange binval (nn / 2) (2 * binval)).foldl (fun r j =>
    let tmp := r.getD j o.zero
    let r := r.setIfInBounds j (r.getD (nn - j) o.zero)
    r.setIfInBounds (nn - j) tmp) res

theorem autLevels_succ (o : Ops Int) (nn pm m binval vp orb : Nat) (res : Array Int) (hlt : binval < nn) :
    Coeffs.autLevels o nn pm (m + 1) binval vp orb res =
      (if vp = binval then res
      else if (vp + binval) % (2 * nn) = 0 then mNegMirror o nn binval res
      else if (vp + 2 * nn - binval) % nn = 0 then mNegate o nn binval res
      else if (vp + binval) % nn = 0 then
        Coeffs.autLevels o nn pm m (2 * binval) ((2 * vp) % (2 * nn)) (orb / 2) (mMirror o nn binval res)
      else
        Coeffs.autLevels o nn pm m (2 * binval) ((2 * vp) % (2 * nn)) (orb / 2)
          (Coeffs.autWalkAll o nn pm orb nn binval 0 res)) := by
  conv => lhs; unfold Coeffs.autLevels
  simp only [if_pos hlt]
  rfl
end Spq.CIR

namespace Spq.CIR
open Spq
theorem foldl_size (F : Array Int → Nat → Array Int) (hF : ∀ r j, (F r j).size = r.size) :
    ∀ (l : List Nat) (res : Array Int), (l.foldl F res).size = res.size := by
  intro l
  induction l with
  | nil => intro res; rfl
  | cons x xs ih => intro res; rw [List.foldl_cons, ih, hF]

theorem mMirror_size (o : Ops Int) (nn binval : Nat) (res : Array Int) :
    (mMirror o nn binval res).size = res.size := by
  unfold mMirror
  apply foldl_size
  intro r j
  simp

theorem autWalkAll_size (o : Ops Int) (t pm orb binval : Nat) (res : Array Int) (hb : binval < 2 ^ t)
    (hb0 : binval % 2 ^ t ≠ 0) (hres : res.size = 2 ^ t) (horb : orb ≤ 2 * 2 ^ t) :
    (Coeffs.autWalkAll o (2 ^ t) pm orb (2 ^ t) binval 0 res).size = 2 ^ t := by
  let b0 : PB := ⟨binval, 0, ⟨0, 0, 0, res, 0, 0, 0, 0, 0⟩⟩
  have h := autWalkAll_eq o (2 ^ t) pm orb (2 ^ t) b0
  have e : Coeffs.autWalkAll o (2 ^ t) pm orb (2 ^ t) binval 0 res
      = (whileA (pbTst orb) (pbStp o (2 ^ t) pm) (2 ^ t) b0).a.res := h
  rw [e]
  apply whileA_size
  exact ⟨hres, hb0, hb, by show orb ≤ 0 + 2 * 2 ^ t; omega, by show 0 ≤ orb + 2 * 2 ^ t; omega⟩
end Spq.CIR

namespace Spq.CIR
/-- `(5 * j_start) & (nn-1)`; the product may wrap in uint64 (for `nn = 2^62`), harmlessly since `nn ∣ 2^64` -/
theorem five_mul_mask1 (t nn : Nat) (hnn : nn = 2 ^ t) (ht : t ≤ 63) (j : Nat) :
    ((((5 : Int) % 18446744073709551616 * (j : Int)) % 18446744073709551616).toNat) &&& (nn - 1) = (5 * j) % nn := by
  have e : (5 : Int) % 18446744073709551616 = 5 := by decide
  have e1 : (((5 : Int) * (j : Int)) % 18446744073709551616).toNat = (5 * j) % 18446744073709551616 := by
    have : ((5 : Int) * (j : Int)) = ((5 * j : Nat) : Int) := by push_cast; rfl
    rw [this]
    have h2 : (((5 * j : Nat) : Int) % 18446744073709551616) = (((5 * j) % 18446744073709551616 : Nat) : Int) := by
      exact (Int.natCast_emod (5 * j) 18446744073709551616).symm
    rw [h2]
    exact Int.toNat_natCast _
  rw [e, e1, (band_mask_nat t nn hnn _).2]
  have hd : nn ∣ 18446744073709551616 := by
    rw [hnn]
    have : (18446744073709551616 : Nat) = 2 ^ 64 := by decide
    rw [this]
    exact Nat.pow_dvd_pow 2 (by omega)
  rw [Nat.mod_mod_of_dvd _ hd]
end Spq.CIR
