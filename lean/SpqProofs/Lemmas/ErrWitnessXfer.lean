/-
  Non-vacuity witness, part 4: from the Boolean flags of an evaluated run to the propositional flags that the
  rounding theorems take as hypotheses (forward / inverse reim transform, pointwise product; every `k`, every input).
-/
import SpqProofs.Lemmas.ErrWitnessFlags
set_option linter.unusedSectionVars false
namespace Spq.ErrWitness
open Spq.Fft Spq.Fft.Alg Spq.Fft.RelN Spq.Fft.SimP Spq.Fft.LevelN Spq.Fft.SchedN Spq.Fft.Sim Spq.FftErr Spq.F64 Spq.ProdErr
  Spq.Reim4

theorem famOf_ok (fma : Bool) : FamOK (famOf fma) := by
  cases fma
  · exact famRef
  · exact famFma

theorem ifamOf_ok (fma : Bool) : FamOK (ifamOf fma) := by
  cases fma
  · exact famIRef
  · exact famIFma

/-- forward transform: Boolean flag of output `p` ⇒ propositional flag of output `p` -/
theorem fft_flags_of_bool (Fam : ∀ {α : Type}, Arith α → Flav α) (hFam : FamOK Fam) (k : ℕ) (cN sN : ℕ → ℕ)
    (data : Array ℕ) (hdata : data.size = 2 * 2 ^ k) (p : ℕ) (hp : p < 2 * 2 ^ k)
    (hb : ((reimFftA (Fam aOkB) (2 ^ k) ((((reimFftEnts (2 ^ k)).map (valP cN sN)).toArray).map liftB)
      (data.map liftB))[p]!).2 = true) :
    ((reimFftA (Fam aOk) (2 ^ k) ((((reimFftEnts (2 ^ k)).map (valP cN sN)).toArray).map lift) (data.map lift))[p]!).2 := by
  have hd1 : (data.map liftB).size = 2 * 2 ^ k := by rw [Array.size_map]; exact hdata
  have hd2 : (data.map lift).size = 2 * 2 ^ k := by rw [Array.size_map]; exact hdata
  have hv1 := splitRI_validN (2 ^ k) (data.map liftB) hd1
  have hv2 := splitRI_validN (2 ^ k) (data.map lift) hd2
  rw [table_map liftB cN sN] at hb
  rw [table_map lift cN sN]
  obtain ⟨st1, vo1⟩ := fftRI_struct (Fam aOkB) (fun e => liftB (cN e)) (fun e => liftB (sN e)) k
    (splitRI (2 ^ k) (data.map liftB)) hv1
  obtain ⟨st2, vo2⟩ := fftRI_struct (Fam aOk) (fun e => lift (cN e)) (fun e => lift (sN e)) k
    (splitRI (2 ^ k) (data.map lift)) hv2
  have in1 : ∀ q, q < 2 ^ k → prs (splitRI (2 ^ k) (data.map liftB)) q = (liftB data[q]!, liftB data[2 ^ k + q]!) := by
    intro q hq
    show ((splitRI (2 ^ k) (data.map liftB)).re[q]!, (splitRI (2 ^ k) (data.map liftB)).im[q]!) = _
    rw [splitRI_reN _ _ hd1 q hq, splitRI_imN _ _ hd1 q hq, getElem!_map liftB data q (by omega),
      getElem!_map liftB data (2 ^ k + q) (by omega)]
  have in2 : ∀ q, q < 2 ^ k → prs (splitRI (2 ^ k) (data.map lift)) q = (lift data[q]!, lift data[2 ^ k + q]!) := by
    intro q hq
    show ((splitRI (2 ^ k) (data.map lift)).re[q]!, (splitRI (2 ^ k) (data.map lift)).im[q]!) = _
    rw [splitRI_reN _ _ hd2 q hq, splitRI_imN _ _ hd2 q hq, getElem!_map lift data q (by omega),
      getElem!_map lift data (2 ^ k + q) (by omega)]
  have rel : ∀ j, j < 2 ^ k → R2 RB
      (prs (fftRI (Fam aOkB) (2 ^ k) (((reimFftEnts (2 ^ k)).map (valP (fun e => liftB (cN e)) (fun e => liftB (sN e)))).toArray)
        (splitRI (2 ^ k) (data.map liftB))) j)
      (prs (fftRI (Fam aOk) (2 ^ k) (((reimFftEnts (2 ^ k)).map (valP (fun e => lift (cN e)) (fun e => lift (sN e)))).toArray)
        (splitRI (2 ^ k) (data.map lift))) j) := by
    intro j hj
    rw [st1 j hj, st2 j hj]
    exact VN_rel_on (R2 RB) _ _
      (fun ℓ d b u u' v v' hu hv => gNet_sim (hFam.sim aOkB_sim) (fun e => liftB (cN e)) (fun e => liftB (sN e))
        (fun e => lift (cN e)) (fun e => lift (sN e)) (fun _ => RB_lift _) (fun _ => RB_lift _) k ℓ d b hu hv) k
      (prs (splitRI (2 ^ k) (data.map liftB))) (prs (splitRI (2 ^ k) (data.map lift)))
      (fun q hq => by rw [in1 q hq, in2 q hq]; exact ⟨RB_lift _, RB_lift _⟩) k 0 j (by omega) hj
  unfold reimFftA at hb ⊢
  by_cases h : p < 2 ^ k
  · rw [joinRI_reN _ _ vo1 p h] at hb
    rw [joinRI_reN _ _ vo2 p h]
    exact (rel p h).1.2 hb
  · obtain ⟨j, rfl⟩ : ∃ j, p = 2 ^ k + j := ⟨p - 2 ^ k, by omega⟩
    have hj : j < 2 ^ k := by omega
    rw [joinRI_imN _ _ vo1 j hj] at hb
    rw [joinRI_imN _ _ vo2 j hj]
    exact (rel j hj).2.2 hb

/-- inverse transform -/
theorem ifft_flags_of_bool (Fam : ∀ {α : Type}, Arith α → Flav α) (hFam : FamOK Fam) (k : ℕ) (cN sN : ℕ → ℕ)
    (data : Array ℕ) (hdata : data.size = 2 * 2 ^ k) (p : ℕ) (hp : p < 2 * 2 ^ k)
    (hb : ((reimIfftA (Fam aOkB) (2 ^ k) ((((reimIfftEnts (2 ^ k)).map (valP cN sN)).toArray).map liftB)
      (data.map liftB))[p]!).2 = true) :
    ((reimIfftA (Fam aOk) (2 ^ k) ((((reimIfftEnts (2 ^ k)).map (valP cN sN)).toArray).map lift) (data.map lift))[p]!).2 := by
  have hd1 : (data.map liftB).size = 2 * 2 ^ k := by rw [Array.size_map]; exact hdata
  have hd2 : (data.map lift).size = 2 * 2 ^ k := by rw [Array.size_map]; exact hdata
  have hv1 := splitRI_validN (2 ^ k) (data.map liftB) hd1
  have hv2 := splitRI_validN (2 ^ k) (data.map lift) hd2
  rw [table_map liftB cN sN] at hb
  rw [table_map lift cN sN]
  obtain ⟨st1, vo1⟩ := ifftRI_struct (Fam aOkB) (fun e => liftB (cN e)) (fun e => liftB (sN e)) k
    (splitRI (2 ^ k) (data.map liftB)) hv1
  obtain ⟨st2, vo2⟩ := ifftRI_struct (Fam aOk) (fun e => lift (cN e)) (fun e => lift (sN e)) k
    (splitRI (2 ^ k) (data.map lift)) hv2
  have in1 : ∀ q, q < 2 ^ k → prs (splitRI (2 ^ k) (data.map liftB)) q = (liftB data[q]!, liftB data[2 ^ k + q]!) := by
    intro q hq
    show ((splitRI (2 ^ k) (data.map liftB)).re[q]!, (splitRI (2 ^ k) (data.map liftB)).im[q]!) = _
    rw [splitRI_reN _ _ hd1 q hq, splitRI_imN _ _ hd1 q hq, getElem!_map liftB data q (by omega),
      getElem!_map liftB data (2 ^ k + q) (by omega)]
  have in2 : ∀ q, q < 2 ^ k → prs (splitRI (2 ^ k) (data.map lift)) q = (lift data[q]!, lift data[2 ^ k + q]!) := by
    intro q hq
    show ((splitRI (2 ^ k) (data.map lift)).re[q]!, (splitRI (2 ^ k) (data.map lift)).im[q]!) = _
    rw [splitRI_reN _ _ hd2 q hq, splitRI_imN _ _ hd2 q hq, getElem!_map lift data q (by omega),
      getElem!_map lift data (2 ^ k + q) (by omega)]
  have rel : ∀ j, j < 2 ^ k → R2 RB
      (prs (ifftRI (Fam aOkB) (2 ^ k) (((reimIfftEnts (2 ^ k)).map (valP (fun e => liftB (cN e)) (fun e => liftB (sN e)))).toArray)
        (splitRI (2 ^ k) (data.map liftB))) j)
      (prs (ifftRI (Fam aOk) (2 ^ k) (((reimIfftEnts (2 ^ k)).map (valP (fun e => lift (cN e)) (fun e => lift (sN e)))).toArray)
        (splitRI (2 ^ k) (data.map lift))) j) := by
    intro j hj
    rw [st1 j hj, st2 j hj]
    exact VNI_rel_on (R2 RB) _ _
      (fun ℓ d b u u' v v' hu hv => gNet_sim (hFam.sim aOkB_sim) (fun e => liftB (cN e)) (fun e => liftB (sN e))
        (fun e => lift (cN e)) (fun e => lift (sN e)) (fun _ => RB_lift _) (fun _ => RB_lift _) k ℓ d b hu hv) k
      (prs (splitRI (2 ^ k) (data.map liftB))) (prs (splitRI (2 ^ k) (data.map lift)))
      (fun q hq => by rw [in1 q hq, in2 q hq]; exact ⟨RB_lift _, RB_lift _⟩) k j (le_refl k) hj
  unfold reimIfftA at hb ⊢
  by_cases h : p < 2 ^ k
  · rw [joinRI_reN _ _ vo1 p h] at hb
    rw [joinRI_reN _ _ vo2 p h]
    exact (rel p h).1.2 hb
  · obtain ⟨j, rfl⟩ : ∃ j, p = 2 ^ k + j := ⟨p - 2 ^ k, by omega⟩
    have hj : j < 2 ^ k := by omega
    rw [joinRI_imN _ _ vo1 j hj] at hb
    rw [joinRI_imN _ _ vo2 j hj]
    exact (rel j hj).2.2 hb

theorem getD_RB (a : Array ℕ) (i : ℕ) : RB ((a.map liftB).getD i arithOkB.zero) ((a.map lift).getD i arithOk.zero) := by
  show RB ((a.map liftB).getD i (liftB 0)) ((a.map lift).getD i (lift 0))
  rw [getD_map, getD_map]; exact RB_lift _

/-- pointwise product (`reim_fftvec_mul`, either kernel) -/
theorem mul_flags_of_bool (fma : Bool) (m : ℕ) (hm : fma = true → m % 4 = 0) (a b : Array ℕ) (p : ℕ) (hp : p < 2 * m)
    (hb : ((mulA arithOkB fma m (a.map liftB) (b.map liftB)).getD p arithOkB.zero).2 = true) :
    ((mulA arithOk fma m (a.map lift) (b.map lift)).getD p arithOk.zero).2 := by
  have c1 := (mulA_cells arithOkB fma m hm (a.map liftB) (b.map liftB)).2
  have c2 := (mulA_cells arithOk fma m hm (a.map lift) (b.map lift)).2
  have hre : ∀ {x x' y y' u u' v v'}, RB x x' → RB y y' → RB u u' → RB v v' →
      RB (cellRe arithOkB fma x y u v) (cellRe arithOk fma x' y' u' v') := by
    intro x x' y y' u u' v v' hx hy hu hv
    unfold cellRe reRef
    cases fma
    · exact arithOkB_sim.sub (arithOkB_sim.mul hx hu) (arithOkB_sim.mul hy hv)
    · exact arithOkB_sim.fms hx hu (arithOkB_sim.mul hy hv)
  have him : ∀ {x x' y y' u u' v v'}, RB x x' → RB y y' → RB u u' → RB v v' →
      RB (cellIm arithOkB fma x y u v) (cellIm arithOk fma x' y' u' v') := by
    intro x x' y y' u u' v v' hx hy hu hv
    unfold cellIm imRef
    cases fma
    · exact arithOkB_sim.add (arithOkB_sim.mul hx hv) (arithOkB_sim.mul hy hu)
    · exact arithOkB_sim.fma hy hu (arithOkB_sim.mul hx hv)
  by_cases h : p < m
  · rw [(c1 p h).1] at hb
    rw [(c2 p h).1]
    exact (hre (getD_RB a p) (getD_RB a (p + m)) (getD_RB b p) (getD_RB b (p + m))).2 hb
  · obtain ⟨j, rfl⟩ : ∃ j, p = j + m := ⟨p - m, by omega⟩
    have hj : j < m := by omega
    rw [(c1 j hj).2] at hb
    rw [(c2 j hj).2]
    exact (him (getD_RB a j) (getD_RB a (j + m)) (getD_RB b j) (getD_RB b (j + m))).2 hb

/-! ### the evaluated form: one Boolean per stage -/

theorem all_range {n : ℕ} {f : ℕ → Bool} (h : (List.range n).all f = true) (p : ℕ) (hp : p < n) : f p = true :=
  List.all_eq_true.1 h p (List.mem_range.2 hp)

/-- all Boolean flags of the forward transform -/
def fwdFlagsB (Fam : ∀ {α : Type}, Arith α → Flav α) (k : ℕ) (cN sN : ℕ → ℕ) (data : Array ℕ) : Bool :=
  (List.range (2 * 2 ^ k)).all fun p =>
    ((reimFftA (Fam aOkB) (2 ^ k) ((((reimFftEnts (2 ^ k)).map (valP cN sN)).toArray).map liftB) (data.map liftB))[p]!).2

/-- all Boolean flags of the inverse transform -/
def invFlagsB (Fam : ∀ {α : Type}, Arith α → Flav α) (k : ℕ) (cN sN : ℕ → ℕ) (data : Array ℕ) : Bool :=
  (List.range (2 * 2 ^ k)).all fun p =>
    ((reimIfftA (Fam aOkB) (2 ^ k) ((((reimIfftEnts (2 ^ k)).map (valP cN sN)).toArray).map liftB) (data.map liftB))[p]!).2

/-- all Boolean flags of the pointwise product -/
def mulFlagsB (fma : Bool) (m : ℕ) (a b : Array ℕ) : Bool :=
  (List.range (2 * m)).all fun p => ((mulA arithOkB fma m (a.map liftB) (b.map liftB)).getD p arithOkB.zero).2

theorem fft_flags_of_all (Fam : ∀ {α : Type}, Arith α → Flav α) (hFam : FamOK Fam) (k : ℕ) (cN sN : ℕ → ℕ)
    (data : Array ℕ) (hdata : data.size = 2 * 2 ^ k) (h : fwdFlagsB Fam k cN sN data = true) :
    ∀ p, p < 2 * 2 ^ k →
      ((reimFftA (Fam aOk) (2 ^ k) ((((reimFftEnts (2 ^ k)).map (valP cN sN)).toArray).map lift) (data.map lift))[p]!).2 :=
  fun p hp => fft_flags_of_bool Fam hFam k cN sN data hdata p hp (all_range h p hp)

theorem ifft_flags_of_all (Fam : ∀ {α : Type}, Arith α → Flav α) (hFam : FamOK Fam) (k : ℕ) (cN sN : ℕ → ℕ)
    (data : Array ℕ) (hdata : data.size = 2 * 2 ^ k) (h : invFlagsB Fam k cN sN data = true) :
    ∀ p, p < 2 * 2 ^ k →
      ((reimIfftA (Fam aOk) (2 ^ k) ((((reimIfftEnts (2 ^ k)).map (valP cN sN)).toArray).map lift) (data.map lift))[p]!).2 :=
  fun p hp => ifft_flags_of_bool Fam hFam k cN sN data hdata p hp (all_range h p hp)

theorem mul_flags_of_all (fma : Bool) (m : ℕ) (hm : fma = true → m % 4 = 0) (a b : Array ℕ)
    (h : mulFlagsB fma m a b = true) :
    ∀ p, p < 2 * m → ((mulA arithOk fma m (a.map lift) (b.map lift)).getD p arithOk.zero).2 :=
  fun p hp => mul_flags_of_bool fma m hm a b p hp (all_range h p hp)

end Spq.ErrWitness
