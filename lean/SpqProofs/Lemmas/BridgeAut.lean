/-
  Bridge (4): the scatter formula `autExp/autVal` of the automorphism gives the coefficients of `a(X^p)`,
  the image of `a` under the ring endomorphism `X ↦ X^p` of `R[X]/(X^n+1)` (`p` odd).
-/
import SpqProofs.Lemmas.BridgeRot
import SpqProofs.Lemmas.CoeffsAutom
import Mathlib.Algebra.Ring.Parity
import Mathlib.RingTheory.Coprime.Basic

namespace Spq.Bridge
open Polynomial Finset Spq.Rq

variable {R : Type} [CommRing R]

theorem rootU_pow_n (n : Nat) (hn : 0 < n) : (rootU n hn : (Rq R n)ˣ) ^ n = -1 := by
  apply Units.ext
  rw [Units.val_pow_eq_pow_val, rootU_val, root_pow_n]; rfl

/-- `(X^p)^n = -1` for odd `p`: `X^p` is again a root of `X^n + 1` -/
theorem rootU_zpow_pow_n (n : Nat) (hn : 0 < n) (p : Int) (hp : Odd p) :
    (((rootU n hn : (Rq R n)ˣ) ^ p : (Rq R n)ˣ) : Rq R n) ^ n = -1 := by
  rw [← Units.val_pow_eq_pow_val, ← zpow_natCast, ← zpow_mul, mul_comm, zpow_mul, zpow_natCast,
    rootU_pow_n, hp.neg_one_zpow]; rfl

/-- the ring endomorphism `X ↦ X^p` of `R[X]/(X^n+1)`, `p` odd (any sign) -/
noncomputable def autHom (n : Nat) (hn : 0 < n) (p : Int) (hp : Odd p) : Rq R n →+* Rq R n :=
  AdjoinRoot.lift (of n) (((rootU n hn : (Rq R n)ˣ) ^ p : (Rq R n)ˣ) : Rq R n) (by
    show eval₂ (of n) _ (X ^ n + 1 : R[X]) = 0
    rw [eval₂_add, eval₂_pow, eval₂_X, eval₂_one, rootU_zpow_pow_n n hn p hp, neg_add_cancel])

theorem autHom_mk (n : Nat) (hn : 0 < n) (p : Int) (hp : Odd p) (g : R[X]) :
    autHom n hn p hp (mk n g) = eval₂ (of n) (((rootU n hn : (Rq R n)ˣ) ^ p : (Rq R n)ˣ) : Rq R n) g :=
  AdjoinRoot.lift_mk _ g

/-- `autHom` sends the class of `X` to `X^p` … -/
theorem autHom_root (n : Nat) (hn : 0 < n) (p : Int) (hp : Odd p) :
    autHom n hn p hp (root n) = (((rootU n hn : (Rq R n)ˣ) ^ p : (Rq R n)ˣ) : Rq R n) := by
  have h : root n = mk n (X : R[X]) := AdjoinRoot.mk_X.symm
  rw [h, autHom_mk, eval₂_X]

/-- … and fixes the coefficients -/
theorem autHom_of (n : Nat) (hn : 0 < n) (p : Int) (hp : Odd p) (c : R) :
    autHom n hn p hp (of n c) = of n c := by
  have h : of n c = mk n (C c : R[X]) := (AdjoinRoot.mk_C c).symm
  rw [h, autHom_mk, eval₂_C, h]

theorem autHom_mk_toPoly (n : Nat) (hn : 0 < n) (p : Int) (hp : Odd p) (a : Nat → R) :
    autHom n hn p hp (mk n (toPoly n a)) =
      ∑ i ∈ range n, of n (a i) * (((rootU n hn : (Rq R n)ˣ) ^ p : (Rq R n)ˣ) : Rq R n) ^ i := by
  rw [autHom_mk, toPoly, eval₂_finsetSum]
  apply sum_congr rfl
  intro i _
  rw [eval₂_mul, eval₂_C, eval₂_pow, eval₂_X]

/-- `autHom` is the only ring endomorphism fixing the coefficients and sending `X` to `X^p` -/
theorem autHom_unique (n : Nat) (hn : 0 < n) (p : Int) (hp : Odd p) (φ : Rq R n →+* Rq R n)
    (hof : ∀ c, φ (of n c) = of n c)
    (hroot : φ (root n) = (((rootU n hn : (Rq R n)ˣ) ^ p : (Rq R n)ˣ) : Rq R n)) :
    φ = autHom n hn p hp := by
  apply AdjoinRoot.ringHom_ext
  · ext c
    show φ (of n c) = autHom n hn p hp (of n c)
    rw [hof, autHom_of]
  · show φ (root n) = autHom n hn p hp (root n)
    rw [hroot, autHom_root]

/-- (4) a coefficient vector `b` that satisfies the scatter specification of the automorphism
    (`b[(i·p mod 2n) mod n] = ± a[i]`, sign `-` iff `i·p mod 2n ≥ n`; positions pairwise distinct)
    represents the image of `a` under `X ↦ X^p` -/
theorem mk_toPoly_autom' (n : Nat) (hn : 0 < n) (p : Int) (hp : Odd p) (a b : Nat → R)
    (hinj : ∀ i i', i < n → i' < n → autExp n p i % n = autExp n p i' % n → i = i')
    (hb : ∀ i, i < n → b (autExp n p i % n) = if autExp n p i < n then a i else - a i) :
    mk n (toPoly n b) = autHom n hn p hp (mk n (toPoly n a)) := by
  rw [autHom_mk_toPoly, mk_toPoly]
  symm
  have hmaps : ∀ i ∈ range n, autExp n p i % n ∈ range n := fun i _ => mem_range.2 (Nat.mod_lt _ hn)
  have hinjOn : Set.InjOn (fun i => autExp n p i % n) ↑(range n) := by
    intro i hi i' hi' e
    exact hinj i i' (mem_range.1 (mem_coe.1 hi)) (mem_range.1 (mem_coe.1 hi')) e
  apply sum_nbij (fun i => autExp n p i % n) hmaps hinjOn
    (surjOn_of_injOn_of_card_le _ (fun i hi => mem_coe.2 (hmaps i (mem_coe.1 hi))) hinjOn le_rfl)
  intro i hi
  have hi' : i < n := mem_range.1 hi
  rw [hb i hi', ← Units.val_pow_eq_pow_val, ← zpow_natCast, ← zpow_mul, mul_comm p (i : Int),
    rootU_zpow_reduce n hn ((i : Int) * p), ← autPos_cast n hn p i, Int.toNat_natCast]
  have e : (((i : Int) * p) % ((2 * n : Nat) : Int)).toNat = autExp n p i := rfl
  rw [e]
  split_ifs
  · rfl
  · rw [map_neg]; ring

/-- positions are pairwise distinct as soon as `p` is coprime to `n` (e.g. `p` odd, `n = 2^t`) -/
theorem autPos_inj_of_coprime (n : Nat) (hn : 0 < n) (p : Int) (hc : IsCoprime (n : Int) p)
    (i i' : Nat) (hi : i < n) (hi' : i' < n) (e : autExp n p i % n = autExp n p i' % n) : i = i' := by
  have e' := congrArg (fun (x : Nat) => (x : Int)) e
  simp only [autPos_cast n hn] at e'
  rw [Int.emod_eq_emod_iff_emod_sub_eq_zero] at e'
  have d := Int.dvd_of_emod_eq_zero e'
  rw [← Int.sub_mul] at d
  have d2 := hc.dvd_of_dvd_mul_right d
  have : (i : Int) - (i' : Int) = 0 := by
    apply Int.eq_zero_of_abs_lt_dvd d2
    rw [abs_lt]
    constructor <;> omega
  omega

end Spq.Bridge
