/-
  The limb-wise functions of the module (`vecDft`, `vecIdft`, `svpApply`): size and limb read-back of an
  append fold, and the exact-arithmetic consequences used by C01.4 / C02.2.
-/
import SpqProofs.Lemmas.ModuleProd
import SpqProofs.Lemmas.ModuleArr
import SpqProofs.Lemmas.ModuleVmpLoop
namespace Spq.Module
open Finset Spq Reim4
variable {α : Type}

/-- a limb that lies inside the vector has `nn` coefficients (discharges the `hlimb` hypotheses) -/
theorem size_limbOf (x : Array Int) (i sl nn : Nat) (h : i * sl + nn ≤ x.size) : (limbOf x i sl nn).size = nn := by
  unfold limbOf; exact size_extract_of_le x (i * sl) nn h

/-! ### append folds -/

theorem mul_step' (p p' n : Nat) (h : p < p') : p * n + n ≤ p' * n := by
  have : (p + 1) * n ≤ p' * n := Nat.mul_le_mul_right n h
  rw [Nat.add_mul, Nat.one_mul] at this
  exact this

theorem getD_append (a b : Array α) (x : Nat) (z : α) :
    (a ++ b).getD x z = if x < a.size then a.getD x z else b.getD (x - a.size) z := by
  simp only [Array.getD_eq_getD_getElem?, Array.getElem?_append]
  split <;> rfl

/-- `acc ++ g 0 ++ … ++ g (n-1)` with all pieces of `w` cells: size and limb read-back -/
theorem appendFold_spec (n w : Nat) (g : Nat → Array α) (hg : ∀ i, i < n → (g i).size = w) :
    ((List.range n).foldl (fun acc i => acc ++ g i) #[]).size = n * w ∧
    ∀ i, i < n → dlimb ((List.range n).foldl (fun acc i => acc ++ g i) #[]) i w = g i := by
  have key := foldl_range_inv
    (P := fun r (acc : Array α) => acc.size = r * w ∧ ∀ i, i < r → dlimb acc i w = g i)
    (fun acc i => acc ++ g i) n #[]
    ⟨by simp, fun i hi => by omega⟩
    (by
      intro r acc hr ⟨i1, i2⟩
      have hstep : (r + 1) * w = r * w + w := by rw [Nat.add_mul, Nat.one_mul]
      refine ⟨by rw [Array.size_append, i1, hg r hr, hstep], ?_⟩
      intro i hi
      by_cases e : i = r
      · subst e
        unfold dlimb
        apply Array.ext
        · simp [i1, hg i hr]
        · intro k h1 h2
          simp [i1]
      · have hlt : i < r := by omega
        have := mul_step' i r w hlt
        rw [← i2 i hlt]
        unfold dlimb
        apply Array.ext
        · simp [i1, hg r hr]; omega
        · intro k h1 h2
          have hk : k < w := by
            simp [i1, hg r hr] at h1; omega
          simp [Array.getElem_append, i1]
          split
          · rfl
          · omega)
  exact key

/-- the same with the pieces described up to equality -/
theorem appendFold_spec' (n w : Nat) (g g' : Nat → Array α) (hg : ∀ i, i < n → g i = g' i)
    (hs : ∀ i, i < n → (g' i).size = w) :
    ((List.range n).foldl (fun acc i => acc ++ g i) #[]).size = n * w ∧
    ∀ i, i < n → dlimb ((List.range n).foldl (fun acc i => acc ++ g i) #[]) i w = g' i := by
  obtain ⟨a, b⟩ := appendFold_spec n w g (fun i hi => by rw [hg i hi]; exact hs i hi)
  exact ⟨a, fun i hi => by rw [b i hi, hg i hi]⟩

theorem vecDft_spec (c : Parts α) (rsz : Nat) (a : Array Int) (asz asl : Nat) (g' : Nat → Array α)
    (hg : ∀ i, i < rsz → (if i < asz then c.fft (c.fromZnx (limbOf a i asl c.nn)) else Array.replicate c.nn c.ar.zero) = g' i)
    (hs : ∀ i, i < rsz → (g' i).size = c.nn) :
    (vecDft c rsz a asz asl).size = rsz * c.nn ∧ ∀ i, i < rsz → dlimb (vecDft c rsz a asz asl) i c.nn = g' i := by
  unfold vecDft
  exact appendFold_spec' rsz c.nn _ g' hg hs

theorem svpApply_spec (c : Parts α) (rsz : Nat) (ppol : Array α) (a : Array Int) (asz asl : Nat) (g' : Nat → Array α)
    (hg : ∀ i, i < rsz → (if i < asz then mul c (c.fft (c.fromZnx (limbOf a i asl c.nn))) ppol
      else Array.replicate c.nn c.ar.zero) = g' i)
    (hs : ∀ i, i < rsz → (g' i).size = c.nn) :
    (svpApply c rsz ppol a asz asl).size = rsz * c.nn ∧ ∀ i, i < rsz → dlimb (svpApply c rsz ppol a asz asl) i c.nn = g' i := by
  unfold svpApply
  exact appendFold_spec' rsz c.nn _ g' hg hs

theorem vecIdft_spec (c : Parts α) (rsz : Nat) (d : Array α) (dsz : Nat) (g' : Nat → Array Int)
    (hg : ∀ i, i < rsz → (if i < dsz then c.toZnx (c.ifft (dlimb d i c.nn)) else Array.replicate c.nn 0) = g' i)
    (hs : ∀ i, i < rsz → (g' i).size = c.nn) :
    (vecIdft c rsz d dsz).size = rsz * c.nn ∧ ∀ i, i < rsz → dlimb (vecIdft c rsz d dsz) i c.nn = g' i := by
  unfold vecIdft
  exact appendFold_spec' rsz c.nn _ g' hg hs

/-! ### exact arithmetic -/

section exact
variable {R : Type} [CommRing R]

theorem nmulF_comm {K : Type} [CommRing K] (N : Nat) (a b : Nat → K) (k : Nat) : nmulF N a b k = nmulF N b a k := by
  unfold nmulF
  rw [sum_comm]
  apply sum_congr rfl; intro i _
  apply sum_congr rfl; intro j _
  rw [Nat.add_comm i j, mul_comm (b i) (a j)]

theorem nmul_comm (N : Nat) (a b : Array Int) : nmul N a b = nmul N b a := by
  unfold nmul
  congr 1
  funext k
  exact nmulF_comm N _ _ _

theorem icoef_replicate_zero (n k : Nat) : icoef (Array.replicate n 0) k = 0 := by
  simp only [icoef, Array.getD_eq_getD_getElem?, Array.getElem?_replicate]
  split <;> rfl

/-- the DFT of the zero polynomial is the zero vector -/
theorem fft_zero (c : Parts R) (z : Nat → Cx R) (ha : ExactArith c) (hd : ExactDft c z) :
    c.fft (c.fromZnx (Array.replicate c.nn 0)) = Array.replicate c.nn 0 := by
  have hn := ha.hnn
  apply eq_of_cx_reim c.m _ _ (by rw [hd.fft_size _ (hd.fromZnx_size _ (by simp))]; exact hn) (by simp; exact hn)
  intro j hj
  rw [fft_embed c z ha hd _ (by simp) j hj]
  unfold evalF
  rw [sum_eq_zero]
  · ext
    · simp only [cx_re, Cx.zero_re]; exact (getD_replicate_zero _ _).symm
    · simp only [cx_im, Cx.zero_im]; exact (getD_replicate_zero _ _).symm
  · intro k _
    simp only [icoef_replicate_zero, map_zero, zero_mul]

/-- inverse DFT and rounding of the zero vector -/
theorem idft_zero (c : Parts R) (z : Nat → Cx R) (ha : ExactArith c) (hd : ExactDft c z) :
    c.toZnx (c.ifft (Array.replicate c.nn 0)) = Array.replicate c.nn 0 := by
  have := roundtrip c z hd (Array.replicate c.nn 0) (by simp)
  rw [fft_zero c z ha hd] at this
  exact this

/-- `svp_prepare`, `svp_apply_dft`, `vec_znx_idft` in exact arithmetic: limb `i < min rsz asz` is the negacyclic
    product `pol · vec_i`, every other limb of the output is zero -/
theorem svp_exact_aux (c : Parts R) (z : Nat → Cx R) (ha : ExactArith c) (hd : ExactDft c z) (pol : Array Int)
    (hp : pol.size = c.nn) (vec : Array Int) (asz asl rsz rsz2 : Nat)
    (hlimb : ∀ i, i < rsz → i < asz → (limbOf vec i asl c.nn).size = c.nn) :
    (vecIdft c rsz2 (svpApply c rsz (svpPrepare c pol) vec asz asl) rsz).size = rsz2 * c.nn ∧
    ∀ i, i < rsz2 → dlimb (vecIdft c rsz2 (svpApply c rsz (svpPrepare c pol) vec asz asl) rsz) i c.nn =
      if i < rsz ∧ i < asz then nmul c.nn pol (limbOf vec i asl c.nn) else Array.replicate c.nn 0 := by
  have hz : c.ar.zero = 0 := by rw [ha.har]; rfl
  obtain ⟨_, a2⟩ := svpApply_spec c rsz (svpPrepare c pol) vec asz asl
    (fun i => if i < asz then c.fft (c.fromZnx (nmul c.nn (limbOf vec i asl c.nn) pol)) else Array.replicate c.nn 0)
    (by
      intro i hi
      by_cases h : i < asz
      · rw [if_pos h, if_pos h]
        exact fft_prod c z ha hd _ _ (hlimb i hi h) hp
      · rw [if_neg h, if_neg h, hz])
    (by
      intro i hi
      by_cases h : i < asz
      · rw [if_pos h]; exact hd.fft_size _ (hd.fromZnx_size _ (size_nmul _ _ _))
      · rw [if_neg h]; simp)
  apply vecIdft_spec
  · intro i hi
    by_cases h : i < rsz
    · rw [if_pos h, a2 i h]
      by_cases h2 : i < asz
      · rw [if_pos h2, if_pos ⟨h, h2⟩, roundtrip c z hd _ (size_nmul _ _ _), nmul_comm]
      · rw [if_neg h2, if_neg (fun q => h2 q.2), idft_zero c z ha hd]
    · rw [if_neg h, if_neg (fun q => h q.1)]
  · intro i hi
    split
    · exact size_nmul _ _ _
    · simp

end exact

end Spq.Module
