/-
  Heap-level refinement of `fft64_vmp_prepare_contiguous_{ref,avx}`: simulation of the heap loops by the raw
  filler `prepG (map enc)`, then `Agree` + coverage to reach `Spq.Module.vmpPrepare` on the zero-initialised array.
-/
import SpqProofs.Lemmas.ModHeapPrepCore
import SpqProofs.Lemmas.ModHeapVec
namespace Spq.ModuleHeap
open Spq Heap Reim4
variable {γ α : Type}

theorem matDft_rdI (c : Module.Parts α) (cd : Cells γ α) (h : Heap γ) (mat nrows ncols row col : Nat)
    (hrow : row < nrows) (hcol : col < ncols) :
    Module.matDft c (rdI cd h mat (nrows * ncols * c.nn)) ncols row col =
      c.fft (c.fromZnx (rdI cd h (mat + (row * ncols + col) * c.nn) c.nn)) := by
  have h1 := mul_step row nrows ncols hrow
  have h2 := mul_step (row * ncols + col) (nrows * ncols) c.nn (by omega)
  unfold Module.matDft rdI
  rw [extract_map, readLimb_extract _ _ _ _ _ _ h2]

/-- a raw filler that agrees with the functional one on the whole region -/
theorem agree_region {enc : α → γ} {S : Nat → Prop} {F : Array α → Array α} {Fe : Array γ → Array γ}
    (a : Agree enc S F Fe) (N : Nat) (z : α) (G : Array γ) (hG : G.size = N) (hcov : ∀ x, x < N → S x) :
    Fe G = (F (Array.replicate N z)).map enc := by
  apply Array.ext
  · rw [a.sizeE, Array.size_map, a.sizeF]; simp [hG]
  · intro x h1 h2
    rw [a.sizeE, hG] at h1
    have := a.inS (Array.replicate N z) G (by simp [hG]) x (hcov x h1)
    rw [Array.getElem?_eq_getElem (by rw [a.sizeE, hG]; exact h1), Array.getElem?_eq_getElem h2] at this
    exact Option.some.inj this

section
variable (c : Module.Parts α) (cd : Cells γ α) (hs : Sized c) (hr : RoundTrip cd)
include hs hr

theorem vmpPrepare_sim (h : Heap γ) (pmat mat nrows ncols tmp tb : Nat)
    (hnn : c.nn = 2 * c.m) (hm4 : 8 ≤ c.nn → c.m % 4 = 0) (htb : 8 ≤ c.nn → 8 * c.nn ≤ tb)
    (hpm : pmat + c.nn * nrows * ncols ≤ h.mem.size) (hmat : mat + nrows * ncols * c.nn ≤ h.mem.size)
    (htmp : 8 ≤ c.nn → tmp + c.nn ≤ h.mem.size)
    (hd1 : mat + nrows * ncols * c.nn ≤ pmat ∨ pmat + c.nn * nrows * ncols ≤ mat)
    (hd2 : 8 ≤ c.nn → (tmp + c.nn ≤ pmat ∨ pmat + c.nn * nrows * ncols ≤ tmp) ∧
      (tmp + c.nn ≤ mat ∨ mat + nrows * ncols * c.nn ≤ tmp)) :
    Fr (fun x => In pmat (c.nn * nrows * ncols) x ∨ (8 ≤ c.nn ∧ In tmp c.nn x)) h
      (vmpPrepare c cd h pmat mat nrows ncols tmp tb) ∧
    (vmpPrepare c cd h pmat mat nrows ncols tmp tb).readLimb cd.dflt pmat (c.nn * nrows * ncols) =
      prepG (Array.map cd.enc) c (Module.matDft c (rdI cd h mat (nrows * ncols * c.nn)) ncols) nrows ncols
        (h.readLimb cd.dflt pmat (c.nn * nrows * ncols)) := by
  unfold vmpPrepare prepG
  by_cases h8 : 8 ≤ c.nn
  · -- reim4 layout through the scratch limb
    have htb' := htb h8
    have htmp' := htmp h8
    obtain ⟨hd2a, hd2b⟩ := hd2 h8
    have htot := prep_total c nrows ncols hnn (hm4 h8)
    have e : ∀ g : Heap γ, scr tb 0 c.nn g = g := fun g => scr_eq tb 0 c.nn g (by omega)
    have h8' : c.nn ≥ 8 := h8
    simp only [if_pos h8', e]
    refine loop_sim (fun g R => Fr (fun x => In pmat (c.nn * nrows * ncols) x ∨ (8 ≤ c.nn ∧ In tmp c.nn x)) h g ∧
        g.readLimb cd.dflt pmat (c.nn * nrows * ncols) = R) nrows _ _ h _ ⟨Fr.refl _ h, rfl⟩ (fun row g R hrow P => ?_)
    refine loop_sim (fun g R => Fr (fun x => In pmat (c.nn * nrows * ncols) x ∨ (8 ≤ c.nn ∧ In tmp c.nn x)) h g ∧
        g.readLimb cd.dflt pmat (c.nn * nrows * ncols) = R) ncols _ _ g R P (fun col g R hcol P => ?_)
    obtain ⟨f, v⟩ := P
    have hi1 := mul_step row nrows ncols hrow
    have hi2 := mul_step (row * ncols + col) (nrows * ncols) c.nn (by omega)
    obtain ⟨f1, v1⟩ := dftStep c cd hs hr h g _ f tmp (mat + (row * ncols + col) * c.nn) htmp' (by omega) (by omega)
      (by intro x hx hw; unfold In at *; omega)
    rw [← matDft_rdI c cd h mat nrows ncols row col hrow hcol] at v1
    have F1 := (f.trans f1).mono (fun x q => by
      rcases q with q | q
      · exact q
      · exact Or.inr ⟨h8, q⟩)
    have v1' : (kFft c cd tmp (kFromZnx c cd tmp (mat + (row * ncols + col) * c.nn) g)).readLimb cd.dflt pmat
        (c.nn * nrows * ncols) = R := by
      rw [region_keep cd.dflt pmat _ f1 (fun x hx hw => by unfold In at *; omega)]; exact v
    unfold prepBlkG
    refine loop_sim (fun g R => (Fr (fun x => In pmat (c.nn * nrows * ncols) x ∨ (8 ≤ c.nn ∧ In tmp c.nn x)) h g ∧
        g.readLimb cd.dflt pmat (c.nn * nrows * ncols) = R) ∧
        g.readLimb cd.dflt tmp c.nn = (Module.matDft c (rdI cd h mat (nrows * ncols * c.nn)) ncols row col).map cd.enc)
      (c.m / 4) _ _ _ R ⟨⟨F1, v1'⟩, v1⟩ (fun blk g R hblk P => ?_) |>.1
    obtain ⟨⟨f, v⟩, vt⟩ := P
    have hq := Module.qslot_lt nrows ncols row col hrow hcol
    have hsb := mul_step blk (c.m / 4) (nrows * ncols * 8) hblk
    have hps := Module.pmatStart_eq nrows ncols row col
    obtain ⟨f2, v2⟩ := kExtract1_spec c cd g blk
      (pmat + Module.pmatStart nrows ncols row col + blk * (nrows * ncols * 8)) tmp
      (by rw [f.size]; omega) (by rw [f.size]; omega) (by omega)
    rw [rdD_of_cells cd hr _ _ _ _ vt] at v2
    have ea : pmat + Module.pmatStart nrows ncols row col + blk * (nrows * ncols * 8) =
        pmat + (Module.pmatStart nrows ncols row col + blk * (nrows * ncols * 8)) := Nat.add_assoc _ _ _
    rw [ea] at f2 v2 ⊢
    refine ⟨⟨(f.trans f2).mono (fun x q => ?_), ?_⟩, ?_⟩
    · rcases q with q | q
      · exact q
      · left; unfold In at *; omega
    · rw [region_step cd.dflt pmat (c.nn * nrows * ncols) _ 8 _ f2 v2 (by omega) (by rw [f.size]; omega), v]
    · rw [region_keep cd.dflt tmp _ f2 (fun x hx hw => by unfold In at *; omega)]; exact vt
  · -- plain layout, transformed in place
    have htot : c.nn * nrows * ncols = (ncols * nrows) * c.nn := by ring
    have h8' : ¬ c.nn ≥ 8 := h8
    simp only [if_neg h8']
    refine loop_sim (fun g R => Fr (fun x => In pmat (c.nn * nrows * ncols) x ∨ (8 ≤ c.nn ∧ In tmp c.nn x)) h g ∧
        g.readLimb cd.dflt pmat (c.nn * nrows * ncols) = R) nrows _ _ h _ ⟨Fr.refl _ h, rfl⟩ (fun row g R hrow P => ?_)
    refine loop_sim (fun g R => Fr (fun x => In pmat (c.nn * nrows * ncols) x ∨ (8 ≤ c.nn ∧ In tmp c.nn x)) h g ∧
        g.readLimb cd.dflt pmat (c.nn * nrows * ncols) = R) ncols _ _ g R P (fun col g R hcol P => ?_)
    obtain ⟨f, v⟩ := P
    have hi1 := mul_step row nrows ncols hrow
    have hi2 := mul_step (row * ncols + col) (nrows * ncols) c.nn (by omega)
    have hj1 := mul_step col ncols nrows hcol
    have hj2 := mul_step (col * nrows + row) (ncols * nrows) c.nn (by omega)
    obtain ⟨f1, v1⟩ := dftStep c cd hs hr h g _ f (pmat + (col * nrows + row) * c.nn) (mat + (row * ncols + col) * c.nn)
      (by omega) (by omega) (by omega) (by intro x hx hw; unfold In at *; omega)
    rw [← matDft_rdI c cd h mat nrows ncols row col hrow hcol] at v1
    refine ⟨(f.trans f1).mono (fun x q => ?_), ?_⟩
    · rcases q with q | q
      · exact q
      · left; unfold In at *; omega
    · rw [region_step cd.dflt pmat (c.nn * nrows * ncols) _ c.nn _ f1 v1 (by omega) (by rw [f.size]; omega), v]

/-- `fft64_vmp_prepare_contiguous_{ref,avx}` -/
theorem vmpPrepare_heap (h : Heap γ) (pmat mat nrows ncols tmp tb : Nat)
    (hnn : c.nn = 2 * c.m) (hm4 : 8 ≤ c.nn → c.m % 4 = 0) (htb : 8 ≤ c.nn → 8 * c.nn ≤ tb)
    (hpm : pmat + c.nn * nrows * ncols ≤ h.mem.size) (hmat : mat + nrows * ncols * c.nn ≤ h.mem.size)
    (htmp : 8 ≤ c.nn → tmp + c.nn ≤ h.mem.size)
    (hd1 : mat + nrows * ncols * c.nn ≤ pmat ∨ pmat + c.nn * nrows * ncols ≤ mat)
    (hd2 : 8 ≤ c.nn → (tmp + c.nn ≤ pmat ∨ pmat + c.nn * nrows * ncols ≤ tmp) ∧
      (tmp + c.nn ≤ mat ∨ mat + nrows * ncols * c.nn ≤ tmp)) :
    Fr (fun x => In pmat (c.nn * nrows * ncols) x ∨ (8 ≤ c.nn ∧ In tmp c.nn x)) h
      (vmpPrepare c cd h pmat mat nrows ncols tmp tb) ∧
    (vmpPrepare c cd h pmat mat nrows ncols tmp tb).readLimb cd.dflt pmat (c.nn * nrows * ncols) =
      (Module.vmpPrepare c (rdI cd h mat (nrows * ncols * c.nn)) nrows ncols).map cd.enc := by
  obtain ⟨f, v⟩ := vmpPrepare_sim c cd hs hr h pmat mat nrows ncols tmp tb hnn hm4 htb hpm hmat htmp hd1 hd2
  refine ⟨f, ?_⟩
  rw [v, vmpPrepare_eq]
  have hT : ∀ row col, row < nrows → col < ncols →
      (Module.matDft c (rdI cd h mat (nrows * ncols * c.nn)) ncols row col).size = c.nn := by
    intro row col hrow hcol
    rw [matDft_rdI c cd h mat nrows ncols row col hrow hcol]
    exact hs.fft _ (hs.fromZnx _ (by simp))
  exact agree_region (prepG_agree cd.enc c _ nrows ncols hT) _ c.ar.zero _ (by simp)
    (fun x hx => (prepS_iff c nrows ncols hnn hm4 x).2 hx)

end
end Spq.ModuleHeap
