/-
  C05 helper lemmas, heap level: `VecZnx.normalize` as one downward pass over the limbs of `a` with a
  uniform step (`nstep`), the loop invariant relating the heap after the pass to the per-coefficient
  chain `normChain`, and the zero-extension loop.
-/
import SpqProofs.Lemmas.NormChain
import SpqProofs.Lemmas.VecOps
namespace Spq.Norm
open Spq Heap Coeffs Spq.C08

/-! ### `znx_normalize` on vectors -/

theorem znx_size1 (nn k : Nat) (inp : Array Int) (cin : Option (Array Int)) :
    (znxNormalize nn k inp cin).1.size = nn := by simp [znxNormalize]

theorem znx_size2 (nn k : Nat) (inp : Array Int) (cin : Option (Array Int)) :
    (znxNormalize nn k inp cin).2.size = nn := by simp [znxNormalize]

theorem znx_fst (nn k : Nat) (inp : Array Int) (cin : Option (Array Int)) (c : Nat) (hc : c < nn) :
    (znxNormalize nn k inp cin).1[c]? =
      some (normCoef k (inp.getD c 0) (cin.map fun v => v.getD c 0)).1 := by
  simp [znxNormalize, hc]

theorem znx_snd (nn k : Nat) (inp : Array Int) (cin : Option (Array Int)) (c : Nat) (hc : c < nn) :
    (znxNormalize nn k inp cin).2.getD c 0 =
      (normCoef k (inp.getD c 0) (cin.map fun v => v.getD c 0)).2 := by
  simp [znxNormalize, hc, Array.getD_eq_getD_getElem?]

/-! ### normal form of `normalize` -/

abbrev NState := Heap Int × Option (Array Int)

/-- the limb step of `vec_znx_normalize_base2k_ref`: `znx_normalize(nn, k, out, cout, a_i, cin)` with
    `out = res_i` if `i < res_size`, else `out = NULL` -/
def nstep (nn k res rsz rsl a asl : Nat) (st : NState) (i : Nat) : NState :=
  let r := znxNormalize nn k (st.1.readLimb 0 (a + i * asl) nn) st.2
  (if i < rsz then (st.1.touch (a + i * asl) nn).writeLimb (res + i * rsl) r.1
   else st.1.touch (a + i * asl) nn, some r.2)

theorem range_split (rsz asz : Nat) (hr : rsz ≠ 0) (has : asz ≠ 0) :
    (List.range' 0 asz).reverse =
      (List.range' rsz (asz - rsz)).reverse ++ ((List.range' 1 (min rsz asz - 1)).reverse ++ [0]) := by
  obtain ⟨m, rfl⟩ : ∃ m, asz = m + 1 := ⟨asz - 1, by omega⟩
  have key : List.range' 1 m = List.range' 1 (min rsz (m + 1) - 1) ++ List.range' rsz (m + 1 - rsz) := by
    by_cases hlt : rsz < m + 1
    · have := @List.range'_append 1 (min rsz (m + 1) - 1) (m + 1 - rsz) 1
      rw [show 1 + 1 * (min rsz (m + 1) - 1) = rsz by omega] at this
      rw [this]; congr 1; omega
    · rw [show m + 1 - rsz = 0 by omega, show min rsz (m + 1) = m + 1 by omega]
      simp
  rw [List.range'_succ, key]
  simp

theorem normalize_nf (nn k : Nat) (h : Heap Int) (res rsz rsl a asz asl : Nat)
    (hr : rsz ≠ 0) (has : asz ≠ 0) :
    VecZnx.normalize nn k h res rsz rsl a asz asl =
      forLimbs asz rsz (fun i => limb0 (Coeffs.zero i64Ops nn) (res + i * rsl))
        ((List.range' 0 asz).reverse.foldl (nstep nn k res rsz rsl a asl) (h, none)).1 := by
  unfold VecZnx.normalize
  rw [if_neg hr, if_neg has]
  have hl := range_split rsz asz hr has
  rw [hl, List.foldl_append, List.foldl_append]
  simp only [List.foldl_cons, List.foldl_nil]
  have f1 : ∀ (st0 : NState),
      (List.range' rsz (asz - rsz)).reverse.foldl (fun (st : NState) i =>
        let r := Coeffs.znxNormalize nn k (st.1.readLimb 0 (a + i * asl) nn) st.2
        (st.1.touch (a + i * asl) nn, some r.2)) st0
      = (List.range' rsz (asz - rsz)).reverse.foldl (nstep nn k res rsz rsl a asl) st0 := by
    intro st0
    apply foldl_congr_mem
    intro i hi st
    rw [List.mem_reverse, List.mem_range'_1] at hi
    have : ¬ i < rsz := by omega
    simp [nstep, this]
  have f2 : ∀ (st0 : NState),
      (List.range' 1 (min rsz asz - 1)).reverse.foldl (fun (st : NState) i =>
        let r := Coeffs.znxNormalize nn k (st.1.readLimb 0 (a + i * asl) nn) st.2
        ((st.1.touch (a + i * asl) nn).writeLimb (res + i * rsl) r.1, some r.2)) st0
      = (List.range' 1 (min rsz asz - 1)).reverse.foldl (nstep nn k res rsz rsl a asl) st0 := by
    intro st0
    apply foldl_congr_mem
    intro i hi st
    rw [List.mem_reverse, List.mem_range'_1] at hi
    have : i < rsz := by omega
    simp [nstep, this]
  rw [f1, f2]
  have h0 : 0 < rsz := by omega
  simp [nstep, h0]

/-! ### the limbs of one coefficient -/

/-- limbs `lo, …, lo+n-1` of coefficient `c` of the vector at `a` (stride `asl`) -/
def limbsFrom (m : Array Int) (a asl c lo n : Nat) : List Int :=
  (List.range' lo n).map fun i => m.getD (a + i * asl + c) 0

/-- all `asz` limbs of coefficient `c`, most significant first -/
abbrev coefLimbs (m : Array Int) (a asz asl c : Nat) : List Int := limbsFrom m a asl c 0 asz

theorem limbsFrom_succ (m : Array Int) (a asl c lo n : Nat) :
    limbsFrom m a asl c lo (n + 1) = m.getD (a + lo * asl + c) 0 :: limbsFrom m a asl c (lo + 1) n := by
  simp [limbsFrom, List.range'_succ]

theorem limbsFrom_drop (m : Array Int) (a asl c asz i : Nat) :
    (coefLimbs m a asz asl c).drop i = limbsFrom m a asl c i (asz - i) := by
  simp [limbsFrom, ← List.map_drop, List.drop_range']

theorem stride_mono (res rsl nn : Nat) (hsl : nn ≤ rsl) (i j : Nat) (hji : j < i) :
    res + j * rsl + nn ≤ res + i * rsl := by
  have : (j + 1) * rsl ≤ i * rsl := Nat.mul_le_mul_right _ hji
  have h2 : (j + 1) * rsl = j * rsl + rsl := by rw [Nat.add_mul, Nat.one_mul]
  omega

/-! ### loop invariant of the downward pass -/

theorem pass_inv (nn k : Nat) (h : Heap Int) (res rsz rsl a asz asl : Nat)
    (hsl : nn ≤ rsl) (hres : InBounds nn h.mem.size res rsz rsl)
    (ha : SrcOK nn res rsz rsl a asz asl) (n lo : Nat) (hlo : lo + n = asz) :
    let st := (List.range' lo n).reverse.foldl (nstep nn k res rsz rsl a asl) (h, none)
    st.1.mem.size = h.mem.size ∧
    (∀ i c, lo ≤ i → i < asz → i < rsz → c < nn →
      st.1.mem[res + i * rsl + c]? = (normChain k (limbsFrom h.mem a asl c i (asz - i))).1.head?) ∧
    (∀ x, (∀ i, lo ≤ i → i < asz → i < rsz → x < res + i * rsl ∨ res + i * rsl + nn ≤ x) →
      st.1.mem[x]? = h.mem[x]?) ∧
    (∀ c, c < nn → (st.2.map fun v => v.getD c 0) = (normChain k (limbsFrom h.mem a asl c lo n)).2) ∧
    ((∀ i, lo ≤ i → i < asz → a + i * asl + nn ≤ h.mem.size) → st.1.ok = h.ok) := by
  induction n generalizing lo with
  | zero =>
    refine ⟨rfl, ?_, ?_, ?_, ?_⟩
    · intro i c h1 h2; omega
    · intro x _; rfl
    · intro c _; rfl
    · intro _; rfl
  | succ n ih =>
    have ih' := ih (lo + 1) (by omega)
    rw [List.range'_succ, List.reverse_cons, List.foldl_append]
    simp only [List.foldl_cons, List.foldl_nil]
    generalize (List.range' (lo + 1) n).reverse.foldl (nstep nn k res rsz rsl a asl) (h, none) = st at ih'
    obtain ⟨i1, i2, i3, i4, i5⟩ := ih'
    have hloa : lo < asz := by omega
    -- the limb read at step `lo` is the original one
    have hread : st.1.readLimb 0 (a + lo * asl) nn = h.readLimb 0 (a + lo * asl) nn := by
      apply readLimb_congr
      intro x hx1 hx2
      apply i3
      intro i hi1 hi2 hi3
      rcases ha with ⟨rfl, rfl⟩ | hdisj
      · have := stride_mono a asl nn hsl i lo (by omega); omega
      · have := hdisj lo i hloa hi3; omega
    have hinp : ∀ c, c < nn → (h.readLimb 0 (a + lo * asl) nn).getD c 0 = h.mem.getD (a + lo * asl + c) 0 := by
      intro c hc
      rw [Array.getD_eq_getD_getElem?, getElem?_readLimb _ _ _ _ _ hc]; rfl
    have hsz : (nstep nn k res rsz rsl a asl st lo).1.mem.size = h.mem.size := by
      unfold nstep
      split
      · simp [writeLimb, touch, i1]
      · simp [touch, i1]
    refine ⟨hsz, ?_, ?_, ?_, ?_⟩
    · intro i c hi1 hi2 hi3 hc
      by_cases hil : i = lo
      · subst hil
        simp only [nstep, if_pos hi3, writeLimb, touch]
        rw [getElem?_writeArr_of_in _ _ _ _ (by rw [znx_size1]; exact hc)
          (by rw [znx_size1, i1]; exact hres i hi3)]
        rw [znx_fst _ _ _ _ _ hc, hread, hinp c hc, i4 c hc]
        rw [show asz - i = n + 1 by omega, limbsFrom_succ]
        simp [normChain]
      · have hgt : lo < i := by omega
        have hkeep : (nstep nn k res rsz rsl a asl st lo).1.mem[res + i * rsl + c]? = st.1.mem[res + i * rsl + c]? := by
          unfold nstep
          split
          · simp only [writeLimb, touch]
            apply getElem?_writeArr_of_out
            rw [znx_size1]
            have := stride_mono res rsl nn hsl i lo hgt; omega
          · rfl
        rw [hkeep]
        exact i2 i c (by omega) hi2 hi3 hc
    · intro x hx
      have hrest : st.1.mem[x]? = h.mem[x]? :=
        i3 x (fun i hi1 hi2 hi3 => hx i (by omega) hi2 hi3)
      rw [← hrest]
      unfold nstep
      split
      · rename_i hlr
        simp only [writeLimb, touch]
        apply getElem?_writeArr_of_out
        rw [znx_size1]
        have := hx lo (by omega) hloa hlr; omega
      · rfl
    · intro c hc
      have : (nstep nn k res rsz rsl a asl st lo).2 =
          some (znxNormalize nn k (st.1.readLimb 0 (a + lo * asl) nn) st.2).2 := rfl
      rw [this, Option.map_some, znx_snd _ _ _ _ _ hc, hread, hinp c hc, i4 c hc, limbsFrom_succ]
      simp [normChain]
    · intro hab
      have hok := i5 (fun i hi1 hi2 => hab i (by omega) hi2)
      have hb1 := hab lo (by omega) hloa
      unfold nstep
      split
      · rename_i hlr
        have := hres lo hlr
        simp only [writeLimb, touch, znx_size1, i1, hok]
        simp [hb1, this]
      · simp only [touch, i1, hok]
        simp [hb1]

/-! ### the zero-extension loop -/

theorem zeroLoop_spec (nn : Nat) (h : Heap Int) (res rsl lo hi : Nat) (hsl : nn ≤ rsl)
    (hb : ∀ i, lo ≤ i → i < hi → res + i * rsl + nn ≤ h.mem.size) :
    let h' := forLimbs lo hi (fun i => limb0 (Coeffs.zero i64Ops nn) (res + i * rsl)) h
    h'.mem.size = h.mem.size ∧
    (∀ i c, lo ≤ i → i < hi → c < nn → h'.mem[res + i * rsl + c]? = some 0) ∧
    (∀ x, (∀ i, lo ≤ i → i < hi → x < res + i * rsl ∨ res + i * rsl + nn ≤ x) → h'.mem[x]? = h.mem[x]?) ∧
    h'.ok = h.ok := by
  intro h'
  obtain ⟨e1, e2⟩ := forLimbs_nf lo hi (fun i => limb0 (Coeffs.zero i64Ops nn) (res + i * rsl))
    (fun i => res + i * rsl) (fun _ _ => Coeffs.zero i64Ops nn)
    (fun i sz => decide (res + i * rsl + (Coeffs.zero i64Ops nn).size ≤ sz))
    (fun i _ _ => stepNF_limb0 (Coeffs.zero i64Ops nn) (res + i * rsl)) h
  have key := limbLoop_spec nn (fun i => res + i * rsl) (fun _ (_ : Array Int) => Coeffs.zero i64Ops nn)
    (fun _ _ => False) lo (hi - lo) h.mem
    (fun _ _ => by simp)
    (fun _ _ _ _ _ _ _ => rfl)
    (fun _ _ _ _ _ _ hx => hx.elim)
    (fun i j _ hji _ => Or.inl (stride_mono res rsl nn hsl i j hji))
    (fun i h1 h2 => hb i h1 (by omega))
  simp only at key
  obtain ⟨k1, k2, k3⟩ := key
  show (forLimbs lo hi _ h).mem.size = _ ∧ _
  rw [e1, e2]
  refine ⟨k1, ?_, ?_, ?_⟩
  · intro i c h1 h2 hc
    rw [k2 i c h1 (by omega) hc]
    simp [Coeffs.zero, i64Ops, hc]
  · intro x hx
    exact k3 x (fun i h1 h2 => hx i h1 (by omega))
  · have : (List.range' lo (hi - lo)).all (fun i => decide (res + i * rsl + (Coeffs.zero i64Ops nn).size ≤ h.mem.size)) = true := by
      rw [List.all_eq_true]
      intro i hi'
      rw [List.mem_range'_1] at hi'
      have := hb i (by omega) (by omega)
      simp; omega
    rw [this, Bool.and_true]

/-! ### heap-level specification in terms of the model's chain -/

/-- value of output cell `(i, c)` according to the model's chain -/
def chainCell (k : Nat) (m : Array Int) (a asz asl i c : Nat) : Option Int :=
  if i < asz then (normChain k (limbsFrom m a asl c i (asz - i))).1.head? else some 0

theorem normalize_chain_spec (nn k : Nat) (h : Heap Int) (res rsz rsl a asz asl : Nat)
    (hsl : nn ≤ rsl) (hres : InBounds nn h.mem.size res rsz rsl)
    (ha : SrcOK nn res rsz rsl a asz asl) :
    let h' := VecZnx.normalize nn k h res rsz rsl a asz asl
    h'.mem.size = h.mem.size ∧
    (∀ i c, i < rsz → c < nn → h'.mem[res + i * rsl + c]? = chainCell k h.mem a asz asl i c) ∧
    Frame nn res rsz rsl h.mem h'.mem ∧
    (InBounds nn h.mem.size a asz asl → h'.ok = h.ok) := by
  intro h'
  by_cases hr : rsz = 0
  · have e : h' = h := by show VecZnx.normalize _ _ _ _ _ _ _ _ _ = _; unfold VecZnx.normalize; rw [if_pos hr]
    rw [e]
    refine ⟨rfl, ?_, fun x _ => rfl, fun _ => rfl⟩
    intro i c hi; omega
  by_cases has : asz = 0
  · have e : h' = forLimbs 0 rsz (fun i => limb0 (Coeffs.zero i64Ops nn) (res + i * rsl)) h := by
      show VecZnx.normalize _ _ _ _ _ _ _ _ _ = _; unfold VecZnx.normalize; rw [if_neg hr, if_pos has]
    obtain ⟨z1, z2, z3, z4⟩ := zeroLoop_spec nn h res rsl 0 rsz hsl (fun i _ hi => hres i hi)
    rw [e]
    refine ⟨z1, ?_, ?_, fun _ => z4⟩
    · intro i c hi hc
      rw [z2 i c (Nat.zero_le _) hi hc]
      simp [chainCell, has]
    · intro x hx
      exact z3 x (fun i _ hi => hx i hi)
  · have e : h' = _ := normalize_nf nn k h res rsz rsl a asz asl hr has
    have inv := pass_inv nn k h res rsz rsl a asz asl hsl hres ha asz 0 (by omega)
    simp only at inv
    generalize (List.range' 0 asz).reverse.foldl (nstep nn k res rsz rsl a asl) (h, none) = st at inv e
    obtain ⟨i1, i2, i3, _, i5⟩ := inv
    obtain ⟨z1, z2, z3, z4⟩ := zeroLoop_spec nn st.1 res rsl asz rsz hsl
      (fun i _ hi => by rw [i1]; exact hres i hi)
    rw [e]
    refine ⟨by rw [z1, i1], ?_, ?_, ?_⟩
    · intro i c hi hc
      by_cases hia : i < asz
      · rw [z3 _ (fun j hj1 hj2 => by
          have := stride_mono res rsl nn hsl j i (by omega); omega)]
        rw [i2 i c (Nat.zero_le _) hia hi hc]
        simp [chainCell, hia]
      · rw [z2 i c (by omega) hi hc]
        simp [chainCell, hia]
    · intro x hx
      rw [z3 x (fun i _ hi => hx i hi)]
      exact i3 x (fun i _ _ hi => hx i hi)
    · intro hab
      rw [z4]
      exact i5 (fun i _ hi => hab i hi)

end Spq.Norm
