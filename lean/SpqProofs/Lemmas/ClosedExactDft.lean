/-
  Closing C01/C02/C16 over the real FFT network, step 4: `ExactDft (exactParts rt fl) rt.z` — H1–H4 hold for the
  module whose `fft` / `ifft` are the network, with the evaluation points `z_j = ζ^(1 + 4·brev_k j)`.
-/
import SpqProofs.Lemmas.ClosedDft
namespace Spq.Closed
open Finset Spq Spq.Fft Spq.Fft.Alg

variable {R : Type} [CommRing R] {k : ℕ} (rt : RootData R k) (fl : Flags)

theorem getD_ofFn {α : Type} (n : ℕ) (g : ℕ → α) (t : ℕ) (ht : t < n) (z : α) :
    (Array.ofFn (n := n) fun i => g i.val).getD t z = g t := by
  simp [Array.getD_eq_getD_getElem?, ht]

/-- **H1–H4 for the real network** (`exactDft_of_network`) -/
theorem exactDft_of_network : Module.ExactDft (exactParts rt fl) rt.z where
  fromZnx_size := by intro x _; simp [exactParts]
  fromZnx_get := by
    intro x _ t ht
    exact getD_ofFn (2 * 2 ^ k) (fun i => ((x.getD i 0 : Int) : R)) t ht 0
  hz := by intro j _; rw [exactParts_m]; exact z_pow_m rt j
  fft_size := by intro d hd; exact netFft_size rt fl.fftFma d hd
  fft_eval := by
    intro d hd j hj
    rw [exactParts_m] at hj ⊢
    exact netFft_eval rt fl.fftFma d hd j hj
  ifft_size := by
    intro d hd
    exact netIfft_size rt fl.ifftFma _ (netFft_size rt fl.fftFma d hd)
  ifft_fft := by
    intro d hd t ht
    rw [exactParts_m]
    exact netIfft_netFft rt fl.fftFma fl.ifftFma d hd t ht
  toZnx_round := by
    intro d cs hd hcs h
    rw [exactParts_nn] at hd hcs h
    rw [exactParts_m] at h
    show (Array.ofFn (n := 2 * 2 ^ k) fun i => rt.rd (d.getD i.val 0)) = cs
    apply Array.ext
    · simp [hcs]
    · intro t h1 h2
      have ht : t < 2 * 2 ^ k := by simpa using h1
      have e : cs[t] = icoef cs t := by simp [icoef, Array.getD_eq_getD_getElem?, h2]
      rw [Array.getElem_ofFn, h t ht, rt.hrd, e]

end Spq.Closed
