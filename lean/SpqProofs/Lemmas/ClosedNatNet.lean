/-
  Naturality of the reim FFT / iFFT network (`Spq/Fft/Kernels.lean`, `Spq/Fft/Reim.lean`), function by function.
-/
import SpqProofs.Lemmas.ClosedNat
set_option linter.unusedSectionVars false
set_option linter.unusedVariables false
namespace Spq.Closed
open Spq.Fft

variable {A B : Type} [Inhabited A] [Inhabited B]

/-- close a goal `mapRI f (net …) = net' …` whose two sides are the same composition of `bf` / `iterFrom` -/
macro "nat_net" hf:term : tactic => `(tactic|
  repeat' (first
    | with_reducible assumption
    | with_reducible exact (getElem!_map _ $hf _ _).symm
    | (with_reducible apply iterFrom_congr; intro _ _ _ _)
    | (with_reducible apply bf_congr _ $hf)))

section
variable {f : A → B} (hf : f default = default) {F : Flav A} {F' : Flav B} (hF : FlavNat f F F')
include hf hF

theorem twPass_nat (pick : Flav A → Bf A) (pick' : Flav B → Bf B) (hp : BfNat f (pick F) (pick' F'))
    (h off : Nat) (wr wi : A) (s : RI A) :
    mapRI f (twPass (pick F) h off wr wi s) = twPass (pick' F') h off (f wr) (f wi) (mapRI f s) := by
  unfold twPass
  apply iterFrom_congr; intro _ _ _ _
  apply bf_congr _ hf hp
  · assumption
  · rfl
  · rfl
  · rfl

theorem fft2_nat (T : Array A) (t off : Nat) (s : RI A) :
    mapRI f (fft2 F T t off s) = fft2 F' (T.map f) t off (mapRI f s) := by
  obtain ⟨h1, h2, h3, h4, h5⟩ := hF
  have h0 : mapRI f s = mapRI f s := rfl
  unfold fft2
  try dsimp only
  nat_net hf

theorem fft4_nat (T : Array A) (t off : Nat) (s : RI A) :
    mapRI f (fft4 F T t off s) = fft4 F' (T.map f) t off (mapRI f s) := by
  obtain ⟨h1, h2, h3, h4, h5⟩ := hF
  have h0 : mapRI f s = mapRI f s := rfl
  unfold fft4
  try dsimp only
  nat_net hf

theorem fft8_nat (T : Array A) (t off : Nat) (s : RI A) :
    mapRI f (fft8 F T t off s) = fft8 F' (T.map f) t off (mapRI f s) := by
  obtain ⟨h1, h2, h3, h4, h5⟩ := hF
  have h0 : mapRI f s = mapRI f s := rfl
  unfold fft8
  try dsimp only
  nat_net hf

theorem fft16K_nat (w : Nat → A × A) (w' : Nat → B × B) (hw1 : ∀ k, f (w k).1 = (w' k).1)
    (hw2 : ∀ k, f (w k).2 = (w' k).2) (off : Nat) (s : RI A) :
    mapRI f (fft16K F w off s) = fft16K F' w' off (mapRI f s) := by
  obtain ⟨h1, h2, h3, h4, h5⟩ := hF
  have h0 : mapRI f s = mapRI f s := rfl
  unfold fft16K
  try dsimp only
  nat_net hf
  all_goals first | exact hw1 _ | exact hw2 _

theorem ifft16K_nat (w : Nat → A × A) (w' : Nat → B × B) (hw1 : ∀ k, f (w k).1 = (w' k).1)
    (hw2 : ∀ k, f (w k).2 = (w' k).2) (off : Nat) (s : RI A) :
    mapRI f (ifft16K F w off s) = ifft16K F' w' off (mapRI f s) := by
  obtain ⟨h1, h2, h3, h4, h5⟩ := hF
  have h0 : mapRI f s = mapRI f s := rfl
  unfold ifft16K
  try dsimp only
  nat_net hf
  all_goals first | exact hw1 _ | exact hw2 _

theorem fft16_nat (T : Array A) (t off : Nat) (s : RI A) :
    mapRI f (fft16 F T t off s) = fft16 F' (T.map f) t off (mapRI f s) := by
  unfold fft16
  apply fft16K_nat hf hF
  · intro k; unfold reimW16; split <;> exact (getElem!_map _ hf _ _).symm
  · intro k; unfold reimW16; split <;> exact (getElem!_map _ hf _ _).symm

theorem ifft16_nat (T : Array A) (t off : Nat) (s : RI A) :
    mapRI f (ifft16 F T t off s) = ifft16 F' (T.map f) t off (mapRI f s) := by
  unfold ifft16
  apply ifft16K_nat hf hF
  · intro k; unfold reimIW16; split <;> exact (getElem!_map _ hf _ _).symm
  · intro k; unfold reimIW16; split <;> exact (getElem!_map _ hf _ _).symm

theorem bitwiddle_nat (T : Array A) (t h off : Nat) (s : RI A) :
    mapRI f (bitwiddle F T t h off s) = bitwiddle F' (T.map f) t h off (mapRI f s) := by
  obtain ⟨h1, h2, h3, h4, h5⟩ := hF
  have h0 : mapRI f s = mapRI f s := rfl
  unfold bitwiddle
  try dsimp only
  nat_net hf

theorem invbitwiddle_nat (T : Array A) (t h off : Nat) (s : RI A) :
    mapRI f (invbitwiddle F T t h off s) = invbitwiddle F' (T.map f) t h off (mapRI f s) := by
  obtain ⟨h1, h2, h3, h4, h5⟩ := hF
  have h0 : mapRI f s = mapRI f s := rfl
  unfold invbitwiddle
  try dsimp only
  nat_net hf

theorem ifft2_nat (T : Array A) (t off : Nat) (s : RI A) :
    mapRI f (ifft2 F T t off s) = ifft2 F' (T.map f) t off (mapRI f s) := by
  obtain ⟨h1, h2, h3, h4, h5⟩ := hF
  have h0 : mapRI f s = mapRI f s := rfl
  unfold ifft2
  try dsimp only
  nat_net hf

theorem ifft4_nat (T : Array A) (t off : Nat) (s : RI A) :
    mapRI f (ifft4 F T t off s) = ifft4 F' (T.map f) t off (mapRI f s) := by
  obtain ⟨h1, h2, h3, h4, h5⟩ := hF
  have h0 : mapRI f s = mapRI f s := rfl
  unfold ifft4
  try dsimp only
  nat_net hf

theorem ifft8_nat (T : Array A) (t off : Nat) (s : RI A) :
    mapRI f (ifft8 F T t off s) = ifft8 F' (T.map f) t off (mapRI f s) := by
  obtain ⟨h1, h2, h3, h4, h5⟩ := hF
  have h0 : mapRI f s = mapRI f s := rfl
  unfold ifft8
  try dsimp only
  nat_net hf

end
end Spq.Closed
