/-
  Layout lemmas for C17: block extraction / saving and the cplx <-> reim4 conversions are pure data
  movement; each kernel is characterised cell by cell (values + frame), the AVX variants are equal to
  the reference ones.
-/
import SpqProofs.Lemmas.Reim4Base
import Mathlib.Tactic.Ring
namespace Spq.Reim4
variable {α : Type}

theorem ext_getD (z : α) (a b : Array α) (hs : a.size = b.size) (h : ∀ i, a.getD i z = b.getD i z) : a = b := by
  apply Array.ext hs
  intro i h1 h2
  have := h i
  simp only [Array.getD_eq_getD_getElem?, Array.getElem?_eq_getElem h1, Array.getElem?_eq_getElem h2, Option.getD_some] at this
  exact this

/-! ### scalar and vector copies coincide -/

theorem copy4_eq_vcopy4 (z : α) (dst : Array α) (d : Nat) (src : Array α) (s : Nat) :
    copy4 z dst d src s = vcopy4 z dst d src s := rfl

theorem extract1blkFromReim_avx_eq (z : α) (m blk : Nat) (dst src : Array α) :
    extract1blkFromReimAvx z m blk dst src = extract1blkFromReimRef z m blk dst src := rfl

theorem extract1blkFromContiguousReim_avx_eq (z : α) (m nrows blk : Nat) (dst src : Array α) :
    extract1blkFromContiguousReimAvx z m nrows blk dst src = extract1blkFromContiguousReimRef z m nrows blk dst src := rfl

theorem extract1blkFromContiguousReimSl_avx_eq (z : α) (m sl nrows blk : Nat) (dst src : Array α) :
    extract1blkFromContiguousReimSlAvx z m sl nrows blk dst src = extract1blkFromContiguousReimSlRef z m sl nrows blk dst src := rfl

theorem save1blkToReim_avx_eq (z : α) (m blk : Nat) (dst src : Array α) :
    save1blkToReimAvx z m blk dst src = save1blkToReimRef z m blk dst src := rfl

/-! ### the loops as instances of the combinators -/

theorem extractC_eq_mapV4 (z : α) (m nrows blk : Nat) (dst src : Array α) :
    extract1blkFromContiguousReimRef z m nrows blk dst src =
      mapV4 z (2 * nrows) (fun i => 4 * i) (fun i _ => V4.load z src (4 * blk + i * m)) dst := rfl

theorem extractSl_eq_mapV4x2 (z : α) (m sl nrows blk : Nat) (dst src : Array α) :
    extract1blkFromContiguousReimSlRef z m sl nrows blk dst src =
      mapV4x2 z nrows (fun i => 8 * i) (fun i => 8 * i + 4)
        (fun i _ _ => (V4.load z src (4 * blk + i * sl), V4.load z src (4 * blk + i * sl + m))) dst := rfl

theorem fromCplxRef_eq_mapV4x2 (z : α) (m : Nat) (r x : Array α) :
    fromCplxRef z m r x =
      mapV4x2 z (m / 4) (fun i => 8 * i) (fun i => 8 * i + 4)
        (fun i _ _ => (⟨x.getD (8 * i) z, x.getD (8 * i + 4) z, x.getD (8 * i + 2) z, x.getD (8 * i + 6) z⟩,
                       ⟨x.getD (8 * i + 1) z, x.getD (8 * i + 5) z, x.getD (8 * i + 3) z, x.getD (8 * i + 7) z⟩)) r := rfl

theorem toCplxRef_eq_mapV4x2 (z : α) (m : Nat) (y a : Array α) :
    toCplxRef z m y a =
      mapV4x2 z (m / 4) (fun i => 8 * i) (fun i => 8 * i + 4)
        (fun i _ _ => (⟨a.getD (8 * i) z, a.getD (8 * i + 4) z, a.getD (8 * i + 2) z, a.getD (8 * i + 6) z⟩,
                       ⟨a.getD (8 * i + 1) z, a.getD (8 * i + 5) z, a.getD (8 * i + 3) z, a.getD (8 * i + 7) z⟩)) y := rfl

/-- the in-block permutation applied by both conversions: an involution of `{0..7}` -/
def perm8 (u : Nat) : Nat :=
  match u with
  | 1 => 4
  | 3 => 6
  | 4 => 1
  | 6 => 3
  | u => u

theorem perm8_invol (u : Nat) : perm8 (perm8 u) = u := by
  unfold perm8
  rcases u with _ | _ | _ | _ | _ | _ | _ | _ | u <;> rfl

theorem perm8_lt (u : Nat) (h : u < 8) : perm8 u < 8 := by
  unfold perm8
  rcases u with _ | _ | _ | _ | _ | _ | _ | _ | u <;> first | omega | decide

/-- the two conversions are the same block shuffle: cell `8b+u` of the output is cell `8b + perm8 u` of the input -/
theorem shuffle8_spec (z : α) (nb : Nat) (r x : Array α) (hr : 8 * nb ≤ r.size) :
    let res := mapV4x2 z nb (fun i => 8 * i) (fun i => 8 * i + 4)
        (fun i _ _ => (⟨x.getD (8 * i) z, x.getD (8 * i + 4) z, x.getD (8 * i + 2) z, x.getD (8 * i + 6) z⟩,
                       ⟨x.getD (8 * i + 1) z, x.getD (8 * i + 5) z, x.getD (8 * i + 3) z, x.getD (8 * i + 7) z⟩)) r
    res.size = r.size ∧
    (∀ b u, b < nb → u < 8 → res.getD (8 * b + u) z = x.getD (8 * b + perm8 u) z) ∧
    (∀ i, 8 * nb ≤ i → res.getD i z = r.getD i z) := by
  intro res
  have sp := mapV4x2_spec z nb (fun i => 8 * i) (fun i => 8 * i + 4)
    (fun i _ _ => (⟨x.getD (8 * i) z, x.getD (8 * i + 4) z, x.getD (8 * i + 2) z, x.getD (8 * i + 6) z⟩,
                   ⟨x.getD (8 * i + 1) z, x.getD (8 * i + 5) z, x.getD (8 * i + 3) z, x.getD (8 * i + 7) z⟩)) r
    (by intro j j' _ _ _; omega) (by intro j j' _ _ _; omega) (by intro j j' _ _; omega)
    (by intro j hj; omega)
  obtain ⟨s1, s2, s3⟩ := sp
  refine ⟨s1, ?_, ?_⟩
  · intro b u hb hu
    by_cases h4 : u < 4
    · have := (s2 b hb u h4).1
      simp only at this
      show res.getD (8 * b + u) z = _
      rw [this]
      rcases u with _ | _ | _ | _ | u
      · rfl
      · rfl
      · rfl
      · rfl
      · omega
    · have := (s2 b hb (u - 4) (by omega)).2
      simp only at this
      have e : 8 * b + u = 8 * b + 4 + (u - 4) := by omega
      show res.getD (8 * b + u) z = _
      rw [e, this]
      rcases u with _ | _ | _ | _ | _ | _ | _ | _ | u
      · omega
      · omega
      · omega
      · omega
      · rfl
      · rfl
      · rfl
      · rfl
      · omega
  · intro i hi
    apply s3
    intro j hj
    omega

end Spq.Reim4

namespace Spq.Reim4
variable {α : Type}

/-! ### the FMA conversions are the reference conversions -/

theorem unpackLoopFma_eq (z : α) (m : Nat) (h : m % 4 = 0) (r x : Array α) :
    unpackLoopFma z m r x = some (fromCplxRef z m r x) := by
  unfold unpackLoopFma fromCplxRef
  simp only [h, bne_self_eq_false, Bool.false_eq_true, if_false]
  rfl

theorem toCplxRef_eq_fromCplxRef (z : α) (m : Nat) (y a : Array α) : toCplxRef z m y a = fromCplxRef z m y a := by
  rw [toCplxRef_eq_mapV4x2, fromCplxRef_eq_mapV4x2]

end Spq.Reim4
