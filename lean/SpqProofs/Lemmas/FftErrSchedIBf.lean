/-
  C06.4: rounding error of the INVERSE butterflies `(a, b) ↦ (a + b, (a − b)·w̄)` of `Spq/Fft/Core.lean`
  (`ictRef`, `ictFma`, `icitRef`, `icitFmaB`, `icitFmaN`) under the standard model, with a stored twiddle within `τ`
  of the exact one: 2-norm relative error `eta u τ`, the same constant as the forward butterflies.
-/
import SpqProofs.Lemmas.FftErrBfly
set_option linter.unusedSectionVars false
namespace Spq.FftErr
open Spq.Fft
variable {K : Type} [Field K] [LinearOrder K] [IsStrictOrderedRing K]

/-- `g` computes the inverse butterfly `(a, b) ↦ (a + b, w·(a − b))` with 2-norm relative error `η` -/
def IBfErrAt (g : Cplx K → Cplx K → Cplx K × Cplx K) (w : Cplx K) (η : K) : Prop :=
  ∀ a b, nsq ((g a b).1 - (a + b)) + nsq ((g a b).2 - w * (a - b)) ≤ η ^ 2 * (nsq (a + b) + nsq (w * (a - b)))

/-- core: rounded sum, rounded difference `d`, then any computed product `n̂ ≈ ŵ·d` with componentwise bounds -/
theorem ibfly_core (u τ : K) (hu : 0 ≤ u) (hτ : 0 ≤ τ) (a b wh w : Cplx K) (hw : nsq w = 1) (hτw : nsq (wh - w) ≤ τ ^ 2)
    (o1 d nh : Cplx K)
    (h1r : |o1.re - (a.re + b.re)| ≤ u * |a.re + b.re|) (h1i : |o1.im - (a.im + b.im)| ≤ u * |a.im + b.im|)
    (hdr : |d.re - (a.re - b.re)| ≤ u * |a.re - b.re|) (hdi : |d.im - (a.im - b.im)| ≤ u * |a.im - b.im|)
    (hnr : |nh.re - (d.re * wh.re - d.im * wh.im)| ≤ gam u * (|d.re * wh.re| + |d.im * wh.im|))
    (hni : |nh.im - (d.re * wh.im + d.im * wh.re)| ≤ gam u * (|d.re * wh.im| + |d.im * wh.re|)) :
    nsq (o1 - (a + b)) + nsq (nh - w * (a - b)) ≤ eta u τ ^ 2 * (nsq (a + b) + nsq (w * (a - b))) := by
  have hρ := rho_nonneg hu hτ
  have hη := eta_nonneg hu hτ
  have e1 := nsq_comp_err u o1 (a + b) (by simpa using h1r) (by simpa using h1i)
  have e2 := nsq_comp_err u d (a - b) (by simpa using hdr) (by simpa using hdi)
  have hD : nsq (w * (a - b)) = nsq (a - b) := by rw [nsq_mul, hw, one_mul]
  rw [hD]
  obtain ⟨D, hDd⟩ : ∃ D, D = nsq (a - b) := ⟨_, rfl⟩
  rw [← hDd] at e2 ⊢
  have hD0 : 0 ≤ D := by rw [hDd]; exact nsq_nonneg _
  -- size of the computed difference
  have hd : nsq d ≤ (1 + u) ^ 2 * D := by
    have := one_tri (a - b) (d - (a - b)) 1 u D (by norm_num) hu (by rw [hDd]; linarith) e2
    rw [show a - b + (d - (a - b)) = d by ring] at this
    exact this
  -- the product
  have hp := prod_err u τ hu hτ d wh w hw hτw nh hnr hni
  have hp' : nsq (nh - w * d) ≤ (rho u τ * (1 + u)) ^ 2 * D := by
    have h0 : 0 ≤ rho u τ ^ 2 := by positivity
    have := mul_le_mul_of_nonneg_left hd h0
    rw [mul_pow]; linarith
  have hwd : nsq (w * d - w * (a - b)) ≤ u ^ 2 * D := by
    rw [← mul_sub, nsq_mul, hw, one_mul]; exact e2
  have h2 := one_tri (nh - w * d) (w * d - w * (a - b)) (rho u τ * (1 + u)) u D (by positivity) hu hp' hwd
  rw [show nh - w * d + (w * d - w * (a - b)) = nh - w * (a - b) by ring] at h2
  have he : rho u τ * (1 + u) + u = eta u τ := by unfold eta; ring
  rw [he] at h2
  have hue : u ^ 2 ≤ eta u τ ^ 2 := by
    apply pow_le_pow_left₀ hu
    unfold eta; nlinarith
  have hS := nsq_nonneg (a + b)
  nlinarith [mul_le_mul_of_nonneg_right hue hS]

/-- `reim_invctwiddle` / cplx `invctwiddle`, reference flavour -/
theorem ibutterfly_err_ref (A : Arith K) (u τ : K) (sm : FStd A u) (hτ : 0 ≤ τ) (wh w : Cplx K)
    (hw : nsq w = 1) (hτw : nsq (wh - w) ≤ τ ^ 2) :
    IBfErrAt (fun a b => bfC (ictRef A) a b wh) w (eta u τ) := by
  intro a b
  have hu := sm.u_nonneg
  obtain ⟨dr, hdr⟩ : ∃ dr, dr = A.sub a.re b.re := ⟨_, rfl⟩
  obtain ⟨di, hdi⟩ : ∃ di, di = A.sub a.im b.im := ⟨_, rfl⟩
  have t1 := (Reim4.term_err u dr wh.re di wh.im (A.mul dr wh.re) (A.mul di wh.im)
    (A.sub (A.mul dr wh.re) (A.mul di wh.im)) (-1) hu (Or.inr rfl) (sm.mul _ _) (sm.mul _ _)
    (by have := sm.sub (A.mul dr wh.re) (A.mul di wh.im)
        rw [show A.mul dr wh.re + -1 * A.mul di wh.im = A.mul dr wh.re - A.mul di wh.im by ring]
        exact this)).1
  rw [show dr * wh.re + -1 * (di * wh.im) = dr * wh.re - di * wh.im by ring] at t1
  have t2 := (Reim4.term_err u dr wh.im di wh.re (A.mul dr wh.im) (A.mul di wh.re)
    (A.add (A.mul dr wh.im) (A.mul di wh.re)) 1 hu (Or.inl rfl) (sm.mul _ _) (sm.mul _ _)
    (by have := sm.add (A.mul dr wh.im) (A.mul di wh.re)
        rw [one_mul]; exact this)).1
  rw [one_mul] at t2
  have := ibfly_core u τ hu hτ a b wh w hw hτw ⟨A.add a.re b.re, A.add a.im b.im⟩ ⟨dr, di⟩
    ⟨A.sub (A.mul dr wh.re) (A.mul di wh.im), A.add (A.mul dr wh.im) (A.mul di wh.re)⟩
    (sm.add _ _) (sm.add _ _) (by rw [hdr]; exact sm.sub _ _) (by rw [hdi]; exact sm.sub _ _) t1 t2
  simp only [bfC, ictRef, ← hdr, ← hdi]
  exact this

/-- FMA flavour -/
theorem ibutterfly_err_fma (A : Arith K) (u τ : K) (sm : FStd A u) (hτ : 0 ≤ τ) (wh w : Cplx K)
    (hw : nsq w = 1) (hτw : nsq (wh - w) ≤ τ ^ 2) :
    IBfErrAt (fun a b => bfC (ictFma A) a b wh) w (eta u τ) := by
  intro a b
  have hu := sm.u_nonneg
  obtain ⟨dr, hdr⟩ : ∃ dr, dr = A.sub a.re b.re := ⟨_, rfl⟩
  obtain ⟨di, hdi⟩ : ∃ di, di = A.sub a.im b.im := ⟨_, rfl⟩
  have t1 := fused_err u (dr * wh.re) (di * wh.im) (A.mul di wh.im) (A.fms dr wh.re (A.mul di wh.im)) (-1)
    hu (Or.inr rfl) (sm.mul _ _)
    (by have := sm.fms dr wh.re (A.mul di wh.im)
        rw [show dr * wh.re + -1 * A.mul di wh.im = dr * wh.re - A.mul di wh.im by ring]
        exact this)
  rw [show dr * wh.re + -1 * (di * wh.im) = dr * wh.re - di * wh.im by ring] at t1
  have t2 := fused_err u (di * wh.re) (dr * wh.im) (A.mul dr wh.im) (A.fma di wh.re (A.mul dr wh.im)) 1
    hu (Or.inl rfl) (sm.mul _ _)
    (by have := sm.fma di wh.re (A.mul dr wh.im)
        rw [one_mul]; exact this)
  rw [one_mul, add_comm (di * wh.re), add_comm |di * wh.re|] at t2
  have := ibfly_core u τ hu hτ a b wh w hw hτw ⟨A.add a.re b.re, A.add a.im b.im⟩ ⟨dr, di⟩
    ⟨A.fms dr wh.re (A.mul di wh.im), A.fma di wh.re (A.mul dr wh.im)⟩
    (sm.add _ _) (sm.add _ _) (by rw [hdr]; exact sm.sub _ _) (by rw [hdi]; exact sm.sub _ _) t1 t2
  simp only [bfC, ictFma, ← hdr, ← hdi]
  exact this

/-! ### the `−i·w̄` inverse butterflies (`invcitwiddle`): exact twiddle `−i·w`, stored `(ŵ_im, −ŵ_re)` -/

theorem negIc_mul (z : Cplx K) : -Ic * z = ⟨z.im, -z.re⟩ := by
  rw [neg_mul, Ic_mul]; ext <;> simp

theorem nsq_negIc_mul (z : Cplx K) : nsq (-Ic * z) = nsq z := by
  rw [negIc_mul]; simp only [nsq]; ring

theorem irot_tw {wh w : Cplx K} {τ : K} (hτw : nsq (wh - w) ≤ τ ^ 2) :
    nsq ((⟨wh.im, -wh.re⟩ : Cplx K) - -Ic * w) ≤ τ ^ 2 := by
  rw [← negIc_mul, ← mul_sub, nsq_negIc_mul]; exact hτw

/-- 4/8-point inverse kernels: `ictFma` with the twiddle `(ωi, −ωr)` -/
theorem ibutterfly_err_cit_fmaN (A : Arith K) (u τ : K) (sm : FStd A u) (hτ : 0 ≤ τ) (wh w : Cplx K)
    (hw : nsq w = 1) (hτw : nsq (wh - w) ≤ τ ^ 2) :
    IBfErrAt (fun a b => bfC (icitFmaN A) a b wh) (-Ic * w) (eta u τ) := by
  intro a b
  have := ibutterfly_err_fma A u τ sm hτ ⟨wh.im, -wh.re⟩ (-Ic * w) (by rw [nsq_negIc_mul]; exact hw) (irot_tw hτw) a b
  simp only [bfC, icitFmaN, sm.neg] at this ⊢
  exact this

/-- `reim_invcitwiddle`, reference flavour -/
theorem ibutterfly_err_cit_ref (A : Arith K) (u τ : K) (sm : FStd A u) (hτ : 0 ≤ τ) (wh w : Cplx K)
    (hw : nsq w = 1) (hτw : nsq (wh - w) ≤ τ ^ 2) :
    IBfErrAt (fun a b => bfC (icitRef A) a b wh) (-Ic * w) (eta u τ) := by
  intro a b
  have hu := sm.u_nonneg
  obtain ⟨dr, hdr⟩ : ∃ dr, dr = A.sub a.re b.re := ⟨_, rfl⟩
  obtain ⟨di, hdi⟩ : ∃ di, di = A.sub a.im b.im := ⟨_, rfl⟩
  have t1 := (Reim4.term_err u dr wh.im di wh.re (A.mul dr wh.im) (A.mul di wh.re)
    (A.add (A.mul dr wh.im) (A.mul di wh.re)) 1 hu (Or.inl rfl) (sm.mul _ _) (sm.mul _ _)
    (by have := sm.add (A.mul dr wh.im) (A.mul di wh.re)
        rw [one_mul]; exact this)).1
  rw [one_mul] at t1
  have t2 := (Reim4.term_err u (-dr) wh.re di wh.im (A.mul (-dr) wh.re) (A.mul di wh.im)
    (A.add (A.mul (-dr) wh.re) (A.mul di wh.im)) 1 hu (Or.inl rfl) (sm.mul _ _) (sm.mul _ _)
    (by have := sm.add (A.mul (-dr) wh.re) (A.mul di wh.im)
        rw [one_mul]; exact this)).1
  rw [one_mul] at t2
  have := ibfly_core u τ hu hτ a b ⟨wh.im, -wh.re⟩ (-Ic * w) (by rw [nsq_negIc_mul]; exact hw) (irot_tw hτw)
    ⟨A.add a.re b.re, A.add a.im b.im⟩ ⟨dr, di⟩
    ⟨A.add (A.mul dr wh.im) (A.mul di wh.re), A.add (A.mul (-dr) wh.re) (A.mul di wh.im)⟩
    (sm.add _ _) (sm.add _ _) (by rw [hdr]; exact sm.sub _ _) (by rw [hdi]; exact sm.sub _ _)
    (by
      show |A.add (A.mul dr wh.im) (A.mul di wh.re) - (dr * wh.im - di * -wh.re)| ≤
        gam u * (|dr * wh.im| + |di * -wh.re|)
      rw [show dr * wh.im - di * -wh.re = dr * wh.im + di * wh.re by ring, mul_neg, abs_neg]
      exact t1)
    (by
      show |A.add (A.mul (-dr) wh.re) (A.mul di wh.im) - (dr * -wh.re + di * wh.im)| ≤
        gam u * (|dr * -wh.re| + |di * wh.im|)
      rw [show dr * -wh.re = -dr * wh.re by ring]
      exact t2)
  simp only [bfC, icitRef, sm.neg, ← hdr, ← hdi]
  exact this

/-- FMA shape B (`reim_invbitwiddle_ifft_avx2_fma`, assembly leaves): `fma(ωi, rd, fl(ωr·id))`, `fms(ωi, id, fl(ωr·rd))` -/
theorem ibutterfly_err_cit_fmaB (A : Arith K) (u τ : K) (sm : FStd A u) (hτ : 0 ≤ τ) (wh w : Cplx K)
    (hw : nsq w = 1) (hτw : nsq (wh - w) ≤ τ ^ 2) :
    IBfErrAt (fun a b => bfC (icitFmaB A) a b wh) (-Ic * w) (eta u τ) := by
  intro a b
  have hu := sm.u_nonneg
  obtain ⟨dr, hdr⟩ : ∃ dr, dr = A.sub a.re b.re := ⟨_, rfl⟩
  obtain ⟨di, hdi⟩ : ∃ di, di = A.sub a.im b.im := ⟨_, rfl⟩
  have t1 := fused_err u (wh.im * dr) (wh.re * di) (A.mul wh.re di) (A.fma wh.im dr (A.mul wh.re di)) 1
    hu (Or.inl rfl) (sm.mul _ _) (by rw [one_mul]; exact sm.fma _ _ _)
  rw [one_mul] at t1
  have t2 := fused_err u (wh.im * di) (wh.re * dr) (A.mul wh.re dr) (A.fms wh.im di (A.mul wh.re dr)) (-1)
    hu (Or.inr rfl) (sm.mul _ _)
    (by rw [show wh.im * di + -1 * A.mul wh.re dr = wh.im * di - A.mul wh.re dr by ring]; exact sm.fms _ _ _)
  have := ibfly_core u τ hu hτ a b ⟨wh.im, -wh.re⟩ (-Ic * w) (by rw [nsq_negIc_mul]; exact hw) (irot_tw hτw)
    ⟨A.add a.re b.re, A.add a.im b.im⟩ ⟨dr, di⟩
    ⟨A.fma wh.im dr (A.mul wh.re di), A.fms wh.im di (A.mul wh.re dr)⟩
    (sm.add _ _) (sm.add _ _) (by rw [hdr]; exact sm.sub _ _) (by rw [hdi]; exact sm.sub _ _)
    (by
      show |A.fma wh.im dr (A.mul wh.re di) - (dr * wh.im - di * -wh.re)| ≤ gam u * (|dr * wh.im| + |di * -wh.re|)
      rw [show dr * wh.im - di * -wh.re = wh.im * dr + wh.re * di by ring, mul_neg, abs_neg, mul_comm dr, mul_comm di]
      exact t1)
    (by
      show |A.fms wh.im di (A.mul wh.re dr) - (dr * -wh.re + di * wh.im)| ≤ gam u * (|dr * -wh.re| + |di * wh.im|)
      rw [show dr * -wh.re + di * wh.im = wh.im * di + -1 * (wh.re * dr) by ring, mul_neg, abs_neg, mul_comm dr,
        mul_comm di, add_comm |wh.re * dr|]
      exact t2)
  simp only [bfC, icitFmaB, ← hdr, ← hdi]
  exact this

end Spq.FftErr
