/-
  C01 rounding budget, step 2: facts about the EXACT networks used to compose the error bounds.
  * Parseval: `Σ‖V ℓ d‖² = 2^ℓ·Σ‖a‖²` (forward network, unit-modulus root), `Σ‖WI n‖² = 2^n·Σ‖y‖²` (inverse network);
  * the inverse network is linear;
  * `|Σ_t f_t| ≤ Σ_t g_t` when `|f_t| ≤ g_t` (squared form), used for `|A(z)| ≤ ‖a‖₁`.
-/
import SpqProofs.Lemmas.FftErrSchedIFin
set_option linter.unusedSectionVars false
namespace Spq.ProdErr
open Finset Spq.Fft.Alg Spq.FftErr
variable {K : Type} [Field K] [LinearOrder K] [IsStrictOrderedRing K]

/-- Parseval for the exact forward network -/
theorem V_norm (ζ : Cplx K) (hζ : nsq ζ = 1) (a : ℕ → Cplx K) (k : ℕ) :
    ∀ ℓ d, ℓ + d = k →
      ∑ p ∈ range (2 ^ k), nsq (V ζ a ℓ d p) = 2 ^ ℓ * ∑ p ∈ range (2 ^ k), nsq (a p) := by
  intro ℓ
  induction ℓ with
  | zero => intro d _; simp [V]
  | succ ℓ ih =>
    intro d hk
    have ih' := ih (d + 1) (by omega)
    have hn : 2 ^ k = 2 ^ ℓ * (2 * 2 ^ d) := by rw [← hk, pow_add, pow_succ]; ring
    have hw : ∀ b, nsq ((fun b => ζ ^ twE ℓ d b) b) = 1 := fun b => by simp only []; rw [nsq_pow, hζ, one_pow]
    simp only [V_succ]
    rw [hn] at ih' ⊢
    rw [lvl_norm _ hw, ih', pow_succ]
    ring

/-- Parseval for the exact inverse network -/
theorem WI_norm (k : ℕ) (w : ℕ → ℕ → Cplx K) (hw : ∀ n b, nsq (w n b) = 1) (y : ℕ → Cplx K) :
    ∀ n, n ≤ k → ∑ p ∈ range (2 ^ k), nsq (WI w y n p) = 2 ^ n * ∑ p ∈ range (2 ^ k), nsq (y p) := by
  intro n
  induction n with
  | zero => intro _; simp [WI]
  | succ n ih =>
    intro hk
    have ih' := ih (by omega)
    have hn : 2 ^ k = 2 ^ (k - 1 - n) * (2 * 2 ^ n) := by
      rw [show 2 * 2 ^ n = 2 ^ (n + 1) by rw [pow_succ]; ring, ← pow_add]; congr 1; omega
    have e1 : ∀ p, WI w y (n + 1) p = ILvl (w n) (2 ^ n) (WI w y n) p := fun p => rfl
    simp only [e1]
    rw [hn] at ih' ⊢
    rw [ilvl_norm (w n) (hw n), ih', pow_succ]
    ring

/-- the inverse network is linear -/
theorem WI_sub (w : ℕ → ℕ → Cplx K) (y y' : ℕ → Cplx K) :
    ∀ n p, WI w (fun q => y q - y' q) n p = WI w y n p - WI w y' n p := by
  intro n
  induction n with
  | zero => intro p; rfl
  | succ n ih =>
    intro p
    show ILvl (w n) (2 ^ n) (WI w (fun q => y q - y' q) n) p =
      ILvl (w n) (2 ^ n) (WI w y n) p - ILvl (w n) (2 ^ n) (WI w y' n) p
    rw [ilvl_sub]
    congr 1
    funext q
    exact ih q

theorem WIk_norm (k : ℕ) (ζi : Cplx K) (hζ : nsq ζi = 1) (y : ℕ → Cplx K) :
    ∑ p ∈ range (2 ^ k), nsq (WIk k ζi y k p) = 2 ^ k * ∑ p ∈ range (2 ^ k), nsq (y p) :=
  WI_norm k _ (fun n b => by rw [nsq_pow, hζ, one_pow]) y k (le_refl k)

theorem WIk_sub (k : ℕ) (ζi : Cplx K) (y y' : ℕ → Cplx K) (p : ℕ) :
    WIk k ζi (fun q => y q - y' q) k p = WIk k ζi y k p - WIk k ζi y' k p :=
  WI_sub _ y y' k p

theorem WIk_congr_on (k : ℕ) (ζi : Cplx K) (y y' : ℕ → Cplx K) (hy : ∀ p, p < 2 ^ k → y p = y' p) (p : ℕ)
    (hp : p < 2 ^ k) : WIk k ζi y k p = WIk k ζi y' k p :=
  WI_congr_on _ k y y' hy k p (le_refl k) hp

/-- `|Σ f_t|² ≤ (Σ g_t)²` when `|f_t|² ≤ g_t²`, `g_t ≥ 0` -/
theorem nsq_sumTo_le (n : ℕ) (f : ℕ → Cplx K) (g : ℕ → K) (hg : ∀ t, t < n → 0 ≤ g t)
    (hf : ∀ t, t < n → nsq (f t) ≤ g t ^ 2) : nsq (sumTo n f) ≤ (∑ t ∈ range n, g t) ^ 2 := by
  induction n with
  | zero => simp [sumTo]
  | succ n ih =>
    have ih' := ih (fun t ht => hg t (by omega)) (fun t ht => hf t (by omega))
    have h0 : 0 ≤ ∑ t ∈ range n, g t := sum_nonneg (fun t ht => hg t (by have := mem_range.1 ht; omega))
    have := one_tri (sumTo n f) (f n) (∑ t ∈ range n, g t) (g n) 1 h0 (hg n (by omega))
      (by rw [mul_one]; exact ih') (by rw [mul_one]; exact hf n (by omega))
    rw [sumTo, sum_range_succ]
    rw [mul_one] at this
    exact this

theorem sumTo_eq_sum' {R : Type} [CommRing R] (n : ℕ) (f : ℕ → R) : sumTo n f = ∑ i ∈ range n, f i := by
  induction n with
  | zero => simp [sumTo]
  | succ n ih => rw [sumTo, sum_range_succ, ih]

/-- a sum over `2m` indices, by halves -/
theorem sum_halves {M : Type} [AddCommMonoid M] (m : ℕ) (g : ℕ → M) :
    ∑ t ∈ range (2 * m), g t = ∑ p ∈ range m, (g p + g (m + p)) := by
  rw [two_mul, sum_range_add, sum_add_distrib]

end Spq.ProdErr
