/-
  C05 helper lemmas, integer level: the shift pair `(x << (64-k)) >> (64-k)` on wrapped int64 is the
  balanced residue mod 2^k, `(x - digit) >> k` is the exact quotient, and one step of
  `znx_normalize` (`Coeffs.normCoef`) is an exact balanced div/mod of `x + cin`.
-/
import Spq.Coeffs
import Mathlib.Tactic.Ring
import Mathlib.Tactic.Linarith
namespace Spq.Norm
open Spq Coeffs

/-- balanced residue of `x` modulo `2^k`: the representative in `[-2^(k-1), 2^(k-1))` (floor mod) -/
def balDigit (k : Nat) (x : Int) : Int := (x + 2 ^ (k - 1)) % 2 ^ k - 2 ^ (k - 1)
/-- the matching exact quotient `(x - balDigit k x) / 2^k` (see `balCarry_eq`) -/
def balCarry (k : Nat) (x : Int) : Int := (x + 2 ^ (k - 1)) / 2 ^ k

theorem pow_split (k : Nat) (hk : 1 ≤ k) : (2 : Int) ^ k = 2 * 2 ^ (k - 1) := by
  obtain ⟨j, rfl⟩ : ∃ j, k = j + 1 := ⟨k - 1, by omega⟩
  rw [Nat.add_sub_cancel, pow_succ]; ring

theorem bal_decomp (k : Nat) (x : Int) : x = balDigit k x + balCarry k x * 2 ^ k := by
  unfold balDigit balCarry
  have := Int.emod_add_mul_ediv (x + 2 ^ (k - 1)) (2 ^ k)
  linarith

theorem bal_range (k : Nat) (hk : 1 ≤ k) (x : Int) :
    -2 ^ (k - 1) ≤ balDigit k x ∧ balDigit k x < 2 ^ (k - 1) := by
  unfold balDigit
  have hP : (0 : Int) < 2 ^ k := by positivity
  have h1 := Int.emod_nonneg (x + 2 ^ (k - 1)) (ne_of_gt hP)
  have h2 := Int.emod_lt_of_pos (x + 2 ^ (k - 1)) hP
  have := pow_split k hk
  constructor <;> linarith

theorem balCarry_eq (k : Nat) (x : Int) : balCarry k x = (x - balDigit k x) / 2 ^ k := by
  have hP : (0 : Int) < 2 ^ k := by positivity
  have h := bal_decomp k x
  have : x - balDigit k x = balCarry k x * 2 ^ k := by linarith
  rw [this, Int.mul_ediv_cancel _ (ne_of_gt hP)]

/-- congruent to `x` mod `2^k` -/
theorem balDigit_emod (k : Nat) (x : Int) : (x - balDigit k x) % 2 ^ k = 0 := by
  have h := bal_decomp k x
  have : x - balDigit k x = balCarry k x * 2 ^ k := by linarith
  rw [this, Int.mul_emod_left]

theorem balDigit_add_mul (k : Nat) (x q : Int) : balDigit k (x + q * 2 ^ k) = balDigit k x := by
  unfold balDigit
  rw [show x + q * 2 ^ k + 2 ^ (k - 1) = x + 2 ^ (k - 1) + q * 2 ^ k by ring, Int.add_mul_emod_self_right]

theorem balCarry_add_mul (k : Nat) (x q : Int) : balCarry k (x + q * 2 ^ k) = balCarry k x + q := by
  unfold balCarry
  have hP : (0 : Int) < 2 ^ k := by positivity
  rw [show x + q * 2 ^ k + 2 ^ (k - 1) = x + 2 ^ (k - 1) + q * 2 ^ k by ring,
    Int.add_mul_ediv_right _ _ (ne_of_gt hP)]

/-- uniqueness of the balanced residue -/
theorem balDigit_unique (k : Nat) (hk : 1 ≤ k) (x d : Int) (h1 : -2 ^ (k - 1) ≤ d) (h2 : d < 2 ^ (k - 1))
    (hc : (x - d) % 2 ^ k = 0) : d = balDigit k x := by
  obtain ⟨t, ht⟩ := Int.dvd_of_emod_eq_zero hc
  have e : x = d + t * 2 ^ k := by linarith
  rw [e, balDigit_add_mul]
  unfold balDigit
  have := pow_split k hk
  rw [Int.emod_eq_of_lt (by linarith) (by linarith)]
  ring

theorem wrapS_id (z : Int) (h1 : -9223372036854775808 ≤ z) (h2 : z < 9223372036854775808) :
    wrapS z = z := by
  unfold wrapS; omega

theorem pow_mul_64 (k : Nat) (hk : k ≤ 64) : (2 : Int) ^ k * 2 ^ (64 - k) = 18446744073709551616 := by
  rw [← pow_add, show k + (64 - k) = 64 by omega]; norm_num

theorem pow_mul_63 (k : Nat) (hk : k ≤ 63) : (2 : Int) ^ k * 2 ^ (63 - k) = 9223372036854775808 := by
  rw [← pow_add, show k + (63 - k) = 63 by omega]; norm_num

/-- **digit_spec**: `get_base_k_digit` is the balanced residue, for *every* int64 `x` (indeed every
    integer) and every `1 ≤ k ≤ 64` -/
theorem digit_spec (k : Nat) (hk : 1 ≤ k) (hk' : k ≤ 64) (x : Int) : digit x k = balDigit k x := by
  have hPS := pow_mul_64 k hk'
  have hHS : (2 : Int) ^ (k - 1) * 2 ^ (64 - k) = 9223372036854775808 := by
    rw [← pow_add, show k - 1 + (64 - k) = 63 by omega]; norm_num
  have hS : (0 : Int) < 2 ^ (64 - k) := by positivity
  obtain ⟨h1, h2⟩ := bal_range k hk x
  have hd := bal_decomp k x
  have hsp := pow_split k hk
  unfold digit sarS shlS wrapS
  generalize balDigit k x = d at *
  generalize balCarry k x = q at *
  generalize (2 : Int) ^ (64 - k) = S at *
  generalize (2 : Int) ^ (k - 1) = H at *
  generalize (2 : Int) ^ k = P at *
  have e : x * S + 9223372036854775808 = (d * S + 9223372036854775808) + q * 18446744073709551616 := by
    have : q * P * S = q * 18446744073709551616 := by rw [mul_assoc, hPS]
    rw [hd]; linarith [this, add_mul d (q * P) S]
  have h0 : 0 ≤ d * S + 9223372036854775808 := by
    have : 0 ≤ (d + H) * S := mul_nonneg (by linarith) (le_of_lt hS)
    linarith [add_mul d H S]
  have hlt : d * S + 9223372036854775808 < 18446744073709551616 := by
    have : (d + H) * S < P * S := mul_lt_mul_of_pos_right (by linarith) hS
    linarith [add_mul d H S]
  rw [e, Int.add_mul_emod_self_right, Int.emod_eq_of_lt h0 hlt,
    show d * S + 9223372036854775808 - 9223372036854775808 = d * S by ring,
    Int.mul_ediv_cancel _ (ne_of_gt hS)]

/-- no wrap in `x - digit`, and `(x - digit) >> k` is the exact quotient.  The true hypothesis is
    `x < 2^63 - 2^(k-1)`: for `x ≥ 2^63 - 2^(k-1)` the difference `x - digit = 2^63` wraps. -/
theorem carry_spec (k : Nat) (hk : 1 ≤ k) (hk' : k ≤ 63) (x : Int)
    (hx1 : -9223372036854775808 ≤ x) (hx2 : x < 9223372036854775808 - 2 ^ (k - 1)) :
    carry x (digit x k) k = balCarry k x := by
  rw [digit_spec k hk (by omega)]
  have hPM := pow_mul_63 k hk'
  have hP : (0 : Int) < 2 ^ k := by positivity
  obtain ⟨h1, h2⟩ := bal_range k hk x
  have hd := bal_decomp k x
  have hsp := pow_split k hk
  unfold carry sarS subS
  generalize balDigit k x = d at *
  generalize balCarry k x = q at *
  generalize (2 : Int) ^ (63 - k) = M at *
  generalize (2 : Int) ^ (k - 1) = H at *
  generalize (2 : Int) ^ k = P at *
  have e : x - d = q * P := by linarith
  have hlo : -9223372036854775808 ≤ q * P := by
    by_contra hcon
    have hq : q ≤ -M - 1 := by
      by_contra h'
      have : (-M) * P ≤ q * P := mul_le_mul_of_nonneg_right (by linarith) (le_of_lt hP)
      linarith [neg_mul M P, mul_comm M P]
    have : q * P ≤ (-M - 1) * P := mul_le_mul_of_nonneg_right hq (le_of_lt hP)
    linarith [sub_mul (-M) 1 P, neg_mul M P, mul_comm M P]
  rw [e, wrapS_id _ hlo (by linarith), Int.mul_ediv_cancel _ (ne_of_gt hP)]

/-! ### one step of `znx_normalize` -/

theorem normCoef_none (k : Nat) (hk : 1 ≤ k) (hk' : k ≤ 63) (x : Int)
    (hx1 : -9223372036854775808 ≤ x) (hx2 : x < 9223372036854775808 - 2 ^ (k - 1)) :
    normCoef k x none = (balDigit k x, balCarry k x) := by
  simp only [normCoef]
  rw [carry_spec k hk hk' x hx1 hx2, digit_spec k hk (by omega)]

/-- general form, weakest convenient hypotheses:
    `-2^63 ≤ x < 2^63 - 2^(k-1)` and `-2^63 + 2^(k-1) ≤ cin ≤ 2^63 - 2^k` -/
theorem normCoef_some (k : Nat) (hk : 1 ≤ k) (hk' : k ≤ 63) (x c : Int)
    (hx1 : -9223372036854775808 ≤ x) (hx2 : x < 9223372036854775808 - 2 ^ (k - 1))
    (hc1 : -9223372036854775808 + 2 ^ (k - 1) ≤ c) (hc2 : c ≤ 9223372036854775808 - 2 ^ k) :
    normCoef k x (some c) = (balDigit k (x + c), balCarry k (x + c)) := by
  simp only [normCoef]
  rw [carry_spec k hk hk' x hx1 hx2, digit_spec k hk (by omega) x]
  obtain ⟨h1, h2⟩ := bal_range k hk x
  have hsp := pow_split k hk
  have hdc : addS (balDigit k x) c = balDigit k x + c := by
    unfold addS; apply wrapS_id <;> linarith
  rw [hdc, carry_spec k hk hk' _ (by linarith) (by linarith), digit_spec k hk (by omega)]
  have hd := bal_decomp k x
  have e : x + c = balDigit k x + c + balCarry k x * 2 ^ k := by linarith
  have ed : balDigit k (x + c) = balDigit k (balDigit k x + c) := by rw [e, balDigit_add_mul]
  have ec : balCarry k (x + c) = balCarry k (balDigit k x + c) + balCarry k x := by
    rw [e, balCarry_add_mul]
  rw [← ed]
  congr 1
  -- the sum of the two partial carries does not wrap
  have hP : (0 : Int) < 2 ^ k := by positivity
  have hPM := pow_mul_63 k hk'
  obtain ⟨g1, g2⟩ := bal_range k hk (x + c)
  have gd := bal_decomp k (x + c)
  have hM : (1 : Int) ≤ 2 ^ (k - 1) := by
    have : (0 : Int) < 2 ^ (k - 1) := by positivity
    linarith
  unfold addS
  rw [show balCarry k x + balCarry k (balDigit k x + c) = balCarry k (x + c) by rw [ec]; ring]
  generalize balDigit k (x + c) = y at *
  generalize balCarry k (x + c) = Q at *
  generalize (2 : Int) ^ (63 - k) = M at *
  generalize (2 : Int) ^ (k - 1) = H at *
  generalize (2 : Int) ^ k = P at *
  -- |Q * P| < 2^64 = 2 M P  hence |Q| < 2 M ≤ 2^63 ... we show -2^63 ≤ Q < 2^63 via M*P = 2^63
  have hQP : Q * P = x + c - y := by linarith
  have hup : Q < 9223372036854775808 := by
    by_contra hcon
    have : (9223372036854775808 : Int) * P ≤ Q * P :=
      mul_le_mul_of_nonneg_right (by linarith) (le_of_lt hP)
    linarith
  have hlo : -9223372036854775808 ≤ Q := by
    by_contra hcon
    have : Q * P ≤ (-9223372036854775808 : Int) * P :=
      mul_le_mul_of_nonneg_right (by linarith) (le_of_lt hP)
    linarith
  exact wrapS_id _ hlo hup

end Spq.Norm
