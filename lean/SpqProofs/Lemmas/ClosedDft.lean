/-
  Closing C01/C02/C16 over the real FFT network, step 3: H1–H4 (`ExactDft`) for `exactParts`.

  The C06 theorems are instantiated in the ring `Cx R` (`I = Cx.I`, `ζ`, `ζi = conj ζ`, table entries
  `ofRe (cos e)`, `ofRe (sin e)`); naturality of the network under `Cx.ofRe : R → Cx R` (`ClosedNatDrv`) transports
  them to the network run on the real cells.
-/
import SpqProofs.Lemmas.ClosedParts
set_option linter.unusedSectionVars false
namespace Spq.Closed
open Finset Spq Spq.Fft Spq.Fft.Alg Spq.Fft.Sim Spq.Fft.Tab Spq.Fft.Kern Spq.Fft.Api

variable {R : Type} [CommRing R]

/-- `Cx.ofRe` as a plain function -/
def emb (r : R) : Cx R := Cx.ofRe r

theorem emb_default : @emb R _ (inh0 R).default = (inh0 (Cx R)).default := rfl

theorem emb_hom : ArithHom (@emb R _) ringA ringA := by
  refine ⟨?_, ?_, ?_, ?_, ?_, ?_⟩ <;> intros <;> simp [emb, ringA]

variable {k : ℕ} (rt : RootData R k)

theorem val_emb (x : Ent) : emb (val rt.c rt.s x) = val (fun e => emb (rt.c e)) (fun e => emb (rt.s e)) x := by
  unfold Tab.val
  split
  · rfl
  split
  · rfl
  split
  · simp [emb]
  · simp [emb]

theorem fftTable_emb : rt.fftTable.map emb =
    ((reimFftEnts (2 ^ k)).map (val (fun e => emb (rt.c e)) (fun e => emb (rt.s e)))).toArray := by
  unfold RootData.fftTable
  rw [List.map_toArray, List.map_map]
  congr 2
  funext x
  exact val_emb rt x

theorem ifftTable_emb : rt.ifftTable.map emb =
    ((reimIfftEnts (2 ^ k)).map (val (fun e => emb (rt.c e)) (fun e => emb (rt.s e)))).toArray := by
  unfold RootData.ifftTable
  rw [List.map_toArray, List.map_map]
  congr 2
  funext x
  exact val_emb rt x

theorem hcs (e : ℕ) : emb (rt.c e) + Cx.I * emb (rt.s e) = rt.ζ ^ e := (Cx.eq_ofRe_add _).symm

theorem hcsi (e : ℕ) : emb (rt.c e) - Cx.I * emb (rt.s e) = conj rt.ζ ^ e := by
  rw [← conj_pow]; exact ofRe_sub_I_mul _

/-- the forward flavour over `Cx R` -/
def fwdC (fma : Bool) : Flav (Cx R) := if fma then fwdFma ringA else fwdRef ringA
def invC (fma : Bool) : Flav (Cx R) := if fma then invFma ringA else invRef ringA

theorem fwdC_or (fma : Bool) : (fwdC fma : Flav (Cx R)) = fwdRef ringA ∨ (fwdC fma : Flav (Cx R)) = fwdFma ringA := by
  cases fma
  · exact Or.inl rfl
  · exact Or.inr rfl
theorem invC_or (fma : Bool) : (invC fma : Flav (Cx R)) = invRef ringA ∨ (invC fma : Flav (Cx R)) = invFma ringA := by
  cases fma
  · exact Or.inl rfl
  · exact Or.inr rfl

/-- naturality, forward: the network on the embedded cells is the embedding of the network on the real cells -/
theorem netFft_emb (fma : Bool) (d : Array R) :
    (netFft rt fma d).map emb =
      @reimFftA (Cx R) (inh0 _) (fwdC fma) (2 ^ k)
        ((reimFftEnts (2 ^ k)).map (val (fun e => emb (rt.c e)) (fun e => emb (rt.s e)))).toArray (d.map emb) := by
  rw [← fftTable_emb]
  unfold netFft fwdC
  cases fma
  · exact @reimFftA_nat R (Cx R) (inh0 R) (inh0 _) emb emb_default _ _ (@fwdRef_nat R (Cx R) (inh0 R) (inh0 _) emb ringA ringA emb_hom) _ _ _
  · exact @reimFftA_nat R (Cx R) (inh0 R) (inh0 _) emb emb_default _ _ (@fwdFma_nat R (Cx R) (inh0 R) (inh0 _) emb ringA ringA emb_hom) _ _ _

theorem netIfft_emb (fma : Bool) (d : Array R) :
    (netIfft rt fma d).map emb =
      @reimIfftA (Cx R) (inh0 _) (invC fma) (2 ^ k)
        ((reimIfftEnts (2 ^ k)).map (val (fun e => emb (rt.c e)) (fun e => emb (rt.s e)))).toArray (d.map emb) := by
  rw [← ifftTable_emb]
  unfold netIfft invC
  cases fma
  · exact @reimIfftA_nat R (Cx R) (inh0 R) (inh0 _) emb emb_default _ _ (@invRef_nat R (Cx R) (inh0 R) (inh0 _) emb ringA ringA emb_hom) _ _ _
  · exact @reimIfftA_nat R (Cx R) (inh0 R) (inh0 _) emb emb_default _ _ (@invFma_nat R (Cx R) (inh0 R) (inh0 _) emb ringA ringA emb_hom) _ _ _

/-- reading an embedded array with `[i]!` (default `0`) -/
theorem get_emb (a : Array R) (i : ℕ) :
    @getElem! (Array (Cx R)) ℕ (Cx R) _ _ (inh0 _) (a.map emb) i = emb (a.getD i 0) := by
  rw [@getElem!_map R (Cx R) (inh0 R) (inh0 _) emb emb_default a i]
  congr 1

/-- the complex number in cells `(p, q)` of a real array, through the embedding -/
theorem cx_emb (a : Array R) (p q : ℕ) :
    @getElem! (Array (Cx R)) ℕ (Cx R) _ _ (inh0 _) (a.map emb) p
      + Cx.I * @getElem! (Array (Cx R)) ℕ (Cx R) _ _ (inh0 _) (a.map emb) q = cx a p q := by
  rw [get_emb, get_emb, cx_eq]; rfl

/-! ### sizes -/

theorem netFft_size (fma : Bool) (d : Array R) (hd : d.size = 2 * 2 ^ k) : (netFft rt fma d).size = 2 * 2 ^ k := by
  have e : (netFft rt fma d).size = ((netFft rt fma d).map emb).size := by simp
  rw [e, netFft_emb]
  let _ := inh0 (Cx R)
  have hF : FwdOK Cx.I (fwdC fma : Flav (Cx R)) := by
    rcases fwdC_or (R := R) fma with h | h <;> rw [h]
    · exact fwdRef_ok Cx.I Cx.I_mul_I
    · exact fwdFma_ok Cx.I Cx.I_mul_I
  let X : Ctx (Cx R) := ⟨rt.ζ, Cx.I, k, fun e => emb (rt.c e), fun e => emb (rt.s e), fun _ => 0, rt.hζ, Cx.I_mul_I, hcs rt⟩
  have hv := (ReimFwd.fftRI_adv X (fwdC fma) hF (splitRI (2 ^ k) (d.map emb))
    (splitRI_valid (2 ^ k) (d.map emb) (by simpa using hd))).2
  unfold reimFftA
  simp only [joinRI, Array.size_append]
  rw [hv.1, hv.2]; ring

theorem netIfft_size (fma : Bool) (d : Array R) (hd : d.size = 2 * 2 ^ k) : (netIfft rt fma d).size = 2 * 2 ^ k := by
  have e : (netIfft rt fma d).size = ((netIfft rt fma d).map emb).size := by simp
  rw [e, netIfft_emb]
  let _ := inh0 (Cx R)
  have hF : InvOK Cx.I (invC fma : Flav (Cx R)) := by
    rcases invC_or (R := R) fma with h | h <;> rw [h]
    · exact invRef_ok Cx.I Cx.I_mul_I
    · exact invFma_ok Cx.I Cx.I_mul_I
  let Y : ICtx (Cx R) := ⟨⟨rt.ζ, Cx.I, k, fun e => emb (rt.c e), fun e => emb (rt.s e), fun _ => 0, rt.hζ, Cx.I_mul_I, hcs rt⟩,
    conj rt.ζ, rt.hnorm, hcsi rt⟩
  have hv := (ReimInv.ifftRI_adv Y (invC fma) hF 1 (splitRI (2 ^ k) (d.map emb))
    (splitRI_valid (2 ^ k) (d.map emb) (by simpa using hd))).2
  unfold reimIfftA
  simp only [joinRI, Array.size_append]
  rw [hv.1, hv.2]; ring

/-! ### H2 and H3 for the network on real cells -/

/-- the evaluation points, in the order of the output cells: `z_j = ζ^(1 + 4·brev_k j)` -/
def RootData.z (j : ℕ) : Cx R := rt.ζ ^ (1 + 4 * brev k j)

theorem z_pow_m (j : ℕ) : rt.z j ^ 2 ^ k = Cx.I := by
  unfold RootData.z
  rw [← pow_mul, Nat.mul_comm, pow_mul, rt.hζ, pow_add, pow_one, pow_mul, I_pow_four, one_pow, mul_one]

/-- **H2**: output complex `j` of the forward network = the `m` input complexes evaluated at `z_j` -/
theorem netFft_eval (fma : Bool) (d : Array R) (hd : d.size = 2 * 2 ^ k) (j : ℕ) (hj : j < 2 ^ k) :
    cx (netFft rt fma d) j (j + 2 ^ k) = ∑ i ∈ range (2 ^ k), cx d i (i + 2 ^ k) * rt.z j ^ i := by
  have h := @C06.reim_fft_exact (Cx R) _ (inh0 _) k rt.ζ Cx.I (fun e => emb (rt.c e)) (fun e => emb (rt.s e))
    rt.hζ Cx.I_mul_I (hcs rt) (fwdC fma) (fwdC_or fma) (d.map emb) (by simpa using hd) j hj
  rw [← netFft_emb, cx_emb, sumTo_eq_sum, Nat.add_comm] at h
  rw [h]
  apply sum_congr rfl
  intro i _
  rw [cx_emb, Nat.add_comm, RootData.z, ← pow_mul]

/-- **H3**: inverse network ∘ forward network = `m •`, cell by cell -/
theorem netIfft_netFft (ffma ifma : Bool) (d : Array R) (hd : d.size = 2 * 2 ^ k) (t : ℕ) (ht : t < 2 * 2 ^ k) :
    (netIfft rt ifma (netFft rt ffma d)).getD t 0 = ((2 ^ k : ℕ) : R) * d.getD t 0 := by
  have key : ∀ p, p < 2 ^ k →
      cx (netIfft rt ifma (netFft rt ffma d)) p (p + 2 ^ k) = Cx.ofRe ((2 ^ k : ℕ) : R) * cx d p (p + 2 ^ k) := by
    intro p hp
    have h := @C06.reim_ifft_fft (Cx R) _ (inh0 _) k rt.ζ (conj rt.ζ) Cx.I (fun e => emb (rt.c e)) (fun e => emb (rt.s e))
      rt.hζ Cx.I_mul_I rt.hnorm (hcs rt) (hcsi rt) (fwdC ffma) (invC ifma) (fwdC_or ffma) (invC_or ifma)
      (d.map emb) (by simpa using hd) p hp
    simp only [] at h
    rw [← netFft_emb, ← netIfft_emb, cx_emb, cx_emb, Nat.add_comm] at h
    rw [h, ← ofRe_natCast]; simp
  by_cases h1 : t < 2 ^ k
  · have := congrArg Cx.re (key t h1)
    rw [Cx.mul_re, Cx.ofRe_re, Cx.ofRe_im, zero_mul, sub_zero] at this
    exact this
  · have := congrArg Cx.im (key (t - 2 ^ k) (by omega))
    have e : t - 2 ^ k + 2 ^ k = t := by omega
    rw [e, Cx.mul_im, Cx.ofRe_re, Cx.ofRe_im, zero_mul, add_zero] at this
    exact this

end Spq.Closed
