/-
  Window abstraction, general form: a run on the split memory determines the run on the arena up to the
  relations `MR` (every window mirrors its split buffer) and `FR` (cells outside the written windows unchanged);
  the arena after a run that writes through ONE or TWO pointers (`znx_normalize`: `out` and `carry_out`).
-/
import SpqProofs.Lemmas.SrcArena
namespace Spq.CIR
open Spq

theorem run_window_gen (B nn : Nat) (Γ Γ' : List Ptr) (wr : List Nat) (m0 : Mem) (X0 : Array Int) (hB : B < m0.size)
    (hW : Win B nn Γ Γ' wr) (fn : Fn) (hs : fn.body.simple = true) (hw : ∀ p, p ∈ wrPtrs fn.body → p ∈ wr)
    (m' m'' : Mem) (hM : MR B nn Γ Γ' X0 m')
    (args : List Int) (f : Nat) (hrun : run f fn args Γ' m' = .ok m'') :
    ∃ X, run f fn args Γ (m0.setIfInBounds B X0) = .ok (m0.setIfInBounds B X) ∧ MR B nn Γ Γ' X m'' ∧
      FR B nn Γ wr X0 X := by
  unfold run at hrun ⊢
  cases hx : exec Γ' fn.body f ⟨args ++ List.replicate (fn.nslots - args.length) 0, m'⟩ with
  | err e => rw [hx] at hrun; simp [memOf] at hrun
  | ok r' =>
    rw [hx] at hrun
    obtain ⟨fl, σ'⟩ := r'
    simp only [memOf, R.ok.injEq] at hrun
    have hS0 : SR B nn Γ Γ' wr m0 X0 ⟨args ++ List.replicate (fn.nslots - args.length) 0, m0.setIfInBounds B X0⟩
        ⟨args ++ List.replicate (fn.nslots - args.length) 0, m'⟩ :=
      ⟨rfl, X0, rfl, hM, rfl, fun _ _ => rfl⟩
    obtain ⟨σ2, he, _, X, hm, hMX, hFX⟩ := exec_sim hB hW fn.body hs hw f _ _ hx _ hS0
    refine ⟨X, ?_, ?_, hFX⟩
    · rw [he]; simp only [memOf, hm]
    · subst hrun; exact hMX

theorem getElem_eq_getD (A : Array Int) (i : Nat) (hi : i < A.size) : A[i] = A.getD i 0 := by
  simp [Array.getD, hi]

/-- written windows: every written non-null pointer is bound to offset `o1` or `o2` -/
theorem arena_two (B nn : Nat) (Γ Γ' : List Ptr) (wr : List Nat) (p1 p2 k1 k2 o1 o2 : Nat) (X0 X : Array Int)
    (m'' : Mem) (hM : MR B nn Γ Γ' X m'') (hF : FR B nn Γ wr X0 X)
    (hwr : ∀ p, p ∈ wr → ∀ o, Γ.getD p none = some (B, o) → o = o1 ∨ o = o2)
    (h1 : Γ'.getD p1 none = some (k1, 0)) (h1' : Γ.getD p1 none = some (B, o1))
    (h2 : Γ'.getD p2 none = some (k2, 0)) (h2' : Γ.getD p2 none = some (B, o2)) :
    X = Heap.writeArr (Heap.writeArr X0 o1 (buf m'' k1)) o2 (buf m'' k2) := by
  obtain ⟨hs1, hb1, hc1⟩ := hM p1 k1 o1 h1 h1'
  obtain ⟨hs2, hb2, hc2⟩ := hM p2 k2 o2 h2 h2'
  apply Array.ext
  · rw [Heap.size_writeArr, Heap.size_writeArr]; exact hF.1
  · intro x hx1 hx2
    rw [getElem_eq_getD X x hx1, getElem_eq_getD _ x hx2, getD_writeArr, Heap.size_writeArr]
    have hxs : x < X0.size := by rw [← hF.1]; exact hx1
    by_cases hin2 : o2 ≤ x ∧ x < o2 + (buf m'' k2).size ∧ x < X0.size
    · rw [if_pos hin2]
      have := hc2 (x - o2) (by omega)
      rw [show o2 + (x - o2) = x by omega] at this
      exact this
    · rw [if_neg hin2, getD_writeArr]
      by_cases hin1 : o1 ≤ x ∧ x < o1 + (buf m'' k1).size ∧ x < X0.size
      · rw [if_pos hin1]
        have := hc1 (x - o1) (by omega)
        rw [show o1 + (x - o1) = x by omega] at this
        exact this
      · rw [if_neg hin1]
        apply hF.2 x
        intro p hp o ho
        rcases hwr p hp o ho with rfl | rfl <;> omega

/-- one written window -/
theorem arena_one (B nn : Nat) (Γ Γ' : List Ptr) (wr : List Nat) (p1 k1 o1 : Nat) (X0 X : Array Int) (m'' : Mem)
    (hM : MR B nn Γ Γ' X m'') (hF : FR B nn Γ wr X0 X)
    (hwr : ∀ p, p ∈ wr → ∀ o, Γ.getD p none = some (B, o) → o = o1)
    (h1 : Γ'.getD p1 none = some (k1, 0)) (h1' : Γ.getD p1 none = some (B, o1)) :
    X = Heap.writeArr X0 o1 (buf m'' k1) := by
  obtain ⟨hs1, hb1, hc1⟩ := hM p1 k1 o1 h1 h1'
  apply Array.ext
  · rw [Heap.size_writeArr]; exact hF.1
  · intro x hx1 hx2
    rw [getElem_eq_getD X x hx1, getElem_eq_getD _ x hx2, getD_writeArr]
    have hxs : x < X0.size := by rw [← hF.1]; exact hx1
    by_cases hin1 : o1 ≤ x ∧ x < o1 + (buf m'' k1).size ∧ x < X0.size
    · rw [if_pos hin1]
      have := hc1 (x - o1) (by omega)
      rw [show o1 + (x - o1) = x by omega] at this
      exact this
    · rw [if_neg hin1]
      apply hF.2 x
      intro p hp o ho
      have := hwr p hp o ho
      subst this; omega

/-! ### replacing pointers by null on both sides keeps the layout relations -/
theorem Win.weaken {B nn : Nat} {Γ Γ' : List Ptr} {wr : List Nat} (h : Win B nn Γ Γ' wr) (Δ Δ' : List Ptr)
    (hq : ∀ q, (Δ.getD q none = Γ.getD q none ∧ Δ'.getD q none = Γ'.getD q none) ∨
      (Δ.getD q none = none ∧ Δ'.getD q none = none)) : Win B nn Δ Δ' wr := by
  have key : ∀ q k, Δ'.getD q none = some (k, 0) →
      Δ.getD q none = Γ.getD q none ∧ Δ'.getD q none = Γ'.getD q none := by
    intro q k hk
    rcases hq q with h1 | h1
    · exact h1
    · rw [h1.2] at hk; cases hk
  refine ⟨?_, ?_, ?_⟩
  · intro p
    rcases hq p with h1 | h1
    · rw [h1.1, h1.2]; exact h.rel p
    · exact Or.inl ⟨h1.2, h1.1⟩
  · intro p q k o o' h1 h2 h3 h4
    obtain ⟨e1, e2⟩ := key p k h1
    obtain ⟨e3, e4⟩ := key q k h2
    rw [e2] at h1; rw [e4] at h2; rw [e1] at h3; rw [e3] at h4
    exact h.cons p q k o o' h1 h2 h3 h4
  · intro p hp q k k' o o' h1 h2 hk h3 h4
    obtain ⟨e1, e2⟩ := key p k h1
    obtain ⟨e3, e4⟩ := key q k' h2
    rw [e2] at h1; rw [e4] at h2; rw [e1] at h3; rw [e3] at h4
    exact h.disj p hp q k k' o o' h1 h2 hk h3 h4

theorem MR.weaken {B nn : Nat} {Γ Γ' : List Ptr} {X : Array Int} {m' : Mem} (h : MR B nn Γ Γ' X m')
    (Δ Δ' : List Ptr)
    (hq : ∀ q, (Δ.getD q none = Γ.getD q none ∧ Δ'.getD q none = Γ'.getD q none) ∨
      (Δ.getD q none = none ∧ Δ'.getD q none = none)) : MR B nn Δ Δ' X m' := by
  intro p k o h1 h2
  rcases hq p with e | e
  · rw [e.2] at h1; rw [e.1] at h2; exact h p k o h1 h2
  · rw [e.2] at h1; cases h1

end Spq.CIR
