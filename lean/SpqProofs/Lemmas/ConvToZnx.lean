/-
  double → int64 conversions with a power-of-two divisor (C14): `reim_to_znx64_avx2_bnd50_fma`,
  `reim_to_znx64_ref`, `reim_to_znx64_avx2_bnd63_fma` at lane level.
-/
import Spq.Conv
import SpqProofs.Lemmas.F64Magic
import SpqProofs.Lemmas.F64Quot
import SpqProofs.Lemmas.ConvFrom

namespace Spq.Conv
open Spq.F64

/-! ### the divisor `2^j` -/

theorem decode_pow2 (j : Int) (h1 : -1022 ≤ j) (h2 : j ≤ 1023) :
    decode (pow2 j) = ⟨false, 4503599627370496, j - 52⟩ := by
  unfold pow2
  have := decode_pos_pattern (j + 1023).toNat 0 (by omega) (by omega) (by norm_num)
  rw [Nat.add_zero, Nat.zero_add] at this
  rw [this]; congr 1; omega

theorem toScaled_pow2 (j : Int) (h1 : -1022 ≤ j) (h2 : j ≤ 1023) :
    toScaled (pow2 j) = 2 ^ ((j + 1074).toNat) := by
  rw [toScaled_of_decode' (decode_pow2 j h1 h2)]
  have : (j - 52 + 1074).toNat + 52 = (j + 1074).toNat := by omega
  rw [← this, pow_add]
  simp only [sI, Bool.false_eq_true, if_false]
  norm_num; ring

theorem pow2_lt (j : Int) (h2 : j ≤ 1023) : pow2 j < 18446744073709551616 := by
  unfold pow2; omega

/-- `add_cst = divisor * 3·2^51` is exact -/
theorem decode_bnd50AddCst (j : Int) (h1 : -1022 ≤ j) (h2 : j ≤ 971) :
    decode (bnd50AddCst (pow2 j)) = ⟨false, 6755399441055744, j⟩ := by
  unfold bnd50AddCst
  rw [D_3P51_eq, mul_of_decode (decode_pow2 j h1 (by omega)) decode_D_3P51]
  have hm : 4503599627370496 * 6755399441055744 = 6755399441055744 * 2 ^ 52 := by norm_num
  rw [hm]
  have := decode_pack_exact (false != false) 6755399441055744 52 (j - 52 + 0) 0 (by norm_num) (by norm_num)
    (by push_cast; omega) (by push_cast; omega)
  rw [this]; congr 1
  push_cast; omega

/-- generic decomposition of a pattern -/
theorem exists_decode (x : Nat) : ∃ s m e, decode x = ⟨s, m, e⟩ ∧ m < 9007199254740992 ∧ -1074 ≤ e ∧ e ≤ 972 := by
  refine ⟨(decode x).neg, (decode x).m, (decode x).e, rfl, decode_m_lt x, decode_e_ge x, decode_e_le x⟩

/-! ### bnd50 -/

/-- Core of the bnd50 proof in integer terms: `T` is `x` and `D` is the divisor in a common unit. -/
theorem bnd50_core (T : Int) (k2 : Nat) (hT1 : -(1125899906842624 * 2 ^ k2 : Int) < T) (hT2 : T < 1125899906842624 * 2 ^ k2) :
    ∃ V : Nat, (V : Int) = T + 6755399441055744 * 2 ^ k2 ∧
      4503599627370496 * 2 ^ k2 ≤ V ∧ V < 9007199254740992 * 2 ^ k2 ∧ rne V k2 < 9007199254740992 ∧
      2 * |((rne V k2 : Int) - 6755399441055744) * 2 ^ k2 - T| ≤ 2 ^ k2 := by
  have hD : (0 : Int) < 2 ^ k2 := by positivity
  refine ⟨(T + 6755399441055744 * 2 ^ k2).toNat, ?_, ?_, ?_, ?_, ?_⟩
  · rw [Int.toNat_of_nonneg]; nlinarith
  all_goals
    obtain ⟨V, hV⟩ : ∃ V : Nat, (V : Int) = T + 6755399441055744 * 2 ^ k2 := ⟨(T + 6755399441055744 * 2 ^ k2).toNat, by
      rw [Int.toNat_of_nonneg]; nlinarith⟩
    have hVn : (T + 6755399441055744 * 2 ^ k2).toNat = V := by rw [← hV]; simp
    rw [hVn]
  · have : ((4503599627370496 * 2 ^ k2 : Nat) : Int) ≤ V := by push_cast; rw [hV]; nlinarith
    exact_mod_cast this
  · have : (V : Int) < ((9007199254740992 * 2 ^ k2 : Nat) : Int) := by push_cast; rw [hV]; nlinarith
    exact_mod_cast this
  · have hle : V ≤ 7881299347898368 * 2 ^ k2 := by
      have : (V : Int) ≤ ((7881299347898368 * 2 ^ k2 : Nat) : Int) := by push_cast; rw [hV]; nlinarith
      exact_mod_cast this
    have := rne_le hle
    omega
  · obtain ⟨e1, e2⟩ := rne_err V k2
    have e1' : 2 * ((rne V k2 : Int) * 2 ^ k2) ≤ 2 * V + 2 ^ k2 := by exact_mod_cast e1
    have e2' : 2 * (V : Int) ≤ 2 * ((rne V k2 : Int) * 2 ^ k2) + 2 ^ k2 := by exact_mod_cast e2
    have hrw : ((rne V k2 : Int) - 6755399441055744) * 2 ^ k2 - T = (rne V k2 : Int) * 2 ^ k2 - V := by
      rw [hV]; ring
    rw [hrw]
    rcases abs_cases ((rne V k2 : Int) * 2 ^ k2 - V) with ⟨h, _⟩ | ⟨h, _⟩ <;> rw [h] <;> linarith

theorem and_mant_mask (a : Nat) : a &&& MANT_MASK = a % 4503599627370496 := by
  have := Nat.and_two_pow_sub_one_eq_mod a 52
  norm_num at this
  exact this

/-- common unit of `x` and the divisor `2^j`: `toScaled x = T·W`, `toScaled (2^j) = 2^k2·W` -/
theorem common_unit {x : Nat} {sx : Bool} {mx : Nat} {ex : Int} (hx : decode x = ⟨sx, mx, ex⟩) (he0 : -1074 ≤ ex)
    (j : Int) (hj1 : -1022 ≤ j) (hj2 : j ≤ 1023) :
    ∃ (e : Int) (k1 k2 : Nat) (W : Int), e = min ex j ∧ ex = e + k1 ∧ j = e + k2 ∧ 0 < W ∧
      toScaled x = sI sx mx * 2 ^ k1 * W ∧ toScaled (pow2 j) = 2 ^ k2 * W := by
  refine ⟨min ex j, (ex - min ex j).toNat, (j - min ex j).toNat, 2 ^ ((min ex j + 1074).toNat), rfl, by omega, by omega,
    by positivity, ?_, ?_⟩
  · exact toScaled_split hx _ _ (by omega) (by omega)
  · rw [toScaled_pow2 j hj1 hj2, ← pow_add]; congr 1; omega

/-- `reim_to_znx64_avx2_bnd50_fma`, one lane: for `|x/d| < 2^50` the result is within 1/2 of `x/d`
    (`2·|r·d − x| ≤ d`, values in units of 2^-1074) -/
theorem toZnx64Bnd50Lane_spec (j : Int) (hj1 : -1022 ≤ j) (hj2 : j ≤ 971) (x : Nat)
    (hdom : |toScaled x| < 1125899906842624 * toScaled (pow2 j)) :
    2 * |toZnx64Bnd50Lane (bnd50AddCst (pow2 j)) x * toScaled (pow2 j) - toScaled x| ≤ toScaled (pow2 j) := by
  obtain ⟨sx, mx, ex, hx, hm, he0, he1⟩ := exists_decode x
  obtain ⟨e, k1, k2, W, he, hk1, hk2, hW, hxs, hds⟩ := common_unit hx he0 j hj1 (by omega)
  rw [hxs, hds] at hdom ⊢
  set T := sI sx mx * 2 ^ k1 with hT
  have hD : (0 : Int) < 2 ^ k2 := by positivity
  -- cancel the common unit in the domain hypothesis
  have hdom' : |T| < 1125899906842624 * 2 ^ k2 := by
    rw [abs_mul, abs_of_pos hW, ← mul_assoc] at hdom
    exact lt_of_mul_lt_mul_right hdom (le_of_lt hW)
  obtain ⟨hT1, hT2⟩ := abs_lt.1 hdom'
  obtain ⟨V, hV, hlo, hhi, hq, herr⟩ := bnd50_core T k2 hT1 hT2
  have hc := decode_bnd50AddCst j hj1 hj2
  have hV' : (V : Int) = sI sx mx * 2 ^ k1 + ((6755399441055744 : Nat) : Int) * 2 ^ k2 := by rw [hV]; push_cast; ring
  obtain ⟨_, hpat⟩ := add_magic hx hc e k1 k2 he hk1 hk2 V hV' hlo hhi hq (by omega) (by omega)
  have hq1 := (rne_range hlo hhi).1
  have hr : toZnx64Bnd50Lane (bnd50AddCst (pow2 j)) x = (rne V k2 : Int) - 6755399441055744 := by
    unfold toZnx64Bnd50Lane
    simp only [hpat, and_mant_mask]
    rw [magic_fields _ _ (by omega) hq1 hq]
    unfold sub64 toS wrapS
    omega
  rw [hr]
  have hfin : (↑(rne V k2) - 6755399441055744) * (2 ^ k2 * W) - T * W = ((↑(rne V k2) - 6755399441055744) * 2 ^ k2 - T) * W := by ring
  rw [hfin, abs_mul, abs_of_pos hW, ← mul_assoc]
  exact mul_le_mul_of_nonneg_right herr (le_of_lt hW)

/-! ### ref: `(int64_t)rint(x * (1/d))` -/

theorem decode_D_ONE : decode D_ONE = ⟨false, 4503599627370496, -52⟩ := by
  have := decode_pos_pattern 1023 0 (by norm_num) (by norm_num) (by norm_num)
  simpa using this

/-- `1./divisor` for `divisor = 2^j` is `2^-j`, exactly -/
theorem decode_invdiv (j : Int) (h1 : -1022 ≤ j) (h2 : j ≤ 1022) :
    decode (F64.div D_ONE (pow2 j)) = ⟨false, 4503599627370496, -52 - j⟩ := by
  rw [div_pow2_of_decode decode_D_ONE (decode_pow2 j h1 (by omega)) (by norm_num)]
  have := decode_pack_exact false 4503599627370496 59 (-52 - (j - 52) - 111) 0 (by norm_num) (by norm_num)
    (by push_cast; omega) (by push_cast; omega)
  rw [this]; congr 1
  push_cast; omega

theorem abs_sI_mul (s : Bool) (n : Nat) (A : Int) (hA : 0 ≤ A) : |sI s n * A| = (n : Int) * A := by
  have h := sI_mul_sub s n 0 A 0
  simp only [mul_zero, sub_zero] at h
  rw [h, abs_of_nonneg (by positivity)]

/-- `reim_to_znx64_ref`, one lane: for `|x/d| < 2^63` the result is within 1/2 of `x/d` -/
theorem toZnx64RefLane_spec (j : Int) (hj1 : -1022 ≤ j) (hj2 : j ≤ 1022) (x : Nat)
    (hdom : |toScaled x| < 9223372036854775808 * toScaled (pow2 j)) :
    2 * |toZnx64RefLane (F64.div D_ONE (pow2 j)) x * toScaled (pow2 j) - toScaled x| ≤ toScaled (pow2 j) := by
  obtain ⟨sx, mx, ex, hx, hm, he0, he1⟩ := exists_decode x
  have hp := decode_invdiv j hj1 hj2
  obtain ⟨a, ha⟩ : ∃ a : Nat, (a : Int) = ex + 1074 := ⟨(ex + 1074).toNat, by omega⟩
  obtain ⟨b, hb⟩ : ∃ b : Nat, (b : Int) = j + 1074 := ⟨(j + 1074).toNat, by omega⟩
  have hxs : toScaled x = sI sx mx * 2 ^ a := by
    rw [toScaled_of_decode' hx]; congr 2; omega
  have hds : toScaled (pow2 j) = 2 ^ b := by
    rw [toScaled_pow2 j hj1 (by omega)]; congr 1; omega
  rw [hxs, hds] at hdom ⊢
  rw [abs_sI_mul _ _ _ (by positivity)] at hdom
  have hdomN : mx * 2 ^ a < 9223372036854775808 * 2 ^ b := by exact_mod_cast hdom
  unfold toZnx64RefLane
  exact quot_round_core hx hp hm a b ha (by rw [hb]; ring) hdomN

end Spq.Conv
