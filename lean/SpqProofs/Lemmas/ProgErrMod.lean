/-
  C16, binary64 side, step 4: the bundle of module-level hypotheses (`F64Mod`), the per-polynomial BUDGET predicates
  (the hypotheses of the end-to-end binary64 theorems of C01Err / C02Err and of the round trip `ProgErr.rt_exact`),
  the representation invariant of a `VEC_ZNX_DFT` object (`LimbExact`), and row `i` of `vec_znx_idft`.
-/
import SpqProofs.Lemmas.ProgErrRt2
import SpqProofs.Lemmas.ProgErrCanon
import SpqProofs.Properties.C01Err
set_option linter.unusedSectionVars false
namespace Spq.ProgErr
open Finset Spq Spq.Module Spq.Fft Spq.Fft.Alg Spq.FftErr Spq.F64 Spq.Reim4 Spq.ProdErr Spq.VmpErr Spq.Conv Spq.Prog
  Spq.Closed

/-- **the binary64 module and what is assumed about it** (exactly the standing hypotheses of C01Err / C02Err):
    `Cfg` consistent with the dispatch for `N = 2·2^k`, `k ≤ 16` (`VCfgOk`: tables = table layout filled with the stored
    patterns, FMA pointwise kernels only for `m ≥ 4`, 4-lane conversions only when `4 ∣ N`), a unit-modulus root `ζ`
    with `ζ^m = i` and its inverse `ζi` in `Cplx K` (`K` an ordered field, e.g. ℝ), both stored tables within
    `3.5·2^-53` of the powers of `ζ` resp. `ζi`. -/
structure F64Mod (K : Type) [Field K] [LinearOrder K] [IsStrictOrderedRing K] where
  c : Cfg
  k : ℕ
  hk : k ≤ 16
  cN : ℕ → ℕ
  sN : ℕ → ℕ
  cNi : ℕ → ℕ
  sNi : ℕ → ℕ
  ok : VCfgOk c k cN sN cNi sNi
  ζ : Cplx K
  ζi : Cplx K
  hζ : nsq ζ = 1
  hI : ζ ^ 2 ^ k = Ic
  hinv : ζ * ζi = 1
  hcs : ∀ ℓ d b, ℓ + d + 1 = k → b < 2 ^ ℓ →
    nsq (toC (((val (cN (twE ℓ d b)) : ℚ) : K), ((val (sN (twE ℓ d b)) : ℚ) : K)) - ζ ^ twE ℓ d b) ≤
      (((7 / 2 * u64 : ℚ)) : K) ^ 2
  hcsi : ∀ ℓ d b, ℓ + d + 1 = k → b < 2 ^ ℓ →
    nsq (toC (((val (cNi (twE ℓ d b)) : ℚ) : K), ((val (sNi (twE ℓ d b)) : ℚ) : K)) - ζi ^ twE ℓ d b) ≤
      (((7 / 2 * u64 : ℚ)) : K) ^ 2

variable {K : Type} [Field K] [LinearOrder K] [IsStrictOrderedRing K]

/-- ring dimension -/
abbrev F64Mod.N (M : F64Mod K) : ℕ := 2 * 2 ^ M.k
/-- the binary64 module the library runs -/
abbrev F64Mod.parts (M : F64Mod K) : Parts ℕ := Cfg.parts M.c

theorem F64Mod.nn (M : F64Mod K) : M.parts.nn = M.N := M.ok.cfg.nn

/-! ### budgets of one polynomial / one pair / one column -/

/-- budget of the pure round trip `idft (dft a)` of one limb: box, flags of the two transforms, and
    `17·log2(N)·2^-53·na < 1/2` for some `na ≥ ‖a‖₂` -/
def RtBudget (M : F64Mod K) (a : Array Int) : Prop :=
  Box M.k a ∧ RtOk M.c M.k M.cN M.sN M.cNi M.sNi a ∧
  ∃ na : K, 0 ≤ na ∧ n2sq K a M.N ≤ na ^ 2 ∧ ((17 * (M.k + 1 : ℚ) * u64 : ℚ) : K) * na < 1 / 2

/-- budget of one product `a ⊛ b` through DFT space (the hypotheses of `C01Err.small_product_exact_f64_partial`):
    boxes, the stage-wise flags `PipeOk`, and `E' = 12·log2(N)·2^-53·(‖a‖₁·nb + na·‖b‖₁) < 1/2` -/
def ProdBudget (M : F64Mod K) (a b : Array Int) : Prop :=
  Box M.k a ∧ Box M.k b ∧ PipeOk M.c M.k M.cN M.sN M.cNi M.sNi a b ∧
  ∃ na nb : K, 0 ≤ na ∧ 0 ≤ nb ∧ n2sq K a M.N ≤ na ^ 2 ∧ n2sq K b M.N ≤ nb ^ 2 ∧ nb ≤ n1 K b M.N ∧
    ((12 * (M.k + 1 : ℚ) * u64 : ℚ) : K) * (n1 K a M.N * nb + na * n1 K b M.N) < 1 / 2

/-- budget of output column `j` of a vector-matrix product (the hypotheses of `C02Err.vmp_exact_f64_partial`; vector
    and matrix given as flat arrays of stride `N`): flags `VmpOk` and
    `E_sum = (12·log2(N) + 2n + 3)·2^-53·Σ_{i<n} (‖a_i‖₁·nb_i + na_i·‖M_ij‖₁) < 1/2` -/
def VmpColBudget (M : F64Mod K) (mat : Array Int) (nrows ncols : ℕ) (a : Array Int) (asz rsz j : ℕ) : Prop :=
  VmpOk M.c M.k M.cN M.sN M.cNi M.sNi mat nrows ncols a asz M.N rsz j ∧
  ∃ na nb : ℕ → K, (∀ i, i < min nrows asz → 0 ≤ na i) ∧ (∀ i, i < min nrows asz → 0 ≤ nb i) ∧
    (∀ i, i < min nrows asz → n2sq K (limbOf a i M.N M.N) M.N ≤ na i ^ 2) ∧
    (∀ i, i < min nrows asz → n2sq K (matEntry mat ncols M.N i j) M.N ≤ nb i ^ 2) ∧
    (∀ i, i < min nrows asz → nb i ≤ n1 K (matEntry mat ncols M.N i j) M.N) ∧
    Esum K M.k mat nrows ncols a asz M.N j na nb < 1 / 2

/-- budget of a whole `vmp_apply_dft` with `rsz` result limbs: at most `2^25 − 1` rows, boxes of the rows used and of
    the matrix, and the column budget of every column `j < min ncols rsz` that is not trivially zero -/
def VmpBudget (M : F64Mod K) (mat : Array Int) (nrows ncols : ℕ) (a : Array Int) (asz rsz : ℕ) : Prop :=
  2 * min nrows asz + 2 ≤ 67108864 ∧
  (∀ i, i < min nrows asz → Box M.k (limbOf a i M.N M.N)) ∧
  (∀ i j, i < nrows → j < ncols → Box M.k (matEntry mat ncols M.N i j)) ∧
  ∀ j, j < min ncols rsz → (M.k < 2 → 0 < min nrows asz) → VmpColBudget M mat nrows ncols a asz rsz j

/-! ### the invariant of a `VEC_ZNX_DFT` object -/

/-- **`LimbExact M P sz d`**: the binary64 DFT-space object `d` (`sz` limbs) REPRESENTS the integer polynomial vector
    `P`: the inverse transform + final rounding of every limb is exactly the limb of `P`.  (This is what every consumer
    of a `VEC_ZNX_DFT` in the program language needs: `vec_znx_idft` is the only one.) -/
def LimbExact (M : F64Mod K) (P : Val) (sz : ℕ) (d : Array ℕ) : Prop :=
  ∀ i, i < sz → M.parts.toZnx (M.parts.ifft (dlimb d i M.N)) = polyArr M.N (P.coef i)

/-- row `i` of `vec_znx_idft` -/
theorem idft_row (M : F64Mod K) (rsz2 : ℕ) (d : Array ℕ) (dsz i : ℕ) (hi : i < rsz2) :
    dlimb (vecIdft M.parts rsz2 d dsz) i M.N =
      if i < dsz then M.parts.toZnx (M.parts.ifft (dlimb d i M.N)) else Array.replicate M.N 0 := by
  have hnn := M.nn
  obtain ⟨_, b2⟩ := vecIdft_spec M.parts rsz2 d dsz _ (fun i _ => rfl)
    (by
      intro i _
      split
      · rw [hnn]; exact toZnx_size M.c M.k M.ok.cfg.nn M.ok.cfg.toVar _
      · simp)
  have b := b2 i hi
  rw [hnn] at b
  exact b

/-- read-back of `vec_znx_idft` of a represented object: the exact limbs, zero-extended -/
theorem idft_of_limbExact (M : F64Mod K) (P : Val) (sz rsz : ℕ) (d : Array ℕ) (h : LimbExact M P sz d) (i t : ℕ)
    (hi : i < rsz) (ht : t < M.N) :
    (vecIdft M.parts rsz d sz).getD (i * M.N + t) 0 = zext sz (fun i t => P.coef i t) i t := by
  have e2 : (vecIdft M.parts rsz d sz).getD (i * M.N + t) 0 = (dlimb (vecIdft M.parts rsz d sz) i M.N).getD t 0 := by
    unfold dlimb
    rw [getD_extract, if_pos (by omega)]
  rw [e2, idft_row M rsz d sz i hi, zext]
  by_cases hs : i < sz
  · rw [if_pos hs, if_pos hs, h i hs, getD_polyArr _ _ _ ht]
  · rw [if_neg hs, if_neg hs]
    exact getD_replicate_z 0 _ t

theorem polyArr_congr (N : ℕ) (f g : ℕ → ℤ) (h : ∀ t, t < N → f t = g t) : polyArr N f = polyArr N g := by
  unfold polyArr
  congr 1
  funext t
  exact h t.val t.isLt

theorem polyArr_zero (N : ℕ) (f : ℕ → ℤ) (h : ∀ t, t < N → f t = 0) : polyArr N f = Array.replicate N 0 := by
  apply Array.ext
  · simp
  · intro t h1 h2
    have h1' : t < N := by simpa using h1
    simp [polyArr, h t h1']

theorem eq_polyArr_of_getD (N : ℕ) (x : Array Int) (f : ℕ → ℤ) (hs : x.size = N) (h : ∀ t, t < N → x.getD t 0 = f t) :
    x = polyArr N f := by
  apply Array.ext
  · rw [hs, size_polyArr]
  · intro t h1 h2
    rw [hs] at h1
    have e := h t h1
    have h1' : t < x.size := by rw [hs]; exact h1
    simp only [Array.getD_eq_getD_getElem?, Array.getElem?_eq_getElem h1'] at e
    simpa [polyArr] using e

end Spq.ProgErr
