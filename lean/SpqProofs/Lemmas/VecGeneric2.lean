/-
  Variants of the generic limb-vector lemmas needed by the in-place kernels and by C18:
   * `stepNF_limb1'`, `stepNF_limb1_dep`, `vec_generic'`: the kernel only has to return `nn`
     coefficients on inputs of `nn` coefficients (in-place kernels preserve the size of their
     buffer; the out-of-place automorphism scatters into the prior content of the output limb);
   * `two_phase`: the two-loop shape (combine, then zero-extend);
   * `foldl_writeArr_frame`: the frame condition of a limb loop, with no hypothesis at all on
     where the sources are (arbitrary overlap) and no in-bounds hypothesis.
-/
import SpqProofs.Lemmas.VecGeneric
namespace Spq.Heap
variable {α : Type}

theorem stepNF_limb1' (d : α) (nn : Nat) (k : Array α → Array α)
    (hk : ∀ x, x.size = nn → (k x).size = nn) (r a : Nat) :
    StepNF (limb1 d nn k r a) r (fun m => k (readLimb ⟨m, true⟩ d a nn))
      (fun sz => decide (a + nn ≤ sz) && decide (r + nn ≤ sz)) :=
  ⟨fun _ => rfl, fun h => by
    simp only [limb1, writeLimb, touch, hk _ (size_readLimb ..), Bool.and_assoc]⟩

/-- one-source limb kernel that also receives the prior content of the output limb -/
theorem stepNF_limb1_dep (d : α) (nn : Nat) (k : Array α → Array α → Array α)
    (hk : ∀ x z, x.size = nn → z.size = nn → (k x z).size = nn) (r a : Nat) :
    StepNF (fun h => limb1 d nn (fun inp => k inp (h.readLimb d r nn)) r a h) r
      (fun m => k (readLimb ⟨m, true⟩ d a nn) (readLimb ⟨m, true⟩ d r nn))
      (fun sz => decide (a + nn ≤ sz) && decide (r + nn ≤ sz)) :=
  ⟨fun _ => rfl, fun h => by
    simp only [limb1, writeLimb, touch, hk _ _ (size_readLimb ..) (size_readLimb ..), Bool.and_assoc]⟩

theorem forLimbs_self (s : Nat) (f : Nat → Heap α → Heap α) (h : Heap α) : forLimbs s s f h = h := by
  simp [forLimbs]

theorem two_phase (f1 f3 : Nat → Heap α → Heap α) (s n : Nat) (hsn : s ≤ n)
    (r : Nat → Nat) (G : Nat → Array α → Array α) (B : Nat → Nat → Bool)
    (h1 : ∀ i, i < s → StepNF (f1 i) (r i) (G i) (B i))
    (h3 : ∀ i, s ≤ i → i < n → StepNF (f3 i) (r i) (G i) (B i)) (h : Heap α) :
    (forLimbs s n f3 (forLimbs 0 s f1 h)).mem =
      (List.range' 0 n).foldl (fun m i => writeArr m (r i) (G i m)) h.mem ∧
    (forLimbs s n f3 (forLimbs 0 s f1 h)).ok =
      (h.ok && (List.range' 0 n).all (fun i => B i h.mem.size)) := by
  have := three_phase f1 f1 f3 s s n (Nat.le_refl _) hsn r G B h1 (fun i a b => by omega) h3 h
  rwa [forLimbs_self] at this

theorem size_foldl_writeArr (r : Nat → Nat) (G : Nat → Array α → Array α) (l : List Nat) (m : Array α) :
    (l.foldl (fun m i => writeArr m (r i) (G i m)) m).size = m.size := by
  induction l generalizing m with
  | nil => rfl
  | cons x xs ih => simp only [List.foldl_cons]; rw [ih]; simp

/-- frame of a limb loop, unconditionally: only cells of the written windows can change -/
theorem foldl_writeArr_frame (nn : Nat) (r : Nat → Nat) (G : Nat → Array α → Array α)
    (hsz : ∀ i m, (G i m).size = nn) (l : List Nat) (m0 : Array α) (x : Nat)
    (hx : ∀ i, i ∈ l → x < r i ∨ r i + nn ≤ x) :
    (l.foldl (fun m i => writeArr m (r i) (G i m)) m0)[x]? = m0[x]? := by
  induction l generalizing m0 with
  | nil => rfl
  | cons k ks ih =>
    simp only [List.foldl_cons]
    rw [ih _ (fun i hi => hx i (by simp [hi]))]
    apply getElem?_writeArr_of_out
    rw [hsz]
    exact hx k (by simp)

/-- `vec_generic` with the size hypothesis only for inputs of `nn` coefficients -/
theorem vec_generic' (nn res rsz rsl a asz asl b bsz bsl : Nat) (d : α)
    (K : Nat → Array α → Array α → Array α → Array α)
    (hK : ∀ i x y z, x.size = nn → y.size = nn → z.size = nn → (K i x y z).size = nn)
    (hKa : ∀ i, asz ≤ i → ∀ x x' y z, K i x y z = K i x' y z)
    (hKb : ∀ i, bsz ≤ i → ∀ x y y' z, K i x y z = K i x y' z)
    (m0 : Array α)
    (hsl : nn ≤ rsl)
    (hres : ∀ i, i < rsz → res + i * rsl + nn ≤ m0.size)
    (ha : SrcOK nn res rsz rsl a asz asl) (hb : SrcOK nn res rsz rsl b bsz bsl) :
    let G := fun i (m : Array α) => K i (readLimb ⟨m, true⟩ d (a + i * asl) nn) (readLimb ⟨m, true⟩ d (b + i * bsl) nn)
                (readLimb ⟨m, true⟩ d (res + i * rsl) nn)
    let m' := (List.range' 0 rsz).foldl (fun m i => writeArr m (res + i * rsl) (G i m)) m0
    m'.size = m0.size ∧
    (∀ i c, i < rsz → c < nn → m'[res + i * rsl + c]? = (G i m0)[c]?) ∧
    (∀ x, (∀ i, i < rsz → x < res + i * rsl ∨ res + i * rsl + nn ≤ x) → m'[x]? = m0[x]?) := by
  intro G m'
  have hmono : ∀ i j, j < i → res + j * rsl + nn ≤ res + i * rsl := by
    intro i j hji
    have : (j + 1) * rsl ≤ i * rsl := Nat.mul_le_mul_right _ hji
    have h2 : (j + 1) * rsl = j * rsl + rsl := by rw [Nat.add_mul, Nat.one_mul]
    omega
  have key := limbLoop_spec nn (fun i => res + i * rsl) G
    (fun i x => (i < asz ∧ a + i * asl ≤ x ∧ x < a + i * asl + nn) ∨
                (i < bsz ∧ b + i * bsl ≤ x ∧ x < b + i * bsl + nn) ∨
                (res + i * rsl ≤ x ∧ x < res + i * rsl + nn)) 0 rsz m0
    (fun i m => hK _ _ _ _ (size_readLimb ..) (size_readLimb ..) (size_readLimb ..))
    (by
      intro i _ hi m m1 hsz hagree
      show K i _ _ _ = K i _ _ _
      have e3 : readLimb ⟨m, true⟩ d (res + i * rsl) nn = readLimb ⟨m1, true⟩ d (res + i * rsl) nn :=
        readLimb_congr _ _ _ _ _ (fun x h1 h2 => hagree x (Or.inr (Or.inr ⟨h1, h2⟩)))
      rw [e3]
      have ea : K i (readLimb ⟨m, true⟩ d (a + i * asl) nn) (readLimb ⟨m, true⟩ d (b + i * bsl) nn) (readLimb ⟨m1, true⟩ d (res + i * rsl) nn)
              = K i (readLimb ⟨m1, true⟩ d (a + i * asl) nn) (readLimb ⟨m, true⟩ d (b + i * bsl) nn) (readLimb ⟨m1, true⟩ d (res + i * rsl) nn) := by
        by_cases hia : i < asz
        · rw [readLimb_congr ⟨m, true⟩ ⟨m1, true⟩ _ _ _ (fun x h1 h2 => hagree x (Or.inl ⟨hia, h1, h2⟩))]
        · exact hKa i (by omega) _ _ _ _
      rw [ea]
      by_cases hib : i < bsz
      · rw [readLimb_congr ⟨m, true⟩ ⟨m1, true⟩ _ _ _ (fun x h1 h2 => hagree x (Or.inr (Or.inl ⟨hib, h1, h2⟩)))]
      · exact hKb i (by omega) _ _ _ _)
    (by
      intro i j _ hji hi x hx
      have hm := hmono i j hji
      rcases hx with ⟨hia, h1, h2⟩ | ⟨hib, h1, h2⟩ | ⟨h1, h2⟩
      · rcases ha with ⟨rfl, rfl⟩ | hdisj
        · omega
        · have := hdisj i j hia (by omega); omega
      · rcases hb with ⟨rfl, rfl⟩ | hdisj
        · omega
        · have := hdisj i j hib (by omega); omega
      · omega)
    (by intro i j _ hji _; have := hmono i j hji; omega)
    (by intro i _ hi; exact hres i (by omega))
  obtain ⟨k1, k2, k3⟩ := key
  refine ⟨k1, ?_, ?_⟩
  · intro i c hi hc; exact k2 i c (Nat.zero_le _) (by omega) hc
  · intro x hx; exact k3 x (fun i _ hi => hx i (by omega))

end Spq.Heap
