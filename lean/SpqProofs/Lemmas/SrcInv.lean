/-
  Relational (invariant) form of the `for` rule and lemmas for symbolic execution over an ABSTRACT environment
  (only some slots are known): used for loops whose body declares locals (their values of the previous
  iteration are dead and the invariant does not mention them), e.g. `znx_normalize`.
-/
import SpqProofs.Lemmas.SrcFill
namespace Spq.CIR

/-- `for` with an invariant indexed by the loop counter: `Inv k σ` = "σ is a state at the loop head when the
    counter is `k`".  -/
theorem exec_for_inv (Γ : List Ptr) (init : Stmt) (c : Expr) (inc body : Stmt) (σ0 σ1 : State)
    (Inv : Nat → State → Prop) (lo hi fb : Nat) (hlh : lo ≤ hi)
    (hi0 : ∀ f, exec Γ init f σ0 = .ok (.norm, σ1)) (h1 : Inv lo σ1)
    (hstep : ∀ k σ, lo ≤ k → k < hi → Inv k σ → evalB Γ c σ = .ok true ∧
      ∀ f, fb ≤ f → ∃ σ', thenStep (exec Γ body f σ) (fun σ' => exec Γ inc f σ') = .ok (.norm, σ') ∧ Inv (k + 1) σ')
    (hx : ∀ σ, Inv hi σ → evalB Γ c σ = .ok false) :
    ∀ f, (hi - lo) + fb ≤ f → ∃ σ', exec Γ (.for init c inc body) f σ0 = .ok (.norm, σ') ∧ Inv hi σ' := by
  intro f hf
  rw [exec_for_def, hi0 f]
  -- variant: iterations still to go
  have h := loopN_inv (evalB Γ c) (fun f σ => thenStep (exec Γ body f σ) fun σ' => exec Γ inc f σ')
    (fun d σ => d ≤ hi - lo ∧ Inv (hi - d) σ) fb
    (fun d σ ⟨hd, hI⟩ => by
      obtain ⟨hc, hs⟩ := hstep (hi - (d + 1)) σ (by omega) (by omega) hI
      refine ⟨hc, fun f hf => ?_⟩
      obtain ⟨σ', h1, h2⟩ := hs f hf
      refine ⟨σ', h1, by omega, ?_⟩
      have e : hi - (d + 1) + 1 = hi - d := by omega
      rw [e] at h2
      exact h2)
    (fun σ ⟨_, hI⟩ => hx σ (by simpa using hI))
    (hi - lo) σ1 f ⟨Nat.le_refl _, by
      have e : hi - (hi - lo) = lo := by omega
      rw [e]; exact h1⟩ hf
  obtain ⟨σ', h1', _, h2'⟩ := h
  exact ⟨σ', h1', by simpa using h2'⟩

/-! ### slots of an abstract environment -/
theorem lget_lset_ne : ∀ (env : List Int) (x y : Nat) (v : Int), x ≠ y → lget (lset env x v) y = lget env y
  | [], _, _, _, _ => rfl
  | _ :: _, 0, 0, _, h => absurd rfl h
  | _ :: _, 0, _ + 1, _, _ => rfl
  | _ :: _, _ + 1, 0, _, _ => rfl
  | _ :: xs, x + 1, y + 1, v, h => by
    simp only [lset, lget]
    exact lget_lset_ne xs x y v (by omega)

theorem lget_lset (env : List Int) (x y : Nat) (v : Int) :
    lget (lset env x v) y = if x = y then (if x < env.length then v else lget env y) else lget env y := by
  by_cases h : x = y
  · subst h
    by_cases hl : x < env.length
    · simp [lget_lset_self env x v hl, hl]
    · simp only [if_true, hl, if_false]
      -- out of range: lset does nothing
      have : ∀ (env : List Int) (x : Nat), ¬ x < env.length → lset env x v = env := by
        intro env
        induction env with
        | nil => intro x _; rfl
        | cons e es ih =>
          intro x hx
          cases x with
          | zero => simp at hx
          | succ x => simp only [lset]; rw [ih x (by simpa using hx)]
      rw [this env x hl]
  · simp [h, lget_lset_ne env x y v h]

/-! ### two result buffers `o ≠ c` filled in lock step -/
abbrev fillMem2 (m : Mem) (o : Nat) (gy : Nat → Int) (c : Nat) (gc : Nat → Int) (ky kc : Nat) : Mem :=
  (m.setIfInBounds o (fillTo (buf m o) gy ky)).setIfInBounds c (fillTo (buf m c) gc kc)

theorem size_buf_fillMem2 (m : Mem) (o c : Nat) (gy gc : Nat → Int) (ky kc b : Nat) (hoc : c ≠ o) :
    (buf (fillMem2 m o gy c gc ky kc) b).size = (buf m b).size := by
  unfold fillMem2
  rw [size_buf_set _ _ _ _ (by rw [size_fillTo, buf_set_ne _ _ _ _ hoc]),
    size_buf_set _ _ _ _ (size_fillTo _ _ _)]

/-- cell `i ≥ max ky kc` of any buffer is still the original one -/
theorem getD_buf_fillMem2_ge (m : Mem) (o c : Nat) (gy gc : Nat → Int) (ky kc b i : Nat) (hoc : c ≠ o)
    (h1 : ky ≤ i) (h2 : kc ≤ i) :
    (buf (fillMem2 m o gy c gc ky kc) b).getD i 0 = (buf m b).getD i 0 := by
  unfold fillMem2
  by_cases hb : b = c
  · subst hb
    by_cases hs : b < m.size
    · rw [buf_set_self _ _ _ (by simpa using hs), getD_fillTo]
      have : ¬ (i < kc ∧ i < (buf m b).size) := by omega
      simp [this]
    · simp [buf, Array.getD, hs]
  · rw [buf_set_ne _ _ _ _ hb, getD_buf_fill_ge m o b gy ky i h1]

theorem load_fillMem2 (m : Mem) (o c : Nat) (gy gc : Nat → Int) (ky kc b i : Nat) (hoc : c ≠ o)
    (h : i < (buf m b).size) (h1 : ky ≤ i) (h2 : kc ≤ i) :
    loadCell (fillMem2 m o gy c gc ky kc) (some (b, 0)) (i : Int) = .ok ((buf m b).getD i 0) := by
  rw [load0 _ _ _ (by rw [size_buf_fillMem2 _ _ _ _ _ _ _ _ hoc]; exact h),
    getD_buf_fillMem2_ge m o c gy gc ky kc b i hoc h1 h2]

/-- store to the first buffer -/
theorem store_fillMem2_fst (m : Mem) (o c : Nat) (gy gc : Nat → Int) (k kc : Nat) (v : Int) (hoc : c ≠ o)
    (h : k < (buf m o).size) (hv : v = gy k) :
    storeCell (fillMem2 m o gy c gc k kc) (some (o, 0)) (k : Int) v = .ok (fillMem2 m o gy c gc (k + 1) kc) := by
  have ho : o < m.size := lt_size_of_buf_size_pos m o (by omega)
  unfold fillMem2
  rw [store0 _ _ _ _ (by
      rw [buf_set_ne _ _ _ _ (Ne.symm hoc), buf_set_self _ _ _ ho, size_fillTo]; exact h),
    buf_set_ne _ _ _ _ (Ne.symm hoc), buf_set_self _ _ _ ho, fillTo_step _ _ _ _ hv]
  congr 1
  -- commute the two writes (different buffers)
  apply Array.ext
  · simp
  · intro j hj1 hj2
    simp at hj1
    by_cases hjo : o = j
    · subst hjo
      rw [Array.getElem_setIfInBounds_self]
      rw [Array.getElem_setIfInBounds_ne (by simpa using hj1) hoc, Array.getElem_setIfInBounds_self]
    · rw [Array.getElem_setIfInBounds_ne (by simpa using hj1) hjo]
      by_cases hjc : c = j
      · subst hjc
        rw [Array.getElem_setIfInBounds_self, Array.getElem_setIfInBounds_self]
      · rw [Array.getElem_setIfInBounds_ne (by simpa using hj1) hjc,
          Array.getElem_setIfInBounds_ne (by simpa using hj1) hjc,
          Array.getElem_setIfInBounds_ne hj1 hjo, Array.getElem_setIfInBounds_ne hj1 hjo]

/-- store to the second buffer -/
theorem store_fillMem2_snd (m : Mem) (o c : Nat) (gy gc : Nat → Int) (ky k : Nat) (v : Int) (_hoc : c ≠ o)
    (h : k < (buf m c).size) (hv : v = gc k) :
    storeCell (fillMem2 m o gy c gc ky k) (some (c, 0)) (k : Int) v = .ok (fillMem2 m o gy c gc ky (k + 1)) := by
  have hc : c < m.size := lt_size_of_buf_size_pos m c (by omega)
  unfold fillMem2
  rw [store0 _ _ _ _ (by rw [buf_set_self _ _ _ (by simpa using hc), size_fillTo]; exact h),
    buf_set_self _ _ _ (by simpa using hc), fillTo_step _ _ _ _ hv, set_set]

theorem fillMem2_zero (m : Mem) (o c : Nat) (gy gc : Nat → Int) : fillMem2 m o gy c gc 0 0 = m := by
  unfold fillMem2
  rw [fillTo_zero, fillTo_zero, set_buf_self]
  have := set_buf_self m c
  exact this

end Spq.CIR

namespace Spq.CIR
/-- counting `for` loop whose body is an arbitrary statement; the environment is abstract: `Keep env` is what
    the loop needs to know about it (length, values of the slots the body reads but does not write) and must be
    preserved by the body and by assignments to the counter slot `js`. -/
theorem body_for (Γ : List Ptr) (js : Nat) (e0 hiE : Expr) (body : Stmt) (env0 : List Int) (m0 : Mem)
    (M : Nat → Mem) (Keep : List Int → Prop) (lo hi : Nat)
    (hm0 : m0 = M lo) (hlh : lo ≤ hi) (h64 : hi < 18446744073709551616)
    (hK0 : Keep (lset env0 js (lo : Int)))
    (hKjs : ∀ env v, Keep env → Keep (lset env js v))
    (hKlen : ∀ env, Keep env → js < env.length)
    (he0 : eval Γ ⟨env0, m0⟩ e0 = .ok (lo : Int))
    (hhiE : ∀ env k, Keep env → eval Γ ⟨env, M k⟩ hiE = .ok (hi : Int))
    (hbody : ∀ env k, lo ≤ k → k < hi → Keep env → lget env js = (k : Int) → ∀ f,
      ∃ env', exec Γ body f ⟨env, M k⟩ = .ok (.norm, ⟨env', M (k + 1)⟩) ∧ Keep env' ∧ lget env' js = (k : Int)) :
    ∀ f, hi - lo ≤ f →
      memOf (exec Γ (.for (.assign js e0) (.bin .lt .u64 (.var js) hiE)
          (.assign js (.bin .add .u64 (.var js) (.lit 1))) body) f ⟨env0, m0⟩) = .ok (M hi) := by
  intro f hf
  subst hm0
  have h := exec_for_inv Γ (.assign js e0) (.bin .lt .u64 (.var js) hiE)
    (.assign js (.bin .add .u64 (.var js) (.lit 1))) body ⟨env0, M lo⟩ ⟨lset env0 js (lo : Int), M lo⟩
    (fun k σ => σ.mem = M k ∧ Keep σ.env ∧ lget σ.env js = (k : Int)) lo hi 0 hlh ?hi0 ?h1 ?hstep ?hx f (by omega)
  · obtain ⟨σ', h1, h2, _, _⟩ := h
    rw [h1, ← h2]
    rfl
  case hi0 =>
    intro f
    rw [exec_assign, he0]
    rfl
  case h1 =>
    exact ⟨rfl, hK0, lget_lset_self _ _ _ (by
      have := hKlen _ hK0
      rw [length_lset] at this
      exact this)⟩
  case hstep =>
    intro k σ hk1 hk2 hI
    obtain ⟨env, m⟩ := σ
    obtain ⟨hm, hK, hj⟩ := hI
    simp only at hm hK hj
    subst hm
    constructor
    · cir_simp
      rw [hhiE env k hK]
      cir_simp
      rw [hj]
      exact ok_decide_true (by omega)
    · intro f _
      obtain ⟨env', hb, hK', hj'⟩ := hbody env k hk1 hk2 hK hj f
      refine ⟨⟨lset env' js ((k + 1 : Nat) : Int), M (k + 1)⟩, ?_, rfl, hKjs _ _ hK', lget_lset_self _ _ _ (hKlen _ hK')⟩
      rw [hb]
      cir_simp
      rw [hj']
      have e : ((k : Int) + 1) % 18446744073709551616 = ((k + 1 : Nat) : Int) := by omega
      rw [e]
  case hx =>
    intro σ hI
    obtain ⟨env, m⟩ := σ
    obtain ⟨hm, hK, hj⟩ := hI
    simp only at hm hK hj
    subst hm
    cir_simp
    rw [hhiE env hi hK]
    cir_simp
    rw [hj]
    exact ok_decide_false (by omega)
end Spq.CIR
