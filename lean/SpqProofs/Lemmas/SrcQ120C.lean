/-
  Helpers for the layout-c (uint32 words) functions of `q120_arithmetic_simple.c`: the cells of the packed model
  outputs.
-/
import SpqProofs.Lemmas.SrcQ120
namespace Spq.Src
open Spq Spq.CIR Spq.Q120

theorem wrap_u32 (x : Int) : Ty.wrap .u32 x = x % 4294967296 := rfl

theorem getD_ofFn_nat (n : Nat) (f : Fin n → Nat) (i : Nat) (h : i < n) :
    (Array.ofFn f).getD i 0 = f ⟨i, h⟩ := by
  simp [Array.getD, h]

theorem size_cFromB (p : Q120Params) (nn : Nat) (X : Array Nat) : (cFromB p nn X).size = 8 * nn := by
  simp [cFromB]
theorem size_addCcc (p : Q120Params) (nn : Nat) (X Y : Array Nat) : (addCcc p nn X Y).size = 8 * nn := by
  simp [addCcc]

/-- cell `c` of the packed output of `cFromB` -/
theorem getD_pack_cFromB (p : Q120Params) (nn : Nat) (X : Array Nat) (c : Nat) (h : c < 4 * nn) :
    (packW (cFromB p nn X)).getD c 0
      = (cFromBLane (p.q (c % 4)) (X.getD c 0)).1 + 4294967296 * (cFromBLane (p.q (c % 4)) (X.getD c 0)).2 := by
  rw [getD_packW _ _ (by rw [size_cFromB]; omega)]
  have h1 : 2 * c < 8 * nn := by omega
  have h2 : 2 * c + 1 < 8 * nn := by omega
  have e1 : (cFromB p nn X).getD (2 * c) 0 = (cFromBLane (p.q (c % 4)) (X.getD c 0)).1 := by
    unfold cFromB
    rw [getD_ofFn_nat _ _ _ h1]
    simp only []
    rw [show 2 * c % 8 / 2 = c % 4 by omega, show 2 * c / 2 = c by omega]
    simp
  have e2 : (cFromB p nn X).getD (2 * c + 1) 0 = (cFromBLane (p.q (c % 4)) (X.getD c 0)).2 := by
    unfold cFromB
    rw [getD_ofFn_nat _ _ _ h2]
    simp only []
    rw [show (2 * c + 1) % 8 / 2 = c % 4 by omega, show (2 * c + 1) / 2 = c by omega]
    simp [show ¬ (2 * c + 1) % 2 = 0 by omega]
  rw [e1, e2]

/-- cell `c` of the packed output of `addCcc` -/
theorem getD_pack_addCcc (p : Q120Params) (nn : Nat) (X Y : Array Nat) (c : Nat) (h : c < 4 * nn) :
    (packW (addCcc p nn X Y)).getD c 0
      = addCccWord (p.q (c % 4)) (X.getD (2 * c) 0) (Y.getD (2 * c) 0)
        + 4294967296 * addCccWord (p.q (c % 4)) (X.getD (2 * c + 1) 0) (Y.getD (2 * c + 1) 0) := by
  rw [getD_packW _ _ (by rw [size_addCcc]; omega)]
  have h1 : 2 * c < 8 * nn := by omega
  have h2 : 2 * c + 1 < 8 * nn := by omega
  have e1 : (addCcc p nn X Y).getD (2 * c) 0 = addCccWord (p.q (c % 4)) (X.getD (2 * c) 0) (Y.getD (2 * c) 0) := by
    unfold addCcc
    rw [getD_ofFn_nat _ _ _ h1]
    simp only []
    rw [show 2 * c % 8 / 2 = c % 4 by omega]
  have e2 : (addCcc p nn X Y).getD (2 * c + 1) 0
      = addCccWord (p.q (c % 4)) (X.getD (2 * c + 1) 0) (Y.getD (2 * c + 1) 0) := by
    unfold addCcc
    rw [getD_ofFn_nat _ _ _ h2]
    simp only []
    rw [show (2 * c + 1) % 8 / 2 = c % 4 by omega]
  rw [e1, e2]
end Spq.Src
