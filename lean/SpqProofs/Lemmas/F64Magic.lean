/-
  The "magic constant" addition: adding a constant `c` whose binade contains the exact sum `x + c` rounds
  `x` to a multiple of the unit in the last place of `c` (round-to-nearest-even), and the rounded multiple
  can be read off the fraction field of the result.
-/
import SpqProofs.Lemmas.F64Arith

namespace Spq.F64

/-- value of a decoded pattern split at a common exponent `e0 ≤ e` -/
theorem toScaled_split {b : Nat} {s : Bool} {m : Nat} {e : Int} (hd : decode b = ⟨s, m, e⟩)
    (e0 : Int) (k : Nat) (he : e = e0 + k) (h0 : -1074 ≤ e0) :
    toScaled b = sI s m * 2 ^ k * 2 ^ ((e0 + 1074).toNat) := by
  rw [toScaled_of_decode' hd]
  have : (e + 1074).toNat = k + (e0 + 1074).toNat := by omega
  rw [this, pow_add, mul_assoc]

/-- `add x c` when the exact sum `V·2^e` lies in the binade `[2^52, 2^53)·2^ec` of the positive constant `c`:
    the result is positive, has exponent `ec`, and its significand is `V` rounded to a multiple of `2^k2`. -/
theorem add_magic {x c : Nat} {sx : Bool} {mx mc : Nat} {ex ec : Int}
    (hx : decode x = ⟨sx, mx, ex⟩) (hc : decode c = ⟨false, mc, ec⟩)
    (e : Int) (k1 k2 : Nat) (he : e = min ex ec) (hk1 : ex = e + k1) (hk2 : ec = e + k2)
    (V : Nat) (hV : (V : Int) = sI sx mx * 2 ^ k1 + (mc : Int) * 2 ^ k2)
    (hlo : 4503599627370496 * 2 ^ k2 ≤ V) (hhi : V < 9007199254740992 * 2 ^ k2)
    (hq : rne V k2 < 9007199254740992) (hec0 : -1074 ≤ ec) (hec1 : ec ≤ 971) :
    decode (add x c) = ⟨false, rne V k2, ec⟩ ∧
    add x c = (ec + 1075).toNat * 4503599627370496 + (rne V k2 - 4503599627370496) := by
  have hP : 0 < 2 ^ k2 := by positivity
  have hVpos : 0 < (V : Int) := by
    have : 0 < V := by omega
    exact_mod_cast this
  have hadd : add x c = pack false V e := by
    rw [add_of_decode hx hc, ← he]
    have h1 : (ex - e).toNat = k1 := by omega
    have h2 : (ec - e).toNat = k2 := by omega
    rw [h1, h2]
    have : sI false mc = (mc : Int) := by simp [sI]
    rw [this, ← hV, packSigned_pos hVpos]
    simp
  have hE : -1074 ≤ e + k2 := by omega
  constructor
  · rw [hadd, decode_pack_round false V e k2 hlo hhi hE hq (by omega)]
    congr 1; omega
  · rw [hadd, pack_round false V e k2 hlo hhi hE,
      encode_normal false _ _ (rne_range hlo hhi).1 hq (by omega)]
    have : e + (k2 : Int) = ec := by omega
    rw [this]; simp [sgn]

/-- fields of the result pattern of `add_magic` -/
theorem magic_fields (ex q : Nat) (_h1 : ex ≤ 2046) (hq1 : 4503599627370496 ≤ q) (hq2 : q < 9007199254740992) :
    (ex * 4503599627370496 + (q - 4503599627370496)) % 4503599627370496 = q - 4503599627370496 := by
  omega

end Spq.F64
