/-
  C16, binary64 side, products of products, step 7: the metric invariant of a whole `VEC_ZNX_DFT` object
  (`MetricRep`) and its derivation for the outputs of `vec_znx_dft` (`dft_metric`) and `svp_apply_dft` (`svp_metric`).
-/
import SpqProofs.Lemmas.ProgErr2Svp
import SpqProofs.Lemmas.ProgErr2Inv
import SpqProofs.Lemmas.ProgErrStep
set_option linter.unusedSectionVars false
namespace Spq.ProgErr2
open Finset Spq Spq.Module Spq.Fft Spq.Fft.Alg Spq.FftErr Spq.F64 Spq.Reim4 Spq.ProdErr Spq.VmpErr Spq.ProgErr Spq.Closed
  Spq.Prog
variable {K : Type} [Field K] [LinearOrder K] [IsStrictOrderedRing K]

/-- **`MetricRep M P sz d δ`**: the binary64 DFT-space object `d` (`sz` limbs of `N` cells) REPRESENTS the integer
    polynomial vector `P` with error budgets `δ`: every cell is a finite double and, limb by limb,
    `Σ_j |val(d_i)_j − DFT(P_i)_j|² ≤ δ_i²·m` (`LimbMetric`; `δ_i` is a root-mean-square error per complex point). -/
def MetricRep (M : F64Mod K) (P : Val) (sz : ℕ) (d : Array ℕ) (δ : ℕ → K) : Prop :=
  d.size = sz * M.N ∧ ∀ i, i < sz → LimbMetric M (dlimb d i M.N) (polyArr M.N (P.coef i)) (δ i)

theorem MetricRep.mono {M : F64Mod K} {P : Val} {sz : ℕ} {d : Array ℕ} {δ δ' : ℕ → K} (h : MetricRep M P sz d δ)
    (hle : ∀ i, i < sz → δ i ≤ δ' i) : MetricRep M P sz d δ' :=
  ⟨h.1, fun i hi => (h.2 i hi).mono (hle i hi)⟩

theorem MetricRep.congr {M : F64Mod K} {P P' : Val} {sz : ℕ} {d : Array ℕ} {δ : ℕ → K} (h : MetricRep M P sz d δ)
    (hP : ∀ i t, i < sz → t < M.N → P.coef i t = P'.coef i t) : MetricRep M P' sz d δ :=
  ⟨h.1, fun i hi => (h.2 i hi).congr (fun t ht => by
    rw [getD_polyArr _ _ _ ht, getD_polyArr _ _ _ ht, hP i t hi ht])⟩

/-- `Module.mul` of the binary64 module is the pointwise product kernel `mulA` -/
theorem parts_mul (M : F64Mod K) (x y : Array ℕ) :
    Module.mul M.parts x y = mulA F64.arith M.c.mulFma (2 ^ M.k) x y := by
  have hm : M.c.nn / 2 = 2 ^ M.k := by rw [M.ok.cfg.nn]; exact pow_half M.k
  show (let r := Array.replicate M.c.nn F64.arith.zero
    if M.c.mulFma then (reimFftvecMulFma F64.arith (M.c.nn / 2) r x y).getD r
    else reimFftvecMulRef F64.arith (M.c.nn / 2) r x y) = _
  rw [hm, M.ok.cfg.nn]; rfl

/-! ### `vec_znx_dft` -/

/-- budget of one transformed limb `a` with target budget `δ`: box, forward flags, `ε·na ≤ δ` for some `na ≥ ‖a‖₂` -/
def DftLimbBudget (M : F64Mod K) (a : Array Int) (δ : K) : Prop :=
  Box M.k a ∧ FwdOk M.c M.k M.cN M.sN a ∧ ∃ na : K, 0 ≤ na ∧ n2sq K a M.N ≤ na ^ 2 ∧ eps K M.k * na ≤ δ

/-- **`dft_metric`**: `vec_znx_dft` of an integer vector inside the budget satisfies the metric invariant
    (`C16Err.raw_dft_metric_f64_partial` limb by limb; the padding limbs `i ≥ asz` are `+0` cells) -/
theorem dft_metric (M : F64Mod K) (x : Array Int) (asz asl rsz : ℕ) (f : ℕ → ℕ → ℤ) (hag : Agree M.N x asz asl f)
    (δ : ℕ → K) (hδ0 : ∀ i, i < rsz → 0 ≤ δ i)
    (hb : ∀ i, i < asz → i < rsz → DftLimbBudget M (polyArr M.N (f i)) (δ i)) :
    MetricRep M (Val.mk M.N rsz (zext asz f)) rsz (vecDft M.parts rsz x asz asl) δ := by
  have hnn := M.nn
  have hsz : (vecDft M.parts rsz x asz asl).size = rsz * M.N := by
    obtain ⟨a1, _⟩ := vecDft_spec M.parts rsz x asz asl
      (fun i => if i < asz then M.parts.fft (M.parts.fromZnx (polyArr M.N (f i))) else Array.replicate M.N 0)
      (by
        intro i _
        by_cases h : i < asz
        · rw [if_pos h, if_pos h, hnn, limbOf_agree hag i h]
        · rw [if_neg h, if_neg h, hnn]; rfl)
      (by
        intro i _
        by_cases h : i < asz
        · rw [if_pos h, hnn]; exact fwd_size M _
        · rw [if_neg h, hnn]; simp)
    rw [hnn] at a1
    exact a1
  refine ⟨hsz, fun i hi => ?_⟩
  rw [vecDft_limb M x asz asl rsz f hag i hi]
  by_cases h : i < asz
  · rw [if_pos h]
    obtain ⟨hbox, hok, na, hna0, hna, hle⟩ := hb i h hi
    refine ((fwd_limbMetric M _ hbox hok na hna0 hna).mono hle).congr ?_
    intro t ht
    rw [getD_polyArr _ _ _ ht, getD_polyArr _ _ _ ht, coef_mk _ _ _ _ _ hi ht, zext, if_pos h]
  · rw [if_neg h]
    apply limbMetric_zero M _ _ _ (hδ0 i hi)
    · intro p _; exact getD_replicate_z 0 _ p
    · intro t ht
      rw [getD_polyArr _ _ _ ht, coef_mk _ _ _ _ _ hi ht, zext, if_neg h]

/-! ### `svp_apply_dft` -/

/-- budget of one product limb `a ⊛ b` with target budget `δ`: boxes, flags of the two forward transforms and of the
    pointwise product, `fB ε μ (ε·m)·(‖a‖₁·nb + na·‖b‖₁) ≤ δ` -/
def SvpLimbBudget (M : F64Mod K) (a b : Array Int) (δ : K) : Prop :=
  Box M.k a ∧ Box M.k b ∧ MulOk M.c M.k M.cN M.sN a b ∧
  ∃ na nb : K, 0 ≤ na ∧ 0 ≤ nb ∧ n2sq K a M.N ≤ na ^ 2 ∧ n2sq K b M.N ≤ nb ^ 2 ∧ nb ≤ n1 K b M.N ∧
    svpDelta M a b na nb ≤ δ

/-- size and limbs of `svp_apply_dft (svp_prepare sp) x` -/
theorem svpApply_limbs (M : F64Mod K) (x : Array Int) (asz asl rsz : ℕ) (f : ℕ → ℕ → ℤ) (hag : Agree M.N x asz asl f)
    (sp : Array Int) :
    (svpApply M.parts rsz (svpPrepare M.parts sp) x asz asl).size = rsz * M.N ∧
    ∀ i, i < rsz → dlimb (svpApply M.parts rsz (svpPrepare M.parts sp) x asz asl) i M.N =
      if i < asz then stM M.c M.k M.cN M.sN (polyArr M.N (f i)) sp else Array.replicate M.N 0 := by
  have hnn := M.nn
  obtain ⟨a1, a2⟩ := svpApply_spec M.parts rsz (svpPrepare M.parts sp) x asz asl
    (fun i => if i < asz then stM M.c M.k M.cN M.sN (polyArr M.N (f i)) sp else Array.replicate M.N 0)
    (by
      intro i _
      by_cases h : i < asz
      · rw [if_pos h, if_pos h, hnn, limbOf_agree hag i h, parts_mul, parts_fft M.c M.k M.cN M.sN M.cNi M.sNi M.ok.cfg]
        unfold svpPrepare
        rw [parts_fft M.c M.k M.cN M.sN M.cNi M.sNi M.ok.cfg]
        rfl
      · rw [if_neg h, if_neg h, hnn]; rfl)
    (by
      intro i _
      by_cases h : i < asz
      · rw [if_pos h, hnn]
        exact (mulA_cells F64.arith M.c.mulFma (2 ^ M.k) (fun hf => pow_mod_four' M.k (M.ok.cfg.mulFma hf)) _ _).1
      · rw [if_neg h, hnn]; simp)
  rw [hnn] at a1 a2
  exact ⟨a1, a2⟩

/-- **`svp_metric`**: `svp_apply_dft` of an integer vector with a prepared scalar inside the budget satisfies the
    metric invariant for the exact products `a_i ⊛ s` (the DFT-space bound of C01Err before the inverse transform) -/
theorem svp_metric (M : F64Mod K) (x : Array Int) (asz asl rsz : ℕ) (f : ℕ → ℕ → ℤ) (hag : Agree M.N x asz asl f)
    (sp : Array Int) (δ : ℕ → K) (hδ0 : ∀ i, i < rsz → 0 ≤ δ i)
    (hb : ∀ i, i < asz → i < rsz → SvpLimbBudget M (polyArr M.N (f i)) sp (δ i)) :
    MetricRep M (Val.mk M.N rsz fun i c => polyMul M.N (zext asz f i) (fun t => sp.getD t 0) c) rsz
      (svpApply M.parts rsz (svpPrepare M.parts sp) x asz asl) δ := by
  obtain ⟨hsz, hl⟩ := svpApply_limbs M x asz asl rsz f hag sp
  refine ⟨hsz, fun i hi => ?_⟩
  rw [hl i hi]
  by_cases h : i < asz
  · rw [if_pos h]
    obtain ⟨hA, hB, hok, na, nb, hna0, hnb0, hna, hnb, hnl, hle⟩ := hb i h hi
    refine ((svp_stage M _ sp hA hB hok na nb hna0 hnb0 hna hnb hnl).mono hle).congr ?_
    intro t ht
    rw [getD_polyArr _ _ _ ht, coef_mk _ _ _ _ _ hi ht]
    apply getD_nmul _ _ _ _ _ _ _ t ht
    · intro u hu; rw [getD_polyArr _ _ _ hu, zext, if_pos h]
    · intro u _; rfl
  · rw [if_neg h]
    apply limbMetric_zero M _ _ _ (hδ0 i hi)
    · intro p _; exact getD_replicate_z 0 _ p
    · intro t ht
      rw [getD_polyArr _ _ _ ht, coef_mk _ _ _ _ _ hi ht]
      have : zext asz f i = fun _ => 0 := by funext u; simp [zext, h]
      rw [this, polyMul_zero_left]

end Spq.ProgErr2
