/-
  binary64 with a validity flag (`arithOk`): the flag of a result says that every operation it depends on had finite
  operands and an exact result in the normal range (or exactly 0).  Under the flag, the bit-level result is finite and
  its value is the result of the guarded rational arithmetic `arG`, which satisfies agent H's `StdModel`.
-/
import SpqProofs.Lemmas.F64StdModel
import SpqProofs.Lemmas.F64StdSim

namespace Spq.F64

/-- a pattern with its finiteness as flag -/
def lift (b : Nat) : Nat × Prop := (b, Fin64 b)

/-- bit-exact binary64 that also records "all exact partial results were in the normal range" -/
def arithOk : RArith (Nat × Prop) where
  zero := lift 0
  add := fun x y => (add x.1 y.1, x.2 ∧ y.2 ∧ NormalRange (val x.1 + val y.1))
  sub := fun x y => (sub x.1 y.1, x.2 ∧ y.2 ∧ NormalRange (val x.1 - val y.1))
  mul := fun x y => (mul x.1 y.1, x.2 ∧ y.2 ∧ NormalRange (val x.1 * val y.1))
  fma := fun x y z => (fma x.1 y.1 z.1, x.2 ∧ y.2 ∧ z.2 ∧ NormalRange (val x.1 * val y.1 + val z.1))
  fms := fun x y z => (fms x.1 y.1 z.1, x.2 ∧ y.2 ∧ z.2 ∧ NormalRange (val x.1 * val y.1 - val z.1))

/-! projections of the flagged operations (all `rfl`; for rewriting without evaluating anything) -/
theorem lift_fst (b : Nat) : (lift b).1 = b := rfl
theorem lift_snd (b : Nat) : (lift b).2 = Fin64 b := rfl
theorem arithOk_zero : arithOk.zero = lift 0 := rfl
theorem arithOk_add_fst (x y : Nat × Prop) : (arithOk.add x y).1 = add x.1 y.1 := rfl
theorem arithOk_add_snd (x y : Nat × Prop) : (arithOk.add x y).2 = (x.2 ∧ y.2 ∧ NormalRange (val x.1 + val y.1)) := rfl
theorem arithOk_sub_fst (x y : Nat × Prop) : (arithOk.sub x y).1 = sub x.1 y.1 := rfl
theorem arithOk_sub_snd (x y : Nat × Prop) : (arithOk.sub x y).2 = (x.2 ∧ y.2 ∧ NormalRange (val x.1 - val y.1)) := rfl
theorem arithOk_mul_fst (x y : Nat × Prop) : (arithOk.mul x y).1 = mul x.1 y.1 := rfl
theorem arithOk_mul_snd (x y : Nat × Prop) : (arithOk.mul x y).2 = (x.2 ∧ y.2 ∧ NormalRange (val x.1 * val y.1)) := rfl
theorem arithOk_fma_fst (x y z : Nat × Prop) : (arithOk.fma x y z).1 = fma x.1 y.1 z.1 := rfl
theorem arithOk_fma_snd (x y z : Nat × Prop) :
    (arithOk.fma x y z).2 = (x.2 ∧ y.2 ∧ z.2 ∧ NormalRange (val x.1 * val y.1 + val z.1)) := rfl
theorem arithOk_fms_fst (x y z : Nat × Prop) : (arithOk.fms x y z).1 = fms x.1 y.1 z.1 := rfl
theorem arithOk_fms_snd (x y z : Nat × Prop) :
    (arithOk.fms x y z).2 = (x.2 ∧ y.2 ∧ z.2 ∧ NormalRange (val x.1 * val y.1 - val z.1)) := rfl

theorem fin64_zero : Fin64 0 := fin64_sgn false

theorem val_zero : val 0 = 0 := val_sgn false

/-- forgetting the flag gives the bit-level arithmetic -/
theorem arithOk_sim_arith : RArith.Sim (fun (x : Nat × Prop) (b : Nat) => x.1 = b) arithOk F64.arith where
  zero := rfl
  add := by intro a a' b b' h1 h2; simp only [arithOk, arith]; rw [h1, h2]
  sub := by intro a a' b b' h1 h2; simp only [arithOk, arith]; rw [h1, h2]
  mul := by intro a a' b b' h1 h2; simp only [arithOk, arith]; rw [h1, h2]
  fma := by intro a a' b b' c c' h1 h2 h3; simp only [arithOk, arith]; rw [h1, h2, h3]
  fms := by intro a a' b b' c c' h1 h2 h3; simp only [arithOk, arith]; rw [h1, h2, h3]

/-- under the flag: finite, and the value is the one computed by the guarded rational arithmetic -/
def RelQ (x : Nat × Prop) (q : ℚ) : Prop := x.2 → Fin64 x.1 ∧ val x.1 = q

theorem arithOk_sim_arG : RArith.Sim RelQ arithOk arG where
  zero := fun _ => ⟨fin64_zero, val_zero⟩
  add := by
    intro a a' b b' h1 h2 hf
    obtain ⟨fa, fb, hn⟩ := hf
    obtain ⟨_, rfl⟩ := h1 fa
    obtain ⟨_, rfl⟩ := h2 fb
    refine ⟨(add_std a.1 b.1 hn.noOvf).1, ?_⟩
    show val (add a.1 b.1) = gd (GoodQ (val a.1 + val b.1)) (rnd (val a.1 + val b.1)) (val a.1 + val b.1)
    rw [gd_pos ⟨dyadic_val_add _ _, hn⟩, val_add]
  sub := by
    intro a a' b b' h1 h2 hf
    obtain ⟨fa, fb, hn⟩ := hf
    obtain ⟨_, rfl⟩ := h1 fa
    obtain ⟨hb, rfl⟩ := h2 fb
    refine ⟨(sub_std a.1 b.1 hb.1 hn.noOvf).1, ?_⟩
    show val (sub a.1 b.1) = gd (GoodQ (val a.1 - val b.1)) (rnd (val a.1 - val b.1)) (val a.1 - val b.1)
    rw [gd_pos ⟨dyadic_val_sub _ _ hb.1, hn⟩, val_sub _ _ hb.1]
  mul := by
    intro a a' b b' h1 h2 hf
    obtain ⟨fa, fb, hn⟩ := hf
    obtain ⟨_, rfl⟩ := h1 fa
    obtain ⟨_, rfl⟩ := h2 fb
    refine ⟨(mul_std a.1 b.1 hn.noOvf).1, ?_⟩
    show val (mul a.1 b.1) = gd (GoodQ (val a.1 * val b.1)) (rnd (val a.1 * val b.1)) (val a.1 * val b.1)
    rw [gd_pos ⟨dyadic_val_mul _ _, hn⟩, val_mul]
  fma := by
    intro a a' b b' c c' h1 h2 h3 hf
    obtain ⟨fa, fb, fc, hn⟩ := hf
    obtain ⟨_, rfl⟩ := h1 fa
    obtain ⟨_, rfl⟩ := h2 fb
    obtain ⟨_, rfl⟩ := h3 fc
    refine ⟨(fma_std a.1 b.1 c.1 hn.noOvf).1, ?_⟩
    show val (fma a.1 b.1 c.1) = gd (GoodQ (val a.1 * val b.1 + val c.1)) (rnd (val a.1 * val b.1 + val c.1))
      (val a.1 * val b.1 + val c.1)
    rw [gd_pos ⟨dyadic_val_fma _ _ _, hn⟩, val_fma]
  fms := by
    intro a a' b b' c c' h1 h2 h3 hf
    obtain ⟨fa, fb, fc, hn⟩ := hf
    obtain ⟨_, rfl⟩ := h1 fa
    obtain ⟨_, rfl⟩ := h2 fb
    obtain ⟨hc, rfl⟩ := h3 fc
    refine ⟨(fms_std a.1 b.1 c.1 hc.1 hn.noOvf).1, ?_⟩
    show val (fms a.1 b.1 c.1) = gd (GoodQ (val a.1 * val b.1 - val c.1)) (rnd (val a.1 * val b.1 - val c.1))
      (val a.1 * val b.1 - val c.1)
    rw [gd_pos ⟨dyadic_val_fms _ _ _ hc.1, hn⟩, val_fms _ _ _ hc.1]

/-! ### arrays -/

theorem getD_map {γ δ : Type} (f : γ → δ) (a : Array γ) (i : Nat) (z : γ) : (a.map f).getD i (f z) = f (a.getD i z) := by
  simp only [Array.getD_eq_getD_getElem?, Array.getElem?_map]
  cases a[i]? <;> rfl

theorem lift_rel_arith (a : Array Nat) (i : Nat) : ((a.map lift).getD i arithOk.zero).1 = a.getD i F64.arith.zero := by
  show ((a.map lift).getD i (lift 0)).1 = a.getD i 0
  rw [getD_map]; rfl

theorem lift_rel_arG (a : Array Nat) (i : Nat) : RelQ ((a.map lift).getD i arithOk.zero) ((a.map val).getD i arG.zero) := by
  show RelQ ((a.map lift).getD i (lift 0)) ((a.map val).getD i 0)
  rw [getD_map, ← val_zero, getD_map]
  intro h; exact ⟨h, rfl⟩

/-! ### transfer for the two one-column products -/

/-- the flag of a flagged pattern holds (a structure, so that elaboration never evaluates the flagged kernel) -/
structure Ok (x : Nat × Prop) : Prop where
  ok : x.2

open Spq.Reim4 in
theorem ref_transfer (n : Nat) (dst u v : Array Nat) (hb : 8 ≤ dst.size) (k : Nat) (hk : k < 8)
    (hf : Ok ((vecMat1colProductRef arithOk n (dst.map lift) (u.map lift) (v.map lift)).getD k (lift 0))) :
    Fin64 ((vecMat1colProductRef F64.arith n dst u v).getD k 0) ∧
    val ((vecMat1colProductRef F64.arith n dst u v).getD k 0) =
      (vecMat1colProductRef arG n (dst.map val) (u.map val) (v.map val)).getD k 0 := by
  have hs : 8 ≤ (dst.map lift).size := by rw [Array.size_map]; exact hb
  have hs' : 8 ≤ (dst.map val).size := by rw [Array.size_map]; exact hb
  have s1 : ((vecMat1colProductRef arithOk n (dst.map lift) (u.map lift) (v.map lift)).getD k arithOk.zero).1 =
      (vecMat1colProductRef F64.arith n dst u v).getD k F64.arith.zero :=
    vecMat1colProductRef_sim arithOk_sim_arith n (dst.map lift) (u.map lift) (v.map lift) dst u v hs hb
      (lift_rel_arith u) (lift_rel_arith v) k hk
  have s2 : RelQ ((vecMat1colProductRef arithOk n (dst.map lift) (u.map lift) (v.map lift)).getD k arithOk.zero)
      ((vecMat1colProductRef arG n (dst.map val) (u.map val) (v.map val)).getD k arG.zero) :=
    vecMat1colProductRef_sim arithOk_sim_arG n (dst.map lift) (u.map lift) (v.map lift)
      (dst.map val) (u.map val) (v.map val) hs hs' (lift_rel_arG u) (lift_rel_arG v) k hk
  change Ok ((vecMat1colProductRef arithOk n (dst.map lift) (u.map lift) (v.map lift)).getD k arithOk.zero) at hf
  generalize (vecMat1colProductRef arithOk n (dst.map lift) (u.map lift) (v.map lift)).getD k arithOk.zero = X at s1 s2 hf
  obtain ⟨h1, h2⟩ := s2 hf.ok
  rw [s1] at h1 h2
  exact ⟨h1, h2⟩

open Spq.Reim4 in
theorem avx2_transfer (n : Nat) (dst u v : Array Nat) (hb : 8 ≤ dst.size) (k : Nat) (hk : k < 8)
    (hf : Ok ((vecMat1colProductAvx2 arithOk n (dst.map lift) (u.map lift) (v.map lift)).getD k (lift 0))) :
    Fin64 ((vecMat1colProductAvx2 F64.arith n dst u v).getD k 0) ∧
    val ((vecMat1colProductAvx2 F64.arith n dst u v).getD k 0) =
      (vecMat1colProductAvx2 arG n (dst.map val) (u.map val) (v.map val)).getD k 0 := by
  have hs : 8 ≤ (dst.map lift).size := by rw [Array.size_map]; exact hb
  have hs' : 8 ≤ (dst.map val).size := by rw [Array.size_map]; exact hb
  have s1 : ((vecMat1colProductAvx2 arithOk n (dst.map lift) (u.map lift) (v.map lift)).getD k arithOk.zero).1 =
      (vecMat1colProductAvx2 F64.arith n dst u v).getD k F64.arith.zero :=
    vecMat1colProductAvx2_sim arithOk_sim_arith n (dst.map lift) (u.map lift) (v.map lift) dst u v hs hb
      (lift_rel_arith u) (lift_rel_arith v) k hk
  have s2 : RelQ ((vecMat1colProductAvx2 arithOk n (dst.map lift) (u.map lift) (v.map lift)).getD k arithOk.zero)
      ((vecMat1colProductAvx2 arG n (dst.map val) (u.map val) (v.map val)).getD k arG.zero) :=
    vecMat1colProductAvx2_sim arithOk_sim_arG n (dst.map lift) (u.map lift) (v.map lift)
      (dst.map val) (u.map val) (v.map val) hs hs' (lift_rel_arG u) (lift_rel_arG v) k hk
  change Ok ((vecMat1colProductAvx2 arithOk n (dst.map lift) (u.map lift) (v.map lift)).getD k arithOk.zero) at hf
  generalize (vecMat1colProductAvx2 arithOk n (dst.map lift) (u.map lift) (v.map lift)).getD k arithOk.zero = X at s1 s2 hf
  obtain ⟨h1, h2⟩ := s2 hf.ok
  rw [s1] at h1 h2
  exact ⟨h1, h2⟩

end Spq.F64
