/-
  C02 rounding budget, step 3: "perturbed sums".  `PSum n x m G s`: `s = Σ_{i<n} (x_i + e_i)` with `|e_i| ≤ (G − 1)·m_i`
  — the backward-error form of an accumulated sum (each TERM carries its own relative perturbation), which is what the
  row-wise composition with the FFT error needs (the forward bound `|s − Σx_i| ≤ (G − 1)·Σm_i` is `PSum.err`).
  All accumulation orders of `VmpErrDot.lean` are perturbed sums under the standard model.
-/
import SpqProofs.Lemmas.VmpErrDot
import SpqProofs.Lemmas.FftErrBfly
set_option linter.unusedSectionVars false
namespace Spq.VmpErr
open Finset Spq Spq.Reim4
variable {K : Type} [Field K] [LinearOrder K] [IsStrictOrderedRing K]

def PSum (n : ℕ) (x m : ℕ → K) (G s : K) : Prop :=
  ∃ e : ℕ → K, (∀ i, i < n → |e i| ≤ (G - 1) * m i) ∧ s = ∑ i ∈ range n, (x i + e i)

theorem PSum.zero (x m : ℕ → K) (G : K) : PSum 0 x m G 0 := ⟨fun _ => 0, fun i hi => by omega, by simp⟩

/-- relative error as a factor -/
theorem rel_factor {u A y : K} (hu : 0 ≤ u) (h : |A - y| ≤ u * |y|) : ∃ δ : K, |δ| ≤ u ∧ A = y * (1 + δ) := by
  by_cases hy : y = 0
  · subst hy
    rw [abs_zero, mul_zero] at h
    have : A - 0 = 0 := abs_eq_zero.1 (le_antisymm h (abs_nonneg _))
    exact ⟨0, by rw [abs_zero]; exact hu, by rw [sub_zero] at this; rw [this]; ring⟩
  · have e : y * ((A - y) / y) = A - y := by rw [mul_comm, div_mul_cancel₀ _ hy]
    refine ⟨(A - y) / y, ?_, by rw [mul_add, mul_one, e]; ring⟩
    rw [abs_div]
    have hp : 0 < |y| := abs_pos.2 hy
    rw [div_le_iff₀ hp]
    exact h

theorem PSum.mono {n : ℕ} {x m : ℕ → K} {G G' s : K} (h : PSum n x m G s) (hm : ∀ i, i < n → 0 ≤ m i) (hG : G ≤ G') :
    PSum n x m G' s := by
  obtain ⟨e, h1, h2⟩ := h
  exact ⟨e, fun i hi => le_trans (h1 i hi) (mul_le_mul_of_nonneg_right (by linarith) (hm i hi)), h2⟩

/-- multiply the sum by `1 + δ`, `|δ| ≤ u` -/
theorem PSum.scale {n : ℕ} {x m : ℕ → K} {G s u δ : K} (h : PSum n x m G s) (hx : ∀ i, i < n → |x i| ≤ m i) (hG : 1 ≤ G)
    (hδ : |δ| ≤ u) : PSum n x m (G * (1 + u)) (s * (1 + δ)) := by
  obtain ⟨e, h1, h2⟩ := h
  have hu : 0 ≤ u := le_trans (abs_nonneg _) hδ
  refine ⟨fun i => e i * (1 + δ) + x i * δ, ?_, ?_⟩
  · intro i hi
    have hm : 0 ≤ m i := le_trans (abs_nonneg _) (hx i hi)
    have a1 : |e i * (1 + δ)| ≤ (G - 1) * m i * (1 + u) := by
      rw [abs_mul]
      have : |1 + δ| ≤ 1 + u := by
        calc |1 + δ| ≤ |(1 : K)| + |δ| := abs_add_le _ _
          _ ≤ 1 + u := by rw [abs_one]; linarith
      exact mul_le_mul (h1 i hi) this (abs_nonneg _) (mul_nonneg (by linarith) hm)
    have a2 : |x i * δ| ≤ m i * u := by
      rw [abs_mul]; exact mul_le_mul (hx i hi) hδ (abs_nonneg _) hm
    calc |e i * (1 + δ) + x i * δ| ≤ |e i * (1 + δ)| + |x i * δ| := abs_add_le _ _
      _ ≤ (G - 1) * m i * (1 + u) + m i * u := add_le_add a1 a2
      _ = (G * (1 + u) - 1) * m i := by ring
  · rw [h2, sum_mul]
    apply sum_congr rfl
    intro i _
    ring

/-- append a term -/
theorem PSum.snoc {n : ℕ} {x m : ℕ → K} {G s e : K} (h : PSum n x m G s) (he : |e| ≤ (G - 1) * m n) :
    PSum (n + 1) x m G (s + (x n + e)) := by
  obtain ⟨e0, h1, h2⟩ := h
  refine ⟨fun i => if i = n then e else e0 i, ?_, ?_⟩
  · intro i hi
    by_cases hin : i = n
    · subst hin; simp only [if_true]; exact he
    · simp only [hin, if_false]; exact h1 i (by omega)
  · rw [sum_range_succ, h2]
    simp only [if_true]
    congr 1
    apply sum_congr rfl
    intro i hi
    have : i ≠ n := by have := mem_range.1 hi; omega
    simp only [this, if_false]

/-- one rounded accumulation step `A = fl(s + t)`, `t` a computed term with relative error `G' − 1` -/
theorem PSum.step {n : ℕ} {x m : ℕ → K} {G G' s t A u : K} (h : PSum n x m G s) (hx : ∀ i, i ≤ n → |x i| ≤ m i)
    (hu : 0 ≤ u) (hG : 1 ≤ G) (hG' : G' ≤ G) (ht : |t - x n| ≤ (G' - 1) * m n) (hA : |A - (s + t)| ≤ u * |s + t|) :
    PSum (n + 1) x m (G * (1 + u)) A := by
  obtain ⟨δ, hδ, hAe⟩ := rel_factor hu hA
  have hm : 0 ≤ m n := le_trans (abs_nonneg _) (hx n (le_refl n))
  have h1 := (h.scale (fun i hi => hx i (by omega)) hG hδ).snoc (e := t * (1 + δ) - x n) (by
    have e1 : t * (1 + δ) - x n = (t - x n) * (1 + δ) + x n * δ := by ring
    rw [e1]
    have hd : |1 + δ| ≤ 1 + u := by
      calc |1 + δ| ≤ |(1 : K)| + |δ| := abs_add_le _ _
        _ ≤ 1 + u := by rw [abs_one]; linarith
    have a1 : |(t - x n) * (1 + δ)| ≤ (G - 1) * m n * (1 + u) := by
      rw [abs_mul]
      exact mul_le_mul (le_trans ht (mul_le_mul_of_nonneg_right (by linarith) hm)) hd (abs_nonneg _)
        (mul_nonneg (by linarith) hm)
    have a2 : |x n * δ| ≤ m n * u := by
      rw [abs_mul]; exact mul_le_mul (hx n (le_refl n)) hδ (abs_nonneg _) hm
    calc |(t - x n) * (1 + δ) + x n * δ| ≤ |(t - x n) * (1 + δ)| + |x n * δ| := abs_add_le _ _
      _ ≤ (G - 1) * m n * (1 + u) + m n * u := add_le_add a1 a2
      _ = (G * (1 + u) - 1) * m n := by ring)
  have e2 : s * (1 + δ) + (x n + (t * (1 + δ) - x n)) = A := by rw [hAe]; ring
  rw [e2] at h1
  exact h1

/-- `s₁ + σ·s₂` of two perturbed sums over the same index set -/
theorem PSum.addsg {n : ℕ} {x1 x2 m1 m2 : ℕ → K} {G s1 s2 sg : K} (h1 : PSum n x1 m1 G s1) (h2 : PSum n x2 m2 G s2)
    (hsg : sg = 1 ∨ sg = -1) : PSum n (fun i => x1 i + sg * x2 i) (fun i => m1 i + m2 i) G (s1 + sg * s2) := by
  obtain ⟨e1, a1, b1⟩ := h1
  obtain ⟨e2, a2, b2⟩ := h2
  have hsgabs : |sg| = 1 := by rcases hsg with h | h <;> simp [h]
  refine ⟨fun i => e1 i + sg * e2 i, ?_, ?_⟩
  · intro i hi
    calc |e1 i + sg * e2 i| ≤ |e1 i| + |sg * e2 i| := abs_add_le _ _
      _ = |e1 i| + |e2 i| := by rw [abs_mul, hsgabs, one_mul]
      _ ≤ (G - 1) * m1 i + (G - 1) * m2 i := add_le_add (a1 i hi) (a2 i hi)
      _ = (G - 1) * (m1 i + m2 i) := by ring
  · rw [b1, b2, mul_sum, ← sum_add_distrib]
    apply sum_congr rfl
    intro i _
    ring

/-- forward error bound -/
theorem PSum.err {n : ℕ} {x m : ℕ → K} {G s : K} (h : PSum n x m G s) :
    |s - ∑ i ∈ range n, x i| ≤ (G - 1) * ∑ i ∈ range n, m i := by
  obtain ⟨e, h1, h2⟩ := h
  have : s - ∑ i ∈ range n, x i = ∑ i ∈ range n, e i := by rw [h2, sum_add_distrib]; ring
  rw [this, mul_sum]
  exact le_trans (abs_sum_le_sum_abs _ _) (sum_le_sum (fun i hi => h1 i (mem_range.1 hi)))

end Spq.VmpErr
