/-
  The no-wrap certificate of the q120 NTT / iNTT (one lane, modulus `q`):

  * `LDesc`     abstract level descriptor (kind of pass, block size, the metadata record);
  * `levelOK`   exact interval arithmetic on `Nat` for one pass: given the exclusive input bound `B` it checks
                every `mul_epu32` operand `< 2^32`, every sum `< 2^64`, every `a + q2bs - b` without borrow, the
                shape of the masks / constants, and returns the exclusive output bound;
  * `level_sound`  `levelOK … = some B'` implies, for ALL inputs `< B`: nothing exceeds its word
                (`safeL`), outputs `< B'`, outputs congruent (in `ZMod q`) to the exact pass;
  * `certOK`, `cert_sound`  the same for any list of levels, by induction on the list.
-/
import SpqProofs.Lemmas.NttArith
import SpqProofs.Lemmas.NttExact

namespace Spq.Q120Ntt

/-- abstract level descriptor (one lane) -/
structure LDesc where
  kind : Kind
  nn : Nat
  L : Level

/-- the model's pass selected by the descriptor -/
def runL (R : Reduc) (d : LDesc) (tw f : Nat → Nat) : Nat → Nat :=
  match d.kind with
  | .twist red => twistAt d.L R red tw f
  | .fwd => fwdAt d.nn d.L R tw f
  | .inv => invAt d.nn d.L R tw f

/-! ### "nothing exceeds its word" for a whole pass, cell by cell -/

def twistSafe (L : Level) (R : Reduc) (red : Bool) (tw f : Nat → Nat) (i : Nat) : Prop :=
  redIfSafe R red (f i) ∧ splitMulSafe (redIf R red (f i)) (tw i) L.h L.mask

def fwdSafe (nn : Nat) (L : Level) (R : Reduc) (tw f : Nat → Nat) (i : Nat) : Prop :=
  if i % nn < nn / 2 then
    redIfSafe R L.reduce (f i) ∧ redIfSafe R L.reduce (f (i + nn / 2)) ∧
      addSafe (redIf R L.reduce (f i)) (redIf R L.reduce (f (i + nn / 2)))
  else
    redIfSafe R L.reduce (f (i - nn / 2)) ∧ redIfSafe R L.reduce (f i) ∧
      addSafe (redIf R L.reduce (f (i - nn / 2))) L.q2bs ∧
      subSafe (add64 (redIf R L.reduce (f (i - nn / 2))) L.q2bs) (redIf R L.reduce (f i)) ∧
      (i % nn ≠ nn / 2 →
        splitMulSafe (sub64 (add64 (redIf R L.reduce (f (i - nn / 2))) L.q2bs) (redIf R L.reduce (f i)))
          (tw (i % nn - nn / 2 - 1)) L.h L.mask)

/-- `b * po` of the inverse butterfly (`po` absent at `j = 0`) -/
def invBo (L : Level) (R : Reduc) (tw : Nat → Nat) (b : Nat) (first : Bool) (t : Nat) : Nat :=
  if first then redIf R L.reduce b else splitMul (redIf R L.reduce b) (tw t) L.h L.mask

def invSafe (nn : Nat) (L : Level) (R : Reduc) (tw f : Nat → Nat) (i : Nat) : Prop :=
  if i % nn < nn / 2 then
    redIfSafe R L.reduce (f i) ∧ redIfSafe R L.reduce (f (i + nn / 2)) ∧
      (i % nn ≠ 0 → splitMulSafe (redIf R L.reduce (f (i + nn / 2))) (tw (i % nn - 1)) L.h L.mask) ∧
      addSafe (redIf R L.reduce (f i)) (invBo L R tw (f (i + nn / 2)) (i % nn = 0) (i % nn - 1))
  else
    redIfSafe R L.reduce (f (i - nn / 2)) ∧ redIfSafe R L.reduce (f i) ∧
      (i % nn ≠ nn / 2 → splitMulSafe (redIf R L.reduce (f i)) (tw (i % nn - nn / 2 - 1)) L.h L.mask) ∧
      addSafe (redIf R L.reduce (f (i - nn / 2))) L.q2bs ∧
      subSafe (add64 (redIf R L.reduce (f (i - nn / 2))) L.q2bs)
        (invBo L R tw (f i) (i % nn = nn / 2) (i % nn - nn / 2 - 1))

def safeL (R : Reduc) (d : LDesc) (tw f : Nat → Nat) (i : Nat) : Prop :=
  match d.kind with
  | .twist red => twistSafe d.L R red tw f i
  | .fwd => fwdSafe d.nn d.L R tw f i
  | .inv => invSafe d.nn d.L R tw f i

/-! ### the computable check -/

/-- `modq_red` on inputs `< B`: shape of the constants, operands, worst-case sum; exclusive output bound -/
def redOK (q : Nat) (R : Reduc) (B : Nat) : Option Nat :=
  if R.mask + 1 = 2 ^ R.h ∧ R.cst < W32 ∧ R.cst % q = 2 ^ R.h % q ∧ B ≤ 2 ^ (R.h + 32) ∧
      2 ^ R.h - 1 + (B - 1) / 2 ^ R.h * R.cst < W64
  then some (2 ^ R.h - 1 + (B - 1) / 2 ^ R.h * R.cst + 1) else none

def redIfOK (q : Nat) (R : Reduc) (b : Bool) (B : Nat) : Option Nat := if b then redOK q R B else some B

/-- `split_precompmul_si256` by a packed residue `< q` on inputs `< B` -/
def mulOK (q : Nat) (L : Level) (B : Nat) : Option Nat :=
  if q ≤ W32 ∧ L.h ≤ 32 ∧ L.mask + 1 = 2 ^ L.h ∧ B ≤ 2 ^ (L.h + 32) ∧
      (2 ^ L.h - 1 + (B - 1) / 2 ^ L.h) * (q - 1) < W64
  then some ((2 ^ L.h - 1 + (B - 1) / 2 ^ L.h) * (q - 1) + 1) else none

/-- one pass on inputs `< B` (exclusive); returns the exclusive bound of the outputs -/
def levelOK (q : Nat) (R : Reduc) (d : LDesc) (B : Nat) : Option Nat :=
  match d.kind with
  | .twist red => (redIfOK q R red B).bind (mulOK q d.L)
  | .fwd =>
    (redIfOK q R d.L.reduce B).bind fun B1 =>
      if d.L.q2bs % q = 0 ∧ 2 * B1 - 1 ≤ W64 ∧ B1 - 1 + d.L.q2bs < W64 ∧ B1 - 1 ≤ d.L.q2bs then
        (if d.nn = 2 then some (B1 + d.L.q2bs) else mulOK q d.L (B1 + d.L.q2bs)).bind fun Bm =>
          some (max (2 * B1 - 1) (max (B1 + d.L.q2bs) Bm))
      else none
  | .inv =>
    (redIfOK q R d.L.reduce B).bind fun B1 =>
      (if d.nn = 2 then some B1 else (mulOK q d.L B1).bind fun Bm => some (max B1 Bm)).bind fun Bbo =>
        if d.L.q2bs % q = 0 ∧ B1 + Bbo - 1 ≤ W64 ∧ B1 - 1 + d.L.q2bs < W64 ∧ Bbo - 1 ≤ d.L.q2bs then
          some (max (B1 + Bbo - 1) (B1 + d.L.q2bs))
        else none

/-- twiddle words of a pass: `tw t` is the packed word of a residue `u < q` whose class is `τ t` -/
def TwSpec (q h T : Nat) (tw : Nat → Nat) (τ : Nat → ZMod q) : Prop :=
  ∀ t < T, ∃ u, u < q ∧ tw t = packTw q h u ∧ ((u : Nat) : ZMod q) = τ t

/-- number of twiddle words a pass reads (`n` for a twist, `nn/2 - 1` for a level of even size) -/
def twCount (d : LDesc) (n : Nat) : Nat :=
  match d.kind with
  | .twist _ => n
  | _ => d.nn - d.nn / 2 - 1

/-! ### soundness of the pieces -/

theorem cast_of_mod_eq {q a b : Nat} (h : a % q = b % q) : ((a : Nat) : ZMod q) = ((b : Nat) : ZMod q) :=
  (ZMod.natCast_eq_natCast_iff' a b q).2 h

theorem redIf_sound (q : Nat) (R : Reduc) (b : Bool) (B B1 : Nat) (h : redIfOK q R b B = some B1)
    (x : Nat) (hx : x < B) :
    redIfSafe R b x ∧ redIf R b x < B1 ∧ ((redIf R b x : Nat) : ZMod q) = ((x : Nat) : ZMod q) := by
  cases b with
  | false =>
    simp only [redIfOK, Bool.false_eq_true, if_false, Option.some.injEq] at h
    subst h
    exact ⟨(by intro h; cases h), (by simpa [redIf] using hx), (by simp [redIf])⟩
  | true =>
    simp only [redIfOK, if_true, redOK] at h
    split at h
    · rename_i hc
      obtain ⟨h1, h2, h3, h4, h5⟩ := hc
      simp only [Option.some.injEq] at h
      subst h
      obtain ⟨s1, _, s3, s4⟩ := modqRed_sound q R x B h1 h2 h3 hx h4 h5
      refine ⟨fun _ => s1, ?_, ?_⟩
      · simp only [redIf, if_true]; omega
      · simp only [redIf, if_true]; exact cast_of_mod_eq s3
    · cases h

theorem mulOK_sound (q : Nat) (L : Level) (B Bm : Nat) (h : mulOK q L B = some Bm)
    (x : Nat) (hx : x < B) (w : Nat) (τ : ZMod q)
    (hw : ∃ u, u < q ∧ w = packTw q L.h u ∧ ((u : Nat) : ZMod q) = τ) :
    splitMulSafe x w L.h L.mask ∧ splitMul x w L.h L.mask < Bm ∧
      ((splitMul x w L.h L.mask : Nat) : ZMod q) = ((x : Nat) : ZMod q) * τ := by
  obtain ⟨u, hu, rfl, rfl⟩ := hw
  simp only [mulOK] at h
  split at h
  · rename_i hc
    obtain ⟨h1, h2, h3, h4, h5⟩ := hc
    simp only [Option.some.injEq] at h
    subst h
    obtain ⟨s1, _, s3, s4⟩ := splitMul_sound q u L.h L.mask x B h1 hu h2 h3 hx h4 h5
    refine ⟨s1, by omega, ?_⟩
    rw [cast_of_mod_eq s3, Nat.cast_mul]
  · cases h

theorem cast_lazy_sub {q a b c : Nat} (hc : c % q = 0) (hle : b ≤ a + c) :
    (((a + c - b : Nat) : Nat) : ZMod q) = ((a : Nat) : ZMod q) - ((b : Nat) : ZMod q) := by
  have : ((c : Nat) : ZMod q) = 0 := (ZMod.natCast_eq_zero_iff c q).2 (Nat.dvd_of_mod_eq_zero hc)
  rw [Nat.cast_sub hle, Nat.cast_add, this, add_zero]

/-! ### one level -/

/-- **level_sound**: if the computable check accepts the level for the input bound `B`, then for every input
    vector with cells `< B` (cells `< n`, `nn ∣ n`), at every cell: no intermediate exceeds its word, the output
    is `< B'`, and it is congruent mod `q` to the exact pass applied to the residues of the inputs. -/
theorem level_sound (q n : Nat) (R : Reduc) (d : LDesc) (B B' : Nat)
    (hok : levelOK q R d B = some B') (hdiv : d.nn ∣ n)
    (tw : Nat → Nat) (τ : Nat → ZMod q) (htw : TwSpec q d.L.h (twCount d n) tw τ)
    (f : Nat → Nat) (hf : ∀ i < n, f i < B) :
    ∀ i < n, safeL R d tw f i ∧ runL R d tw f i < B' ∧
      ((runL R d tw f i : Nat) : ZMod q) = exL d.kind d.nn τ (fun j => ((f j : Nat) : ZMod q)) i := by
  intro i hi
  obtain ⟨kind, nn, L⟩ := d
  have hnnpos : 0 < nn := by
    rcases Nat.eq_zero_or_pos nn with h | h
    · subst h; simp at hdiv; omega
    · exact h
  have hjlt : i % nn < nn := Nat.mod_lt _ hnnpos
  cases kind with
  | twist red =>
    simp only [levelOK, Option.bind_eq_some_iff] at hok
    obtain ⟨B1, hB1, hm⟩ := hok
    obtain ⟨r1, r2, r3⟩ := redIf_sound q R red B B1 hB1 (f i) (hf i hi)
    obtain ⟨m1, m2, m3⟩ := mulOK_sound q L B1 B' hm _ r2 (tw i) (τ i) (htw i (by simpa [twCount] using hi))
    refine ⟨⟨r1, m1⟩, m2, ?_⟩
    simp only [runL, twistAt, exL, exTwist]
    rw [m3, r3]
  | fwd =>
    simp only [levelOK, Option.bind_eq_some_iff] at hok
    obtain ⟨B1, hB1, hrest⟩ := hok
    by_cases hc : L.q2bs % q = 0 ∧ 2 * B1 - 1 ≤ W64 ∧ B1 - 1 + L.q2bs < W64 ∧ B1 - 1 ≤ L.q2bs
    swap
    · rw [if_neg hc] at hrest; cases hrest
    rw [if_pos hc, Option.bind_eq_some_iff] at hrest
    obtain ⟨c1, c2, c3, c4⟩ := hc
    obtain ⟨Bm, hBm, hB'⟩ := hrest
    simp only [Option.some.injEq] at hB'
    subst hB'
    simp only [safeL, fwdSafe, runL, fwdAt, exL, exFwd]
    by_cases hj : i % nn < nn / 2
    · have hi2 := idx_add_half hdiv hi hj
      obtain ⟨a1, a2, a3⟩ := redIf_sound q R L.reduce B B1 hB1 (f i) (hf i hi)
      obtain ⟨b1, b2, b3⟩ := redIf_sound q R L.reduce B B1 hB1 (f (i + nn / 2)) (hf _ hi2)
      have hs : addSafe (redIf R L.reduce (f i)) (redIf R L.reduce (f (i + nn / 2))) := by
        unfold addSafe; omega
      simp only [if_pos hj]
      refine ⟨⟨a1, b1, hs⟩, ?_, ?_⟩
      · rw [add64_eq hs]
        exact lt_of_lt_of_le (by omega) (le_max_left _ _)
      · rw [add64_eq hs, Nat.cast_add, a3, b3]
    · have hi2 : i - nn / 2 < n := by omega
      obtain ⟨a1, a2, a3⟩ := redIf_sound q R L.reduce B B1 hB1 (f (i - nn / 2)) (hf _ hi2)
      obtain ⟨b1, b2, b3⟩ := redIf_sound q R L.reduce B B1 hB1 (f i) (hf i hi)
      have hs : addSafe (redIf R L.reduce (f (i - nn / 2))) L.q2bs := by unfold addSafe; omega
      have hsub : subSafe (add64 (redIf R L.reduce (f (i - nn / 2))) L.q2bs) (redIf R L.reduce (f i)) := by
        unfold subSafe; rw [add64_eq hs]; omega
      have hd : sub64 (add64 (redIf R L.reduce (f (i - nn / 2))) L.q2bs) (redIf R L.reduce (f i))
          = redIf R L.reduce (f (i - nn / 2)) + L.q2bs - redIf R L.reduce (f i) := by
        rw [sub64_eq hsub (add64_lt _ _), add64_eq hs]
      have hdlt : redIf R L.reduce (f (i - nn / 2)) + L.q2bs - redIf R L.reduce (f i) < B1 + L.q2bs := by omega
      have hdc : (((redIf R L.reduce (f (i - nn / 2)) + L.q2bs - redIf R L.reduce (f i) : Nat) : Nat) : ZMod q)
          = ((f (i - nn / 2) : Nat) : ZMod q) - ((f i : Nat) : ZMod q) := by
        rw [cast_lazy_sub c1 (by omega), a3, b3]
      simp only [if_neg hj]
      by_cases hjh : i % nn = nn / 2
      · simp only [if_pos hjh]
        refine ⟨⟨a1, b1, hs, hsub, fun h => absurd hjh h⟩, ?_, ?_⟩
        · rw [hd]
          exact lt_of_lt_of_le hdlt (le_trans (le_max_left _ _) (le_max_right _ _))
        · rw [hd, hdc, mul_one]
      · simp only [if_neg hjh]
        have hnn2 : nn ≠ 2 := by
          intro h2; subst h2; omega
        rw [if_neg hnn2] at hBm
        have htw' := htw (i % nn - nn / 2 - 1) (by simp only [twCount]; omega)
        obtain ⟨m1, m2, m3⟩ := mulOK_sound q L _ Bm hBm _ hdlt (tw (i % nn - nn / 2 - 1)) (τ (i % nn - nn / 2 - 1)) htw'
        rw [hd]
        refine ⟨⟨a1, b1, hs, hsub, fun _ => m1⟩, ?_, ?_⟩
        · exact lt_of_lt_of_le m2 (le_trans (le_max_right _ _) (le_max_right _ _))
        · rw [m3, hdc]
  | inv =>
    simp only [levelOK, Option.bind_eq_some_iff] at hok
    obtain ⟨B1, hB1, Bbo, hBbo, hrest⟩ := hok
    by_cases hc : L.q2bs % q = 0 ∧ B1 + Bbo - 1 ≤ W64 ∧ B1 - 1 + L.q2bs < W64 ∧ Bbo - 1 ≤ L.q2bs
    swap
    · rw [if_neg hc] at hrest; cases hrest
    rw [if_pos hc] at hrest
    obtain ⟨c1, c2, c3, c4⟩ := hc
    simp only [Option.some.injEq] at hrest
    subst hrest
    -- the (possibly multiplied) second operand
    have hbo : ∀ (x : Nat), x < B → ∀ (first : Prop) [Decidable first] (t : Nat),
        (¬ first → nn ≠ 2 ∧ t < nn - nn / 2 - 1) →
        (¬ first → splitMulSafe (redIf R L.reduce x) (tw t) L.h L.mask) ∧
        invBo L R tw x (decide first) t < Bbo ∧
        ((invBo L R tw x (decide first) t : Nat) : ZMod q)
          = ((x : Nat) : ZMod q) * (if first then 1 else τ t) := by
      intro x hx first _ t hft
      obtain ⟨b1, b2, b3⟩ := redIf_sound q R L.reduce B B1 hB1 x hx
      by_cases hfirst : first
      · refine ⟨fun h => absurd hfirst h, ?_, ?_⟩
        swap
        · simp only [invBo, hfirst, decide_true, if_true, mul_one]; exact b3
        simp only [invBo, hfirst, decide_true, if_true]
        by_cases h2 : nn = 2
        · rw [if_pos h2] at hBbo; simp only [Option.some.injEq] at hBbo; omega
        · rw [if_neg h2, Option.bind_eq_some_iff] at hBbo
          obtain ⟨Bm, _, hBm⟩ := hBbo
          simp only [Option.some.injEq] at hBm
          have := le_max_left B1 Bm
          omega
      · obtain ⟨h2, ht⟩ := hft hfirst
        rw [if_neg h2, Option.bind_eq_some_iff] at hBbo
        obtain ⟨Bm, hm, hBm⟩ := hBbo
        simp only [Option.some.injEq] at hBm
        obtain ⟨m1, m2, m3⟩ := mulOK_sound q L B1 Bm hm _ b2 (tw t) (τ t) (htw t (by simpa [twCount] using ht))
        simp only [invBo, hfirst, decide_false, Bool.false_eq_true, if_false]
        refine ⟨fun _ => m1, ?_, ?_⟩
        · have := le_max_right B1 Bm; omega
        · rw [m3, b3]
    simp only [safeL, invSafe, runL, invAt, exL, exInv]
    by_cases hj : i % nn < nn / 2
    · have hi2 := idx_add_half hdiv hi hj
      obtain ⟨a1, a2, a3⟩ := redIf_sound q R L.reduce B B1 hB1 (f i) (hf i hi)
      obtain ⟨b1, _, _⟩ := redIf_sound q R L.reduce B B1 hB1 (f (i + nn / 2)) (hf _ hi2)
      obtain ⟨o1, o2, o3⟩ := hbo (f (i + nn / 2)) (hf _ hi2) (i % nn = 0) (i % nn - 1)
        (fun h0 => ⟨by intro h2; subst h2; omega, by omega⟩)
      have ebo : (if i % nn = 0 then redIf R L.reduce (f (i + nn / 2))
          else splitMul (redIf R L.reduce (f (i + nn / 2))) (tw (i % nn - 1)) L.h L.mask)
          = invBo L R tw (f (i + nn / 2)) (decide (i % nn = 0)) (i % nn - 1) := by
        simp only [invBo, decide_eq_true_eq]
      have hs : addSafe (redIf R L.reduce (f i)) (invBo L R tw (f (i + nn / 2)) (decide (i % nn = 0)) (i % nn - 1)) := by
        unfold addSafe; omega
      simp only [if_pos hj, ebo]
      refine ⟨⟨a1, b1, o1, hs⟩, ?_, ?_⟩
      · rw [add64_eq hs]
        exact lt_of_lt_of_le (by omega) (le_max_left _ _)
      · rw [add64_eq hs, Nat.cast_add, a3, o3]
    · have hi2 : i - nn / 2 < n := by omega
      obtain ⟨a1, a2, a3⟩ := redIf_sound q R L.reduce B B1 hB1 (f (i - nn / 2)) (hf _ hi2)
      obtain ⟨b1, _, _⟩ := redIf_sound q R L.reduce B B1 hB1 (f i) (hf i hi)
      obtain ⟨o1, o2, o3⟩ := hbo (f i) (hf i hi) (i % nn = nn / 2) (i % nn - nn / 2 - 1)
        (fun h0 => ⟨by intro h2; subst h2; omega, by omega⟩)
      have ebo : (if i % nn = nn / 2 then redIf R L.reduce (f i)
          else splitMul (redIf R L.reduce (f i)) (tw (i % nn - nn / 2 - 1)) L.h L.mask)
          = invBo L R tw (f i) (decide (i % nn = nn / 2)) (i % nn - nn / 2 - 1) := by
        simp only [invBo, decide_eq_true_eq]
      have hs : addSafe (redIf R L.reduce (f (i - nn / 2))) L.q2bs := by unfold addSafe; omega
      have hsub : subSafe (add64 (redIf R L.reduce (f (i - nn / 2))) L.q2bs)
          (invBo L R tw (f i) (decide (i % nn = nn / 2)) (i % nn - nn / 2 - 1)) := by
        unfold subSafe; rw [add64_eq hs]; omega
      simp only [if_neg hj, ebo]
      refine ⟨⟨a1, b1, o1, hs, hsub⟩, ?_, ?_⟩
      · rw [sub64_eq hsub (add64_lt _ _), add64_eq hs]
        exact lt_of_lt_of_le (by omega) (le_max_right _ _)
      · rw [sub64_eq hsub (add64_lt _ _), add64_eq hs, cast_lazy_sub c1 (by omega), a3, o3]

/-! ### any number of levels -/

/-- cells `≥ n` do not exist in the vector: the array layer reads them as 0 -/
def clip (n : Nat) (f : Nat → Nat) : Nat → Nat := fun i => if i < n then f i else 0

/-- a level with its twiddle reader and the exact multipliers it stands for -/
structure LStep (q : Nat) where
  d : LDesc
  tw : Nat → Nat
  τ : Nat → ZMod q

/-- the model's passes one after the other (on vectors of `n` cells) -/
def runAll {q : Nat} (n : Nat) (R : Reduc) : List (LStep q) → (Nat → Nat) → (Nat → Nat)
  | [], f => f
  | s :: ls, f => runAll n R ls (clip n (runL R s.d s.tw f))

/-- the exact passes one after the other -/
def exAll {q : Nat} : List (LStep q) → (Nat → ZMod q) → (Nat → ZMod q)
  | [], g => g
  | s :: ls, g => exAll ls (exL s.d.kind s.d.nn s.τ g)

/-- nothing exceeds its word in any pass of the chain -/
def safeAll {q : Nat} (n : Nat) (R : Reduc) : List (LStep q) → (Nat → Nat) → Prop
  | [], _ => True
  | s :: ls, f => (∀ i < n, safeL R s.d s.tw f i) ∧ safeAll n R ls (clip n (runL R s.d s.tw f))

/-- fold of `levelOK` over the metadata list -/
def certOK (q : Nat) (R : Reduc) : List LDesc → Nat → Option Nat
  | [], B => some B
  | d :: ds, B => (levelOK q R d B).bind (certOK q R ds)

theorem exAll_congr {q : Nat} (n : Nat) (ls : List (LStep q)) (hdiv : ∀ s ∈ ls, s.d.nn ∣ n)
    (g g' : Nat → ZMod q) (h : ∀ i < n, g i = g' i) : ∀ i < n, exAll ls g i = exAll ls g' i := by
  induction ls generalizing g g' with
  | nil => simpa [exAll] using h
  | cons s ls ih =>
    simp only [exAll]
    exact ih (fun t ht => hdiv t (List.mem_cons_of_mem _ ht)) _ _
      (exL_congr s.d.kind (hdiv s (List.mem_cons_self ..)) s.τ g g' h)

/-- **cert_sound**: folding `levelOK` over ANY list of levels: if the fold accepts the input bound `B` and
    returns `B'`, then for every input vector with cells `< B`, in every pass nothing exceeds its word, the final
    cells are `< B'` and congruent mod `q` to the exact transform of the residues.  Induction on the list. -/
theorem cert_sound {q : Nat} (n : Nat) (R : Reduc) (ls : List (LStep q)) (B B' : Nat)
    (hok : certOK q R (ls.map (·.d)) B = some B')
    (hdiv : ∀ s ∈ ls, s.d.nn ∣ n)
    (htw : ∀ s ∈ ls, TwSpec q s.d.L.h (twCount s.d n) s.tw s.τ)
    (f : Nat → Nat) (hf : ∀ i < n, f i < B) :
    safeAll n R ls f ∧ ∀ i < n, runAll n R ls f i < B' ∧
      ((runAll n R ls f i : Nat) : ZMod q) = exAll ls (fun j => ((f j : Nat) : ZMod q)) i := by
  induction ls generalizing f B with
  | nil =>
    simp only [List.map_nil, certOK, Option.some.injEq] at hok
    subst hok
    exact ⟨trivial, fun i hi => ⟨hf i hi, rfl⟩⟩
  | cons s ls ih =>
    simp only [List.map_cons, certOK, Option.bind_eq_some_iff] at hok
    obtain ⟨B1, hB1, hrest⟩ := hok
    have hl := level_sound q n R s.d B B1 hB1 (hdiv s (List.mem_cons_self ..)) s.tw s.τ
      (htw s (List.mem_cons_self ..)) f hf
    have hf1 : ∀ i < n, clip n (runL R s.d s.tw f) i < B1 := by
      intro i hi; simp only [clip, if_pos hi]; exact (hl i hi).2.1
    obtain ⟨hs, hr⟩ := ih B1 hrest (fun t ht => hdiv t (List.mem_cons_of_mem _ ht))
      (fun t ht => htw t (List.mem_cons_of_mem _ ht)) _ hf1
    refine ⟨⟨fun i hi => (hl i hi).1, hs⟩, fun i hi => ⟨(hr i hi).1, ?_⟩⟩
    simp only [runAll, exAll]
    rw [(hr i hi).2]
    apply exAll_congr n ls (fun t ht => hdiv t (List.mem_cons_of_mem _ ht)) _ _ _ i hi
    intro j hj
    simp only [clip, if_pos hj]
    exact (hl j hj).2.2

end Spq.Q120Ntt
