/-
  Composition of rotations (additive in the exponent), given `neg (neg x) = x`.
-/
import SpqProofs.Lemmas.CoeffsRotate
import SpqProofs.Lemmas.CoeffsAutom
namespace Spq.Rq
open Spq
variable {α : Type}

/-- `X^(e+nn) = -X^e` on signed reads -/
theorem sget_shift (o : Ops α) (nn : Nat) (a : Array α)
    (hneg : ∀ i, i < nn → o.neg (o.neg (a.getD i o.zero)) = a.getD i o.zero) (e : Nat)
    (he : e < 2 * nn) : sget o nn a ((e + nn) % (2 * nn)) = o.neg (sget o nn a e) := by
  unfold sget
  by_cases c : e < nn
  · have e1 : (e + nn) % (2 * nn) = e + nn := Nat.mod_eq_of_lt (by omega)
    have e2 : ¬ e + nn < nn := by omega
    simp only [e1, e2, c, if_true, if_false, Nat.add_sub_cancel]
  · have e1 : (e + nn) % (2 * nn) = e - nn := by
      rw [Nat.mod_eq_sub_mod (by omega)]
      have : e + nn - 2 * nn = e - nn := by omega
      rw [this]; exact Nat.mod_eq_of_lt (by omega)
    have e2 : e - nn < nn := by omega
    simp only [e1, e2, c, if_true, if_false, hneg _ e2]

theorem rotSrc_shift (nn : Nat) (hn : 0 < nn) (p : Int) (e : Nat) (he : nn ≤ e) :
    rotSrc nn p e = (rotSrc nn p (e - nn) + nn) % (2 * nn) := by
  rw [rotSrc_eq nn hn, rotSrc_eq nn hn, Nat.mod_add_mod]
  congr 1; omega

/-- signed read of a rotation, at any signed index -/
theorem sget_rotate (o : Ops α) (nn : Nat) (p : Int) (a : Array α)
    (hneg : ∀ i, i < nn → o.neg (o.neg (a.getD i o.zero)) = a.getD i o.zero) (e : Nat) (he : e < 2 * nn) :
    sget o nn (Coeffs.rotate o nn p a) e = sget o nn a (rotSrc nn p e) := by
  have hn : 0 < nn := by omega
  by_cases c : e < nn
  · conv_lhs => unfold sget
    rw [if_pos c, rotate_getD o nn p a e c]
  · conv_lhs => unfold sget
    rw [if_neg c, rotate_getD o nn p a (e - nn) (by omega), rotSrc_shift nn hn p e (by omega),
      sget_shift o nn a hneg _ (rotSrc_lt nn hn p _)]

theorem rotSrc_comp (nn : Nat) (hn : 0 < nn) (p q : Int) (k : Nat) :
    rotSrc nn q (rotSrc nn p k) = rotSrc nn (p + q) k := by
  unfold rotSrc
  rw [Int.toNat_of_nonneg (Int.emod_nonneg _ (by omega)), Int.emod_sub_emod]
  congr 2; ring

theorem rotate_rotate (o : Ops α) (nn : Nat) (p q : Int) (a : Array α)
    (hneg : ∀ i, i < nn → o.neg (o.neg (a.getD i o.zero)) = a.getD i o.zero) :
    Coeffs.rotate o nn p (Coeffs.rotate o nn q a) = Coeffs.rotate o nn (p + q) a := by
  apply Array.ext (by rw [rotate_size, rotate_size])
  intro k hk1 hk2
  have hk : k < nn := by rw [rotate_size] at hk1; exact hk1
  have hn : 0 < nn := by omega
  rw [rotate_getElem o nn p _ k hk, rotate_getElem o nn (p + q) _ k hk,
    sget_rotate o nn q a hneg _ (rotSrc_lt nn hn p k), rotSrc_comp nn hn]

/-! ### automorphisms compose multiplicatively -/

theorem emod_eq_emod_of_dvd_sub {a b m : Int} (h : m ∣ a - b) : a % m = b % m :=
  Int.emod_eq_emod_iff_emod_sub_eq_zero.2 (Int.emod_eq_zero_of_dvd h)

theorem autExp_shift (nn : Nat) (hn : 0 < nn) (p : Int) (hp : p % 2 = 1) (i : Nat) :
    autExp nn p (i + nn) = (autExp nn p i + nn) % (2 * nn) := by
  have h1 := Int.emod_nonneg (((i + nn : Nat) : Int) * p) (show ((2 * nn : Nat) : Int) ≠ 0 by omega)
  have e : (((autExp nn p i + nn) % (2 * nn) : Nat) : Int) = (((i + nn : Nat) : Int) * p) % ((2 * nn : Nat) : Int) := by
    rw [Int.natCast_mod, Nat.cast_add, autExp_cast nn hn, Int.emod_add_emod]
    apply emod_eq_emod_of_dvd_sub
    obtain ⟨c, hc⟩ : ∃ c : Int, p = 2 * c + 1 := ⟨p / 2, by omega⟩
    refine ⟨-c, ?_⟩
    rw [hc]; push_cast; ring
  unfold autExp at e ⊢
  omega

/-- an array satisfying the scatter specification reads back the input at every signed index -/
theorem sget_autom (o : Ops α) (t : Nat) (p : Int) (hp : p % 2 = 1)
    (inp res : Array α)
    (hneg : ∀ i, i < 2 ^ t → o.neg (o.neg (inp.getD i o.zero)) = inp.getD i o.zero)
    (hnegr : ∀ i, i < 2 ^ t → o.neg (o.neg (res.getD i o.zero)) = res.getD i o.zero)
    (hs : ∀ i, i < 2 ^ t → res.getD (autExp (2 ^ t) p i % 2 ^ t) o.zero = autVal o (2 ^ t) p inp i)
    (e : Nat) (he : e < 2 * 2 ^ t) :
    sget o (2 ^ t) res (autExp (2 ^ t) p e) = sget o (2 ^ t) inp e := by
  have hn : 0 < 2 ^ t := Nat.pow_pos (by norm_num)
  have low : ∀ i, i < 2 ^ t → sget o (2 ^ t) res (autExp (2 ^ t) p i) = inp.getD i o.zero := by
    intro i hi
    have hE := autExp_lt (2 ^ t) hn p i
    have := hs i hi
    unfold autVal at this
    unfold sget
    by_cases c : autExp (2 ^ t) p i < 2 ^ t
    · rw [if_pos c]; rw [Nat.mod_eq_of_lt c, if_pos c] at this; exact this
    · have e1 : autExp (2 ^ t) p i % 2 ^ t = autExp (2 ^ t) p i - 2 ^ t := by
        rw [Nat.mod_eq_sub_mod (by omega)]; exact Nat.mod_eq_of_lt (by omega)
      rw [if_neg c]; rw [e1, if_neg c] at this; rw [this, hneg i hi]
  by_cases c : e < 2 ^ t
  · rw [low e c]; unfold sget; rw [if_pos c]
  · have e1 : e = (e - 2 ^ t) + 2 ^ t := by omega
    rw [e1, autExp_shift _ hn p hp, sget_shift o _ res hnegr _ (autExp_lt _ hn p _), low _ (by omega)]
    unfold sget
    rw [if_neg (by omega), Nat.add_sub_cancel]

theorem autExp_mul (nn : Nat) (hn : 0 < nn) (p q : Int) (e : Nat) :
    autExp nn p (autExp nn q e) = autExp nn (p * q) e := by
  have : ((autExp nn p (autExp nn q e) : Nat) : Int) = ((autExp nn (p * q) e : Nat) : Int) := by
    rw [autExp_cast nn hn, autExp_cast nn hn, autExp_cast nn hn, Int.mul_emod, Int.emod_emod,
      ← Int.mul_emod]
    congr 1; ring
  exact_mod_cast this

theorem autExp_surj (t : Nat) (p : Int) (hp : p % 2 = 1) (k : Nat) (hk : k < 2 ^ t) :
    ∃ e, e < 2 * 2 ^ t ∧ autExp (2 ^ t) p e = k := by
  have hn : 0 < 2 ^ t := Nat.pow_pos (by norm_num)
  obtain ⟨i, hi, hik⟩ := autPos_surj t p hp k hk
  have hE := autExp_lt (2 ^ t) hn p i
  by_cases c : autExp (2 ^ t) p i < 2 ^ t
  · exact ⟨i, by omega, by rw [Nat.mod_eq_of_lt c] at hik; exact hik⟩
  · refine ⟨i + 2 ^ t, by omega, ?_⟩
    have e1 : autExp (2 ^ t) p i % 2 ^ t = autExp (2 ^ t) p i - 2 ^ t := by
      rw [Nat.mod_eq_sub_mod (by omega)]; exact Nat.mod_eq_of_lt (by omega)
    rw [autExp_shift _ hn p hp]
    have : autExp (2 ^ t) p i + 2 ^ t = k + 2 * 2 ^ t := by omega
    rw [this, Nat.add_mod_right, Nat.mod_eq_of_lt (by omega)]

/-- entries of an automorphism image are `±` entries of the input, so `neg∘neg = id` is inherited -/
theorem autom_invol (o : Ops α) (t : Nat) (p : Int) (hp : p % 2 = 1) (inp r0 : Array α)
    (h0 : r0.size = 2 ^ t)
    (hneg : ∀ i, i < 2 ^ t → o.neg (o.neg (inp.getD i o.zero)) = inp.getD i o.zero) :
    ∀ k, k < 2 ^ t → o.neg (o.neg ((Coeffs.automorphism o (2 ^ t) p inp r0).getD k o.zero)) =
      (Coeffs.automorphism o (2 ^ t) p inp r0).getD k o.zero := by
  intro k hk
  obtain ⟨i, hi, e⟩ := autPos_surj t p hp k hk
  have := autom_scatter o t p hp inp r0 h0 i hi
  rw [e] at this
  rw [this]
  unfold autVal
  split
  · exact hneg i hi
  · rw [hneg i hi]

theorem autom_autom (o : Ops α) (t : Nat) (p q : Int)
    (hp : p % 2 = 1) (hq : q % 2 = 1) (a r0 r1 r2 : Array α)
    (hneg : ∀ i, i < 2 ^ t → o.neg (o.neg (a.getD i o.zero)) = a.getD i o.zero)
    (h0 : r0.size = 2 ^ t) (h1 : r1.size = 2 ^ t) (h2 : r2.size = 2 ^ t) :
    Coeffs.automorphism o (2 ^ t) p (Coeffs.automorphism o (2 ^ t) q a r0) r1 =
      Coeffs.automorphism o (2 ^ t) (p * q) a r2 := by
  have hn : 0 < 2 ^ t := Nat.pow_pos (by norm_num)
  have hpq : (p * q) % 2 = 1 := by rw [Int.mul_emod, hp, hq]; rfl
  have s1 : (Coeffs.automorphism o (2 ^ t) p (Coeffs.automorphism o (2 ^ t) q a r0) r1).size = 2 ^ t := by
    rw [autom_size, h1]
  have s2 : (Coeffs.automorphism o (2 ^ t) (p * q) a r2).size = 2 ^ t := by rw [autom_size, h2]
  have i1 := autom_invol o t q hq a r0 h0 hneg
  have i2 := autom_invol o t p hp _ r1 h1 i1
  have i3 := autom_invol o t (p * q) hpq a r2 h2 hneg
  apply Array.ext (by rw [s1, s2])
  intro k hk1 hk2
  have hk : k < 2 ^ t := by rw [← s1]; exact hk1
  obtain ⟨e, he, hek⟩ := autExp_surj t (p * q) hpq k hk
  have A := sget_autom o t (p * q) hpq a _ hneg i3
    (fun i hi => autom_scatter o t (p * q) hpq a r2 h2 i hi) e he
  have B := sget_autom o t q hq a _ hneg i1 (fun i hi => autom_scatter o t q hq a r0 h0 i hi) e he
  have C := sget_autom o t p hp _ _ i1 i2
    (fun i hi => autom_scatter o t p hp (Coeffs.automorphism o (2 ^ t) q a r0) r1 h1 i hi)
    (autExp (2 ^ t) q e) (autExp_lt _ hn q e)
  rw [autExp_mul _ hn, hek] at C
  rw [hek] at A
  rw [B, ← A] at C
  unfold sget at C
  rw [if_pos hk, if_pos hk] at C
  rw [Array.getD_eq_getD_getElem?, Array.getElem?_eq_getElem hk1, Option.getD_some,
    Array.getD_eq_getD_getElem?, Array.getElem?_eq_getElem hk2, Option.getD_some] at C
  exact C

end Spq.Rq
