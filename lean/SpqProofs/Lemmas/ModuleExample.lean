/-
  Sanity instances for the hypotheses of C01 / C02.
  * `gaussParts`: `R = ℤ`, `nn = 2` (`m = 1`): one Gaussian integer `x_0 + i·x_1`, the single evaluation point is
    `z_0 = i` (`z_0^1 = i`), so `fft = ifft = id`, the conversions are the identity.  H1–H4 hold.
  * `idParts nn`: `R = ℤ`, any `nn`, `fft = fromZnx = id`: satisfies `ExactArith` whenever `nn = 2m`, `4 ∣ m` for
    `nn ≥ 8` (used for the layout theorem, which is independent of what `fft` computes).
-/
import SpqProofs.Lemmas.ModuleVec
namespace Spq.Module
open Finset Spq

def idParts (nn : Nat) (fma avx : Bool) : Parts Int :=
  { nn := nn, ar := RArith.ofRing Int, fromZnx := fun x => x, fft := fun d => d, ifft := fun d => d,
    toZnx := fun d => d, mulFma := fma, addmulFma := fma, vmpAvx := avx }

def gaussParts : Parts Int := idParts 2 false false

theorem idParts_exactArith (m : Nat) (hm : 0 < m) (h4 : m % 4 = 0 ∨ m < 4) (fma avx : Bool) (hf : fma = true → m % 4 = 0) :
    ExactArith (idParts (2 * m) fma avx) := by
  have e : (idParts (2 * m) fma avx).m = m := by simp [Parts.m, idParts]
  refine ⟨rfl, by rw [e]; rfl, by rw [e]; exact hm, ?_, ?_, ?_⟩
  · intro h; rw [e]; simp only [idParts] at h; omega
  · intro h; rw [e]; exact hf h
  · intro h; rw [e]; exact hf h

theorem gauss_exactArith : ExactArith gaussParts :=
  idParts_exactArith 1 (by omega) (Or.inr (by omega)) false false (by intro h; cases h)

theorem gauss_exactDft : ExactDft gaussParts (fun _ => Cx.I) := by
  have e : gaussParts.m = 1 := rfl
  have en : gaussParts.nn = 2 := rfl
  refine ⟨fun x hx => hx, ?_, ?_, fun d hd => hd, ?_, fun d hd => hd, ?_, ?_⟩
  · intro x _ k _
    simp [gaussParts, idParts, icoef]
  · intro j _
    rw [e, pow_one]
  · intro d _ j hj
    rw [e] at hj ⊢
    have : j = 0 := by omega
    subst this
    rw [sum_range_one, pow_zero, mul_one]
    rfl
  · intro d _ t _
    rw [e]
    simp [gaussParts, idParts]
  · intro d cs hd hcs h
    rw [en] at hd hcs h
    rw [e] at h
    show d = cs
    apply Reim4.ext_getD 0 _ _ (by rw [hd, hcs])
    intro t
    by_cases ht : t < 2
    · have := h t ht
      simpa [icoef] using this
    · rw [getD_of_size_le _ _ _ (by omega), getD_of_size_le _ _ _ (by omega)]

end Spq.Module
