/-
  C16, binary64 side, products of products, step 4: `vmpDD_col_stage` — output column `j < min ncols rsz` of the
  binary64 `vmp_apply_dft_to_dft` on an operand satisfying the metric invariant row by row satisfies the metric
  invariant for the exact column `Σ_i P_i ⊛ M_ij` with the budget `colDelta`.
-/
import SpqProofs.Lemmas.ProgErr2Col
set_option linter.unusedSectionVars false
namespace Spq.ProgErr2
open Finset Spq Spq.Module Spq.Fft Spq.Fft.Alg Spq.FftErr Spq.F64 Spq.Reim4 Spq.ProdErr Spq.VmpErr Spq.ProgErr Spq.Closed
variable {K : Type} [Field K] [LinearOrder K] [IsStrictOrderedRing K]

theorem vmpDD_col_stage (M : F64Mod K) (mat : Array Int) (nrows ncols : ℕ) (adft : Array ℕ) (asz rsz : ℕ)
    (P : ℕ → Array Int) (δ : ℕ → K)
    (hrep : ∀ i, i < min nrows asz → LimbMetric M (dlimb adft i M.N) (P i) (δ i))
    (hM : ∀ i j, i < nrows → j < ncols → Box M.k (matEntry mat ncols M.N i j))
    (j : ℕ) (hj : j < min ncols rsz) (hpos : M.k < 2 → 0 < min nrows asz)
    (hokB : ∀ i, i < min nrows asz → FwdOk M.c M.k M.cN M.sN (matEntry mat ncols M.N i j))
    (hokD : ∀ p, p < M.N → vmpFlagD M.c mat nrows ncols adft asz rsz (j * M.N + p))
    (na nb : ℕ → K) (hna0 : ∀ i, i < min nrows asz → 0 ≤ na i) (hnb0 : ∀ i, i < min nrows asz → 0 ≤ nb i)
    (hna : ∀ i, i < min nrows asz → n2sq K (P i) M.N ≤ na i ^ 2)
    (hnb : ∀ i, i < min nrows asz → n2sq K (matEntry mat ncols M.N i j) M.N ≤ nb i ^ 2) :
    LimbMetric M (dlimb (vmpResD M.c mat nrows ncols adft asz rsz) j M.N)
      (colSpecP M.N mat ncols (min nrows asz) P j) (colDelta M mat ncols (min nrows asz) P j δ na nb) := by
  obtain ⟨n, hn⟩ : ∃ n, n = min nrows asz := ⟨_, rfl⟩
  rw [← hn] at hrep hna0 hnb0 hna hnb hokB
  have hnr : n ≤ nrows := by rw [hn]; exact Nat.min_le_left _ _
  have hjc : j < ncols := lt_of_lt_of_le hj (Nat.min_le_left _ _)
  have hjr : j < rsz := lt_of_lt_of_le hj (Nat.min_le_right _ _)
  have hδ0 : ∀ i, i < n → 0 ≤ δ i := fun i hi => (hrep i hi).1
  have hk2 : 2 ^ M.k + 2 ^ M.k = 2 * 2 ^ M.k := by ring
  -- the cells
  have cells := fun t (ht : t < 2 ^ M.k) => cell_transfer_gen M.c M.k M.cN M.sN M.cNi M.sNi M.ok mat nrows ncols adft asz rsz
    hM j t hj ht hpos
  have hfin : ∀ p, p < M.N → Fin64 ((vmpResD M.c mat nrows ncols adft asz rsz).getD (j * M.N + p) 0) := by
    intro p hp
    have hp' : p < 2 * 2 ^ M.k := hp
    by_cases hlt : p < 2 ^ M.k
    · exact ((cells p hlt).1 (hokD p hp)).1
    · obtain ⟨t, rfl⟩ : ∃ t, p = t + 2 ^ M.k := ⟨p - 2 ^ M.k, by omega⟩
      have := ((cells t (by omega)).2 (by rw [Nat.add_assoc]; exact hokD _ hp)).1
      rw [Nat.add_assoc] at this
      exact this
  refine ⟨by rw [← hn]; exact colDelta_nonneg M mat ncols n P j δ na nb hδ0 hna0 hnb0, ?_, ?_⟩
  · intro p hp
    rw [dlimb_get 0 _ j M.N p hp]
    exact hfin p hp
  -- per-row forward stages of the matrix entries
  have fb := fun i (hi : i < n) => fwd_poly (K := K) M.c M.k M.cN M.sN M.cNi M.sNi M.ok.cfg M.ζ M.hζ M.hI M.hcs _
    (hM i j (by omega) hjc) (hokB i hi)
  have hM0 : (0 : K) ≤ 2 ^ M.k := by positivity
  have hM1 : (1 : K) ≤ 2 ^ M.k := one_le_pow₀ (by norm_num)
  have hμ : (0 : K) ≤ ((muD n : ℚ) : K) := by exact_mod_cast muD_nonneg n
  have main := vmp_dft_abs (range (2 ^ M.k)) n
    (fun i t => V M.ζ (pkC (P i) (2 ^ M.k)) M.k 0 t)
    (fun i t => V M.ζ (pkC (matEntry mat ncols M.N i j) (2 ^ M.k)) M.k 0 t)
    (fun i t => outC (dlimb adft i M.N) M.k t)
    (fun i t => outC (stF M.c M.k M.cN M.sN (matEntry mat ncols M.N i j)) M.k t)
    (fun t => outC (dlimb (vmpResD M.c mat nrows ncols adft asz rsz) j M.N) M.k t)
    ((muD n : ℚ) : K) (2 ^ M.k) (2 ^ M.k) δ (fun i => eps K M.k * nb i) na nb
    (fun i => n1 K (P i) M.N) (fun i => n1 K (matEntry mat ncols M.N i j) M.N)
    hμ hM0 hM0 (by nlinarith) hδ0 (fun i hi => mul_nonneg (eps_nonneg M.k) (hnb0 i hi)) hna0 hnb0
    (fun i _ => n1_nonneg _ _) (fun i _ => n1_nonneg _ _)
    (fun i hi => (hrep i hi).2.2)
    (fun i hi => by rw [V_sum M.k M.ζ M.hζ, mul_comm]; exact mul_le_mul_of_nonneg_right (hna i hi) hM0)
    (fun i hi t ht => V_sup M.k M.ζ M.hζ M.hI _ t (mem_range.1 ht))
    (fun i hi => by
      refine le_trans (fb i hi).2 ?_
      rw [V_sum M.k M.ζ M.hζ, mul_pow, mul_assoc]
      refine mul_le_mul_of_nonneg_left ?_ (by positivity)
      rw [mul_comm]
      exact mul_le_mul_of_nonneg_right (hnb i hi) hM0)
    (fun i hi => by rw [V_sum M.k M.ζ M.hζ, mul_comm]; exact mul_le_mul_of_nonneg_right (hnb i hi) hM0)
    (fun i hi t ht => V_sup M.k M.ζ M.hζ M.hI _ t (mem_range.1 ht))
    (by
      intro t ht
      have ht' := mem_range.1 ht
      obtain ⟨_, pr⟩ := (cells t ht').1 (hokD t (by show t < 2 * 2 ^ M.k; omega))
      obtain ⟨_, pi⟩ := (cells t ht').2 (by rw [Nat.add_assoc]; exact hokD _ (by show t + 2 ^ M.k < 2 * 2 ^ M.k; omega))
      rw [← hn] at pr pi
      obtain ⟨dl, d1, d2⟩ := cplx_of_psum (K := K) n (qD adft (2 * 2 ^ M.k) t) (qD adft (2 * 2 ^ M.k) (t + 2 ^ M.k))
        (qM M.c M.k M.cN M.sN mat ncols j t) (qM M.c M.k M.cN M.sN mat ncols j (t + 2 ^ M.k)) (gamD n) _ _ (gamD_nonneg n) pr pi
      have eA : ∀ i, (outC (dlimb adft i M.N) M.k t : Cplx K) =
          ⟨((qD adft (2 * 2 ^ M.k) t i : ℚ) : K), ((qD adft (2 * 2 ^ M.k) (t + 2 ^ M.k) i : ℚ) : K)⟩ := by
        intro i
        rw [outC_getD, dlimb_get 0 adft i M.N t (by show t < 2 * 2 ^ M.k; omega),
          dlimb_get 0 adft i M.N (t + 2 ^ M.k) (by show t + 2 ^ M.k < 2 * 2 ^ M.k; omega)]
        rfl
      refine ⟨dl, fun i hi => ?_, ?_⟩
      · have := d1 i hi
        rw [eA i, outC_getD]
        unfold muD
        exact this
      · rw [outC_getD, dlimb_get 0 _ j (2 * 2 ^ M.k) t (by omega),
          dlimb_get2 0 _ j (2 * 2 ^ M.k) t (2 ^ M.k) (by omega)]
        rw [d2]
        apply sum_congr rfl
        intro i _
        rw [eA i, outC_getD]
        rfl)
  -- rewrite the exact side
  have eP : ∀ t ∈ range (2 ^ M.k), ∑ i ∈ range n, V M.ζ (pkC (P i) (2 ^ M.k)) M.k 0 t *
      V M.ζ (pkC (matEntry mat ncols M.N i j) (2 ^ M.k)) M.k 0 t =
      V M.ζ (pkC (colSpecP M.N mat ncols n P j) (2 ^ M.k)) M.k 0 t := by
    intro t ht
    unfold colSpecP
    rw [V_isum M.k M.ζ M.hI n _ t (mem_range.1 ht)]
    exact sum_congr rfl (fun i _ => V_prod M.k M.ζ M.hI _ _ t (mem_range.1 ht))
  rw [← hn]
  refine le_trans (le_of_eq ?_) main
  exact sum_congr rfl (fun t ht => by rw [eP t ht])

end Spq.ProgErr2
