/-
  C16, binary64 side, step 7: the hypotheses of the binary64 refinement theorem over the program language
  `Prog.OpD` of `Spq/Prog.lean` (coefficient-space calls, `dft`, `svp_prepare`, `svp_apply_dft`, `vmp_prepare`,
  `vmp_apply_dft`, `vmp_apply_dft_to_dft` = `vmpDD`, `idft`, small product; interpreters `cstepD` / `astepD`).
   * `Tag`, `tagStep`, `SingleProductDepth`: the static dataflow analysis — which `VEC_ZNX_DFT` variables hold a RAW
               transform (last written by `dft`; this is the field `AState.raw` that `astepD` maintains), and
               "every `vmpDD` reads a raw transform with enough limbs";
   * `PreF`  : the per-call NUMERIC budget on the exact state (`OpBudget` of the deliverable);
   * `RE`    : the refinement relation = `Prog.RD` for the binary64 instance `dftOpsSound_f64` of `Prog.DftOpsSound`;
   * `preD_of_preF`: numeric budget + dataflow condition = the precondition `Prog.PreD` of that instance.
-/
import SpqProofs.Lemmas.ProgErrSound
set_option linter.unusedSectionVars false
namespace Spq.ProgErr
open Spq Spq.Module Spq.Prog Spq.Closed Spq.VmpErr

/-! ### static dataflow of DFT variables -/

/-- `tg v = some asz`: the last write to the `VEC_ZNX_DFT` variable `v` was `vec_znx_dft(v, a)` with `a.size = asz` -/
abbrev Tag := DVar → Option ℕ

def tagStep : OpD → Tag → Tag
  | .dft d a, tg => upd tg d (some a.size)
  | .svp d _ _, tg => upd tg d none
  | .vmp d _ _, tg => upd tg d none
  | .vmpDD d _ _, tg => upd tg d none
  | _, tg => tg

/-- the tag map is the field `raw` of the exact state -/
theorem raw_astepD (nn : ℕ) (op : OpD) (a : AState) : (astepD nn op a).raw = tagStep op a.raw := by
  cases op <;> rfl

/-- the dataflow condition of one call: `vmp_apply_dft_to_dft` reads a RAW transform (not a product), all of whose
    rows used (`min nrows a.size`) are transforms of input limbs (not the zero padding of `vec_znx_dft`) -/
def opSPD : OpD → Tag → Prop
  | .vmpDD _ a m, tg => ∃ asz, tg a = some asz ∧ min m.nrows a.size ≤ asz
  | _, _ => True

def opSPDb : OpD → Tag → Bool
  | .vmpDD _ a m, tg => match tg a with
      | some asz => decide (min m.nrows a.size ≤ asz)
      | none => false
  | _, _ => true

/-- **`SingleProductDepth ops tg`** (decidable: `SingleProductDepthb`): along the program every DFT-space product takes
    integer vectors or raw transforms as its vector operand — no product of products -/
def SingleProductDepth : List OpD → Tag → Prop
  | [], _ => True
  | o :: ops, tg => opSPD o tg ∧ SingleProductDepth ops (tagStep o tg)

def SingleProductDepthb : List OpD → Tag → Bool
  | [], _ => true
  | o :: ops, tg => opSPDb o tg && SingleProductDepthb ops (tagStep o tg)

theorem opSPDb_sound (o : OpD) (tg : Tag) (h : opSPDb o tg = true) : opSPD o tg := by
  cases o with
  | vmpDD d a m =>
    show ∃ asz, tg a = some asz ∧ min m.nrows a.size ≤ asz
    have h' : (match tg a with | some asz => decide (min m.nrows a.size ≤ asz) | none => false) = true := h
    cases e : tg a with
    | none => rw [e] at h'; cases h'
    | some asz => rw [e] at h'; exact ⟨asz, rfl, by simpa using h'⟩
  | _ => trivial

theorem opSPDb_complete (o : OpD) (tg : Tag) (h : opSPD o tg) : opSPDb o tg = true := by
  cases o with
  | vmpDD d a m =>
    obtain ⟨asz, e, hle⟩ := (h : ∃ asz, tg a = some asz ∧ min m.nrows a.size ≤ asz)
    show (match tg a with | some asz => decide (min m.nrows a.size ≤ asz) | none => false) = true
    rw [e]
    simpa using hle
  | _ => rfl

theorem SingleProductDepthb_sound : ∀ (ops : List OpD) (tg : Tag), SingleProductDepthb ops tg = true →
    SingleProductDepth ops tg
  | [], _, _ => trivial
  | o :: ops, tg, h => by
    simp only [SingleProductDepthb, Bool.and_eq_true] at h
    exact ⟨opSPDb_sound o tg h.1, SingleProductDepthb_sound ops _ h.2⟩

theorem SingleProductDepthb_complete : ∀ (ops : List OpD) (tg : Tag), SingleProductDepth ops tg →
    SingleProductDepthb ops tg = true
  | [], _, _ => rfl
  | o :: ops, tg, h => by
    simp only [SingleProductDepthb, Bool.and_eq_true]
    exact ⟨opSPDb_complete o tg h.1, SingleProductDepthb_complete ops _ h.2⟩

/-- `SingleProductDepth` is decidable (a static check on the program text) -/
instance (ops : List OpD) (tg : Tag) : Decidable (SingleProductDepth ops tg) :=
  decidable_of_iff (SingleProductDepthb ops tg = true)
    ⟨SingleProductDepthb_sound ops tg, SingleProductDepthb_complete ops tg⟩

/-- no DFT variable holds a raw transform (initial state) -/
def noTag : Tag := fun _ => none

/-- the call is not `vmp_apply_dft_to_dft` -/
def notDD : OpD → Bool
  | .vmpDD _ _ _ => false
  | _ => true

theorem spd_of_notDD : ∀ (ops : List OpD) (tg : Tag), ops.all notDD = true → SingleProductDepth ops tg
  | [], _, _ => trivial
  | o :: ops, tg, h => by
    simp only [List.all_cons, Bool.and_eq_true] at h
    refine ⟨?_, spd_of_notDD ops _ h.2⟩
    cases o <;> first | trivial | (exact absurd h.1 (by simp [notDD]))

/-! ### budgets on the exact state -/

variable {K : Type} [Field K] [LinearOrder K] [IsStrictOrderedRing K] {hsz : ℕ} {vars : List Var}

/-- limb `i` of variable `a` in the exact environment, as an array of `N` integers -/
abbrev limbArr (N : ℕ) (env : Env) (a : Var) (i : ℕ) : Array Int := polyArr N (fun t => (env a).coef i t)
/-- the `a.size` limbs of variable `a`, flat with stride `N` -/
abbrev vecArr (N : ℕ) (env : Env) (a : Var) : Array Int := flatOf N a.size (fun i t => (env a).coef i t)

/-- **`PreF M vars op s`: well-formedness and NUMERIC precision budget of one call on the exact state `s`** — for every
    call except `vmpDD` it is `Prog.PreD` of the binary64 instance `dftOpsSound_f64 M`:
    coefficient-space calls: C16's `OpPre` (operands declared, int64 range, `normalize` range);
    `dft d a`: every limb that is transformed (`i < min a.size d.size`) satisfies the round-trip budget `RtBudget`;
    `svp d k a`: every product `a_i ⊛ s_k` (`i < min a.size d.size`) satisfies `ProdBudget`;
    `vmp d a m` / `vmpDD d a m`: `VmpBudget` for the `d.size` result limbs (vector = the integer limbs of `a`, resp. the
    integer limbs the transform `a` stands for); `vmpDD` also requires `d ≠ a` (the C function is not in-place safe); `smallProduct`: `ProdBudget` of limb 0 of the operands;
    `svp_prepare`, `vmp_prepare`, `idft`: shape conditions only — their rounding is paid for in the budget of the
    product / transform that produced or consumes the object.
    For `vmpDD` the precondition of the instance additionally contains the dataflow condition `opSPD` (the operand is
    tagged as a raw transform); `PreF` leaves it out, it is the static hypothesis `SingleProductDepth`. -/
def PreF (M : F64Mod K) (vars : List Var) : OpD → AState → Prop
  | .vmpDD d a m, s => d ≠ a ∧ ∃ P Mv, s.dvec a = some P ∧ s.pmat m = some Mv ∧
      VmpBudget M (matOf M Mv m.nrows m.ncols) m.nrows m.ncols (flatOf M.N a.size fun i t => P.coef i t) a.size d.size
  | op, s => PreD (dftOpsSound_f64 M) vars op s

/-- the per-operation budget predicate under the name used in the task description -/
abbrev OpBudget (M : F64Mod K) (vars : List Var) (o : OpD) (s : AState) : Prop := PreF M vars o s

/-- numeric budget + dataflow condition = the precondition of the binary64 instance of `DftOpsSound` -/
theorem preD_of_preF (M : F64Mod K) (op : OpD) (a : AState) (h : PreF M vars op a) (hs : opSPD op a.raw) :
    PreD (dftOpsSound_f64 M) vars op a := by
  cases op with
  | vmpDD d x m =>
    obtain ⟨hne, P, Mv, hP, hm, hb⟩ := h
    obtain ⟨az, ht, hr⟩ := hs
    exact ⟨hne, P, Mv, hP, hm, az, ht, hr, hb⟩
  | _ => exact h

theorem preF_of_preD (M : F64Mod K) (op : OpD) (a : AState) (h : PreD (dftOpsSound_f64 M) vars op a) :
    PreF M vars op a ∧ opSPD op a.raw := by
  cases op with
  | vmpDD d x m =>
    obtain ⟨hne, P, Mv, hP, hm, az, ht, hr, hb⟩ := h
    exact ⟨⟨hne, P, Mv, hP, hm, hb⟩, az, ht, hr⟩
  | _ => exact ⟨h, trivial⟩

/-! ### the refinement relation -/

/-- **`RE M hsz vars a s`** = `Prog.RD (dftOpsSound_f64 M)`: the binary64 state `s` represents the exact state `a`:
    * heap: every coefficient of every declared variable holds the exact integer (`Prog.R`);
    * `VEC_ZNX_DFT` objects: `LimbExact` — the inverse transform + rounding of every limb is the exact limb;
    * `SVP_PPOL` / `VMP_PMAT` objects: bit for bit `svp_prepare` / `vmp_prepare_contiguous` of the exact operand;
    * raw transforms (`a.raw v = some asz`): the object is, bit for bit, `vec_znx_dft` of the exact limbs. -/
abbrev RE (M : F64Mod K) (hsz : ℕ) (vars : List Var) (a : AState) (s : CState ℕ) : Prop :=
  RD (dftOpsSound_f64 M) hsz vars a s

theorem RE_init (M : F64Mod K) (env : Env) (s : CState ℕ) (hR : R M.N hsz vars env s.heap) :
    RE M hsz vars ⟨env, fun _ => none, fun _ => none, fun _ => none, fun _ => none⟩ s :=
  RD_init (dftOpsSound_f64 M) env s hR

end Spq.ProgErr
