/-
  C06: the inverse reim transform, top level: m ≥ 32 and the directly called kernels for m = 1..16.
-/
import SpqProofs.Lemmas.FftReimInv
set_option linter.unusedSectionVars false
set_option linter.unusedSimpArgs false
namespace Spq.Fft.ReimInv
open Spq.Fft Spq.Fft.Alg Spq.Fft.View Spq.Fft.Level Spq.Fft.Sim Spq.Fft.Tab Spq.Fft.Tw Spq.Fft.Kern Spq.Fft.Sched

variable {R : Type} [CommRing R] [Inhabited R] (Y : ICtx R)

/-- `ifftRI` for `m = 2^k ≥ 32` -/
theorem ifftRI_big (F : Flav R) (hF : InvOK Y.I F) (hk : 5 ≤ Y.k) (cf : R) (s : RI R) (hs : Valid (2 ^ Y.k) s) :
    IAdv Y.ζ Y.a (cxs Y.I s)
        (cxs Y.I (ifftRI F (2 ^ Y.k) (((reimIfftEnts (2 ^ Y.k)).map (val Y.c Y.s)).toArray) s))
        cf (2 ^ Y.k * cf) Y.k 0 0 Y.k 0 (2 ^ Y.k) ∧
      Valid (2 ^ Y.k) (ifftRI F (2 ^ Y.k) (((reimIfftEnts (2 ^ Y.k)).map (val Y.c Y.s)).toArray) s) := by
  have h32 : 32 ≤ 2 ^ Y.k := by
    have : 2 ^ 5 ≤ 2 ^ Y.k := Nat.pow_le_pow_right (by omega) hk
    simpa using this
  have hb0 : 2 ^ Y.k * (1 + 4 * brev 0 0) = 2 ^ Y.k := by simp [brev]
  have hE : reimIfftEnts (2 ^ Y.k) = if 2 ^ Y.k ≤ 2048 then riBfs (4 * 2 ^ Y.k) (2 ^ Y.k) (2 ^ Y.k)
      else riRec (4 * 2 ^ Y.k) (2 ^ Y.k) (2 ^ Y.k) (2 ^ Y.k) := by
    unfold reimIfftEnts
    rw [if_neg (by omega)]
    rw [show ((2 ^ Y.k == 2) = false) by simp; omega, show ((2 ^ Y.k == 4) = false) by simp; omega,
      show ((2 ^ Y.k == 8) = false) by simp; omega, show ((2 ^ Y.k == 16) = false) by simp; omega]
    simp only [Bool.false_eq_true, ↓reduceIte]
  unfold ifftRI
  rw [if_neg (by omega)]
  rw [show ((2 ^ Y.k == 2) = false) by simp; omega, show ((2 ^ Y.k == 4) = false) by simp; omega,
    show ((2 ^ Y.k == 8) = false) by simp; omega, show ((2 ^ Y.k == 16) = false) by simp; omega]
  simp only [Bool.false_eq_true, ↓reduceIte]
  rw [hE]
  by_cases hle : 2 ^ Y.k ≤ 2048
  · rw [if_pos hle, if_pos hle]
    have hseg := Seg.of_toArray ((riBfs (4 * 2 ^ Y.k) (2 ^ Y.k) (2 ^ Y.k)).map (val Y.c Y.s))
    have := ibfs16_spec Y F hF _ (2 ^ Y.k) 0 Y.k 0 0 (2 ^ Y.k) 0 cf s (by omega) rfl hk (by ring) (by omega) hs
      (by rw [hb0]; exact hseg)
    exact ⟨this.1, this.2.1⟩
  · rw [if_neg hle, if_neg hle]
    have hseg := Seg.of_toArray ((riRec (4 * 2 ^ Y.k) (2 ^ Y.k) (2 ^ Y.k) (2 ^ Y.k)).map (val Y.c Y.s))
    have := irec16_spec Y F hF _ (2 ^ Y.k) (2 ^ Y.k) Y.k 0 0 0 (2 ^ Y.k) 0 cf s (by omega) rfl hk (by ring) (by omega)
      hs (by rw [hb0]; exact hseg)
    exact ⟨this.1, this.2.1⟩

/-- one inverse butterfly on adjacent cells -/
theorem ipair1_adv (f : Bf R) (wr wi W' : R) (hf : Realises Y.I f wr wi iφ (iψ W')) (N ℓ b a : ℕ) (cf : R)
    (s : RI R) (hs : Valid N s) (ha : a = 2 * b) (hN : a + 2 ≤ N) (hW : Y.ζ ^ twE ℓ 0 b * W' = 1) :
    IAdv Y.ζ Y.a (cxs Y.I s) (cxs Y.I (bf f s a (a + 1) wr wi)) cf (2 * cf) (ℓ + 1) 0 ℓ 1 a 2 ∧
      Valid N (bf f s a (a + 1) wr wi) := by
  have h1 := bf_sim Y.I N f wr wi _ _ hf s a (a + 1) hs (by omega) (by omega) (by omega)
  rw [h1.1, G_eq_twG1]
  exact ⟨IAdv.tw Y.ζ Y.a _ cf ℓ 0 b a (by omega) W' hW, h1.2⟩

/-- two inverse butterflies `(a, a+2)`, `(a+1, a+3)` -/
theorem ipair2_adv (f : Bf R) (wr wi W' : R) (hf : Realises Y.I f wr wi iφ (iψ W')) (N ℓ b a a1 a2 a3 : ℕ)
    (cf : R) (s : RI R) (hs : Valid N s) (ha : a = 4 * b) (h1 : a1 = a + 1) (h2 : a2 = a + 2) (h3 : a3 = a + 3)
    (hN : a + 4 ≤ N) (hW : Y.ζ ^ twE ℓ 1 b * W' = 1) :
    IAdv Y.ζ Y.a (cxs Y.I s) (cxs Y.I (bf f (bf f s a a2 wr wi) a1 a3 wr wi)) cf (2 * cf) (ℓ + 1) 1 ℓ 2 a 4 ∧
      Valid N (bf f (bf f s a a2 wr wi) a1 a3 wr wi) := by
  have e := bf2_sim Y.I N f f wr wi wr wi _ _ _ _ hf hf s a a2 a1 a3 hs (by omega) (by omega) (by omega)
    (by omega) (by omega) (by omega)
  rw [e.1, G_G_eq_twG2' _ _ a a1 a2 a3 h1 h2 h3]
  exact ⟨IAdv.tw Y.ζ Y.a _ cf ℓ 1 b a (by omega) W' hW, e.2⟩

theorem ifftRI_k0 (F : Flav R) (hk : Y.k = 0) (T : Array R) (cf : R) (s : RI R) (hs : Valid (2 ^ Y.k) s) :
    IAdv Y.ζ Y.a (cxs Y.I s) (cxs Y.I (ifftRI F (2 ^ Y.k) T s)) cf (2 ^ Y.k * cf) Y.k 0 0 Y.k 0 (2 ^ Y.k) ∧
      Valid (2 ^ Y.k) (ifftRI F (2 ^ Y.k) T s) := by
  rw [hk] at hs ⊢
  simp only [ifftRI, pow_zero, Nat.le_refl, ↓reduceIte]
  exact ⟨IAdv_id Y _ _ _ _ _ _ _ _ _ (by ring) rfl rfl, hs⟩

theorem ifftRI_k1 (F : Flav R) (hF : InvOK Y.I F) (hk : Y.k = 1) (cf : R) (s : RI R) (hs : Valid (2 ^ Y.k) s) :
    IAdv Y.ζ Y.a (cxs Y.I s)
        (cxs Y.I (ifftRI F (2 ^ Y.k) (((reimIfftEnts (2 ^ Y.k)).map (val Y.c Y.s)).toArray) s))
        cf (2 ^ Y.k * cf) Y.k 0 0 Y.k 0 (2 ^ Y.k) ∧
      Valid (2 ^ Y.k) (ifftRI F (2 ^ Y.k) (((reimIfftEnts (2 ^ Y.k)).map (val Y.c Y.s)).toArray) s) := by
  rw [hk] at hs ⊢
  have hT : ((reimIfftEnts (2 ^ 1)).map (val Y.c Y.s)).toArray = #[Y.c 1, -Y.s 1] := by
    simp [reimIfftEnts, riFill2, eM, val]
  rw [hT]
  simp only [ifftRI, ifft2, Nat.reducePow, Nat.reduceLeDiff, ↓reduceIte, BEq.rfl, Nat.zero_add]
  have hw : Y.c 1 + Y.I * -Y.s 1 = Y.ζi ^ 1 := by rw [← Y.hcsi]; ring
  have := ipair1_adv Y F.ct2 (Y.c 1) (-Y.s 1) _ (hF.ct2 _ _) 2 0 0 0 cf s hs rfl (by omega)
    (by rw [hw]; exact inv_pow Y 1)
  exact ⟨by simpa using this.1, this.2⟩

theorem ifftRI_k2 (F : Flav R) (hF : InvOK Y.I F) (hk : Y.k = 2) (cf : R) (s : RI R) (hs : Valid (2 ^ Y.k) s) :
    IAdv Y.ζ Y.a (cxs Y.I s)
        (cxs Y.I (ifftRI F (2 ^ Y.k) (((reimIfftEnts (2 ^ Y.k)).map (val Y.c Y.s)).toArray) s))
        cf (2 ^ Y.k * cf) Y.k 0 0 Y.k 0 (2 ^ Y.k) ∧
      Valid (2 ^ Y.k) (ifftRI F (2 ^ Y.k) (((reimIfftEnts (2 ^ Y.k)).map (val Y.c Y.s)).toArray) s) := by
  have hodd := inv_odd Y 0 0 0 (by omega)
  rw [hk] at hs ⊢
  have hT : ((reimIfftEnts (2 ^ 2)).map (val Y.c Y.s)).toArray = #[Y.c 1, -Y.s 1, Y.c 2, -Y.s 2] := by
    simp [reimIfftEnts, riFill4, eM, val]
  rw [hT]
  simp only [ifftRI, ifft4, Nat.reducePow, Nat.reduceLeDiff, ↓reduceIte, Nat.zero_add, Nat.reduceBEq,
    Bool.false_eq_true, BEq.rfl]
  have hw1 : Y.c 1 + Y.I * -Y.s 1 = Y.ζi ^ 1 := by rw [← Y.hcsi]; ring
  have hw2 : Y.c 2 + Y.I * -Y.s 2 = Y.ζi ^ 2 := by rw [← Y.hcsi]; ring
  have s1 := ipair1_adv Y F.ctS (Y.c 1) (-Y.s 1) _ (hF.ctS _ _) 4 1 0 0 cf s hs rfl (by omega)
    (by rw [hw1]; exact inv_pow Y 1)
  have s2 := ipair1_adv Y F.citS (Y.c 1) (-Y.s 1) _ (hF.citS _ _) 4 1 1 2 cf _ s1.2 rfl (by omega)
    (by rw [hw1]; exact hodd)
  have s3 := ipair2_adv Y F.ctS (Y.c 2) (-Y.s 2) _ (hF.ctS _ _) 4 0 0 0 1 2 3 (2 * cf) _ s2.2 rfl rfl rfl rfl
    (by omega) (by rw [hw2]; exact inv_pow Y 2)
  have := IAdv.cast Y.ζ Y.a ((s1.1.par s2.1).seq s3.1) cf (2 ^ 2 * cf) 2 0 0 2 rfl (by ring) rfl rfl rfl rfl
  exact ⟨by simpa using this, s3.2⟩

/-- `reim_ifft8_*` on the whole vector (k = 3) -/
theorem ifft8_adv (F : Flav R) (hF : InvOK Y.I F) (hk : Y.k = 3) (T : Array R) (cf : R) (s : RI R) (hs : Valid 8 s)
    (wa : T[0]! + Y.I * T[0 + 2]! = Y.ζi ^ 1) (wb : T[0 + 1]! + Y.I * T[0 + 3]! = Y.ζi ^ 5)
    (w1 : T[0 + 4]! + Y.I * T[0 + 5]! = Y.ζi ^ 2) (w0 : T[0 + 6]! + Y.I * T[0 + 7]! = Y.ζi ^ 4) :
    IAdv Y.ζ Y.a (cxs Y.I s) (cxs Y.I (ifft8 F T 0 0 s)) cf (8 * cf) 3 0 0 3 0 8 ∧ Valid 8 (ifft8 F T 0 0 s) := by
  have o1 := inv_odd Y 1 0 0 (by omega)
  have o3 := inv_odd Y 1 0 1 (by omega)
  have o2 := inv_odd Y 0 1 0 (by omega)
  unfold ifft8
  have s1 := ipair1_adv Y F.ctS T[0]! T[0 + 2]! _ (hF.ctS _ _) 8 2 0 0 cf s hs rfl (by omega)
    (by rw [wa]; exact inv_pow Y 1)
  have s2 := ipair1_adv Y F.citS T[0]! T[0 + 2]! _ (hF.citS _ _) 8 2 1 (0 + 2) cf _ s1.2 rfl (by omega)
    (by rw [wa]; exact o1)
  have s3 := ipair1_adv Y F.ctS T[0 + 1]! T[0 + 3]! _ (hF.ctS _ _) 8 2 2 (0 + 4) cf _ s2.2 rfl (by omega)
    (by rw [wb]; exact inv_pow Y 5)
  have s4 := ipair1_adv Y F.citS T[0 + 1]! T[0 + 3]! _ (hF.citS _ _) 8 2 3 (0 + 6) cf _ s3.2 rfl (by omega)
    (by rw [wb]; exact o3)
  have s5 := ipair2_adv Y F.ctS T[0 + 4]! T[0 + 5]! _ (hF.ctS _ _) 8 1 0 0 (0 + 1) (0 + 2) (0 + 3) (2 * cf) _ s4.2
    rfl rfl rfl rfl (by omega) (by rw [w1]; exact inv_pow Y 2)
  have s6 := ipair2_adv Y F.citS T[0 + 4]! T[0 + 5]! _ (hF.citS _ _) 8 1 1 (0 + 4) (0 + 5) (0 + 6) (0 + 7) (2 * cf) _
    s5.2 rfl rfl rfl rfl (by omega) (by rw [w1]; exact o2)
  have s7 := itwPass_adv Y F.ctS hF.ctS 8 0 2 0 0 (2 * (2 * cf)) T[0 + 6]! T[0 + 7]! _ s6.2 rfl (by omega)
    (by rw [w0]; rfl)
  have l3 := ((s1.1.par s2.1).par s3.1).par s4.1
  have l2 := s5.1.par s6.1
  exact ⟨IAdv.cast Y.ζ Y.a ((l3.seq l2).seq s7.1) cf (8 * cf) 3 0 0 3 rfl (by ring) rfl rfl rfl rfl, s7.2⟩

theorem ifftRI_k3 (F : Flav R) (hF : InvOK Y.I F) (hk : Y.k = 3) (cf : R) (s : RI R) (hs : Valid (2 ^ Y.k) s) :
    IAdv Y.ζ Y.a (cxs Y.I s)
        (cxs Y.I (ifftRI F (2 ^ Y.k) (((reimIfftEnts (2 ^ Y.k)).map (val Y.c Y.s)).toArray) s))
        cf (2 ^ Y.k * cf) Y.k 0 0 Y.k 0 (2 ^ Y.k) ∧
      Valid (2 ^ Y.k) (ifftRI F (2 ^ Y.k) (((reimIfftEnts (2 ^ Y.k)).map (val Y.c Y.s)).toArray) s) := by
  have h := ifft8_adv Y F hF hk (((reimIfftEnts (2 ^ 3)).map (val Y.c Y.s)).toArray) cf
  rw [hk] at hs ⊢
  have hT : ((reimIfftEnts (2 ^ 3)).map (val Y.c Y.s)).toArray
      = #[Y.c 1, Y.c 5, -Y.s 1, -Y.s 5, Y.c 2, -Y.s 2, Y.c 4, -Y.s 4] := by
    simp [reimIfftEnts, riFill8, eM, val]
  rw [hT] at h ⊢
  simp only [ifftRI, Nat.reducePow, Nat.reduceLeDiff, ↓reduceIte, Nat.reduceBEq, Bool.false_eq_true, BEq.rfl]
  have := h s hs (by simpa [sub_eq_add_neg] using Y.hcsi 1) (by simpa [sub_eq_add_neg] using Y.hcsi 5)
    (by simpa [sub_eq_add_neg] using Y.hcsi 2) (by simpa [sub_eq_add_neg] using Y.hcsi 4)
  exact ⟨IAdv.cast Y.ζ Y.a this.1 cf (2 ^ 3 * cf) 3 0 0 3 rfl (by norm_num) rfl rfl rfl rfl, this.2⟩

theorem ifftRI_k4 (F : Flav R) (hF : InvOK Y.I F) (hk : Y.k = 4) (cf : R) (s : RI R) (hs : Valid (2 ^ Y.k) s) :
    IAdv Y.ζ Y.a (cxs Y.I s)
        (cxs Y.I (ifftRI F (2 ^ Y.k) (((reimIfftEnts (2 ^ Y.k)).map (val Y.c Y.s)).toArray) s))
        cf (2 ^ Y.k * cf) Y.k 0 0 Y.k 0 (2 ^ Y.k) ∧
      Valid (2 ^ Y.k) (ifftRI F (2 ^ Y.k) (((reimIfftEnts (2 ^ Y.k)).map (val Y.c Y.s)).toArray) s) := by
  have hE : reimIfftEnts (2 ^ Y.k) = riFill16 (4 * 2 ^ Y.k) 16 := by rw [hk]; rfl
  rw [hE]
  have hseg := Seg.of_toArray ((riFill16 (4 * 2 ^ Y.k) 16).map (val Y.c Y.s))
  obtain ⟨T, hT⟩ : ∃ T, T = ((riFill16 (4 * 2 ^ Y.k) 16).map (val Y.c Y.s)).toArray := ⟨_, rfl⟩
  rw [← hT] at hseg ⊢
  have hw := ileaf_read Y T 0 16 (4 * 2 ^ Y.k) hseg
  have h16 : 2 ^ Y.k = 16 := by rw [hk]; rfl
  rw [h16] at hs ⊢
  simp only [ifftRI, Nat.reduceLeDiff, ↓reduceIte, Nat.reduceBEq, Bool.false_eq_true, BEq.rfl]
  unfold ifft16
  have := ifft16K_adv Y F hF _ 16 0 0 0 16 cf s hs rfl (by omega) (by omega) (by simp [brev]) hw
  exact ⟨IAdv.cast Y.ζ Y.a this.1 cf (2 ^ Y.k * cf) Y.k 0 0 Y.k rfl (by rw [hk]; norm_num) (by omega) rfl rfl hk,
    this.2⟩

/-- the inverse reim transform of every size `2^k` runs the level network backwards and multiplies by `2^k` -/
theorem ifftRI_adv (F : Flav R) (hF : InvOK Y.I F) (cf : R) (s : RI R) (hs : Valid (2 ^ Y.k) s) :
    IAdv Y.ζ Y.a (cxs Y.I s)
        (cxs Y.I (ifftRI F (2 ^ Y.k) (((reimIfftEnts (2 ^ Y.k)).map (val Y.c Y.s)).toArray) s))
        cf (2 ^ Y.k * cf) Y.k 0 0 Y.k 0 (2 ^ Y.k) ∧
      Valid (2 ^ Y.k) (ifftRI F (2 ^ Y.k) (((reimIfftEnts (2 ^ Y.k)).map (val Y.c Y.s)).toArray) s) := by
  by_cases h5 : 5 ≤ Y.k
  · exact ifftRI_big Y F hF h5 cf s hs
  have : Y.k = 0 ∨ Y.k = 1 ∨ Y.k = 2 ∨ Y.k = 3 ∨ Y.k = 4 := by omega
  rcases this with h | h | h | h | h
  · exact ifftRI_k0 Y F h _ cf s hs
  · exact ifftRI_k1 Y F hF h cf s hs
  · exact ifftRI_k2 Y F hF h cf s hs
  · exact ifftRI_k3 Y F hF h cf s hs
  · exact ifftRI_k4 Y F hF h cf s hs

end Spq.Fft.ReimInv
