/-
  Simulation rules for loops whose iteration count has no closed form (cycle walks): the IR loop is related
  to a fuel-bounded functional loop over an abstract state `α` through a state map `S : α → State`.

  * `walkA stp ex m a`  — "do a ← stp a while ¬ ex a", at most `m` steps      (model: `Coeffs.walkCycle`)
  * `whileA tst stp m b` — "while tst b do b ← stp b", at most `m` steps      (model: `Coeffs.walkAll`)
-/
import SpqProofs.Lemmas.SrcEval
namespace Spq.CIR

variable {α : Type}

def walkA (stp : α → α) (ex : α → Bool) : Nat → α → α
  | 0, a => a
  | m + 1, a => if ex (stp a) then stp a else walkA stp ex m (stp a)

/-- the do-while exits within `m` steps -/
def TermA (stp : α → α) (ex : α → Bool) : Nat → α → Prop
  | 0, _ => False
  | m + 1, a => ex (stp a) = true ∨ TermA stp ex m (stp a)

def whileA (tst : α → Bool) (stp : α → α) : Nat → α → α
  | 0, b => b
  | m + 1, b => if tst b then whileA tst stp m (stp b) else b

/-- one more iteration of a loop whose condition holds -/
theorem loopN_succ_of_true (c : State → R Bool) (step : Nat → State → Out) (f : Nat) (σ σ' : State)
    (hc : c σ = .ok true) (hs : step f σ = .ok (.norm, σ')) :
    loopN c step (f + 1) σ = loopN c step f σ' := by
  simp only [loopN, hc, hs]

theorem loopN_of_false (c : State → R Bool) (step : Nat → State → Out) (f : Nat) (σ : State)
    (hc : c σ = .ok false) : loopN c step f σ = .ok (.norm, σ) := by
  cases f <;> simp only [loopN, hc]

/-- do-while against `walkA`.  `G m a`: invariant with `m` steps of budget left. -/
theorem doWhile_sim (Γ : List Ptr) (body : Stmt) (c : Expr) (S : α → State) (stp : α → α) (ex : α → Bool)
    (G : Nat → α → Prop)
    (hG : ∀ m a, G (m + 1) a → ex (stp a) = false → G m (stp a))
    (hbody : ∀ m a f, G (m + 1) a → exec Γ body f (S a) = .ok (.norm, S (stp a)))
    (hcond : ∀ a, evalB Γ c (S a) = .ok (!ex a)) :
    ∀ m a f, G m a → TermA stp ex m a → m ≤ f + 1 →
      exec Γ (.doWhile body c) f (S a) = .ok (.norm, S (walkA stp ex m a)) := by
  -- the tail: loop entered after one body execution
  have tail : ∀ m a f, G (m + 1) a → TermA stp ex (m + 1) a → m ≤ f →
      loopN (evalB Γ c) (fun f σ => exec Γ body f σ) f (S (stp a)) = .ok (.norm, S (walkA stp ex (m + 1) a)) := by
    intro m
    induction m with
    | zero =>
      intro a f _ hT _
      have hex : ex (stp a) = true := by
        rcases hT with h | h
        · exact h
        · exact absurd h (by simp [TermA])
      rw [loopN_of_false _ _ _ _ (by rw [hcond, hex]; rfl)]
      simp only [walkA, hex, if_true]
    | succ m ih =>
      intro a f hGa hT hf
      by_cases hex : ex (stp a) = true
      · rw [loopN_of_false _ _ _ _ (by rw [hcond, hex]; rfl)]
        simp only [walkA, hex, if_true]
      · have hex' : ex (stp a) = false := by simpa using hex
        have hT' : TermA stp ex (m + 1) (stp a) := by
          rcases hT with h | h
          · exact absurd h hex
          · exact h
        obtain ⟨f', rfl⟩ : ∃ f', f = f' + 1 := ⟨f - 1, by omega⟩
        have hG' := hG (m + 1) a hGa hex'
        rw [loopN_succ_of_true _ _ _ _ _ (by rw [hcond, hex']; rfl) (hbody m (stp a) f' hG')]
        rw [ih (stp a) f' hG' hT' (by omega)]
        simp only [walkA, hex', Bool.false_eq_true, if_false]
  intro m a f hGa hT hf
  cases m with
  | zero => exact absurd hT (by simp [TermA])
  | succ m =>
    rw [exec_doWhile, hbody m a f hGa, thenStep_norm]
    exact tail m a f hGa hT (by omega)

/-- while against `whileA`.  `fb`: fuel needed by one execution of the body. -/
theorem while_sim (Γ : List Ptr) (c : Expr) (body : Stmt) (S : α → State) (tst : α → Bool) (stp : α → α)
    (G : Nat → α → Prop) (fb : Nat)
    (hG : ∀ m b, G (m + 1) b → tst b = true → G m (stp b))
    (hzero : ∀ b, G 0 b → tst b = false)
    (hcond : ∀ m b, G m b → evalB Γ c (S b) = .ok (tst b))
    (hbody : ∀ m b f, G (m + 1) b → tst b = true → fb ≤ f → exec Γ body f (S b) = .ok (.norm, S (stp b))) :
    ∀ m b f, G m b → m + fb ≤ f →
      exec Γ (.while c body) f (S b) = .ok (.norm, S (whileA tst stp m b)) := by
  intro m
  induction m with
  | zero =>
    intro b f hGb _
    rw [exec_while, loopN_of_false _ _ _ _ (by rw [hcond 0 b hGb, hzero b hGb])]
    rfl
  | succ m ih =>
    intro b f hGb hf
    by_cases ht : tst b = true
    · obtain ⟨f', rfl⟩ : ∃ f', f = f' + 1 := ⟨f - 1, by omega⟩
      rw [exec_while, loopN_succ_of_true _ _ _ _ _ (by rw [hcond _ b hGb, ht]) (hbody m b f' hGb ht (by omega))]
      have := ih (stp b) f' (hG m b hGb ht) (by omega)
      rw [exec_while] at this
      rw [this]
      simp only [whileA, ht, if_true]
    · have ht' : tst b = false := by simpa using ht
      rw [exec_while, loopN_of_false _ _ _ _ (by rw [hcond _ b hGb, ht'])]
      simp only [whileA, ht', Bool.false_eq_true, if_false]

end Spq.CIR

namespace Spq.CIR
/-- A loop whose body either finishes the whole function (`return`: `Done`) or hands over to the next iteration
    (`Next`), against a fuel-indexed model `modelL`.  `rank` bounds the number of remaining iterations, `Inv` is
    an invariant of the loop-head states. -/
theorem loopN_levels {γ : Type} (c : State → R Bool) (step : Nat → State → Out) (S : γ → State)
    (Inv : γ → Prop) (cont : γ → Bool) (Done : γ → Mem → Prop) (Next : γ → γ → Prop) (modelL : Nat → γ → Mem)
    (rank : γ → Nat) (fb : Nat)
    (hcond : ∀ g, c (S g) = .ok (cont g))
    (hrank : ∀ g, Inv g → cont g = true → 1 ≤ rank g)
    (hstop : ∀ m g, cont g = false → modelL m g = (S g).mem)
    (hdone : ∀ m g M, cont g = true → Done g M → modelL (m + 1) g = M)
    (hnext : ∀ m g g', cont g = true → Next g g' → modelL (m + 1) g = modelL m g' ∧ rank g' + 1 ≤ rank g)
    (hstep : ∀ g, Inv g → cont g = true → ∀ f, fb ≤ f →
      (∃ σ', step f (S g) = .ok (.ret, σ') ∧ Done g σ'.mem) ∨
      (∃ g', step f (S g) = .ok (.norm, S g') ∧ Next g g' ∧ Inv g')) :
    ∀ m g f, Inv g → rank g ≤ m → rank g + fb ≤ f →
      ∃ fl σ', loopN c step f (S g) = .ok (fl, σ') ∧ σ'.mem = modelL m g := by
  intro m
  induction m with
  | zero =>
    intro g f hI hr _
    have hc' : cont g = false := by
      cases hc : cont g with
      | false => rfl
      | true => have := hrank g hI hc; omega
    exact ⟨.norm, S g, loopN_of_false _ _ _ _ (by rw [hcond, hc']), (hstop 0 g hc').symm⟩
  | succ m ih =>
    intro g f hI hr hf
    cases hc : cont g with
    | false => exact ⟨.norm, S g, loopN_of_false _ _ _ _ (by rw [hcond, hc]), (hstop _ g hc).symm⟩
    | true =>
      have h1 := hrank g hI hc
      obtain ⟨f', rfl⟩ : ∃ f', f = f' + 1 := ⟨f - 1, by omega⟩
      rcases hstep g hI hc f' (by omega) with ⟨σ', hs, hd⟩ | ⟨g', hs, hn, hI'⟩
      · refine ⟨.ret, σ', ?_, (hdone m g _ hc hd).symm⟩
        simp only [loopN, hcond, hc, hs]
      · obtain ⟨hm, hrk⟩ := hnext m g g' hc hn
        obtain ⟨fl, σ', h2, h3⟩ := ih g' f' hI' (by omega) (by omega)
        refine ⟨fl, σ', ?_, by rw [h3, hm]⟩
        rw [loopN_succ_of_true _ _ _ _ _ (by rw [hcond, hc]) hs]
        exact h2

/-- `loopN_levels` as an equation on the final memory -/
theorem memOf_loopN_levels {γ : Type} (c : State → R Bool) (step : Nat → State → Out) (S : γ → State)
    (Inv : γ → Prop) (cont : γ → Bool) (Done : γ → Mem → Prop) (Next : γ → γ → Prop) (modelL : Nat → γ → Mem)
    (rank : γ → Nat) (fb : Nat)
    (hcond : ∀ g, c (S g) = .ok (cont g))
    (hrank : ∀ g, Inv g → cont g = true → 1 ≤ rank g)
    (hstop : ∀ m g, cont g = false → modelL m g = (S g).mem)
    (hdone : ∀ m g M, cont g = true → Done g M → modelL (m + 1) g = M)
    (hnext : ∀ m g g', cont g = true → Next g g' → modelL (m + 1) g = modelL m g' ∧ rank g' + 1 ≤ rank g)
    (hstep : ∀ g, Inv g → cont g = true → ∀ f, fb ≤ f →
      (∃ σ', step f (S g) = .ok (.ret, σ') ∧ Done g σ'.mem) ∨
      (∃ g', step f (S g) = .ok (.norm, S g') ∧ Next g g' ∧ Inv g'))
    (m : Nat) (g : γ) (f : Nat) (hI : Inv g) (hr : rank g ≤ m) (hf : rank g + fb ≤ f) :
    memOf (loopN c step f (S g)) = .ok (modelL m g) := by
  obtain ⟨fl, σ', h1, h2⟩ := loopN_levels c step S Inv cont Done Next modelL rank fb hcond hrank hstop hdone hnext
    hstep m g f hI hr hf
  rw [h1, ← h2]
  rfl
end Spq.CIR
