/-
  C02 rounding budget, step 7: composition over the rows, in DFT space (abstract sequences).
  Rows `i < n`: exact transforms `Ā_i, B̄_i`, computed transforms `Â_i, B̂_i` (2-norm relative error `ε`), computed
  column `Ĉ(t) = Σ_i (Â_i(t)·B̂_i(t) + δ_i(t))` with `|δ_i(t)| ≤ μ·|Â_i(t)|·|B̂_i(t)|` (the backward-error form of the
  accumulation).  Then (Minkowski over the rows)
      ‖Ĉ − Σ_i Ā_i∘B̄_i‖₂² ≤ (f·ΣS_i)²·M,   ‖Σ_i Ā_i∘B̄_i‖₂² ≤ (ΣS_i/2)²·M,   f = fB ε μ (ε·t).
-/
import SpqProofs.Lemmas.ProdErrCompose
import SpqProofs.Lemmas.VmpErrPSum
import Mathlib.Tactic.Choose
set_option linter.unusedSectionVars false
namespace Spq.VmpErr
open Finset Spq.FftErr Spq.ProdErr
variable {K : Type} [Field K] [LinearOrder K] [IsStrictOrderedRing K]

theorem cre_sum (n : ℕ) (f : ℕ → Cplx K) : (∑ i ∈ range n, f i).re = ∑ i ∈ range n, (f i).re := by
  induction n with
  | zero => simp
  | succ n ih => rw [sum_range_succ, sum_range_succ, QuadraticAlgebra.re_add, ih]

theorem cim_sum (n : ℕ) (f : ℕ → Cplx K) : (∑ i ∈ range n, f i).im = ∑ i ∈ range n, (f i).im := by
  induction n with
  | zero => simp
  | succ n ih => rw [sum_range_succ, sum_range_succ, QuadraticAlgebra.im_add, ih]

/-- Minkowski over `n` summands -/
theorem sum_tri_range {ι : Type} (s : Finset ι) (n : ℕ) (f : ℕ → ι → Cplx K) (α : ℕ → K) (Y : K)
    (hα : ∀ i, i < n → 0 ≤ α i) (hf : ∀ i, i < n → ∑ t ∈ s, nsq (f i t) ≤ α i ^ 2 * Y) :
    ∑ t ∈ s, nsq (∑ i ∈ range n, f i t) ≤ (∑ i ∈ range n, α i) ^ 2 * Y := by
  induction n with
  | zero => simp
  | succ n ih =>
    have h1 := ih (fun i hi => hα i (by omega)) (fun i hi => hf i (by omega))
    have h0 : 0 ≤ ∑ i ∈ range n, α i := sum_nonneg (fun i hi => hα i (by have := mem_range.1 hi; omega))
    have := sum_tri s (fun t => ∑ i ∈ range n, f i t) (fun t => f n t) _ _ Y h0 (hα n (by omega)) h1 (hf n (by omega))
    simp only [sum_range_succ]
    exact this

/-- the row-wise composition -/
theorem vmp_dft_err (s : Finset ℕ) (n : ℕ) (Ab Bb Ah Bh : ℕ → ℕ → Cplx K) (Ch : ℕ → Cplx K)
    (ε μ M t : K) (na nb la lb : ℕ → K)
    (hε : 0 ≤ ε) (hμ : 0 ≤ μ) (hM : 0 ≤ M) (ht : 0 ≤ t) (hMt : M ≤ t ^ 2)
    (hna : ∀ i, i < n → 0 ≤ na i) (hnb : ∀ i, i < n → 0 ≤ nb i) (hla : ∀ i, i < n → 0 ≤ la i)
    (hlb : ∀ i, i < n → 0 ≤ lb i) (hnl : ∀ i, i < n → nb i ≤ lb i)
    (hA : ∀ i, i < n → ∑ j ∈ s, nsq (Ah i j - Ab i j) ≤ ε ^ 2 * ∑ j ∈ s, nsq (Ab i j))
    (hAn : ∀ i, i < n → ∑ j ∈ s, nsq (Ab i j) ≤ na i ^ 2 * M) (hAs : ∀ i, i < n → ∀ j ∈ s, nsq (Ab i j) ≤ la i ^ 2)
    (hB : ∀ i, i < n → ∑ j ∈ s, nsq (Bh i j - Bb i j) ≤ ε ^ 2 * ∑ j ∈ s, nsq (Bb i j))
    (hBn : ∀ i, i < n → ∑ j ∈ s, nsq (Bb i j) ≤ nb i ^ 2 * M) (hBs : ∀ i, i < n → ∀ j ∈ s, nsq (Bb i j) ≤ lb i ^ 2)
    (hC : ∀ j ∈ s, ∃ δ : ℕ → Cplx K, (∀ i, i < n → nsq (δ i) ≤ μ ^ 2 * (nsq (Ah i j) * nsq (Bh i j))) ∧
      Ch j = ∑ i ∈ range n, (Ah i j * Bh i j + δ i)) :
    ∑ j ∈ s, nsq (∑ i ∈ range n, Ab i j * Bb i j) ≤ ((∑ i ∈ range n, (la i * nb i + na i * lb i)) / 2) ^ 2 * M ∧
    ∑ j ∈ s, nsq (Ch j - ∑ i ∈ range n, Ab i j * Bb i j) ≤
      (fB ε μ (ε * t) * ∑ i ∈ range n, (la i * nb i + na i * lb i)) ^ 2 * M := by
  classical
  choose! δ hδ hCh using hC
  have row := fun i (hi : i < n) => dft_prod_err s (Ab i) (Bb i) (Ah i) (Bh i) (fun j => Ah i j * Bh i j + δ j i)
    ε μ (na i) (nb i) (la i) (lb i) M t hε hμ (hna i hi) (hnb i hi) (hla i hi) (hlb i hi) hM ht hMt (hnl i hi)
    (hA i hi) (hAn i hi) (hAs i hi) (hB i hi) (hBn i hi) (hBs i hi)
    (fun j hj => by rw [add_sub_cancel_left]; exact hδ j hj i hi)
  have hS : ∀ i, i < n → 0 ≤ la i * nb i + na i * lb i := fun i hi =>
    add_nonneg (mul_nonneg (hla i hi) (hnb i hi)) (mul_nonneg (hna i hi) (hlb i hi))
  have hf0 := fB_nonneg hε hμ (mul_nonneg hε ht)
  constructor
  · have := sum_tri_range s n (fun i j => Ab i j * Bb i j) (fun i => (la i * nb i + na i * lb i) / 2) M
      (fun i hi => by have := hS i hi; positivity) (fun i hi => (row i hi).1)
    simp only [div_eq_mul_inv, ← sum_mul] at this ⊢
    exact this
  · have := sum_tri_range s n (fun i j => (Ah i j * Bh i j + δ j i) - Ab i j * Bb i j)
      (fun i => fB ε μ (ε * t) * (la i * nb i + na i * lb i)) M
      (fun i hi => mul_nonneg hf0 (hS i hi)) (fun i hi => (row i hi).2)
    rw [← mul_sum] at this
    refine le_trans (le_of_eq ?_) this
    apply sum_congr rfl
    intro j hj
    rw [hCh j hj, sum_sub_distrib]

/-- two perturbed sums over ℚ (real and imaginary part) as ONE complex perturbed sum over `K` -/
theorem cplx_of_psum (n : ℕ) (a b c d : ℕ → ℚ) (g sr si : ℚ) (_hg : 0 ≤ g)
    (hr : PSum n (fun i => a i * c i - b i * d i) (fun i => |a i * c i| + |b i * d i|) (1 + g) sr)
    (hi : PSum n (fun i => a i * d i + b i * c i) (fun i => |a i * d i| + |b i * c i|) (1 + g) si) :
    ∃ δ : ℕ → Cplx K,
      (∀ i, i < n → nsq (δ i) ≤ (((3 / 2 * g : ℚ)) : K) ^ 2 *
        (nsq (⟨(a i : K), (b i : K)⟩ : Cplx K) * nsq (⟨(c i : K), (d i : K)⟩ : Cplx K))) ∧
      (⟨(sr : K), (si : K)⟩ : Cplx K) =
        ∑ i ∈ range n, ((⟨(a i : K), (b i : K)⟩ : Cplx K) * ⟨(c i : K), (d i : K)⟩ + δ i) := by
  obtain ⟨er, h1, h2⟩ := hr
  obtain ⟨ei, k1, k2⟩ := hi
  refine ⟨fun i => ⟨(er i : K), (ei i : K)⟩, ?_, ?_⟩
  · intro i hin
    have a1 := h1 i hin
    have a2 := k1 i hin
    rw [add_sub_cancel_left] at a1 a2
    have hq := FftErr.cprod_bound g (er i) (ei i) (a i) (b i) (c i) (d i) a1 a2
    have hq2 : er i ^ 2 + ei i ^ 2 ≤ (3 / 2 * g) ^ 2 * ((a i ^ 2 + b i ^ 2) * (c i ^ 2 + d i ^ 2)) := by
      refine le_trans hq ?_
      have h0 : 0 ≤ g ^ 2 * ((a i ^ 2 + b i ^ 2) * (c i ^ 2 + d i ^ 2)) := by positivity
      nlinarith
    have hK := (Rat.cast_le (K := K)).2 hq2
    simp only [nsq]
    push_cast at hK ⊢
    exact hK
  · apply QuadraticAlgebra.ext
    · rw [cre_sum]
      simp only [QuadraticAlgebra.re_add, QuadraticAlgebra.re_mul]
      rw [h2]
      push_cast
      apply sum_congr rfl
      intro i _
      ring
    · rw [cim_sum]
      simp only [QuadraticAlgebra.im_add, QuadraticAlgebra.im_mul]
      rw [k2]
      push_cast
      apply sum_congr rfl
      intro i _
      ring

end Spq.VmpErr
