/-
  Standard-model rounding-error analysis of the accumulating reim4 products (C17, `dot_err`).

  `StdModel ar u`: every operation of `ar` returns the exact result with relative error at most `u`
  (for binary64 without overflow/underflow: `u = 2^-53`).  For `n` accumulated products
      |computed − Σ x_i| ≤ ((1+u)^(n+2) − 1) · Σ (|a_i c_i| + |b_i d_i|)
  — the usual `γ_{n+2}`-type bound ("a few units of rounding" relative to `Σ|u_i||v_i|`).
-/
import SpqProofs.Lemmas.Reim4Kernels
import Mathlib.Tactic.Linarith
import Mathlib.Tactic.Ring
import Mathlib.Algebra.Order.Field.Basic
import Mathlib.Algebra.Order.Ring.Abs
import Mathlib.Algebra.Order.BigOperators.Group.Finset
import Mathlib.Algebra.BigOperators.Intervals
namespace Spq
open Finset
variable {K : Type} [Field K] [LinearOrder K] [IsStrictOrderedRing K]

/-- the standard model of floating-point arithmetic with unit roundoff `u` -/
structure StdModel (ar : RArith K) (u : K) : Prop where
  u_nonneg : 0 ≤ u
  zero : ar.zero = 0
  add : ∀ a b, |ar.add a b - (a + b)| ≤ u * |a + b|
  sub : ∀ a b, |ar.sub a b - (a - b)| ≤ u * |a - b|
  mul : ∀ a b, |ar.mul a b - a * b| ≤ u * |a * b|
  fma : ∀ a b c, |ar.fma a b c - (a * b + c)| ≤ u * |a * b + c|
  fms : ∀ a b c, |ar.fms a b c - (a * b - c)| ≤ u * |a * b - c|

namespace Reim4

/-- one accumulation step `A = fl(s + t)` -/
theorem step_err (u G s t X x M m A : K) (hu : 0 ≤ u) (hG : (1 + u) ^ 2 ≤ G)
    (hs : |s - X| ≤ (G - 1) * M) (hX : |X| ≤ M) (ht : |t - x| ≤ ((1 + u) ^ 2 - 1) * m) (hx : |x| ≤ m)
    (hA : |A - (s + t)| ≤ u * |s + t|) :
    |A - (X + x)| ≤ (G * (1 + u) - 1) * (M + m) := by
  have hM : 0 ≤ M := le_trans (abs_nonneg _) hX
  have hm : 0 ≤ m := le_trans (abs_nonneg _) hx
  have ht' : |t - x| ≤ (G - 1) * m := le_trans ht (mul_le_mul_of_nonneg_right (by linarith) hm)
  have hst : |s + t| ≤ |s - X| + |t - x| + M + m := by
    have : s + t = (s - X) + (t - x) + X + x := by ring
    rw [this]
    calc |(s - X) + (t - x) + X + x| ≤ |(s - X) + (t - x) + X| + |x| := abs_add_le _ _
      _ ≤ |(s - X) + (t - x)| + |X| + |x| := by linarith [abs_add_le ((s - X) + (t - x)) X]
      _ ≤ |s - X| + |t - x| + |X| + |x| := by linarith [abs_add_le (s - X) (t - x)]
      _ ≤ _ := by linarith
  have h1 : |A - (X + x)| ≤ |A - (s + t)| + (|s - X| + |t - x|) := by
    have : A - (X + x) = (A - (s + t)) + ((s - X) + (t - x)) := by ring
    rw [this]
    linarith [abs_add_le (A - (s + t)) ((s - X) + (t - x)), abs_add_le (s - X) (t - x)]
  have h2 : u * |s + t| ≤ u * (|s - X| + |t - x| + M + m) := mul_le_mul_of_nonneg_left hst hu
  have h3 : u * |s - X| ≤ u * ((G - 1) * M) := mul_le_mul_of_nonneg_left hs hu
  have h4 : u * |t - x| ≤ u * ((G - 1) * m) := mul_le_mul_of_nonneg_left ht' hu
  have : (G * (1 + u) - 1) * (M + m) = (G - 1) * M + (G - 1) * m + u * ((G - 1) * M) + u * ((G - 1) * m) + u * M + u * m := by ring
  rw [this]
  nlinarith [h1, h2, h3, h4, hs, ht', hA]

/-- one term `T = fl(fl(p·q) ∘ fl(r·s))`, `∘ ∈ {−, +}`, given as the exact combination `σ = ±1` -/
theorem term_err (u p q r s P Q T sg : K) (hu : 0 ≤ u) (hsg : sg = 1 ∨ sg = -1)
    (hP : |P - p * q| ≤ u * |p * q|) (hQ : |Q - r * s| ≤ u * |r * s|)
    (hT : |T - (P + sg * Q)| ≤ u * |P + sg * Q|) :
    |T - (p * q + sg * (r * s))| ≤ ((1 + u) ^ 2 - 1) * (|p * q| + |r * s|) ∧
    |p * q + sg * (r * s)| ≤ |p * q| + |r * s| := by
  have hsgabs : |sg| = 1 := by rcases hsg with h | h <;> simp [h]
  have e1 : |sg * Q| = |Q| := by rw [abs_mul, hsgabs, one_mul]
  have e2 : |sg * (r * s)| = |r * s| := by rw [abs_mul, hsgabs, one_mul]
  have e3 : |sg * (Q - r * s)| = |Q - r * s| := by rw [abs_mul, hsgabs, one_mul]
  have hPa : |P| ≤ |p * q| + u * |p * q| := by
    have : P = (P - p * q) + p * q := by ring
    calc |P| = |(P - p * q) + p * q| := by rw [← this]
      _ ≤ |P - p * q| + |p * q| := abs_add_le _ _
      _ ≤ _ := by linarith
  have hQa : |Q| ≤ |r * s| + u * |r * s| := by
    have : Q = (Q - r * s) + r * s := by ring
    calc |Q| = |(Q - r * s) + r * s| := by rw [← this]
      _ ≤ |Q - r * s| + |r * s| := abs_add_le _ _
      _ ≤ _ := by linarith
  have hPQ : |P + sg * Q| ≤ |P| + |Q| := by
    calc |P + sg * Q| ≤ |P| + |sg * Q| := abs_add_le _ _
      _ = _ := by rw [e1]
  constructor
  · have : T - (p * q + sg * (r * s)) = (T - (P + sg * Q)) + (P - p * q) + sg * (Q - r * s) := by ring
    rw [this]
    have h1 : |(T - (P + sg * Q)) + (P - p * q) + sg * (Q - r * s)| ≤ |T - (P + sg * Q)| + |P - p * q| + |Q - r * s| := by
      calc _ ≤ |(T - (P + sg * Q)) + (P - p * q)| + |sg * (Q - r * s)| := abs_add_le _ _
        _ ≤ |T - (P + sg * Q)| + |P - p * q| + |sg * (Q - r * s)| := by linarith [abs_add_le (T - (P + sg * Q)) (P - p * q)]
        _ = _ := by rw [e3]
    have h2 : u * |P + sg * Q| ≤ u * (|p * q| + u * |p * q| + (|r * s| + u * |r * s|)) :=
      mul_le_mul_of_nonneg_left (by linarith) hu
    have : ((1 + u) ^ 2 - 1) * (|p * q| + |r * s|) =
        u * (|p * q| + u * |p * q| + (|r * s| + u * |r * s|)) + u * |p * q| + u * |r * s| := by ring
    rw [this]
    linarith
  · calc |p * q + sg * (r * s)| ≤ |p * q| + |sg * (r * s)| := abs_add_le _ _
      _ = _ := by rw [e2]

/-- exact real part of the product of the complexes at `(uo, uo+4)` of `u` and `(vo, vo+4)` of `v` -/
def reX (z : K) (u v : Array K) (uo vo : Nat) : K := u.getD uo z * v.getD vo z - u.getD (uo + 4) z * v.getD (vo + 4) z
/-- its magnitude `|a·c| + |b·d|` -/
def reM (z : K) (u v : Array K) (uo vo : Nat) : K := |u.getD uo z * v.getD vo z| + |u.getD (uo + 4) z * v.getD (vo + 4) z|
/-- exact imaginary part -/
def imX (z : K) (u v : Array K) (uo vo : Nat) : K := u.getD uo z * v.getD (vo + 4) z + u.getD (uo + 4) z * v.getD vo z
/-- its magnitude `|a·d| + |b·c|` -/
def imM (z : K) (u v : Array K) (uo vo : Nat) : K := |u.getD uo z * v.getD (vo + 4) z| + |u.getD (uo + 4) z * v.getD vo z|

theorem reRef_err (ar : RArith K) (ε : K) (sm : StdModel ar ε) (a b c d : K) :
    |reRef ar a b c d - (a * c - b * d)| ≤ ((1 + ε) ^ 2 - 1) * (|a * c| + |b * d|) ∧ |a * c - b * d| ≤ |a * c| + |b * d| := by
  have h := term_err ε a c b d (ar.mul a c) (ar.mul b d) (reRef ar a b c d) (-1) sm.u_nonneg (Or.inr rfl)
    (sm.mul a c) (sm.mul b d)
    (by have := sm.sub (ar.mul a c) (ar.mul b d)
        have e : ar.mul a c + -1 * ar.mul b d = ar.mul a c - ar.mul b d := by ring
        rw [e]; exact this)
  have e : a * c + -1 * (b * d) = a * c - b * d := by ring
  rw [e] at h
  exact h

theorem imRef_err (ar : RArith K) (ε : K) (sm : StdModel ar ε) (a b c d : K) :
    |imRef ar a b c d - (a * d + b * c)| ≤ ((1 + ε) ^ 2 - 1) * (|a * d| + |b * c|) ∧ |a * d + b * c| ≤ |a * d| + |b * c| := by
  have h := term_err ε a d b c (ar.mul a d) (ar.mul b c) (imRef ar a b c d) 1 sm.u_nonneg (Or.inl rfl)
    (sm.mul a d) (sm.mul b c)
    (by have := sm.add (ar.mul a d) (ar.mul b c)
        rw [one_mul]; exact this)
  rw [one_mul] at h
  exact h

theorem abs_start_sum_le (s0 : K) (n : Nat) (x m : Nat → K) (h : ∀ t, |x t| ≤ m t) :
    |s0 + ∑ t ∈ range n, x t| ≤ |s0| + ∑ t ∈ range n, m t := by
  calc |s0 + ∑ t ∈ range n, x t| ≤ |s0| + |∑ t ∈ range n, x t| := abs_add_le _ _
    _ ≤ |s0| + ∑ t ∈ range n, |x t| := by linarith [abs_sum_le_sum_abs x (range n)]
    _ ≤ _ := by linarith [sum_le_sum (s := range n) (fun t _ => h t)]

/-- `n` successive `reim4_add_mul` into block `d`: error of the real cell `d+k` and of the imaginary cell `d+k+4` -/
theorem accum_err (ar : RArith K) (ε : K) (sm : StdModel ar ε) (n d : Nat) (uo vo : Nat → Nat) (dst u v : Array K)
    (hb : d + 8 ≤ dst.size) (k : Nat) (hk : k < 4) :
    (Nat.fold n (fun t _ dst => addMulAt ar dst d u (uo t) v (vo t)) dst).size = dst.size ∧
    |(Nat.fold n (fun t _ dst => addMulAt ar dst d u (uo t) v (vo t)) dst).getD (d + k) ar.zero -
        (dst.getD (d + k) ar.zero + ∑ t ∈ range n, reX ar.zero u v (uo t + k) (vo t + k))| ≤
      ((1 + ε) ^ (n + 2) - 1) * (|dst.getD (d + k) ar.zero| + ∑ t ∈ range n, reM ar.zero u v (uo t + k) (vo t + k)) ∧
    |(Nat.fold n (fun t _ dst => addMulAt ar dst d u (uo t) v (vo t)) dst).getD (d + k + 4) ar.zero -
        (dst.getD (d + k + 4) ar.zero + ∑ t ∈ range n, imX ar.zero u v (uo t + k) (vo t + k))| ≤
      ((1 + ε) ^ (n + 2) - 1) * (|dst.getD (d + k + 4) ar.zero| + ∑ t ∈ range n, imM ar.zero u v (uo t + k) (vo t + k)) := by
  have h1u : (1 : K) ≤ 1 + ε := by linarith [sm.u_nonneg]
  induction n with
  | zero =>
    refine ⟨rfl, ?_, ?_⟩
    · simp only [Nat.fold_zero, sum_range_zero, add_zero, sub_self, abs_zero]
      have : (1 : K) ≤ (1 + ε) ^ (0 + 2) := one_le_pow₀ h1u
      exact mul_nonneg (by linarith) (abs_nonneg _)
    · simp only [Nat.fold_zero, sum_range_zero, add_zero, sub_self, abs_zero]
      have : (1 : K) ≤ (1 + ε) ^ (0 + 2) := one_le_pow₀ h1u
      exact mul_nonneg (by linarith) (abs_nonneg _)
  | succ n ih =>
    rw [Nat.fold_succ]
    generalize Nat.fold n (fun t _ dst => addMulAt ar dst d u (uo t) v (vo t)) dst = rn at ih
    obtain ⟨ihs, ihre, ihim⟩ := ih
    obtain ⟨s1, s2, _⟩ := addMulAt_spec ar rn d u (uo n) v (vo n) (by omega)
    obtain ⟨v1, v2⟩ := s2 k hk
    have hG : (1 + ε) ^ 2 ≤ (1 + ε) ^ (n + 2) := pow_le_pow_right₀ h1u (by omega)
    have hpow : (1 + ε) ^ (n + 1 + 2) = (1 + ε) ^ (n + 2) * (1 + ε) := by rw [pow_succ]
    refine ⟨by rw [s1, ihs], ?_, ?_⟩
    · obtain ⟨t1, t2⟩ := reRef_err ar ε sm (u.getD (uo n + k) ar.zero) (u.getD (uo n + k + 4) ar.zero)
        (v.getD (vo n + k) ar.zero) (v.getD (vo n + k + 4) ar.zero)
      have hX := abs_start_sum_le (dst.getD (d + k) ar.zero) n (fun t => reX ar.zero u v (uo t + k) (vo t + k))
        (fun t => reM ar.zero u v (uo t + k) (vo t + k))
        (fun t => (reRef_err ar ε sm (u.getD (uo t + k) ar.zero) (u.getD (uo t + k + 4) ar.zero)
          (v.getD (vo t + k) ar.zero) (v.getD (vo t + k + 4) ar.zero)).2)
      have := step_err ε ((1 + ε) ^ (n + 2)) (rn.getD (d + k) ar.zero) _ _ _ _ _ _ sm.u_nonneg hG ihre hX t1 t2
        (sm.add (rn.getD (d + k) ar.zero) _)
      rw [v1, sum_range_succ, sum_range_succ, hpow, ← add_assoc, ← add_assoc]
      exact this
    · obtain ⟨t1, t2⟩ := imRef_err ar ε sm (u.getD (uo n + k) ar.zero) (u.getD (uo n + k + 4) ar.zero)
        (v.getD (vo n + k) ar.zero) (v.getD (vo n + k + 4) ar.zero)
      have hX := abs_start_sum_le (dst.getD (d + k + 4) ar.zero) n (fun t => imX ar.zero u v (uo t + k) (vo t + k))
        (fun t => imM ar.zero u v (uo t + k) (vo t + k))
        (fun t => (imRef_err ar ε sm (u.getD (uo t + k) ar.zero) (u.getD (uo t + k + 4) ar.zero)
          (v.getD (vo t + k) ar.zero) (v.getD (vo t + k + 4) ar.zero)).2)
      have := step_err ε ((1 + ε) ^ (n + 2)) (rn.getD (d + k + 4) ar.zero) _ _ _ _ _ _ sm.u_nonneg hG ihim hX t1 t2
        (sm.add (rn.getD (d + k + 4) ar.zero) _)
      rw [v2, sum_range_succ, sum_range_succ, hpow, ← add_assoc, ← add_assoc]
      exact this

/-! ### the AVX2 one-column product: four FMA chains, combined at the end -/

/-- `s_0 = 0`, `s_{i+1} = fma(p_i, q_i, s_i)` -/
def fmaChain (ar : RArith K) (p q : Nat → K) : Nat → K
  | 0 => ar.zero
  | n + 1 => ar.fma (p n) (q n) (fmaChain ar p q n)

theorem fmaChain_err (ar : RArith K) (ε : K) (sm : StdModel ar ε) (p q : Nat → K) (n : Nat) :
    |fmaChain ar p q n - ∑ i ∈ range n, p i * q i| ≤ ((1 + ε) ^ n - 1) * ∑ i ∈ range n, |p i * q i| := by
  have hε := sm.u_nonneg
  have h1u : (1 : K) ≤ 1 + ε := by linarith
  induction n with
  | zero => simp [fmaChain, sm.zero]
  | succ n ih =>
    rw [fmaChain, sum_range_succ, sum_range_succ, pow_succ]
    have hf := sm.fma (p n) (q n) (fmaChain ar p q n)
    have hX : |∑ i ∈ range n, p i * q i| ≤ ∑ i ∈ range n, |p i * q i| := abs_sum_le_sum_abs _ _
    have hM : 0 ≤ ∑ i ∈ range n, |p i * q i| := sum_nonneg (fun i _ => abs_nonneg _)
    have hG : (1 : K) ≤ (1 + ε) ^ n := one_le_pow₀ h1u
    set s := fmaChain ar p q n
    set X := ∑ i ∈ range n, p i * q i
    set M := ∑ i ∈ range n, |p i * q i|
    set x := p n * q n
    set A := ar.fma (p n) (q n) s
    set G := (1 + ε) ^ n
    have hs : |x + s| ≤ |x| + |s - X| + M := by
      have : x + s = x + (s - X) + X := by ring
      rw [this]
      linarith [abs_add_le (x + (s - X)) X, abs_add_le x (s - X)]
    have h1 : |A - (X + x)| ≤ |A - (x + s)| + |s - X| := by
      have : A - (X + x) = (A - (x + s)) + (s - X) := by ring
      rw [this]; exact abs_add_le _ _
    have h2 : ε * |x + s| ≤ ε * (|x| + |s - X| + M) := mul_le_mul_of_nonneg_left hs hε
    have h3 : ε * |s - X| ≤ ε * ((G - 1) * M) := mul_le_mul_of_nonneg_left ih hε
    have h4 : 0 ≤ (G - 1) * |x| := mul_nonneg (by linarith) (abs_nonneg _)
    have h5 : 0 ≤ ε * ((G - 1) * |x|) := mul_nonneg hε h4
    have : (G * (1 + ε) - 1) * (M + |x|) = (G - 1) * M + ε * ((G - 1) * M) + ε * M + ε * |x| + (G - 1) * |x| + ε * ((G - 1) * |x|) := by ring
    rw [this]
    linarith

omit [Field K] [LinearOrder K] [IsStrictOrderedRing K] in
/-- lanes of the four accumulators of `reim4_vec_mat1col_product_avx2` after `n` rows, for any arithmetic -/
theorem mat1colAvx2_chain (ar : RArith K) (n : Nat) (u v : Array K) (l : Nat) (hl : l < 4) :
    let acc := Nat.fold n (fun i _ s => vecMat1colAvx2Step ar u v i s)
      (V4.splat ar.zero, V4.splat ar.zero, V4.splat ar.zero, V4.splat ar.zero)
    acc.1.lane l = fmaChain ar (fun i => u.getD (8 * i + l) ar.zero) (fun i => v.getD (8 * i + l) ar.zero) n ∧
    acc.2.1.lane l = fmaChain ar (fun i => u.getD (8 * i + 4 + l) ar.zero) (fun i => v.getD (8 * i + 4 + l) ar.zero) n ∧
    acc.2.2.1.lane l = fmaChain ar (fun i => u.getD (8 * i + l) ar.zero) (fun i => v.getD (8 * i + 4 + l) ar.zero) n ∧
    acc.2.2.2.lane l = fmaChain ar (fun i => u.getD (8 * i + 4 + l) ar.zero) (fun i => v.getD (8 * i + l) ar.zero) n := by
  induction n with
  | zero => simp [Nat.fold_zero, V4.lane_splat, fmaChain]
  | succ n ih =>
    simp only [Nat.fold_succ]
    generalize Nat.fold n (fun i _ s => vecMat1colAvx2Step ar u v i s)
      (V4.splat ar.zero, V4.splat ar.zero, V4.splat ar.zero, V4.splat ar.zero) = s at ih
    obtain ⟨re1, re2, im1, im2⟩ := s
    obtain ⟨h1, h2, h3, h4⟩ := ih
    simp only at h1 h2 h3 h4
    simp only [vecMat1colAvx2Step, V4.fmadd, V4.lane_map3, V4.lane_load _ _ _ _ hl, fmaChain, h1, h2, h3, h4, and_self]

/-- final combination `fl(s1 ∘ s2)` of two chains (`sg = -1`: real part, `sg = 1`: imaginary part) -/
theorem combine_err (ε G s1 s2 X1 X2 M1 M2 A sg : K) (hε : 0 ≤ ε) (hsg : sg = 1 ∨ sg = -1)
    (h1 : |s1 - X1| ≤ (G - 1) * M1) (h2 : |s2 - X2| ≤ (G - 1) * M2) (hX1 : |X1| ≤ M1) (hX2 : |X2| ≤ M2)
    (hA : |A - (s1 + sg * s2)| ≤ ε * |s1 + sg * s2|) :
    |A - (X1 + sg * X2)| ≤ (G * (1 + ε) - 1) * (M1 + M2) := by
  have hsgabs : |sg| = 1 := by rcases hsg with h | h <;> simp [h]
  have e1 : |sg * (s2 - X2)| = |s2 - X2| := by rw [abs_mul, hsgabs, one_mul]
  have e2 : |sg * X2| = |X2| := by rw [abs_mul, hsgabs, one_mul]
  have hs : |s1 + sg * s2| ≤ |s1 - X1| + |s2 - X2| + M1 + M2 := by
    have : s1 + sg * s2 = (s1 - X1) + sg * (s2 - X2) + X1 + sg * X2 := by ring
    rw [this]
    linarith [abs_add_le ((s1 - X1) + sg * (s2 - X2) + X1) (sg * X2), abs_add_le ((s1 - X1) + sg * (s2 - X2)) X1,
      abs_add_le (s1 - X1) (sg * (s2 - X2))]
  have hd : |A - (X1 + sg * X2)| ≤ |A - (s1 + sg * s2)| + |s1 - X1| + |s2 - X2| := by
    have : A - (X1 + sg * X2) = (A - (s1 + sg * s2)) + (s1 - X1) + sg * (s2 - X2) := by ring
    rw [this]
    linarith [abs_add_le ((A - (s1 + sg * s2)) + (s1 - X1)) (sg * (s2 - X2)), abs_add_le (A - (s1 + sg * s2)) (s1 - X1)]
  have k2 : ε * |s1 + sg * s2| ≤ ε * (|s1 - X1| + |s2 - X2| + M1 + M2) := mul_le_mul_of_nonneg_left hs hε
  have k3 : ε * |s1 - X1| ≤ ε * ((G - 1) * M1) := mul_le_mul_of_nonneg_left h1 hε
  have k4 : ε * |s2 - X2| ≤ ε * ((G - 1) * M2) := mul_le_mul_of_nonneg_left h2 hε
  have : (G * (1 + ε) - 1) * (M1 + M2) =
      (G - 1) * M1 + (G - 1) * M2 + ε * ((G - 1) * M1) + ε * ((G - 1) * M2) + ε * M1 + ε * M2 := by ring
  rw [this]
  linarith

end Reim4
end Spq
