/-
  No-overflow from a magnitude box, step 9: the accumulation recurrences of `VmpErrDot.lean` on the bound arithmetic.
  Row data bounded by `Ua` (vector) and `Ub` (matrix), `P = Ua·Ub`, `n` rows: every accumulation order has bound-flag
  `True` and bound `≤ 12·P·(n+1)` provided `(1+u)^(2n) ≤ 4` and `12·P·(n+1) < 2^1023`.
-/
import SpqProofs.Lemmas.VmpErrOvf6
import SpqProofs.Lemmas.VmpErrDot
set_option linter.unusedSectionVars false
namespace Spq.VmpErr
open Spq Spq.F64 Spq.Reim4

theorem bd_addk {U1 U2 : ℚ} {x y : ℚ × Prop} (hx : Bd U1 x) (hy : Bd U2 y) (hlt : U1 + U2 < Tov) :
    Bd ((U1 + U2) * kap) (arithB.add x y) ∧ Bd ((U1 + U2) * kap) (arithB.sub x y) := by
  obtain ⟨p1, n1, b1⟩ := hx
  obtain ⟨p2, n2, b2⟩ := hy
  have a : Bd ((U1 + U2) * kap) (((x.1 + y.1) * kap, x.2 ∧ y.2 ∧ x.1 + y.1 < Tov) : ℚ × Prop) :=
    ⟨⟨p1, p2, by linarith⟩, mul_nonneg (add_nonneg n1 n2) (le_of_lt kap_pos),
      mul_le_mul_of_nonneg_right (add_le_add b1 b2) (le_of_lt kap_pos)⟩
  exact ⟨a, a⟩

theorem bd_fmak {U1 U2 U3 : ℚ} {x y z : ℚ × Prop} (hx : Bd U1 x) (hy : Bd U2 y) (hz : Bd U3 z)
    (hlt : U1 * U2 + U3 < Tov) :
    Bd ((U1 * U2 + U3) * kap) (arithB.fma x y z) ∧ Bd ((U1 * U2 + U3) * kap) (arithB.fms x y z) := by
  obtain ⟨p1, n1, b1⟩ := hx
  obtain ⟨p2, n2, b2⟩ := hy
  obtain ⟨p3, n3, b3⟩ := hz
  have h1 : x.1 * y.1 ≤ U1 * U2 := mul_le_mul b1 b2 n2 (le_trans n1 b1)
  have a : Bd ((U1 * U2 + U3) * kap) (((x.1 * y.1 + z.1) * kap, x.2 ∧ y.2 ∧ z.2 ∧ x.1 * y.1 + z.1 < Tov) : ℚ × Prop) :=
    ⟨⟨p1, p2, p3, by linarith⟩, mul_nonneg (add_nonneg (mul_nonneg n1 n2) n3) (le_of_lt kap_pos),
      mul_le_mul_of_nonneg_right (add_le_add h1 b3) (le_of_lt kap_pos)⟩
  exact ⟨a, a⟩

/-- the closed form of the bound after `i` rows -/
def accB (P : ℚ) (c0 i : ℕ) : ℚ := 3 * P * ((i : ℚ) + c0) * kap ^ (2 * i)

theorem accB_nonneg (P : ℚ) (hP : 0 ≤ P) (c0 i : ℕ) : 0 ≤ accB P c0 i := by
  unfold accB
  have := kap_pos
  positivity

/-- one accumulation step in closed form: `(U + t)·κ^e ≤ accB (i+1)` for `U ≤ accB i`, `t ≤ 3P`, `e ≤ 2` -/
theorem acc_step (P : ℚ) (hP : 0 ≤ P) (c0 i : ℕ) (U t : ℚ) (hU : U ≤ accB P c0 i) (ht : t ≤ 3 * P) :
    U + t ≤ 3 * P * ((i : ℚ) + 1 + c0) * kap ^ (2 * i) ∧
    (U + t) * kap ≤ accB P c0 (i + 1) ∧ (U + t) * kap * kap ≤ accB P c0 (i + 1) := by
  have hk1 := kap_ge
  have hG : (1 : ℚ) ≤ kap ^ (2 * i) := one_le_pow₀ hk1
  have h1 : U + t ≤ 3 * P * ((i : ℚ) + 1 + c0) * kap ^ (2 * i) := by
    unfold accB at hU
    have : t ≤ 3 * P * kap ^ (2 * i) := le_trans ht (by nlinarith)
    nlinarith
  have e : accB P c0 (i + 1) = 3 * P * ((i : ℚ) + 1 + c0) * kap ^ (2 * i) * kap * kap := by
    unfold accB
    rw [show 2 * (i + 1) = 2 * i + 1 + 1 by ring, pow_succ, pow_succ]
    push_cast; ring
  have h0 : 0 ≤ 3 * P * ((i : ℚ) + 1 + c0) * kap ^ (2 * i) := by
    have := kap_pos; positivity
  refine ⟨h1, ?_, ?_⟩
  · rw [e]
    have a1 : (U + t) * kap ≤ 3 * P * ((i : ℚ) + 1 + c0) * kap ^ (2 * i) * kap :=
      mul_le_mul_of_nonneg_right h1 (le_of_lt kap_pos)
    have a2 : 3 * P * ((i : ℚ) + 1 + c0) * kap ^ (2 * i) * kap ≤ 3 * P * ((i : ℚ) + 1 + c0) * kap ^ (2 * i) * kap * kap := by
      have : 0 ≤ 3 * P * ((i : ℚ) + 1 + c0) * kap ^ (2 * i) * kap := mul_nonneg h0 (le_of_lt kap_pos)
      nlinarith
    linarith
  · rw [e]
    exact mul_le_mul_of_nonneg_right (mul_le_mul_of_nonneg_right h1 (le_of_lt kap_pos)) (le_of_lt kap_pos)

/-- the closed form stays below the final bound -/
theorem accB_le (P : ℚ) (hP : 0 ≤ P) (c0 j i n : ℕ) (hjn : j ≤ n) (hin : i ≤ n) (hκ : kap ^ (2 * n) ≤ 4) :
    3 * P * ((j : ℚ) + c0) * kap ^ (2 * i) ≤ 12 * P * ((n : ℚ) + c0) := by
  have hG : kap ^ (2 * i) ≤ 4 := le_trans (pow_le_pow_right₀ kap_ge (by omega)) hκ
  have h1 : (j : ℚ) ≤ n := by exact_mod_cast hjn
  have hc0 : (0 : ℚ) ≤ (c0 : ℚ) := Nat.cast_nonneg c0
  have hj0 : (0 : ℚ) ≤ (j : ℚ) := Nat.cast_nonneg j
  have h2 : (0 : ℚ) ≤ 3 * P * ((j : ℚ) + c0) := by positivity
  have h4 : 3 * P * ((j : ℚ) + c0) * kap ^ (2 * i) ≤ 3 * P * ((j : ℚ) + c0) * 4 := mul_le_mul_of_nonneg_left hG h2
  have h5 : 3 * P * ((j : ℚ) + c0) * 4 ≤ 12 * P * ((n : ℚ) + c0) := by nlinarith
  linarith

section
variable (a b c d : ℕ → ℚ × Prop) (Ua Ub : ℚ) (hUa : 0 ≤ Ua) (hUb : 0 ≤ Ub)
  (ha : ∀ i, Bd Ua (a i)) (hb : ∀ i, Bd Ua (b i)) (hc : ∀ i, Bd Ub (c i)) (hd : ∀ i, Bd Ub (d i))
include hUa hUb ha hb hc hd

/-- one product term (reference: two products and a subtraction / addition): bounded by `3·P` -/
theorem term_bd (hT : 3 * (Ua * Ub) < Tov) (i : ℕ) :
    Bd (3 * (Ua * Ub)) (reRef arithB (a i) (b i) (c i) (d i)) ∧ Bd (3 * (Ua * Ub)) (imRef arithB (a i) (b i) (c i) (d i)) := by
  have hP : 0 ≤ Ua * Ub := mul_nonneg hUa hUb
  have m1 := bd_mul (V := 9 / 8 * (Ua * Ub)) (ha i) (hc i) (by linarith) (by linarith)
  have m2 := bd_mul (V := 9 / 8 * (Ua * Ub)) (hb i) (hd i) (by linarith) (by linarith)
  have m3 := bd_mul (V := 9 / 8 * (Ua * Ub)) (ha i) (hd i) (by linarith) (by linarith)
  have m4 := bd_mul (V := 9 / 8 * (Ua * Ub)) (hb i) (hc i) (by linarith) (by linarith)
  exact ⟨bd_sub m1 m2 (by linarith) (by linarith), bd_add m3 m4 (by linarith) (by linarith)⟩

theorem ref_bd (n : ℕ) (hκ : kap ^ (2 * n) ≤ 4) (hT : 12 * (Ua * Ub) * ((n : ℚ) + 1) < Tov) (i : ℕ) (hi : i ≤ n) :
    Bd (accB (Ua * Ub) 0 i) (refRe arithB a b c d i) ∧ Bd (accB (Ua * Ub) 0 i) (refIm arithB a b c d i) := by
  have hP : 0 ≤ Ua * Ub := mul_nonneg hUa hUb
  have hn0 : (0 : ℚ) ≤ n := Nat.cast_nonneg n
  have hT3 : 3 * (Ua * Ub) < Tov := lt_of_le_of_lt (by nlinarith) hT
  induction i with
  | zero =>
    have z : Bd (accB (Ua * Ub) 0 0) ((0, True) : ℚ × Prop) := ⟨trivial, le_refl _, accB_nonneg _ hP 0 0⟩
    exact ⟨z, z⟩
  | succ i ih =>
    obtain ⟨i1, i2⟩ := ih (by omega)
    obtain ⟨t1, t2⟩ := term_bd a b c d Ua Ub hUa hUb ha hb hc hd hT3 i
    obtain ⟨s1, s2, _⟩ := acc_step (Ua * Ub) hP 0 i _ _ (le_refl _) (le_refl (3 * (Ua * Ub)))
    have hlt : accB (Ua * Ub) 0 i + 3 * (Ua * Ub) < Tov := by
      have b1 := accB_le (Ua * Ub) hP 0 (i + 1) i n (by omega) (by omega) hκ
      push_cast at b1
      have b2 : 12 * (Ua * Ub) * ((n : ℚ) + (0 : ℕ)) ≤ 12 * (Ua * Ub) * ((n : ℚ) + 1) := by
        push_cast; nlinarith
      push_cast at b2 s1
      exact lt_of_le_of_lt (le_trans s1 (le_trans b1 b2)) hT
    rw [refRe, refIm]
    exact ⟨((bd_addk i1 t1 hlt).1).mono s2, ((bd_addk i2 t2 hlt).1).mono s2⟩


theorem sm_bd (n : ℕ) (hκ : kap ^ (2 * n) ≤ 4) (hT : 12 * (Ua * Ub) * ((n : ℚ) + 1) < Tov) (k : ℕ) (hk : k ≤ n) :
    Bd (accB (Ua * Ub) 1 k) (smRe arithB a b c d k) ∧ Bd (accB (Ua * Ub) 1 k) (smIm arithB a b c d k) := by
  have hP : 0 ≤ Ua * Ub := mul_nonneg hUa hUb
  have hn0 : (0 : ℚ) ≤ n := Nat.cast_nonneg n
  have hT3 : 3 * (Ua * Ub) < Tov := lt_of_le_of_lt (by nlinarith) hT
  induction k with
  | zero =>
    obtain ⟨t1, t2⟩ := term_bd a b c d Ua Ub hUa hUb ha hb hc hd hT3 0
    have e : accB (Ua * Ub) 1 0 = 3 * (Ua * Ub) := by unfold accB; simp
    rw [smRe, smIm, e]
    exact ⟨t1, t2⟩
  | succ k ih =>
    obtain ⟨i1, i2⟩ := ih (by omega)
    obtain ⟨t1, t2⟩ := term_bd a b c d Ua Ub hUa hUb ha hb hc hd hT3 (k + 1)
    obtain ⟨s1, s2, _⟩ := acc_step (Ua * Ub) hP 1 k _ _ (le_refl _) (le_refl (3 * (Ua * Ub)))
    have hlt : accB (Ua * Ub) 1 k + 3 * (Ua * Ub) < Tov := by
      have b1 := accB_le (Ua * Ub) hP 1 (k + 1) k n (by omega) (by omega) hκ
      push_cast at b1 s1
      exact lt_of_le_of_lt (le_trans s1 b1) hT
    rw [smRe, smIm]
    exact ⟨((bd_addk i1 t1 hlt).1).mono s2, ((bd_addk i2 t2 hlt).1).mono s2⟩

omit hb hd in
/-- an FMA chain `Σ p_i·q_i` -/
theorem chain_bd (n : ℕ) (hκ : kap ^ (2 * n) ≤ 4) (hT : 12 * (Ua * Ub) * ((n : ℚ) + 1) < Tov) (i : ℕ) (hi : i ≤ n) :
    Bd (accB (Ua * Ub) 0 i) (fmaChain arithB a c i) := by
  have hP : 0 ≤ Ua * Ub := mul_nonneg hUa hUb
  induction i with
  | zero => exact ⟨trivial, le_refl _, accB_nonneg _ hP 0 0⟩
  | succ i ih =>
    have i1 := ih (by omega)
    obtain ⟨s1, s2, _⟩ := acc_step (Ua * Ub) hP 0 i _ (Ua * Ub) (le_refl _) (by linarith)
    have hlt : Ua * Ub + accB (Ua * Ub) 0 i < Tov := by
      have b1 := accB_le (Ua * Ub) hP 0 (i + 1) i n (by omega) (by omega) hκ
      have hn0 : (0 : ℚ) ≤ n := Nat.cast_nonneg n
      have b2 : 12 * (Ua * Ub) * ((n : ℚ) + (0 : ℕ)) ≤ 12 * (Ua * Ub) * ((n : ℚ) + 1) := by
        push_cast; nlinarith
      push_cast at b1 b2 s1
      rw [add_comm]
      exact lt_of_le_of_lt (le_trans s1 (le_trans b1 b2)) hT
    rw [fmaChain]
    have := (bd_fmak (ha i) (hc i) i1 hlt).1
    rw [add_comm (Ua * Ub)] at this
    exact this.mono s2

theorem av2_bd (n : ℕ) (hκ : kap ^ (2 * n) ≤ 4) (hT : 32 * (Ua * Ub) * ((n : ℚ) + 1) < Tov) (i : ℕ) (hi : i ≤ n) :
    Bd (accB (Ua * Ub) 0 i) (av2Re arithB a b c d i) ∧ Bd (accB (Ua * Ub) 0 i) (av2Im arithB a b c d i) := by
  have hP : 0 ≤ Ua * Ub := mul_nonneg hUa hUb
  have hn0 : (0 : ℚ) ≤ n := Nat.cast_nonneg n
  have hk1 := kap_ge
  have hk2 := kap_le
  induction i with
  | zero =>
    have z : Bd (accB (Ua * Ub) 0 0) ((0, True) : ℚ × Prop) := ⟨trivial, le_refl _, accB_nonneg _ hP 0 0⟩
    exact ⟨z, z⟩
  | succ i ih =>
    obtain ⟨i1, i2⟩ := ih (by omega)
    obtain ⟨s1, _, s3⟩ := acc_step (Ua * Ub) hP 0 i (accB (Ua * Ub) 0 i) (2 * (Ua * Ub)) (le_refl _) (by linarith)
    have hS0 := accB_nonneg (Ua * Ub) hP 0 i
    have b1 := accB_le (Ua * Ub) hP 0 (i + 1) i n (by omega) (by omega) hκ
    push_cast at b1 s1
    have hS : accB (Ua * Ub) 0 i + 2 * (Ua * Ub) ≤ 12 * (Ua * Ub) * (n : ℚ) := by
      have := le_trans s1 b1; linarith
    have hlt1 : Ua * Ub + accB (Ua * Ub) 0 i < Tov := lt_of_le_of_lt (by nlinarith) hT
    have hlt2 : Ua * Ub + (Ua * Ub + accB (Ua * Ub) 0 i) * kap < Tov := by
      have : (Ua * Ub + accB (Ua * Ub) 0 i) * kap ≤ (Ua * Ub + accB (Ua * Ub) 0 i) * (9 / 8) :=
        mul_le_mul_of_nonneg_left hk2 (by linarith)
      exact lt_of_le_of_lt (by nlinarith) hT
    have hfin : (Ua * Ub + (Ua * Ub + accB (Ua * Ub) 0 i) * kap) * kap ≤ accB (Ua * Ub) 0 (i + 1) := by
      refine le_trans ?_ s3
      have : Ua * Ub + (Ua * Ub + accB (Ua * Ub) 0 i) * kap ≤ (accB (Ua * Ub) 0 i + 2 * (Ua * Ub)) * kap := by nlinarith
      exact mul_le_mul_of_nonneg_right this (le_of_lt kap_pos)
    rw [av2Re, av2Im]
    constructor
    · have r1 := (bd_fmak (hb i) (hd i) i1 hlt1).2
      have r2 := (bd_fmak (ha i) (hc i) r1 hlt2).2
      exact r2.mono hfin
    · have r1 := (bd_fmak (ha i) (hd i) i2 hlt1).1
      have r2 := (bd_fmak (hb i) (hc i) r1 hlt2).1
      exact r2.mono hfin

/-- **all accumulation orders on the bound arithmetic**: flag `True`, bound `32·P·(n+1)` -/
theorem dot_bd (Kd : DotK) (n : ℕ) (hn : Kd = .sm → 1 ≤ n) (hκ : kap ^ (2 * n) ≤ 4)
    (hT : 32 * (Ua * Ub) * ((n : ℚ) + 1) < Tov) :
    Bd (32 * (Ua * Ub) * ((n : ℚ) + 1)) (dotRe arithB Kd a b c d n) ∧
    Bd (32 * (Ua * Ub) * ((n : ℚ) + 1)) (dotIm arithB Kd a b c d n) := by
  have hP : 0 ≤ Ua * Ub := mul_nonneg hUa hUb
  have hn0 : (0 : ℚ) ≤ n := Nat.cast_nonneg n
  have hT12 : 12 * (Ua * Ub) * ((n : ℚ) + 1) < Tov := lt_of_le_of_lt (by nlinarith) hT
  have fin0 : accB (Ua * Ub) 0 n ≤ 12 * (Ua * Ub) * (n : ℚ) := by
    have := accB_le (Ua * Ub) hP 0 n n n (le_refl _) (le_refl _) hκ
    push_cast at this
    unfold accB; push_cast; linarith
  cases Kd with
  | ref =>
    obtain ⟨r1, r2⟩ := ref_bd a b c d Ua Ub hUa hUb ha hb hc hd n hκ hT12 n (le_refl _)
    exact ⟨r1.mono (by nlinarith), r2.mono (by nlinarith)⟩
  | av1 =>
    have c1 := chain_bd a c Ua Ub hUa hUb ha hc n hκ hT12 n (le_refl _)
    have c2 := chain_bd b d Ua Ub hUa hUb hb hd n hκ hT12 n (le_refl _)
    have c3 := chain_bd a d Ua Ub hUa hUb ha hd n hκ hT12 n (le_refl _)
    have c4 := chain_bd b c Ua Ub hUa hUb hb hc n hκ hT12 n (le_refl _)
    have hlt : accB (Ua * Ub) 0 n + accB (Ua * Ub) 0 n < Tov := lt_of_le_of_lt (by nlinarith) hT
    have hk2 := kap_le
    have hS0 := accB_nonneg (Ua * Ub) hP 0 n
    have hfin : (accB (Ua * Ub) 0 n + accB (Ua * Ub) 0 n) * kap ≤ 32 * (Ua * Ub) * ((n : ℚ) + 1) := by
      have : (accB (Ua * Ub) 0 n + accB (Ua * Ub) 0 n) * kap ≤ (accB (Ua * Ub) 0 n + accB (Ua * Ub) 0 n) * (9 / 8) :=
        mul_le_mul_of_nonneg_left hk2 (by linarith)
      nlinarith
    exact ⟨((bd_addk c1 c2 hlt).2).mono hfin, ((bd_addk c3 c4 hlt).1).mono hfin⟩
  | av2 =>
    obtain ⟨r1, r2⟩ := av2_bd a b c d Ua Ub hUa hUb ha hb hc hd n hκ hT n (le_refl _)
    exact ⟨r1.mono (by nlinarith), r2.mono (by nlinarith)⟩
  | sm =>
    have h1 := hn rfl
    obtain ⟨k, rfl⟩ : ∃ k, n = k + 1 := ⟨n - 1, by omega⟩
    have hκ' : kap ^ (2 * k) ≤ 4 := le_trans (pow_le_pow_right₀ kap_ge (by omega)) hκ
    have hk0 : (0 : ℚ) ≤ k := Nat.cast_nonneg k
    have hT' : 12 * (Ua * Ub) * ((k : ℚ) + 1) < Tov := by
      push_cast at hT12; exact lt_of_le_of_lt (by nlinarith) hT12
    obtain ⟨r1, r2⟩ := sm_bd a b c d Ua Ub hUa hUb ha hb hc hd k hκ' hT' k (le_refl _)
    have fin1 : accB (Ua * Ub) 1 k ≤ 12 * (Ua * Ub) * ((k : ℚ) + 1) := by
      have := accB_le (Ua * Ub) hP 1 k k k (le_refl _) (le_refl _) hκ'
      push_cast at this
      unfold accB; push_cast; linarith
    simp only [dotRe, dotIm, Nat.add_sub_cancel]
    push_cast
    exact ⟨r1.mono (by nlinarith), r2.mono (by nlinarith)⟩

end

end Spq.VmpErr
