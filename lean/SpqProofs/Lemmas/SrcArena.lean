/-
  Kernels called on windows of one arena buffer: consequences of the window abstraction (`SrcWin.lean`) in the
  form needed by the limb-vector wrappers, stated with the heap primitives of `Spq/Heap.lean`
  (`Heap.writeArr`, `Heap.readLimb`).
-/
import Spq.Heap
import SpqProofs.Lemmas.Heap
import SpqProofs.Lemmas.SrcWin
import SpqProofs.Lemmas.SrcFuel
namespace Spq.CIR
open Spq

/-- the `nn` cells of `X` at offset `o` -/
def win (X : Array Int) (o nn : Nat) : Array Int := (⟨X, true⟩ : Heap Int).readLimb 0 o nn

@[simp] theorem size_win (X : Array Int) (o nn : Nat) : (win X o nn).size = nn := by simp [win]

theorem getD_win (X : Array Int) (o nn c : Nat) (hc : c < nn) : (win X o nn).getD c 0 = X.getD (o + c) 0 := by
  simp [win, Heap.readLimb, Array.getD, hc]

theorem getD_writeArr (X : Array Int) (o : Nat) (Y : Array Int) (x : Nat) :
    (Heap.writeArr X o Y).getD x 0 = if o ≤ x ∧ x < o + Y.size ∧ x < X.size then Y.getD (x - o) 0 else X.getD x 0 := by
  have h := Heap.getElem?_writeArr X o Y x
  have e : ∀ (A : Array Int) (i : Nat), A.getD i 0 = (A[i]?).getD 0 := by
    intro A i; simp [Array.getD]
    by_cases hi : i < A.size <;> simp [hi]
  rw [e, h]
  split
  · rw [e]
  · rw [e]

/-- a run on the split memory that writes only through pointer `pr` determines the run on the arena -/
theorem run_window (B nn : Nat) (Γ Γ' : List Ptr) (pr kr ro : Nat) (m0 : Mem) (X0 : Array Int) (hB : B < m0.size)
    (hW : Win B nn Γ Γ' [pr]) (fn : Fn) (hs : fn.body.simple = true) (hw : ∀ p, p ∈ wrPtrs fn.body → p ∈ [pr])
    (m' m'' : Mem) (hM : MR B nn Γ Γ' X0 m')
    (h1 : Γ'.getD pr none = some (kr, 0)) (h2 : Γ.getD pr none = some (B, ro))
    (args : List Int) (f : Nat) (hrun : run f fn args Γ' m' = .ok m'') :
    run f fn args Γ (m0.setIfInBounds B X0) = .ok (m0.setIfInBounds B (Heap.writeArr X0 ro (buf m'' kr))) := by
  unfold run at hrun ⊢
  cases hx : exec Γ' fn.body f ⟨args ++ List.replicate (fn.nslots - args.length) 0, m'⟩ with
  | err e => rw [hx] at hrun; simp [memOf] at hrun
  | ok r' =>
    rw [hx] at hrun
    obtain ⟨fl, σ'⟩ := r'
    simp only [memOf, R.ok.injEq] at hrun
    have hS0 : SR B nn Γ Γ' [pr] m0 X0 ⟨args ++ List.replicate (fn.nslots - args.length) 0, m0.setIfInBounds B X0⟩
        ⟨args ++ List.replicate (fn.nslots - args.length) 0, m'⟩ :=
      ⟨rfl, X0, rfl, hM, rfl, fun _ _ => rfl⟩
    obtain ⟨σ2, he, _, X, hm, hMX, hFX⟩ := exec_sim hB hW fn.body hs hw f _ _ hx _ hS0
    rw [he]
    simp only [memOf, hm]
    congr 2
    -- the arena is determined cell by cell
    dsimp only at hMX
    obtain ⟨hsz, hbnd, hcell⟩ := hMX pr kr ro h1 h2
    subst hrun
    apply Array.ext
    · rw [Heap.size_writeArr]; exact hFX.1
    · intro x hx1 hx2
      have e : ∀ (A : Array Int) (i : Nat) (hi : i < A.size), A[i] = A.getD i 0 := by
        intro A i hi; simp [Array.getD, hi]
      rw [e X x hx1, e _ x hx2, getD_writeArr]
      by_cases hin : ro ≤ x ∧ x < ro + (buf σ'.mem kr).size ∧ x < X0.size
      · rw [if_pos hin]
        have := hcell (x - ro) (by omega)
        have e3 : ro + (x - ro) = x := by omega
        rw [e3] at this
        exact this
      · rw [if_neg hin]
        apply hFX.2 x
        intro p hp o ho
        simp only [List.mem_singleton] at hp
        subst hp
        rw [h2] at ho
        simp only [Option.some.injEq, Prod.mk.injEq, true_and] at ho
        subst ho
        have : x < X0.size := by rw [← hFX.1]; exact hx1
        omega

end Spq.CIR

namespace Spq.CIR
open Spq

/-- "identical or disjoint" windows -/
def SameOrDisj (nn ro ao : Nat) : Prop := ao = ro ∨ ro + nn ≤ ao ∨ ao + nn ≤ ro

/-! ### layouts with result pointer 0 and up to two sources -/
section layouts
variable (B nn ro ao bo : Nat)

def kOf (o ro k : Nat) : Nat := if o = ro then 0 else k

theorem win3 (ha : SameOrDisj nn ro ao) (hb : SameOrDisj nn ro bo) :
    Win B nn [some (B, ro), some (B, ao), some (B, bo)]
      [some (0, 0), some (kOf ao ro 1, 0), some (kOf bo ro 2, 0)] [0] := by
  unfold SameOrDisj at ha hb
  refine ⟨?_, ?_, ?_⟩
  · intro p
    rcases p with _ | _ | _ | p
    · exact Or.inr ⟨0, ro, rfl, rfl⟩
    · exact Or.inr ⟨kOf ao ro 1, ao, rfl, rfl⟩
    · exact Or.inr ⟨kOf bo ro 2, bo, rfl, rfl⟩
    · exact Or.inl ⟨rfl, rfl⟩
  · intro p q k o o' h1 h2 h3 h4
    rcases p with _ | _ | _ | p <;> rcases q with _ | _ | _ | q <;>
      simp [List.getD, kOf] at h1 h2 h3 h4 <;> (try split at h1) <;> (try split at h2) <;> omega
  · intro p hp q k k' o o' h1 h2 hk h3 h4
    simp only [List.mem_singleton] at hp
    subst hp
    rcases q with _ | _ | _ | q <;>
      simp [List.getD, kOf] at h1 h2 h3 h4 <;> (try split at h2) <;> omega

theorem mr3 (X : Array Int) (hr : ro + nn ≤ X.size) (ha : ao + nn ≤ X.size) (hb : bo + nn ≤ X.size) :
    MR B nn [some (B, ro), some (B, ao), some (B, bo)]
      [some (0, 0), some (kOf ao ro 1, 0), some (kOf bo ro 2, 0)] X
      #[win X ro nn, win X ao nn, win X bo nn] := by
  intro p k o h1 h2
  rcases p with _ | _ | _ | p <;> simp [List.getD, kOf] at h1 h2
  · obtain ⟨rfl, rfl⟩ := And.intro h1 h2
    exact ⟨by simp [buf], hr, fun c hc => by simp [buf, getD_win _ _ _ _ hc]⟩
  · subst h2
    by_cases he : ao = ro
    · rw [if_pos he] at h1; subst h1; subst he
      exact ⟨by simp [buf], hr, fun c hc => by simp [buf, getD_win _ _ _ _ hc]⟩
    · rw [if_neg he] at h1; subst h1
      exact ⟨by simp [buf], ha, fun c hc => by simp [buf, getD_win _ _ _ _ hc]⟩
  · subst h2
    by_cases he : bo = ro
    · rw [if_pos he] at h1; subst h1; subst he
      exact ⟨by simp [buf], hr, fun c hc => by simp [buf, getD_win _ _ _ _ hc]⟩
    · rw [if_neg he] at h1; subst h1
      exact ⟨by simp [buf], hb, fun c hc => by simp [buf, getD_win _ _ _ _ hc]⟩

theorem win2 (ha : SameOrDisj nn ro ao) :
    Win B nn [some (B, ro), some (B, ao)] [some (0, 0), some (kOf ao ro 1, 0)] [0] := by
  unfold SameOrDisj at ha
  refine ⟨?_, ?_, ?_⟩
  · intro p
    rcases p with _ | _ | p
    · exact Or.inr ⟨0, ro, rfl, rfl⟩
    · exact Or.inr ⟨kOf ao ro 1, ao, rfl, rfl⟩
    · exact Or.inl ⟨rfl, rfl⟩
  · intro p q k o o' h1 h2 h3 h4
    rcases p with _ | _ | p <;> rcases q with _ | _ | q <;>
      simp [List.getD, kOf] at h1 h2 h3 h4 <;> (try split at h1) <;> (try split at h2) <;> omega
  · intro p hp q k k' o o' h1 h2 hk h3 h4
    simp only [List.mem_singleton] at hp
    subst hp
    rcases q with _ | _ | q <;>
      simp [List.getD, kOf] at h1 h2 h3 h4 <;> (try split at h2) <;> omega

theorem mr2 (X : Array Int) (hr : ro + nn ≤ X.size) (ha : ao + nn ≤ X.size) :
    MR B nn [some (B, ro), some (B, ao)] [some (0, 0), some (kOf ao ro 1, 0)] X
      #[win X ro nn, win X ao nn] := by
  intro p k o h1 h2
  rcases p with _ | _ | p <;> simp [List.getD, kOf] at h1 h2
  · obtain ⟨rfl, rfl⟩ := And.intro h1 h2
    exact ⟨by simp [buf], hr, fun c hc => by simp [buf, getD_win _ _ _ _ hc]⟩
  · subst h2
    by_cases he : ao = ro
    · rw [if_pos he] at h1; subst h1; subst he
      exact ⟨by simp [buf], hr, fun c hc => by simp [buf, getD_win _ _ _ _ hc]⟩
    · rw [if_neg he] at h1; subst h1
      exact ⟨by simp [buf], ha, fun c hc => by simp [buf, getD_win _ _ _ _ hc]⟩

theorem win1 : Win B nn [some (B, ro)] [some (0, 0)] [0] := by
  refine ⟨?_, ?_, ?_⟩
  · intro p
    rcases p with _ | p
    · exact Or.inr ⟨0, ro, rfl, rfl⟩
    · exact Or.inl ⟨rfl, rfl⟩
  · intro p q k o o' h1 h2 h3 h4
    rcases p with _ | p <;> rcases q with _ | q <;> simp [List.getD] at h1 h2 h3 h4 <;> omega
  · intro p hp q k k' o o' h1 h2 hk h3 h4
    simp only [List.mem_singleton] at hp
    subst hp
    rcases q with _ | q <;> simp [List.getD] at h1 h2 h3 h4 <;> omega

theorem mr1 (X : Array Int) (hr : ro + nn ≤ X.size) :
    MR B nn [some (B, ro)] [some (0, 0)] X #[win X ro nn] := by
  intro p k o h1 h2
  rcases p with _ | p <;> simp [List.getD] at h1 h2
  obtain ⟨rfl, rfl⟩ := And.intro h1 h2
  exact ⟨by simp [buf], hr, fun c hc => by simp [buf, getD_win _ _ _ _ hc]⟩

end layouts

theorem buf_kOf2 (X : Array Int) (nn ro ao : Nat) :
    buf #[win X ro nn, win X ao nn] (kOf ao ro 1) = win X ao nn := by
  unfold kOf
  split
  · rename_i h; subst h; rfl
  · rfl

theorem buf_kOf3a (X : Array Int) (nn ro ao bo : Nat) :
    buf #[win X ro nn, win X ao nn, win X bo nn] (kOf ao ro 1) = win X ao nn := by
  unfold kOf
  split
  · rename_i h; subst h; rfl
  · rfl

theorem buf_kOf3b (X : Array Int) (nn ro ao bo : Nat) :
    buf #[win X ro nn, win X ao nn, win X bo nn] (kOf bo ro 2) = win X bo nn := by
  unfold kOf
  split
  · rename_i h; subst h; rfl
  · rfl

end Spq.CIR
