/-
  C16 helpers: the abstract polynomial maps of `Spq.Prog` (core definitions) coincide with the
  specification formulas used by C09 (`rotCoeff`, `autExp/autVal`) and C05 (`balancedDigits`), and
  wrapping int64 arithmetic is exact when the exact result fits an int64.
-/
import Spq.Prog
import SpqProofs.Lemmas.RqSpec
import SpqProofs.Lemmas.CoeffsAutom
import SpqProofs.Lemmas.NormChain
namespace Spq.Prog
open Spq Rq

/-! ### wrapping = exact inside the int64 range -/

theorem wrapS_of_I64 (x : Int) (h : I64 x) : wrapS x = x := by
  unfold I64 at h; unfold wrapS; omega

theorem addS_exact (x y : Int) (h : I64 (x + y)) : i64Ops.add x y = x + y := wrapS_of_I64 _ h
theorem subS_exact (x y : Int) (h : I64 (x - y)) : i64Ops.sub x y = x - y := wrapS_of_I64 _ h
theorem negS_exact (x : Int) (h : I64 (-x)) : i64Ops.neg x = -x := wrapS_of_I64 _ h

/-! ### rotation -/

/-- `rotCoeff` on an int64 array whose first `nn` cells hold `a`, when the exact result fits -/
theorem rotCoeff_eq_polyRot (nn : Nat) (hn : 0 < nn) (p : Int) (inp : Array Int) (a : Nat → Int)
    (hinp : ∀ j, j < nn → inp.getD j 0 = a j) (k : Nat) (hfit : I64 (polyRot nn p a k)) :
    rotCoeff i64Ops nn p inp k = polyRot nn p a k := by
  have hs : ((((k : Int) - p) % (nn : Int)).toNat) < nn := by
    have := Int.emod_lt_of_pos ((k : Int) - p) (show (0 : Int) < (nn : Int) by omega)
    have := Int.emod_nonneg ((k : Int) - p) (show (nn : Int) ≠ 0 by omega)
    omega
  unfold rotCoeff polyRot at *
  simp only [show i64Ops.zero = (0 : Int) from rfl, hinp _ hs] at *
  split
  · rename_i c; simp only [c, if_true] at hfit ⊢
  · rename_i c; simp only [c, if_false] at hfit ⊢
    exact negS_exact _ hfit

/-! ### automorphism -/

theorem sumTo_zero (n : Nat) (f : Nat → Int) (h : ∀ j, j < n → f j = 0) : sumTo n f = 0 := by
  induction n with
  | zero => rfl
  | succ n ih =>
    rw [sumTo, ih (fun j hj => h j (by omega)), h n (by omega)]; rfl

/-- a sum with a single non-zero term -/
theorem sumTo_single (n : Nat) (f : Nat → Int) (i : Nat) (hi : i < n)
    (h : ∀ j, j < n → j ≠ i → f j = 0) : sumTo n f = f i := by
  induction n with
  | zero => omega
  | succ n ih =>
    rw [sumTo]
    by_cases e : i = n
    · subst e
      rw [sumTo_zero i f (fun j hj => h j (by omega) (by omega))]; omega
    · rw [ih (by omega) (fun j hj hji => h j (by omega) hji), h n (by omega) (by omega)]; omega

theorem autTerm_exp (nn : Nat) (p : Int) (a : Nat → Int) (k j : Nat) :
    autTerm nn p a k j =
      if autExp nn p j = k then a j else if autExp nn p j = k + nn then - a j else 0 := rfl

/-- for `nn = 2^t` and odd `p` the monomials `X^(i·p)` hit every position exactly once: coefficient
    `autExp i mod nn` of `a(X^p)` is `± a_i` -/
theorem polyAut_at (t : Nat) (p : Int) (hp : p % 2 = 1) (a : Nat → Int) (i : Nat) (hi : i < 2 ^ t) :
    polyAut (2 ^ t) p a (autExp (2 ^ t) p i % 2 ^ t) =
      if autExp (2 ^ t) p i < 2 ^ t then a i else - a i := by
  have hn : 0 < 2 ^ t := Nat.pow_pos (by omega)
  have hlt := autExp_lt (2 ^ t) hn p i
  unfold polyAut
  rw [sumTo_single _ _ i hi]
  · rw [autTerm_exp]
    by_cases c : autExp (2 ^ t) p i < 2 ^ t
    · rw [Nat.mod_eq_of_lt c]; simp [c]
    · have e : autExp (2 ^ t) p i % 2 ^ t = autExp (2 ^ t) p i - 2 ^ t := by
        rw [Nat.mod_eq_sub_mod (by omega), Nat.mod_eq_of_lt (by omega)]
      rw [e]
      have c1 : ¬ autExp (2 ^ t) p i = autExp (2 ^ t) p i - 2 ^ t := by omega
      have c2 : autExp (2 ^ t) p i = autExp (2 ^ t) p i - 2 ^ t + 2 ^ t := by omega
      rw [if_neg c1, if_pos c2, if_neg c]
  · intro j hj hji
    rw [autTerm_exp]
    have hjl := autExp_lt (2 ^ t) hn p j
    have key : autExp (2 ^ t) p j % 2 ^ t ≠ autExp (2 ^ t) p i % 2 ^ t :=
      fun e => hji (autPos_inj t p hp j i hj hi e)
    have hm := Nat.mod_lt (autExp (2 ^ t) p i) hn
    have c1 : ¬ autExp (2 ^ t) p j = autExp (2 ^ t) p i % 2 ^ t := by
      intro e; apply key; rw [e, Nat.mod_mod]
    have c2 : ¬ autExp (2 ^ t) p j = autExp (2 ^ t) p i % 2 ^ t + 2 ^ t := by
      intro e; apply key; rw [e, Nat.add_mod_right, Nat.mod_mod]
    rw [if_neg c1, if_neg c2]

/-- `autVal` on an int64 array whose first `nn` cells hold `a`, when the exact result fits -/
theorem autVal_eq (nn : Nat) (p : Int) (inp : Array Int) (a : Nat → Int) (i : Nat)
    (hinp : inp.getD i 0 = a i) (hfit : I64 (if autExp nn p i < nn then a i else - a i)) :
    autVal i64Ops nn p inp i = if autExp nn p i < nn then a i else - a i := by
  unfold autVal
  simp only [show i64Ops.zero = (0 : Int) from rfl, hinp]
  split
  · rfl
  · rename_i c; simp only [c, if_false] at hfit
    exact negS_exact _ hfit

/-! ### balanced digits: the core definitions are the ones of C05 -/

theorem balDigit_eq (k : Nat) (x : Int) : balDigit k x = Norm.balDigit k x := rfl
theorem balCarry_eq (k : Nat) (x : Int) : balCarry k x = Norm.balCarry k x := rfl

theorem balancedDigits_eq (k : Nat) (as : List Int) : balancedDigits k as = Norm.balancedDigits k as := by
  induction as with
  | nil => rfl
  | cons a as ih =>
    simp only [balancedDigits, Norm.balancedDigits, ih, balDigit_eq, balCarry_eq]

theorem B62_iff (x : Int) : B62 x ↔ Norm.Bnd62 x := Iff.rfl

end Spq.Prog
