/-
  C01 rounding budget, step 6: the two conversions of `Spq.Module.Cfg.parts` in rational terms.
  * `fromZnx` (both variants): `2m` cells, the value of cell `i` is exactly `x_i` for `|x_i| < 2^50`;
  * the divisor `(double) m` is the pattern of `2^k`;
  * `toZnx` (three variants): on its domain `|x/m| < B_v` returns an integer `r` with `|r·m − x| ≤ m/2`.
-/
import SpqProofs.Lemmas.ConvVec
import SpqProofs.Lemmas.ConvFrom
import SpqProofs.Lemmas.ConvToZnx
import SpqProofs.Lemmas.ConvBnd63Fix
import SpqProofs.Lemmas.ConvBnd63Wide
import SpqProofs.Lemmas.F64StdInt
import Spq.Module
set_option linter.unusedSectionVars false
namespace Spq.ProdErr
open Spq Spq.F64 Spq.Conv Spq.Module

theorem pow_half (k : ℕ) : 2 * 2 ^ k / 2 = 2 ^ k := by omega

theorem two_pow_mod4 (k : ℕ) (hk : 1 ≤ k) : (2 * 2 ^ k) % 4 = 0 := by
  obtain ⟨j, rfl⟩ : ∃ j, k = j + 1 := ⟨k - 1, by omega⟩
  rw [pow_succ]; omega

/-- `(double) 2^k` is the pattern of `2^k` -/
theorem ofNat_pow2 (k : ℕ) (hk : k ≤ 1023) : F64.ofNat (2 ^ k) = pow2 (k : ℤ) := by
  unfold F64.ofNat
  have hpos : (0 : ℤ) < ((2 ^ k : ℕ) : ℤ) := by positivity
  rw [packSigned_pos hpos, Int.toNat_natCast]
  have := pack_exact_pattern false 1 k 0 52 (by norm_num) (by norm_num) (by push_cast; omega) (by push_cast; omega)
  rw [Nat.one_mul] at this
  rw [this]
  unfold normPat pow2 sgn
  simp only [Bool.false_eq_true, if_false, Nat.one_mul, Nat.zero_add]
  have e1 : ((0 : ℤ) + (k : ℤ) - ((52 : ℕ) : ℤ) + 1075).toNat = k + 1023 := by push_cast; omega
  have e2 : ((k : ℤ) + 1023).toNat = k + 1023 := by omega
  have e3 : 2 ^ 52 - 4503599627370496 = 0 := by norm_num
  rw [e1, e2, e3, Nat.add_zero]

/-- value of a finite pattern from its scaled integer -/
theorem val_of_toScaled {b : ℕ} {n : ℤ} (h : toScaled b = n * 2 ^ 1074) : val b = n := by
  unfold val
  rw [h, Int.cast_mul, Int.cast_pow, Int.cast_ofNat, mul_div_assoc, div_self (pow_ne_zero _ (by norm_num)), mul_one]

theorem getD_of_getElem? {α : Type} (a : Array α) (i : ℕ) (z v : α) (h : a[i]? = some v) : a.getD i z = v := by
  rw [Array.getD_eq_getD_getElem?, h]; rfl

/-- **`fromZnx`** of the binary64 module: exact on `|x| < 2^50` -/
theorem fromZnx_spec (c : Cfg) (k : ℕ) (hnn : c.nn = 2 * 2 ^ k) (hb : c.fromBnd50 = true → 1 ≤ k) (x : Array Int)
    (hx : ∀ i, i < 2 * 2 ^ k → -1125899906842624 < x.getD i 0 ∧ x.getD i 0 < 1125899906842624) :
    ((Cfg.parts c).fromZnx x).size = 2 * 2 ^ k ∧
    ∀ i, i < 2 * 2 ^ k → val (((Cfg.parts c).fromZnx x).getD i 0) = (x.getD i 0 : ℚ) := by
  have hm : c.nn / 2 = 2 ^ k := by rw [hnn]; exact pow_half k
  have hpos : 0 < 2 ^ k := Nat.two_pow_pos k
  show (if c.fromBnd50 then fromZnx64Bnd50 (c.nn / 2) x else fromZnx64Ref (c.nn / 2) x).size = _ ∧
    ∀ i, i < 2 * 2 ^ k →
      val ((if c.fromBnd50 then fromZnx64Bnd50 (c.nn / 2) x else fromZnx64Ref (c.nn / 2) x).getD i 0) = _
  rw [hm]
  cases hfb : c.fromBnd50 with
  | false =>
    simp only [Bool.false_eq_true, if_false]
    refine ⟨scalarLoop_size _ _, fun i hi => ?_⟩
    have := scalarLoop_getElem? (2 * 2 ^ k) (fun i => fromZnx64RefLane (x.getD i 0)) i hi
    unfold fromZnx64Ref
    rw [getD_of_getElem? _ _ _ _ this]
    obtain ⟨h1, h2⟩ := hx i hi
    exact val_of_toScaled (fromZnx64RefLane_exact _ (by omega))
  | true =>
    have hdiv := two_pow_mod4 k (hb hfb)
    simp only [if_true]
    refine ⟨chunks4_size _ _ hpos hdiv, fun i hi => ?_⟩
    have := chunks4_getElem? (fun i => fromZnx64Bnd50Lane (x.getD i 0)) (2 ^ k) i hpos hdiv hi
    unfold fromZnx64Bnd50
    rw [getD_of_getElem? _ _ _ _ this]
    obtain ⟨h1, h2⟩ := hx i hi
    exact val_of_toScaled (fromZnx64Bnd50Lane_exact _ (by omega) (by omega))

/-- the domain `|x/d| < B` of the three `reim_to_znx64` kernels (for `bnd63`: the documented `2^52` range, where the
    result is within 1/2, together with the extended range `[2^52, 2^63)` of the repaired kernel, where it is exact) -/
def Bv : ToZnx64Variant → ℚ
  | .ref => 9223372036854775808      -- 2^63
  | .bnd50 => 1125899906842624       -- 2^50
  | .bnd63 => 9223372036854775808    -- 2^63

theorem toScaled_eq_val (x : ℕ) : ((toScaled x : ℤ) : ℚ) = val x * 2 ^ 1074 := by
  unfold val; rw [div_mul_cancel₀ _ (pow_ne_zero _ (by norm_num))]

/-- rational form of the lane contracts -/
theorem lane_to_rat (k : ℕ) (hk : k ≤ 971) (x : ℕ) (B : ℤ) (r : ℤ)
    (hdomQ : |val x| < (B : ℚ) * 2 ^ k)
    (hlane : |toScaled x| < B * toScaled (pow2 (k : ℤ)) →
      2 * |r * toScaled (pow2 (k : ℤ)) - toScaled x| ≤ toScaled (pow2 (k : ℤ))) :
    |(r : ℚ) * 2 ^ k - val x| ≤ 2 ^ k / 2 := by
  have hs : toScaled (pow2 (k : ℤ)) = 2 ^ (k + 1074) := by
    rw [toScaled_pow2 (k : ℤ) (by omega) (by omega)]
    congr 1
  have hP : (0 : ℚ) < 2 ^ 1074 := by positivity
  have h1 : |toScaled x| < B * toScaled (pow2 (k : ℤ)) := by
    rw [hs]
    have : ((|toScaled x| : ℤ) : ℚ) < ((B * 2 ^ (k + 1074) : ℤ) : ℚ) := by
      push_cast
      rw [toScaled_eq_val, abs_mul, abs_of_pos hP, pow_add, ← mul_assoc]
      exact mul_lt_mul_of_pos_right hdomQ hP
    exact_mod_cast this
  have h2 := hlane h1
  rw [hs] at h2
  have h3 : ((2 * |r * 2 ^ (k + 1074) - toScaled x| : ℤ) : ℚ) ≤ ((2 ^ (k + 1074) : ℤ) : ℚ) := by exact_mod_cast h2
  push_cast at h3
  rw [toScaled_eq_val, pow_add, ← mul_assoc, ← sub_mul, abs_mul, abs_of_pos hP] at h3
  have h4 : 2 * |(r : ℚ) * 2 ^ k - val x| ≤ 2 ^ k := by
    rw [← mul_assoc] at h3
    exact le_of_mul_le_mul_right h3 hP
  rw [le_div_iff₀ (by norm_num : (0 : ℚ) < 2), mul_comm]
  exact h4

/-- **`toZnx`** of the binary64 module (divisor `m = 2^k`): an integer within `1/2` of `x/m` -/
theorem toZnx_spec (c : Cfg) (k : ℕ) (hk : k ≤ 961) (hnn : c.nn = 2 * 2 ^ k) (hv : c.toVariant ≠ .ref → 1 ≤ k)
    (d : Array ℕ) (i : ℕ) (hi : i < 2 * 2 ^ k) (hx64 : d.getD i 0 < 18446744073709551616)
    (hdom : |val (d.getD i 0)| < Bv c.toVariant * 2 ^ k) :
    ∃ r : ℤ, ((Cfg.parts c).toZnx d)[i]? = some r ∧ |(r : ℚ) * 2 ^ k - val (d.getD i 0)| ≤ 2 ^ k / 2 := by
  have hm : c.nn / 2 = 2 ^ k := by rw [hnn]; exact pow_half k
  have hpos : 0 < 2 ^ k := Nat.two_pow_pos k
  show ∃ r : ℤ, (toZnx64 c.toVariant (c.nn / 2) (F64.ofNat (c.nn / 2)) d)[i]? = some r ∧ _
  rw [hm, ofNat_pow2 k (by omega)]
  cases hvar : c.toVariant with
  | ref =>
    rw [hvar] at hdom
    refine ⟨_, scalarLoop_getElem? _ _ i hi, ?_⟩
    exact lane_to_rat k (by omega) _ 9223372036854775808 _ (by simpa [Bv] using hdom)
      (toZnx64RefLane_spec (k : ℤ) (by omega) (by omega) _)
  | bnd50 =>
    rw [hvar] at hdom
    have hdiv := two_pow_mod4 k (hv (by rw [hvar]; simp))
    refine ⟨_, chunks4_getElem? _ (2 ^ k) i hpos hdiv hi, ?_⟩
    exact lane_to_rat k (by omega) _ 1125899906842624 _ (by simpa [Bv] using hdom)
      (toZnx64Bnd50Lane_spec (k : ℤ) (by omega) (by omega) _)
  | bnd63 =>
    rw [hvar] at hdom
    have hdiv := two_pow_mod4 k (hv (by rw [hvar]; simp))
    refine ⟨_, chunks4_getElem? _ (2 ^ k) i hpos hdiv hi, ?_⟩
    refine lane_to_rat k (by omega) _ 9223372036854775808 _ (by simpa [Bv] using hdom) ?_
    intro hhi
    by_cases h52 : |toScaled (d.getD i 0)| < 4503599627370496 * toScaled (pow2 (k : ℤ))
    · exact toZnx64Bnd63Lane_spec (k : ℤ) (by omega) (by omega) _ hx64 h52
    · have hw := toZnx64Bnd63Lane_wide (k : ℤ) (by omega) (by omega) _ hx64 (not_lt.1 h52) hhi
      rw [hw, sub_self, abs_zero, mul_zero, toScaled_pow2 (k : ℤ) (by omega) (by omega)]
      positivity

end Spq.ProdErr
