/-
  Heap-level refinement of `fft64_vmp_apply_dft_to_dft_{ref,avx}`: the column loop of the `nn < 8` layout, and the
  final assembly for both layouts (block loop / column loop, then the zero fill of the limbs `≥ col_max`).
-/
import SpqProofs.Lemmas.ModHeapApplyBig2
namespace Spq.ModuleHeap
open Spq Heap Reim4
variable {γ α : Type}

/-- raw filler + zeroed tail = the functional filler on the zero-initialised array -/
theorem agree_tail {enc : α → γ} {S : Nat → Prop} {F : Array α → Array α} {Fe : Array γ → Array γ}
    (a : Agree enc S F Fe) (N M n : Nat) (z : α) (hM : M + n = N) (hS : ∀ x, S x ↔ x < M)
    (g g' : Heap γ) (d : γ) (res : Nat) (G : Array γ) (hG : G.size = N)
    (v : g.readLimb d res N = Fe G)
    (fz : Fr (In (res + M) n) g g')
    (vz : g'.readLimb d (res + M) n = Array.replicate n (enc z)) :
    g'.readLimb d res N = (F (Array.replicate N z)).map enc := by
  apply Array.ext
  · rw [Array.size_map, a.sizeF]; simp
  · intro i h1 h2
    simp only [size_readLimb] at h1
    rw [← Option.some_inj, ← Array.getElem?_eq_getElem, ← Array.getElem?_eq_getElem]
    by_cases hi : i < M
    · have e1 : (g'.readLimb d res N)[i]? = (g.readLimb d res N)[i]? := by
        rw [getElem?_readLimb _ _ _ _ _ h1, getElem?_readLimb _ _ _ _ _ h1]
        simp only [Array.getD_eq_getD_getElem?]
        rw [fz.out (res + i) (by unfold In; omega)]
      rw [e1, v]
      exact a.inS _ G (by simp [hG]) i ((hS i).2 hi)
    · have e1 : (g'.readLimb d res N)[i]? = (g'.readLimb d (res + M) n)[i - M]? := by
        rw [getElem?_readLimb _ _ _ _ _ h1, getElem?_readLimb _ _ _ _ _ (by omega)]
        congr 2; omega
      rw [e1, vz, Array.getElem?_map, a.outF _ i (fun q => hi ((hS i).1 q))]
      rw [Array.getElem?_replicate, Array.getElem?_replicate, if_pos (by omega), if_pos h1]
      rfl

/-! ### `nn < 8`: the column loop -/

structure SmallCtx (c : Module.Parts α) (h : Heap γ) (res rsz adft pmat nrows ncols rowMax colMax : Nat) : Prop where
  hcol : colMax ≤ ncols
  hcolr : colMax ≤ rsz
  hrow : rowMax ≤ nrows
  hres : res + rsz * c.nn ≤ h.mem.size
  hadft : adft + rowMax * c.nn ≤ h.mem.size
  hpm : pmat + c.nn * nrows * ncols ≤ h.mem.size
  dra : adft + rowMax * c.nn ≤ res ∨ res + rsz * c.nn ≤ adft
  drp : pmat + c.nn * nrows * ncols ≤ res ∨ res + rsz * c.nn ≤ pmat

section
variable (c : Module.Parts α) (cd : Cells γ α) (hr : RoundTrip cd) (h : Heap γ)
  (res rsz adft pmat nrows ncols rowMax colMax : Nat)
  (K : SmallCtx c h res rsz adft pmat nrows ncols rowMax colMax)
include hr K

omit hr in
theorem pm_small_bound (col row : Nat) (hcol : col < colMax) (hrow : row < nrows) :
    (col * nrows + row) * c.nn + c.nn ≤ c.nn * nrows * ncols := by
  have h1 := mul_step col ncols nrows (by have := K.hcol; omega)
  have h2 := mul_step (col * nrows + row) (ncols * nrows) c.nn (by omega)
  have e : c.nn * nrows * ncols = ncols * nrows * c.nn := by ring
  omega

omit hr in
theorem pcol_rd (col row : Nat) (hcol : col < colMax) (hrow : row < nrows) :
    pcolOf c.nn nrows col (rdD cd h pmat (c.nn * nrows * ncols)) row = rdD cd h (pmat + (col * nrows + row) * c.nn) c.nn := by
  unfold pcolOf
  exact extract_rdD cd h pmat _ _ c.nn (pm_small_bound c h res rsz adft pmat nrows ncols rowMax colMax K col row hcol hrow)

theorem smallStep (col : Nat) (hcol : col < colMax) (g : Heap γ) (R : Array γ)
    (P : Fr (In res (rsz * c.nn)) h g ∧ g.readLimb cd.dflt res (rsz * c.nn) = R) :
    Fr (In res (rsz * c.nn)) h (smallBody c cd res adft pmat nrows rowMax col g) ∧
    (smallBody c cd res adft pmat nrows rowMax col g).readLimb cd.dflt res (rsz * c.nn) =
      Module.writeAt R (col * c.nn)
        ((colVal c rowMax nrows col (rdD cd h adft (rowMax * c.nn)) (rdD cd h pmat (c.nn * nrows * ncols))).map cd.enc) := by
  obtain ⟨f, v⟩ := P
  have hm := mul_step col rsz c.nn (by have := K.hcolr; omega)
  have h1 := K.hres; have h2 := K.hadft; have h3 := K.hpm; have h4 := K.dra; have h5 := K.drp; have h6 := K.hrow
  unfold smallBody colVal
  by_cases h0 : (rowMax == 0) = true
  · simp only [h0, if_true]
    obtain ⟨fz, vz⟩ := kZeroD_spec c cd g (res + col * c.nn) c.nn (by rw [f.size]; omega)
    refine ⟨(f.trans fz).mono (fun x q => by unfold In at *; omega), ?_⟩
    rw [region_step cd.dflt res (rsz * c.nn) _ c.nn _ fz vz (by omega) (by rw [f.size]; omega), v]
  · simp only [h0, if_false, Bool.false_eq_true]
    have hr1 : 1 ≤ rowMax := by
      have : rowMax ≠ 0 := by simpa using h0
      omega
    have hrm := mul_le' 1 rowMax c.nn hr1
    rw [Nat.one_mul] at hrm
    -- addresses in the form `base + i * nn`
    have ea : ∀ k, k < rowMax → Module.dlimb (rdD cd h adft (rowMax * c.nn)) k c.nn = rdD cd h (adft + k * c.nn) c.nn :=
      fun k hk => dlimb_rdD cd h adft _ k c.nn (mul_step k rowMax c.nn hk)
    have ep : ∀ k, pmat + col * nrows * c.nn + k * c.nn = pmat + (col * nrows + k) * c.nn := by
      intro k; rw [Nat.add_mul]; omega
    have hpb : ∀ k, k < rowMax → (col * nrows + k) * c.nn + c.nn ≤ c.nn * nrows * ncols :=
      fun k hk => pm_small_bound c h res rsz adft pmat nrows ncols rowMax colMax K col k hcol (by omega)
    have hab : ∀ k, k < rowMax → k * c.nn + c.nn ≤ rowMax * c.nn := fun k hk => mul_step k rowMax c.nn hk
    -- first row: mul
    have hp0 := hpb 0 (by omega)
    have e00 : pmat + col * nrows * c.nn = pmat + (col * nrows + 0) * c.nn := by simp
    have ea0 : adft = adft + 0 * c.nn := by simp
    obtain ⟨fm, vm⟩ := kMul_spec c cd g (res + col * c.nn) adft (pmat + col * nrows * c.nn)
      (by rw [f.size]; omega) (by rw [f.size]; omega) (by rw [f.size]; omega)
      (sameOrDisj_of _ _ _ (by omega)) (sameOrDisj_of _ _ _ (by omega))
    rw [rdD_of_fr f cd adft c.nn (fun x hx hw => by unfold In at *; omega),
        rdD_of_fr f cd (pmat + col * nrows * c.nn) c.nn (fun x hx hw => by unfold In at *; omega)] at vm
    rw [e00, ← pcol_rd c cd h res rsz adft pmat nrows ncols rowMax colMax K col 0 hcol (by omega)] at vm
    conv at vm => rhs; rw [ea0, ← ea 0 (by omega)]
    -- the other rows: addmul
    have L := loop_sim (fun g' (rr : Array α) => Fr (In (res + col * c.nn) c.nn) g g' ∧
        g'.readLimb cd.dflt (res + col * c.nn) c.nn = rr.map cd.enc) (rowMax - 1)
      (fun k => kAddmul c cd (res + col * c.nn) (adft + (k + 1) * c.nn) (pmat + col * nrows * c.nn + (k + 1) * c.nn))
      (fun r k => Module.addmul c r (Module.dlimb (rdD cd h adft (rowMax * c.nn)) (k + 1) c.nn)
        (pcolOf c.nn nrows col (rdD cd h pmat (c.nn * nrows * ncols)) (k + 1)))
      _ _ ⟨fm, vm⟩
      (by
        intro k g' rr hk ⟨f', v'⟩
        have hpk := hpb (k + 1) (by omega)
        have hak := hab (k + 1) (by omega)
        have F' := f.trans f'
        obtain ⟨fa, va⟩ := kAddmul_spec c cd g' (res + col * c.nn) (adft + (k + 1) * c.nn)
          (pmat + col * nrows * c.nn + (k + 1) * c.nn)
          (by rw [F'.size]; omega) (by rw [F'.size, ep]; omega) (by rw [F'.size]; omega)
          (sameOrDisj_of _ _ _ (by omega)) (sameOrDisj_of _ _ _ (by rw [ep]; omega))
        refine ⟨f'.trans' fa, ?_⟩
        rw [va, rdD_of_cells cd hr _ _ _ _ v',
          rdD_of_fr F' cd (adft + (k + 1) * c.nn) c.nn (fun x hx hw => by unfold In at *; omega),
          rdD_of_fr F' cd (pmat + col * nrows * c.nn + (k + 1) * c.nn) c.nn
            (fun x hx hw => by rw [ep] at hx; unfold In at *; omega),
          ep, ← pcol_rd c cd h res rsz adft pmat nrows ncols rowMax colMax K col (k + 1) hcol (by omega),
          ← ea (k + 1) (by omega)])
    obtain ⟨fl, vl⟩ := L
    refine ⟨(f.trans fl).mono (fun x q => by unfold In at *; omega), ?_⟩
    unfold chainOf
    rw [region_step cd.dflt res (rsz * c.nn) _ c.nn _ fl vl (by omega) (by rw [f.size]; omega), v]

theorem smallLoop_sim :
    Fr (In res (rsz * c.nn)) h (loop colMax (smallBody c cd res adft pmat nrows rowMax) h) ∧
    (loop colMax (smallBody c cd res adft pmat nrows rowMax) h).readLimb cd.dflt res (rsz * c.nn) =
      applySmallG (Array.map cd.enc) c rowMax colMax nrows (rdD cd h adft (rowMax * c.nn))
        (rdD cd h pmat (c.nn * nrows * ncols)) (h.readLimb cd.dflt res (rsz * c.nn)) := by
  unfold applySmallG
  exact loop_sim (fun g R => Fr (In res (rsz * c.nn)) h g ∧ g.readLimb cd.dflt res (rsz * c.nn) = R) colMax
    (smallBody c cd res adft pmat nrows rowMax)
    (fun R col => Module.writeAt R (col * c.nn)
      ((colVal c rowMax nrows col (rdD cd h adft (rowMax * c.nn)) (rdD cd h pmat (c.nn * nrows * ncols))).map cd.enc))
    h _ ⟨Fr.refl _ h, rfl⟩
    (fun col g R hcol P => smallStep c cd hr h res rsz adft pmat nrows ncols rowMax colMax K col hcol g R P)

end
end Spq.ModuleHeap
