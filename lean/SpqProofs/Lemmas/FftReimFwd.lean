/-
  C06: the forward reim schedule (`bfs16`, `rec16`, `fftRI`) computes the level network.
-/
import SpqProofs.Lemmas.FftSched
set_option linter.unusedSectionVars false
set_option linter.unusedSimpArgs false
namespace Spq.Fft.ReimFwd
open Spq.Fft Spq.Fft.Alg Spq.Fft.View Spq.Fft.Level Spq.Fft.Sim Spq.Fft.Tab Spq.Fft.Tw Spq.Fft.Kern Spq.Fft.Sched

variable {R : Type} [CommRing R] [Inhabited R] (X : Ctx R)

/-- the reim leaf pack `fill_reim_fft16_omegas(e)` read through `reimW16` -/
theorem leaf_read (T : Array R) (t e U : ℕ) (h : Seg T t ((rFill16 U e).map (val X.c X.s))) :
    ∀ q, q < 8 → (reimW16 T t q).1 + X.I * (reimW16 T t q).2 = X.ζ ^ leafE e U q := by
  have hl : ((rFill16 U e).map (val X.c X.s)).length = 16 := by simp [rFill16, eP, gam]
  have g : ∀ j, j < 16 → T[t + j]! = ((rFill16 U e).map (val X.c X.s))[j]! := fun j hj => h j (by omega)
  intro q hq
  have : q = 0 ∨ q = 1 ∨ q = 2 ∨ q = 3 ∨ q = 4 ∨ q = 5 ∨ q = 6 ∨ q = 7 := by omega
  rcases this with rfl | rfl | rfl | rfl | rfl | rfl | rfl | rfl
  · have a := g 0 (by omega); have b := g 1 (by omega)
    simp only [Nat.add_zero] at a
    simp only [reimW16, leafE, Nat.reduceLT, ↓reduceIte, Nat.reduceMul, Nat.reduceAdd, Nat.add_zero, Nat.add_assoc]
    rw [a, b]; simp [rFill16, eP, gam, val, X.hcs, Nat.add_assoc]
  · have a := g 2 (by omega); have b := g 3 (by omega)
    simp only [reimW16, leafE, Nat.reduceLT, ↓reduceIte, Nat.reduceMul, Nat.reduceAdd, Nat.add_zero, Nat.add_assoc]
    rw [a, b]; simp [rFill16, eP, gam, val, X.hcs, Nat.add_assoc]
  · have a := g 4 (by omega); have b := g 5 (by omega)
    simp only [reimW16, leafE, Nat.reduceLT, ↓reduceIte, Nat.reduceMul, Nat.reduceAdd, Nat.add_zero, Nat.add_assoc]
    rw [a, b]; simp [rFill16, eP, gam, val, X.hcs, Nat.add_assoc]
  · have a := g 6 (by omega); have b := g 7 (by omega)
    simp only [reimW16, leafE, Nat.reduceLT, ↓reduceIte, Nat.reduceMul, Nat.reduceAdd, Nat.add_zero, Nat.add_assoc]
    rw [a, b]; simp [rFill16, eP, gam, val, X.hcs, Nat.add_assoc]
  · have a := g 8 (by omega); have b := g 12 (by omega)
    simp only [reimW16, leafE, Nat.reduceLT, ↓reduceIte, Nat.reduceMul, Nat.reduceAdd, Nat.add_zero, Nat.add_assoc]
    rw [a, b]; simp [rFill16, eP, gam, val, X.hcs, Nat.add_assoc]
  · have a := g 9 (by omega); have b := g 13 (by omega)
    simp only [reimW16, leafE, Nat.reduceLT, ↓reduceIte, Nat.reduceMul, Nat.reduceAdd, Nat.add_zero, Nat.add_assoc]
    rw [a, b]; simp [rFill16, eP, gam, val, X.hcs, Nat.add_assoc]
  · have a := g 10 (by omega); have b := g 14 (by omega)
    simp only [reimW16, leafE, Nat.reduceLT, ↓reduceIte, Nat.reduceMul, Nat.reduceAdd, Nat.add_zero, Nat.add_assoc]
    rw [a, b]; simp [rFill16, eP, gam, val, X.hcs, Nat.add_assoc]
  · have a := g 11 (by omega); have b := g 15 (by omega)
    simp only [reimW16, leafE, Nat.reduceLT, ↓reduceIte, Nat.reduceMul, Nat.reduceAdd, Nat.add_zero, Nat.add_assoc]
    rw [a, b]; simp [rFill16, eP, gam, val, X.hcs, Nat.add_assoc]

/-- the loop over the 16-point leaves -/
theorem leaves_spec (F : Flav R) (hF : FwdOK X.I F) (T : Array R) (N ℓ0 j b0 off m' t : ℕ) (s : RI R)
    (hs : Valid N s) (hk : X.k = ℓ0 + j + 4) (hm : m' = 2 ^ (j + 4)) (hoff : off = m' * b0) (hN : off + m' ≤ N)
    (hT : Seg T t (((List.range (m' / 16)).flatMap
      (fun b => rFill16 (4 * 2 ^ X.k) (16 * (1 + 4 * brev ℓ0 b0) + frbN (4 * 2 ^ X.k) b))).map (val X.c X.s))) :
    let r := iterFrom (fun b (st : RI R × ℕ) => (fft16 F T st.2 (off + 16 * b) st.1, st.2 + 16)) (m' / 16) 0 (s, t)
    Adv X.ζ X.a (cxs X.I s) (cxs X.I r.1) (ℓ0 + j) 4 (ℓ0 + j + 4) 0 off m' ∧ Valid N r.1 ∧ r.2 = t + m' := by
  intro r
  have hnb : m' / 16 = 2 ^ j := by rw [hm, pow_add]; norm_num
  have hm16 : m' = 2 ^ j * 16 := by rw [hm, pow_add]; norm_num
  have hr : r = (iterFrom (fun b s => fft16 F T (t + 16 * b) (off + 16 * b) s) (m' / 16) 0 s, t + 16 * (m' / 16)) :=
    iter_counter (fun b t s => fft16 F T t (off + 16 * b) s) 16 (m' / 16) s t
  rw [hr]
  simp only
  rw [List.map_flatMap] at hT
  have hseg := Seg.flatMap (T := T) (t := t) _ 16 (m' / 16) (fun b => by simp [rFill16, eP, gam]) hT
  have sw := sweep X (fun b s => fft16 F T (t + 16 * b) (off + 16 * b) s) N (ℓ0 + j) 4 (ℓ0 + j + 4) 0 off 16
    (m' / 16)
    (fun b s hb hs => by
      have hb' : b < 2 ^ j := by omega
      have := fft16K_adv X F hF (reimW16 T (t + 16 * b)) N (ℓ0 + j) (b0 * 2 ^ j + b) (off + 16 * b)
        (16 * (1 + 4 * brev ℓ0 b0) + frbN (4 * 2 ^ X.k) b) s hs
        (by rw [hoff, hm16]; ring) (by omega) hk
        (by
          have := block_entry ℓ0 j 4 b0 b hb'
          rw [← hk] at this
          simpa using this)
        (leaf_read X T (t + 16 * b) _ _ (by
          have := hseg b hb
          rwa [show t + b * 16 = t + 16 * b by ring] at this))
      exact ⟨this.1.of_eq X.ζ X.a (by ring) rfl, this.2⟩) s hs
  refine ⟨sw.1.of_eq X.ζ X.a rfl (by omega), sw.2, by omega⟩

/-- exponents of one radix-4 table pack: `rs0 = ss/4 + fracrevbits(b)/4`, `rs1 = 2·rs0` -/
theorem r4_exps (ℓ0 j e2 b0 b k mm : ℕ) (hb : b < 2 ^ j) (hk : k = ℓ0 + j + (e2 + 2)) (hmm : mm = 2 ^ (e2 + 2)) :
    2 * (mm * (1 + 4 * brev ℓ0 b0) / 4 + frbN (4 * 2 ^ k) b / 4) = twE (ℓ0 + j) (e2 + 1) (b0 * 2 ^ j + b) ∧
    mm * (1 + 4 * brev ℓ0 b0) / 4 + frbN (4 * 2 ^ k) b / 4 = twE (ℓ0 + j + 1) e2 (2 * (b0 * 2 ^ j + b)) := by
  subst hk hmm
  have hE := block_entry ℓ0 j (e2 + 2) b0 b hb
  have h1 : 2 ^ (e2 + 2) * (1 + 4 * brev ℓ0 b0) = 4 * (2 ^ e2 * (1 + 4 * brev ℓ0 b0)) := by rw [pow_add]; ring
  have h2 : 2 ^ (e2 + 2) * (1 + 4 * brev (ℓ0 + j) (b0 * 2 ^ j + b))
      = 4 * (2 ^ e2 * (1 + 4 * brev (ℓ0 + j) (b0 * 2 ^ j + b))) := by rw [pow_add]; ring
  have h3 : 2 ^ (e2 + 2) * (1 + 4 * brev ℓ0 b0) / 4 + frbN (4 * 2 ^ (ℓ0 + j + (e2 + 2))) b / 4
      = 2 ^ e2 * (1 + 4 * brev (ℓ0 + j) (b0 * 2 ^ j + b)) := by
    rw [h1, h2] at hE
    rw [h1]
    omega
  constructor
  · rw [h3, twE, pow_succ]; ring
  · rw [h3, twE, brev_even]

/-- one radix-4 level of `bfs16` over the whole region -/
theorem r4_spec (F : Flav R) (hF : FwdOK X.I F) (T : Array R) (N ℓ0 j e2 b0 off m' mm t : ℕ) (s : RI R)
    (hs : Valid N s) (hk : X.k = ℓ0 + j + (e2 + 2)) (hm : m' = 2 ^ (j + (e2 + 2))) (hmm : mm = 2 ^ (e2 + 2))
    (hoff : off = m' * b0) (hN : off + m' ≤ N)
    (hT : Seg T t (((List.range (m' / mm)).flatMap (fun b =>
      eP (2 * (mm * (1 + 4 * brev ℓ0 b0) / 4 + frbN (4 * 2 ^ X.k) b / 4)) ++
      eP (mm * (1 + 4 * brev ℓ0 b0) / 4 + frbN (4 * 2 ^ X.k) b / 4))).map (val X.c X.s))) :
    let r := iterFrom (fun b (st : RI R × ℕ) => (bitwiddle F T st.2 (mm / 4) (off + b * mm) st.1, st.2 + 4))
      (m' / mm) 0 (s, t)
    Adv X.ζ X.a (cxs X.I s) (cxs X.I r.1) (ℓ0 + j) (e2 + 2) (ℓ0 + j + 2) e2 off m' ∧ Valid N r.1 ∧
      r.2 = t + 4 * (m' / mm) := by
  intro r
  have hh : mm / 4 = 2 ^ e2 := by rw [hmm, pow_add]; norm_num
  have hmm4 : mm = 4 * 2 ^ e2 := by rw [hmm, pow_add]; ring
  have hnb : m' / mm = 2 ^ j := by
    rw [hm, hmm, pow_add]; exact Nat.mul_div_cancel _ (Nat.two_pow_pos _)
  have hm' : m' = 2 ^ j * mm := by rw [hm, hmm, pow_add]
  have hr : r = (iterFrom (fun b s => bitwiddle F T (t + 4 * b) (mm / 4) (off + b * mm) s) (m' / mm) 0 s,
      t + 4 * (m' / mm)) :=
    iter_counter (fun b t s => bitwiddle F T t (mm / 4) (off + b * mm) s) 4 (m' / mm) s t
  rw [hr]
  simp only
  rw [List.map_flatMap] at hT
  have hseg := Seg.flatMap (T := T) (t := t) _ 4 (m' / mm) (fun b => by simp [eP]) hT
  have sw := sweep X (fun b s => bitwiddle F T (t + 4 * b) (mm / 4) (off + b * mm) s) N (ℓ0 + j) (e2 + 2)
    (ℓ0 + j + 2) e2 off mm (m' / mm)
    (fun b s hb hs => by
      have hb' : b < 2 ^ j := by omega
      have hsb := hseg b hb
      rw [List.map_append, show t + b * 4 = t + 4 * b by ring] at hsb
      have e := r4_exps ℓ0 j e2 b0 b X.k mm hb' hk hmm
      have w0 := read_eP X T (t + 4 * b) _ hsb.left
      have w1 := read_eP X T (t + 4 * b + 2) _ (by simpa [eP] using hsb.right)
      rw [e.1] at w0
      rw [e.2] at w1
      have hbm : b * mm < 2 ^ j * mm := Nat.mul_lt_mul_of_pos_right hb' (by rw [hmm]; exact Nat.two_pow_pos _)
      have hbm' : b * mm + mm ≤ 2 ^ j * mm := by
        have : (b + 1) * mm ≤ 2 ^ j * mm := Nat.mul_le_mul_right _ hb'
        rw [Nat.add_mul] at this; omega
      have := bitwiddle_adv X F hF T (t + 4 * b) N (ℓ0 + j) e2 (b0 * 2 ^ j + b) (off + b * mm) (mm / 4) s hs hh
        (by rw [hh, hoff, hm', hmm4]; ring) (by rw [hh, ← hmm4]; omega) (by omega) w0
        (by rw [show t + 4 * b + 2 + 1 = t + 4 * b + 3 by ring] at w1; exact w1)
      rw [show 4 * (mm / 4) = mm by omega] at this
      exact this) s hs
  refine ⟨sw.1.of_eq X.ζ X.a rfl (by rw [hnb, hm']), sw.2, trivial⟩

theorem Adv_id (x : ℕ → R) (ℓ d ℓ' d' off sz : ℕ) (h1 : ℓ' = ℓ) (h2 : d' = d) :
    Adv X.ζ X.a x x ℓ d ℓ' d' off sz := by subst h1 h2; exact ⟨fun h => h, fun _ _ => rfl⟩

/-- the `while (mm > 16)` loop of `bfs16`: all radix-4 levels down to blocks of 16 -/
theorem bfsLevels_spec (F : Flav R) (hF : FwdOK X.I F) (T : Array R) (N ℓ0 D b0 off m' : ℕ)
    (hk : X.k = ℓ0 + D) (hm : m' = 2 ^ D) (hoff : off = m' * b0) (hN : off + m' ≤ N) :
    ∀ i fuel j mm ss (s : RI R) (t : ℕ), j + (4 + 2 * i) = D → mm = 2 ^ (4 + 2 * i) → mm ≤ fuel →
      ss = mm * (1 + 4 * brev ℓ0 b0) → Valid N s →
      Seg T t ((rBfsLevels (4 * 2 ^ X.k) m' fuel mm ss).map (val X.c X.s)) →
      Adv X.ζ X.a (cxs X.I s) (cxs X.I (bfsLevels F T m' off fuel mm (s, t)).1) (ℓ0 + j) (4 + 2 * i)
          (ℓ0 + j + 2 * i) 4 off m' ∧
        Valid N (bfsLevels F T m' off fuel mm (s, t)).1 ∧
        Seg T (bfsLevels F T m' off fuel mm (s, t)).2 (((List.range (m' / 16)).flatMap
          (fun b => rFill16 (4 * 2 ^ X.k) (16 * (1 + 4 * brev ℓ0 b0) + frbN (4 * 2 ^ X.k) b))).map (val X.c X.s)) ∧
        (bfsLevels F T m' off fuel mm (s, t)).2 + m' / 16 * 16 = t + (rBfsLevels (4 * 2 ^ X.k) m' fuel mm ss).length := by
  intro i
  induction i with
  | zero =>
    intro fuel j mm ss s t hj hmm hfuel hss hs hT
    have hmm16 : mm = 16 := by rw [hmm]; norm_num
    subst hmm16
    obtain ⟨f, rfl⟩ : ∃ f, fuel = f + 1 := ⟨fuel - 1, by omega⟩
    rw [bfsLevels, if_neg (by omega)]
    rw [rBfsLevels, if_neg (by omega), hss] at hT
    refine ⟨Adv_id X _ _ _ _ _ _ _ (by omega) (by omega), hs, hT, ?_⟩
    rw [rBfsLevels, if_neg (by omega), length_flatMap_const _ 16 _ (fun b => by simp [rFill16, eP, gam])]
  | succ i ih =>
    intro fuel j mm ss s t hj hmm hfuel hss hs hT
    obtain ⟨f, rfl⟩ : ∃ f, fuel = f + 1 := ⟨fuel - 1, by
      have : 0 < mm := by rw [hmm]; exact Nat.two_pow_pos _
      omega⟩
    have hmm' : mm = 2 ^ (4 + 2 * i + 2) := by rw [hmm]; congr 1
    have hmm4 : mm = 4 * 2 ^ (4 + 2 * i) := by rw [hmm', pow_add]; ring
    have hgt : mm > 16 := by
      have : 1 ≤ 2 ^ (2 * i) := Nat.one_le_two_pow
      rw [hmm4, pow_add]; omega
    have hq : mm / 4 = 2 ^ (4 + 2 * i) := by omega
    rw [bfsLevels, if_pos hgt]
    have hlenT : (rBfsLevels (4 * 2 ^ X.k) m' (f + 1) mm ss).length
        = 4 * (m' / mm) + (rBfsLevels (4 * 2 ^ X.k) m' f (mm / 4) (ss / 4)).length := by
      rw [rBfsLevels, if_pos hgt, List.length_append, length_flatMap_const _ 4 _ (fun b => by simp [eP])]; ring
    rw [rBfsLevels, if_pos hgt, List.map_append, hss] at hT
    have hm2 : m' = 2 ^ (j + (4 + 2 * i + 2)) := by rw [hm, ← hj]; congr 1
    have st := r4_spec X F hF T N ℓ0 j (4 + 2 * i) b0 off m' mm t s hs (by omega) hm2 hmm' hoff hN hT.left
    simp only at st
    obtain ⟨a1, v1, p1⟩ := st
    have hlen : (List.map (val X.c X.s) ((List.range (m' / mm)).flatMap (fun b =>
        eP (2 * (mm * (1 + 4 * brev ℓ0 b0) / 4 + frbN (4 * 2 ^ X.k) b / 4)) ++
        eP (mm * (1 + 4 * brev ℓ0 b0) / 4 + frbN (4 * 2 ^ X.k) b / 4)))).length = 4 * (m' / mm) := by
      rw [List.length_map, length_flatMap_const _ 4 _ (fun b => by simp [eP])]; ring
    have hT2 := hT.right
    rw [hlen, ← p1] at hT2
    have hss4 : mm * (1 + 4 * brev ℓ0 b0) / 4 = mm / 4 * (1 + 4 * brev ℓ0 b0) := by
      rw [hmm4, Nat.mul_assoc, Nat.mul_div_cancel_left _ (by omega : 0 < 4), Nat.mul_div_cancel_left _ (by omega : 0 < 4)]
    rw [hss4] at hT2
    have nx := ih f (j + 2) (mm / 4) (mm / 4 * (1 + 4 * brev ℓ0 b0))
      (iterFrom (fun b (st : RI R × ℕ) => (bitwiddle F T st.2 (mm / 4) (off + b * mm) st.1, st.2 + 4))
        (m' / mm) 0 (s, t)).1
      (iterFrom (fun b (st : RI R × ℕ) => (bitwiddle F T st.2 (mm / 4) (off + b * mm) st.1, st.2 + 4))
        (m' / mm) 0 (s, t)).2 (by omega) hq (by omega) rfl v1 hT2
    obtain ⟨a2, v2, p2, q2⟩ := nx
    refine ⟨?_, v2, p2, ?_⟩
    swap
    · rw [q2, p1, hlenT, hss, hss4]; ring
    exact (a1.cast X.ζ X.a (ℓ0 + j) (4 + 2 * (i + 1)) (ℓ0 + (j + 2)) (4 + 2 * i) rfl (by ring) (by ring) rfl).seq
      X.ζ X.a (a2.cast X.ζ X.a (ℓ0 + (j + 2)) (4 + 2 * i) (ℓ0 + j + 2 * (i + 1)) 4 rfl rfl (by ring) rfl)

/-- `bfs16`: a region of size `m' = 2^D ≥ 32` whose table is `fill_reim_fft_bfs_16_omegas(m', entry power)` is taken
from level `ℓ0` to the last level -/
theorem bfs16_spec (F : Flav R) (hF : FwdOK X.I F) (T : Array R) (N ℓ0 D b0 off m' t : ℕ) (s : RI R)
    (hk : X.k = ℓ0 + D) (hm : m' = 2 ^ D) (hD : 5 ≤ D) (hoff : off = m' * b0) (hN : off + m' ≤ N)
    (hs : Valid N s)
    (hT : Seg T t ((rBfs (4 * 2 ^ X.k) m' (m' * (1 + 4 * brev ℓ0 b0))).map (val X.c X.s))) :
    Adv X.ζ X.a (cxs X.I s) (cxs X.I (bfs16 F T m' off (s, t)).1) ℓ0 D X.k 0 off m' ∧
      Valid N (bfs16 F T m' off (s, t)).1 ∧
      (bfs16 F T m' off (s, t)).2 = t + (rBfs (4 * 2 ^ X.k) m' (m' * (1 + 4 * brev ℓ0 b0))).length := by
  have hlog : m'.log2 = D := by rw [hm]; exact Nat.log2_two_pow
  have h16 : m' / 16 * 16 = m' := by
    have : m' = 2 ^ (D - 4) * 16 := by
      rw [hm, show (16 : ℕ) = 2 ^ 4 by norm_num, ← pow_add 2 (D - 4) 4]; congr 1; omega
    omega
  obtain ⟨i, p, hp, hDi⟩ : ∃ i p, p < 2 ∧ D = 4 + 2 * i + p := ⟨(D - 4) / 2, (D - 4) % 2, by omega, by omega⟩
  unfold bfs16
  rw [rBfs, hlog] at hT
  rw [rBfs, hlog]
  by_cases hodd : D % 2 != 0
  · -- odd log: one twiddle pass first
    have hp1 : p = 1 := by simp at hodd; omega
    subst hp1
    rw [if_pos hodd] at hT ⊢
    rw [if_pos hodd]
    rw [List.map_append] at hT
    have hm2 : m' / 2 = 2 ^ (4 + 2 * i) := by rw [hm, hDi, pow_succ]; omega
    have hmm : m' = 2 * 2 ^ (4 + 2 * i) := by rw [hm, hDi, pow_succ]; ring
    have hpw : m' * (1 + 4 * brev ℓ0 b0) / 2 = m' / 2 * (1 + 4 * brev ℓ0 b0) := by
      rw [hmm, Nat.mul_assoc, Nat.mul_div_cancel_left _ (by omega : 0 < 2), Nat.mul_div_cancel_left _ (by omega : 0 < 2)]
    have w := read_eP X T t _ hT.left
    have s1 := twPass_adv X F.ct hF.ct N ℓ0 (4 + 2 * i) b0 off T[t]! T[t + 1]! s hs (by rw [hoff, hmm]) (by omega)
      (by rw [w, hpw, hm2, twE])
    rw [← hm2] at s1
    obtain ⟨a1, v1⟩ := s1
    have hT2 := hT.right
    simp only [List.length_map, eP, List.length_cons, List.length_nil] at hT2
    rw [hpw] at hT2
    have s2 := bfsLevels_spec X F hF T N ℓ0 D b0 off m' hk hm hoff hN i m' 1 (m' / 2)
      (m' / 2 * (1 + 4 * brev ℓ0 b0)) _ (t + 2) (by omega) hm2 (by omega) rfl v1 hT2
    obtain ⟨a2, v2, p2, q2⟩ := s2
    have s3 := leaves_spec X F hF T N ℓ0 (2 * i + 1) b0 off m' _ _ v2 (by omega) (by rw [hm, hDi]; congr 1; omega)
      hoff hN p2
    simp only at s3
    obtain ⟨a3, v3, p3⟩ := s3
    refine ⟨?_, v3, ?_⟩
    · have b1 := a1.cast X.ζ X.a ℓ0 D (ℓ0 + 1) (4 + 2 * i) rfl (by omega) rfl rfl
      have b1' := b1.of_eq X.ζ X.a rfl (show m' = 2 * (m' / 2) by omega)
      have b2 := a2.cast X.ζ X.a (ℓ0 + 1) (4 + 2 * i) (ℓ0 + (2 * i + 1)) 4 rfl rfl (by ring) rfl
      have b3 := a3.cast X.ζ X.a (ℓ0 + (2 * i + 1)) 4 X.k 0 rfl rfl (by omega) rfl
      exact (b1'.seq X.ζ X.a b2).seq X.ζ X.a b3
    · rw [p3, List.length_append, hpw]
      simp only [eP, List.length_cons, List.length_nil]
      omega
  · -- even log
    have hp0 : p = 0 := by simp at hodd; omega
    subst hp0
    rw [if_neg hodd] at hT ⊢
    rw [if_neg hodd]
    have s2 := bfsLevels_spec X F hF T N ℓ0 D b0 off m' hk hm hoff hN i m' 0 m'
      (m' * (1 + 4 * brev ℓ0 b0)) s t (by omega) (by rw [hm, hDi]; rfl) (by omega) rfl hs hT
    obtain ⟨a2, v2, p2, q2⟩ := s2
    have s3 := leaves_spec X F hF T N ℓ0 (2 * i) b0 off m' _ _ v2 (by omega) (by rw [hm, hDi]; congr 1; omega)
      hoff hN p2
    simp only at s3
    obtain ⟨a3, v3, p3⟩ := s3
    refine ⟨?_, v3, ?_⟩
    · have b2 := a2.cast X.ζ X.a ℓ0 D (ℓ0 + 2 * i) 4 (by omega) (by omega) (by ring) rfl
      have b3 := a3.cast X.ζ X.a (ℓ0 + 2 * i) 4 X.k 0 rfl rfl (by omega) rfl
      exact b2.seq X.ζ X.a b3
    · rw [p3]; omega

/-- `rec16`: depth-first halving above 2048, `bfs16` below -/
theorem rec16_spec (F : Flav R) (hF : FwdOK X.I F) (T : Array R) (N : ℕ) :
    ∀ fuel D ℓ0 b0 off m' t (s : RI R), X.k = ℓ0 + D → m' = 2 ^ D → 5 ≤ D → off = m' * b0 → off + m' ≤ N →
      Valid N s → Seg T t ((rRec (4 * 2 ^ X.k) fuel m' (m' * (1 + 4 * brev ℓ0 b0))).map (val X.c X.s)) →
      Adv X.ζ X.a (cxs X.I s) (cxs X.I (rec16 F T fuel m' off (s, t)).1) ℓ0 D X.k 0 off m' ∧
        Valid N (rec16 F T fuel m' off (s, t)).1 ∧
        (rec16 F T fuel m' off (s, t)).2 = t + (rRec (4 * 2 ^ X.k) fuel m' (m' * (1 + 4 * brev ℓ0 b0))).length := by
  intro fuel
  induction fuel with
  | zero =>
    intro D ℓ0 b0 off m' t s hk hm hD hoff hN hs hT
    rw [rRec] at hT ⊢
    rw [rec16]
    exact bfs16_spec X F hF T N ℓ0 D b0 off m' t s hk hm hD hoff hN hs hT
  | succ f ih =>
    intro D ℓ0 b0 off m' t s hk hm hD hoff hN hs hT
    rw [rec16]
    rw [rRec] at hT ⊢
    by_cases hle : m' ≤ 2048
    · rw [if_pos hle] at hT ⊢
      rw [if_pos hle]
      exact bfs16_spec X F hF T N ℓ0 D b0 off m' t s hk hm hD hoff hN hs hT
    · rw [if_neg hle] at hT ⊢
      rw [if_neg hle]
      obtain ⟨D1, rfl⟩ : ∃ D1, D = D1 + 1 := ⟨D - 1, by omega⟩
      have hD1 : 5 ≤ D1 := by
        by_contra hc
        have : D1 + 1 ≤ 5 := by omega
        have : 2 ^ (D1 + 1) ≤ 2 ^ 5 := Nat.pow_le_pow_right (by omega) this
        rw [← hm] at this; omega
      have hmm : m' = 2 * 2 ^ D1 := by rw [hm, pow_succ]; ring
      have hh : m' / 2 = 2 ^ D1 := by omega
      have hpw : m' * (1 + 4 * brev ℓ0 b0) / 2 = m' / 2 * (1 + 4 * brev ℓ0 b0) := by
        rw [hmm, Nat.mul_assoc, Nat.mul_div_cancel_left _ (by omega : 0 < 2),
          Nat.mul_div_cancel_left _ (by omega : 0 < 2)]
      rw [List.map_append, List.map_append] at hT
      have w := read_eP X T t _ hT.left.left
      have s1 := twPass_adv X F.ct hF.ct N ℓ0 D1 b0 off T[t]! T[t + 1]! s hs (by rw [hoff, hmm]) (by omega)
        (by rw [w, hpw, hh, twE])
      rw [← hh] at s1
      obtain ⟨a1, v1⟩ := s1
      -- left half
      have hTL := hT.left.right
      rw [show (List.map (val X.c X.s) (eP (m' * (1 + 4 * brev ℓ0 b0) / 2))).length = 2 by simp [eP]] at hTL
      have hpL : m' * (1 + 4 * brev ℓ0 b0) / 2 = m' / 2 * (1 + 4 * brev (ℓ0 + 1) (2 * b0)) := by
        rw [hpw, brev_even]
      rw [hpL] at hTL
      have s2 := ih D1 (ℓ0 + 1) (2 * b0) off (m' / 2) (t + 2) _ (by omega) hh hD1 (by rw [hoff, hh, hmm]; ring)
        (by omega) v1 hTL
      obtain ⟨a2, v2, p2⟩ := s2
      -- right half
      have hTR := hT.right
      rw [List.length_append, List.length_map, List.length_map,
        show (eP (m' * (1 + 4 * brev ℓ0 b0) / 2)).length = 2 by simp [eP]] at hTR
      have hpR : m' * (1 + 4 * brev ℓ0 b0) / 2 + 4 * 2 ^ X.k / 2 = m' / 2 * (1 + 4 * brev (ℓ0 + 1) (2 * b0 + 1)) := by
        rw [hpw, brev_odd, hk, hh, pow_add, pow_succ]
        have : 4 * (2 ^ ℓ0 * (2 ^ D1 * 2)) / 2 = 4 * (2 ^ ℓ0 * 2 ^ D1) := by
          rw [show 4 * (2 ^ ℓ0 * (2 ^ D1 * 2)) = 2 * (4 * (2 ^ ℓ0 * 2 ^ D1)) by ring]
          exact Nat.mul_div_cancel_left _ (by omega)
        rw [this]; ring
      rw [hpR, hpL, ← Nat.add_assoc, ← p2] at hTR
      have s3 := ih D1 (ℓ0 + 1) (2 * b0 + 1) (off + m' / 2) (m' / 2) _ _ (by omega) hh hD1
        (by rw [hoff, hh, hmm]; ring) (by omega) v2 hTR
      obtain ⟨a3, v3, p3⟩ := s3
      refine ⟨?_, v3, ?_⟩
      · have b1 := (a1.of_eq X.ζ X.a rfl (show m' = 2 * (m' / 2) by omega))
        have b23 := (a2.par X.ζ X.a a3).of_eq X.ζ X.a rfl (show m' = m' / 2 + m' / 2 by omega)
        exact b1.seq X.ζ X.a b23
      · rw [p3, p2, List.length_append, List.length_append, hpR, hpL]
        simp only [eP, List.length_cons, List.length_nil]
        omega

/-- level 0 is the input, the last level is the evaluation -/
theorem final_of_adv (x y : ℕ → R) (hx : ∀ p, p < 2 ^ X.k → x p = X.a p)
    (h : Adv X.ζ X.a x y 0 X.k X.k 0 0 (2 ^ X.k)) (j : ℕ) (hj : j < 2 ^ X.k) :
    y j = sumTo (2 ^ X.k) (fun i => X.a i * X.ζ ^ ((1 + 4 * brev X.k j) * i)) := by
  have hζ : X.ζ ^ (2 * 2 ^ X.k) = -1 := by
    rw [Nat.mul_comm, pow_mul, X.hI, pow_two, X.hI2]
  have h0 : Lv X.ζ X.a x 0 X.k 0 (0 + 2 ^ X.k) := fun p _ hp => by rw [hx p (by omega)]; rfl
  have := h.1 h0 j (by omega) (by omega)
  rw [this, V_top X.ζ X.a X.k hζ j hj]

/-- `fftRI` for `m = 2^k ≥ 32` -/
theorem fftRI_big (F : Flav R) (hF : FwdOK X.I F) (hk : 5 ≤ X.k) (s : RI R) (hs : Valid (2 ^ X.k) s) :
    Adv X.ζ X.a (cxs X.I s)
        (cxs X.I (fftRI F (2 ^ X.k) (((reimFftEnts (2 ^ X.k)).map (val X.c X.s)).toArray) s)) 0 X.k X.k 0 0 (2 ^ X.k) ∧
      Valid (2 ^ X.k) (fftRI F (2 ^ X.k) (((reimFftEnts (2 ^ X.k)).map (val X.c X.s)).toArray) s) := by
  have h32 : 32 ≤ 2 ^ X.k := by
    have : 2 ^ 5 ≤ 2 ^ X.k := Nat.pow_le_pow_right (by omega) hk
    simpa using this
  have hb0 : 2 ^ X.k * (1 + 4 * brev 0 0) = 2 ^ X.k := by simp [brev]
  have hE : reimFftEnts (2 ^ X.k) = if 2 ^ X.k ≤ 2048 then rBfs (4 * 2 ^ X.k) (2 ^ X.k) (2 ^ X.k)
      else rRec (4 * 2 ^ X.k) (2 ^ X.k) (2 ^ X.k) (2 ^ X.k) := by
    unfold reimFftEnts
    rw [if_neg (by omega)]
    rw [show ((2 ^ X.k == 2) = false) by simp; omega, show ((2 ^ X.k == 4) = false) by simp; omega,
      show ((2 ^ X.k == 8) = false) by simp; omega, show ((2 ^ X.k == 16) = false) by simp; omega]
    simp only [Bool.false_eq_true, ↓reduceIte]
  unfold fftRI
  rw [if_neg (by omega)]
  rw [show ((2 ^ X.k == 2) = false) by simp; omega, show ((2 ^ X.k == 4) = false) by simp; omega,
    show ((2 ^ X.k == 8) = false) by simp; omega, show ((2 ^ X.k == 16) = false) by simp; omega]
  simp only [Bool.false_eq_true, ↓reduceIte]
  rw [hE]
  by_cases hle : 2 ^ X.k ≤ 2048
  · rw [if_pos hle, if_pos hle]
    have hseg := Seg.of_toArray ((rBfs (4 * 2 ^ X.k) (2 ^ X.k) (2 ^ X.k)).map (val X.c X.s))
    have := bfs16_spec X F hF _ (2 ^ X.k) 0 X.k 0 0 (2 ^ X.k) 0 s (by omega) rfl hk (by ring) (by omega) hs
      (by rw [hb0]; exact hseg)
    exact ⟨this.1, this.2.1⟩
  · rw [if_neg hle, if_neg hle]
    have hseg := Seg.of_toArray ((rRec (4 * 2 ^ X.k) (2 ^ X.k) (2 ^ X.k) (2 ^ X.k)).map (val X.c X.s))
    have := rec16_spec X F hF _ (2 ^ X.k) (2 ^ X.k) X.k 0 0 0 (2 ^ X.k) 0 s (by omega) rfl hk (by ring) (by omega) hs
      (by rw [hb0]; exact hseg)
    exact ⟨this.1, this.2.1⟩

end Spq.Fft.ReimFwd
