/-
  The block save of `vmp_apply_dft_to_dft` and the invariant of its loops (C02.1).
-/
import SpqProofs.Lemmas.ModuleVmpApply
namespace Spq.Module
open Finset Spq Reim4
variable {R : Type} [CommRing R]

/-- `reim4_save_1blk_to_reim(m, blk, vec_output + col*nn, o8)` as the model writes it -/
def saveBlk (m nn blk : Nat) (res : Array R) (col : Nat) (o8 : Array R) : Array R :=
  writeAt (writeAt res (col * nn + 4 * blk) (o8.extract 0 4)) (col * nn + m + 4 * blk) (o8.extract 4 8)

theorem saveBlk_spec (m nn blk : Nat) (res : Array R) (col : Nat) (o8 : Array R) (ho : 8 ≤ o8.size)
    (hb : 4 * blk + 4 ≤ m) (hsz : col * nn + m + 4 * blk + 4 ≤ res.size) :
    (saveBlk m nn blk res col o8).size = res.size ∧
    (∀ k, k < 4 → (saveBlk m nn blk res col o8).getD (col * nn + 4 * blk + k) 0 = o8.getD k 0 ∧
      (saveBlk m nn blk res col o8).getD (col * nn + m + 4 * blk + k) 0 = o8.getD (4 + k) 0) ∧
    (∀ x, ¬ (col * nn + 4 * blk ≤ x ∧ x < col * nn + 4 * blk + 4) →
      ¬ (col * nn + m + 4 * blk ≤ x ∧ x < col * nn + m + 4 * blk + 4) →
      (saveBlk m nn blk res col o8).getD x 0 = res.getD x 0) := by
  have s1 : (o8.extract 0 4).size = 4 := by simp; omega
  have s2 : (o8.extract 4 8).size = 4 := by simp; omega
  unfold saveBlk
  refine ⟨by simp, ?_, ?_⟩
  · intro k hk
    constructor
    · rw [getD_writeAt_out _ _ _ _ _ (by omega), getD_writeAt_in _ _ _ _ _ (by omega) (by omega), getD_extract,
        if_pos (by omega), Nat.zero_add]
    · rw [getD_writeAt_in _ _ _ _ _ (by omega) (by rw [size_writeAt]; omega), getD_extract, if_pos (by omega)]
  · intro x h1 h2
    rw [getD_writeAt_out _ _ _ _ _ (by omega), getD_writeAt_out _ _ _ _ _ (by omega)]

/-- invariant of the output vector: the blocks marked `done` hold their final value, the columns from
    `colMax` on are still zero -/
def AInv (val : Nat → Nat → Cx R) (m nn rsz colMax : Nat) (done : Nat → Nat → Prop) (res : Array R) : Prop :=
  res.size = rsz * nn ∧
  (∀ col blk k, col < colMax → blk < m / 4 → k < 4 → done col blk →
    cx res (col * nn + 4 * blk + k) (col * nn + m + 4 * blk + k) = val col (4 * blk + k)) ∧
  (∀ x, colMax * nn ≤ x → res.getD x 0 = 0)

theorem AInv.mono {val : Nat → Nat → Cx R} {m nn rsz colMax : Nat} {done done' : Nat → Nat → Prop} {res : Array R}
    (h : AInv val m nn rsz colMax done res) (hd : ∀ col blk, col < colMax → blk < m / 4 → done' col blk → done col blk) :
    AInv val m nn rsz colMax done' res :=
  ⟨h.1, fun col blk k hc hb hk d => h.2.1 col blk k hc hb hk (hd col blk hc hb d), h.2.2⟩

theorem AInv.save {val : Nat → Nat → Cx R} {m nn rsz colMax : Nat} {done : Nat → Nat → Prop} {res : Array R}
    (h : AInv val m nn rsz colMax done res) (hnn : nn = 2 * m) (hm4 : m % 4 = 0) (hcm : colMax ≤ rsz)
    (col blk : Nat) (o8 : Array R) (hc : col < colMax) (hb : blk < m / 4) (ho : 8 ≤ o8.size)
    (hv : ∀ k, k < 4 → cx o8 k (k + 4) = val col (4 * blk + k)) :
    AInv val m nn rsz colMax (fun c b => done c b ∨ (c = col ∧ b = blk)) (saveBlk m nn blk res col o8) := by
  obtain ⟨h1, h2, h3⟩ := h
  have hcr := mul_step col rsz nn (by omega)
  have hcc := mul_step col colMax nn hc
  obtain ⟨s1, s2, s3⟩ := saveBlk_spec m nn blk res col o8 ho (by omega) (by omega)
  refine ⟨by rw [s1, h1], ?_, ?_⟩
  · intro col' blk' k hc' hb' hk d
    by_cases e : col' = col ∧ blk' = blk
    · obtain ⟨e1, e2⟩ := e
      subst e1 e2
      obtain ⟨a1, a2⟩ := s2 k hk
      rw [← hv k hk]
      ext
      · simp only [cx_re]; exact a1
      · simp only [cx_im]; rw [a2, Nat.add_comm]
    · have d' : done col' blk' := by
        rcases d with d | d
        · exact d
        · exact absurd d e
      rw [← h2 col' blk' k hc' hb' hk d']
      have t1 : col' < col → col' * nn + nn ≤ col * nn := mul_step _ _ _
      have t2 : col < col' → col * nn + nn ≤ col' * nn := mul_step _ _ _
      have t3 : col' = col → col' * nn = col * nn := fun q => by rw [q]
      rcases Nat.lt_trichotomy col' col with q | q | q
      · have := t1 q
        ext
        · simp only [cx_re]; exact s3 _ (by omega) (by omega)
        · simp only [cx_im]; exact s3 _ (by omega) (by omega)
      · have := t3 q
        have : blk' ≠ blk := fun q2 => e ⟨q, q2⟩
        ext
        · simp only [cx_re]; exact s3 _ (by omega) (by omega)
        · simp only [cx_im]; exact s3 _ (by omega) (by omega)
      · have := t2 q
        ext
        · simp only [cx_re]; exact s3 _ (by omega) (by omega)
        · simp only [cx_im]; exact s3 _ (by omega) (by omega)
  · intro x hx
    rw [s3 x (by omega) (by omega)]
    exact h3 x hx

/-! ### the loops of the reim4 branch -/

/-- one iteration of the block loop of `vmp_apply_dft_to_dft` (`nn ≥ 8`), in exact arithmetic -/
def blkBody (c : Parts R) (rsz : Nat) (adft : Array R) (asz : Nat) (pmat : Array R) (nrows ncols : Nat)
    (res : Array R) (blk : Nat) : Array R :=
  let rowMax := min nrows asz
  let colMax := min ncols rsz
  let ext := extBlk adft c.m rowMax blk
  let res := (List.range (colMax / 2)).foldl (fun res t =>
    let out := prod2 c.vmpAvx rowMax ext (pmatCol pmat nrows ncols blk (2 * t) 16)
    saveBlk c.m c.nn blk (saveBlk c.m c.nn blk res (2 * t) (out.extract 0 8)) (2 * t + 1) (out.extract 8 16)) res
  if colMax % 2 == 1 then
    let last := colMax - 1
    let out := if ncols == colMax then prod1 c.vmpAvx rowMax ext (pmatCol pmat nrows ncols blk last 8)
      else prod2 c.vmpAvx rowMax ext (pmatCol pmat nrows ncols blk last 16)
    saveBlk c.m c.nn blk res last (out.extract 0 8)
  else res

theorem vmpApply_eq_blk (c : Parts R) (har : c.ar = RArith.ofRing R) (h8 : 8 ≤ c.nn) (rsz : Nat) (adft : Array R)
    (asz : Nat) (pmat : Array R) (nrows ncols : Nat) :
    vmpApplyDftToDft c rsz adft asz pmat nrows ncols =
      (List.range (c.m / 4)).foldl (blkBody c rsz adft asz pmat nrows ncols) (Array.replicate (rsz * c.nn) 0) := by
  unfold vmpApplyDftToDft
  simp only [ge_iff_le, h8, if_true, har]
  rfl

theorem getD_replicate_zero (n x : Nat) : (Array.replicate n (0 : R)).getD x 0 = 0 := by
  simp only [Array.getD_eq_getD_getElem?, Array.getElem?_replicate]
  split <;> rfl

theorem cx_extract_lo (out : Array R) (k : Nat) (hk : k < 4) : cx (out.extract 0 8) k (k + 4) = cx out k (k + 4) := by
  ext
  · simp only [cx_re]; rw [getD_extract, if_pos (by omega), Nat.zero_add]
  · simp only [cx_im]; rw [getD_extract, if_pos (by omega), Nat.zero_add]

theorem cx_extract_hi (out : Array R) (k : Nat) (hk : k < 4) : cx (out.extract 8 16) k (k + 4) = cx out (8 + k) (8 + k + 4) := by
  ext
  · simp only [cx_re]; rw [getD_extract, if_pos (by omega)]
  · simp only [cx_im]; rw [getD_extract, if_pos (by omega), Nat.add_assoc]

omit [CommRing R] in
theorem size_lo (out : Array R) (h : out.size = 16 ∨ out.size = 8) : 8 ≤ (out.extract 0 8).size := by
  simp; omega

omit [CommRing R] in
theorem size_hi (out : Array R) (h : out.size = 16) : 8 ≤ (out.extract 8 16).size := by
  simp; omega

theorem blkBody_inv (c : Parts R) (ha : ExactArith c) (h8 : 8 ≤ c.nn) (mat : Array Int) (nrows ncols rsz asz : Nat)
    (adft : Array R) (B : Nat) (hB : B < c.m / 4) (res : Array R)
    (h : AInv (vmpVal adft (matDft c mat ncols) c.m (min nrows asz)) c.m c.nn rsz (min ncols rsz) (fun _ blk => blk < B) res) :
    AInv (vmpVal adft (matDft c mat ncols) c.m (min nrows asz)) c.m c.nn rsz (min ncols rsz) (fun _ blk => blk < B + 1)
      (blkBody c rsz adft asz (vmpPrepare c mat nrows ncols) nrows ncols res B) := by
  obtain ⟨har, hnn, _, hblk, _, _⟩ := ha
  have hm4 := hblk h8
  have hrm : min nrows asz ≤ nrows := Nat.min_le_left _ _
  have hcm : min ncols rsz ≤ rsz := Nat.min_le_right _ _
  have hcn : min ncols rsz ≤ ncols := Nat.min_le_left _ _
  unfold blkBody
  dsimp only
  -- the column pairs
  have pairs := foldl_range_inv
    (P := fun t res => AInv (vmpVal adft (matDft c mat ncols) c.m (min nrows asz)) c.m c.nn rsz (min ncols rsz)
      (fun col blk => blk < B ∨ (blk = B ∧ col < 2 * t)) res)
    (fun res t =>
      saveBlk c.m c.nn B (saveBlk c.m c.nn B res (2 * t)
        ((prod2 c.vmpAvx (min nrows asz) (extBlk adft c.m (min nrows asz) B)
          (pmatCol (vmpPrepare c mat nrows ncols) nrows ncols B (2 * t) 16)).extract 0 8)) (2 * t + 1)
        ((prod2 c.vmpAvx (min nrows asz) (extBlk adft c.m (min nrows asz) B)
          (pmatCol (vmpPrepare c mat nrows ncols) nrows ncols B (2 * t) 16)).extract 8 16))
    (min ncols rsz / 2) res
    (h.mono (fun col blk _ _ d => by omega))
    (by
      intro t res ht hi
      have pv := fun k hk => prod2_val c har mat nrows ncols h8 hnn hm4 adft (min nrows asz) hrm c.vmpAvx (2 * t) B k
        (by omega) (by omega) hB hk
      have hs := (pv 0 (by omega)).1
      have st1 := hi.save hnn hm4 hcm (2 * t) B _ (by omega) hB (size_lo _ (Or.inl hs))
        (fun k hk => by rw [cx_extract_lo _ k hk]; exact (pv k hk).2.1)
      have st2 := st1.save hnn hm4 hcm (2 * t + 1) B _ (by omega) hB (size_hi _ hs)
        (fun k hk => by rw [cx_extract_hi _ k hk]; exact (pv k hk).2.2)
      exact st2.mono (fun col blk _ _ d => by omega))
  by_cases hodd : (min ncols rsz % 2 == 1) = true
  · rw [if_pos hodd]
    have hodd' : min ncols rsz % 2 = 1 := by simpa using hodd
    by_cases hl : (ncols == min ncols rsz) = true
    · rw [if_pos hl]
      have hl' : ncols = min ncols rsz := by simpa using hl
      have pv := fun k hk => prod1_val c har mat nrows ncols h8 hnn hm4 adft (min nrows asz) hrm c.vmpAvx
        (min ncols rsz - 1) B k (by omega) hB hk
      have hs := (pv 0 (by omega)).1
      have st := pairs.save hnn hm4 hcm (min ncols rsz - 1) B _ (by omega) hB (size_lo _ (Or.inr hs))
        (fun k hk => by rw [cx_extract_lo _ k hk]; exact (pv k hk).2)
      exact st.mono (fun col blk _ _ d => by omega)
    · rw [if_neg hl]
      have hl' : ncols ≠ min ncols rsz := by simpa using hl
      have pv := fun k hk => prod2_val c har mat nrows ncols h8 hnn hm4 adft (min nrows asz) hrm c.vmpAvx
        (min ncols rsz - 1) B k (by omega) (by omega) hB hk
      have hs := (pv 0 (by omega)).1
      have st := pairs.save hnn hm4 hcm (min ncols rsz - 1) B _ (by omega) hB (size_lo _ (Or.inl hs))
        (fun k hk => by rw [cx_extract_lo _ k hk]; exact (pv k hk).2.1)
      exact st.mono (fun col blk _ _ d => by omega)
  · rw [if_neg hodd]
    have hodd' : ¬ (min ncols rsz % 2 = 1) := by simpa using hodd
    exact pairs.mono (fun col blk _ _ d => by omega)

/-- `vmp_apply_dft_to_dft ∘ vmp_prepare`, `nn ≥ 8`: every block of every computed column holds the specified sum,
    the columns from `min ncols rsz` on are zero -/
theorem vmpApply_blk_inv (c : Parts R) (ha : ExactArith c) (h8 : 8 ≤ c.nn) (mat : Array Int) (nrows ncols rsz asz : Nat)
    (adft : Array R) :
    AInv (vmpVal adft (matDft c mat ncols) c.m (min nrows asz)) c.m c.nn rsz (min ncols rsz) (fun _ _ => True)
      (vmpApplyDftToDft c rsz adft asz (vmpPrepare c mat nrows ncols) nrows ncols) := by
  rw [vmpApply_eq_blk c ha.har h8]
  refine (foldl_range_inv (P := fun B res => AInv (vmpVal adft (matDft c mat ncols) c.m (min nrows asz)) c.m c.nn rsz
    (min ncols rsz) (fun _ blk => blk < B) res) _ _ _ ?_ ?_).mono (fun col blk _ hb _ => hb)
  · refine ⟨by simp, ?_, ?_⟩
    · intro col blk k _ _ _ d
      omega
    · intro x _
      exact getD_replicate_zero _ _
  · intro B res hB hi
    exact blkBody_inv c ha h8 mat nrows ncols rsz asz adft B hB res hi

end Spq.Module
