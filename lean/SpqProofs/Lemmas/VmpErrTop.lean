/-
  C02 rounding budget, step 13: assembly.  `vmp_err_col` (every coefficient of a computed column is an integer within
  `Esum + 1/2` of the exact one), `vmp_exact_col` (`Esum < 1/2` ⇒ exact), `vmp_zero_col` (columns beyond the matrix,
  beyond the DFT vector, or — `nn < 8` — without a usable row are exactly zero), `svp_zero_row`.
-/
import SpqProofs.Lemmas.VmpErrZero
set_option linter.unusedSectionVars false
namespace Spq.VmpErr
open Finset Spq Spq.Module Spq.Fft Spq.Fft.Alg Spq.FftErr Spq.F64 Spq.Reim4 Spq.ProdErr Spq.C06Err Spq.Conv
variable {K : Type} [Field K] [LinearOrder K] [IsStrictOrderedRing K]

theorem vmp_err_col (c : Cfg) (k : ℕ) (hk : k ≤ 16) (cN sN cNi sNi : ℕ → ℕ) (h : VCfgOk c k cN sN cNi sNi)
    (ζ ζi : Cplx K) (hζ : nsq ζ = 1) (hI : ζ ^ 2 ^ k = Ic) (hinv : ζ * ζi = 1)
    (hcs : ∀ ℓ d b, ℓ + d + 1 = k → b < 2 ^ ℓ →
      nsq (toC (((val (cN (twE ℓ d b)) : ℚ) : K), ((val (sN (twE ℓ d b)) : ℚ) : K)) - ζ ^ twE ℓ d b) ≤
        (((7 / 2 * u64 : ℚ)) : K) ^ 2)
    (hcsi : ∀ ℓ d b, ℓ + d + 1 = k → b < 2 ^ ℓ →
      nsq (toC (((val (cNi (twE ℓ d b)) : ℚ) : K), ((val (sNi (twE ℓ d b)) : ℚ) : K)) - ζi ^ twE ℓ d b) ≤
        (((7 / 2 * u64 : ℚ)) : K) ^ 2)
    (mat : Array Int) (nrows ncols : ℕ) (a : Array Int) (asz asl rsz rsz2 : ℕ)
    (hn : 2 * min nrows asz + 2 ≤ 67108864)
    (hA : ∀ i, i < min nrows asz → Box k (limbOf a i asl (2 * 2 ^ k)))
    (hM : ∀ i j, i < nrows → j < ncols → Box k (matEntry mat ncols (2 * 2 ^ k) i j))
    (j : ℕ) (hj : j < min ncols rsz) (hj2 : j < rsz2) (hpos : k < 2 → 0 < min nrows asz)
    (hok : VmpOk c k cN sN cNi sNi mat nrows ncols a asz asl rsz j)
    (na nb : ℕ → K) (hna0 : ∀ i, i < min nrows asz → 0 ≤ na i) (hnb0 : ∀ i, i < min nrows asz → 0 ≤ nb i)
    (hna : ∀ i, i < min nrows asz → n2sq K (limbOf a i asl (2 * 2 ^ k)) (2 * 2 ^ k) ≤ na i ^ 2)
    (hnb : ∀ i, i < min nrows asz → n2sq K (matEntry mat ncols (2 * 2 ^ k) i j) (2 * 2 ^ k) ≤ nb i ^ 2)
    (hnl : ∀ i, i < min nrows asz → nb i ≤ n1 K (matEntry mat ncols (2 * 2 ^ k) i j) (2 * 2 ^ k))
    (hdom : ∀ t, t < 2 * 2 ^ k → |(((colSpec k mat nrows ncols a asz asl j).getD t 0 : Int) : K)| +
      Esum K k mat nrows ncols a asz asl j na nb < ((Bv c.toVariant : ℚ) : K)) :
    ∀ t, t < 2 * 2 ^ k → ∃ r : ℤ,
      (dlimb (vecIdft (Cfg.parts c) rsz2 (vmpRes c mat nrows ncols a asz asl rsz) rsz) j (2 * 2 ^ k))[t]? = some r ∧
      |(r : K) - (((colSpec k mat nrows ncols a asz asl j).getD t 0 : Int) : K)| ≤
        Esum K k mat nrows ncols a asz asl j na nb + 1 / 2 := by
  have hle := vbudget_le (K := K) k hk mat nrows ncols a asz asl j hn na nb hna0 hnb0
  have hdom' : VOutDom K c k mat nrows ncols a asz asl j na nb := fun t ht => lt_of_le_of_lt (by linarith) (hdom t ht)
  intro t ht
  obtain ⟨r, h1, h2⟩ := col_out c k (by omega) cN sN cNi sNi h ζ ζi hζ hI hinv hcs hcsi mat nrows ncols a asz asl rsz rsz2
    hA hM j hj hj2 hpos hok na nb hna0 hnb0 hna hnb hnl hdom' t ht
  exact ⟨r, h1, le_trans h2 (by linarith)⟩

theorem vmp_exact_col (c : Cfg) (k : ℕ) (hk : k ≤ 16) (cN sN cNi sNi : ℕ → ℕ) (h : VCfgOk c k cN sN cNi sNi)
    (ζ ζi : Cplx K) (hζ : nsq ζ = 1) (hI : ζ ^ 2 ^ k = Ic) (hinv : ζ * ζi = 1)
    (hcs : ∀ ℓ d b, ℓ + d + 1 = k → b < 2 ^ ℓ →
      nsq (toC (((val (cN (twE ℓ d b)) : ℚ) : K), ((val (sN (twE ℓ d b)) : ℚ) : K)) - ζ ^ twE ℓ d b) ≤
        (((7 / 2 * u64 : ℚ)) : K) ^ 2)
    (hcsi : ∀ ℓ d b, ℓ + d + 1 = k → b < 2 ^ ℓ →
      nsq (toC (((val (cNi (twE ℓ d b)) : ℚ) : K), ((val (sNi (twE ℓ d b)) : ℚ) : K)) - ζi ^ twE ℓ d b) ≤
        (((7 / 2 * u64 : ℚ)) : K) ^ 2)
    (mat : Array Int) (nrows ncols : ℕ) (a : Array Int) (asz asl rsz rsz2 : ℕ)
    (hn : 2 * min nrows asz + 2 ≤ 67108864)
    (hA : ∀ i, i < min nrows asz → Box k (limbOf a i asl (2 * 2 ^ k)))
    (hM : ∀ i j, i < nrows → j < ncols → Box k (matEntry mat ncols (2 * 2 ^ k) i j))
    (j : ℕ) (hj : j < min ncols rsz) (hj2 : j < rsz2) (hpos : k < 2 → 0 < min nrows asz)
    (hok : VmpOk c k cN sN cNi sNi mat nrows ncols a asz asl rsz j)
    (na nb : ℕ → K) (hna0 : ∀ i, i < min nrows asz → 0 ≤ na i) (hnb0 : ∀ i, i < min nrows asz → 0 ≤ nb i)
    (hna : ∀ i, i < min nrows asz → n2sq K (limbOf a i asl (2 * 2 ^ k)) (2 * 2 ^ k) ≤ na i ^ 2)
    (hnb : ∀ i, i < min nrows asz → n2sq K (matEntry mat ncols (2 * 2 ^ k) i j) (2 * 2 ^ k) ≤ nb i ^ 2)
    (hnl : ∀ i, i < min nrows asz → nb i ≤ n1 K (matEntry mat ncols (2 * 2 ^ k) i j) (2 * 2 ^ k))
    (hE : Esum K k mat nrows ncols a asz asl j na nb < 1 / 2) :
    dlimb (vecIdft (Cfg.parts c) rsz2 (vmpRes c mat nrows ncols a asz asl rsz) rsz) j (2 * 2 ^ k) =
      colSpec k mat nrows ncols a asz asl j := by
  obtain ⟨_, _, hcb⟩ := col_inv_stage c k cN sN cNi sNi h ζ ζi hζ hI hinv hcs hcsi mat nrows ncols a asz asl rsz hA hM
    j hj hpos hok na nb hna0 hnb0 hna hnb hnl
  have hdom := voutDom_of_small c k hk mat nrows ncols a asz asl j hn na nb hna0 hnb0 hcb hE
  have hle := vbudget_le (K := K) k hk mat nrows ncols a asz asl j hn na nb hna0 hnb0
  have hjr : j < rsz := lt_of_lt_of_le hj (Nat.min_le_right _ _)
  apply array_eq_of_cells (2 * 2 ^ k)
  · rw [idft_col c k cN sN cNi sNi h mat nrows ncols a asz asl rsz rsz2 j hj2, if_pos hjr]
    exact toZnx_size c k h.cfg.nn h.cfg.toVar _
  · unfold colSpec; exact size_isum _ _ _
  · intro t ht
    obtain ⟨r, h1, h2⟩ := col_out c k (by omega) cN sN cNi sNi h ζ ζi hζ hI hinv hcs hcsi mat nrows ncols a asz asl rsz rsz2
      hA hM j hj hj2 hpos hok na nb hna0 hnb0 hna hnb hnl hdom t ht
    refine ⟨r, h1, int_eq_of_lt_one (K := K) r _ ?_⟩
    linarith

/-- **zero columns in binary64**: output limb `j` is exactly zero when `j ≥ min ncols rsz` (beyond the matrix or
    beyond the DFT-space result) or — `nn < 8` — when there is no usable row -/
theorem vmp_zero_col (c : Cfg) (k : ℕ) (hk : k ≤ 961) (cN sN cNi sNi : ℕ → ℕ) (h : VCfgOk c k cN sN cNi sNi)
    (mat : Array Int) (nrows ncols : ℕ) (a : Array Int) (asz asl rsz rsz2 : ℕ)
    (hM : ∀ i j, i < nrows → j < ncols → Box k (matEntry mat ncols (2 * 2 ^ k) i j))
    (j : ℕ) (hj2 : j < rsz2) (hz : min ncols rsz ≤ j ∨ (k < 2 ∧ min nrows asz = 0)) :
    dlimb (vecIdft (Cfg.parts c) rsz2 (vmpRes c mat nrows ncols a asz asl rsz) rsz) j (2 * 2 ^ k) =
      Array.replicate (2 * 2 ^ k) 0 := by
  have hnn : (Cfg.parts c).nn = 2 * 2 ^ k := h.cfg.nn
  obtain ⟨_, b2⟩ := vecIdft_spec (Cfg.parts c) rsz2 (vmpRes c mat nrows ncols a asz asl rsz) rsz _ (fun i _ => rfl)
    (by
      intro i _
      split
      · rw [hnn]; exact toZnx_size c k h.cfg.nn h.cfg.toVar _
      · simp)
  have b := b2 j hj2
  rw [hnn] at b
  rw [b]
  by_cases hjr : j < rsz
  · rw [if_pos hjr]
    have hsz := vmpRes_size c k cN sN cNi sNi h mat nrows ncols a asz asl rsz hM
    apply zero_col_out c k hk cN sN cNi sNi h.cfg _ (dlimb_size _ j _ rsz hsz hjr)
    intro p hp
    rw [dlimb_get 0 _ j (2 * 2 ^ k) p hp]
    have hT : ∀ row col, row < nrows → col < ncols → (matDft (Cfg.parts c) mat ncols row col).size = (Cfg.parts c).nn := by
      intro row col hr hc
      rw [matDft_stF c k cN sN cNi sNi h, hnn]
      exact stF_size c k cN sN cNi sNi h.cfg _ (hM row col hr hc)
    obtain ⟨_, _, z1, z2⟩ := vmp_layout_g (Cfg.parts c) (p_hnn c k cN sN cNi sNi h) (p_hblk c k cN sN cNi sNi h)
      (p_hsm c k cN sN cNi sNi h) mat nrows ncols rsz asz (vecDft (Cfg.parts c) (min nrows asz) a asz asl) (fun _ => hT)
    rcases hz with hz | ⟨hk2, hz⟩
    · have := z1 j p hz
      rw [hnn] at this
      exact this
    · have h8 : (Cfg.parts c).nn < 8 := by
        rw [hnn]
        have : k = 0 ∨ k = 1 := by omega
        rcases this with rfl | rfl <;> norm_num
      exact z2 h8 hz _
  · rw [if_neg hjr]

/-- **zero rows of the SVP pipeline in binary64**: the rows `i ≥ asz` (no input limb) of
    `vec_znx_idft (svp_apply_dft …)` are exactly zero -/
theorem svp_zero_row (c : Cfg) (k : ℕ) (hk : k ≤ 961) (cN sN cNi sNi : ℕ → ℕ) (h : CfgOk c k cN sN cNi sNi)
    (ppol : Array ℕ) (vec : Array Int) (asz asl rsz rsz2 i : ℕ) (hi : i < rsz2) (hz : asz ≤ i) :
    dlimb (vecIdft (Cfg.parts c) rsz2 (svpApply (Cfg.parts c) rsz ppol vec asz asl) rsz) i (2 * 2 ^ k) =
      Array.replicate (2 * 2 ^ k) 0 := by
  have hnn : (Cfg.parts c).nn = 2 * 2 ^ k := h.nn
  obtain ⟨_, a2⟩ := svpApply_spec (Cfg.parts c) rsz ppol vec asz asl _ (fun i _ => rfl)
    (by
      intro j _
      split
      · rw [hnn]; exact mul_size c k cN sN cNi sNi h _ _
      · simp)
  obtain ⟨_, b2⟩ := vecIdft_spec (Cfg.parts c) rsz2 (svpApply (Cfg.parts c) rsz ppol vec asz asl) rsz _ (fun i _ => rfl)
    (by
      intro j _
      split
      · rw [hnn]; exact toZnx_size c k h.nn h.toVar _
      · simp)
  have b := b2 i hi
  rw [hnn] at b
  rw [b]
  by_cases hir : i < rsz
  · rw [if_pos hir]
    have a := a2 i hir
    rw [hnn] at a
    rw [a, if_neg (by omega)]
    apply zero_col_out c k hk cN sN cNi sNi h _ (by simp)
    intro p _
    exact getD_replicate_z 0 _ p
  · rw [if_neg hir]

end Spq.VmpErr
