/-
  NTT part of C04 (q120 lazy arithmetic never wraps) — to be cited from Properties/C04.lean.

  * `splitMul_sound`, `modqRed_sound`   (Lemmas/NttArith)   the two lazy multiplications;
  * `level_sound`, `cert_sound`          (Lemmas/NttCert)    one level / any list of levels, symbolic metadata;
  * `cert_current` (here): the certificate evaluated by the kernel on the metadata EXTRACTED from the live
    precomp objects (`Gen.Q120Meta`), input bound 2^64 (any 64-bit lane), every n = 2^k, k = 1..16, every lane,
    forward and inverse;
  * `ntt_nowrap`, `intt_nowrap` (here): consequently, for the real metadata and the model-generated tables, on
    every 64-bit input nothing exceeds its word in any pass and the outputs are congruent to the exact transform.
-/
import Gen.Q120Meta
import SpqProofs.Lemmas.NttConv

namespace Spq.Q120Ntt

/-- what one lane of a precomp object consists of -/
structure LaneMeta where
  q : Nat
  Ω : Nat
  levels : Array Level
  R : Reduc

/-- lane `j` of a dumped level record `[bs, half_bs, mask, reduce, q2bs0, q2bs1, q2bs2, q2bs3]` -/
def levelOfRaw (j : Nat) (r : List Nat) : Level :=
  { bs := r.getD 0 0, h := r.getD 1 0, mask := r.getD 2 0, reduce := r.getD 3 0 != 0, q2bs := r.getD (4 + j) 0 }

/-- lane `j` of a dumped reduction record `[h, mask, cst0, cst1, cst2, cst3]` -/
def reducOfRaw (j : Nat) (r : List Nat) : Reduc :=
  { h := r.getD 0 0, mask := r.getD 1 0, cst := r.getD (2 + j) 0 }

def laneMeta (lv : List (List (List Nat))) (red : List (List Nat)) (k j : Nat) : LaneMeta :=
  { q := Gen.Q120Meta.primes.getD j 0, Ω := Gen.Q120Meta.omegas.getD j 0,
    levels := ((lv.getD k []).map (levelOfRaw j)).toArray, R := reducOfRaw j (red.getD k []) }

end Spq.Q120Ntt

/-- lane `j` of the live forward precomp object for `n = 2^k` -/
def Gen.nttMeta (k j : Nat) : Spq.Q120Ntt.LaneMeta :=
  Spq.Q120Ntt.laneMeta Gen.Q120Meta.nttLevels Gen.Q120Meta.nttReduc k j
/-- lane `j` of the live inverse precomp object for `n = 2^k` -/
def Gen.inttMeta (k j : Nat) : Spq.Q120Ntt.LaneMeta :=
  Spq.Q120Ntt.laneMeta Gen.Q120Meta.inttLevels Gen.Q120Meta.inttReduc k j

namespace Spq.Q120Ntt

/-- the certificate accepts every 64-bit input and the outputs are 64-bit words -/
def certBound (q : Nat) (R : Reduc) (ds : List LDesc) : Bool :=
  decide (1 < q) && match certOK q R ds W64 with
    | some B' => decide (B' ≤ W64)
    | none => false

def certFwdOK (M : LaneMeta) (k : Nat) : Bool := certBound M.q M.R (fwdDescs k M.levels)
def certInvOK (M : LaneMeta) (k : Nat) : Bool := certBound M.q M.R (invDescs k M.levels)

/-- the roots the tables are built from: `omega_n * omega_n^-1 = 1`, `n * n^-1 = 1` (mod q), as computed by
    the model of `modq_pow` -/
def rootsOK (M : LaneMeta) (k : Nat) : Bool :=
  decide ((omegaN M.q M.Ω k * modqPow (omegaN M.q M.Ω k) (-1) M.q) % M.q = 1) &&
  decide ((2 ^ k % M.q * modqPow (2 ^ k) (-1) M.q) % M.q = 1)

/-- `omega_n` is a primitive `2n`-th root of unity: `omega_n^n = -1 (mod q)` (by `k` modular squarings) -/
def primOK (M : LaneMeta) (k : Nat) : Bool := decide (sqPow M.q (omegaN M.q M.Ω k) k = M.q - 1)

def certAll : Bool :=
  (List.range' 1 16).all fun k => (List.range 4).all fun j =>
    certFwdOK (Gen.nttMeta k j) k && certInvOK (Gen.inttMeta k j) k &&
    rootsOK (Gen.nttMeta k j) k && decide ((Gen.inttMeta k j).q = (Gen.nttMeta k j).q) &&
    decide ((Gen.inttMeta k j).Ω = (Gen.nttMeta k j).Ω) && primOK (Gen.nttMeta k j) k

theorem certAll_true : certAll = true := by decide +kernel

/-- **cert_current**: exact interval arithmetic on the metadata extracted from the real precomp objects
    accepts any 64-bit lane content, for every `n = 2^k`, `k = 1..16`, every lane, forward and inverse. -/
theorem cert_current (k j : Nat) (hk1 : 1 ≤ k) (hk : k ≤ 16) (hj : j < 4) :
    certFwdOK (Gen.nttMeta k j) k = true ∧ certInvOK (Gen.inttMeta k j) k = true ∧
    rootsOK (Gen.nttMeta k j) k = true ∧ (Gen.inttMeta k j).q = (Gen.nttMeta k j).q ∧
    (Gen.inttMeta k j).Ω = (Gen.nttMeta k j).Ω ∧ primOK (Gen.nttMeta k j) k = true := by
  have h := certAll_true
  simp only [certAll, List.all_eq_true, Bool.and_eq_true, decide_eq_true_eq] at h
  have := h k (List.mem_range'_1.2 ⟨hk1, by omega⟩) j (by simpa using hj)
  tauto

theorem certBound_spec {q : Nat} {R : Reduc} {ds : List LDesc} (h : certBound q R ds = true) :
    1 < q ∧ ∃ B', certOK q R ds W64 = some B' ∧ B' ≤ W64 := by
  simp only [certBound, Bool.and_eq_true, decide_eq_true_eq] at h
  refine ⟨h.1, ?_⟩
  cases hc : certOK q R ds W64 with
  | none => rw [hc] at h; simp at h
  | some B' => rw [hc] at h; exact ⟨B', rfl, by simpa using h.2⟩

/-- forward NTT with the REAL metadata: for every `n = 2^k ≤ 2^16`, every lane, every vector of 64-bit words,
    in every pass of the schedule no sum, lazy subtraction or `mul_epu32` operand exceeds its word
    (`safeAll`), and every output is congruent mod `q_j` to the exact transform. -/
theorem ntt_nowrap (k j : Nat) (hk1 : 1 ≤ k) (hk : k ≤ 16) (hj : j < 4)
    (x : Array Nat) (hx : x.size = 2 ^ k) (hlt : ∀ i < 2 ^ k, rd x i < W64) :
    let M := Gen.nttMeta k j
    let tbl := tableFwd M.q M.Ω k M.levels
    let w : ZMod M.q := ((omegaN M.q M.Ω k : Nat) : ZMod M.q)
    safeAll (2 ^ k) M.R (fwdLSteps k M.levels tbl w) (rd x) ∧
    ∀ i < 2 ^ k, rd (nttLane k M.levels M.R tbl x) i < W64 ∧
      ((rd (nttLane k M.levels M.R tbl x) i : Nat) : ZMod M.q)
        = exNtt w k (fun t => ((rd x t : Nat) : ZMod M.q)) i := by
  intro M tbl w
  obtain ⟨hq, B', hc, hB'⟩ := certBound_spec (cert_current k j hk1 hk hj).1
  obtain ⟨_, h2, h3⟩ := nttLane_refines M.q M.Ω k hq (by omega) M.levels M.R B' hc x hx hlt
  exact ⟨h2, fun i hi => ⟨lt_of_lt_of_le (h3 i hi).1 hB', (h3 i hi).2⟩⟩

/-- inverse NTT with the REAL metadata, same statement -/
theorem intt_nowrap (k j : Nat) (hk1 : 1 ≤ k) (hk : k ≤ 16) (hj : j < 4)
    (x : Array Nat) (hx : x.size = 2 ^ k) (hlt : ∀ i < 2 ^ k, rd x i < W64) :
    let M := Gen.inttMeta k j
    let tbl := tableInv M.q M.Ω k M.levels
    let v : ZMod M.q := ((modqPow (omegaN M.q M.Ω k) (-1) M.q : Nat) : ZMod M.q)
    let ninv : ZMod M.q := ((modqPow (2 ^ k) (-1) M.q : Nat) : ZMod M.q)
    safeAll (2 ^ k) M.R (invLSteps k M.levels tbl v ninv) (rd x) ∧
    ∀ i < 2 ^ k, rd (inttLane k M.levels M.R tbl x) i < W64 ∧
      ((rd (inttLane k M.levels M.R tbl x) i : Nat) : ZMod M.q)
        = exIntt v ninv k (fun t => ((rd x t : Nat) : ZMod M.q)) i := by
  intro M tbl v ninv
  obtain ⟨hq, B', hc, hB'⟩ := certBound_spec (cert_current k j hk1 hk hj).2.1
  obtain ⟨_, h2, h3⟩ := inttLane_refines M.q M.Ω k hq (by omega) M.levels M.R B' hc x hx hlt
  exact ⟨h2, fun i hi => ⟨lt_of_lt_of_le (h3 i hi).1 hB', (h3 i hi).2⟩⟩

/-! ### the hypotheses are satisfiable -/

/-- `level_sound`'s hypothesis holds for a real level: n = 16, lane 0, the folding level (`reduce = 1`, h = 47)
    accepts every 64-bit input -/
example :
    let M := Gen.nttMeta 4 0
    (M.levels.getD 2 default).reduce = true ∧
    (levelOK M.q M.R ⟨.fwd, 8, M.levels.getD 2 default⟩ W64).isSome = true := by decide +kernel

/-- … and the check is sharp: the same level without its modular folding is rejected -/
example :
    let M := Gen.nttMeta 4 0
    levelOK M.q M.R ⟨.fwd, 8, { M.levels.getD 2 default with reduce := false }⟩ W64 = none := by decide +kernel

/-- `cert_sound`'s hypothesis holds for the whole real inverse transform of size 65536, lane 3 -/
example : (certOK (Gen.inttMeta 16 3).q (Gen.inttMeta 16 3).R (invDescs 16 (Gen.inttMeta 16 3).levels) W64).isSome = true := by
  decide +kernel

end Spq.Q120Ntt
