/-
  Bridge between the aliasing contract of C08 (`Heap.SrcOK`) and the per-limb window condition of the source
  theorems of the limb-vector wrappers (`SameOrDisj`).
-/
import SpqProofs.Lemmas.SrcVecTac
import SpqProofs.Properties.C08
namespace Spq.Src
open Spq Spq.CIR Spq.Heap

/-- `Heap.SrcOK` (the source is the output itself, or all its limbs are disjoint from all output limbs) gives the
    per-limb condition of the source theorems -/
theorem sameOrDisj_of_srcOK (nn res rsz rsl a asz asl : Nat) (h : Heap.SrcOK nn res rsz rsl a asz asl) :
    ∀ i, i < min rsz asz → SameOrDisj nn (res + i * rsl) (a + i * asl) := by
  intro i hi
  have hi' := Nat.lt_min.mp hi
  rcases h with ⟨h1, h2⟩ | h
  · subst h1; subst h2; exact Or.inl rfl
  · rcases h i i hi'.2 hi'.1 with h | h
    · exact Or.inr (Or.inr h)
    · exact Or.inr (Or.inl h)

end Spq.Src
