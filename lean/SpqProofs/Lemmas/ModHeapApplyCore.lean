/-
  `vmp_apply_dft_to_dft` as a blind writer: generic fillers for both layouts (`nn ≥ 8`: block loop with the
  column-pair dot products; `nn < 8`: one `mul` + `addmul` chain per column), their equality with
  `Spq.Module.vmpApplyDftToDft`, the `Agree` statements and the coverage of the first `col_max` result limbs.
-/
import SpqProofs.Lemmas.ModHeapAgree
namespace Spq.ModuleHeap
open Spq Heap Reim4
variable {γ α δ : Type}

/-! ### `nn ≥ 8` -/

def saveG (st : Array α → Array δ) (m nn blk : Nat) (res : Array δ) (col : Nat) (o8 : Array α) : Array δ :=
  Module.writeAt (Module.writeAt res (col * nn + 4 * blk) (st (o8.extract 0 4))) (col * nn + m + 4 * blk) (st (o8.extract 4 8))

/-- the extracted block `blk` of the first `rowMax` limbs of `adft` -/
def extOf (c : Module.Parts α) (rowMax blk : Nat) (adft : Array α) : Array α :=
  extract1blkFromContiguousReimRef c.ar.zero c.m rowMax blk (Array.replicate (8 * rowMax) c.ar.zero) adft

/-- the 16 accumulator cells for the column pair starting at `col` -/
def out2Of (c : Module.Parts α) (rowMax nrows ncols blk col : Nat) (adft pmat : Array α) : Array α :=
  prod2 c rowMax (extOf c rowMax blk adft)
    (pmat.extract (blk * (8 * nrows * ncols) + col * (8 * nrows)) (blk * (8 * nrows * ncols) + col * (8 * nrows) + 16 * nrows))

/-- the accumulator cells for the odd last column -/
def outLastOf (c : Module.Parts α) (rowMax colMax nrows ncols blk : Nat) (adft pmat : Array α) : Array α :=
  if ncols == colMax then
    prod1 c rowMax (extOf c rowMax blk adft)
      (pmat.extract (blk * (8 * nrows * ncols) + (colMax - 1) * (8 * nrows))
        (blk * (8 * nrows * ncols) + (colMax - 1) * (8 * nrows) + 8 * nrows))
  else out2Of c rowMax nrows ncols blk (colMax - 1) adft pmat

def applyBlkG (st : Array α → Array δ) (c : Module.Parts α) (rowMax colMax nrows ncols : Nat) (adft pmat : Array α)
    (blk : Nat) (res : Array δ) : Array δ :=
  let res := (List.range (colMax / 2)).foldl (fun res t =>
    saveG st c.m c.nn blk (saveG st c.m c.nn blk res (2 * t) ((out2Of c rowMax nrows ncols blk (2 * t) adft pmat).extract 0 8))
      (2 * t + 1) ((out2Of c rowMax nrows ncols blk (2 * t) adft pmat).extract 8 16)) res
  if colMax % 2 == 1 then
    saveG st c.m c.nn blk res (colMax - 1) ((outLastOf c rowMax colMax nrows ncols blk adft pmat).extract 0 8)
  else res

def applyBigG (st : Array α → Array δ) (c : Module.Parts α) (rowMax colMax nrows ncols : Nat) (adft pmat : Array α)
    (res : Array δ) : Array δ :=
  (List.range (c.m / 4)).foldl (fun res blk => applyBlkG st c rowMax colMax nrows ncols adft pmat blk res) res

theorem vmpApply_eq_big (c : Module.Parts α) (rsz : Nat) (adft : Array α) (asz : Nat) (pmat : Array α) (nrows ncols : Nat)
    (h8 : c.nn ≥ 8) :
    Module.vmpApplyDftToDft c rsz adft asz pmat nrows ncols =
      applyBigG id c (min nrows asz) (min ncols rsz) nrows ncols adft pmat (Array.replicate (rsz * c.nn) c.ar.zero) := by
  unfold Module.vmpApplyDftToDft applyBigG applyBlkG saveG outLastOf out2Of extOf prod2 prod1
  simp only [if_pos h8, id]

/-- cells written by one block save -/
def saveCells (m nn blk col x : Nat) : Prop := In (col * nn + 4 * blk) 4 x ∨ In (col * nn + m + 4 * blk) 4 x

theorem saveG_agree (enc : α → γ) (m nn blk col : Nat) (o8 : Array α) (ho : o8.size = 8) :
    Agree enc (saveCells m nn blk col) (fun R => saveG id m nn blk R col o8) (fun G => saveG (Array.map enc) m nn blk G col o8) := by
  unfold saveG saveCells
  exact (Agree.write' enc (col * nn + 4 * blk) (o8.extract 0 4) 4 (by simp; omega)).comp
    (Agree.write' enc (col * nn + m + 4 * blk) (o8.extract 4 8) 4 (by simp; omega))

def blkCells (m nn colMax blk x : Nat) : Prop :=
  (∃ t, t < colMax / 2 ∧ (saveCells m nn blk (2 * t) x ∨ saveCells m nn blk (2 * t + 1) x)) ∨
  ((colMax % 2 == 1) = true ∧ saveCells m nn blk (colMax - 1) x)

theorem size_out2Of (c : Module.Parts α) (rowMax nrows ncols blk col : Nat) (adft pmat : Array α) :
    (out2Of c rowMax nrows ncols blk col adft pmat).size = 16 := size_prod2 _ _ _ _

theorem size_outLastOf (c : Module.Parts α) (rowMax colMax nrows ncols blk : Nat) (adft pmat : Array α) :
    8 ≤ (outLastOf c rowMax colMax nrows ncols blk adft pmat).size := by
  unfold outLastOf
  split
  · simp [size_prod1]
  · simp [size_out2Of]

theorem applyBlkG_agree (enc : α → γ) (c : Module.Parts α) (rowMax colMax nrows ncols : Nat) (adft pmat : Array α) (blk : Nat) :
    Agree enc (blkCells c.m c.nn colMax blk)
      (fun R => applyBlkG id c rowMax colMax nrows ncols adft pmat blk R)
      (fun G => applyBlkG (Array.map enc) c rowMax colMax nrows ncols adft pmat blk G) := by
  unfold applyBlkG blkCells
  have hp := Agree.fold (enc := enc) (colMax / 2)
    (fun t x => saveCells c.m c.nn blk (2 * t) x ∨ saveCells c.m c.nn blk (2 * t + 1) x)
    (fun res t => saveG id c.m c.nn blk (saveG id c.m c.nn blk res (2 * t)
        ((out2Of c rowMax nrows ncols blk (2 * t) adft pmat).extract 0 8))
      (2 * t + 1) ((out2Of c rowMax nrows ncols blk (2 * t) adft pmat).extract 8 16))
    (fun res t => saveG (Array.map enc) c.m c.nn blk (saveG (Array.map enc) c.m c.nn blk res (2 * t)
        ((out2Of c rowMax nrows ncols blk (2 * t) adft pmat).extract 0 8))
      (2 * t + 1) ((out2Of c rowMax nrows ncols blk (2 * t) adft pmat).extract 8 16))
    (fun t _ => (saveG_agree enc c.m c.nn blk (2 * t) _ (by simp [size_out2Of])).comp
      (saveG_agree enc c.m c.nn blk (2 * t + 1) _ (by simp [size_out2Of])))
  have hl := saveG_agree enc c.m c.nn blk (colMax - 1)
    ((outLastOf c rowMax colMax nrows ncols blk adft pmat).extract 0 8)
    (by have := size_outLastOf c rowMax colMax nrows ncols blk adft pmat; simp; omega)
  exact hp.comp (hl.ite ((colMax % 2 == 1) = true))

def bigCells (m nn colMax x : Nat) : Prop := ∃ blk, blk < m / 4 ∧ blkCells m nn colMax blk x

theorem applyBigG_agree (enc : α → γ) (c : Module.Parts α) (rowMax colMax nrows ncols : Nat) (adft pmat : Array α) :
    Agree enc (bigCells c.m c.nn colMax)
      (fun R => applyBigG id c rowMax colMax nrows ncols adft pmat R)
      (fun G => applyBigG (Array.map enc) c rowMax colMax nrows ncols adft pmat G) := by
  unfold applyBigG bigCells
  exact Agree.fold (c.m / 4) (fun blk x => blkCells c.m c.nn colMax blk x)
    (fun res blk => applyBlkG id c rowMax colMax nrows ncols adft pmat blk res)
    (fun res blk => applyBlkG (Array.map enc) c rowMax colMax nrows ncols adft pmat blk res)
    (fun blk _ => applyBlkG_agree enc c rowMax colMax nrows ncols adft pmat blk)

/-- coverage: the block saves of all blocks and all columns `< colMax` are exactly the first `colMax` limbs -/
theorem bigCells_iff (m nn colMax : Nat) (hnn : nn = 2 * m) (hm4 : m % 4 = 0) (x : Nat) :
    bigCells m nn colMax x ↔ x < colMax * nn := by
  unfold bigCells blkCells saveCells In
  constructor
  · rintro ⟨blk, hblk, h⟩
    have hcol : ∀ col, col < colMax → (col * nn + 4 * blk ≤ x ∧ x < col * nn + 4 * blk + 4 ∨
        col * nn + m + 4 * blk ≤ x ∧ x < col * nn + m + 4 * blk + 4) → x < colMax * nn := by
      intro col hc hx
      have := mul_step col colMax nn hc
      omega
    rcases h with ⟨t, ht, h | h⟩ | ⟨ho, h⟩
    · exact hcol (2 * t) (by omega) h
    · exact hcol (2 * t + 1) (by omega) h
    · have : colMax % 2 = 1 := by simpa using ho
      exact hcol (colMax - 1) (by omega) h
  · intro hx
    rw [lt_mul_iff] at hx
    obtain ⟨col, r, hcol, hr, e⟩ := hx
    have hm : 0 < m := by omega
    have hrm := Nat.mod_lt r hm
    refine ⟨(r % m) / 4, by omega, ?_⟩
    have hwin : col * nn + 4 * (r % m / 4) ≤ x ∧ x < col * nn + 4 * (r % m / 4) + 4 ∨
        col * nn + m + 4 * (r % m / 4) ≤ x ∧ x < col * nn + m + 4 * (r % m / 4) + 4 := by
      by_cases hrm : r < m
      · left; rw [Nat.mod_eq_of_lt hrm]; omega
      · right
        have : r % m = r - m := by
          rw [Nat.mod_eq_sub_mod (by omega), Nat.mod_eq_of_lt (by omega)]
        rw [this]; omega
    by_cases hpair : col < 2 * (colMax / 2)
    · left
      refine ⟨col / 2, by omega, ?_⟩
      rcases Nat.mod_two_eq_zero_or_one col with q | q
      · left
        have : 2 * (col / 2) = col := by omega
        rw [this]; exact hwin
      · right
        have : 2 * (col / 2) + 1 = col := by omega
        rw [this]; exact hwin
    · right
      have ho : colMax % 2 = 1 := by omega
      have : colMax - 1 = col := by omega
      rw [this]
      exact ⟨by simp [ho], hwin⟩

end Spq.ModuleHeap
