/-
  C06.4: relational transfer for the structural network: if two arithmetics are related operation by operation
  (`ASim`), so are the butterflies of `Spq/Fft/Core.lean`, the per-block butterflies `gNet`, and the networks `VN`.
-/
import SpqProofs.Lemmas.FftErrSchedTop
set_option linter.unusedSectionVars false
namespace Spq.Fft.RelN
open Spq.Fft Spq.Fft.Alg Spq.Fft.SimP Spq.Fft.LevelN Spq.Fft.SchedN

variable {α β : Type}

/-- `Rl` is preserved by every operation of the FFT arithmetic record -/
structure ASim (Rl : α → β → Prop) (A : Arith α) (B : Arith β) : Prop where
  add : ∀ {a a' b b'}, Rl a a' → Rl b b' → Rl (A.add a b) (B.add a' b')
  sub : ∀ {a a' b b'}, Rl a a' → Rl b b' → Rl (A.sub a b) (B.sub a' b')
  mul : ∀ {a a' b b'}, Rl a a' → Rl b b' → Rl (A.mul a b) (B.mul a' b')
  neg : ∀ {a a'}, Rl a a' → Rl (A.neg a) (B.neg a')
  fma : ∀ {a a' b b' c c'}, Rl a a' → Rl b b' → Rl c c' → Rl (A.fma a b c) (B.fma a' b' c')
  fms : ∀ {a a' b b' c c'}, Rl a a' → Rl b b' → Rl c c' → Rl (A.fms a b c) (B.fms a' b' c')

/-- componentwise relation on (re, im) pairs -/
def R2 (Rl : α → β → Prop) (u : α × α) (u' : β × β) : Prop := Rl u.1 u'.1 ∧ Rl u.2 u'.2

/-- two butterflies are related: related inputs and twiddles give related outputs -/
def BfSim (Rl : α → β → Prop) (f : Bf α) (f' : Bf β) : Prop :=
  ∀ {ra ra' ia ia' rb rb' ib ib' wr wr' wi wi'}, Rl ra ra' → Rl ia ia' → Rl rb rb' → Rl ib ib' → Rl wr wr' → Rl wi wi' →
    Rl (f ra ia rb ib wr wi).1 (f' ra' ia' rb' ib' wr' wi').1 ∧
    Rl (f ra ia rb ib wr wi).2.1 (f' ra' ia' rb' ib' wr' wi').2.1 ∧
    Rl (f ra ia rb ib wr wi).2.2.1 (f' ra' ia' rb' ib' wr' wi').2.2.1 ∧
    Rl (f ra ia rb ib wr wi).2.2.2 (f' ra' ia' rb' ib' wr' wi').2.2.2

variable {Rl : α → β → Prop} {A : Arith α} {B : Arith β}

theorem ctRef_sim (h : ASim Rl A B) : BfSim Rl (ctRef A) (ctRef B) := by
  intro ra ra' ia ia' rb rb' ib ib' wr wr' wi wi' h1 h2 h3 h4 h5 h6
  have nr := h.sub (h.mul h3 h5) (h.mul h4 h6)
  have ni := h.add (h.mul h3 h6) (h.mul h4 h5)
  exact ⟨h.add h1 nr, h.add h2 ni, h.sub h1 nr, h.sub h2 ni⟩

theorem citRef_sim (h : ASim Rl A B) : BfSim Rl (citRef A) (citRef B) := by
  intro ra ra' ia ia' rb rb' ib ib' wr wr' wi wi' h1 h2 h3 h4 h5 h6
  have nr := h.sub (h.mul (h.neg h3) h6) (h.mul h4 h5)
  have ni := h.sub (h.mul h3 h5) (h.mul h4 h6)
  exact ⟨h.add h1 nr, h.add h2 ni, h.sub h1 nr, h.sub h2 ni⟩

theorem ctFma_sim (h : ASim Rl A B) : BfSim Rl (ctFma A) (ctFma B) := by
  intro ra ra' ia ia' rb rb' ib ib' wr wr' wi wi' h1 h2 h3 h4 h5 h6
  have nr := h.fms h3 h5 (h.mul h4 h6)
  have ni := h.fma h4 h5 (h.mul h3 h6)
  exact ⟨h.add h1 nr, h.add h2 ni, h.sub h1 nr, h.sub h2 ni⟩

theorem citFmaB_sim (h : ASim Rl A B) : BfSim Rl (citFmaB A) (citFmaB B) := by
  intro ra ra' ia ia' rb rb' ib ib' wr wr' wi wi' h1 h2 h3 h4 h5 h6
  have tr := h.fma h6 h3 (h.mul h5 h4)
  have ti := h.fms h6 h4 (h.mul h5 h3)
  exact ⟨h.sub h1 tr, h.sub h2 ti, h.add h1 tr, h.add h2 ti⟩

theorem citFmaN_sim (h : ASim Rl A B) : BfSim Rl (citFmaN A) (citFmaN B) := by
  intro ra ra' ia ia' rb rb' ib ib' wr wr' wi wi' h1 h2 h3 h4 h5 h6
  exact ctFma_sim h h1 h2 h3 h4 (h.neg h6) h5

/-- all butterflies of two implementations are related -/
structure FlavSim (Rl : α → β → Prop) (F : Flav α) (F' : Flav β) : Prop where
  ct : BfSim Rl F.ct F'.ct
  cit : BfSim Rl F.cit F'.cit
  ctS : BfSim Rl F.ctS F'.ctS
  citS : BfSim Rl F.citS F'.citS
  ct2 : BfSim Rl F.ct2 F'.ct2

theorem fwdRef_sim (h : ASim Rl A B) : FlavSim Rl (fwdRef A) (fwdRef B) :=
  ⟨ctRef_sim h, citRef_sim h, ctRef_sim h, citRef_sim h, ctRef_sim h⟩
theorem fwdFma_sim (h : ASim Rl A B) : FlavSim Rl (fwdFma A) (fwdFma B) :=
  ⟨ctFma_sim h, citFmaB_sim h, ctFma_sim h, citFmaN_sim h, ctRef_sim h⟩

theorem bfV_sim {f : Bf α} {f' : Bf β} (hf : BfSim Rl f f') {wr wi : α} {wr' wi' : β} (h5 : Rl wr wr') (h6 : Rl wi wi')
    {u v : α × α} {u' v' : β × β} (hu : R2 Rl u u') (hv : R2 Rl v v') :
    R2 Rl (bfV f wr wi u v).1 (bfV f' wr' wi' u' v').1 ∧ R2 Rl (bfV f wr wi u v).2 (bfV f' wr' wi' u' v').2 := by
  obtain ⟨a1, a2, a3, a4⟩ := hf hu.1 hu.2 hv.1 hv.2 h5 h6
  exact ⟨⟨a1, a2⟩, ⟨a3, a4⟩⟩

theorem gNet_sim {F : Flav α} {F' : Flav β} (hF : FlavSim Rl F F') (c s : ℕ → α) (c' s' : ℕ → β)
    (hc : ∀ e, Rl (c e) (c' e)) (hs : ∀ e, Rl (s e) (s' e)) (k ℓ d b : ℕ)
    {u v : α × α} {u' v' : β × β} (hu : R2 Rl u u') (hv : R2 Rl v v') :
    R2 Rl (gNet F c s k ℓ d b u v).1 (gNet F' c' s' k ℓ d b u' v').1 ∧
    R2 Rl (gNet F c s k ℓ d b u v).2 (gNet F' c' s' k ℓ d b u' v').2 := by
  unfold gNet
  have hct : BfSim Rl (ctK F k) (ctK F' k) := by unfold ctK; split <;> [exact hF.ct2; (split <;> [exact hF.ctS; exact hF.ct])]
  have hcit : BfSim Rl (citK F k) (citK F' k) := by unfold citK; split <;> [exact hF.citS; exact hF.cit]
  split
  · exact bfV_sim hcit (hc _) (hs _) hu hv
  · exact bfV_sim hct (hc _) (hs _) hu hv

/-- related butterflies and inputs give related networks -/
theorem VN_rel {γ δ : Type} (Q : γ → δ → Prop) (g : ℕ → ℕ → ℕ → γ → γ → γ × γ) (g' : ℕ → ℕ → ℕ → δ → δ → δ × δ)
    (hg : ∀ ℓ d b u u' v v', Q u u' → Q v v' → Q (g ℓ d b u v).1 (g' ℓ d b u' v').1 ∧ Q (g ℓ d b u v).2 (g' ℓ d b u' v').2)
    (a : ℕ → γ) (a' : ℕ → δ) (ha : ∀ p, Q (a p) (a' p)) : ∀ ℓ d p, Q (VN g a ℓ d p) (VN g' a' ℓ d p) := by
  intro ℓ
  induction ℓ with
  | zero => intro d p; exact ha p
  | succ ℓ ih =>
    intro d p
    rw [VN, VN]
    split
    · exact (hg _ _ _ _ _ _ _ (ih _ _) (ih _ _)).1
    · exact (hg _ _ _ _ _ _ _ (ih _ _) (ih _ _)).2

/-- the same on the cells of one transform: only the inputs `p < 2^k` matter -/
theorem VN_rel_on {γ δ : Type} (Q : γ → δ → Prop) (g : ℕ → ℕ → ℕ → γ → γ → γ × γ) (g' : ℕ → ℕ → ℕ → δ → δ → δ × δ)
    (hg : ∀ ℓ d b u u' v v', Q u u' → Q v v' → Q (g ℓ d b u v).1 (g' ℓ d b u' v').1 ∧ Q (g ℓ d b u v).2 (g' ℓ d b u' v').2)
    (k : ℕ) (a : ℕ → γ) (a' : ℕ → δ) (ha : ∀ p, p < 2 ^ k → Q (a p) (a' p)) :
    ∀ ℓ d p, ℓ + d = k → p < 2 ^ k → Q (VN g a ℓ d p) (VN g' a' ℓ d p) := by
  intro ℓ
  induction ℓ with
  | zero => intro d p _ hp; exact ha p hp
  | succ ℓ ih =>
    intro d p hk hp
    have hk' : ℓ + (d + 1) = k := by omega
    obtain ⟨h, hh⟩ : ∃ h, h = 2 ^ d := ⟨_, rfl⟩
    have hpos : 0 < h := by rw [hh]; exact Nat.two_pow_pos d
    have hk2 : 2 ^ k = 2 * h * 2 ^ ℓ := by rw [← hk, hh, pow_add, pow_add]; ring
    rw [VN, VN]
    simp only [← hh]
    split
    · rename_i hlt
      have hp2 : p + h < 2 ^ k := by
        have hb : p / (2 * h) < 2 ^ ℓ := by
          apply Nat.div_lt_of_lt_mul; rw [← hk2]; exact hp
        have hblk : 2 * h * (p / (2 * h) + 1) ≤ 2 ^ k := by rw [hk2]; exact Nat.mul_le_mul_left _ hb
        have := Nat.div_add_mod p (2 * h)
        rw [Nat.mul_add] at hblk
        omega
      exact (hg _ _ _ _ _ _ _ (ih _ _ hk' hp) (ih _ _ hk' hp2)).1
    · exact (hg _ _ _ _ _ _ _ (ih _ _ hk' (by omega)) (ih _ _ hk' hp)).2

end Spq.Fft.RelN
