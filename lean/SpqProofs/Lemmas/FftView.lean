/-
  C06, view layer: a state is a function `ℕ → R` (cell ↦ complex value); a butterfly `G φ ψ a b` rewrites
  cells `a`, `b`; `twG φ ψ h off` is the closed form of `h` butterflies `(off+i, off+h+i)`.
  Every loop of the FFT kernels is shown to be a composition of `twG`s (the butterflies of one loop act on
  pairwise disjoint cells, so their order is irrelevant: `iter_disjoint`).
-/
import Spq.Fft
import Mathlib.Tactic.Ring
namespace Spq.Fft.View
open Spq.Fft

variable {R : Type}

/-! ### `iterFrom` -/

theorem iterFrom_succ_last {σ : Type} (f : ℕ → σ → σ) (c i : ℕ) (s : σ) :
    iterFrom f (c + 1) i s = f (i + c) (iterFrom f c i s) := by
  induction c generalizing i s with
  | zero => simp [iterFrom]
  | succ c ih =>
    rw [iterFrom, ih, iterFrom]
    congr 1
    omega

/-- simulation of a loop: if every step commutes with the abstraction `v` (under the invariant `P`), so does
the loop -/
theorem iterFrom_sim {σ τ : Type} (v : σ → τ) (P : σ → Prop) (f : ℕ → σ → σ) (g : ℕ → τ → τ)
    (c i : ℕ) (h : ∀ j s, i ≤ j → j < i + c → P s → v (f j s) = g j (v s) ∧ P (f j s)) (s : σ) (hs : P s) :
    v (iterFrom f c i s) = iterFrom g c i (v s) ∧ P (iterFrom f c i s) := by
  induction c generalizing i s with
  | zero => exact ⟨rfl, hs⟩
  | succ c ih =>
    rw [iterFrom, iterFrom]
    have h0 := h i s (by omega) (by omega) hs
    rw [← h0.1]
    exact ih (i + 1) (fun j s hj hj' => h j s (by omega) (by omega)) _ h0.2

/-! ### butterflies on views -/

/-- generic butterfly on cells `a`, `b`: `(x_a, x_b) ← (φ x_a x_b, ψ x_a x_b)` -/
def G (φ ψ : R → R → R) (a b : ℕ) (x : ℕ → R) : ℕ → R :=
  fun p => if p = a then φ (x a) (x b) else if p = b then ψ (x a) (x b) else x p

/-- `h` butterflies `(off+i, off+h+i)`, `i < h` -/
def twG (φ ψ : R → R → R) (h off : ℕ) (x : ℕ → R) : ℕ → R := fun p =>
  if off ≤ p ∧ p < off + h then φ (x p) (x (p + h))
  else if off + h ≤ p ∧ p < off + 2 * h then ψ (x (p - h)) (x p) else x p

/-- steps that act on pairwise disjoint cell sets `D i` can be evaluated independently -/
theorem iter_disjoint (g : ℕ → (ℕ → R) → (ℕ → R)) (D : ℕ → ℕ → Prop) (n : ℕ)
    (hout : ∀ i x p, ¬ D i p → g i x p = x p)
    (hloc : ∀ i x y, (∀ p, D i p → x p = y p) → ∀ p, D i p → g i x p = g i y p)
    (hdisj : ∀ i j p, i < n → j < n → D i p → D j p → i = j) (x : ℕ → R) :
    (∀ i p, i < n → D i p → iterFrom g n 0 x p = g i x p) ∧
    (∀ p, (∀ i, i < n → ¬ D i p) → iterFrom g n 0 x p = x p) := by
  induction n with
  | zero => exact ⟨fun i p hi => by omega, fun p _ => rfl⟩
  | succ n ih =>
    have ih' := ih (fun i j p hi hj => hdisj i j p (by omega) (by omega))
    rw [iterFrom_succ_last, Nat.zero_add]
    constructor
    · intro i p hi hD
      by_cases hin : i = n
      · subst hin
        apply hloc _ _ _ _ p hD
        intro q hq
        apply ih'.2
        intro j hj hDj
        have := hdisj j i q (by omega) (by omega) hDj hq
        omega
      · have hnD : ¬ D n p := fun hDn => hin (hdisj i n p (by omega) (by omega) hD hDn)
        rw [hout _ _ _ hnD]
        exact ih'.1 i p (by omega) hD
    · intro p hp
      rw [hout _ _ _ (hp n (by omega))]
      exact ih'.2 p (fun i hi => hp i (by omega))

section loops
variable (φ ψ φ' ψ' : R → R → R)

theorem G_out (a b : ℕ) (x : ℕ → R) (p : ℕ) (h : ¬ (p = a ∨ p = b)) : G φ ψ a b x p = x p := by
  unfold G; rw [if_neg (fun e => h (Or.inl e)), if_neg (fun e => h (Or.inr e))]

/-- loop L1: `twPass` -/
theorem loop1 (h off : ℕ) (x : ℕ → R) :
    iterFrom (fun i x => G φ ψ (off + i) (off + h + i) x) h 0 x = twG φ ψ h off x := by
  have key := iter_disjoint (fun i x => G φ ψ (off + i) (off + h + i) x)
    (fun i p => p = off + i ∨ p = off + h + i) h
    (fun i x p hp => G_out φ ψ _ _ x p hp)
    (fun i x y hxy p hp => by
      have ha := hxy (off + i) (Or.inl rfl)
      have hb := hxy (off + h + i) (Or.inr rfl)
      simp only [G, ha, hb]
      split <;> [rfl; (split <;> [rfl; exact hxy p hp])])
    (fun i j p hi hj h1 h2 => by omega) x
  funext p
  unfold twG
  by_cases h1 : off ≤ p ∧ p < off + h
  · rw [if_pos h1, key.1 (p - off) p (by omega) (Or.inl (by omega))]
    have e : off + (p - off) = p := by omega
    simp only [G, e, if_true]
    congr 2; omega
  · rw [if_neg h1]
    by_cases h2 : off + h ≤ p ∧ p < off + 2 * h
    · rw [if_pos h2, key.1 (p - off - h) p (by omega) (Or.inr (by omega))]
      have e : off + h + (p - off - h) = p := by omega
      have e' : off + (p - off - h) = p - h := by omega
      have ne : p ≠ p - h ∨ h = 0 := by omega
      simp only [G, e, e']
      rw [if_neg (by omega)]
      simp
    · rw [if_neg h2]
      exact key.2 p (fun i hi => by omega)

theorem G_loc (S : ℕ → Prop) (a b : ℕ) (ha : S a) (hb : S b) (x y : ℕ → R)
    (hxy : ∀ p, S p → x p = y p) : ∀ p, S p → G φ ψ a b x p = G φ ψ a b y p := by
  intro p hp
  simp only [G, hxy a ha, hxy b hb, hxy p hp]

/-- loop L2: first loop of `bitwiddle`: pairs `(off+i, off+2h+i)` and `(off+h+i, off+3h+i)` -/
theorem loop2 (h off : ℕ) (x : ℕ → R) :
    iterFrom (fun i x => G φ ψ (off + h + i) (off + 3 * h + i) (G φ ψ (off + i) (off + 2 * h + i) x)) h 0 x
      = twG φ ψ (2 * h) off x := by
  have key := iter_disjoint
    (fun i x => G φ ψ (off + h + i) (off + 3 * h + i) (G φ ψ (off + i) (off + 2 * h + i) x))
    (fun i p => p = off + i ∨ p = off + 2 * h + i ∨ p = off + h + i ∨ p = off + 3 * h + i) h
    (fun i x p hp => by
      rw [G_out _ _ _ _ _ _ (by omega), G_out _ _ _ _ _ _ (by omega)])
    (fun i x y hxy => by
      apply G_loc _ _ _ _ _ (Or.inr (Or.inr (Or.inl rfl))) (Or.inr (Or.inr (Or.inr rfl)))
      exact G_loc _ _ _ _ _ (Or.inl rfl) (Or.inr (Or.inl rfl)) _ _ hxy)
    (fun i j p hi hj h1 h2 => by omega) x
  funext p
  unfold twG
  by_cases h1 : off ≤ p ∧ p < off + 2 * h
  · rw [if_pos h1]
    by_cases hlt : p < off + h
    · rw [key.1 (p - off) p (by omega) (Or.inl (by omega))]
      simp only [G]
      rw [if_neg (by omega), if_neg (by omega), if_pos (by omega)]
      congr 2 <;> omega
    · rw [key.1 (p - off - h) p (by omega) (Or.inr (Or.inr (Or.inl (by omega))))]
      simp only [G]
      rw [if_pos (by omega), if_neg (by omega), if_neg (by omega), if_neg (by omega), if_neg (by omega)]
      congr 2 <;> omega
  · rw [if_neg h1]
    by_cases h2 : off + 2 * h ≤ p ∧ p < off + 2 * (2 * h)
    · rw [if_pos h2]
      by_cases hlt : p < off + 3 * h
      · rw [key.1 (p - off - 2 * h) p (by omega) (Or.inr (Or.inl (by omega)))]
        simp only [G]
        rw [if_neg (by omega), if_neg (by omega), if_neg (by omega), if_pos (by omega)]
        congr 2 <;> omega
      · rw [key.1 (p - off - 3 * h) p (by omega) (Or.inr (Or.inr (Or.inr (by omega))))]
        simp only [G]
        rw [if_neg (by omega), if_pos (by omega), if_neg (by omega), if_neg (by omega), if_neg (by omega),
          if_neg (by omega)]
        congr 2 <;> omega
    · rw [if_neg h2]
      exact key.2 p (fun i hi => by omega)

theorem twG_out (h off : ℕ) (x : ℕ → R) (p : ℕ) (hp : p < off ∨ off + 2 * h ≤ p) :
    twG φ ψ h off x p = x p := by
  unfold twG; rw [if_neg (by omega), if_neg (by omega)]

theorem twG_lo (h off : ℕ) (x : ℕ → R) (p : ℕ) (hp : off ≤ p ∧ p < off + h) :
    twG φ ψ h off x p = φ (x p) (x (p + h)) := by
  unfold twG; rw [if_pos hp]

theorem twG_hi (h off : ℕ) (x : ℕ → R) (p : ℕ) (hp : off + h ≤ p ∧ p < off + 2 * h) :
    twG φ ψ h off x p = ψ (x (p - h)) (x p) := by
  unfold twG; rw [if_neg (by omega), if_pos hp]

/-- loop L3: second loop of `bitwiddle`: `(off+i, off+h+i)` with one butterfly, `(off+2h+i, off+3h+i)` with another -/
theorem loop3 (h off : ℕ) (x : ℕ → R) :
    iterFrom (fun i x => G φ' ψ' (off + 2 * h + i) (off + 3 * h + i) (G φ ψ (off + i) (off + h + i) x)) h 0 x
      = twG φ' ψ' h (off + 2 * h) (twG φ ψ h off x) := by
  have key := iter_disjoint
    (fun i x => G φ' ψ' (off + 2 * h + i) (off + 3 * h + i) (G φ ψ (off + i) (off + h + i) x))
    (fun i p => p = off + i ∨ p = off + h + i ∨ p = off + 2 * h + i ∨ p = off + 3 * h + i) h
    (fun i x p hp => by
      rw [G_out _ _ _ _ _ _ (by omega), G_out _ _ _ _ _ _ (by omega)])
    (fun i x y hxy => by
      apply G_loc _ _ _ _ _ (Or.inr (Or.inr (Or.inl rfl))) (Or.inr (Or.inr (Or.inr rfl)))
      exact G_loc _ _ _ _ _ (Or.inl rfl) (Or.inr (Or.inl rfl)) _ _ hxy)
    (fun i j p hi hj h1 h2 => by omega) x
  funext p
  by_cases h0 : p < off ∨ off + 4 * h ≤ p
  · rw [twG_out _ _ _ _ _ _ (by omega), twG_out _ _ _ _ _ _ (by omega)]
    exact key.2 p (fun i hi => by omega)
  by_cases h1 : p < off + h
  · rw [twG_out _ _ _ _ _ _ (by omega), twG_lo _ _ _ _ _ _ (by omega),
      key.1 (p - off) p (by omega) (Or.inl (by omega))]
    simp only [G]
    rw [if_neg (by omega), if_neg (by omega), if_pos (by omega)]
    congr 2 <;> omega
  by_cases h2 : p < off + 2 * h
  · rw [twG_out _ _ _ _ _ _ (by omega), twG_hi _ _ _ _ _ _ (by omega),
      key.1 (p - off - h) p (by omega) (Or.inr (Or.inl (by omega)))]
    simp only [G]
    rw [if_neg (by omega), if_neg (by omega), if_neg (by omega), if_pos (by omega)]
    congr 2 <;> omega
  by_cases h3 : p < off + 3 * h
  · rw [twG_lo _ _ _ _ _ _ (by omega), twG_out _ _ _ _ _ _ (by omega), twG_out _ _ _ _ _ _ (by omega),
      key.1 (p - off - 2 * h) p (by omega) (Or.inr (Or.inr (Or.inl (by omega))))]
    simp only [G]
    rw [if_pos (by omega), if_neg (by omega), if_neg (by omega), if_neg (by omega), if_neg (by omega)]
    congr 2 <;> omega
  · rw [twG_hi _ _ _ _ _ _ (by omega), twG_out _ _ _ _ _ _ (by omega), twG_out _ _ _ _ _ _ (by omega),
      key.1 (p - off - 3 * h) p (by omega) (Or.inr (Or.inr (Or.inr (by omega))))]
    simp only [G]
    rw [if_neg (by omega), if_pos (by omega), if_neg (by omega), if_neg (by omega), if_neg (by omega),
      if_neg (by omega)]
    congr 2 <;> omega

/-- a single butterfly on adjacent cells -/
theorem G_eq_twG1 (a : ℕ) (x : ℕ → R) : G φ ψ a (a + 1) x = twG φ ψ 1 a x := by
  have := loop1 φ ψ 1 a x
  simp only [iterFrom, Nat.add_zero] at this
  exact this

/-- two butterflies `(a, a+2)`, `(a+1, a+3)` -/
theorem G_G_eq_twG2 (a : ℕ) (x : ℕ → R) :
    G φ ψ (a + 1) (a + 3) (G φ ψ a (a + 2) x) = twG φ ψ 2 a x := by
  have := loop1 φ ψ 2 a x
  simp only [iterFrom, Nat.add_zero] at this
  exact this

/-- `loop1` with index expressions that are only propositionally of the form `off + i`, `off + h + i` -/
theorem loop1' (h off : ℕ) (ia ib : ℕ → ℕ) (ha : ∀ i, ia i = off + i) (hb : ∀ i, ib i = off + h + i)
    (x : ℕ → R) : iterFrom (fun i x => G φ ψ (ia i) (ib i) x) h 0 x = twG φ ψ h off x := by
  have : (fun i x => G φ ψ (ia i) (ib i) x) = (fun i x => G φ ψ (off + i) (off + h + i) x) := by
    funext i x; rw [ha, hb]
  rw [this, loop1]

theorem G_eq_twG1' (a a1 : ℕ) (h1 : a1 = a + 1) (x : ℕ → R) : G φ ψ a a1 x = twG φ ψ 1 a x := by
  subst h1; exact G_eq_twG1 φ ψ a x

theorem G_G_eq_twG2' (a a1 a2 a3 : ℕ) (h1 : a1 = a + 1) (h2 : a2 = a + 2) (h3 : a3 = a + 3) (x : ℕ → R) :
    G φ ψ a1 a3 (G φ ψ a a2 x) = twG φ ψ 2 a x := by
  subst h1 h2 h3; exact G_G_eq_twG2 φ ψ a x

end loops

/-- view of the 16-point forward leaf: `Φ k` / `Φ' k` are the value-level butterflies of the plain / `i·ω`
butterfly with the k-th twiddle of the pack -/
def fft16V (Φ Φ' : ℕ → (R → R → R) × (R → R → R)) (off : ℕ) (x : ℕ → R) : ℕ → R :=
  let x := twG (Φ 0).1 (Φ 0).2 8 off x
  let x := twG (Φ 1).1 (Φ 1).2 4 off x
  let x := twG (Φ' 1).1 (Φ' 1).2 4 (off + 8) x
  let x := twG (Φ 2).1 (Φ 2).2 2 off x
  let x := twG (Φ' 2).1 (Φ' 2).2 2 (off + 4) x
  let x := twG (Φ 3).1 (Φ 3).2 2 (off + 8) x
  let x := twG (Φ' 3).1 (Φ' 3).2 2 (off + 12) x
  iterFrom (fun q x => twG (Φ' (4 + q)).1 (Φ' (4 + q)).2 1 (off + 4 * q + 2)
    (twG (Φ (4 + q)).1 (Φ (4 + q)).2 1 (off + 4 * q) x)) 4 0 x

/-- view of the 16-point inverse leaf -/
def ifft16V (Φ Φ' : ℕ → (R → R → R) × (R → R → R)) (off : ℕ) (x : ℕ → R) : ℕ → R :=
  let x := iterFrom (fun q x => twG (Φ' q).1 (Φ' q).2 1 (off + 4 * q + 2)
    (twG (Φ q).1 (Φ q).2 1 (off + 4 * q) x)) 4 0 x
  let x := twG (Φ 4).1 (Φ 4).2 2 off x
  let x := twG (Φ' 4).1 (Φ' 4).2 2 (off + 4) x
  let x := twG (Φ 5).1 (Φ 5).2 2 (off + 8) x
  let x := twG (Φ' 5).1 (Φ' 5).2 2 (off + 12) x
  let x := twG (Φ 6).1 (Φ 6).2 4 off x
  let x := twG (Φ' 6).1 (Φ' 6).2 4 (off + 8) x
  twG (Φ 7).1 (Φ 7).2 8 off x

end Spq.Fft.View
