/-
  The prepared-matrix layouts of `vmpPrepare` (C02): slot arithmetic (the 8-cell block of
  (row, col, blk) lives at slot `blk·nrows·ncols + q(row, col)`, `q` injective), and the read-back
  theorems for both layouts.
-/
import SpqProofs.Lemmas.ModuleArr
import SpqProofs.Properties.C17
import Mathlib.Tactic.Ring
namespace Spq.Module
open Spq Reim4
variable {α : Type}

/-! ### slot arithmetic -/

theorem mul_step (p p' n : Nat) (h : p < p') : p * n + n ≤ p' * n := by
  have : (p + 1) * n ≤ p' * n := Nat.mul_le_mul_right n h
  rw [Nat.add_mul, Nat.one_mul] at this
  exact this

/-- `a·n + b` with `b < n` determines `a` and `b` -/
theorem divmod_unique (n a b a' b' : Nat) (hb : b < n) (hb' : b' < n) (h : a * n + b = a' * n + b') : a = a' ∧ b = b' := by
  rcases Nat.lt_trichotomy a a' with q | q | q
  · have := mul_step a a' n q; omega
  · subst q; omega
  · have := mul_step a' a n q; omega

/-- slot (in units of 8 cells, inside a block) of (row, col): column pairs interleaved row-major, lone last
    column when `ncols` is odd -/
def qslot (nrows ncols row col : Nat) : Nat :=
  if col == ncols - 1 && ncols % 2 == 1 then col * nrows + row
  else (col / 2) * (2 * nrows) + row * 2 + col % 2

theorem pmatStart_eq (nrows ncols row col : Nat) : pmatStart nrows ncols row col = 8 * qslot nrows ncols row col := by
  unfold pmatStart qslot
  split <;> omega

/-- the "lone last column" test, as a proposition -/
theorem lone_iff (ncols col : Nat) : ((col == ncols - 1 && ncols % 2 == 1) = true) ↔ (col + 1 = ncols ∧ ncols % 2 = 1) := by
  simp only [Bool.and_eq_true, beq_iff_eq]
  omega

theorem qslot_lone (nrows ncols row col : Nat) (h : col + 1 = ncols ∧ ncols % 2 = 1) :
    qslot nrows ncols row col = 2 * (col / 2 * nrows) + row := by
  unfold qslot
  rw [if_pos ((lone_iff ncols col).2 h)]
  have e : col = 2 * (col / 2) := by omega
  have : col * nrows = 2 * (col / 2 * nrows) := by
    calc col * nrows = (2 * (col / 2)) * nrows := by rw [← e]
      _ = 2 * (col / 2 * nrows) := by ring
  omega

theorem qslot_pair (nrows ncols row col : Nat) (h : ¬ (col + 1 = ncols ∧ ncols % 2 = 1)) :
    qslot nrows ncols row col = 2 * (col / 2 * nrows) + 2 * row + col % 2 := by
  unfold qslot
  rw [if_neg (fun q => h ((lone_iff ncols col).1 q))]
  have : col / 2 * (2 * nrows) = 2 * (col / 2 * nrows) := by ring
  omega

theorem qslot_lt (nrows ncols row col : Nat) (hr : row < nrows) (hc : col < ncols) :
    qslot nrows ncols row col < nrows * ncols := by
  have hW2 : 2 * (ncols / 2 * nrows) ≤ nrows * ncols := by
    have : 2 * (ncols / 2) * nrows ≤ ncols * nrows := Nat.mul_le_mul_right nrows (by omega)
    calc 2 * (ncols / 2 * nrows) = 2 * (ncols / 2) * nrows := by ring
      _ ≤ ncols * nrows := this
      _ = nrows * ncols := Nat.mul_comm _ _
  by_cases h : col + 1 = ncols ∧ ncols % 2 = 1
  · rw [qslot_lone _ _ _ _ h]
    have e : col / 2 = ncols / 2 := by omega
    have : nrows * ncols = 2 * (ncols / 2 * nrows) + nrows := by
      have e2 : ncols = 2 * (ncols / 2) + 1 := by omega
      calc nrows * ncols = nrows * (2 * (ncols / 2) + 1) := by rw [← e2]
        _ = 2 * (ncols / 2 * nrows) + nrows := by ring
    rw [e]; omega
  · rw [qslot_pair _ _ _ _ h]
    have := mul_step (col / 2) (ncols / 2) nrows (by omega)
    omega

theorem qslot_inj (nrows ncols row col row' col' : Nat) (hr : row < nrows) (hc : col < ncols)
    (hr' : row' < nrows) (hc' : col' < ncols) (h : qslot nrows ncols row col = qslot nrows ncols row' col') :
    row = row' ∧ col = col' := by
  have t1 : col / 2 < col' / 2 → col / 2 * nrows + nrows ≤ col' / 2 * nrows := mul_step _ _ _
  have t2 : col' / 2 < col / 2 → col' / 2 * nrows + nrows ≤ col / 2 * nrows := mul_step _ _ _
  have t3 : col / 2 = col' / 2 → col / 2 * nrows = col' / 2 * nrows := fun e => by rw [e]
  by_cases l : col + 1 = ncols ∧ ncols % 2 = 1 <;> by_cases l' : col' + 1 = ncols ∧ ncols % 2 = 1
  · rw [qslot_lone _ _ _ _ l, qslot_lone _ _ _ _ l'] at h
    have : col = col' := by omega
    subst this; omega
  · rw [qslot_lone _ _ _ _ l, qslot_pair _ _ _ _ l'] at h
    have := t2 (by omega)
    omega
  · rw [qslot_pair _ _ _ _ l, qslot_lone _ _ _ _ l'] at h
    have := t1 (by omega)
    omega
  · rw [qslot_pair _ _ _ _ l, qslot_pair _ _ _ _ l'] at h
    rcases Nat.lt_trichotomy (col / 2) (col' / 2) with q | q | q
    · have := t1 q; omega
    · have := t3 q; omega
    · have := t2 q; omega

/-! ### the reim4 layout (`nn ≥ 8`) -/

/-- entry (row, col) of the integer matrix in DFT space: what `vmpPrepare` stores -/
def matDft (c : Parts α) (mat : Array Int) (ncols row col : Nat) : Array α :=
  c.fft (c.fromZnx (mat.extract ((row * ncols + col) * c.nn) ((row * ncols + col) * c.nn + c.nn)))

/-- slot of the 8-cell block (row, col, blk) -/
def pSlot (nrows ncols : Nat) (i : Nat × Nat × Nat) : Nat := i.2.2 * (nrows * ncols) + qslot nrows ncols i.1 i.2.1
def pVal (z : α) (m : Nat) (T : Nat → Nat → Array α) (i : Nat × Nat × Nat) : Array α :=
  extract1blkFromReimRef z m i.2.2 (Array.replicate 8 z) (T i.1 i.2.1)
def pDom (nrows ncols nb : Nat) (i : Nat × Nat × Nat) : Prop := i.1 < nrows ∧ i.2.1 < ncols ∧ i.2.2 < nb
/-- (row, col, blk) is lexicographically before (r, c, b) -/
def pDone (r c b : Nat) (i : Nat × Nat × Nat) : Prop := i.1 < r ∨ (i.1 = r ∧ (i.2.1 < c ∨ (i.2.1 = c ∧ i.2.2 < b)))

theorem pSlot_inj (nrows ncols nb : Nat) (i j : Nat × Nat × Nat) (hi : pDom nrows ncols nb i) (hj : pDom nrows ncols nb j)
    (h : pSlot nrows ncols i = pSlot nrows ncols j) : i = j := by
  obtain ⟨r, c, b⟩ := i
  obtain ⟨r', c', b'⟩ := j
  simp only [pDom, pSlot] at hi hj h
  have q1 := qslot_lt nrows ncols r c hi.1 hi.2.1
  have q2 := qslot_lt nrows ncols r' c' hj.1 hj.2.1
  obtain ⟨e1, e2⟩ := divmod_unique (nrows * ncols) b _ b' _ q1 q2 h
  obtain ⟨e3, e4⟩ := qslot_inj nrows ncols r c r' c' hi.1 hi.2.1 hj.1 hj.2.1 e2
  rw [e1, e3, e4]

theorem pSlot_bound (nrows ncols nb : Nat) (i : Nat × Nat × Nat) (hi : pDom nrows ncols nb i) :
    8 * pSlot nrows ncols i + 8 ≤ 8 * nb * nrows * ncols := by
  obtain ⟨r, c, b⟩ := i
  simp only [pDom, pSlot] at hi ⊢
  have q1 := qslot_lt nrows ncols r c hi.1 hi.2.1
  have := mul_step b nb (nrows * ncols) hi.2.2
  have e : 8 * nb * nrows * ncols = 8 * (nb * (nrows * ncols)) := by ring
  omega

theorem size_extract1blk (z : α) (m blk : Nat) (dst src : Array α) : (extract1blkFromReimRef z m blk dst src).size = dst.size := by
  have e : extract1blkFromReimRef z m blk dst src =
      V4.store (V4.store dst 0 (V4.load z src (4 * blk))) 4 (V4.load z src (4 * blk + m)) := rfl
  rw [e]; simp

/-- the block loop of `vmp_prepare` for one (row, col) -/
theorem prep_blk_loop (z : α) (m nrows ncols total : Nat) (T : Nat → Nat → Array α) (row col : Nat)
    (hr : row < nrows) (hc : col < ncols) (htot : total = 8 * (m / 4) * nrows * ncols) (pm : Array α)
    (h : SlotInv 8 total z (pSlot nrows ncols) (pVal z m T) (pDom nrows ncols (m / 4)) (pDone row col 0) pm) :
    SlotInv 8 total z (pSlot nrows ncols) (pVal z m T) (pDom nrows ncols (m / 4)) (pDone row col (m / 4))
      ((List.range (m / 4)).foldl (fun pm blk =>
        writeAt pm (pmatStart nrows ncols row col + blk * (nrows * ncols * 8))
          (extract1blkFromReimRef z m blk (Array.replicate 8 z) (T row col))) pm) := by
  apply foldl_range_inv (P := fun b pm =>
    SlotInv 8 total z (pSlot nrows ncols) (pVal z m T) (pDom nrows ncols (m / 4)) (pDone row col b) pm)
  · exact h
  · intro b pm hb hi
    have hd : pDom nrows ncols (m / 4) (row, col, b) := ⟨hr, hc, hb⟩
    have st := SlotInv.step (row, col, b) hi
      (fun i di e => pSlot_inj nrows ncols (m / 4) i _ di hd e)
      (by rw [htot]; exact pSlot_bound nrows ncols (m / 4) _ hd)
      (by simp [pVal, size_extract1blk])
    have e : pmatStart nrows ncols row col + b * (nrows * ncols * 8) = 8 * pSlot nrows ncols (row, col, b) := by
      have e2 : b * (nrows * ncols * 8) = 8 * (b * (nrows * ncols)) := by ring
      rw [pmatStart_eq]; simp only [pSlot]; omega
    rw [e]
    apply st.mono
    intro i _ d
    simp only [pDone] at d ⊢
    by_cases q : i = (row, col, b)
    · exact Or.inr q
    · left
      obtain ⟨i1, i2, i3⟩ := i
      simp only [Prod.mk.injEq] at q
      dsimp only at d ⊢
      omega

/-- `vmp_prepare`, `nn ≥ 8`: every block (row, col, blk) can be read back from its slot -/
theorem vmpPrepare_blk (c : Parts α) (mat : Array Int) (nrows ncols : Nat) (h8 : 8 ≤ c.nn) (hnn : c.nn = 2 * c.m)
    (hm4 : c.m % 4 = 0) :
    SlotInv 8 (c.nn * nrows * ncols) c.ar.zero (pSlot nrows ncols) (pVal c.ar.zero c.m (matDft c mat ncols))
      (pDom nrows ncols (c.m / 4)) (fun _ => True) (vmpPrepare c mat nrows ncols) := by
  have htot : c.nn * nrows * ncols = 8 * (c.m / 4) * nrows * ncols := by
    have : c.nn = 8 * (c.m / 4) := by omega
    rw [← this]
  unfold vmpPrepare
  simp only [ge_iff_le, h8, if_true]
  refine (foldl_range_inv (P := fun r pm => SlotInv 8 (c.nn * nrows * ncols) c.ar.zero (pSlot nrows ncols)
      (pVal c.ar.zero c.m (matDft c mat ncols)) (pDom nrows ncols (c.m / 4)) (pDone r 0 0) pm) _ _ _ ?_ ?_).mono ?_
  · refine ⟨by simp, ?_⟩
    intro i _ d
    simp only [pDone] at d
    omega
  · intro r pm hr hi
    refine (foldl_range_inv (P := fun cc pm => SlotInv 8 (c.nn * nrows * ncols) c.ar.zero (pSlot nrows ncols)
      (pVal c.ar.zero c.m (matDft c mat ncols)) (pDom nrows ncols (c.m / 4)) (pDone r cc 0) pm) _ _ _ hi ?_).mono ?_
    · intro cc pm hcc hi2
      have := prep_blk_loop c.ar.zero c.m nrows ncols _ (matDft c mat ncols) r cc hr hcc htot pm hi2
      apply this.mono
      intro i di d
      simp only [pDone, pDom] at d di ⊢
      omega
    · intro i di d
      simp only [pDone, pDom] at d di ⊢
      omega
  · intro i di _
    simp only [pDone, pDom] at di ⊢
    omega

/-! ### the plain column-major layout (`nn < 8`) -/

def sSlot (nrows : Nat) (i : Nat × Nat) : Nat := i.2 * nrows + i.1
def sDom (nrows ncols : Nat) (i : Nat × Nat) : Prop := i.1 < nrows ∧ i.2 < ncols
def sDone (r c : Nat) (i : Nat × Nat) : Prop := i.1 < r ∨ (i.1 = r ∧ i.2 < c)

theorem sSlot_inj (nrows ncols : Nat) (i j : Nat × Nat) (hi : sDom nrows ncols i) (hj : sDom nrows ncols j)
    (h : sSlot nrows i = sSlot nrows j) : i = j := by
  obtain ⟨r, c⟩ := i
  obtain ⟨r', c'⟩ := j
  simp only [sDom, sSlot] at hi hj h
  obtain ⟨e1, e2⟩ := divmod_unique nrows c r c' r' hi.1 hj.1 h
  rw [e1, e2]

theorem sSlot_bound (nn nrows ncols : Nat) (i : Nat × Nat) (hi : sDom nrows ncols i) :
    nn * sSlot nrows i + nn ≤ nn * nrows * ncols := by
  obtain ⟨r, c⟩ := i
  simp only [sDom, sSlot] at hi ⊢
  have := mul_step c ncols nrows hi.2
  have h2 : nn * (c * nrows + r + 1) ≤ nn * (ncols * nrows) := Nat.mul_le_mul_left nn (by omega)
  have e : nn * nrows * ncols = nn * (ncols * nrows) := by ring
  have e2 : nn * (c * nrows + r + 1) = nn * (c * nrows + r) + nn := by ring
  omega

/-- `vmp_prepare`, `nn < 8`: entry (row, col) is the `nn`-cell vector at `(col·nrows + row)·nn` -/
theorem vmpPrepare_small (c : Parts α) (mat : Array Int) (nrows ncols : Nat) (h8 : c.nn < 8)
    (hT : ∀ row col, row < nrows → col < ncols → (matDft c mat ncols row col).size = c.nn) :
    SlotInv c.nn (c.nn * nrows * ncols) c.ar.zero (sSlot nrows) (fun i => matDft c mat ncols i.1 i.2)
      (sDom nrows ncols) (fun _ => True) (vmpPrepare c mat nrows ncols) := by
  have h8' : ¬ (8 ≤ c.nn) := by omega
  unfold vmpPrepare
  simp only [ge_iff_le, h8', if_false]
  refine (foldl_range_inv (P := fun r pm => SlotInv c.nn (c.nn * nrows * ncols) c.ar.zero (sSlot nrows)
      (fun i => matDft c mat ncols i.1 i.2) (sDom nrows ncols) (sDone r 0) pm) _ _ _ ?_ ?_).mono ?_
  · refine ⟨by simp, ?_⟩
    intro i _ d
    simp only [sDone] at d
    omega
  · intro r pm hr hi
    refine (foldl_range_inv (P := fun cc pm => SlotInv c.nn (c.nn * nrows * ncols) c.ar.zero (sSlot nrows)
      (fun i => matDft c mat ncols i.1 i.2) (sDom nrows ncols) (sDone r cc) pm) _ _ _ hi ?_).mono ?_
    · intro cc pm hcc hi2
      have hd : sDom nrows ncols (r, cc) := ⟨hr, hcc⟩
      have st := SlotInv.step (r, cc) hi2 (fun i di e => sSlot_inj nrows ncols i _ di hd e)
        (sSlot_bound c.nn nrows ncols _ hd) (hT r cc hr hcc)
      have e : (cc * nrows + r) * c.nn = c.nn * sSlot nrows (r, cc) := by simp only [sSlot]; ring
      rw [e]
      apply st.mono
      intro i _ d
      simp only [sDone] at d ⊢
      by_cases q : i = (r, cc)
      · exact Or.inr q
      · left
        obtain ⟨i1, i2⟩ := i
        simp only [Prod.mk.injEq] at q
        dsimp only at d ⊢
        omega
    · intro i di d
      simp only [sDone, sDom] at d di ⊢
      omega
  · intro i di _
    simp only [sDone, sDom] at di ⊢
    omega

end Spq.Module
