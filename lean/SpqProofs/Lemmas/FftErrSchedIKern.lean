/-
  C06.4, structural kernel layer for the inverse kernels.
-/
import SpqProofs.Lemmas.FftErrSchedKern
import SpqProofs.Lemmas.FftErrSchedILevel
set_option linter.unusedSectionVars false
namespace Spq.Fft.KernN
open Spq.Fft Spq.Fft.Alg Spq.Fft.View Spq.Fft.Sim Spq.Fft.SimP Spq.Fft.LevelN

variable {R : Type} [Inhabited R]
variable (k : ℕ) (g : ℕ → ℕ → ℕ → R × R → R × R → (R × R) × (R × R)) (y : ℕ → R × R)

theorem itwPass_advN (f : Bf R) (N ℓ d b off : ℕ) (wr wi : R) (s : RI R) (hs : Valid N s) (hℓ : ℓ = k - 1 - d)
    (hoff : off = 2 * 2 ^ d * b) (hN : off + 2 * 2 ^ d ≤ N) (hq : bfV f wr wi = g ℓ d b) :
    AdvI k g y (prs s) (prs (twPass f (2 ^ d) off wr wi s)) d (d + 1) off (2 * 2 ^ d) ∧
      Valid N (twPass f (2 ^ d) off wr wi s) := by
  have h1 := twPass_sim N f wr wi _ _ (realP f wr wi) (2 ^ d) off s hs (by omega)
  rw [h1.1]
  exact ⟨AdvI.tw k g y _ ℓ d b off hℓ hoff _ _ (bq_of_eq f wr wi _ hq), h1.2⟩

theorem invbitwiddle_advN (F : Flav R) (T : Array R) (t N ℓ d b off h : ℕ) (s : RI R)
    (hs : Valid N s) (hℓ : ℓ + d + 2 = k) (hh : h = 2 ^ d) (hoff : off = 4 * h * b) (hN : off + 4 * h ≤ N)
    (hq0 : bfV F.ct T[t]! T[t + 1]! = g (ℓ + 1) d (2 * b))
    (hq0' : bfV F.cit T[t]! T[t + 1]! = g (ℓ + 1) d (2 * b + 1))
    (hq1 : bfV F.ct T[t + 2]! T[t + 3]! = g ℓ (d + 1) b) :
    AdvI k g y (prs s) (prs (invbitwiddle F T t h off s)) d (d + 2) off (4 * h) ∧
      Valid N (invbitwiddle F T t h off s) := by
  have h1 := invbitwiddle_sim N F T t h off _ _ _ _ _ _ (realP _ _ _) (realP _ _ _) (realP _ _ _) s hs hN
  rw [h1.1]
  exact ⟨AdvI.bw k g y _ ℓ d b off h hℓ hh hoff _ _ _ _ _ _ (bq_of_eq _ _ _ _ hq0) (bq_of_eq _ _ _ _ hq0')
    (bq_of_eq _ _ _ _ hq1), h1.2⟩

theorem ifft16K_advN (F : Flav R) (w : ℕ → R × R) (N ℓ b off : ℕ) (s : RI R)
    (hs : Valid N s) (hℓ : ℓ + 4 = k) (hoff : off = 16 * b) (hN : off + 16 ≤ N)
    (h0 : ∀ q, q < 4 → bfV F.ct (w q).1 (w q).2 = g (ℓ + 3) 0 (8 * b + 2 * q))
    (h0' : ∀ q, q < 4 → bfV F.cit (w q).1 (w q).2 = g (ℓ + 3) 0 (8 * b + 2 * q + 1))
    (h4 : bfV F.ct (w 4).1 (w 4).2 = g (ℓ + 2) 1 (4 * b)) (h4' : bfV F.cit (w 4).1 (w 4).2 = g (ℓ + 2) 1 (4 * b + 1))
    (h5 : bfV F.ct (w 5).1 (w 5).2 = g (ℓ + 2) 1 (4 * b + 2))
    (h5' : bfV F.cit (w 5).1 (w 5).2 = g (ℓ + 2) 1 (4 * b + 3))
    (h6 : bfV F.ct (w 6).1 (w 6).2 = g (ℓ + 1) 2 (2 * b)) (h6' : bfV F.cit (w 6).1 (w 6).2 = g (ℓ + 1) 2 (2 * b + 1))
    (h7 : bfV F.ct (w 7).1 (w 7).2 = g ℓ 3 b) :
    AdvI k g y (prs s) (prs (ifft16K F w off s)) 0 4 off 16 ∧ Valid N (ifft16K F w off s) := by
  have e := ifft16K_sim N F w
    (fun q => (fun u v => (bfV F.ct (w q).1 (w q).2 u v).1, fun u v => (bfV F.ct (w q).1 (w q).2 u v).2))
    (fun q => (fun u v => (bfV F.cit (w q).1 (w q).2 u v).1, fun u v => (bfV F.cit (w q).1 (w q).2 u v).2))
    (fun q _ => realP _ _ _) (fun q _ => realP _ _ _) off s hs hN
  rw [e.1]
  refine ⟨AdvI.leaf k g y _ ℓ b off hℓ hoff _ _ (fun q hq => bq_of_eq _ _ _ _ (h0 q hq))
    (fun q hq => bq_of_eq _ _ _ _ (h0' q hq)) (bq_of_eq _ _ _ _ h4) (bq_of_eq _ _ _ _ h4') (bq_of_eq _ _ _ _ h5)
    (bq_of_eq _ _ _ _ h5') (bq_of_eq _ _ _ _ h6) (bq_of_eq _ _ _ _ h6') (bq_of_eq _ _ _ _ h7), e.2⟩

end Spq.Fft.KernN
