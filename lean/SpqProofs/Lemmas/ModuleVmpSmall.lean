/-
  `vmp_apply_dft_to_dft ∘ vmp_prepare` on the plain column-major layout (`nn < 8`), exact arithmetic (C02.1).
-/
import SpqProofs.Lemmas.ModuleVmpLoop
import SpqProofs.Lemmas.ModuleProd
namespace Spq.Module
open Finset Spq Reim4
variable {R : Type} [CommRing R]

theorem dlimb_cx (adft : Array R) (i nn m t : Nat) (h : t + m < nn) :
    cx (dlimb adft i nn) t (t + m) = cx adft (i * nn + t) (i * nn + t + m) := by
  unfold dlimb
  ext
  · simp only [cx_re]; rw [getD_extract, if_pos (by omega)]
  · simp only [cx_im]; rw [getD_extract, if_pos (by omega), Nat.add_assoc]

/-- entry (row, col) of the prepared matrix, `nn < 8` -/
theorem pcol_cx (c : Parts R) (har : c.ar = RArith.ofRing R) (mat : Array Int) (nrows ncols : Nat) (h8 : c.nn < 8)
    (hT : ∀ row col, row < nrows → col < ncols → (matDft c mat ncols row col).size = c.nn)
    (row col t : Nat) (hr : row < nrows) (hc : col < ncols) (h : t + c.m < c.nn) :
    cx ((vmpPrepare c mat nrows ncols).extract ((col * nrows + row) * c.nn) ((col * nrows + row) * c.nn + c.nn)) t (t + c.m)
      = cx (matDft c mat ncols row col) t (t + c.m) := by
  have hz : c.ar.zero = 0 := by rw [har]; rfl
  obtain ⟨_, h2⟩ := vmpPrepare_small c mat nrows ncols h8 hT
  have hd : sDom nrows ncols (row, col) := ⟨hr, hc⟩
  have a1 := h2 (row, col) hd trivial t (by omega)
  have a2 := h2 (row, col) hd trivial (t + c.m) h
  simp only [sSlot, hz] at a1 a2
  rw [Nat.mul_comm c.nn] at a1 a2
  ext
  · simp only [cx_re]; rw [getD_extract, if_pos (by omega), a1]
  · simp only [cx_im]; rw [getD_extract, if_pos (by omega), a2]

/-- one output column of the `nn < 8` branch (`row_max > 0`): `mul` of row 0, then `addmul` of the other rows -/
theorem small_col (c : Parts R) (ha : ExactArith c) (h8 : c.nn < 8) (mat : Array Int) (nrows ncols : Nat)
    (hT : ∀ row col, row < nrows → col < ncols → (matDft c mat ncols row col).size = c.nn)
    (adft : Array R) (rowMax : Nat) (hrm : rowMax ≤ nrows) (h0 : 0 < rowMax) (col : Nat) (hc : col < ncols) :
    ((List.range (rowMax - 1)).foldl (fun r k => addmul c r (dlimb adft (k + 1) c.nn)
        ((vmpPrepare c mat nrows ncols).extract ((col * nrows + (k + 1)) * c.nn) ((col * nrows + (k + 1)) * c.nn + c.nn)))
      (mul c (dlimb adft 0 c.nn)
        ((vmpPrepare c mat nrows ncols).extract ((col * nrows + 0) * c.nn) ((col * nrows + 0) * c.nn + c.nn)))).size = c.nn ∧
    ∀ t, t < c.m → cx ((List.range (rowMax - 1)).foldl (fun r k => addmul c r (dlimb adft (k + 1) c.nn)
        ((vmpPrepare c mat nrows ncols).extract ((col * nrows + (k + 1)) * c.nn) ((col * nrows + (k + 1)) * c.nn + c.nn)))
      (mul c (dlimb adft 0 c.nn)
        ((vmpPrepare c mat nrows ncols).extract ((col * nrows + 0) * c.nn) ((col * nrows + 0) * c.nn + c.nn)))) t (t + c.m)
      = vmpVal adft (matDft c mat ncols) c.m rowMax col t := by
  have hnn := ha.hnn
  have key := foldl_range_inv
    (P := fun k r => r.size = c.nn ∧ ∀ t, t < c.m → cx r t (t + c.m) =
      ∑ i ∈ range (k + 1), cx adft (i * (2 * c.m) + t) (i * (2 * c.m) + t + c.m) * cx (matDft c mat ncols i col) t (t + c.m))
    (fun r k => addmul c r (dlimb adft (k + 1) c.nn)
        ((vmpPrepare c mat nrows ncols).extract ((col * nrows + (k + 1)) * c.nn) ((col * nrows + (k + 1)) * c.nn + c.nn)))
    (rowMax - 1)
    (mul c (dlimb adft 0 c.nn)
        ((vmpPrepare c mat nrows ncols).extract ((col * nrows + 0) * c.nn) ((col * nrows + 0) * c.nn + c.nn)))
    (by
      obtain ⟨m1, m2⟩ := mul_exact c ha (dlimb adft 0 c.nn)
        ((vmpPrepare c mat nrows ncols).extract ((col * nrows + 0) * c.nn) ((col * nrows + 0) * c.nn + c.nn))
      refine ⟨m1, fun t ht => ?_⟩
      rw [m2 t ht, sum_range_one, dlimb_cx adft 0 c.nn c.m t (by omega),
        pcol_cx c ha.har mat nrows ncols h8 hT 0 col t (by omega) hc (by omega), ← hnn])
    (by
      intro k r hk ⟨i1, i2⟩
      obtain ⟨m1, m2⟩ := addmul_exact c ha r (dlimb adft (k + 1) c.nn)
        ((vmpPrepare c mat nrows ncols).extract ((col * nrows + (k + 1)) * c.nn) ((col * nrows + (k + 1)) * c.nn + c.nn)) i1
      refine ⟨m1, fun t ht => ?_⟩
      rw [m2 t ht, i2 t ht, sum_range_succ _ (k + 1), dlimb_cx adft (k + 1) c.nn c.m t (by omega),
        pcol_cx c ha.har mat nrows ncols h8 hT (k + 1) col t (by omega) hc (by omega), ← hnn])
  refine ⟨key.1, fun t ht => ?_⟩
  rw [key.2 t ht]
  unfold vmpVal
  rw [(by omega : rowMax - 1 + 1 = rowMax)]

/-- invariant of the column loop of the `nn < 8` branch: columns `< C` final, everything from `C·nn` on still zero -/
def SInv (val : Nat → Nat → Cx R) (m nn rsz C : Nat) (res : Array R) : Prop :=
  res.size = rsz * nn ∧
  (∀ col t, col < C → t < m → cx res (col * nn + t) (col * nn + t + m) = val col t) ∧
  (∀ x, C * nn ≤ x → res.getD x 0 = 0)

theorem vmpApply_small_inv (c : Parts R) (ha : ExactArith c) (h8 : c.nn < 8) (mat : Array Int) (nrows ncols rsz asz : Nat)
    (hT : ∀ row col, row < nrows → col < ncols → (matDft c mat ncols row col).size = c.nn) (adft : Array R) :
    SInv (vmpVal adft (matDft c mat ncols) c.m (min nrows asz)) c.m c.nn rsz (min ncols rsz)
      (vmpApplyDftToDft c rsz adft asz (vmpPrepare c mat nrows ncols) nrows ncols) := by
  have h8' : ¬ (8 ≤ c.nn) := by omega
  have hnn := ha.hnn
  have hrm : min nrows asz ≤ nrows := Nat.min_le_left _ _
  have hcm : min ncols rsz ≤ rsz := Nat.min_le_right _ _
  have hcn : min ncols rsz ≤ ncols := Nat.min_le_left _ _
  unfold vmpApplyDftToDft
  simp only [ge_iff_le, h8', if_false, ha.har, ofRing_zero]
  apply foldl_range_inv (P := fun C res => SInv (vmpVal adft (matDft c mat ncols) c.m (min nrows asz)) c.m c.nn rsz C res)
  · refine ⟨by simp, ?_, fun x _ => getD_replicate_zero _ _⟩
    intro col t hc _
    omega
  · intro C res hC ⟨i1, i2, i3⟩
    have hstep : (C + 1) * c.nn = C * c.nn + c.nn := by ring
    have hb := mul_step C rsz c.nn (by omega)
    by_cases h0 : (min nrows asz == 0) = true
    · rw [if_pos h0]
      have h0' : min nrows asz = 0 := by simpa using h0
      refine ⟨i1, ?_, fun x hx => i3 x (by omega)⟩
      intro col t hc ht
      by_cases e : col = C
      · subst e
        unfold vmpVal
        rw [h0', range_zero, sum_empty]
        ext
        · simp only [cx_re, Cx.zero_re]; exact i3 _ (by omega)
        · simp only [cx_im, Cx.zero_im]; exact i3 _ (by omega)
      · exact i2 col t (by omega) ht
    · rw [if_neg h0]
      have h0' : 0 < min nrows asz := by
        have : ¬ (min nrows asz = 0) := by simpa using h0
        omega
      obtain ⟨r1, r2⟩ := small_col c ha h8 mat nrows ncols hT adft (min nrows asz) hrm h0' C (by omega)
      refine ⟨by rw [size_writeAt, i1], ?_, ?_⟩
      · intro col t hc ht
        by_cases e : col = C
        · subst e
          rw [← r2 t ht]
          ext
          · simp only [cx_re]
            exact getD_writeAt_in _ _ _ _ t (by omega) (by omega)
          · simp only [cx_im]
            rw [Nat.add_assoc]
            exact getD_writeAt_in _ _ _ _ (t + c.m) (by omega) (by omega)
        · have := mul_step col C c.nn (by omega)
          rw [← i2 col t (by omega) ht]
          ext
          · simp only [cx_re]; exact getD_writeAt_out _ _ _ _ _ (by omega)
          · simp only [cx_im]; exact getD_writeAt_out _ _ _ _ _ (by omega)
      · intro x hx
        rw [getD_writeAt_out _ _ _ _ _ (by omega)]
        exact i3 x (by omega)

/-- both layouts together (the statement of `C02.vmp_layout`) -/
theorem vmp_layout_aux (c : Parts R) (ha : ExactArith c) (mat : Array Int) (nrows ncols rsz asz : Nat) (adft : Array R)
    (hT : c.nn < 8 → ∀ row col, row < nrows → col < ncols → (matDft c mat ncols row col).size = c.nn) :
    (vmpApplyDftToDft c rsz adft asz (vmpPrepare c mat nrows ncols) nrows ncols).size = rsz * c.nn ∧
    (∀ j t, j < min ncols rsz → t < c.m →
      cx (vmpApplyDftToDft c rsz adft asz (vmpPrepare c mat nrows ncols) nrows ncols) (j * c.nn + t) (j * c.nn + t + c.m)
        = ∑ i ∈ range (min nrows asz),
            cx adft (i * c.nn + t) (i * c.nn + t + c.m) * cx (matDft c mat ncols i j) t (t + c.m)) ∧
    (∀ j x, min ncols rsz ≤ j →
      (vmpApplyDftToDft c rsz adft asz (vmpPrepare c mat nrows ncols) nrows ncols).getD (j * c.nn + x) 0 = 0) := by
  have hnn := ha.hnn
  have hv : ∀ j t, vmpVal adft (matDft c mat ncols) c.m (min nrows asz) j t = ∑ i ∈ range (min nrows asz),
      cx adft (i * c.nn + t) (i * c.nn + t + c.m) * cx (matDft c mat ncols i j) t (t + c.m) := by
    intro j t; unfold vmpVal; rw [← hnn]
  by_cases h8 : 8 ≤ c.nn
  · obtain ⟨s1, s2, s3⟩ := vmpApply_blk_inv c ha h8 mat nrows ncols rsz asz adft
    have hm4 := ha.hblk h8
    refine ⟨s1, ?_, ?_⟩
    · intro j t hj ht
      have := s2 j (t / 4) (t % 4) hj (by omega) (by omega) trivial
      rw [hv] at this
      have e1 : j * c.nn + 4 * (t / 4) + t % 4 = j * c.nn + t := by omega
      have e2 : j * c.nn + c.m + 4 * (t / 4) + t % 4 = j * c.nn + t + c.m := by omega
      have e3 : 4 * (t / 4) + t % 4 = t := by omega
      rw [e1, e2, e3] at this
      exact this
    · intro j x hj
      have : min ncols rsz * c.nn ≤ j * c.nn := Nat.mul_le_mul_right _ hj
      exact s3 _ (by omega)
  · obtain ⟨s1, s2, s3⟩ := vmpApply_small_inv c ha (by omega) mat nrows ncols rsz asz (hT (by omega)) adft
    refine ⟨s1, ?_, ?_⟩
    · intro j t hj ht
      rw [s2 j t hj ht, hv]
    · intro j x hj
      have : min ncols rsz * c.nn ≤ j * c.nn := Nat.mul_le_mul_right _ hj
      exact s3 _ (by omega)

end Spq.Module
