/-
  Helpers for the q120 AVX2 product kernels translated with scalarised `__m256i` locals
  (`Properties/SrcQ120Avx.lean`): the lane primitives as the interpreter computes them.
-/
import SpqProofs.Lemmas.SrcQ120
namespace Spq.CIR
open Spq Spq.Q120

/-- `(uint64_t)(long long)v` keeps the 64-bit pattern -/
theorem wrapS_mod (v : Int) : wrapS v % 18446744073709551616 = v % 18446744073709551616 := by
  simp only [wrapS]; omega

/-- the shift count `(int)H` for `H < 64` -/
theorem wrap_i32_small (h : Nat) (hh : h < 64) : Ty.wrap .i32 (h : Int) = (h : Int) := by
  simp only [Ty.wrap]; omega

theorem mask32_lit : (4294967295 : Int).toNat = 2 ^ 32 - 1 := by decide
theorem band_lo32 (p : Nat) : ((((p : Int)).toNat &&& (4294967295 : Int).toNat : Nat) : Int)
    = ((p % 4294967296 : Nat) : Int) := by
  rw [mask32_lit, Int.toNat_natCast, Nat.and_two_pow_sub_one_eq_mod]

/-- `_mm256_mul_epu32` on one lane: exact product of the low halves -/
theorem cast_mulEpu32 (a b : Nat) :
    ((a % 4294967296 : Nat) : Int) * ((b % 4294967296 : Nat) : Int) % 18446744073709551616
      = ((mulEpu32 a b : Nat) : Int) := by
  have e : ((a % 4294967296 : Nat) : Int) * ((b % 4294967296 : Nat) : Int)
      = (((a % 4294967296) * (b % 4294967296) : Nat) : Int) := (Int.natCast_mul _ _).symm
  have h1 : a % 4294967296 ≤ 4294967295 := by omega
  have h2 : b % 4294967296 ≤ 4294967295 := by omega
  have h3 : (a % 4294967296) * (b % 4294967296) ≤ 4294967295 * 4294967295 := Nat.mul_le_mul h1 h2
  rw [e]; simp only [mulEpu32]
  generalize (a % 4294967296) * (b % 4294967296) = Q at h3 ⊢
  omega
end Spq.CIR

namespace Spq.CIR
/-- `cirq_simp` whose `rfl` rules are applied as rewrite steps (proof terms the kernel does not have to re-evaluate) -/
syntax "cirqn" "[" Lean.Parser.Tactic.simpLemma,* "]" : tactic
macro_rules
  | `(tactic| cirqn [$ts,*]) =>
    `(tactic| simp (config := { dsimp := false }) only [exec_skip, exec_assign, exec_store, exec_seq, exec_ite, exec_passign,
      eval_lit, eval_var, eval_load, eval_cast, eval_un, eval_bin, eval_cond, eval_pload, eval_pload32, eval_avar,
      exec_pstore, exec_pstore32, exec_aset, evalB_def,
      R.bind_ok, R.bind_err, thenStep_norm, thenStep_err, seqK_norm, seqK_err,
      evalBin_add_u64, evalBin_sub_u64, evalBin_mul_u64, evalBin_band_u64, evalBin_lt_u64, evalBin_mod_u64,
      evalBin_shl_u64, evalBin_shr_u64, wrap_u64, decide_b2i_ne_zero, ite_b2i_ne_zero,
      lget_zero, lget_succ, lset_zero, lset_succ, List.getD_cons_zero, List.getD_cons_succ, $ts,*])
end Spq.CIR

namespace Spq.Src
open Spq Spq.CIR Spq.Q120
/-- slots of `q120_vec_mat1col_product_baa_avx2` at the loop head -/
def baaAvxEnv (ell h : Nat) (a1 a2 : Nat → Nat) (x y : Nat) (n : Nat) (a b t : Nat → Int) : List Int :=
  [(ell : Int), (h : Int), ((2 ^ h - 1 : Nat) : Int), ((2 ^ h - 1 : Nat) : Int), ((2 ^ h - 1 : Nat) : Int),
    ((2 ^ h - 1 : Nat) : Int), ((a1 0 : Nat) : Int), ((a1 1 : Nat) : Int), ((a1 2 : Nat) : Int), ((a1 3 : Nat) : Int),
    ((a2 0 : Nat) : Int), ((a2 1 : Nat) : Int), ((a2 2 : Nat) : Int), ((a2 3 : Nat) : Int), (x : Int), ((4 * n : Nat) : Int), (y : Int), ((4 * n : Nat) : Int),
    (n : Int), a 0, a 1, a 2, a 3, b 0, b 1, b 2, b 3, t 0, t 1, t 2, t 3, 0, 0, 0, 0, 0, 0, 0, 0]

/-- the 32 slots `x xl xh y y0 y1 a b` (4 lanes each) of one iteration of `q120_vec_mat1col_product_bbc_avx2` -/
def bbcAvxLocals (xv yv : Nat → Nat) : List Int :=
  [((xv 0 : Nat) : Int), ((xv 1 : Nat) : Int), ((xv 2 : Nat) : Int), ((xv 3 : Nat) : Int),
   ((xv 0 % 4294967296 : Nat) : Int), ((xv 1 % 4294967296 : Nat) : Int), ((xv 2 % 4294967296 : Nat) : Int), ((xv 3 % 4294967296 : Nat) : Int),
   ((xv 0 / 4294967296 : Nat) : Int), ((xv 1 / 4294967296 : Nat) : Int), ((xv 2 / 4294967296 : Nat) : Int), ((xv 3 / 4294967296 : Nat) : Int),
   ((yv 0 : Nat) : Int), ((yv 1 : Nat) : Int), ((yv 2 : Nat) : Int), ((yv 3 : Nat) : Int),
   ((yv 0 % 4294967296 : Nat) : Int), ((yv 1 % 4294967296 : Nat) : Int), ((yv 2 % 4294967296 : Nat) : Int), ((yv 3 % 4294967296 : Nat) : Int),
   ((yv 0 / 4294967296 : Nat) : Int), ((yv 1 / 4294967296 : Nat) : Int), ((yv 2 / 4294967296 : Nat) : Int), ((yv 3 / 4294967296 : Nat) : Int),
   ((mulEpu32 (xv 0 % 4294967296) (yv 0 % 4294967296) : Nat) : Int), ((mulEpu32 (xv 1 % 4294967296) (yv 1 % 4294967296) : Nat) : Int),
   ((mulEpu32 (xv 2 % 4294967296) (yv 2 % 4294967296) : Nat) : Int), ((mulEpu32 (xv 3 % 4294967296) (yv 3 % 4294967296) : Nat) : Int),
   ((mulEpu32 (xv 0 / 4294967296) (yv 0 / 4294967296) : Nat) : Int), ((mulEpu32 (xv 1 / 4294967296) (yv 1 / 4294967296) : Nat) : Int),
   ((mulEpu32 (xv 2 / 4294967296) (yv 2 / 4294967296) : Nat) : Int), ((mulEpu32 (xv 3 / 4294967296) (yv 3 / 4294967296) : Nat) : Int)]

def zeros32 : List Int := [0,0,0,0,0,0,0,0,0,0,0,0,0,0,0,0,0,0,0,0,0,0,0,0,0,0,0,0,0,0,0,0]
def zeros25 : List Int := [0,0,0,0,0,0,0,0,0,0,0,0,0,0,0,0,0,0,0,0,0,0,0,0,0]

def bbcAvxEnv (ell : Nat) (a1 a2 : Nat → Nat) (x y : Nat) (n : Nat) (L : List Int) : List Int :=
  [(ell : Int), 32, 4294967295, 4294967295, 4294967295, 4294967295,
    ((a1 0 : Nat) : Int), ((a1 1 : Nat) : Int), ((a1 2 : Nat) : Int), ((a1 3 : Nat) : Int),
    ((a2 0 : Nat) : Int), ((a2 1 : Nat) : Int), ((a2 2 : Nat) : Int), ((a2 3 : Nat) : Int),
    (x : Int), ((4 * n : Nat) : Int), (y : Int), ((4 * n : Nat) : Int), (n : Int)] ++ L ++ zeros25

/-- the 40 slots `x xl xh y yl yh a b c d` (4 lanes each) of one iteration of `q120_vec_mat1col_product_bbb_avx2` -/
def bbbAvxLocals (xv yv : Nat → Nat) : List Int :=
  [((xv 0 : Nat) : Int), ((xv 1 : Nat) : Int), ((xv 2 : Nat) : Int), ((xv 3 : Nat) : Int), ((xv 0 % 4294967296 : Nat) : Int), ((xv 1 % 4294967296 : Nat) : Int), ((xv 2 % 4294967296 : Nat) : Int), ((xv 3 % 4294967296 : Nat) : Int), ((xv 0 / 4294967296 : Nat) : Int), ((xv 1 / 4294967296 : Nat) : Int), ((xv 2 / 4294967296 : Nat) : Int), ((xv 3 / 4294967296 : Nat) : Int), ((yv 0 : Nat) : Int), ((yv 1 : Nat) : Int), ((yv 2 : Nat) : Int), ((yv 3 : Nat) : Int), ((yv 0 % 4294967296 : Nat) : Int), ((yv 1 % 4294967296 : Nat) : Int), ((yv 2 % 4294967296 : Nat) : Int), ((yv 3 % 4294967296 : Nat) : Int), ((yv 0 / 4294967296 : Nat) : Int), ((yv 1 / 4294967296 : Nat) : Int), ((yv 2 / 4294967296 : Nat) : Int), ((yv 3 / 4294967296 : Nat) : Int), ((mulEpu32 (xv 0 % 4294967296) (yv 0 % 4294967296) : Nat) : Int), ((mulEpu32 (xv 1 % 4294967296) (yv 1 % 4294967296) : Nat) : Int), ((mulEpu32 (xv 2 % 4294967296) (yv 2 % 4294967296) : Nat) : Int), ((mulEpu32 (xv 3 % 4294967296) (yv 3 % 4294967296) : Nat) : Int), ((mulEpu32 (xv 0 % 4294967296) (yv 0 / 4294967296) : Nat) : Int), ((mulEpu32 (xv 1 % 4294967296) (yv 1 / 4294967296) : Nat) : Int), ((mulEpu32 (xv 2 % 4294967296) (yv 2 / 4294967296) : Nat) : Int), ((mulEpu32 (xv 3 % 4294967296) (yv 3 / 4294967296) : Nat) : Int), ((mulEpu32 (xv 0 / 4294967296) (yv 0 % 4294967296) : Nat) : Int), ((mulEpu32 (xv 1 / 4294967296) (yv 1 % 4294967296) : Nat) : Int), ((mulEpu32 (xv 2 / 4294967296) (yv 2 % 4294967296) : Nat) : Int), ((mulEpu32 (xv 3 / 4294967296) (yv 3 % 4294967296) : Nat) : Int), ((mulEpu32 (xv 0 / 4294967296) (yv 0 / 4294967296) : Nat) : Int), ((mulEpu32 (xv 1 / 4294967296) (yv 1 / 4294967296) : Nat) : Int), ((mulEpu32 (xv 2 / 4294967296) (yv 2 / 4294967296) : Nat) : Int), ((mulEpu32 (xv 3 / 4294967296) (yv 3 / 4294967296) : Nat) : Int)]

def zeros40 : List Int := [0, 0, 0, 0, 0, 0, 0, 0, 0, 0, 0, 0, 0, 0, 0, 0, 0, 0, 0, 0, 0, 0, 0, 0, 0, 0, 0, 0, 0, 0, 0, 0, 0, 0, 0, 0, 0, 0, 0, 0]
def zeros69 : List Int := [0, 0, 0, 0, 0, 0, 0, 0, 0, 0, 0, 0, 0, 0, 0, 0, 0, 0, 0, 0, 0, 0, 0, 0, 0, 0, 0, 0, 0, 0, 0, 0, 0, 0, 0, 0, 0, 0, 0, 0, 0, 0, 0, 0, 0, 0, 0, 0, 0, 0, 0, 0, 0, 0, 0, 0, 0, 0, 0, 0, 0, 0, 0, 0, 0, 0, 0, 0, 0]

def bbbAvxEnv (ell : Nat) (F : Nat → S4) (x y : Nat) (n : Nat) (L : List Int) : List Int :=
  [(ell : Int), 32, 4294967295, 4294967295, 4294967295, 4294967295,
    (((F 0).s1 : Nat) : Int), (((F 1).s1 : Nat) : Int), (((F 2).s1 : Nat) : Int), (((F 3).s1 : Nat) : Int), (((F 0).s2 : Nat) : Int), (((F 1).s2 : Nat) : Int), (((F 2).s2 : Nat) : Int), (((F 3).s2 : Nat) : Int),
    (((F 0).s3 : Nat) : Int), (((F 1).s3 : Nat) : Int), (((F 2).s3 : Nat) : Int), (((F 3).s3 : Nat) : Int), (((F 0).s4 : Nat) : Int), (((F 1).s4 : Nat) : Int), (((F 2).s4 : Nat) : Int), (((F 3).s4 : Nat) : Int),
    (x : Int), ((4 * n : Nat) : Int), (y : Int), ((4 * n : Nat) : Int), (n : Int)] ++ L ++ zeros69

end Spq.Src
