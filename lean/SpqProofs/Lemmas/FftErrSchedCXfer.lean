/-
  C06.4: transfer from the bit-level forward cplx FFT to the structural network over an ordered field.
  Four implementations of the same `CFlav` shape are related: bits `Fb`, flagged bits `FB`, guarded rationals `FQ`
  (where `0 − ω`, `0 + ω` have been replaced by their exact values) and the lifted arithmetic `FK`.
-/
import SpqProofs.Lemmas.FftErrSchedCNet
import SpqProofs.Lemmas.FftErrSchedIXfer
import SpqProofs.Lemmas.FftErrSchedRnd
set_option linter.unusedSectionVars false
namespace Spq.FftErr
open Spq.Fft Spq.Fft.Alg Spq.Fft.RelN Spq.Fft.SimP Spq.Fft.LevelN Spq.Fft.SchedN Spq.Fft.SchedC Spq.Fft.Sim Spq.F64
variable {K : Type} [Field K] [LinearOrder K] [IsStrictOrderedRing K]

section api
variable {R : Type} [Inhabited R]
theorem deinterleave_validN (m : ℕ) (data : Array R) : Valid m (deinterleave m data) := by
  constructor <;> simp [deinterleave]
theorem deinterleave_reN (m : ℕ) (data : Array R) (p : ℕ) (hp : p < m) :
    (deinterleave m data).re[p]! = data[2 * p]! := by
  simp [deinterleave, hp]
theorem deinterleave_imN (m : ℕ) (data : Array R) (p : ℕ) (hp : p < m) :
    (deinterleave m data).im[p]! = data[2 * p + 1]! := by
  simp [deinterleave, hp]
theorem interleave_reN (m : ℕ) (s : RI R) (p : ℕ) (hp : p < m) : (interleave m s)[2 * p]! = s.re[p]! := by
  have : 2 * p < 2 * m := by omega
  simp [interleave, this]
theorem interleave_imN (m : ℕ) (s : RI R) (p : ℕ) (hp : p < m) : (interleave m s)[2 * p + 1]! = s.im[p]! := by
  have : 2 * p + 1 < 2 * m := by omega
  have h1 : (2 * p + 1) % 2 = 1 := by omega
  have h2 : (2 * p + 1) / 2 = p := by omega
  simp [interleave, this, h1, h2]
end api

theorem valQ_map {α β : Type} (f : α → β) (c s ns nc : ℕ → α) (x : Ent) :
    f (valQ c s ns nc x) = valQ (fun e => f (c e)) (fun e => f (s e)) (fun e => f (ns e)) (fun e => f (nc e)) x := by
  unfold valQ; split <;> [rfl; (split <;> [rfl; (split <;> rfl)])]

theorem tableQ_map {α β : Type} (f : α → β) (c s ns nc : ℕ → α) (L : List Ent) :
    ((L.map (valQ c s ns nc)).toArray).map f =
      (L.map (valQ (fun e => f (c e)) (fun e => f (s e)) (fun e => f (ns e)) (fun e => f (nc e)))).toArray := by
  rw [List.map_toArray, List.map_map]
  congr 1
  apply List.map_congr_left
  intro x _
  exact valQ_map f c s ns nc x

/-- **transfer**, forward cplx -/
theorem cfft_transfer (Fb : CFlav ℕ) (FB : CFlav (ℕ × Prop)) (FQ : CFlav ℚ) (FK : CFlav K)
    (h1 : CFlavSim (fun (x : Nat × Prop) (b : Nat) => x.1 = b) FB Fb) (h2 : CFlavSim RelQ FB FQ)
    (h3 : CFlavSim (fun (q : ℚ) (x : K) => x = (q : K)) FQ FK)
    (k : ℕ) (cN sN nsN ncN : ℕ → ℕ) (data : Array ℕ) (hdata : data.size = 2 * 2 ^ k)
    (hok : ∀ p, p < 2 * 2 ^ k →
      ((cplxFftA FB (2 ^ k) ((((cplxFftEnts (2 ^ k)).map (valQ cN sN nsN ncN)).toArray).map lift) (data.map lift))[p]!).2)
    (j : ℕ) (hj : j < 2 ^ k) :
    Fin64 ((cplxFftA Fb (2 ^ k) ((cplxFftEnts (2 ^ k)).map (valQ cN sN nsN ncN)).toArray data)[2 * j]!) ∧
    Fin64 ((cplxFftA Fb (2 ^ k) ((cplxFftEnts (2 ^ k)).map (valQ cN sN nsN ncN)).toArray data)[2 * j + 1]!) ∧
    ((val ((cplxFftA Fb (2 ^ k) ((cplxFftEnts (2 ^ k)).map (valQ cN sN nsN ncN)).toArray data)[2 * j]!) : ℚ) : K) =
      (VN (gNetC FK (fun e => ((val (cN e) : ℚ) : K)) (fun e => ((val (sN e) : ℚ) : K))
          (fun e => ((val (nsN e) : ℚ) : K)) (fun e => ((val (ncN e) : ℚ) : K)) k)
        (fun p => (((val data[2 * p]! : ℚ) : K), ((val data[2 * p + 1]! : ℚ) : K))) k 0 j).1 ∧
    ((val ((cplxFftA Fb (2 ^ k) ((cplxFftEnts (2 ^ k)).map (valQ cN sN nsN ncN)).toArray data)[2 * j + 1]!) : ℚ) : K) =
      (VN (gNetC FK (fun e => ((val (cN e) : ℚ) : K)) (fun e => ((val (sN e) : ℚ) : K))
          (fun e => ((val (nsN e) : ℚ) : K)) (fun e => ((val (ncN e) : ℚ) : K)) k)
        (fun p => (((val data[2 * p]! : ℚ) : K), ((val data[2 * p + 1]! : ℚ) : K))) k 0 j).2 := by
  have hd' : (data.map lift).size = 2 * 2 ^ k := by rw [Array.size_map]; exact hdata
  have hv := deinterleave_validN (2 ^ k) data
  have hv' := deinterleave_validN (2 ^ k) (data.map lift)
  rw [tableQ_map lift cN sN nsN ncN] at hok
  obtain ⟨st1, vo1⟩ := cfftRI_struct Fb cN sN nsN ncN k (deinterleave (2 ^ k) data) hv
  obtain ⟨st2, vo2⟩ := cfftRI_struct FB (fun e => lift (cN e)) (fun e => lift (sN e)) (fun e => lift (nsN e))
    (fun e => lift (ncN e)) k (deinterleave (2 ^ k) (data.map lift)) hv'
  have in2 : ∀ p, p < 2 ^ k →
      prs (deinterleave (2 ^ k) (data.map lift)) p = (lift data[2 * p]!, lift data[2 * p + 1]!) := by
    intro p hp
    show ((deinterleave (2 ^ k) (data.map lift)).re[p]!, (deinterleave (2 ^ k) (data.map lift)).im[p]!) = _
    rw [deinterleave_reN _ _ p hp, deinterleave_imN _ _ p hp, getElem!_map lift data (2 * p) (by omega),
      getElem!_map lift data (2 * p + 1) (by omega)]
  have in1 : ∀ p, p < 2 ^ k → prs (deinterleave (2 ^ k) data) p = (data[2 * p]!, data[2 * p + 1]!) := by
    intro p hp
    show ((deinterleave (2 ^ k) data).re[p]!, (deinterleave (2 ^ k) data).im[p]!) = _
    rw [deinterleave_reN _ _ p hp, deinterleave_imN _ _ p hp]
  have r1 := VN_rel_on (R2 (fun (x : Nat × Prop) (b : Nat) => x.1 = b)) _ _
    (fun ℓ d b u u' v v' hu hv => gNetC_sim h1 (fun e => lift (cN e)) (fun e => lift (sN e)) (fun e => lift (nsN e))
      (fun e => lift (ncN e)) cN sN nsN ncN (fun _ => rfl) (fun _ => rfl) (fun _ => rfl) (fun _ => rfl) k ℓ d b hu hv) k
    (prs (deinterleave (2 ^ k) (data.map lift))) (prs (deinterleave (2 ^ k) data))
    (fun p hp => by rw [in2 p hp, in1 p hp]; exact ⟨rfl, rfl⟩) k 0 j (by omega) hj
  have r2 := VN_rel_on (R2 RelQ) _ _
    (fun ℓ d b u u' v v' hu hv => gNetC_sim h2 (fun e => lift (cN e)) (fun e => lift (sN e)) (fun e => lift (nsN e))
      (fun e => lift (ncN e)) (fun e => val (cN e)) (fun e => val (sN e)) (fun e => val (nsN e)) (fun e => val (ncN e))
      (fun _ h => ⟨h, rfl⟩) (fun _ h => ⟨h, rfl⟩) (fun _ h => ⟨h, rfl⟩) (fun _ h => ⟨h, rfl⟩) k ℓ d b hu hv) k
    (prs (deinterleave (2 ^ k) (data.map lift))) (fun p => (val data[2 * p]!, val data[2 * p + 1]!))
    (fun p hp => by rw [in2 p hp]; exact ⟨fun h => ⟨h, rfl⟩, fun h => ⟨h, rfl⟩⟩) k 0 j (by omega) hj
  have r3 := VN_rel_on (R2 (fun (q : ℚ) (x : K) => x = (q : K))) _ _
    (fun ℓ d b u u' v v' hu hv => gNetC_sim h3 (fun e => val (cN e)) (fun e => val (sN e)) (fun e => val (nsN e))
      (fun e => val (ncN e)) (fun e => ((val (cN e) : ℚ) : K)) (fun e => ((val (sN e) : ℚ) : K))
      (fun e => ((val (nsN e) : ℚ) : K)) (fun e => ((val (ncN e) : ℚ) : K)) (fun _ => rfl) (fun _ => rfl) (fun _ => rfl)
      (fun _ => rfl) k ℓ d b hu hv) k (fun p => (val data[2 * p]!, val data[2 * p + 1]!))
    (fun p => (((val data[2 * p]! : ℚ) : K), ((val data[2 * p + 1]! : ℚ) : K)))
    (fun p _ => ⟨rfl, rfl⟩) k 0 j (by omega) hj
  have f1 := hok (2 * j) (by omega)
  have f2 := hok (2 * j + 1) (by omega)
  unfold cplxFftA at f1 f2 ⊢
  rw [interleave_reN _ _ j hj] at f1
  rw [interleave_imN _ _ j hj] at f2
  rw [interleave_reN _ _ j hj, interleave_imN _ _ j hj]
  have e1 := st1 j hj
  have e2 := st2 j hj
  rw [← e1] at r1
  rw [← e2] at r1 r2
  obtain ⟨a1, a2⟩ := r1
  obtain ⟨b1, b2⟩ := r2
  obtain ⟨c1, c2⟩ := r3
  obtain ⟨g1, g2⟩ := b1 f1
  obtain ⟨g3, g4⟩ := b2 f2
  simp only [prs] at a1 a2 g1 g2 g3 g4
  rw [a1] at g1 g2
  rw [a2] at g3 g4
  refine ⟨g1, g3, ?_, ?_⟩
  · rw [g2]; exact c1.symm
  · rw [g4]; exact c2.symm

end Spq.FftErr
