/-
  C16 helper: `DftOpsSound` is inhabited.  The "identity-transform module" (`fft = ifft = id`, carrier `Int`)
  supports `vec_znx_dft` / `vec_znx_idft` with budget `True` — the round trip through the opaque layout
  (limbs concatenated with stride `nn`, zero rows beyond the source size) is exact — and declares the
  product calls outside its budget (its pointwise product is not the negacyclic product).
-/
import SpqProofs.Lemmas.ProgDft
namespace Spq.Prog
open Spq

/-! ### concatenation of `n` pieces of `nn` cells (the shape of `vecDft`, `svpApply`, `vecIdft`) -/

theorem concat_spec {β : Type} (nn : Nat) (piece : Nat → Array β) (d : β) (n : Nat)
    (hp : ∀ i, i < n → (piece i).size = nn) :
    ((List.range n).foldl (fun acc i => acc ++ piece i) #[]).size = n * nn ∧
    ∀ i t, i < n → t < nn →
      ((List.range n).foldl (fun acc i => acc ++ piece i) #[]).getD (i * nn + t) d = (piece i).getD t d := by
  induction n with
  | zero => exact ⟨by simp, fun i t hi => by omega⟩
  | succ n ih =>
    obtain ⟨s, v⟩ := ih (fun i hi => hp i (by omega))
    rw [List.range_succ, List.foldl_append]
    simp only [List.foldl_cons, List.foldl_nil]
    generalize (List.range n).foldl (fun acc i => acc ++ piece i) #[] = r at s v
    refine ⟨by rw [Array.size_append, s, hp n (by omega), Nat.succ_mul], ?_⟩
    intro i t hi ht
    simp only [Array.getD_eq_getD_getElem?] at v ⊢
    by_cases e : i = n
    · subst e
      rw [Array.getElem?_append_right (by rw [s]; omega), s, Nat.add_sub_cancel_left]
    · have hlt : i < n := by omega
      have h1 : (i + 1) * nn ≤ n * nn := Nat.mul_le_mul_right _ (by omega)
      rw [Nat.succ_mul] at h1
      rw [Array.getElem?_append_left (by rw [s]; omega)]
      exact v i t hlt ht

/-! ### the identity-transform module -/

def toyArith : RArith Int :=
  { zero := 0, add := (· + ·), sub := (· - ·), mul := (· * ·), fma := fun a b c => a * b + c,
    fms := fun a b c => a * b - c }

def toyParts (nn : Nat) : Module.Parts Int :=
  { nn := nn, ar := toyArith, fromZnx := id, fft := id, ifft := id, toZnx := id,
    mulFma := false, addmulFma := false, vmpAvx := false }

theorem extract_size (x : Array Int) (lo nn : Nat) (h : lo + nn ≤ x.size) :
    (x.extract lo (lo + nn)).size = nn := by
  simp; omega

theorem extract_getD (x : Array Int) (lo nn t : Nat) (h : lo + nn ≤ x.size) (ht : t < nn) :
    (x.extract lo (lo + nn)).getD t 0 = x.getD (lo + t) 0 := by
  simp only [Array.getD_eq_getD_getElem?, Array.getElem?_extract]
  have : t < min (lo + nn) x.size - lo := by omega
  simp [this]

/-- the identity-transform module satisfies `DftOpsSound`, with `RepV P sz d` = "`d` is the `sz·nn` cells
    holding `P` limb after limb" -/
def toySound (nn : Nat) : DftOpsSound (toyParts nn) nn where
  nn_eq := rfl
  RepV P sz d := d.size = sz * nn ∧ ∀ i t, i < sz → t < nn → d.getD (i * nn + t) 0 = P.coef i t
  RepS _ _ := True
  RepM _ _ _ _ := True
  dft_budget _ _ _ := True
  svp_prepare_budget _ := True
  svp_budget _ _ _ _ := False
  vmp_prepare_budget _ _ _ := True
  vmp_budget _ _ _ _ _ _ := False
  vmp_dd_budget _ _ _ _ _ _ _ := False
  idft_budget _ _ := True
  small_product_budget _ _ := False
  dft_exact := by
    intro x asz asl rsz f hsl hag _
    have hp : ∀ i, i < rsz →
        (if i < asz then (toyParts nn).fft ((toyParts nn).fromZnx (Module.limbOf x i asl (toyParts nn).nn))
          else Array.replicate (toyParts nn).nn (toyParts nn).ar.zero).size = nn := by
      intro i _
      split
      · rename_i hi
        have := extract_size x (i * asl) nn (hag.1 i hi)
        simpa [toyParts, Module.limbOf] using this
      · simp [toyParts]
    obtain ⟨s, v⟩ := concat_spec nn _ (0 : Int) rsz hp
    refine ⟨s, fun i t hi ht => ?_⟩
    unfold Module.vecDft
    rw [v i t hi ht, coef_mk _ _ _ _ _ hi ht]
    unfold zext
    split
    · rename_i hia
      have := extract_getD x (i * asl) nn t (hag.1 i hia) ht
      show _ = f i t
      rw [← hag.2 i t hia ht]
      simpa [toyParts, Module.limbOf] using this
    · simp [toyParts, toyArith, Array.getD, ht]
  svp_prepare_exact := fun _ _ _ _ => trivial
  svp_exact := fun _ _ _ _ _ _ _ _ _ _ hb => hb.elim
  vmp_prepare_exact := fun _ _ _ _ _ _ => trivial
  vmp_exact := fun _ _ _ _ _ _ _ _ _ _ _ _ hb => hb.elim
  vmp_dd_exact := fun _ _ _ _ _ _ _ _ _ _ _ _ hb => hb.elim
  dft_idft_exact := by
    intro P sz rsz d hrep _ i t hi ht
    obtain ⟨hs, hv⟩ := hrep
    have hp : ∀ i, i < rsz →
        (if i < sz then (toyParts nn).toZnx ((toyParts nn).ifft (Module.dlimb d i (toyParts nn).nn))
          else Array.replicate (toyParts nn).nn 0).size = nn := by
      intro i _
      split
      · rename_i hi
        have h1 : (i + 1) * nn ≤ sz * nn := Nat.mul_le_mul_right _ (by omega)
        rw [Nat.succ_mul] at h1
        have := extract_size d (i * nn) nn (by omega)
        simpa [toyParts, Module.dlimb] using this
      · simp [toyParts]
    obtain ⟨_, v⟩ := concat_spec nn _ (0 : Int) rsz hp
    unfold Module.vecIdft
    rw [v i t hi ht]
    unfold zext
    split
    · rename_i his
      have h1 : (i + 1) * nn ≤ sz * nn := Nat.mul_le_mul_right _ (by omega)
      rw [Nat.succ_mul] at h1
      have := extract_getD d (i * nn) nn t (by omega) ht
      show _ = P.coef i t
      rw [← hv i t his ht]
      simpa [toyParts, Module.dlimb] using this
    · simp [toyParts, Array.getD, ht]
  small_product_exact := fun _ _ _ _ _ _ hb => hb.elim

end Spq.Prog
