/-
  C06.4, structural (law-free) simulation: the in-place kernels of `Spq.Fft` over an ARBITRARY value type `R`
  (no ring laws: binary64 patterns, flagged patterns, rationals with rounding, …) are simulated by the view-level
  functions of `FftView` on `prs s = fun p => (re[p], im[p])`.  Same proofs as `FftSim.lean`, with the complex
  value `re + I·im` replaced by the pair.
-/
import SpqProofs.Lemmas.FftSim
namespace Spq.Fft.SimP
open Spq.Fft Spq.Fft.View Spq.Fft.Sim

variable {R : Type} [Inhabited R]

/-- the (re, im) pair of every cell -/
def prs (s : RI R) : ℕ → R × R := fun p => (s.re[p]!, s.im[p]!)

/-- butterfly `f` with table entries `(wr, wi)` as a function on pairs -/
def bfV (f : Bf R) (wr wi : R) (u v : R × R) : (R × R) × (R × R) :=
  (((f u.1 u.2 v.1 v.2 wr wi).1, (f u.1 u.2 v.1 v.2 wr wi).2.1),
   ((f u.1 u.2 v.1 v.2 wr wi).2.2.1, (f u.1 u.2 v.1 v.2 wr wi).2.2.2))

def RealisesP (f : Bf R) (wr wi : R) (φ ψ : R × R → R × R → R × R) : Prop :=
  ∀ ra ia rb ib,
    ((f ra ia rb ib wr wi).1, (f ra ia rb ib wr wi).2.1) = φ (ra, ia) (rb, ib) ∧
    ((f ra ia rb ib wr wi).2.2.1, (f ra ia rb ib wr wi).2.2.2) = ψ (ra, ia) (rb, ib)

/-- every butterfly realises its own pair function -/
theorem realP (f : Bf R) (wr wi : R) :
    RealisesP f wr wi (fun u v => (bfV f wr wi u v).1) (fun u v => (bfV f wr wi u v).2) :=
  fun _ _ _ _ => ⟨rfl, rfl⟩

theorem bf_sim (N : ℕ) (f : Bf R) (wr wi : R) (φ ψ : R × R → R × R → R × R) (hf : RealisesP f wr wi φ ψ)
    (s : RI R) (a b : ℕ) (hs : Valid N s) (ha : a < N) (hb : b < N) (hab : a ≠ b) :
    prs (bf f s a b wr wi) = G φ ψ a b (prs s) ∧ Valid N (bf f s a b wr wi) := by
  obtain ⟨hre, him⟩ := hs
  constructor
  · funext p
    have h1 := hf s.re[a]! s.im[a]! s.re[b]! s.im[b]!
    simp only [prs, bf, G]
    rw [getElem!_set! _ _ _ _ (by simp [hre, hb]), getElem!_set! _ _ _ _ (by simp [hre, ha]),
      getElem!_set! _ _ _ _ (by simp [him, hb]), getElem!_set! _ _ _ _ (by simp [him, ha])]
    by_cases hpb : p = b
    · subst hpb
      rw [if_pos rfl, if_pos rfl, if_neg (Ne.symm hab), if_pos rfl]
      exact h1.2
    · rw [if_neg hpb, if_neg hpb]
      by_cases hpa : p = a
      · subst hpa
        rw [if_pos rfl, if_pos rfl, if_pos rfl]
        exact h1.1
      · rw [if_neg hpa, if_neg hpa, if_neg hpa, if_neg hpb]
  · simp [Valid, bf, hre, him]

/-- a loop whose steps are simulated is simulated -/
theorem loop_sim (N : ℕ) (f : ℕ → RI R → RI R) (g : ℕ → (ℕ → R × R) → (ℕ → R × R)) (c : ℕ)
    (h : ∀ j s, j < c → Valid N s → prs (f j s) = g j (prs s) ∧ Valid N (f j s)) (s : RI R) (hs : Valid N s) :
    prs (iterFrom f c 0 s) = iterFrom g c 0 (prs s) ∧ Valid N (iterFrom f c 0 s) :=
  iterFrom_sim (prs) (Valid N) f g c 0 (fun j s _ hj hs => h j s (by omega) hs) s hs

/-- `twPass` -/
theorem twPass_sim (N : ℕ) (f : Bf R) (wr wi : R) (φ ψ : R × R → R × R → R × R) (hf : RealisesP f wr wi φ ψ)
    (h off : ℕ) (s : RI R) (hs : Valid N s) (hN : off + 2 * h ≤ N) :
    prs (twPass f h off wr wi s) = twG φ ψ h off (prs s) ∧ Valid N (twPass f h off wr wi s) := by
  unfold twPass
  have := loop_sim N (fun i s => bf f s (off + i) (off + h + i) wr wi)
    (fun i x => G φ ψ (off + i) (off + h + i) x) h
    (fun j s hj hs => bf_sim N f wr wi φ ψ hf s _ _ hs (by omega) (by omega) (by omega)) s hs
  rw [loop1] at this
  exact this

/-- two butterflies in sequence -/
theorem bf2_sim (N : ℕ) (f f' : Bf R) (wr wi wr' wi' : R) (φ ψ φ' ψ' : R × R → R × R → R × R)
    (hf : RealisesP f wr wi φ ψ) (hf' : RealisesP f' wr' wi' φ' ψ')
    (s : RI R) (a b a' b' : ℕ) (hs : Valid N s) (ha : a < N) (hb : b < N) (hab : a ≠ b)
    (ha' : a' < N) (hb' : b' < N) (hab' : a' ≠ b') :
    prs (bf f' (bf f s a b wr wi) a' b' wr' wi') = G φ' ψ' a' b' (G φ ψ a b (prs s)) ∧
      Valid N (bf f' (bf f s a b wr wi) a' b' wr' wi') := by
  have h1 := bf_sim N f wr wi φ ψ hf s a b hs ha hb hab
  have h2 := bf_sim N f' wr' wi' φ' ψ' hf' _ a' b' h1.2 ha' hb' hab'
  rw [h2.1, h1.1]; exact ⟨rfl, h2.2⟩

/-- `bitwiddle` = one half-level on the whole block, then two half-levels on its halves -/
theorem bitwiddle_sim (N : ℕ) (F : Flav R) (T : Array R) (t h off : ℕ)
    (φ0 ψ0 φ1 ψ1 φ1' ψ1' : R × R → R × R → R × R)
    (h0 : RealisesP F.ct T[t]! T[t + 1]! φ0 ψ0) (h1 : RealisesP F.ct T[t + 2]! T[t + 3]! φ1 ψ1)
    (h1' : RealisesP F.cit T[t + 2]! T[t + 3]! φ1' ψ1') (s : RI R) (hs : Valid N s) (hN : off + 4 * h ≤ N) :
    prs (bitwiddle F T t h off s) =
        twG φ1' ψ1' h (off + 2 * h) (twG φ1 ψ1 h off (twG φ0 ψ0 (2 * h) off (prs s))) ∧
      Valid N (bitwiddle F T t h off s) := by
  unfold bitwiddle
  have l1 := loop_sim N
    (fun i s => bf F.ct (bf F.ct s (off + i) (off + 2 * h + i) T[t]! T[t + 1]!) (off + h + i) (off + 3 * h + i)
      T[t]! T[t + 1]!)
    (fun i x => G φ0 ψ0 (off + h + i) (off + 3 * h + i) (G φ0 ψ0 (off + i) (off + 2 * h + i) x)) h
    (fun j s hj hs => bf2_sim N _ _ _ _ _ _ _ _ _ _ h0 h0 s _ _ _ _ hs (by omega) (by omega) (by omega)
      (by omega) (by omega) (by omega)) s hs
  rw [loop2] at l1
  have l2 := loop_sim N
    (fun i s => bf F.cit (bf F.ct s (off + i) (off + h + i) T[t + 2]! T[t + 3]!) (off + 2 * h + i)
      (off + 3 * h + i) T[t + 2]! T[t + 3]!)
    (fun i x => G φ1' ψ1' (off + 2 * h + i) (off + 3 * h + i) (G φ1 ψ1 (off + i) (off + h + i) x)) h
    (fun j s hj hs => bf2_sim N _ _ _ _ _ _ _ _ _ _ h1 h1' s _ _ _ _ hs (by omega) (by omega) (by omega)
      (by omega) (by omega) (by omega)) _ l1.2
  rw [loop3, l1.1] at l2
  exact l2

/-- `invbitwiddle` = two half-levels on the halves, then one half-level on the whole block -/
theorem invbitwiddle_sim (N : ℕ) (F : Flav R) (T : Array R) (t h off : ℕ)
    (φ0 ψ0 φ0' ψ0' φ1 ψ1 : R × R → R × R → R × R)
    (h0 : RealisesP F.ct T[t]! T[t + 1]! φ0 ψ0) (h0' : RealisesP F.cit T[t]! T[t + 1]! φ0' ψ0')
    (h1 : RealisesP F.ct T[t + 2]! T[t + 3]! φ1 ψ1) (s : RI R) (hs : Valid N s) (hN : off + 4 * h ≤ N) :
    prs (invbitwiddle F T t h off s) =
        twG φ1 ψ1 (2 * h) off (twG φ0' ψ0' h (off + 2 * h) (twG φ0 ψ0 h off (prs s))) ∧
      Valid N (invbitwiddle F T t h off s) := by
  unfold invbitwiddle
  have l1 := loop_sim N
    (fun i s => bf F.cit (bf F.ct s (off + i) (off + h + i) T[t]! T[t + 1]!) (off + 2 * h + i)
      (off + 3 * h + i) T[t]! T[t + 1]!)
    (fun i x => G φ0' ψ0' (off + 2 * h + i) (off + 3 * h + i) (G φ0 ψ0 (off + i) (off + h + i) x)) h
    (fun j s hj hs => bf2_sim N _ _ _ _ _ _ _ _ _ _ h0 h0' s _ _ _ _ hs (by omega) (by omega) (by omega)
      (by omega) (by omega) (by omega)) s hs
  rw [loop3] at l1
  have l2 := loop_sim N
    (fun i s => bf F.ct (bf F.ct s (off + i) (off + 2 * h + i) T[t + 2]! T[t + 3]!) (off + h + i)
      (off + 3 * h + i) T[t + 2]! T[t + 3]!)
    (fun i x => G φ1 ψ1 (off + h + i) (off + 3 * h + i) (G φ1 ψ1 (off + i) (off + 2 * h + i) x)) h
    (fun j s hj hs => bf2_sim N _ _ _ _ _ _ _ _ _ _ h1 h1 s _ _ _ _ hs (by omega) (by omega) (by omega)
      (by omega) (by omega) (by omega)) _ l1.2
  rw [loop2, l1.1] at l2
  exact l2

/-- the 16-point forward leaf -/
theorem fft16K_sim (N : ℕ) (F : Flav R) (w : ℕ → R × R) (Φ Φ' : ℕ → (R × R → R × R → R × R) × (R × R → R × R → R × R))
    (hct : ∀ k, k < 8 → RealisesP F.ct (w k).1 (w k).2 (Φ k).1 (Φ k).2)
    (hcit : ∀ k, k < 8 → RealisesP F.cit (w k).1 (w k).2 (Φ' k).1 (Φ' k).2)
    (off : ℕ) (s : RI R) (hs : Valid N s) (hN : off + 16 ≤ N) :
    prs (fft16K F w off s) = fft16V Φ Φ' off (prs s) ∧ Valid N (fft16K F w off s) := by
  unfold fft16K fft16V
  have e1 := loop_sim N (fun i s => bf F.ct s (off + i) (off + 8 + i) (w 0).1 (w 0).2)
    (fun i x => G (Φ 0).1 (Φ 0).2 (off + i) (off + 8 + i) x) 8
    (fun j s hj hs => bf_sim N _ _ _ _ _ (hct 0 (by omega)) s _ _ hs (by omega) (by omega) (by omega)) s hs
  rw [loop1] at e1
  have e2 := loop_sim N (fun i s => bf F.ct s (off + i) (off + 4 + i) (w 1).1 (w 1).2)
    (fun i x => G (Φ 1).1 (Φ 1).2 (off + i) (off + 4 + i) x) 4
    (fun j s hj hs => bf_sim N _ _ _ _ _ (hct 1 (by omega)) s _ _ hs (by omega) (by omega) (by omega)) _ e1.2
  rw [loop1, e1.1] at e2
  have e3 := loop_sim N (fun i s => bf F.cit s (off + 8 + i) (off + 12 + i) (w 1).1 (w 1).2)
    (fun i x => G (Φ' 1).1 (Φ' 1).2 (off + 8 + i) (off + 12 + i) x) 4
    (fun j s hj hs => bf_sim N _ _ _ _ _ (hcit 1 (by omega)) s _ _ hs (by omega) (by omega) (by omega)) _ e2.2
  rw [loop1' _ _ 4 (off + 8) _ _ (fun i => rfl) (fun i => by omega), e2.1] at e3
  have e4 := bf2_sim N _ _ _ _ _ _ _ _ _ _ (hct 2 (by omega)) (hct 2 (by omega)) _ off (off + 2) (off + 1)
    (off + 3) e3.2 (by omega) (by omega) (by omega) (by omega) (by omega) (by omega)
  rw [G_G_eq_twG2' _ _ off _ _ _ rfl rfl rfl, e3.1] at e4
  have e5 := bf2_sim N _ _ _ _ _ _ _ _ _ _ (hcit 2 (by omega)) (hcit 2 (by omega)) _ (off + 4) (off + 6)
    (off + 5) (off + 7) e4.2 (by omega) (by omega) (by omega) (by omega) (by omega) (by omega)
  rw [G_G_eq_twG2' _ _ (off + 4) _ _ _ rfl rfl rfl, e4.1] at e5
  have e6 := bf2_sim N _ _ _ _ _ _ _ _ _ _ (hct 3 (by omega)) (hct 3 (by omega)) _ (off + 8) (off + 10)
    (off + 9) (off + 11) e5.2 (by omega) (by omega) (by omega) (by omega) (by omega) (by omega)
  rw [G_G_eq_twG2' _ _ (off + 8) _ _ _ rfl rfl rfl, e5.1] at e6
  have e7 := bf2_sim N _ _ _ _ _ _ _ _ _ _ (hcit 3 (by omega)) (hcit 3 (by omega)) _ (off + 12) (off + 14)
    (off + 13) (off + 15) e6.2 (by omega) (by omega) (by omega) (by omega) (by omega) (by omega)
  rw [G_G_eq_twG2' _ _ (off + 12) _ _ _ rfl rfl rfl, e6.1] at e7
  have e8 := loop_sim N
    (fun q s => bf F.cit (bf F.ct s (off + 4 * q) (off + 4 * q + 1) (w (4 + q)).1 (w (4 + q)).2)
      (off + 4 * q + 2) (off + 4 * q + 3) (w (4 + q)).1 (w (4 + q)).2)
    (fun q x => twG (Φ' (4 + q)).1 (Φ' (4 + q)).2 1 (off + 4 * q + 2)
      (twG (Φ (4 + q)).1 (Φ (4 + q)).2 1 (off + 4 * q) x)) 4
    (fun q s hq hs => by
      have := bf2_sim N _ _ _ _ _ _ _ _ _ _ (hct (4 + q) (by omega)) (hcit (4 + q) (by omega)) s
        (off + 4 * q) (off + 4 * q + 1) (off + 4 * q + 2) (off + 4 * q + 3) hs (by omega) (by omega) (by omega)
        (by omega) (by omega) (by omega)
      rw [G_eq_twG1' _ _ (off + 4 * q) _ rfl, G_eq_twG1' _ _ (off + 4 * q + 2) _ rfl] at this
      exact this) _ e7.2
  rw [e7.1] at e8
  exact e8

/-- the 16-point inverse leaf -/
theorem ifft16K_sim (N : ℕ) (F : Flav R) (w : ℕ → R × R) (Φ Φ' : ℕ → (R × R → R × R → R × R) × (R × R → R × R → R × R))
    (hct : ∀ k, k < 8 → RealisesP F.ct (w k).1 (w k).2 (Φ k).1 (Φ k).2)
    (hcit : ∀ k, k < 8 → RealisesP F.cit (w k).1 (w k).2 (Φ' k).1 (Φ' k).2)
    (off : ℕ) (s : RI R) (hs : Valid N s) (hN : off + 16 ≤ N) :
    prs (ifft16K F w off s) = ifft16V Φ Φ' off (prs s) ∧ Valid N (ifft16K F w off s) := by
  unfold ifft16K ifft16V
  have e1 := loop_sim N
    (fun q s => bf F.cit (bf F.ct s (off + 4 * q) (off + 4 * q + 1) (w q).1 (w q).2)
      (off + 4 * q + 2) (off + 4 * q + 3) (w q).1 (w q).2)
    (fun q x => twG (Φ' q).1 (Φ' q).2 1 (off + 4 * q + 2) (twG (Φ q).1 (Φ q).2 1 (off + 4 * q) x)) 4
    (fun q s hq hs => by
      have := bf2_sim N _ _ _ _ _ _ _ _ _ _ (hct q (by omega)) (hcit q (by omega)) s
        (off + 4 * q) (off + 4 * q + 1) (off + 4 * q + 2) (off + 4 * q + 3) hs (by omega) (by omega) (by omega)
        (by omega) (by omega) (by omega)
      rw [G_eq_twG1' _ _ (off + 4 * q) _ rfl, G_eq_twG1' _ _ (off + 4 * q + 2) _ rfl] at this
      exact this) s hs
  have e4 := bf2_sim N _ _ _ _ _ _ _ _ _ _ (hct 4 (by omega)) (hct 4 (by omega)) _ off (off + 2) (off + 1)
    (off + 3) e1.2 (by omega) (by omega) (by omega) (by omega) (by omega) (by omega)
  rw [G_G_eq_twG2' _ _ off _ _ _ rfl rfl rfl, e1.1] at e4
  have e5 := bf2_sim N _ _ _ _ _ _ _ _ _ _ (hcit 4 (by omega)) (hcit 4 (by omega)) _ (off + 4) (off + 6)
    (off + 5) (off + 7) e4.2 (by omega) (by omega) (by omega) (by omega) (by omega) (by omega)
  rw [G_G_eq_twG2' _ _ (off + 4) _ _ _ rfl rfl rfl, e4.1] at e5
  have e6 := bf2_sim N _ _ _ _ _ _ _ _ _ _ (hct 5 (by omega)) (hct 5 (by omega)) _ (off + 8) (off + 10)
    (off + 9) (off + 11) e5.2 (by omega) (by omega) (by omega) (by omega) (by omega) (by omega)
  rw [G_G_eq_twG2' _ _ (off + 8) _ _ _ rfl rfl rfl, e5.1] at e6
  have e7 := bf2_sim N _ _ _ _ _ _ _ _ _ _ (hcit 5 (by omega)) (hcit 5 (by omega)) _ (off + 12) (off + 14)
    (off + 13) (off + 15) e6.2 (by omega) (by omega) (by omega) (by omega) (by omega) (by omega)
  rw [G_G_eq_twG2' _ _ (off + 12) _ _ _ rfl rfl rfl, e6.1] at e7
  have e8 := loop_sim N (fun i s => bf F.ct s (off + i) (off + 4 + i) (w 6).1 (w 6).2)
    (fun i x => G (Φ 6).1 (Φ 6).2 (off + i) (off + 4 + i) x) 4
    (fun j s hj hs => bf_sim N _ _ _ _ _ (hct 6 (by omega)) s _ _ hs (by omega) (by omega) (by omega)) _ e7.2
  rw [loop1, e7.1] at e8
  have e9 := loop_sim N (fun i s => bf F.cit s (off + 8 + i) (off + 12 + i) (w 6).1 (w 6).2)
    (fun i x => G (Φ' 6).1 (Φ' 6).2 (off + 8 + i) (off + 12 + i) x) 4
    (fun j s hj hs => bf_sim N _ _ _ _ _ (hcit 6 (by omega)) s _ _ hs (by omega) (by omega) (by omega)) _ e8.2
  rw [loop1' _ _ 4 (off + 8) _ _ (fun i => rfl) (fun i => by omega), e8.1] at e9
  have e10 := loop_sim N (fun i s => bf F.ct s (off + i) (off + 8 + i) (w 7).1 (w 7).2)
    (fun i x => G (Φ 7).1 (Φ 7).2 (off + i) (off + 8 + i) x) 8
    (fun j s hj hs => bf_sim N _ _ _ _ _ (hct 7 (by omega)) s _ _ hs (by omega) (by omega) (by omega)) _ e9.2
  rw [loop1, e9.1] at e10
  exact e10

end Spq.Fft.SimP
