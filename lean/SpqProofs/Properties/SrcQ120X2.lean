/-
  C10 / C04, translator tie of the q120 REFERENCE arithmetic, continued (see `Properties/SrcQ120.lean` for the
  conventions): the two q120x2 product kernels `q120x2_vec_mat1col_product_bbc_ref` and
  `q120x2_vec_mat2cols_product_bbc_ref` (2 resp. 4 inlined accumulation loops over the same precomputation object).
  The proofs are produced by tools/gen_srcq120_x2.py.
-/
import Gen.CSrc
import SpqProofs.Lemmas.SrcQ120
import SpqProofs.Lemmas.SrcVec
import SpqProofs.Lemmas.Q120ConvGen
import SpqProofs.Lemmas.C04ProductsGen
namespace Spq.Src
open Spq Spq.CIR Spq.Q120

set_option linter.unusedSimpArgs false in
theorem src_q120x2_vec_mat1col_product_bbc_ref_eq_model (P : BbcPrecomp) (hh : P.h < 64)
    (ell : Nat) (hell : ell < 576460752303423488) (mem : Mem) (pc r x y : Nat) (X Y : Array Nat)
    (hpc : buf mem pc = natBuf (bbcCells P)) (hrp : r ≠ pc)
    (hr : (buf mem r).size = 8) (hx : buf mem x = natBuf X) (hX : X.size = 8 * ell)
    (hXb : ∀ i, X.getD i 0 < 18446744073709551616)
    (hy : buf mem y = natBuf Y) (hY : Y.size = 8 * ell) (hYb : ∀ i, Y.getD i 0 < 18446744073709551616) :
    ∀ fuel, ell + 4 ≤ fuel →
      run fuel Gen.CSrc.q120x2_vec_mat1col_product_bbc_ref [(ell : Int)]
          [some (pc, 0), some (r, 0), some (x, 0), some (y, 0)] mem
        = .ok (mem.setIfInBounds r (natBuf (x2Col1Ref P ell X Y))) := by
  intro fuel hf
  let F : Nat → Nat → Nat × Nat := fun n r => (x2Col1Terms n X Y r).foldl bbcRefStep (0, 0)
  have F_succ0 : ∀ n, F (n + 1) 0 = bbcRefStep (F n 0) (X.getD (8 * n + 0) 0, Y.getD (8 * n + 0) 0) := by
    intro n
    simp only [F, x2Col1Terms, laneTerms_succ, List.foldl_append, List.foldl_cons, List.foldl_nil]
    first | done | rfl
  have F_succ1 : ∀ n, F (n + 1) 1 = bbcRefStep (F n 1) (X.getD (8 * n + 1) 0, Y.getD (8 * n + 1) 0) := by
    intro n
    simp only [F, x2Col1Terms, laneTerms_succ, List.foldl_append, List.foldl_cons, List.foldl_nil]
    first | done | rfl
  have F_succ2 : ∀ n, F (n + 1) 2 = bbcRefStep (F n 2) (X.getD (8 * n + 2) 0, Y.getD (8 * n + 2) 0) := by
    intro n
    simp only [F, x2Col1Terms, laneTerms_succ, List.foldl_append, List.foldl_cons, List.foldl_nil]
    first | done | rfl
  have F_succ3 : ∀ n, F (n + 1) 3 = bbcRefStep (F n 3) (X.getD (8 * n + 3) 0, Y.getD (8 * n + 3) 0) := by
    intro n
    simp only [F, x2Col1Terms, laneTerms_succ, List.foldl_append, List.foldl_cons, List.foldl_nil]
    first | done | rfl
  have F_succ4 : ∀ n, F (n + 1) 4 = bbcRefStep (F n 4) (X.getD (8 * n + 4 + 0) 0, Y.getD (8 * n + 4 + 0) 0) := by
    intro n
    simp only [F, x2Col1Terms, laneTerms_succ, List.foldl_append, List.foldl_cons, List.foldl_nil]
    first | done | rfl
  have F_succ5 : ∀ n, F (n + 1) 5 = bbcRefStep (F n 5) (X.getD (8 * n + 4 + 1) 0, Y.getD (8 * n + 4 + 1) 0) := by
    intro n
    simp only [F, x2Col1Terms, laneTerms_succ, List.foldl_append, List.foldl_cons, List.foldl_nil]
    first | done | rfl
  have F_succ6 : ∀ n, F (n + 1) 6 = bbcRefStep (F n 6) (X.getD (8 * n + 4 + 2) 0, Y.getD (8 * n + 4 + 2) 0) := by
    intro n
    simp only [F, x2Col1Terms, laneTerms_succ, List.foldl_append, List.foldl_cons, List.foldl_nil]
    first | done | rfl
  have F_succ7 : ∀ n, F (n + 1) 7 = bbcRefStep (F n 7) (X.getD (8 * n + 4 + 3) 0, Y.getD (8 * n + 4 + 3) 0) := by
    intro n
    simp only [F, x2Col1Terms, laneTerms_succ, List.foldl_append, List.foldl_cons, List.foldl_nil]
    first | done | rfl
  cir_enter Gen.CSrc.q120x2_vec_mat1col_product_bbc_ref
  have pp0 : ∀ env v, ptrAt [some (pc, 0), some (r, 0), some (x, 0), some (y, 0)] env (.param 0) ((v : Nat) : Int)
      = .ok (some (pc, 0 + v)) := fun env v => ptrAt_param _ env 0 pc 0 v rfl
  have pp0z : ∀ env, ptrAt [some (pc, 0), some (r, 0), some (x, 0), some (y, 0)] env (.param 0) 0 = .ok (some (pc, 0)) :=
    fun env => ptrAt_param_zero _ env 0 pc 0 rfl
  have pp1 : ∀ env, ptrAt [some (pc, 0), some (r, 0), some (x, 0), some (y, 0)] env (.param 1) 0 = .ok (some (r, 0)) :=
    fun env => ptrAt_param_zero _ env 1 r 0 rfl
  have pp2 : ∀ env, ptrAt [some (pc, 0), some (r, 0), some (x, 0), some (y, 0)] env (.param 2) 0 = .ok (some (x, 0)) :=
    fun env => ptrAt_param_zero _ env 2 x 0 rfl
  have pp3 : ∀ env, ptrAt [some (pc, 0), some (r, 0), some (x, 0), some (y, 0)] env (.param 3) 0 = .ok (some (y, 0)) :=
    fun env => ptrAt_param_zero _ env 3 y 0 rfl
  have hsh : (0 : Int) ≤ (P.h : Int) ∧ (P.h : Int) < 64 := by omega
  have e0 : (0 : Int) % 18446744073709551616 = 0 := by decide
  have e1 : (1 : Int) % 18446744073709551616 = 1 := by decide
  have e2 : (2 : Int) % 18446744073709551616 = 2 := by decide
  repeat (first | cirq_simp | simp only [pp1, pp2, pp3, encPtr_some, e0])
  let zt : List Int := [0, 0, 0, 0, 0, 0, 0, 0]
  let zf : List Int := [0, 0, 0, 0, 0, 0]
  let envOf : (Nat → Nat × Nat) → Int → List Int → List Int → List Int → List Int → List Int := fun s i T0 T1 U0 U1 =>
    [(ell : Int), (((s 0).1 : Nat) : Int), (((s 0).2 : Nat) : Int), (((s 1).1 : Nat) : Int), (((s 1).2 : Nat) : Int), (((s 2).1 : Nat) : Int), (((s 2).2 : Nat) : Int), (((s 3).1 : Nat) : Int), (((s 3).2 : Nat) : Int), 0, 0, 0, 0, 0, 0, 0, 0, (((s 4).1 : Nat) : Int), (((s 4).2 : Nat) : Int), (((s 5).1 : Nat) : Int), (((s 5).2 : Nat) : Int), (((s 6).1 : Nat) : Int), (((s 6).2 : Nat) : Int), (((s 7).1 : Nat) : Int), (((s 7).2 : Nat) : Int), 0, 0, 0, 0, 0, 0, 0, 0,
      (x : Int), ((0 : Nat) : Int), (y : Int), ((0 : Nat) : Int), (r : Int), ((0 : Nat) : Int), i] ++ T0 ++ T1 ++ U0 ++ U1
  let told0 : Nat → List Int := fun n => if n = 0 then zt else
    ((4 : Nat) : Int) :: bbcTemps (X.getD (8 * (n - 1) + 3) 0) (Y.getD (8 * (n - 1) + 3) 0)
  let tnew0 : Nat → List Int := fun n =>
    ((4 : Nat) : Int) :: bbcTemps (X.getD (8 * n + 3) 0) (Y.getD (8 * n + 3) 0)
  let told1 : Nat → List Int := fun n => if n = 0 then zt else
    ((4 : Nat) : Int) :: bbcTemps (X.getD (8 * (n - 1) + 4 + 3) 0) (Y.getD (8 * (n - 1) + 4 + 3) 0)
  let tnew1 : Nat → List Int := fun n =>
    ((4 : Nat) : Int) :: bbcTemps (X.getD (8 * n + 4 + 3) 0) (Y.getD (8 * n + 4 + 3) 0)
  let So : Nat → State := fun n => ⟨envOf (F n) (n : Int) (told0 n) (told1 n) zf zf, mem⟩
  rw [exec_for_range _ _ _ _ _ _ So 0 ell 4 (Nat.zero_le _) ?hi0 ?hc ?hs ?hx fuel (by omega)]
  case hi0 => intro f; rfl
  case hc =>
    intro n _ hn
    simp only [So, envOf, List.cons_append]
    cir_simp
    exact ok_decide_true (by omega)
  case hx =>
    simp only [So, envOf, List.cons_append]
    cir_simp
    exact ok_decide_false (by omega)
  case hs =>
    intro n _ hn f hf4
    obtain ⟨o00, o01, o02, o03, o04, o05, o06, o07, hto0⟩ : ∃ o00 o01 o02 o03 o04 o05 o06 o07 : Int, told0 n = [o00, o01, o02, o03, o04, o05, o06, o07] := by
      simp only [told0, zt]
      split
      · exact ⟨_, _, _, _, _, _, _, _, rfl⟩
      · exact ⟨_, _, _, _, _, _, _, _, rfl⟩
    obtain ⟨o10, o11, o12, o13, o14, o15, o16, o17, hto1⟩ : ∃ o10 o11 o12 o13 o14 o15 o16 o17 : Int, told1 n = [o10, o11, o12, o13, o14, o15, o16, o17] := by
      simp only [told1, zt]
      split
      · exact ⟨_, _, _, _, _, _, _, _, rfl⟩
      · exact ⟨_, _, _, _, _, _, _, _, rfl⟩
    simp only [exec_seq]
    -- group 0: s[0] += x[i][0] * y[i][0]
    let tj0 : Nat → List Int := fun j => (j : Int) :: (if j = 0 then (told0 n).tail else
      bbcTemps (X.getD (8 * n + (j - 1)) 0) (Y.getD (8 * n + (j - 1)) 0))
    let Si0 : Nat → State := fun j =>
      ⟨envOf (fun q => if q < 0 + j then F (n + 1) q else F n q) (n : Int)  (tj0 j) (told1 n) zf zf, mem⟩
    rw [exec_for_range _ _ _ _ _ _ Si0 0 4 0 (Nat.zero_le _) ?hi0 ?hc ?hs ?hx f (by omega)]
    case hi0 =>
      intro f
      simp only [So, Si0, envOf, tj0, hto0, hto1, List.cons_append, List.nil_append, zf, tnew0, tnew1, bbcTemps]
      cir_simp
      simp (config := { decide := true }) only [Nat.not_lt_zero, if_false, if_true, Nat.add_zero, List.tail_cons, Nat.reduceAdd, Nat.reduceSub, Nat.reduceLT, e0]
      first | done | rfl
    case hc =>
      intro j _ hj
      simp only [Si0, envOf, tj0, List.cons_append, List.nil_append, tnew0, hto0, tnew1, hto1, bbcTemps]
      cir_simp
      exact ok_decide_true (by omega)
    case hx =>
      simp only [Si0, envOf, tj0, List.cons_append, List.nil_append, tnew0, hto0, tnew1, hto1, bbcTemps]
      cir_simp
      exact ok_decide_false (by decide)
    case hs =>
      intro j _ hj f _
      have hjj : j = 0 ∨ j = 1 ∨ j = 2 ∨ j = 3 := by omega
      have hxlo : ((n : Int) * 16 % 18446744073709551616 + 2 * (j : Int) % 18446744073709551616) % 18446744073709551616
          = ((2 * (8 * n + j) : Nat) : Int) := by omega
      have hxhi : ((n : Int) * 16 % 18446744073709551616 + (2 * (j : Int) % 18446744073709551616 + 1) % 18446744073709551616) % 18446744073709551616
          = ((2 * (8 * n + j) + 1 : Nat) : Int) := by omega
      have hylo : ((n : Int) * 16 % 18446744073709551616 + 2 * (j : Int) % 18446744073709551616) % 18446744073709551616
          = ((2 * (8 * n + j) : Nat) : Int) := by omega
      have hyhi : ((n : Int) * 16 % 18446744073709551616 + (2 * (j : Int) % 18446744073709551616 + 1) % 18446744073709551616) % 18446744073709551616
          = ((2 * (8 * n + j) + 1 : Nat) : Int) := by omega
      have hto_lo : (2 * (j : Int) % 18446744073709551616).toNat = 2 * j := by omega
      have hto_hi : ((2 * (j : Int) % 18446744073709551616 + 1) % 18446744073709551616).toNat = 2 * j + 1 := by omega
      have hlx : loadCell mem (some (x, 8 * n + j)) 0 = .ok ((X.getD (8 * n + j) 0 : Nat) : Int) :=
        pload_natBuf mem x X _ hx (by omega)
      have hly : loadCell mem (some (y, 8 * n + j)) 0 = .ok ((Y.getD (8 * n + j) 0 : Nat) : Int) :=
        pload_natBuf mem y Y _ hy (by omega)
      have htd : ∃ t1 t2 t3 t4 t5 t6 t7 : Int, tj0 j = [(j : Int), t1, t2, t3, t4, t5, t6, t7] := by
        simp only [tj0, hto0, List.tail_cons]
        split
        · exact ⟨_, _, _, _, _, _, _, rfl⟩
        · exact ⟨_, _, _, _, _, _, _, rfl⟩
      obtain ⟨t1, t2, t3, t4, t5, t6, t7, htj⟩ := htd
      have htj1 : tj0 (j + 1) = ((j + 1 : Nat) : Int) :: bbcTemps (X.getD (8 * n + j) 0) (Y.getD (8 * n + j) 0) := by
        simp only [tj0, Nat.add_one_ne_zero, if_false, Nat.add_sub_cancel]
      rcases hjj with rfl | rfl | rfl | rfl
      all_goals (
        simp only [Si0, envOf, htj, htj1, List.cons_append, List.nil_append, zf, tnew0, hto0, tnew1, hto1, bbcTemps]
        simp (config := { decide := true }) only [if_true, if_false, Nat.reduceSub, Nat.reduceAdd, Nat.add_zero, Nat.reduceLT]
        repeat (first
          | cirqx [e1, e2, hxlo, hxhi, hylo, hyhi, hlx, hly, natCast_not_neg, even_div2, even_mod2, odd_div2, odd_mod2,
              half32_lo, half32_hi _ (hXb _), half32_hi _ (hYb _), wrap_lo32, wrap_hi32 _ (hXb _), wrap_hi32 _ (hYb _),
              hto_lo, hto_hi, Nat.reduceMul, and_mask32]
          | rw [ptrAt_pvar_nat _ _ 33 x 0 _ _ rfl rfl rfl]
          | rw [ptrAt_pvar_nat _ _ 35 y 0 _ _ rfl rfl rfl])
        simp only [F_succ0, F_succ1, F_succ2, F_succ3, bbcRefStep, bbcTemps, inc_cast0, inc_cast1, inc_cast2, inc_cast3, Nat.add_zero, List.cons_append, List.nil_append]
        first | done | rfl)
    simp only [seqK_norm, exec_seq]
    -- group 1: s[1] += x[i][1] * y[i][1]
    let tj1 : Nat → List Int := fun j => (j : Int) :: (if j = 0 then (told1 n).tail else
      bbcTemps (X.getD (8 * n + 4 + (j - 1)) 0) (Y.getD (8 * n + 4 + (j - 1)) 0))
    let Si1 : Nat → State := fun j =>
      ⟨envOf (fun q => if q < 4 + j then F (n + 1) q else F n q) (n : Int) (tnew0 n) (tj1 j)  zf zf, mem⟩
    rw [exec_for_range _ _ _ _ _ _ Si1 0 4 0 (Nat.zero_le _) ?hi0 ?hc ?hs ?hx f (by omega)]
    case hi0 =>
      intro f
      simp only [Si0, Si1, envOf, tj1, hto0, hto1, List.cons_append, List.nil_append, zf, tj0, tnew0, tnew1, bbcTemps]
      cir_simp
      simp (config := { decide := true }) only [Nat.not_lt_zero, if_false, if_true, Nat.add_zero, List.tail_cons, Nat.reduceAdd, Nat.reduceSub, Nat.reduceLT, e0]
      first | done | rfl
    case hc =>
      intro j _ hj
      simp only [Si1, envOf, tj1, List.cons_append, List.nil_append, tnew0, hto0, tnew1, hto1, bbcTemps]
      cir_simp
      exact ok_decide_true (by omega)
    case hx =>
      simp only [Si1, envOf, tj1, List.cons_append, List.nil_append, tnew0, hto0, tnew1, hto1, bbcTemps]
      cir_simp
      exact ok_decide_false (by decide)
    case hs =>
      intro j _ hj f _
      have hjj : j = 0 ∨ j = 1 ∨ j = 2 ∨ j = 3 := by omega
      have hxlo : (((n : Int) * 16 % 18446744073709551616 + 8) % 18446744073709551616 + 2 * (j : Int) % 18446744073709551616) % 18446744073709551616
          = ((2 * (8 * n + 4 + j) : Nat) : Int) := by omega
      have hxhi : (((n : Int) * 16 % 18446744073709551616 + 8) % 18446744073709551616 + (2 * (j : Int) % 18446744073709551616 + 1) % 18446744073709551616) % 18446744073709551616
          = ((2 * (8 * n + 4 + j) + 1 : Nat) : Int) := by omega
      have hylo : (((n : Int) * 16 % 18446744073709551616 + 8) % 18446744073709551616 + 2 * (j : Int) % 18446744073709551616) % 18446744073709551616
          = ((2 * (8 * n + 4 + j) : Nat) : Int) := by omega
      have hyhi : (((n : Int) * 16 % 18446744073709551616 + 8) % 18446744073709551616 + (2 * (j : Int) % 18446744073709551616 + 1) % 18446744073709551616) % 18446744073709551616
          = ((2 * (8 * n + 4 + j) + 1 : Nat) : Int) := by omega
      have hto_lo : ((16 + 2 * (j : Int) % 18446744073709551616) % 18446744073709551616).toNat = 16 + 2 * j := by omega
      have hto_hi : ((16 + (2 * (j : Int) % 18446744073709551616 + 1) % 18446744073709551616) % 18446744073709551616).toNat = 16 + 2 * j + 1 := by omega
      have hlx : loadCell mem (some (x, 8 * n + 4 + j)) 0 = .ok ((X.getD (8 * n + 4 + j) 0 : Nat) : Int) :=
        pload_natBuf mem x X _ hx (by omega)
      have hly : loadCell mem (some (y, 8 * n + 4 + j)) 0 = .ok ((Y.getD (8 * n + 4 + j) 0 : Nat) : Int) :=
        pload_natBuf mem y Y _ hy (by omega)
      have htd : ∃ t1 t2 t3 t4 t5 t6 t7 : Int, tj1 j = [(j : Int), t1, t2, t3, t4, t5, t6, t7] := by
        simp only [tj1, hto1, List.tail_cons]
        split
        · exact ⟨_, _, _, _, _, _, _, rfl⟩
        · exact ⟨_, _, _, _, _, _, _, rfl⟩
      obtain ⟨t1, t2, t3, t4, t5, t6, t7, htj⟩ := htd
      have htj1 : tj1 (j + 1) = ((j + 1 : Nat) : Int) :: bbcTemps (X.getD (8 * n + 4 + j) 0) (Y.getD (8 * n + 4 + j) 0) := by
        simp only [tj1, Nat.add_one_ne_zero, if_false, Nat.add_sub_cancel]
      rcases hjj with rfl | rfl | rfl | rfl
      all_goals (
        simp only [Si1, envOf, htj, htj1, List.cons_append, List.nil_append, zf, tnew0, hto0, tnew1, hto1, bbcTemps]
        simp (config := { decide := true }) only [if_true, if_false, Nat.reduceSub, Nat.reduceAdd, Nat.add_zero, Nat.reduceLT]
        repeat (first
          | cirqx [e1, e2, hxlo, hxhi, hylo, hyhi, hlx, hly, natCast_not_neg, even_div2, even_mod2, odd_div2, odd_mod2,
              half32_lo, half32_hi _ (hXb _), half32_hi _ (hYb _), wrap_lo32, wrap_hi32 _ (hXb _), wrap_hi32 _ (hYb _),
              hto_lo, hto_hi, Nat.reduceMul, and_mask32]
          | rw [ptrAt_pvar_nat _ _ 33 x 0 _ _ rfl rfl rfl]
          | rw [ptrAt_pvar_nat _ _ 35 y 0 _ _ rfl rfl rfl])
        simp only [F_succ4, F_succ5, F_succ6, F_succ7, bbcRefStep, bbcTemps, inc_cast0, inc_cast1, inc_cast2, inc_cast3, Nat.add_zero, List.cons_append, List.nil_append]
        first | done | rfl)
    simp only [Si1, So, envOf, tj1, tnew0, told0, tnew1, told1, List.cons_append, List.nil_append]
    cirq_simp
    simp (config := { decide := true }) only [if_true, if_false, Nat.reduceSub, Nat.reduceAdd, Nat.add_one_ne_zero,
      Nat.add_sub_cancel, Nat.reduceLT]
    have e4 : ((n : Int) + 1) % 18446744073709551616 = ((n + 1 : Nat) : Int) := by omega
    rw [e4]
    first | done | rfl
  -- accum_to_q120b
  let gf : Nat → Int := fun q => ((bbcRefFinal P (q % 4) (F ell q) : Nat) : Int)
  have hfin : mem.setIfInBounds r (natBuf (x2Col1Ref P ell X Y)) = fillMem mem r gf 8 := by
    rw [fillMem_all _ _ _ _ hr, natBuf_eq_ofFn _ 8 gf (by simp [x2Col1Ref])
      (fun i hi => by simp [x2Col1Ref, bbcRefLane, Array.getD, hi, gf, F])]
  rw [hfin]
  have hload0 : ∀ m', buf m' pc = natBuf (bbcCells P) → loadCell m' (some (pc, 0)) 0 = .ok ((P.h : Nat) : Int) :=
    fun m' h' => pload_natBuf m' pc _ 0 h' (by simp [bbcCells])
  simp only [So, envOf, zf, zt, seqK_norm, List.cons_append, List.nil_append, told0, told1]
  have htd0 : ∃ t0 t1 t2 t3 t4 t5 t6 t7 : Int,
      (if ell = 0 then [0, 0, 0, 0, 0, 0, 0, 0] else ((4 : Nat) : Int) :: bbcTemps (X.getD (8 * (ell - 1) + 3) 0)
        (Y.getD (8 * (ell - 1) + 3) 0)) = [t0, t1, t2, t3, t4, t5, t6, t7] := by
    split
    · exact ⟨_, _, _, _, _, _, _, _, rfl⟩
    · exact ⟨_, _, _, _, _, _, _, _, rfl⟩
  obtain ⟨a00, a01, a02, a03, a04, a05, a06, a07, htd0'⟩ := htd0
  rw [htd0']
  have htd1 : ∃ t0 t1 t2 t3 t4 t5 t6 t7 : Int,
      (if ell = 0 then [0, 0, 0, 0, 0, 0, 0, 0] else ((4 : Nat) : Int) :: bbcTemps (X.getD (8 * (ell - 1) + 4 + 3) 0)
        (Y.getD (8 * (ell - 1) + 4 + 3) 0)) = [t0, t1, t2, t3, t4, t5, t6, t7] := by
    split
    · exact ⟨_, _, _, _, _, _, _, _, rfl⟩
    · exact ⟨_, _, _, _, _, _, _, _, rfl⟩
  obtain ⟨a10, a11, a12, a13, a14, a15, a16, a17, htd1'⟩ := htd1
  rw [htd1']
  simp only [List.cons_append, List.nil_append, exec_seq]
  conv => lhs; rw [show mem = fillMem mem r gf 0 from (set_fill_zero mem r gf).symm]
  let hpcm : ∀ k, buf (fillMem mem r gf k) pc = natBuf (bbcCells P) := fun k => by
    rw [buf_set_ne mem r pc _ (Ne.symm hrp)]; exact hpc
  -- result 0
  let finT0 : Nat → List Int := fun j => if j = 0 then [0, 0, 0] else bbcFin P (j - 1) (F ell (0 + (j - 1)))
  let Sf0 : Nat → State := fun j =>
    ⟨[(ell : Int), (((F ell 0).1 : Nat) : Int), (((F ell 0).2 : Nat) : Int), (((F ell 1).1 : Nat) : Int), (((F ell 1).2 : Nat) : Int), (((F ell 2).1 : Nat) : Int), (((F ell 2).2 : Nat) : Int), (((F ell 3).1 : Nat) : Int), (((F ell 3).2 : Nat) : Int), 0, 0, 0, 0, 0, 0, 0, 0, (((F ell 4).1 : Nat) : Int), (((F ell 4).2 : Nat) : Int), (((F ell 5).1 : Nat) : Int), (((F ell 5).2 : Nat) : Int), (((F ell 6).1 : Nat) : Int), (((F ell 6).2 : Nat) : Int), (((F ell 7).1 : Nat) : Int), (((F ell 7).2 : Nat) : Int), 0, 0, 0, 0, 0, 0, 0, 0,
      (x : Int), ((0 : Nat) : Int), (y : Int), ((0 : Nat) : Int), (r : Int), ((0 : Nat) : Int), (ell : Int), a00, a01, a02, a03, a04, a05, a06, a07, a10, a11, a12, a13, a14, a15, a16, a17]
      ++ ([(P.h : Int), ((2 ^ P.h - 1 : Nat) : Int), (j : Int)] ++ finT0 j) ++ [0, 0, 0, 0, 0, 0], fillMem mem r gf (0 + j)⟩
  cirqx [pp0z, hload0 _ (hpcm _), if_pos hsh, mask_cast2 P.h hh, List.cons_append, List.nil_append]
  rw [exec_for_range _ _ _ _ _ _ Sf0 0 4 0 (Nat.zero_le _) ?hi0 ?hc ?hs ?hx fuel (by omega)]
  case hi0 =>
    intro f
    simp only [Sf0, finT0, List.cons_append, List.nil_append, bbcFin]
    cirq_simp
    simp (config := { decide := true }) only [if_true, if_false, Nat.reduceSub, Nat.reduceAdd, Nat.add_zero, e0]
    first | done | rfl
  case hc =>
    intro j _ hj
    simp only [Sf0, bbcFin, List.cons_append, List.nil_append]
    cir_simp
    exact ok_decide_true (by omega)
  case hx =>
    simp only [Sf0, bbcFin, List.cons_append, List.nil_append]
    cir_simp
    exact ok_decide_false (by decide)
  case hs =>
    intro j _ hj f _
    have hjj : j = 0 ∨ j = 1 ∨ j = 2 ∨ j = 3 := by omega
    have hix1 : ((1 : Int) + (j : Int)) % 18446744073709551616 = ((1 + j : Nat) : Int) := by omega
    have hix5 : ((5 : Int) + (j : Int)) % 18446744073709551616 = ((5 + j : Nat) : Int) := by omega
    have hto_lo : (2 * (j : Int) % 18446744073709551616).toNat = 2 * j := by omega
    have hto_hi : ((2 * (j : Int) % 18446744073709551616 + 1) % 18446744073709551616).toNat = 2 * j + 1 := by omega
    have hst : (j : Int) = ((j : Nat) : Int) := rfl
    have hld : ∀ c : Nat, c + 4 ≤ 9 → loadCell (fillMem mem r gf (0 + j)) (some (pc, c + j)) 0
        = .ok (((bbcCells P).getD (c + j) 0 : Nat) : Int) := by
      intro c hc
      rw [pload_other mem r pc _ _ (Ne.symm hrp) (by rw [hpc]; simp [bbcCells]; omega), hpc, getD_natBuf]
    have hft : ∃ u0 u1 u2 : Int, finT0 j = [u0, u1, u2] := by
      simp only [finT0]
      split
      · exact ⟨_, _, _, rfl⟩
      · exact ⟨_, _, _, rfl⟩
    obtain ⟨u0, u1, u2, hfj⟩ := hft
    have hfj1 : finT0 (j + 1) = bbcFin P j (F ell (0 + j)) := by
      simp only [finT0, Nat.add_one_ne_zero, if_false, Nat.add_sub_cancel]
    rcases hjj with rfl | rfl | rfl | rfl
    all_goals (
      simp only [Sf0, hfj, hfj1, bbcFin, List.cons_append, List.nil_append]
      repeat (first
        | cirqx [e1, e2, if_pos hsh, pp0, hix1, hix5, hst, shr_cast2, Nat.and_two_pow_sub_one_eq_mod, hto_lo, hto_hi,
            Nat.reduceMul, hld 1 (by decide), hld 5 (by decide)]
        | rw [ptrAt_pvar_nat _ _ 37 r 0 _ _ rfl rfl rfl])
      rw [pstore_fill mem r gf _ _ (by omega) (by rfl)]
      cirqx [inc_cast0, inc_cast1, inc_cast2, inc_cast3]
      first | done | rfl)
  simp only [seqK_norm]
  -- result 1
  let finT1 : Nat → List Int := fun j => if j = 0 then [0, 0, 0] else bbcFin P (j - 1) (F ell (4 + (j - 1)))
  let Sf1 : Nat → State := fun j =>
    ⟨[(ell : Int), (((F ell 0).1 : Nat) : Int), (((F ell 0).2 : Nat) : Int), (((F ell 1).1 : Nat) : Int), (((F ell 1).2 : Nat) : Int), (((F ell 2).1 : Nat) : Int), (((F ell 2).2 : Nat) : Int), (((F ell 3).1 : Nat) : Int), (((F ell 3).2 : Nat) : Int), 0, 0, 0, 0, 0, 0, 0, 0, (((F ell 4).1 : Nat) : Int), (((F ell 4).2 : Nat) : Int), (((F ell 5).1 : Nat) : Int), (((F ell 5).2 : Nat) : Int), (((F ell 6).1 : Nat) : Int), (((F ell 6).2 : Nat) : Int), (((F ell 7).1 : Nat) : Int), (((F ell 7).2 : Nat) : Int), 0, 0, 0, 0, 0, 0, 0, 0,
      (x : Int), ((0 : Nat) : Int), (y : Int), ((0 : Nat) : Int), (r : Int), ((0 : Nat) : Int), (ell : Int), a00, a01, a02, a03, a04, a05, a06, a07, a10, a11, a12, a13, a14, a15, a16, a17]
      ++ ([(P.h : Int), ((2 ^ P.h - 1 : Nat) : Int), ((4 : Nat) : Int)] ++ bbcFin P 3 (F ell 3)) ++ ([(P.h : Int), ((2 ^ P.h - 1 : Nat) : Int), (j : Int)] ++ finT1 j), fillMem mem r gf (4 + j)⟩
  simp only [Sf0, finT0, List.cons_append, List.nil_append, bbcFin]
  simp (config := { decide := true }) only [if_true, if_false, Nat.reduceSub, Nat.reduceAdd, List.cons_append, List.nil_append]
  cirqx [pp0z, hload0 _ (hpcm _), if_pos hsh, mask_cast2 P.h hh, List.cons_append, List.nil_append]
  rw [exec_for_range _ _ _ _ _ _ Sf1 0 4 0 (Nat.zero_le _) ?hi0 ?hc ?hs ?hx fuel (by omega)]
  case hi0 =>
    intro f
    simp only [Sf1, finT1, Sf0, finT0, List.cons_append, List.nil_append, bbcFin]
    cirq_simp
    simp (config := { decide := true }) only [if_true, if_false, Nat.reduceSub, Nat.reduceAdd, Nat.add_zero, e0]
    first | done | rfl
  case hc =>
    intro j _ hj
    simp only [Sf1, bbcFin, List.cons_append, List.nil_append]
    cir_simp
    exact ok_decide_true (by omega)
  case hx =>
    simp only [Sf1, bbcFin, List.cons_append, List.nil_append]
    cir_simp
    exact ok_decide_false (by decide)
  case hs =>
    intro j _ hj f _
    have hjj : j = 0 ∨ j = 1 ∨ j = 2 ∨ j = 3 := by omega
    have hix1 : ((1 : Int) + (j : Int)) % 18446744073709551616 = ((1 + j : Nat) : Int) := by omega
    have hix5 : ((5 : Int) + (j : Int)) % 18446744073709551616 = ((5 + j : Nat) : Int) := by omega
    have hto_lo : ((16 + 2 * (j : Int) % 18446744073709551616) % 18446744073709551616).toNat = 16 + 2 * j := by omega
    have hto_hi : ((16 + (2 * (j : Int) % 18446744073709551616 + 1) % 18446744073709551616) % 18446744073709551616).toNat = 16 + 2 * j + 1 := by omega
    have hst : ((4 : Int) + (j : Int)) % 18446744073709551616 = ((4 + j : Nat) : Int) := by omega
    have hld : ∀ c : Nat, c + 4 ≤ 9 → loadCell (fillMem mem r gf (4 + j)) (some (pc, c + j)) 0
        = .ok (((bbcCells P).getD (c + j) 0 : Nat) : Int) := by
      intro c hc
      rw [pload_other mem r pc _ _ (Ne.symm hrp) (by rw [hpc]; simp [bbcCells]; omega), hpc, getD_natBuf]
    have hft : ∃ u0 u1 u2 : Int, finT1 j = [u0, u1, u2] := by
      simp only [finT1]
      split
      · exact ⟨_, _, _, rfl⟩
      · exact ⟨_, _, _, rfl⟩
    obtain ⟨u0, u1, u2, hfj⟩ := hft
    have hfj1 : finT1 (j + 1) = bbcFin P j (F ell (4 + j)) := by
      simp only [finT1, Nat.add_one_ne_zero, if_false, Nat.add_sub_cancel]
    rcases hjj with rfl | rfl | rfl | rfl
    all_goals (
      simp only [Sf1, hfj, hfj1, bbcFin, List.cons_append, List.nil_append]
      repeat (first
        | cirqx [e1, e2, if_pos hsh, pp0, hix1, hix5, hst, shr_cast2, Nat.and_two_pow_sub_one_eq_mod, hto_lo, hto_hi,
            Nat.reduceMul, hld 1 (by decide), hld 5 (by decide)]
        | rw [ptrAt_pvar_nat _ _ 37 r 0 _ _ rfl rfl rfl])
      rw [pstore_fill mem r gf _ _ (by omega) (by rfl)]
      cirqx [inc_cast0, inc_cast1, inc_cast2, inc_cast3]
      first | done | rfl)
  rfl

set_option maxHeartbeats 2000000 in   -- one declaration for the whole kernel: 4 inlined accumulation loops + 4 recombinations
set_option linter.unusedSimpArgs false in
theorem src_q120x2_vec_mat2cols_product_bbc_ref_eq_model (P : BbcPrecomp) (hh : P.h < 64)
    (ell : Nat) (hell : ell < 576460752303423488) (mem : Mem) (pc r x y : Nat) (X Y : Array Nat)
    (hpc : buf mem pc = natBuf (bbcCells P)) (hrp : r ≠ pc)
    (hr : (buf mem r).size = 16) (hx : buf mem x = natBuf X) (hX : X.size = 8 * ell)
    (hXb : ∀ i, X.getD i 0 < 18446744073709551616)
    (hy : buf mem y = natBuf Y) (hY : Y.size = 16 * ell) (hYb : ∀ i, Y.getD i 0 < 18446744073709551616) :
    ∀ fuel, ell + 4 ≤ fuel →
      run fuel Gen.CSrc.q120x2_vec_mat2cols_product_bbc_ref [(ell : Int)]
          [some (pc, 0), some (r, 0), some (x, 0), some (y, 0)] mem
        = .ok (mem.setIfInBounds r (natBuf (x2Col2Ref P ell X Y))) := by
  intro fuel hf
  let F : Nat → Nat → Nat × Nat := fun n r => (x2Col2Terms n X Y r).foldl bbcRefStep (0, 0)
  have F_succ0 : ∀ n, F (n + 1) 0 = bbcRefStep (F n 0) (X.getD (8 * n + 0) 0, Y.getD (16 * n + 0) 0) := by
    intro n
    simp only [F, x2Col2Terms, laneTerms_succ, List.foldl_append, List.foldl_cons, List.foldl_nil]
    first | done | rfl
  have F_succ1 : ∀ n, F (n + 1) 1 = bbcRefStep (F n 1) (X.getD (8 * n + 1) 0, Y.getD (16 * n + 1) 0) := by
    intro n
    simp only [F, x2Col2Terms, laneTerms_succ, List.foldl_append, List.foldl_cons, List.foldl_nil]
    first | done | rfl
  have F_succ2 : ∀ n, F (n + 1) 2 = bbcRefStep (F n 2) (X.getD (8 * n + 2) 0, Y.getD (16 * n + 2) 0) := by
    intro n
    simp only [F, x2Col2Terms, laneTerms_succ, List.foldl_append, List.foldl_cons, List.foldl_nil]
    first | done | rfl
  have F_succ3 : ∀ n, F (n + 1) 3 = bbcRefStep (F n 3) (X.getD (8 * n + 3) 0, Y.getD (16 * n + 3) 0) := by
    intro n
    simp only [F, x2Col2Terms, laneTerms_succ, List.foldl_append, List.foldl_cons, List.foldl_nil]
    first | done | rfl
  have F_succ4 : ∀ n, F (n + 1) 4 = bbcRefStep (F n 4) (X.getD (8 * n + 4 + 0) 0, Y.getD (16 * n + 4 + 0) 0) := by
    intro n
    simp only [F, x2Col2Terms, laneTerms_succ, List.foldl_append, List.foldl_cons, List.foldl_nil]
    first | done | rfl
  have F_succ5 : ∀ n, F (n + 1) 5 = bbcRefStep (F n 5) (X.getD (8 * n + 4 + 1) 0, Y.getD (16 * n + 4 + 1) 0) := by
    intro n
    simp only [F, x2Col2Terms, laneTerms_succ, List.foldl_append, List.foldl_cons, List.foldl_nil]
    first | done | rfl
  have F_succ6 : ∀ n, F (n + 1) 6 = bbcRefStep (F n 6) (X.getD (8 * n + 4 + 2) 0, Y.getD (16 * n + 4 + 2) 0) := by
    intro n
    simp only [F, x2Col2Terms, laneTerms_succ, List.foldl_append, List.foldl_cons, List.foldl_nil]
    first | done | rfl
  have F_succ7 : ∀ n, F (n + 1) 7 = bbcRefStep (F n 7) (X.getD (8 * n + 4 + 3) 0, Y.getD (16 * n + 4 + 3) 0) := by
    intro n
    simp only [F, x2Col2Terms, laneTerms_succ, List.foldl_append, List.foldl_cons, List.foldl_nil]
    first | done | rfl
  have F_succ8 : ∀ n, F (n + 1) 8 = bbcRefStep (F n 8) (X.getD (8 * n + 0) 0, Y.getD (16 * n + 8 + 0) 0) := by
    intro n
    simp only [F, x2Col2Terms, laneTerms_succ, List.foldl_append, List.foldl_cons, List.foldl_nil]
    first | done | rfl
  have F_succ9 : ∀ n, F (n + 1) 9 = bbcRefStep (F n 9) (X.getD (8 * n + 1) 0, Y.getD (16 * n + 8 + 1) 0) := by
    intro n
    simp only [F, x2Col2Terms, laneTerms_succ, List.foldl_append, List.foldl_cons, List.foldl_nil]
    first | done | rfl
  have F_succ10 : ∀ n, F (n + 1) 10 = bbcRefStep (F n 10) (X.getD (8 * n + 2) 0, Y.getD (16 * n + 8 + 2) 0) := by
    intro n
    simp only [F, x2Col2Terms, laneTerms_succ, List.foldl_append, List.foldl_cons, List.foldl_nil]
    first | done | rfl
  have F_succ11 : ∀ n, F (n + 1) 11 = bbcRefStep (F n 11) (X.getD (8 * n + 3) 0, Y.getD (16 * n + 8 + 3) 0) := by
    intro n
    simp only [F, x2Col2Terms, laneTerms_succ, List.foldl_append, List.foldl_cons, List.foldl_nil]
    first | done | rfl
  have F_succ12 : ∀ n, F (n + 1) 12 = bbcRefStep (F n 12) (X.getD (8 * n + 4 + 0) 0, Y.getD (16 * n + 12 + 0) 0) := by
    intro n
    simp only [F, x2Col2Terms, laneTerms_succ, List.foldl_append, List.foldl_cons, List.foldl_nil]
    first | done | rfl
  have F_succ13 : ∀ n, F (n + 1) 13 = bbcRefStep (F n 13) (X.getD (8 * n + 4 + 1) 0, Y.getD (16 * n + 12 + 1) 0) := by
    intro n
    simp only [F, x2Col2Terms, laneTerms_succ, List.foldl_append, List.foldl_cons, List.foldl_nil]
    first | done | rfl
  have F_succ14 : ∀ n, F (n + 1) 14 = bbcRefStep (F n 14) (X.getD (8 * n + 4 + 2) 0, Y.getD (16 * n + 12 + 2) 0) := by
    intro n
    simp only [F, x2Col2Terms, laneTerms_succ, List.foldl_append, List.foldl_cons, List.foldl_nil]
    first | done | rfl
  have F_succ15 : ∀ n, F (n + 1) 15 = bbcRefStep (F n 15) (X.getD (8 * n + 4 + 3) 0, Y.getD (16 * n + 12 + 3) 0) := by
    intro n
    simp only [F, x2Col2Terms, laneTerms_succ, List.foldl_append, List.foldl_cons, List.foldl_nil]
    first | done | rfl
  cir_enter Gen.CSrc.q120x2_vec_mat2cols_product_bbc_ref
  have pp0 : ∀ env v, ptrAt [some (pc, 0), some (r, 0), some (x, 0), some (y, 0)] env (.param 0) ((v : Nat) : Int)
      = .ok (some (pc, 0 + v)) := fun env v => ptrAt_param _ env 0 pc 0 v rfl
  have pp0z : ∀ env, ptrAt [some (pc, 0), some (r, 0), some (x, 0), some (y, 0)] env (.param 0) 0 = .ok (some (pc, 0)) :=
    fun env => ptrAt_param_zero _ env 0 pc 0 rfl
  have pp1 : ∀ env, ptrAt [some (pc, 0), some (r, 0), some (x, 0), some (y, 0)] env (.param 1) 0 = .ok (some (r, 0)) :=
    fun env => ptrAt_param_zero _ env 1 r 0 rfl
  have pp2 : ∀ env, ptrAt [some (pc, 0), some (r, 0), some (x, 0), some (y, 0)] env (.param 2) 0 = .ok (some (x, 0)) :=
    fun env => ptrAt_param_zero _ env 2 x 0 rfl
  have pp3 : ∀ env, ptrAt [some (pc, 0), some (r, 0), some (x, 0), some (y, 0)] env (.param 3) 0 = .ok (some (y, 0)) :=
    fun env => ptrAt_param_zero _ env 3 y 0 rfl
  have hsh : (0 : Int) ≤ (P.h : Int) ∧ (P.h : Int) < 64 := by omega
  have e0 : (0 : Int) % 18446744073709551616 = 0 := by decide
  have e1 : (1 : Int) % 18446744073709551616 = 1 := by decide
  have e2 : (2 : Int) % 18446744073709551616 = 2 := by decide
  repeat (first | cirq_simp | simp only [pp1, pp2, pp3, encPtr_some, e0])
  let zt : List Int := [0, 0, 0, 0, 0, 0, 0, 0]
  let zf : List Int := [0, 0, 0, 0, 0, 0]
  let envOf : (Nat → Nat × Nat) → Int → List Int → List Int → List Int → List Int → List Int → List Int → List Int → List Int → List Int := fun s i T0 T1 T2 T3 U0 U1 U2 U3 =>
    [(ell : Int), (((s 0).1 : Nat) : Int), (((s 0).2 : Nat) : Int), (((s 1).1 : Nat) : Int), (((s 1).2 : Nat) : Int), (((s 2).1 : Nat) : Int), (((s 2).2 : Nat) : Int), (((s 3).1 : Nat) : Int), (((s 3).2 : Nat) : Int), 0, 0, 0, 0, 0, 0, 0, 0, (((s 4).1 : Nat) : Int), (((s 4).2 : Nat) : Int), (((s 5).1 : Nat) : Int), (((s 5).2 : Nat) : Int), (((s 6).1 : Nat) : Int), (((s 6).2 : Nat) : Int), (((s 7).1 : Nat) : Int), (((s 7).2 : Nat) : Int), 0, 0, 0, 0, 0, 0, 0, 0, (((s 8).1 : Nat) : Int), (((s 8).2 : Nat) : Int), (((s 9).1 : Nat) : Int), (((s 9).2 : Nat) : Int), (((s 10).1 : Nat) : Int), (((s 10).2 : Nat) : Int), (((s 11).1 : Nat) : Int), (((s 11).2 : Nat) : Int), 0, 0, 0, 0, 0, 0, 0, 0, (((s 12).1 : Nat) : Int), (((s 12).2 : Nat) : Int), (((s 13).1 : Nat) : Int), (((s 13).2 : Nat) : Int), (((s 14).1 : Nat) : Int), (((s 14).2 : Nat) : Int), (((s 15).1 : Nat) : Int), (((s 15).2 : Nat) : Int), 0, 0, 0, 0, 0, 0, 0, 0,
      (x : Int), ((0 : Nat) : Int), (y : Int), ((0 : Nat) : Int), (r : Int), ((0 : Nat) : Int), i] ++ T0 ++ T1 ++ T2 ++ T3 ++ U0 ++ U1 ++ U2 ++ U3
  let told0 : Nat → List Int := fun n => if n = 0 then zt else
    ((4 : Nat) : Int) :: bbcTemps (X.getD (8 * (n - 1) + 3) 0) (Y.getD (16 * (n - 1) + 3) 0)
  let tnew0 : Nat → List Int := fun n =>
    ((4 : Nat) : Int) :: bbcTemps (X.getD (8 * n + 3) 0) (Y.getD (16 * n + 3) 0)
  let told1 : Nat → List Int := fun n => if n = 0 then zt else
    ((4 : Nat) : Int) :: bbcTemps (X.getD (8 * (n - 1) + 4 + 3) 0) (Y.getD (16 * (n - 1) + 4 + 3) 0)
  let tnew1 : Nat → List Int := fun n =>
    ((4 : Nat) : Int) :: bbcTemps (X.getD (8 * n + 4 + 3) 0) (Y.getD (16 * n + 4 + 3) 0)
  let told2 : Nat → List Int := fun n => if n = 0 then zt else
    ((4 : Nat) : Int) :: bbcTemps (X.getD (8 * (n - 1) + 3) 0) (Y.getD (16 * (n - 1) + 8 + 3) 0)
  let tnew2 : Nat → List Int := fun n =>
    ((4 : Nat) : Int) :: bbcTemps (X.getD (8 * n + 3) 0) (Y.getD (16 * n + 8 + 3) 0)
  let told3 : Nat → List Int := fun n => if n = 0 then zt else
    ((4 : Nat) : Int) :: bbcTemps (X.getD (8 * (n - 1) + 4 + 3) 0) (Y.getD (16 * (n - 1) + 12 + 3) 0)
  let tnew3 : Nat → List Int := fun n =>
    ((4 : Nat) : Int) :: bbcTemps (X.getD (8 * n + 4 + 3) 0) (Y.getD (16 * n + 12 + 3) 0)
  let So : Nat → State := fun n => ⟨envOf (F n) (n : Int) (told0 n) (told1 n) (told2 n) (told3 n) zf zf zf zf, mem⟩
  rw [exec_for_range _ _ _ _ _ _ So 0 ell 4 (Nat.zero_le _) ?hi0 ?hc ?hs ?hx fuel (by omega)]
  case hi0 => intro f; rfl
  case hc =>
    intro n _ hn
    simp only [So, envOf, List.cons_append]
    cir_simp
    exact ok_decide_true (by omega)
  case hx =>
    simp only [So, envOf, List.cons_append]
    cir_simp
    exact ok_decide_false (by omega)
  case hs =>
    intro n _ hn f hf4
    obtain ⟨o00, o01, o02, o03, o04, o05, o06, o07, hto0⟩ : ∃ o00 o01 o02 o03 o04 o05 o06 o07 : Int, told0 n = [o00, o01, o02, o03, o04, o05, o06, o07] := by
      simp only [told0, zt]
      split
      · exact ⟨_, _, _, _, _, _, _, _, rfl⟩
      · exact ⟨_, _, _, _, _, _, _, _, rfl⟩
    obtain ⟨o10, o11, o12, o13, o14, o15, o16, o17, hto1⟩ : ∃ o10 o11 o12 o13 o14 o15 o16 o17 : Int, told1 n = [o10, o11, o12, o13, o14, o15, o16, o17] := by
      simp only [told1, zt]
      split
      · exact ⟨_, _, _, _, _, _, _, _, rfl⟩
      · exact ⟨_, _, _, _, _, _, _, _, rfl⟩
    obtain ⟨o20, o21, o22, o23, o24, o25, o26, o27, hto2⟩ : ∃ o20 o21 o22 o23 o24 o25 o26 o27 : Int, told2 n = [o20, o21, o22, o23, o24, o25, o26, o27] := by
      simp only [told2, zt]
      split
      · exact ⟨_, _, _, _, _, _, _, _, rfl⟩
      · exact ⟨_, _, _, _, _, _, _, _, rfl⟩
    obtain ⟨o30, o31, o32, o33, o34, o35, o36, o37, hto3⟩ : ∃ o30 o31 o32 o33 o34 o35 o36 o37 : Int, told3 n = [o30, o31, o32, o33, o34, o35, o36, o37] := by
      simp only [told3, zt]
      split
      · exact ⟨_, _, _, _, _, _, _, _, rfl⟩
      · exact ⟨_, _, _, _, _, _, _, _, rfl⟩
    simp only [exec_seq]
    -- group 0: s[0] += x[i][0] * y[i][0]
    let tj0 : Nat → List Int := fun j => (j : Int) :: (if j = 0 then (told0 n).tail else
      bbcTemps (X.getD (8 * n + (j - 1)) 0) (Y.getD (16 * n + (j - 1)) 0))
    let Si0 : Nat → State := fun j =>
      ⟨envOf (fun q => if q < 0 + j then F (n + 1) q else F n q) (n : Int)  (tj0 j) (told1 n) (told2 n) (told3 n) zf zf zf zf, mem⟩
    rw [exec_for_range _ _ _ _ _ _ Si0 0 4 0 (Nat.zero_le _) ?hi0 ?hc ?hs ?hx f (by omega)]
    case hi0 =>
      intro f
      simp only [So, Si0, envOf, tj0, hto0, hto1, hto2, hto3, List.cons_append, List.nil_append, zf, tnew0, tnew1, tnew2, tnew3, bbcTemps]
      cir_simp
      simp (config := { decide := true }) only [Nat.not_lt_zero, if_false, if_true, Nat.add_zero, List.tail_cons, Nat.reduceAdd, Nat.reduceSub, Nat.reduceLT, e0]
      first | done | rfl
    case hc =>
      intro j _ hj
      simp only [Si0, envOf, tj0, List.cons_append, List.nil_append, tnew0, hto0, tnew1, hto1, tnew2, hto2, tnew3, hto3, bbcTemps]
      cir_simp
      exact ok_decide_true (by omega)
    case hx =>
      simp only [Si0, envOf, tj0, List.cons_append, List.nil_append, tnew0, hto0, tnew1, hto1, tnew2, hto2, tnew3, hto3, bbcTemps]
      cir_simp
      exact ok_decide_false (by decide)
    case hs =>
      intro j _ hj f _
      have hjj : j = 0 ∨ j = 1 ∨ j = 2 ∨ j = 3 := by omega
      have hxlo : ((n : Int) * 16 % 18446744073709551616 + 2 * (j : Int) % 18446744073709551616) % 18446744073709551616
          = ((2 * (8 * n + j) : Nat) : Int) := by omega
      have hxhi : ((n : Int) * 16 % 18446744073709551616 + (2 * (j : Int) % 18446744073709551616 + 1) % 18446744073709551616) % 18446744073709551616
          = ((2 * (8 * n + j) + 1 : Nat) : Int) := by omega
      have hylo : ((n : Int) * 32 % 18446744073709551616 + 2 * (j : Int) % 18446744073709551616) % 18446744073709551616
          = ((2 * (16 * n + j) : Nat) : Int) := by omega
      have hyhi : ((n : Int) * 32 % 18446744073709551616 + (2 * (j : Int) % 18446744073709551616 + 1) % 18446744073709551616) % 18446744073709551616
          = ((2 * (16 * n + j) + 1 : Nat) : Int) := by omega
      have hto_lo : (2 * (j : Int) % 18446744073709551616).toNat = 2 * j := by omega
      have hto_hi : ((2 * (j : Int) % 18446744073709551616 + 1) % 18446744073709551616).toNat = 2 * j + 1 := by omega
      have hlx : loadCell mem (some (x, 8 * n + j)) 0 = .ok ((X.getD (8 * n + j) 0 : Nat) : Int) :=
        pload_natBuf mem x X _ hx (by omega)
      have hly : loadCell mem (some (y, 16 * n + j)) 0 = .ok ((Y.getD (16 * n + j) 0 : Nat) : Int) :=
        pload_natBuf mem y Y _ hy (by omega)
      have htd : ∃ t1 t2 t3 t4 t5 t6 t7 : Int, tj0 j = [(j : Int), t1, t2, t3, t4, t5, t6, t7] := by
        simp only [tj0, hto0, List.tail_cons]
        split
        · exact ⟨_, _, _, _, _, _, _, rfl⟩
        · exact ⟨_, _, _, _, _, _, _, rfl⟩
      obtain ⟨t1, t2, t3, t4, t5, t6, t7, htj⟩ := htd
      have htj1 : tj0 (j + 1) = ((j + 1 : Nat) : Int) :: bbcTemps (X.getD (8 * n + j) 0) (Y.getD (16 * n + j) 0) := by
        simp only [tj0, Nat.add_one_ne_zero, if_false, Nat.add_sub_cancel]
      rcases hjj with rfl | rfl | rfl | rfl
      all_goals (
        simp only [Si0, envOf, htj, htj1, List.cons_append, List.nil_append, zf, tnew0, hto0, tnew1, hto1, tnew2, hto2, tnew3, hto3, bbcTemps]
        simp (config := { decide := true }) only [if_true, if_false, Nat.reduceSub, Nat.reduceAdd, Nat.add_zero, Nat.reduceLT]
        repeat (first
          | cirqx [e1, e2, hxlo, hxhi, hylo, hyhi, hlx, hly, natCast_not_neg, even_div2, even_mod2, odd_div2, odd_mod2,
              half32_lo, half32_hi _ (hXb _), half32_hi _ (hYb _), wrap_lo32, wrap_hi32 _ (hXb _), wrap_hi32 _ (hYb _),
              hto_lo, hto_hi, Nat.reduceMul, and_mask32]
          | rw [ptrAt_pvar_nat _ _ 65 x 0 _ _ rfl rfl rfl]
          | rw [ptrAt_pvar_nat _ _ 67 y 0 _ _ rfl rfl rfl])
        simp only [F_succ0, F_succ1, F_succ2, F_succ3, bbcRefStep, bbcTemps, inc_cast0, inc_cast1, inc_cast2, inc_cast3, Nat.add_zero, List.cons_append, List.nil_append]
        first | done | rfl)
    simp only [seqK_norm, exec_seq]
    -- group 1: s[1] += x[i][1] * y[i][1]
    let tj1 : Nat → List Int := fun j => (j : Int) :: (if j = 0 then (told1 n).tail else
      bbcTemps (X.getD (8 * n + 4 + (j - 1)) 0) (Y.getD (16 * n + 4 + (j - 1)) 0))
    let Si1 : Nat → State := fun j =>
      ⟨envOf (fun q => if q < 4 + j then F (n + 1) q else F n q) (n : Int) (tnew0 n) (tj1 j) (told2 n) (told3 n) zf zf zf zf, mem⟩
    rw [exec_for_range _ _ _ _ _ _ Si1 0 4 0 (Nat.zero_le _) ?hi0 ?hc ?hs ?hx f (by omega)]
    case hi0 =>
      intro f
      simp only [Si0, Si1, envOf, tj1, hto0, hto1, hto2, hto3, List.cons_append, List.nil_append, zf, tj0, tnew0, tnew1, tnew2, tnew3, bbcTemps]
      cir_simp
      simp (config := { decide := true }) only [Nat.not_lt_zero, if_false, if_true, Nat.add_zero, List.tail_cons, Nat.reduceAdd, Nat.reduceSub, Nat.reduceLT, e0]
      first | done | rfl
    case hc =>
      intro j _ hj
      simp only [Si1, envOf, tj1, List.cons_append, List.nil_append, tnew0, hto0, tnew1, hto1, tnew2, hto2, tnew3, hto3, bbcTemps]
      cir_simp
      exact ok_decide_true (by omega)
    case hx =>
      simp only [Si1, envOf, tj1, List.cons_append, List.nil_append, tnew0, hto0, tnew1, hto1, tnew2, hto2, tnew3, hto3, bbcTemps]
      cir_simp
      exact ok_decide_false (by decide)
    case hs =>
      intro j _ hj f _
      have hjj : j = 0 ∨ j = 1 ∨ j = 2 ∨ j = 3 := by omega
      have hxlo : (((n : Int) * 16 % 18446744073709551616 + 8) % 18446744073709551616 + 2 * (j : Int) % 18446744073709551616) % 18446744073709551616
          = ((2 * (8 * n + 4 + j) : Nat) : Int) := by omega
      have hxhi : (((n : Int) * 16 % 18446744073709551616 + 8) % 18446744073709551616 + (2 * (j : Int) % 18446744073709551616 + 1) % 18446744073709551616) % 18446744073709551616
          = ((2 * (8 * n + 4 + j) + 1 : Nat) : Int) := by omega
      have hylo : (((n : Int) * 32 % 18446744073709551616 + 8) % 18446744073709551616 + 2 * (j : Int) % 18446744073709551616) % 18446744073709551616
          = ((2 * (16 * n + 4 + j) : Nat) : Int) := by omega
      have hyhi : (((n : Int) * 32 % 18446744073709551616 + 8) % 18446744073709551616 + (2 * (j : Int) % 18446744073709551616 + 1) % 18446744073709551616) % 18446744073709551616
          = ((2 * (16 * n + 4 + j) + 1 : Nat) : Int) := by omega
      have hto_lo : ((16 + 2 * (j : Int) % 18446744073709551616) % 18446744073709551616).toNat = 16 + 2 * j := by omega
      have hto_hi : ((16 + (2 * (j : Int) % 18446744073709551616 + 1) % 18446744073709551616) % 18446744073709551616).toNat = 16 + 2 * j + 1 := by omega
      have hlx : loadCell mem (some (x, 8 * n + 4 + j)) 0 = .ok ((X.getD (8 * n + 4 + j) 0 : Nat) : Int) :=
        pload_natBuf mem x X _ hx (by omega)
      have hly : loadCell mem (some (y, 16 * n + 4 + j)) 0 = .ok ((Y.getD (16 * n + 4 + j) 0 : Nat) : Int) :=
        pload_natBuf mem y Y _ hy (by omega)
      have htd : ∃ t1 t2 t3 t4 t5 t6 t7 : Int, tj1 j = [(j : Int), t1, t2, t3, t4, t5, t6, t7] := by
        simp only [tj1, hto1, List.tail_cons]
        split
        · exact ⟨_, _, _, _, _, _, _, rfl⟩
        · exact ⟨_, _, _, _, _, _, _, rfl⟩
      obtain ⟨t1, t2, t3, t4, t5, t6, t7, htj⟩ := htd
      have htj1 : tj1 (j + 1) = ((j + 1 : Nat) : Int) :: bbcTemps (X.getD (8 * n + 4 + j) 0) (Y.getD (16 * n + 4 + j) 0) := by
        simp only [tj1, Nat.add_one_ne_zero, if_false, Nat.add_sub_cancel]
      rcases hjj with rfl | rfl | rfl | rfl
      all_goals (
        simp only [Si1, envOf, htj, htj1, List.cons_append, List.nil_append, zf, tnew0, hto0, tnew1, hto1, tnew2, hto2, tnew3, hto3, bbcTemps]
        simp (config := { decide := true }) only [if_true, if_false, Nat.reduceSub, Nat.reduceAdd, Nat.add_zero, Nat.reduceLT]
        repeat (first
          | cirqx [e1, e2, hxlo, hxhi, hylo, hyhi, hlx, hly, natCast_not_neg, even_div2, even_mod2, odd_div2, odd_mod2,
              half32_lo, half32_hi _ (hXb _), half32_hi _ (hYb _), wrap_lo32, wrap_hi32 _ (hXb _), wrap_hi32 _ (hYb _),
              hto_lo, hto_hi, Nat.reduceMul, and_mask32]
          | rw [ptrAt_pvar_nat _ _ 65 x 0 _ _ rfl rfl rfl]
          | rw [ptrAt_pvar_nat _ _ 67 y 0 _ _ rfl rfl rfl])
        simp only [F_succ4, F_succ5, F_succ6, F_succ7, bbcRefStep, bbcTemps, inc_cast0, inc_cast1, inc_cast2, inc_cast3, Nat.add_zero, List.cons_append, List.nil_append]
        first | done | rfl)
    simp only [seqK_norm, exec_seq]
    -- group 2: s[2] += x[i][0] * y[i][2]
    let tj2 : Nat → List Int := fun j => (j : Int) :: (if j = 0 then (told2 n).tail else
      bbcTemps (X.getD (8 * n + (j - 1)) 0) (Y.getD (16 * n + 8 + (j - 1)) 0))
    let Si2 : Nat → State := fun j =>
      ⟨envOf (fun q => if q < 8 + j then F (n + 1) q else F n q) (n : Int) (tnew0 n) (tnew1 n) (tj2 j) (told3 n) zf zf zf zf, mem⟩
    rw [exec_for_range _ _ _ _ _ _ Si2 0 4 0 (Nat.zero_le _) ?hi0 ?hc ?hs ?hx f (by omega)]
    case hi0 =>
      intro f
      simp only [Si1, Si2, envOf, tj2, hto0, hto1, hto2, hto3, List.cons_append, List.nil_append, zf, tj1, tnew0, tnew1, tnew2, tnew3, bbcTemps]
      cir_simp
      simp (config := { decide := true }) only [Nat.not_lt_zero, if_false, if_true, Nat.add_zero, List.tail_cons, Nat.reduceAdd, Nat.reduceSub, Nat.reduceLT, e0]
      first | done | rfl
    case hc =>
      intro j _ hj
      simp only [Si2, envOf, tj2, List.cons_append, List.nil_append, tnew0, hto0, tnew1, hto1, tnew2, hto2, tnew3, hto3, bbcTemps]
      cir_simp
      exact ok_decide_true (by omega)
    case hx =>
      simp only [Si2, envOf, tj2, List.cons_append, List.nil_append, tnew0, hto0, tnew1, hto1, tnew2, hto2, tnew3, hto3, bbcTemps]
      cir_simp
      exact ok_decide_false (by decide)
    case hs =>
      intro j _ hj f _
      have hjj : j = 0 ∨ j = 1 ∨ j = 2 ∨ j = 3 := by omega
      have hxlo : ((n : Int) * 16 % 18446744073709551616 + 2 * (j : Int) % 18446744073709551616) % 18446744073709551616
          = ((2 * (8 * n + j) : Nat) : Int) := by omega
      have hxhi : ((n : Int) * 16 % 18446744073709551616 + (2 * (j : Int) % 18446744073709551616 + 1) % 18446744073709551616) % 18446744073709551616
          = ((2 * (8 * n + j) + 1 : Nat) : Int) := by omega
      have hylo : (((n : Int) * 32 % 18446744073709551616 + 16) % 18446744073709551616 + 2 * (j : Int) % 18446744073709551616) % 18446744073709551616
          = ((2 * (16 * n + 8 + j) : Nat) : Int) := by omega
      have hyhi : (((n : Int) * 32 % 18446744073709551616 + 16) % 18446744073709551616 + (2 * (j : Int) % 18446744073709551616 + 1) % 18446744073709551616) % 18446744073709551616
          = ((2 * (16 * n + 8 + j) + 1 : Nat) : Int) := by omega
      have hto_lo : ((32 + 2 * (j : Int) % 18446744073709551616) % 18446744073709551616).toNat = 32 + 2 * j := by omega
      have hto_hi : ((32 + (2 * (j : Int) % 18446744073709551616 + 1) % 18446744073709551616) % 18446744073709551616).toNat = 32 + 2 * j + 1 := by omega
      have hlx : loadCell mem (some (x, 8 * n + j)) 0 = .ok ((X.getD (8 * n + j) 0 : Nat) : Int) :=
        pload_natBuf mem x X _ hx (by omega)
      have hly : loadCell mem (some (y, 16 * n + 8 + j)) 0 = .ok ((Y.getD (16 * n + 8 + j) 0 : Nat) : Int) :=
        pload_natBuf mem y Y _ hy (by omega)
      have htd : ∃ t1 t2 t3 t4 t5 t6 t7 : Int, tj2 j = [(j : Int), t1, t2, t3, t4, t5, t6, t7] := by
        simp only [tj2, hto2, List.tail_cons]
        split
        · exact ⟨_, _, _, _, _, _, _, rfl⟩
        · exact ⟨_, _, _, _, _, _, _, rfl⟩
      obtain ⟨t1, t2, t3, t4, t5, t6, t7, htj⟩ := htd
      have htj1 : tj2 (j + 1) = ((j + 1 : Nat) : Int) :: bbcTemps (X.getD (8 * n + j) 0) (Y.getD (16 * n + 8 + j) 0) := by
        simp only [tj2, Nat.add_one_ne_zero, if_false, Nat.add_sub_cancel]
      rcases hjj with rfl | rfl | rfl | rfl
      all_goals (
        simp only [Si2, envOf, htj, htj1, List.cons_append, List.nil_append, zf, tnew0, hto0, tnew1, hto1, tnew2, hto2, tnew3, hto3, bbcTemps]
        simp (config := { decide := true }) only [if_true, if_false, Nat.reduceSub, Nat.reduceAdd, Nat.add_zero, Nat.reduceLT]
        repeat (first
          | cirqx [e1, e2, hxlo, hxhi, hylo, hyhi, hlx, hly, natCast_not_neg, even_div2, even_mod2, odd_div2, odd_mod2,
              half32_lo, half32_hi _ (hXb _), half32_hi _ (hYb _), wrap_lo32, wrap_hi32 _ (hXb _), wrap_hi32 _ (hYb _),
              hto_lo, hto_hi, Nat.reduceMul, and_mask32]
          | rw [ptrAt_pvar_nat _ _ 65 x 0 _ _ rfl rfl rfl]
          | rw [ptrAt_pvar_nat _ _ 67 y 0 _ _ rfl rfl rfl])
        simp only [F_succ8, F_succ9, F_succ10, F_succ11, bbcRefStep, bbcTemps, inc_cast0, inc_cast1, inc_cast2, inc_cast3, Nat.add_zero, List.cons_append, List.nil_append]
        first | done | rfl)
    simp only [seqK_norm, exec_seq]
    -- group 3: s[3] += x[i][1] * y[i][3]
    let tj3 : Nat → List Int := fun j => (j : Int) :: (if j = 0 then (told3 n).tail else
      bbcTemps (X.getD (8 * n + 4 + (j - 1)) 0) (Y.getD (16 * n + 12 + (j - 1)) 0))
    let Si3 : Nat → State := fun j =>
      ⟨envOf (fun q => if q < 12 + j then F (n + 1) q else F n q) (n : Int) (tnew0 n) (tnew1 n) (tnew2 n) (tj3 j)  zf zf zf zf, mem⟩
    rw [exec_for_range _ _ _ _ _ _ Si3 0 4 0 (Nat.zero_le _) ?hi0 ?hc ?hs ?hx f (by omega)]
    case hi0 =>
      intro f
      simp only [Si2, Si3, envOf, tj3, hto0, hto1, hto2, hto3, List.cons_append, List.nil_append, zf, tj2, tnew0, tnew1, tnew2, tnew3, bbcTemps]
      cir_simp
      simp (config := { decide := true }) only [Nat.not_lt_zero, if_false, if_true, Nat.add_zero, List.tail_cons, Nat.reduceAdd, Nat.reduceSub, Nat.reduceLT, e0]
      first | done | rfl
    case hc =>
      intro j _ hj
      simp only [Si3, envOf, tj3, List.cons_append, List.nil_append, tnew0, hto0, tnew1, hto1, tnew2, hto2, tnew3, hto3, bbcTemps]
      cir_simp
      exact ok_decide_true (by omega)
    case hx =>
      simp only [Si3, envOf, tj3, List.cons_append, List.nil_append, tnew0, hto0, tnew1, hto1, tnew2, hto2, tnew3, hto3, bbcTemps]
      cir_simp
      exact ok_decide_false (by decide)
    case hs =>
      intro j _ hj f _
      have hjj : j = 0 ∨ j = 1 ∨ j = 2 ∨ j = 3 := by omega
      have hxlo : (((n : Int) * 16 % 18446744073709551616 + 8) % 18446744073709551616 + 2 * (j : Int) % 18446744073709551616) % 18446744073709551616
          = ((2 * (8 * n + 4 + j) : Nat) : Int) := by omega
      have hxhi : (((n : Int) * 16 % 18446744073709551616 + 8) % 18446744073709551616 + (2 * (j : Int) % 18446744073709551616 + 1) % 18446744073709551616) % 18446744073709551616
          = ((2 * (8 * n + 4 + j) + 1 : Nat) : Int) := by omega
      have hylo : (((n : Int) * 32 % 18446744073709551616 + 24) % 18446744073709551616 + 2 * (j : Int) % 18446744073709551616) % 18446744073709551616
          = ((2 * (16 * n + 12 + j) : Nat) : Int) := by omega
      have hyhi : (((n : Int) * 32 % 18446744073709551616 + 24) % 18446744073709551616 + (2 * (j : Int) % 18446744073709551616 + 1) % 18446744073709551616) % 18446744073709551616
          = ((2 * (16 * n + 12 + j) + 1 : Nat) : Int) := by omega
      have hto_lo : ((48 + 2 * (j : Int) % 18446744073709551616) % 18446744073709551616).toNat = 48 + 2 * j := by omega
      have hto_hi : ((48 + (2 * (j : Int) % 18446744073709551616 + 1) % 18446744073709551616) % 18446744073709551616).toNat = 48 + 2 * j + 1 := by omega
      have hlx : loadCell mem (some (x, 8 * n + 4 + j)) 0 = .ok ((X.getD (8 * n + 4 + j) 0 : Nat) : Int) :=
        pload_natBuf mem x X _ hx (by omega)
      have hly : loadCell mem (some (y, 16 * n + 12 + j)) 0 = .ok ((Y.getD (16 * n + 12 + j) 0 : Nat) : Int) :=
        pload_natBuf mem y Y _ hy (by omega)
      have htd : ∃ t1 t2 t3 t4 t5 t6 t7 : Int, tj3 j = [(j : Int), t1, t2, t3, t4, t5, t6, t7] := by
        simp only [tj3, hto3, List.tail_cons]
        split
        · exact ⟨_, _, _, _, _, _, _, rfl⟩
        · exact ⟨_, _, _, _, _, _, _, rfl⟩
      obtain ⟨t1, t2, t3, t4, t5, t6, t7, htj⟩ := htd
      have htj1 : tj3 (j + 1) = ((j + 1 : Nat) : Int) :: bbcTemps (X.getD (8 * n + 4 + j) 0) (Y.getD (16 * n + 12 + j) 0) := by
        simp only [tj3, Nat.add_one_ne_zero, if_false, Nat.add_sub_cancel]
      rcases hjj with rfl | rfl | rfl | rfl
      all_goals (
        simp only [Si3, envOf, htj, htj1, List.cons_append, List.nil_append, zf, tnew0, hto0, tnew1, hto1, tnew2, hto2, tnew3, hto3, bbcTemps]
        simp (config := { decide := true }) only [if_true, if_false, Nat.reduceSub, Nat.reduceAdd, Nat.add_zero, Nat.reduceLT]
        repeat (first
          | cirqx [e1, e2, hxlo, hxhi, hylo, hyhi, hlx, hly, natCast_not_neg, even_div2, even_mod2, odd_div2, odd_mod2,
              half32_lo, half32_hi _ (hXb _), half32_hi _ (hYb _), wrap_lo32, wrap_hi32 _ (hXb _), wrap_hi32 _ (hYb _),
              hto_lo, hto_hi, Nat.reduceMul, and_mask32]
          | rw [ptrAt_pvar_nat _ _ 65 x 0 _ _ rfl rfl rfl]
          | rw [ptrAt_pvar_nat _ _ 67 y 0 _ _ rfl rfl rfl])
        simp only [F_succ12, F_succ13, F_succ14, F_succ15, bbcRefStep, bbcTemps, inc_cast0, inc_cast1, inc_cast2, inc_cast3, Nat.add_zero, List.cons_append, List.nil_append]
        first | done | rfl)
    simp only [Si3, So, envOf, tj3, tnew0, told0, tnew1, told1, tnew2, told2, tnew3, told3, List.cons_append, List.nil_append]
    cirq_simp
    simp (config := { decide := true }) only [if_true, if_false, Nat.reduceSub, Nat.reduceAdd, Nat.add_one_ne_zero,
      Nat.add_sub_cancel, Nat.reduceLT]
    have e4 : ((n : Int) + 1) % 18446744073709551616 = ((n + 1 : Nat) : Int) := by omega
    rw [e4]
    first | done | rfl
  -- accum_to_q120b
  let gf : Nat → Int := fun q => ((bbcRefFinal P (q % 4) (F ell q) : Nat) : Int)
  have hfin : mem.setIfInBounds r (natBuf (x2Col2Ref P ell X Y)) = fillMem mem r gf 16 := by
    rw [fillMem_all _ _ _ _ hr, natBuf_eq_ofFn _ 16 gf (by simp [x2Col2Ref])
      (fun i hi => by simp [x2Col2Ref, bbcRefLane, Array.getD, hi, gf, F])]
  rw [hfin]
  have hload0 : ∀ m', buf m' pc = natBuf (bbcCells P) → loadCell m' (some (pc, 0)) 0 = .ok ((P.h : Nat) : Int) :=
    fun m' h' => pload_natBuf m' pc _ 0 h' (by simp [bbcCells])
  simp only [So, envOf, zf, zt, seqK_norm, List.cons_append, List.nil_append, told0, told1, told2, told3]
  have htd0 : ∃ t0 t1 t2 t3 t4 t5 t6 t7 : Int,
      (if ell = 0 then [0, 0, 0, 0, 0, 0, 0, 0] else ((4 : Nat) : Int) :: bbcTemps (X.getD (8 * (ell - 1) + 3) 0)
        (Y.getD (16 * (ell - 1) + 3) 0)) = [t0, t1, t2, t3, t4, t5, t6, t7] := by
    split
    · exact ⟨_, _, _, _, _, _, _, _, rfl⟩
    · exact ⟨_, _, _, _, _, _, _, _, rfl⟩
  obtain ⟨a00, a01, a02, a03, a04, a05, a06, a07, htd0'⟩ := htd0
  rw [htd0']
  have htd1 : ∃ t0 t1 t2 t3 t4 t5 t6 t7 : Int,
      (if ell = 0 then [0, 0, 0, 0, 0, 0, 0, 0] else ((4 : Nat) : Int) :: bbcTemps (X.getD (8 * (ell - 1) + 4 + 3) 0)
        (Y.getD (16 * (ell - 1) + 4 + 3) 0)) = [t0, t1, t2, t3, t4, t5, t6, t7] := by
    split
    · exact ⟨_, _, _, _, _, _, _, _, rfl⟩
    · exact ⟨_, _, _, _, _, _, _, _, rfl⟩
  obtain ⟨a10, a11, a12, a13, a14, a15, a16, a17, htd1'⟩ := htd1
  rw [htd1']
  have htd2 : ∃ t0 t1 t2 t3 t4 t5 t6 t7 : Int,
      (if ell = 0 then [0, 0, 0, 0, 0, 0, 0, 0] else ((4 : Nat) : Int) :: bbcTemps (X.getD (8 * (ell - 1) + 3) 0)
        (Y.getD (16 * (ell - 1) + 8 + 3) 0)) = [t0, t1, t2, t3, t4, t5, t6, t7] := by
    split
    · exact ⟨_, _, _, _, _, _, _, _, rfl⟩
    · exact ⟨_, _, _, _, _, _, _, _, rfl⟩
  obtain ⟨a20, a21, a22, a23, a24, a25, a26, a27, htd2'⟩ := htd2
  rw [htd2']
  have htd3 : ∃ t0 t1 t2 t3 t4 t5 t6 t7 : Int,
      (if ell = 0 then [0, 0, 0, 0, 0, 0, 0, 0] else ((4 : Nat) : Int) :: bbcTemps (X.getD (8 * (ell - 1) + 4 + 3) 0)
        (Y.getD (16 * (ell - 1) + 12 + 3) 0)) = [t0, t1, t2, t3, t4, t5, t6, t7] := by
    split
    · exact ⟨_, _, _, _, _, _, _, _, rfl⟩
    · exact ⟨_, _, _, _, _, _, _, _, rfl⟩
  obtain ⟨a30, a31, a32, a33, a34, a35, a36, a37, htd3'⟩ := htd3
  rw [htd3']
  simp only [List.cons_append, List.nil_append, exec_seq]
  conv => lhs; rw [show mem = fillMem mem r gf 0 from (set_fill_zero mem r gf).symm]
  let hpcm : ∀ k, buf (fillMem mem r gf k) pc = natBuf (bbcCells P) := fun k => by
    rw [buf_set_ne mem r pc _ (Ne.symm hrp)]; exact hpc
  -- result 0
  let finT0 : Nat → List Int := fun j => if j = 0 then [0, 0, 0] else bbcFin P (j - 1) (F ell (0 + (j - 1)))
  let Sf0 : Nat → State := fun j =>
    ⟨[(ell : Int), (((F ell 0).1 : Nat) : Int), (((F ell 0).2 : Nat) : Int), (((F ell 1).1 : Nat) : Int), (((F ell 1).2 : Nat) : Int), (((F ell 2).1 : Nat) : Int), (((F ell 2).2 : Nat) : Int), (((F ell 3).1 : Nat) : Int), (((F ell 3).2 : Nat) : Int), 0, 0, 0, 0, 0, 0, 0, 0, (((F ell 4).1 : Nat) : Int), (((F ell 4).2 : Nat) : Int), (((F ell 5).1 : Nat) : Int), (((F ell 5).2 : Nat) : Int), (((F ell 6).1 : Nat) : Int), (((F ell 6).2 : Nat) : Int), (((F ell 7).1 : Nat) : Int), (((F ell 7).2 : Nat) : Int), 0, 0, 0, 0, 0, 0, 0, 0, (((F ell 8).1 : Nat) : Int), (((F ell 8).2 : Nat) : Int), (((F ell 9).1 : Nat) : Int), (((F ell 9).2 : Nat) : Int), (((F ell 10).1 : Nat) : Int), (((F ell 10).2 : Nat) : Int), (((F ell 11).1 : Nat) : Int), (((F ell 11).2 : Nat) : Int), 0, 0, 0, 0, 0, 0, 0, 0, (((F ell 12).1 : Nat) : Int), (((F ell 12).2 : Nat) : Int), (((F ell 13).1 : Nat) : Int), (((F ell 13).2 : Nat) : Int), (((F ell 14).1 : Nat) : Int), (((F ell 14).2 : Nat) : Int), (((F ell 15).1 : Nat) : Int), (((F ell 15).2 : Nat) : Int), 0, 0, 0, 0, 0, 0, 0, 0,
      (x : Int), ((0 : Nat) : Int), (y : Int), ((0 : Nat) : Int), (r : Int), ((0 : Nat) : Int), (ell : Int), a00, a01, a02, a03, a04, a05, a06, a07, a10, a11, a12, a13, a14, a15, a16, a17, a20, a21, a22, a23, a24, a25, a26, a27, a30, a31, a32, a33, a34, a35, a36, a37]
      ++ ([(P.h : Int), ((2 ^ P.h - 1 : Nat) : Int), (j : Int)] ++ finT0 j) ++ [0, 0, 0, 0, 0, 0] ++ [0, 0, 0, 0, 0, 0] ++ [0, 0, 0, 0, 0, 0], fillMem mem r gf (0 + j)⟩
  cirqx [pp0z, hload0 _ (hpcm _), if_pos hsh, mask_cast2 P.h hh, List.cons_append, List.nil_append]
  rw [exec_for_range _ _ _ _ _ _ Sf0 0 4 0 (Nat.zero_le _) ?hi0 ?hc ?hs ?hx fuel (by omega)]
  case hi0 =>
    intro f
    simp only [Sf0, finT0, List.cons_append, List.nil_append, bbcFin]
    cirq_simp
    simp (config := { decide := true }) only [if_true, if_false, Nat.reduceSub, Nat.reduceAdd, Nat.add_zero, e0]
    first | done | rfl
  case hc =>
    intro j _ hj
    simp only [Sf0, bbcFin, List.cons_append, List.nil_append]
    cir_simp
    exact ok_decide_true (by omega)
  case hx =>
    simp only [Sf0, bbcFin, List.cons_append, List.nil_append]
    cir_simp
    exact ok_decide_false (by decide)
  case hs =>
    intro j _ hj f _
    have hjj : j = 0 ∨ j = 1 ∨ j = 2 ∨ j = 3 := by omega
    have hix1 : ((1 : Int) + (j : Int)) % 18446744073709551616 = ((1 + j : Nat) : Int) := by omega
    have hix5 : ((5 : Int) + (j : Int)) % 18446744073709551616 = ((5 + j : Nat) : Int) := by omega
    have hto_lo : (2 * (j : Int) % 18446744073709551616).toNat = 2 * j := by omega
    have hto_hi : ((2 * (j : Int) % 18446744073709551616 + 1) % 18446744073709551616).toNat = 2 * j + 1 := by omega
    have hst : (j : Int) = ((j : Nat) : Int) := rfl
    have hld : ∀ c : Nat, c + 4 ≤ 9 → loadCell (fillMem mem r gf (0 + j)) (some (pc, c + j)) 0
        = .ok (((bbcCells P).getD (c + j) 0 : Nat) : Int) := by
      intro c hc
      rw [pload_other mem r pc _ _ (Ne.symm hrp) (by rw [hpc]; simp [bbcCells]; omega), hpc, getD_natBuf]
    have hft : ∃ u0 u1 u2 : Int, finT0 j = [u0, u1, u2] := by
      simp only [finT0]
      split
      · exact ⟨_, _, _, rfl⟩
      · exact ⟨_, _, _, rfl⟩
    obtain ⟨u0, u1, u2, hfj⟩ := hft
    have hfj1 : finT0 (j + 1) = bbcFin P j (F ell (0 + j)) := by
      simp only [finT0, Nat.add_one_ne_zero, if_false, Nat.add_sub_cancel]
    rcases hjj with rfl | rfl | rfl | rfl
    all_goals (
      simp only [Sf0, hfj, hfj1, bbcFin, List.cons_append, List.nil_append]
      repeat (first
        | cirqx [e1, e2, if_pos hsh, pp0, hix1, hix5, hst, shr_cast2, Nat.and_two_pow_sub_one_eq_mod, hto_lo, hto_hi,
            Nat.reduceMul, hld 1 (by decide), hld 5 (by decide)]
        | rw [ptrAt_pvar_nat _ _ 69 r 0 _ _ rfl rfl rfl])
      rw [pstore_fill mem r gf _ _ (by omega) (by rfl)]
      cirqx [inc_cast0, inc_cast1, inc_cast2, inc_cast3]
      first | done | rfl)
  simp only [seqK_norm]
  -- result 1
  let finT1 : Nat → List Int := fun j => if j = 0 then [0, 0, 0] else bbcFin P (j - 1) (F ell (4 + (j - 1)))
  let Sf1 : Nat → State := fun j =>
    ⟨[(ell : Int), (((F ell 0).1 : Nat) : Int), (((F ell 0).2 : Nat) : Int), (((F ell 1).1 : Nat) : Int), (((F ell 1).2 : Nat) : Int), (((F ell 2).1 : Nat) : Int), (((F ell 2).2 : Nat) : Int), (((F ell 3).1 : Nat) : Int), (((F ell 3).2 : Nat) : Int), 0, 0, 0, 0, 0, 0, 0, 0, (((F ell 4).1 : Nat) : Int), (((F ell 4).2 : Nat) : Int), (((F ell 5).1 : Nat) : Int), (((F ell 5).2 : Nat) : Int), (((F ell 6).1 : Nat) : Int), (((F ell 6).2 : Nat) : Int), (((F ell 7).1 : Nat) : Int), (((F ell 7).2 : Nat) : Int), 0, 0, 0, 0, 0, 0, 0, 0, (((F ell 8).1 : Nat) : Int), (((F ell 8).2 : Nat) : Int), (((F ell 9).1 : Nat) : Int), (((F ell 9).2 : Nat) : Int), (((F ell 10).1 : Nat) : Int), (((F ell 10).2 : Nat) : Int), (((F ell 11).1 : Nat) : Int), (((F ell 11).2 : Nat) : Int), 0, 0, 0, 0, 0, 0, 0, 0, (((F ell 12).1 : Nat) : Int), (((F ell 12).2 : Nat) : Int), (((F ell 13).1 : Nat) : Int), (((F ell 13).2 : Nat) : Int), (((F ell 14).1 : Nat) : Int), (((F ell 14).2 : Nat) : Int), (((F ell 15).1 : Nat) : Int), (((F ell 15).2 : Nat) : Int), 0, 0, 0, 0, 0, 0, 0, 0,
      (x : Int), ((0 : Nat) : Int), (y : Int), ((0 : Nat) : Int), (r : Int), ((0 : Nat) : Int), (ell : Int), a00, a01, a02, a03, a04, a05, a06, a07, a10, a11, a12, a13, a14, a15, a16, a17, a20, a21, a22, a23, a24, a25, a26, a27, a30, a31, a32, a33, a34, a35, a36, a37]
      ++ ([(P.h : Int), ((2 ^ P.h - 1 : Nat) : Int), ((4 : Nat) : Int)] ++ bbcFin P 3 (F ell 3)) ++ ([(P.h : Int), ((2 ^ P.h - 1 : Nat) : Int), (j : Int)] ++ finT1 j) ++ [0, 0, 0, 0, 0, 0] ++ [0, 0, 0, 0, 0, 0], fillMem mem r gf (4 + j)⟩
  simp only [Sf0, finT0, List.cons_append, List.nil_append, bbcFin]
  simp (config := { decide := true }) only [if_true, if_false, Nat.reduceSub, Nat.reduceAdd, List.cons_append, List.nil_append]
  cirqx [pp0z, hload0 _ (hpcm _), if_pos hsh, mask_cast2 P.h hh, List.cons_append, List.nil_append]
  rw [exec_for_range _ _ _ _ _ _ Sf1 0 4 0 (Nat.zero_le _) ?hi0 ?hc ?hs ?hx fuel (by omega)]
  case hi0 =>
    intro f
    simp only [Sf1, finT1, Sf0, finT0, List.cons_append, List.nil_append, bbcFin]
    cirq_simp
    simp (config := { decide := true }) only [if_true, if_false, Nat.reduceSub, Nat.reduceAdd, Nat.add_zero, e0]
    first | done | rfl
  case hc =>
    intro j _ hj
    simp only [Sf1, bbcFin, List.cons_append, List.nil_append]
    cir_simp
    exact ok_decide_true (by omega)
  case hx =>
    simp only [Sf1, bbcFin, List.cons_append, List.nil_append]
    cir_simp
    exact ok_decide_false (by decide)
  case hs =>
    intro j _ hj f _
    have hjj : j = 0 ∨ j = 1 ∨ j = 2 ∨ j = 3 := by omega
    have hix1 : ((1 : Int) + (j : Int)) % 18446744073709551616 = ((1 + j : Nat) : Int) := by omega
    have hix5 : ((5 : Int) + (j : Int)) % 18446744073709551616 = ((5 + j : Nat) : Int) := by omega
    have hto_lo : ((16 + 2 * (j : Int) % 18446744073709551616) % 18446744073709551616).toNat = 16 + 2 * j := by omega
    have hto_hi : ((16 + (2 * (j : Int) % 18446744073709551616 + 1) % 18446744073709551616) % 18446744073709551616).toNat = 16 + 2 * j + 1 := by omega
    have hst : ((4 : Int) + (j : Int)) % 18446744073709551616 = ((4 + j : Nat) : Int) := by omega
    have hld : ∀ c : Nat, c + 4 ≤ 9 → loadCell (fillMem mem r gf (4 + j)) (some (pc, c + j)) 0
        = .ok (((bbcCells P).getD (c + j) 0 : Nat) : Int) := by
      intro c hc
      rw [pload_other mem r pc _ _ (Ne.symm hrp) (by rw [hpc]; simp [bbcCells]; omega), hpc, getD_natBuf]
    have hft : ∃ u0 u1 u2 : Int, finT1 j = [u0, u1, u2] := by
      simp only [finT1]
      split
      · exact ⟨_, _, _, rfl⟩
      · exact ⟨_, _, _, rfl⟩
    obtain ⟨u0, u1, u2, hfj⟩ := hft
    have hfj1 : finT1 (j + 1) = bbcFin P j (F ell (4 + j)) := by
      simp only [finT1, Nat.add_one_ne_zero, if_false, Nat.add_sub_cancel]
    rcases hjj with rfl | rfl | rfl | rfl
    all_goals (
      simp only [Sf1, hfj, hfj1, bbcFin, List.cons_append, List.nil_append]
      repeat (first
        | cirqx [e1, e2, if_pos hsh, pp0, hix1, hix5, hst, shr_cast2, Nat.and_two_pow_sub_one_eq_mod, hto_lo, hto_hi,
            Nat.reduceMul, hld 1 (by decide), hld 5 (by decide)]
        | rw [ptrAt_pvar_nat _ _ 69 r 0 _ _ rfl rfl rfl])
      rw [pstore_fill mem r gf _ _ (by omega) (by rfl)]
      cirqx [inc_cast0, inc_cast1, inc_cast2, inc_cast3]
      first | done | rfl)
  simp only [seqK_norm]
  -- result 2
  let finT2 : Nat → List Int := fun j => if j = 0 then [0, 0, 0] else bbcFin P (j - 1) (F ell (8 + (j - 1)))
  let Sf2 : Nat → State := fun j =>
    ⟨[(ell : Int), (((F ell 0).1 : Nat) : Int), (((F ell 0).2 : Nat) : Int), (((F ell 1).1 : Nat) : Int), (((F ell 1).2 : Nat) : Int), (((F ell 2).1 : Nat) : Int), (((F ell 2).2 : Nat) : Int), (((F ell 3).1 : Nat) : Int), (((F ell 3).2 : Nat) : Int), 0, 0, 0, 0, 0, 0, 0, 0, (((F ell 4).1 : Nat) : Int), (((F ell 4).2 : Nat) : Int), (((F ell 5).1 : Nat) : Int), (((F ell 5).2 : Nat) : Int), (((F ell 6).1 : Nat) : Int), (((F ell 6).2 : Nat) : Int), (((F ell 7).1 : Nat) : Int), (((F ell 7).2 : Nat) : Int), 0, 0, 0, 0, 0, 0, 0, 0, (((F ell 8).1 : Nat) : Int), (((F ell 8).2 : Nat) : Int), (((F ell 9).1 : Nat) : Int), (((F ell 9).2 : Nat) : Int), (((F ell 10).1 : Nat) : Int), (((F ell 10).2 : Nat) : Int), (((F ell 11).1 : Nat) : Int), (((F ell 11).2 : Nat) : Int), 0, 0, 0, 0, 0, 0, 0, 0, (((F ell 12).1 : Nat) : Int), (((F ell 12).2 : Nat) : Int), (((F ell 13).1 : Nat) : Int), (((F ell 13).2 : Nat) : Int), (((F ell 14).1 : Nat) : Int), (((F ell 14).2 : Nat) : Int), (((F ell 15).1 : Nat) : Int), (((F ell 15).2 : Nat) : Int), 0, 0, 0, 0, 0, 0, 0, 0,
      (x : Int), ((0 : Nat) : Int), (y : Int), ((0 : Nat) : Int), (r : Int), ((0 : Nat) : Int), (ell : Int), a00, a01, a02, a03, a04, a05, a06, a07, a10, a11, a12, a13, a14, a15, a16, a17, a20, a21, a22, a23, a24, a25, a26, a27, a30, a31, a32, a33, a34, a35, a36, a37]
      ++ ([(P.h : Int), ((2 ^ P.h - 1 : Nat) : Int), ((4 : Nat) : Int)] ++ bbcFin P 3 (F ell 3)) ++ ([(P.h : Int), ((2 ^ P.h - 1 : Nat) : Int), ((4 : Nat) : Int)] ++ bbcFin P 3 (F ell 7)) ++ ([(P.h : Int), ((2 ^ P.h - 1 : Nat) : Int), (j : Int)] ++ finT2 j) ++ [0, 0, 0, 0, 0, 0], fillMem mem r gf (8 + j)⟩
  simp only [Sf1, finT1, List.cons_append, List.nil_append, bbcFin]
  simp (config := { decide := true }) only [if_true, if_false, Nat.reduceSub, Nat.reduceAdd, List.cons_append, List.nil_append]
  cirqx [pp0z, hload0 _ (hpcm _), if_pos hsh, mask_cast2 P.h hh, List.cons_append, List.nil_append]
  rw [exec_for_range _ _ _ _ _ _ Sf2 0 4 0 (Nat.zero_le _) ?hi0 ?hc ?hs ?hx fuel (by omega)]
  case hi0 =>
    intro f
    simp only [Sf2, finT2, Sf1, finT1, List.cons_append, List.nil_append, bbcFin]
    cirq_simp
    simp (config := { decide := true }) only [if_true, if_false, Nat.reduceSub, Nat.reduceAdd, Nat.add_zero, e0]
    first | done | rfl
  case hc =>
    intro j _ hj
    simp only [Sf2, bbcFin, List.cons_append, List.nil_append]
    cir_simp
    exact ok_decide_true (by omega)
  case hx =>
    simp only [Sf2, bbcFin, List.cons_append, List.nil_append]
    cir_simp
    exact ok_decide_false (by decide)
  case hs =>
    intro j _ hj f _
    have hjj : j = 0 ∨ j = 1 ∨ j = 2 ∨ j = 3 := by omega
    have hix1 : ((1 : Int) + (j : Int)) % 18446744073709551616 = ((1 + j : Nat) : Int) := by omega
    have hix5 : ((5 : Int) + (j : Int)) % 18446744073709551616 = ((5 + j : Nat) : Int) := by omega
    have hto_lo : ((32 + 2 * (j : Int) % 18446744073709551616) % 18446744073709551616).toNat = 32 + 2 * j := by omega
    have hto_hi : ((32 + (2 * (j : Int) % 18446744073709551616 + 1) % 18446744073709551616) % 18446744073709551616).toNat = 32 + 2 * j + 1 := by omega
    have hst : ((8 : Int) + (j : Int)) % 18446744073709551616 = ((8 + j : Nat) : Int) := by omega
    have hld : ∀ c : Nat, c + 4 ≤ 9 → loadCell (fillMem mem r gf (8 + j)) (some (pc, c + j)) 0
        = .ok (((bbcCells P).getD (c + j) 0 : Nat) : Int) := by
      intro c hc
      rw [pload_other mem r pc _ _ (Ne.symm hrp) (by rw [hpc]; simp [bbcCells]; omega), hpc, getD_natBuf]
    have hft : ∃ u0 u1 u2 : Int, finT2 j = [u0, u1, u2] := by
      simp only [finT2]
      split
      · exact ⟨_, _, _, rfl⟩
      · exact ⟨_, _, _, rfl⟩
    obtain ⟨u0, u1, u2, hfj⟩ := hft
    have hfj1 : finT2 (j + 1) = bbcFin P j (F ell (8 + j)) := by
      simp only [finT2, Nat.add_one_ne_zero, if_false, Nat.add_sub_cancel]
    rcases hjj with rfl | rfl | rfl | rfl
    all_goals (
      simp only [Sf2, hfj, hfj1, bbcFin, List.cons_append, List.nil_append]
      repeat (first
        | cirqx [e1, e2, if_pos hsh, pp0, hix1, hix5, hst, shr_cast2, Nat.and_two_pow_sub_one_eq_mod, hto_lo, hto_hi,
            Nat.reduceMul, hld 1 (by decide), hld 5 (by decide)]
        | rw [ptrAt_pvar_nat _ _ 69 r 0 _ _ rfl rfl rfl])
      rw [pstore_fill mem r gf _ _ (by omega) (by rfl)]
      cirqx [inc_cast0, inc_cast1, inc_cast2, inc_cast3]
      first | done | rfl)
  simp only [seqK_norm]
  -- result 3
  let finT3 : Nat → List Int := fun j => if j = 0 then [0, 0, 0] else bbcFin P (j - 1) (F ell (12 + (j - 1)))
  let Sf3 : Nat → State := fun j =>
    ⟨[(ell : Int), (((F ell 0).1 : Nat) : Int), (((F ell 0).2 : Nat) : Int), (((F ell 1).1 : Nat) : Int), (((F ell 1).2 : Nat) : Int), (((F ell 2).1 : Nat) : Int), (((F ell 2).2 : Nat) : Int), (((F ell 3).1 : Nat) : Int), (((F ell 3).2 : Nat) : Int), 0, 0, 0, 0, 0, 0, 0, 0, (((F ell 4).1 : Nat) : Int), (((F ell 4).2 : Nat) : Int), (((F ell 5).1 : Nat) : Int), (((F ell 5).2 : Nat) : Int), (((F ell 6).1 : Nat) : Int), (((F ell 6).2 : Nat) : Int), (((F ell 7).1 : Nat) : Int), (((F ell 7).2 : Nat) : Int), 0, 0, 0, 0, 0, 0, 0, 0, (((F ell 8).1 : Nat) : Int), (((F ell 8).2 : Nat) : Int), (((F ell 9).1 : Nat) : Int), (((F ell 9).2 : Nat) : Int), (((F ell 10).1 : Nat) : Int), (((F ell 10).2 : Nat) : Int), (((F ell 11).1 : Nat) : Int), (((F ell 11).2 : Nat) : Int), 0, 0, 0, 0, 0, 0, 0, 0, (((F ell 12).1 : Nat) : Int), (((F ell 12).2 : Nat) : Int), (((F ell 13).1 : Nat) : Int), (((F ell 13).2 : Nat) : Int), (((F ell 14).1 : Nat) : Int), (((F ell 14).2 : Nat) : Int), (((F ell 15).1 : Nat) : Int), (((F ell 15).2 : Nat) : Int), 0, 0, 0, 0, 0, 0, 0, 0,
      (x : Int), ((0 : Nat) : Int), (y : Int), ((0 : Nat) : Int), (r : Int), ((0 : Nat) : Int), (ell : Int), a00, a01, a02, a03, a04, a05, a06, a07, a10, a11, a12, a13, a14, a15, a16, a17, a20, a21, a22, a23, a24, a25, a26, a27, a30, a31, a32, a33, a34, a35, a36, a37]
      ++ ([(P.h : Int), ((2 ^ P.h - 1 : Nat) : Int), ((4 : Nat) : Int)] ++ bbcFin P 3 (F ell 3)) ++ ([(P.h : Int), ((2 ^ P.h - 1 : Nat) : Int), ((4 : Nat) : Int)] ++ bbcFin P 3 (F ell 7)) ++ ([(P.h : Int), ((2 ^ P.h - 1 : Nat) : Int), ((4 : Nat) : Int)] ++ bbcFin P 3 (F ell 11)) ++ ([(P.h : Int), ((2 ^ P.h - 1 : Nat) : Int), (j : Int)] ++ finT3 j), fillMem mem r gf (12 + j)⟩
  simp only [Sf2, finT2, List.cons_append, List.nil_append, bbcFin]
  simp (config := { decide := true }) only [if_true, if_false, Nat.reduceSub, Nat.reduceAdd, List.cons_append, List.nil_append]
  cirqx [pp0z, hload0 _ (hpcm _), if_pos hsh, mask_cast2 P.h hh, List.cons_append, List.nil_append]
  rw [exec_for_range _ _ _ _ _ _ Sf3 0 4 0 (Nat.zero_le _) ?hi0 ?hc ?hs ?hx fuel (by omega)]
  case hi0 =>
    intro f
    simp only [Sf3, finT3, Sf2, finT2, List.cons_append, List.nil_append, bbcFin]
    cirq_simp
    simp (config := { decide := true }) only [if_true, if_false, Nat.reduceSub, Nat.reduceAdd, Nat.add_zero, e0]
    first | done | rfl
  case hc =>
    intro j _ hj
    simp only [Sf3, bbcFin, List.cons_append, List.nil_append]
    cir_simp
    exact ok_decide_true (by omega)
  case hx =>
    simp only [Sf3, bbcFin, List.cons_append, List.nil_append]
    cir_simp
    exact ok_decide_false (by decide)
  case hs =>
    intro j _ hj f _
    have hjj : j = 0 ∨ j = 1 ∨ j = 2 ∨ j = 3 := by omega
    have hix1 : ((1 : Int) + (j : Int)) % 18446744073709551616 = ((1 + j : Nat) : Int) := by omega
    have hix5 : ((5 : Int) + (j : Int)) % 18446744073709551616 = ((5 + j : Nat) : Int) := by omega
    have hto_lo : ((48 + 2 * (j : Int) % 18446744073709551616) % 18446744073709551616).toNat = 48 + 2 * j := by omega
    have hto_hi : ((48 + (2 * (j : Int) % 18446744073709551616 + 1) % 18446744073709551616) % 18446744073709551616).toNat = 48 + 2 * j + 1 := by omega
    have hst : ((12 : Int) + (j : Int)) % 18446744073709551616 = ((12 + j : Nat) : Int) := by omega
    have hld : ∀ c : Nat, c + 4 ≤ 9 → loadCell (fillMem mem r gf (12 + j)) (some (pc, c + j)) 0
        = .ok (((bbcCells P).getD (c + j) 0 : Nat) : Int) := by
      intro c hc
      rw [pload_other mem r pc _ _ (Ne.symm hrp) (by rw [hpc]; simp [bbcCells]; omega), hpc, getD_natBuf]
    have hft : ∃ u0 u1 u2 : Int, finT3 j = [u0, u1, u2] := by
      simp only [finT3]
      split
      · exact ⟨_, _, _, rfl⟩
      · exact ⟨_, _, _, rfl⟩
    obtain ⟨u0, u1, u2, hfj⟩ := hft
    have hfj1 : finT3 (j + 1) = bbcFin P j (F ell (12 + j)) := by
      simp only [finT3, Nat.add_one_ne_zero, if_false, Nat.add_sub_cancel]
    rcases hjj with rfl | rfl | rfl | rfl
    all_goals (
      simp only [Sf3, hfj, hfj1, bbcFin, List.cons_append, List.nil_append]
      repeat (first
        | cirqx [e1, e2, if_pos hsh, pp0, hix1, hix5, hst, shr_cast2, Nat.and_two_pow_sub_one_eq_mod, hto_lo, hto_hi,
            Nat.reduceMul, hld 1 (by decide), hld 5 (by decide)]
        | rw [ptrAt_pvar_nat _ _ 69 r 0 _ _ rfl rfl rfl])
      rw [pstore_fill mem r gf _ _ (by omega) (by rfl)]
      cirqx [inc_cast0, inc_cast1, inc_cast2, inc_cast3]
      first | done | rfl)
  rfl

/-! ### no out-of-bounds access, for every fuel -/

theorem src_q120x2_vec_mat1col_product_bbc_ref_no_oob (P : BbcPrecomp) (hh : P.h < 64)
    (ell : Nat) (hell : ell < 576460752303423488) (mem : Mem) (pc r x y : Nat) (X Y : Array Nat)
    (hpc : buf mem pc = natBuf (bbcCells P)) (hrp : r ≠ pc)
    (hr : (buf mem r).size = 8) (hx : buf mem x = natBuf X) (hX : X.size = 8 * ell)
    (hXb : ∀ i, X.getD i 0 < 18446744073709551616)
    (hy : buf mem y = natBuf Y) (hY : Y.size = 8 * ell) (hYb : ∀ i, Y.getD i 0 < 18446744073709551616) :
    ∀ fuel e, e ≠ .fuel →
      run fuel Gen.CSrc.q120x2_vec_mat1col_product_bbc_ref [(ell : Int)] [some (pc, 0), some (r, 0), some (x, 0), some (y, 0)] mem ≠ .err e :=
  run_no_other_error _ _ _ _ _ (ell + 4) (src_q120x2_vec_mat1col_product_bbc_ref_eq_model P hh ell hell mem pc r x y X Y hpc hrp hr hx hX hXb hy hY hYb)

theorem src_q120x2_vec_mat2cols_product_bbc_ref_no_oob (P : BbcPrecomp) (hh : P.h < 64)
    (ell : Nat) (hell : ell < 576460752303423488) (mem : Mem) (pc r x y : Nat) (X Y : Array Nat)
    (hpc : buf mem pc = natBuf (bbcCells P)) (hrp : r ≠ pc)
    (hr : (buf mem r).size = 16) (hx : buf mem x = natBuf X) (hX : X.size = 8 * ell)
    (hXb : ∀ i, X.getD i 0 < 18446744073709551616)
    (hy : buf mem y = natBuf Y) (hY : Y.size = 16 * ell) (hYb : ∀ i, Y.getD i 0 < 18446744073709551616) :
    ∀ fuel e, e ≠ .fuel →
      run fuel Gen.CSrc.q120x2_vec_mat2cols_product_bbc_ref [(ell : Int)] [some (pc, 0), some (r, 0), some (x, 0), some (y, 0)] mem ≠ .err e :=
  run_no_other_error _ _ _ _ _ (ell + 4) (src_q120x2_vec_mat2cols_product_bbc_ref_eq_model P hh ell hell mem pc r x y X Y hpc hrp hr hx hX hXb hy hY hYb)

end Spq.Src
