/-
  SrcRot: the C SOURCE equals the hand-written model, for all inputs — rotation, multiplication by X^p - 1, automorphism, out of place and in place (property C09).
  Split of the translator-based tie (agent T); conventions of the statements:
  Conventions of the statements:
  * `mem : Mem` is the whole memory (array of buffers of 64-bit cells); pointer parameter `i` is bound to
    `some (b, 0)` = start of buffer `b`; the buffers passed have EXACTLY `nn` cells (`(buf mem b).size = nn`);
  * buffer indices may coincide where the C contract allows aliasing (element-wise kernels: any aliasing);
  * `∀ fuel, F nn ≤ fuel → …`: explicit sufficient fuel (one unit per loop iteration);
  * `src_<f>_no_oob`: for EVERY fuel the run is not an out-of-bounds / null / overlap / ub / unsupported error
    (it is the model result, or `Err.fuel` when the fuel is below the bound).
-/
import Gen.CSrc
import Spq.Coeffs
import SpqProofs.Lemmas.SrcFill
import SpqProofs.Lemmas.SrcFuel
import SpqProofs.Lemmas.SrcTac
import SpqProofs.Lemmas.SrcNorm
namespace Spq.Src
open Spq Spq.CIR

/-! ### rotation-shaped kernels (`res ≠ in`): `nn = 2^t`, `t ≤ 63` (then `2*nn - 1` computed in uint64 is the
    mask of the residues mod `2nn`, also for `nn = 2^63` where `2*nn` wraps to 0), every `p : Int`
    (`-p` wraps for `p = INT64_MIN`; the residue is unaffected).  `f64Ops` = binary64 cells as 64-bit patterns. -/

theorem src_znx_rotate_i64_eq_model (t : Nat) (ht : t ≤ 63) (nn : Nat) (hnn : nn = 2 ^ t) (p : Int)
    (mem : Mem) (r a : Nat) (hra : a ≠ r) (hr : (buf mem r).size = nn) (ha : (buf mem a).size = nn) :
    ∀ fuel, nn ≤ fuel →
      run fuel Gen.CSrc.znx_rotate_i64 [(nn : Int), p] [some (r, 0), some (a, 0)] mem
        = .ok (mem.setIfInBounds r (Coeffs.rotate i64Ops nn p (buf mem a))) := by
  src_rot_proof Gen.CSrc.znx_rotate_i64 (fun j =>
    if A < nn then
      (if j < nn - A then inp.getD (j + A) 0 else negS (inp.getD (j - (nn - A)) 0))
    else
      (if j < nn - (A - nn) then negS (inp.getD (j + (A - nn)) 0) else inp.getD (j - (nn - (A - nn))) 0))

theorem src_znx_mul_xp_minus_one_eq_model (t : Nat) (ht : t ≤ 63) (nn : Nat) (hnn : nn = 2 ^ t) (p : Int)
    (mem : Mem) (r a : Nat) (hra : a ≠ r) (hr : (buf mem r).size = nn) (ha : (buf mem a).size = nn) :
    ∀ fuel, nn ≤ fuel →
      run fuel Gen.CSrc.znx_mul_xp_minus_one [(nn : Int), p] [some (r, 0), some (a, 0)] mem
        = .ok (mem.setIfInBounds r (Coeffs.mulXpMinusOne i64Ops nn p (buf mem a))) := by
  src_rot_proof Gen.CSrc.znx_mul_xp_minus_one (fun j =>
    if A < nn then
      (if j < nn - A then subS (inp.getD (j + A) 0) (inp.getD j 0)
       else subS (negS (inp.getD (j - (nn - A)) 0)) (inp.getD j 0))
    else
      (if j < nn - (A - nn) then subS (negS (inp.getD (j + (A - nn)) 0)) (inp.getD j 0)
       else subS (inp.getD (j - (nn - (A - nn))) 0) (inp.getD j 0)))

theorem src_rnx_rotate_f64_eq_model (t : Nat) (ht : t ≤ 63) (nn : Nat) (hnn : nn = 2 ^ t) (p : Int)
    (mem : Mem) (r a : Nat) (hra : a ≠ r) (hr : (buf mem r).size = nn) (ha : (buf mem a).size = nn) :
    ∀ fuel, nn ≤ fuel →
      run fuel Gen.CSrc.rnx_rotate_f64 [(nn : Int), p] [some (r, 0), some (a, 0)] mem
        = .ok (mem.setIfInBounds r (Coeffs.rotate f64Ops nn p (buf mem a))) := by
  src_rot_proof Gen.CSrc.rnx_rotate_f64 (fun j =>
    if A < nn then
      (if j < nn - A then inp.getD (j + A) 0 else fneg (inp.getD (j - (nn - A)) 0))
    else
      (if j < nn - (A - nn) then fneg (inp.getD (j + (A - nn)) 0) else inp.getD (j - (nn - (A - nn))) 0))

theorem src_rnx_mul_xp_minus_one_eq_model (t : Nat) (ht : t ≤ 63) (nn : Nat) (hnn : nn = 2 ^ t) (p : Int)
    (mem : Mem) (r a : Nat) (hra : a ≠ r) (hr : (buf mem r).size = nn) (ha : (buf mem a).size = nn) :
    ∀ fuel, nn ≤ fuel →
      run fuel Gen.CSrc.rnx_mul_xp_minus_one [(nn : Int), p] [some (r, 0), some (a, 0)] mem
        = .ok (mem.setIfInBounds r (Coeffs.mulXpMinusOne f64Ops nn p (buf mem a))) := by
  src_rot_proof Gen.CSrc.rnx_mul_xp_minus_one (fun j =>
    if A < nn then
      (if j < nn - A then fsub (inp.getD (j + A) 0) (inp.getD j 0)
       else fsub (fneg (inp.getD (j - (nn - A)) 0)) (inp.getD j 0))
    else
      (if j < nn - (A - nn) then fsub (fneg (inp.getD (j + (A - nn)) 0)) (inp.getD j 0)
       else fsub (inp.getD (j - (nn - (A - nn))) 0) (inp.getD j 0)))

/-! ### out-of-place automorphism (a scatter): every `p` (also even `p`, outside the contract: the cells the
    loop does not write keep the prior content `buf mem r` of the result buffer, as in the model) -/

theorem src_znx_automorphism_i64_eq_model (t : Nat) (ht : t ≤ 63) (nn : Nat) (hnn : nn = 2 ^ t) (p : Int)
    (mem : Mem) (r a : Nat) (hra : a ≠ r) (hr : (buf mem r).size = nn) (ha : (buf mem a).size = nn) :
    ∀ fuel, nn ≤ fuel →
      run fuel Gen.CSrc.znx_automorphism_i64 [(nn : Int), p] [some (r, 0), some (a, 0)] mem
        = .ok (mem.setIfInBounds r (Coeffs.automorphism i64Ops nn p (buf mem a) (buf mem r))) := by
  src_aut_proof Gen.CSrc.znx_automorphism_i64 i64Ops

theorem src_rnx_automorphism_f64_eq_model (t : Nat) (ht : t ≤ 63) (nn : Nat) (hnn : nn = 2 ^ t) (p : Int)
    (mem : Mem) (r a : Nat) (hra : a ≠ r) (hr : (buf mem r).size = nn) (ha : (buf mem a).size = nn) :
    ∀ fuel, nn ≤ fuel →
      run fuel Gen.CSrc.rnx_automorphism_f64 [(nn : Int), p] [some (r, 0), some (a, 0)] mem
        = .ok (mem.setIfInBounds r (Coeffs.automorphism f64Ops nn p (buf mem a) (buf mem r))) := by
  src_aut_proof Gen.CSrc.rnx_automorphism_f64 f64Ops

/-! ### in-place rotation / (X^p - 1): nested `while` / `do … while` cycle walks with a `?:` store.  The iteration
    counts have no closed form; the generated loops are related to the model's fuel-bounded walks
    (`Coeffs.walkAll`, `Coeffs.walkCycle`) by simulation, and the do-while is shown to terminate because
    `j ↦ j + p mod nn` returns to its start within `nn` steps.  Fuel `2*nn`: at most `nn` cycle leaders, each
    cycle at most `nn` steps (nested loops share the budget). -/

theorem src_znx_rotate_inplace_i64_eq_model (t : Nat) (ht : t ≤ 63) (nn : Nat) (hnn : nn = 2 ^ t) (p : Int)
    (mem : Mem) (r : Nat) (hr : (buf mem r).size = nn) :
    ∀ fuel, 2 * nn ≤ fuel →
      run fuel Gen.CSrc.znx_rotate_inplace_i64 [(nn : Int), p] [some (r, 0)] mem
        = .ok (mem.setIfInBounds r (Coeffs.rotateInplace i64Ops nn p (buf mem r))) := by
  src_walk_proof Gen.CSrc.znx_rotate_inplace_i64 i64Ops false

theorem src_rnx_rotate_inplace_f64_eq_model (t : Nat) (ht : t ≤ 63) (nn : Nat) (hnn : nn = 2 ^ t) (p : Int)
    (mem : Mem) (r : Nat) (hr : (buf mem r).size = nn) :
    ∀ fuel, 2 * nn ≤ fuel →
      run fuel Gen.CSrc.rnx_rotate_inplace_f64 [(nn : Int), p] [some (r, 0)] mem
        = .ok (mem.setIfInBounds r (Coeffs.rotateInplace f64Ops nn p (buf mem r))) := by
  src_walk_proof Gen.CSrc.rnx_rotate_inplace_f64 f64Ops false

theorem src_rnx_mul_xp_minus_one_inplace_eq_model (t : Nat) (ht : t ≤ 63) (nn : Nat) (hnn : nn = 2 ^ t) (p : Int)
    (mem : Mem) (r : Nat) (hr : (buf mem r).size = nn) :
    ∀ fuel, 2 * nn ≤ fuel →
      run fuel Gen.CSrc.rnx_mul_xp_minus_one_inplace [(nn : Int), p] [some (r, 0)] mem
        = .ok (mem.setIfInBounds r (Coeffs.mulXpMinusOneInplace f64Ops nn p (buf mem r))) := by
  src_walk_proof Gen.CSrc.rnx_mul_xp_minus_one_inplace f64Ops true

theorem src_znx_rotate_i64_no_oob (t : Nat) (ht : t ≤ 63) (nn : Nat) (hnn : nn = 2 ^ t) (p : Int)
    (mem : Mem) (r a : Nat) (hra : a ≠ r) (hr : (buf mem r).size = nn) (ha : (buf mem a).size = nn) :
    ∀ fuel e, e ≠ .fuel → run fuel Gen.CSrc.znx_rotate_i64 [(nn : Int), p] [some (r, 0), some (a, 0)] mem ≠ .err e :=
  run_no_other_error _ _ _ _ _ nn (src_znx_rotate_i64_eq_model t ht nn hnn p mem r a hra hr ha)

theorem src_znx_mul_xp_minus_one_no_oob (t : Nat) (ht : t ≤ 63) (nn : Nat) (hnn : nn = 2 ^ t) (p : Int)
    (mem : Mem) (r a : Nat) (hra : a ≠ r) (hr : (buf mem r).size = nn) (ha : (buf mem a).size = nn) :
    ∀ fuel e, e ≠ .fuel → run fuel Gen.CSrc.znx_mul_xp_minus_one [(nn : Int), p] [some (r, 0), some (a, 0)] mem ≠ .err e :=
  run_no_other_error _ _ _ _ _ nn (src_znx_mul_xp_minus_one_eq_model t ht nn hnn p mem r a hra hr ha)

theorem src_rnx_rotate_f64_no_oob (t : Nat) (ht : t ≤ 63) (nn : Nat) (hnn : nn = 2 ^ t) (p : Int)
    (mem : Mem) (r a : Nat) (hra : a ≠ r) (hr : (buf mem r).size = nn) (ha : (buf mem a).size = nn) :
    ∀ fuel e, e ≠ .fuel → run fuel Gen.CSrc.rnx_rotate_f64 [(nn : Int), p] [some (r, 0), some (a, 0)] mem ≠ .err e :=
  run_no_other_error _ _ _ _ _ nn (src_rnx_rotate_f64_eq_model t ht nn hnn p mem r a hra hr ha)

theorem src_rnx_mul_xp_minus_one_no_oob (t : Nat) (ht : t ≤ 63) (nn : Nat) (hnn : nn = 2 ^ t) (p : Int)
    (mem : Mem) (r a : Nat) (hra : a ≠ r) (hr : (buf mem r).size = nn) (ha : (buf mem a).size = nn) :
    ∀ fuel e, e ≠ .fuel → run fuel Gen.CSrc.rnx_mul_xp_minus_one [(nn : Int), p] [some (r, 0), some (a, 0)] mem ≠ .err e :=
  run_no_other_error _ _ _ _ _ nn (src_rnx_mul_xp_minus_one_eq_model t ht nn hnn p mem r a hra hr ha)

theorem src_znx_automorphism_i64_no_oob (t : Nat) (ht : t ≤ 63) (nn : Nat) (hnn : nn = 2 ^ t) (p : Int)
    (mem : Mem) (r a : Nat) (hra : a ≠ r) (hr : (buf mem r).size = nn) (ha : (buf mem a).size = nn) :
    ∀ fuel e, e ≠ .fuel → run fuel Gen.CSrc.znx_automorphism_i64 [(nn : Int), p] [some (r, 0), some (a, 0)] mem ≠ .err e :=
  run_no_other_error _ _ _ _ _ nn (src_znx_automorphism_i64_eq_model t ht nn hnn p mem r a hra hr ha)

theorem src_rnx_automorphism_f64_no_oob (t : Nat) (ht : t ≤ 63) (nn : Nat) (hnn : nn = 2 ^ t) (p : Int)
    (mem : Mem) (r a : Nat) (hra : a ≠ r) (hr : (buf mem r).size = nn) (ha : (buf mem a).size = nn) :
    ∀ fuel e, e ≠ .fuel → run fuel Gen.CSrc.rnx_automorphism_f64 [(nn : Int), p] [some (r, 0), some (a, 0)] mem ≠ .err e :=
  run_no_other_error _ _ _ _ _ nn (src_rnx_automorphism_f64_eq_model t ht nn hnn p mem r a hra hr ha)

theorem src_znx_rotate_inplace_i64_no_oob (t : Nat) (ht : t ≤ 63) (nn : Nat) (hnn : nn = 2 ^ t) (p : Int)
    (mem : Mem) (r : Nat) (hr : (buf mem r).size = nn) :
    ∀ fuel e, e ≠ .fuel → run fuel Gen.CSrc.znx_rotate_inplace_i64 [(nn : Int), p] [some (r, 0)] mem ≠ .err e :=
  run_no_other_error _ _ _ _ _ (2 * nn) (src_znx_rotate_inplace_i64_eq_model t ht nn hnn p mem r hr)

theorem src_rnx_rotate_inplace_f64_no_oob (t : Nat) (ht : t ≤ 63) (nn : Nat) (hnn : nn = 2 ^ t) (p : Int)
    (mem : Mem) (r : Nat) (hr : (buf mem r).size = nn) :
    ∀ fuel e, e ≠ .fuel → run fuel Gen.CSrc.rnx_rotate_inplace_f64 [(nn : Int), p] [some (r, 0)] mem ≠ .err e :=
  run_no_other_error _ _ _ _ _ (2 * nn) (src_rnx_rotate_inplace_f64_eq_model t ht nn hnn p mem r hr)

theorem src_rnx_mul_xp_minus_one_inplace_no_oob (t : Nat) (ht : t ≤ 63) (nn : Nat) (hnn : nn = 2 ^ t) (p : Int)
    (mem : Mem) (r : Nat) (hr : (buf mem r).size = nn) :
    ∀ fuel e, e ≠ .fuel → run fuel Gen.CSrc.rnx_mul_xp_minus_one_inplace [(nn : Int), p] [some (r, 0)] mem ≠ .err e :=
  run_no_other_error _ _ _ _ _ (2 * nn) (src_rnx_mul_xp_minus_one_inplace_eq_model t ht nn hnn p mem r hr)

/-- the hypotheses are satisfiable, also with `res == a` (in place), and the fuel bound is attained:
    with `nn - 1` units the generated loop reports `Err.fuel`, with `nn` it returns the model result. -/
example :
    run 3 Gen.CSrc.znx_add_i64_ref [3] [some (0, 0), some (0, 0), some (1, 0)]
        #[#[1, 2, 9223372036854775807], #[10, 20, 1]]
      = .ok #[#[11, 22, -9223372036854775808], #[10, 20, 1]]
    ∧ run 2 Gen.CSrc.znx_add_i64_ref [3] [some (0, 0), some (0, 0), some (1, 0)]
        #[#[1, 2, 9223372036854775807], #[10, 20, 1]] = .err .fuel
    ∧ run 9 Gen.CSrc.znx_add_i64_ref [3] [some (0, 1), some (0, 0), some (1, 0)]
        #[#[1, 2, 3], #[10, 20, 1]] = .err .oob := by decide

/-- rotation by `X^1` and by `X^{-3}` in `Z[X]/(X^4+1)`, `p = INT64_MIN`, and the aliased call `res == in`
    (outside the hypotheses `a ≠ r`): the source-level semantics then differs from the model's, as in C. -/
example :
    run 4 Gen.CSrc.znx_rotate_i64 [4, 1] [some (0, 0), some (1, 0)] #[#[0, 0, 0, 0], #[1, 2, 3, 4]]
      = .ok #[#[-4, 1, 2, 3], #[1, 2, 3, 4]]
    ∧ run 4 Gen.CSrc.znx_rotate_i64 [4, -3] [some (0, 0), some (1, 0)] #[#[0, 0, 0, 0], #[1, 2, 3, 4]]
      = .ok #[#[4, -1, -2, -3], #[1, 2, 3, 4]]
    ∧ run 4 Gen.CSrc.znx_rotate_i64 [4, -9223372036854775808] [some (0, 0), some (1, 0)]
        #[#[0, 0, 0, 0], #[1, 2, 3, 4]] = .ok #[#[1, 2, 3, 4], #[1, 2, 3, 4]]
    ∧ run 4 Gen.CSrc.znx_rotate_i64 [4, 1] [some (0, 0), some (0, 0)] #[#[1, 2, 3, 4]]
      = .ok #[#[-4, -4, -4, -4]]
    ∧ run 4 Gen.CSrc.znx_automorphism_i64 [4, 3] [some (0, 0), some (1, 0)] #[#[0, 0, 0, 0], #[1, 2, 3, 4]]
      = .ok #[#[1, 4, -3, 2], #[1, 2, 3, 4]] := by decide

/-- in-place rotation by `X^1` in `Z[X]/(X^4+1)` (one cycle of length 4): 4 units of fuel are not enough for the
    nested loops (`Err.fuel`), `2*nn = 8` are. -/
example :
    run 8 Gen.CSrc.znx_rotate_inplace_i64 [4, 1] [some (0, 0)] #[#[1, 2, 3, 4]] = .ok #[#[-4, 1, 2, 3]]
    ∧ run 3 Gen.CSrc.znx_rotate_inplace_i64 [4, 1] [some (0, 0)] #[#[1, 2, 3, 4]] = .err .fuel := by decide


end Spq.Src
