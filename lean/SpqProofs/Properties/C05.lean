/-
  C05 — base-2^k normalization yields the unique balanced digit expansion.

  Property theorems only (helper lemmas: SpqProofs/Lemmas/Norm{Digit,Chain,Heap}.lean).

  Notation.  `balDigit k x = ((x + 2^(k-1)) mod 2^k) - 2^(k-1)` (floor mod): the representative of
  `x mod 2^k` in `[-2^(k-1), 2^(k-1))`; `balCarry k x = ⌊(x + 2^(k-1)) / 2^k⌋ = (x - balDigit k x)/2^k`.
  `balancedDigits k [a_0,…,a_{n-1}]` (index 0 = most significant limb, as in the C API) is the
  specification: exact integer arithmetic from the least significant limb; `val k` is
  `Σ_i a_i 2^(k(n-1-i))`; `Bnd62 v` is `|v| ≤ 2^62`.

  Layers:
   1. `digit_spec`, `carry_spec`          — the shift pairs of `get_base_k_digit/carry` on wrapped int64;
   2. `limb_identity*`, `znx_normalize_spec` — one `znx_normalize` step, all 8 argument shapes;
   3. `balanced_expansion_*`, `normalize_coeff_spec` — per coefficient: value, range, uniqueness, and
      the model's chain of steps computes `balancedDigits`;
   4. `normalize_spec`, `normalize_no_fault`, `normalize_size0_*`, `big_eq`, `range_eq` — heap level,
      every `nn`, every `(res_size, a_size)` including 0, every stride `≥ nn`, in place or disjoint.
-/
import SpqProofs.Lemmas.NormHeap
namespace Spq.C05
open Spq Heap Coeffs Spq.C08 Spq.Norm

/-! ### 1. digit and carry -/

/-- `get_base_k_digit(x, k) = (x << (64-k)) >> (64-k)` is the balanced residue of `x` mod `2^k`, for
    every `k ∈ [1,64]` and every `x` (no range hypothesis: the wrap of the left shift is exactly what
    discards the high bits). -/
theorem digit_spec (k : Nat) (hk : 1 ≤ k) (hk' : k ≤ 64) (x : Int) :
    digit x k = (x + 2 ^ (k - 1)) % 2 ^ k - 2 ^ (k - 1) ∧
    -2 ^ (k - 1) ≤ digit x k ∧ digit x k < 2 ^ (k - 1) ∧ (x - digit x k) % 2 ^ k = 0 := by
  rw [Norm.digit_spec k hk hk' x]
  exact ⟨rfl, (bal_range k hk x).1, (bal_range k hk x).2, balDigit_emod k x⟩

/-- `get_base_k_carry(x, digit, k) = (x - digit) >> k` is the exact quotient.  The subtraction
    `x - digit` wraps iff `x ≥ 2^63 - 2^(k-1)`; below that bound (in particular for `|x| ≤ 2^62`,
    `k ≤ 62`) there is no wrap. -/
theorem carry_spec (k : Nat) (hk : 1 ≤ k) (hk' : k ≤ 63) (x : Int)
    (hx1 : -9223372036854775808 ≤ x) (hx2 : x < 9223372036854775808 - 2 ^ (k - 1)) :
    carry x (digit x k) k = (x - digit x k) / 2 ^ k ∧
    x = digit x k + carry x (digit x k) k * 2 ^ k := by
  rw [Norm.carry_spec k hk hk' x hx1 hx2, Norm.digit_spec k hk (by omega) x]
  exact ⟨balCarry_eq k x, bal_decomp k x⟩

/-- the hypothesis of `carry_spec` is sharp: at `x = 2^63 - 2^(k-1)` (here `k = 1`, `x = INT64_MAX`)
    the difference wraps and the identity fails -/
example : let x := 9223372036854775807
    x ≠ digit x 1 + carry x (digit x 1) 1 * 2 ^ 1 := by decide

/-! ### 2. one step of `znx_normalize` -/

/-- with carry-in: `x + cin = y + cout·2^k` in ℤ (no wrap anywhere), `y` balanced, and the carry
    invariant `|cout| ≤ 2^(63-k) ≤ 2^62` that re-establishes the hypothesis on `cin` for the next limb -/
theorem limb_identity (k : Nat) (hk : 1 ≤ k) (hk' : k ≤ 62) (x cin : Int) (hx : Bnd62 x) (hc : Bnd62 cin) :
    let r := normCoef k x (some cin)
    x + cin = r.1 + r.2 * 2 ^ k ∧ -2 ^ (k - 1) ≤ r.1 ∧ r.1 < 2 ^ (k - 1) ∧
    -2 ^ (63 - k) ≤ r.2 ∧ r.2 ≤ 2 ^ (63 - k) ∧ Bnd62 r.2 := by
  intro r
  have e : r = _ := normCoef_eq k hk hk' x hx (some cin) hc
  rw [e]
  simp only [Option.getD_some]
  unfold Bnd62 at hx hc
  have b := balCarry_bound k hk (by omega) (x + cin) (by linarith [hx.1, hc.1]) (by linarith [hx.2, hc.2])
  exact ⟨bal_decomp k _, (bal_range k hk _).1, (bal_range k hk _).2, b.1, b.2,
    balCarry_bnd62 k hk (by omega) _ (by linarith [hx.1, hc.1]) (by linarith [hx.2, hc.2])⟩

/-- without carry-in (`carry_in = NULL`): `x = y + cout·2^k` -/
theorem limb_identity_none (k : Nat) (hk : 1 ≤ k) (hk' : k ≤ 62) (x : Int) (hx : Bnd62 x) :
    let r := normCoef k x none
    x = r.1 + r.2 * 2 ^ k ∧ -2 ^ (k - 1) ≤ r.1 ∧ r.1 < 2 ^ (k - 1) ∧
    -2 ^ (63 - k) ≤ r.2 ∧ r.2 ≤ 2 ^ (63 - k) ∧ Bnd62 r.2 := by
  intro r
  have e : r = _ := normCoef_eq k hk hk' x hx none bnd62_zero
  rw [e]
  simp only [Option.getD_none, add_zero]
  unfold Bnd62 at hx
  have b := balCarry_bound k hk (by omega) x (by linarith [hx.1]) (by linarith [hx.2])
  exact ⟨bal_decomp k _, (bal_range k hk _).1, (bal_range k hk _).2, b.1, b.2,
    balCarry_bnd62 k hk (by omega) _ (by linarith [hx.1]) (by linarith [hx.2])⟩

/-- weakest convenient hypotheses (every `k ∈ [1,63]`): `-2^63 ≤ x < 2^63 - 2^(k-1)` and
    `-2^63 + 2^(k-1) ≤ cin ≤ 2^63 - 2^k` suffice for the exact identity -/
theorem limb_identity_weak (k : Nat) (hk : 1 ≤ k) (hk' : k ≤ 63) (x cin : Int)
    (hx1 : -9223372036854775808 ≤ x) (hx2 : x < 9223372036854775808 - 2 ^ (k - 1))
    (hc1 : -9223372036854775808 + 2 ^ (k - 1) ≤ cin) (hc2 : cin ≤ 9223372036854775808 - 2 ^ k) :
    let r := normCoef k x (some cin)
    x + cin = r.1 + r.2 * 2 ^ k ∧ -2 ^ (k - 1) ≤ r.1 ∧ r.1 < 2 ^ (k - 1) := by
  intro r
  have e : r = _ := normCoef_some k hk hk' x cin hx1 hx2 hc1 hc2
  rw [e]
  exact ⟨bal_decomp k _, (bal_range k hk _).1, (bal_range k hk _).2⟩

/-- `znx_normalize(nn, k, out, carry_out, in, carry_in)` on vectors.  The 8 argument shapes
    (`out`, `carry_out`, `carry_in` each NULL or not; `out = carry_out = NULL` is excluded by an
    assert) compute, lane by lane, the same pair `(y, cout)` as a function of `(in, carry_in)`: the
    shapes only differ in which of the two vectors are stored (the C skips the computation of the
    value it does not store).  The model returns both; the caller stores those whose pointer is
    non-null.  `cin = none` is `carry_in = NULL`. -/
theorem znx_normalize_spec (nn k : Nat) (hk : 1 ≤ k) (hk' : k ≤ 62) (inp : Array Int)
    (cin : Option (Array Int)) (hin : ∀ i, i < nn → Bnd62 (inp.getD i 0))
    (hcin : ∀ v, cin = some v → ∀ i, i < nn → Bnd62 (v.getD i 0)) :
    let r := znxNormalize nn k inp cin
    r.1.size = nn ∧ r.2.size = nn ∧
    ∀ i, i < nn →
      inp.getD i 0 + (cin.map fun v => v.getD i 0).getD 0 = r.1.getD i 0 + r.2.getD i 0 * 2 ^ k ∧
      -2 ^ (k - 1) ≤ r.1.getD i 0 ∧ r.1.getD i 0 < 2 ^ (k - 1) ∧ Bnd62 (r.2.getD i 0) := by
  intro r
  refine ⟨znx_size1 _ _ _ _, znx_size2 _ _ _ _, ?_⟩
  intro i hi
  have e1 : r.1.getD i 0 = (normCoef k (inp.getD i 0) (cin.map fun v => v.getD i 0)).1 := by
    rw [Array.getD_eq_getD_getElem?, znx_fst _ _ _ _ _ hi]; rfl
  have e2 : r.2.getD i 0 = (normCoef k (inp.getD i 0) (cin.map fun v => v.getD i 0)).2 :=
    znx_snd _ _ _ _ _ hi
  rw [e1, e2]
  cases cin with
  | none =>
    have := limb_identity_none k hk hk' _ (hin i hi)
    simp only [Option.map_none, Option.getD_none, add_zero]
    exact ⟨this.1, this.2.1, this.2.2.1, this.2.2.2.2.2⟩
  | some v =>
    have := limb_identity k hk hk' _ _ (hin i hi) (hcin v rfl i hi)
    simp only [Option.map_some, Option.getD_some]
    exact ⟨this.1, this.2.1, this.2.2.1, this.2.2.2.2.2⟩

/-! ### 3. per coefficient: the balanced expansion -/

/-- (a) the specification `balancedDigits` is a balanced expansion of `T = val k as` modulo
    `2^(k·n)`: same length, every digit in `[-2^(k-1), 2^(k-1))`, and
    `Σ r_i 2^(k(n-1-i)) + carry·2^(kn) = Σ a_i 2^(k(n-1-i))` -/
theorem balanced_expansion_value (k : Nat) (hk : 1 ≤ k) (as : List Int) :
    (balancedDigits k as).1.length = as.length ∧
    Balanced k (balancedDigits k as).1 ∧
    val k (balancedDigits k as).1 + (balancedDigits k as).2 * 2 ^ (k * as.length) = val k as :=
  ⟨length_balancedDigits k as, balancedDigits_balanced k hk as, balancedDigits_val k as⟩

/-- (b) uniqueness: any balanced digit list of the same length whose value is congruent to `T`
    modulo `2^(k·n)` is `balancedDigits` -/
theorem balanced_expansion_unique (k : Nat) (hk : 1 ≤ k) (as ds : List Int) (hl : ds.length = as.length)
    (hb : Balanced k ds) (hc : (2 : Int) ^ (k * as.length) ∣ val k as - val k ds) :
    ds = (balancedDigits k as).1 :=
  balancedDigits_unique k hk as ds hl hb hc

/-- (c) the model's per-coefficient chain (`normChain`: least significant limb first without
    carry-in, then every limb with the carry-out of the previous step) computes exactly
    `balancedDigits`, including the carry out of the most significant limb, and all intermediate
    carries stay within `2^62` -/
theorem normalize_coeff_spec (k : Nat) (hk : 1 ≤ k) (hk' : k ≤ 62) (as : List Int)
    (ha : ∀ a ∈ as, Bnd62 a) :
    (normChain k as).1 = (balancedDigits k as).1 ∧
    (normChain k as).2.getD 0 = (balancedDigits k as).2 ∧
    Bnd62 (balancedDigits k as).2 :=
  normChain_eq k hk hk' as ha

/-! ### 4. heap level -/

/-- specified content of output cell `(i, c)`: digit `i` of the balanced expansion of coefficient `c`
    of `a` (all `asz` limbs, so limbs dropped because `i ≥ rsz` still propagate their carry), and 0
    for limbs beyond `asz` -/
def digitCell (k : Nat) (m : Array Int) (a asz asl i c : Nat) : Int :=
  if i < asz then (balancedDigits k (coefLimbs m a asz asl c)).1.getD i 0 else 0

/-- `vec_znx_normalize_base2k_ref`: every `nn`, `k ∈ [1,62]`, every `(rsz, asz)` including 0 and
    `rsz ≠ asz`, every output stride `≥ nn`, `a` either the output itself (same offset and stride) or
    disjoint from it, every heap whose `a` limbs satisfy `|a| ≤ 2^62`:
    value + zero extension + frame.  (`rsz = 0`: the frame clause says the heap is unchanged;
    `asz = 0`: every output cell is 0.) -/
theorem normalize_spec (nn k : Nat) (hk : 1 ≤ k) (hk' : k ≤ 62) (h : Heap Int)
    (res rsz rsl a asz asl : Nat)
    (hsl : nn ≤ rsl) (hres : InBounds nn h.mem.size res rsz rsl)
    (ha : SrcOK nn res rsz rsl a asz asl)
    (hb : ∀ i c, i < asz → c < nn → Bnd62 (h.mem.getD (a + i * asl + c) 0)) :
    let h' := VecZnx.normalize nn k h res rsz rsl a asz asl
    h'.mem.size = h.mem.size ∧
    (∀ i c, i < rsz → c < nn →
      h'.mem[res + i * rsl + c]? = some (digitCell k h.mem a asz asl i c)) ∧
    Frame nn res rsz rsl h.mem h'.mem := by
  intro h'
  obtain ⟨s1, s2, s3, _⟩ := normalize_chain_spec nn k h res rsz rsl a asz asl hsl hres ha
  refine ⟨s1, ?_, s3⟩
  intro i c hi hc
  rw [s2 i c hi hc]
  unfold chainCell digitCell
  split
  · rename_i hia
    have hbnd : ∀ x ∈ limbsFrom h.mem a asl c i (asz - i), Bnd62 x := by
      intro x hx
      simp only [limbsFrom, List.mem_map, List.mem_range'_1] at hx
      obtain ⟨j, hj, rfl⟩ := hx
      exact hb j c (by omega) hc
    rw [(normChain_eq k hk hk' _ hbnd).1, ← limbsFrom_drop, balancedDigits_drop, List.head?_drop,
      List.getD_eq_getElem?_getD, List.getElem?_eq_getElem (by simp [limbsFrom]; exact hia)]
    rfl
  · rfl

/-- bounds: with the `rsz` output limbs and all `asz` input limbs inside the heap (the carry pass
    reads every limb of `a`, also those with `i ≥ rsz`) no access of the model is out of bounds -/
theorem normalize_no_fault (nn k : Nat) (h : Heap Int) (res rsz rsl a asz asl : Nat)
    (hsl : nn ≤ rsl) (hres : InBounds nn h.mem.size res rsz rsl)
    (ha : SrcOK nn res rsz rsl a asz asl) (hab : InBounds nn h.mem.size a asz asl) :
    (VecZnx.normalize nn k h res rsz rsl a asz asl).ok = h.ok :=
  (normalize_chain_spec nn k h res rsz rsl a asz asl hsl hres ha).2.2.2 hab

/-- `res_size = 0`: nothing is read or written (no hypothesis at all) -/
theorem normalize_size0_res (nn k : Nat) (h : Heap Int) (res rsl a asz asl : Nat) :
    VecZnx.normalize nn k h res 0 rsl a asz asl = h := by
  simp [VecZnx.normalize]

/-- `a_size = 0`: the result is zero on all `rsz` limbs -/
theorem normalize_size0_a (nn k : Nat) (hk : 1 ≤ k) (hk' : k ≤ 62) (h : Heap Int) (res rsz rsl a asl : Nat)
    (hsl : nn ≤ rsl) (hres : InBounds nn h.mem.size res rsz rsl) :
    let h' := VecZnx.normalize nn k h res rsz rsl a 0 asl
    (∀ i c, i < rsz → c < nn → h'.mem[res + i * rsl + c]? = some 0) ∧
    Frame nn res rsz rsl h.mem h'.mem ∧ h'.ok = h.ok := by
  intro h'
  have hs : SrcOK nn res rsz rsl a 0 asl := Or.inr (fun i j hi => by omega)
  obtain ⟨_, s2, s3⟩ := normalize_spec nn k hk hk' h res rsz rsl a 0 asl hsl hres hs
    (fun i c hi => by omega)
  refine ⟨?_, s3, normalize_no_fault nn k h res rsz rsl a 0 asl hsl hres hs (fun i hi => by omega)⟩
  intro i c hi hc
  rw [s2 i c hi hc]; simp [digitCell]

/-- `fft64_vec_znx_big_normalize_base2k`: same digits as normalizing the limbs of the big vector
    (stride `nn`); in place (`res = a`, `rsl = nn`) or disjoint -/
theorem big_eq (nn k : Nat) (hk : 1 ≤ k) (hk' : k ≤ 62) (h : Heap Int) (res rsz rsl a asz : Nat)
    (hsl : nn ≤ rsl) (hres : InBounds nn h.mem.size res rsz rsl)
    (ha : SrcOK nn res rsz rsl a asz nn)
    (hb : ∀ i c, i < asz → c < nn → Bnd62 (h.mem.getD (a + i * nn + c) 0)) :
    let h' := VecZnx.bigNormalize nn k h res rsz rsl a asz
    h' = VecZnx.normalize nn k h res rsz rsl a asz nn ∧
    h'.mem.size = h.mem.size ∧
    (∀ i c, i < rsz → c < nn →
      h'.mem[res + i * rsl + c]? = some (digitCell k h.mem a asz nn i c)) ∧
    Frame nn res rsz rsl h.mem h'.mem :=
  ⟨rfl, normalize_spec nn k hk hk' h res rsz rsl a asz nn hsl hres ha hb⟩

/-- limbs `begin, begin+step, …` (`n` of them) of coefficient `c` of the big vector at `a` -/
def rangeLimbs (m : Array Int) (nn a abegin astep n c : Nat) : List Int :=
  (List.range' 0 n).map fun j => m.getD (a + nn * (abegin + j * astep) + c) 0

/-- `fft64_vec_znx_big_range_normalize_base2k`: same digits as normalizing the selected limbs
    `begin, begin+step, … < end` of the big vector.  `1 ≤ step` and `begin ≤ end + step - 1` delimit
    the domain where the wrapper's `uint64_t` size computation `(end + step - 1 - begin) / step`
    neither divides by zero nor wraps (they are not needed by the proof). -/
theorem range_eq (nn k : Nat) (hk : 1 ≤ k) (hk' : k ≤ 62) (h : Heap Int)
    (res rsz rsl a abegin aend astep : Nat) (_hstep : 1 ≤ astep) (_hrange : abegin + 1 ≤ aend + astep)
    (hsl : nn ≤ rsl) (hres : InBounds nn h.mem.size res rsz rsl) :
    let n := (aend + astep - 1 - abegin) / astep
    SrcOK nn res rsz rsl (a + nn * abegin) n (nn * astep) →
    (∀ j c, j < n → c < nn → Bnd62 (h.mem.getD (a + nn * (abegin + j * astep) + c) 0)) →
    let h' := VecZnx.bigRangeNormalize nn k h res rsz rsl a abegin aend astep
    h' = VecZnx.normalize nn k h res rsz rsl (a + nn * abegin) n (nn * astep) ∧
    h'.mem.size = h.mem.size ∧
    (∀ i c, i < rsz → c < nn →
      h'.mem[res + i * rsl + c]? = some (if i < n then
        (balancedDigits k (rangeLimbs h.mem nn a abegin astep n c)).1.getD i 0 else 0)) ∧
    Frame nn res rsz rsl h.mem h'.mem := by
  intro n ha hb h'
  have eidx : ∀ j c, a + nn * abegin + j * (nn * astep) + c = a + nn * (abegin + j * astep) + c := by
    intro j c
    rw [Nat.mul_add, Nat.mul_left_comm j nn astep]; omega
  have hlim : ∀ c, coefLimbs h.mem (a + nn * abegin) n (nn * astep) c
      = rangeLimbs h.mem nn a abegin astep n c := by
    intro c
    simp only [limbsFrom, rangeLimbs, eidx]
  obtain ⟨s1, s2, s3⟩ := normalize_spec nn k hk hk' h res rsz rsl (a + nn * abegin) n (nn * astep)
    hsl hres ha (fun j c hj hc => by rw [eidx]; exact hb j c hj hc)
  refine ⟨rfl, s1, ?_, s3⟩
  intro i c hi hc
  have := s2 i c hi hc
  simp only [digitCell, hlim] at this
  exact this

/-! ### 5. concrete instances: the hypotheses are satisfiable and the digits are the expected ones -/

/-- k = 3, one coefficient with limbs [5, -4, 7] (T = 5·64 - 4·8 + 7 = 295):
    7 = -1 + 1·8;  -4 + 1 = -3 + 0·8;  5 = -3 + 1·8;  digits [-3, -3, -1], carry out 1,
    and indeed -3·64 - 3·8 - 1 + 1·512 = 295 -/
example : balancedDigits 3 [5, -4, 7] = ([-3, -3, -1], 1) := by decide
example : normChain 3 [5, -4, 7] = ([-3, -3, -1], some 1) := by decide
example : val 3 [5, -4, 7] = 295 ∧ val 3 [-3, -3, -1] + 1 * 2 ^ (3 * 3) = 295 := by decide
/-- one step with carry-in: 7 + 1 = 0 + 1·8 -/
example : normCoef 3 7 (some 1) = (0, 1) := by decide
/-- boundary of the domain: k = 62, x = cin = 2^62: 2^63 = 0 + 2·2^62 -/
example : normCoef 62 4611686018427387904 (some 4611686018427387904) = (0, 2) := by decide
/-- maximal carry chain, all digits at the boundary: k = 2, limbs [1, 1, 2]:
    2 = -2 + 1·4;  1 + 1 = -2 + 1·4;  1 + 1 = -2 + 1·4 -/
example : normChain 2 [1, 1, 2] = ([-2, -2, -2], some 1) := by decide

/-- a heap instance of `normalize_spec` (nn = 2, k = 3, out of place, `rsz = 3`, `asz = 3`,
    `rsl = 2`, `asl = 3`): all hypotheses hold -/
example :
    let h : Heap Int := ⟨#[0, 0, 0, 0, 0, 0, 5, 1, 0, -4, 2, 0, 7, 3, 0], true⟩
    (2 ≤ 2) ∧ InBounds 2 h.mem.size 0 3 2 ∧ SrcOK 2 0 3 2 6 3 3 ∧
    (∀ i c, i < 3 → c < 2 → Bnd62 (h.mem.getD (6 + i * 3 + c) 0)) := by
  intro h
  refine ⟨Nat.le_refl _, ?_, ?_, ?_⟩
  · intro i hi; simp [h]; omega
  · right; intro i j hi hj; omega
  · intro i c hi hc
    have : i = 0 ∨ i = 1 ∨ i = 2 := by omega
    have : c = 0 ∨ c = 1 := by omega
    unfold Bnd62
    rcases ‹i = 0 ∨ i = 1 ∨ i = 2› with rfl | rfl | rfl <;> rcases ‹c = 0 ∨ c = 1› with rfl | rfl <;>
      simp [h]

/-- … and the model computes the digits [-3,-3,-1] / [1,2,3] (limb-major), leaving `a` intact -/
example :
    (VecZnx.normalize 2 3 ⟨#[0, 0, 0, 0, 0, 0, 5, 1, 0, -4, 2, 0, 7, 3, 0], true⟩ 0 3 2 6 3 3).mem
      = #[-3, 1, -3, 2, -1, 3, 5, 1, 0, -4, 2, 0, 7, 3, 0] := by decide +kernel

/-- the specified cells of that instance, as `normalize_spec` states them -/
example : (List.range 3).map (fun i => (List.range 2).map fun c =>
      digitCell 3 #[0, 0, 0, 0, 0, 0, 5, 1, 0, -4, 2, 0, 7, 3, 0] 6 3 3 i c)
    = [[-3, 1], [-3, 2], [-1, 3]] := by decide +kernel

/-- range variant: nn = 1, big vector at offset 2 with 6 limbs, range (begin, end, step) = (1, 6, 2)
    selects limbs 1, 3, 5 = [5, -4, 7]; `rsz = 2` -/
example :
    (VecZnx.bigRangeNormalize 1 3 ⟨#[0, 0, 9, 5, 9, -4, 9, 7], true⟩ 0 2 1 2 1 6 2).mem
      = #[-3, -3, 9, 5, 9, -4, 9, 7] ∧
    rangeLimbs #[0, 0, 9, 5, 9, -4, 9, 7] 1 2 1 2 3 0 = [5, -4, 7] := by decide +kernel

/-- in place, `rsz = 2 < asz = 3`: the dropped limb 7 still propagates its carry -/
example :
    (VecZnx.normalize 1 3 ⟨#[5, -4, 7], true⟩ 0 2 1 0 3 1).mem = #[-3, -3, 7] := by decide +kernel

end Spq.C05
