/-
  ModHeap — heap-level refinement of the FFT64 module entry points (C11 / C13 / C18 for the DFT, SVP, VMP paths).

  Model: `Spq/ModuleHeap.lean` — ONE arena of 64-bit cells, C pointers = cell offsets, every access and-ed into
  `ok` (arena bounds, declared scratch byte count, and the aliasing each kernel tolerates).  The stream `mh_arena`
  (harness/mh.cpp) ties that model to the real entry points bit for bit on randomly laid out exactly-sized arenas.

  Each theorem below has the same shape.  Hypotheses: the declared regions lie inside the arena and the C contract's
  disjointness holds (what exactly each function tolerates is in the hypotheses, nothing more is assumed).
  Conclusion, for ALL `nn`, limb counts (0 and unequal included), strides and matrix shapes, for every module
  whose parts map `nn`-cell limbs to `nn`-cell limbs (`Sized`) and every cell codec that reads back what it stored
  (`RoundTrip`; the library's codec `Cells.f64` is the identity on DFT-space patterns):
    * `ok` is unchanged  (C11: no access outside the arena, outside the declared scratch, or with an aliasing
      the kernel does not support; scratch is declared with exactly `*_tmp_bytes(shape)` bytes — `Spq.TmpBytes`
      formulas, tied to the live library by `C11.tmpbytes_current`),
    * the arena keeps its size and every cell outside result (+ scratch) is unchanged  (C18: sources, prepared
      objects, stride padding, gaps; `vec_znx_idft_tmp_a` is the documented exception and says so),
    * the result region holds the functional model's output (`Spq.Module.*`), encoded.
  C13: `vec_znx_idft` with `res == a_dft` satisfies the same equation as out of place, for every size pair.
-/
import SpqProofs.Lemmas.ModHeapSmall
import SpqProofs.Lemmas.ModHeapApplyTop
import SpqProofs.Lemmas.ModHeapSized
import SpqProofs.Lemmas.ModHeapExample
namespace Spq.ModHeap
open Spq Heap ModuleHeap
variable {γ α : Type}

/-- `fft64_vec_znx_dft`: sources = the `min(res_size, a_size)` limbs `a + i*a_sl` (any stride, may overlap each
    other), each inside the arena and disjoint from the result region -/
theorem vec_znx_dft_heap (c : Module.Parts α) (cd : Cells γ α) (hs : Sized c) (hr : RoundTrip cd) (h : Heap γ)
    (res rsz a asz asl : Nat) (hres : res + rsz * c.nn ≤ h.mem.size)
    (hsrc : ∀ i, i < min rsz asz → a + i * asl + c.nn ≤ h.mem.size ∧
      (a + i * asl + c.nn ≤ res ∨ res + rsz * c.nn ≤ a + i * asl)) :
    (vecDft c cd h res rsz a asz asl).ok = h.ok ∧
    (vecDft c cd h res rsz a asz asl).mem.size = h.mem.size ∧
    (∀ x, x < res ∨ res + rsz * c.nn ≤ x → (vecDft c cd h res rsz a asz asl).mem[x]? = h.mem[x]?) ∧
    (vecDft c cd h res rsz a asz asl).mem.extract res (res + rsz * c.nn) =
      (Module.vecDft c rsz (viewI cd h.mem a) asz asl).map cd.enc := by
  obtain ⟨f, v⟩ := vecDft_heap c cd hs hr h res rsz a asz asl hres hsrc
  obtain ⟨a1, a2, a3, a4⟩ := final_form f cd.dflt res (rsz * c.nn) _ hres v
  exact ⟨a1, a2, fun x hx => a3 x (by unfold In; omega), a4⟩

/-- `fft64_vec_znx_idft`, out of place AND in place (`res = adft`), every `(res_size, a_size)`: only the result
    region changes, it holds `vecIdft` of the first `min(res_size, a_size)` limbs of `a_dft` -/
theorem vec_znx_idft_heap (c : Module.Parts α) (cd : Cells γ α) (hs : Sized c) (hr : RoundTrip cd) (h : Heap γ)
    (res rsz adft asz : Nat) (hres : res + rsz * c.nn ≤ h.mem.size)
    (hsrc : adft + min rsz asz * c.nn ≤ h.mem.size)
    (hal : res = adft ∨ adft + min rsz asz * c.nn ≤ res ∨ res + rsz * c.nn ≤ adft) :
    (vecIdft c cd h res rsz adft asz).ok = h.ok ∧
    (vecIdft c cd h res rsz adft asz).mem.size = h.mem.size ∧
    (∀ x, x < res ∨ res + rsz * c.nn ≤ x → (vecIdft c cd h res rsz adft asz).mem[x]? = h.mem[x]?) ∧
    (vecIdft c cd h res rsz adft asz).mem.extract res (res + rsz * c.nn) =
      (Module.vecIdft c rsz (rdD cd h adft (min rsz asz * c.nn)) asz).map cd.encI := by
  obtain ⟨f, v⟩ := vecIdft_heap c cd hs hr h res rsz adft asz hres hsrc hal
  obtain ⟨a1, a2, a3, a4⟩ := final_form f cd.dflt res (rsz * c.nn) _ hres v
  exact ⟨a1, a2, fun x hx => a3 x (by unfold In; omega), a4⟩

/-- C13: running `vec_znx_idft` in place on `a_dft` leaves in `a_dft`'s place exactly the cells the out-of-place
    run leaves in `res`, for every `(res_size, a_size)` (also `res_size > a_size`: zero limbs; `<`: truncation) -/
theorem vec_znx_idft_inplace_eq_outofplace (c : Module.Parts α) (cd : Cells γ α) (hs : Sized c) (hr : RoundTrip cd)
    (h : Heap γ) (res rsz adft asz : Nat) (hres : res + rsz * c.nn ≤ h.mem.size)
    (hin : adft + rsz * c.nn ≤ h.mem.size)
    (hd : adft + min rsz asz * c.nn ≤ res ∨ res + rsz * c.nn ≤ adft) :
    (vecIdft c cd h adft rsz adft asz).ok = (vecIdft c cd h res rsz adft asz).ok ∧
    (vecIdft c cd h adft rsz adft asz).mem.extract adft (adft + rsz * c.nn) =
      (vecIdft c cd h res rsz adft asz).mem.extract res (res + rsz * c.nn) := by
  have hsm := ModuleHeap.mul_le' _ _ c.nn (Nat.min_le_left rsz asz)
  obtain ⟨a1, _, _, a4⟩ := vec_znx_idft_heap c cd hs hr h adft rsz adft asz hin (by omega) (Or.inl rfl)
  obtain ⟨b1, _, _, b4⟩ := vec_znx_idft_heap c cd hs hr h res rsz adft asz hres (by omega) (Or.inr hd)
  exact ⟨a1.trans b1.symm, a4.trans b4.symm⟩

/-- `fft64_vec_znx_idft_tmp_a`: the documented exception to "sources are read-only" — besides the result region the
    `min(res_size, a_size)` limbs of `a_dft` that are used may change (they hold the inverse FFT afterwards), nothing
    else; `res == a_dft` is tolerated as well -/
theorem vec_znx_idft_tmp_a_heap (c : Module.Parts α) (cd : Cells γ α) (hs : Sized c) (hr : RoundTrip cd) (h : Heap γ)
    (res rsz adft asz : Nat) (hres : res + rsz * c.nn ≤ h.mem.size)
    (hsrc : adft + min rsz asz * c.nn ≤ h.mem.size)
    (hal : res = adft ∨ adft + min rsz asz * c.nn ≤ res ∨ res + rsz * c.nn ≤ adft) :
    (vecIdftTmpA c cd h res rsz adft asz).ok = h.ok ∧
    (vecIdftTmpA c cd h res rsz adft asz).mem.size = h.mem.size ∧
    (∀ x, (x < res ∨ res + rsz * c.nn ≤ x) → (x < adft ∨ adft + min rsz asz * c.nn ≤ x) →
      (vecIdftTmpA c cd h res rsz adft asz).mem[x]? = h.mem[x]?) ∧
    (vecIdftTmpA c cd h res rsz adft asz).mem.extract res (res + rsz * c.nn) =
      (Module.vecIdft c rsz (rdD cd h adft (min rsz asz * c.nn)) asz).map cd.encI := by
  obtain ⟨f, v⟩ := vecIdftTmpA_heap c cd hs hr h res rsz adft asz hres hsrc hal
  obtain ⟨a1, a2, a3, a4⟩ := final_form f cd.dflt res (rsz * c.nn) _ hres v
  exact ⟨a1, a2, fun x hx hy => a3 x (by unfold In; omega), a4⟩

/-- `fft64_svp_prepare_ref` -/
theorem svp_prepare_heap (c : Module.Parts α) (cd : Cells γ α) (hs : Sized c) (hr : RoundTrip cd) (h : Heap γ)
    (ppol pol : Nat) (hp : ppol + c.nn ≤ h.mem.size) (hq : pol + c.nn ≤ h.mem.size)
    (hd : pol + c.nn ≤ ppol ∨ ppol + c.nn ≤ pol) :
    (svpPrepare c cd h ppol pol).ok = h.ok ∧
    (svpPrepare c cd h ppol pol).mem.size = h.mem.size ∧
    (∀ x, x < ppol ∨ ppol + c.nn ≤ x → (svpPrepare c cd h ppol pol).mem[x]? = h.mem[x]?) ∧
    (svpPrepare c cd h ppol pol).mem.extract ppol (ppol + c.nn) =
      (Module.svpPrepare c (rdI cd h pol c.nn)).map cd.enc := by
  obtain ⟨f, v⟩ := svpPrepare_heap c cd hs hr h ppol pol hp hq hd
  obtain ⟨a1, a2, a3, a4⟩ := final_form f cd.dflt ppol c.nn _ hp v
  exact ⟨a1, a2, fun x hx => a3 x (by unfold In; omega), a4⟩

/-- `fft64_svp_apply_dft_ref`: the prepared polynomial and the source limbs are disjoint from the result region -/
theorem svp_apply_dft_heap (c : Module.Parts α) (cd : Cells γ α) (hs : Sized c) (hr : RoundTrip cd) (h : Heap γ)
    (res rsz ppol a asz asl : Nat) (hres : res + rsz * c.nn ≤ h.mem.size)
    (hpp : ppol + c.nn ≤ h.mem.size) (hpd : ppol + c.nn ≤ res ∨ res + rsz * c.nn ≤ ppol)
    (hsrc : ∀ i, i < min rsz asz → a + i * asl + c.nn ≤ h.mem.size ∧
      (a + i * asl + c.nn ≤ res ∨ res + rsz * c.nn ≤ a + i * asl)) :
    (svpApply c cd h res rsz ppol a asz asl).ok = h.ok ∧
    (svpApply c cd h res rsz ppol a asz asl).mem.size = h.mem.size ∧
    (∀ x, x < res ∨ res + rsz * c.nn ≤ x → (svpApply c cd h res rsz ppol a asz asl).mem[x]? = h.mem[x]?) ∧
    (svpApply c cd h res rsz ppol a asz asl).mem.extract res (res + rsz * c.nn) =
      (Module.svpApply c rsz (rdD cd h ppol c.nn) (viewI cd h.mem a) asz asl).map cd.enc := by
  obtain ⟨f, v⟩ := svpApply_heap c cd hs hr h res rsz ppol a asz asl hres hpp hpd hsrc
  obtain ⟨a1, a2, a3, a4⟩ := final_form f cd.dflt res (rsz * c.nn) _ hres v
  exact ⟨a1, a2, fun x hx => a3 x (by unfold In; omega), a4⟩

/-- `fft64_znx_small_single_product` with the scratch declared as `znx_small_single_product_tmp_bytes` (or more):
    `ok` stays set (C11: the two transforms at `tmp` and `tmp + nn` fit exactly), only `res` and the `2*nn` scratch
    cells change; `res` may overlap `a` and `b` in any way (they are consumed before `res` is written) -/
theorem znx_small_single_product_heap (c : Module.Parts α) (cd : Cells γ α) (hs : Sized c) (hr : RoundTrip cd)
    (h : Heap γ) (res a b tmp tb : Nat) (htb : smallProductTmpBytes c.nn ≤ tb)
    (ha : a + c.nn ≤ h.mem.size) (hb : b + c.nn ≤ h.mem.size) (hres : res + c.nn ≤ h.mem.size)
    (htmp : tmp + 2 * c.nn ≤ h.mem.size)
    (hda : a + c.nn ≤ tmp ∨ tmp + 2 * c.nn ≤ a) (hdb : b + c.nn ≤ tmp ∨ tmp + 2 * c.nn ≤ b)
    (hdr : res + c.nn ≤ tmp ∨ tmp + 2 * c.nn ≤ res) :
    (smallProduct c cd h res a b tmp tb).ok = h.ok ∧
    (smallProduct c cd h res a b tmp tb).mem.size = h.mem.size ∧
    (∀ x, (x < res ∨ res + c.nn ≤ x) → (x < tmp ∨ tmp + 2 * c.nn ≤ x) →
      (smallProduct c cd h res a b tmp tb).mem[x]? = h.mem[x]?) ∧
    (smallProduct c cd h res a b tmp tb).mem.extract res (res + c.nn) =
      (Module.smallProduct c (rdI cd h a c.nn) (rdI cd h b c.nn)).map cd.encI := by
  have htb' : 8 * (2 * c.nn) ≤ tb := by
    simp only [smallProductTmpBytes, TmpBytes.formula] at htb; omega
  obtain ⟨f, v⟩ := smallProduct_heap c cd hs hr h res a b tmp tb htb' ha hb hres htmp hda hdb hdr
  obtain ⟨a1, a2, a3, a4⟩ := final_form f cd.dflt res c.nn _ hres v
  exact ⟨a1, a2, fun x hx hy => a3 x (by unfold In; omega), a4⟩

/-- `fft64_vmp_prepare_contiguous_{ref,avx}` with the scratch declared as `vmp_prepare_contiguous_tmp_bytes` (or
    more): `ok` stays set, only `pmat` and the `nn` scratch cells change (for `nn < 8` the scratch is not touched at
    all: lemma `vmpPrepare_heap`), `pmat` holds the prepared matrix of the `nrows × ncols` integer matrix at `mat`.
    Module shape: `nn = 2m`, and `4 | m` when `nn ≥ 8` (true for every power of two). -/
theorem vmp_prepare_contiguous_heap (c : Module.Parts α) (cd : Cells γ α) (hs : Sized c) (hr : RoundTrip cd) (h : Heap γ)
    (pmat mat nrows ncols tmp tb : Nat) (hnn : c.nn = 2 * c.m) (hm4 : 8 ≤ c.nn → c.m % 4 = 0)
    (htb : vmpPrepareTmpBytes c.nn ≤ tb)
    (hpm : pmat + c.nn * nrows * ncols ≤ h.mem.size) (hmat : mat + nrows * ncols * c.nn ≤ h.mem.size)
    (htmp : tmp + c.nn ≤ h.mem.size)
    (hd1 : mat + nrows * ncols * c.nn ≤ pmat ∨ pmat + c.nn * nrows * ncols ≤ mat)
    (hd2 : tmp + c.nn ≤ pmat ∨ pmat + c.nn * nrows * ncols ≤ tmp)
    (hd3 : tmp + c.nn ≤ mat ∨ mat + nrows * ncols * c.nn ≤ tmp) :
    (vmpPrepare c cd h pmat mat nrows ncols tmp tb).ok = h.ok ∧
    (vmpPrepare c cd h pmat mat nrows ncols tmp tb).mem.size = h.mem.size ∧
    (∀ x, (x < pmat ∨ pmat + c.nn * nrows * ncols ≤ x) → (x < tmp ∨ tmp + c.nn ≤ x) →
      (vmpPrepare c cd h pmat mat nrows ncols tmp tb).mem[x]? = h.mem[x]?) ∧
    (vmpPrepare c cd h pmat mat nrows ncols tmp tb).mem.extract pmat (pmat + c.nn * nrows * ncols) =
      (Module.vmpPrepare c (rdI cd h mat (nrows * ncols * c.nn)) nrows ncols).map cd.enc := by
  have htb' : 8 * c.nn ≤ tb := by
    simp only [vmpPrepareTmpBytes, TmpBytes.formula] at htb; omega
  obtain ⟨f, v⟩ := vmpPrepare_heap c cd hs hr h pmat mat nrows ncols tmp tb hnn hm4 (fun _ => htb') hpm hmat
    (fun _ => htmp) hd1 (fun _ => ⟨hd2, hd3⟩)
  obtain ⟨a1, a2, a3, a4⟩ := final_form f cd.dflt pmat (c.nn * nrows * ncols) _ hpm v
  exact ⟨a1, a2, fun x hx hy => a3 x (by unfold In; omega), a4⟩

/-- `fft64_vmp_apply_dft_to_dft_{ref,avx}` with the scratch declared as `vmp_apply_dft_to_dft_tmp_bytes(res_size,
    a_size, nrows, ncols)` (or more): `ok` stays set (C11: the 16-cell accumulator and the `8*min(nrows,a_size)`-cell
    extraction buffer fit exactly), only `res` and those scratch cells change; `a_dft` is read on its first
    `min(nrows, a_size)` limbs only, `pmat` on its `nn*nrows*ncols` cells. -/
theorem vmp_apply_dft_to_dft_heap (c : Module.Parts α) (cd : Cells γ α) (hr : RoundTrip cd) (h : Heap γ)
    (res rsz adft asz pmat nrows ncols tmp tb : Nat) (hnn : c.nn = 2 * c.m) (hm4 : 8 ≤ c.nn → c.m % 4 = 0)
    (htb : vmpApplyDftToDftTmpBytes c.nn rsz asz nrows ncols ≤ tb)
    (hres : res + rsz * c.nn ≤ h.mem.size) (hadft : adft + min nrows asz * c.nn ≤ h.mem.size)
    (hpm : pmat + c.nn * nrows * ncols ≤ h.mem.size)
    (htmp : tmp + (16 + 8 * min nrows asz) ≤ h.mem.size)
    (dra : adft + min nrows asz * c.nn ≤ res ∨ res + rsz * c.nn ≤ adft)
    (drp : pmat + c.nn * nrows * ncols ≤ res ∨ res + rsz * c.nn ≤ pmat)
    (drt : tmp + (16 + 8 * min nrows asz) ≤ res ∨ res + rsz * c.nn ≤ tmp)
    (dat : tmp + (16 + 8 * min nrows asz) ≤ adft ∨ adft + min nrows asz * c.nn ≤ tmp)
    (dpt : tmp + (16 + 8 * min nrows asz) ≤ pmat ∨ pmat + c.nn * nrows * ncols ≤ tmp) :
    (vmpApplyDftToDft c cd h res rsz adft asz pmat nrows ncols tmp tb).ok = h.ok ∧
    (vmpApplyDftToDft c cd h res rsz adft asz pmat nrows ncols tmp tb).mem.size = h.mem.size ∧
    (∀ x, (x < res ∨ res + rsz * c.nn ≤ x) → (x < tmp ∨ tmp + (16 + 8 * min nrows asz) ≤ x) →
      (vmpApplyDftToDft c cd h res rsz adft asz pmat nrows ncols tmp tb).mem[x]? = h.mem[x]?) ∧
    (vmpApplyDftToDft c cd h res rsz adft asz pmat nrows ncols tmp tb).mem.extract res (res + rsz * c.nn) =
      (Module.vmpApplyDftToDft c rsz (rdD cd h adft (min nrows asz * c.nn)) asz
        (rdD cd h pmat (c.nn * nrows * ncols)) nrows ncols).map cd.enc := by
  have htb' : 128 + 64 * min nrows asz ≤ tb := by
    simp only [vmpApplyDftToDftTmpBytes, TmpBytes.formula] at htb; omega
  obtain ⟨f, v⟩ := vmpApplyDftToDft_heap c cd hr h res rsz adft asz pmat nrows ncols tmp tb hnn hm4 (fun _ => htb')
    hres hadft hpm dra drp (fun _ => ⟨htmp, drt, dat, dpt⟩)
  obtain ⟨a1, a2, a3, a4⟩ := final_form f cd.dflt res (rsz * c.nn) _ hres v
  exact ⟨a1, a2, fun x hx hy => a3 x (by unfold In; omega), a4⟩

/-- `fft64_vmp_apply_dft_{ref,avx}` with the scratch declared as `vmp_apply_dft_tmp_bytes(res_size, a_size, nrows,
    ncols)` (or more), i.e. `rows*nn + 16 + 8*rows` cells with `rows = min(nrows, a_size)`: `ok` stays set (C11: the
    split of `tmp_space` into the DFT of the input rows and the scratch of `apply_dft_to_dft` fits exactly), only
    `res` and the scratch change, `res` holds `vmpApplyDft` of the integer limbs at `a` and the prepared matrix. -/
theorem vmp_apply_dft_heap (c : Module.Parts α) (cd : Cells γ α) (hs : Sized c) (hr : RoundTrip cd) (h : Heap γ)
    (res rsz a asz asl pmat nrows ncols tmp tb : Nat) (hnn : c.nn = 2 * c.m) (hm4 : 8 ≤ c.nn → c.m % 4 = 0)
    (htb : vmpApplyDftTmpBytes c.nn rsz asz nrows ncols ≤ tb)
    (hres : res + rsz * c.nn ≤ h.mem.size)
    (hpm : pmat + c.nn * nrows * ncols ≤ h.mem.size)
    (htmp : tmp + (min nrows asz * c.nn + 16 + 8 * min nrows asz) ≤ h.mem.size)
    (hsrc : ∀ i, i < min nrows asz → a + i * asl + c.nn ≤ h.mem.size ∧
      (a + i * asl + c.nn ≤ tmp ∨ tmp + (min nrows asz * c.nn + 16 + 8 * min nrows asz) ≤ a + i * asl))
    (drp : pmat + c.nn * nrows * ncols ≤ res ∨ res + rsz * c.nn ≤ pmat)
    (drt : tmp + (min nrows asz * c.nn + 16 + 8 * min nrows asz) ≤ res ∨ res + rsz * c.nn ≤ tmp)
    (dpt : tmp + (min nrows asz * c.nn + 16 + 8 * min nrows asz) ≤ pmat ∨ pmat + c.nn * nrows * ncols ≤ tmp) :
    (vmpApplyDft c cd h res rsz a asz asl pmat nrows ncols tmp tb).ok = h.ok ∧
    (vmpApplyDft c cd h res rsz a asz asl pmat nrows ncols tmp tb).mem.size = h.mem.size ∧
    (∀ x, (x < res ∨ res + rsz * c.nn ≤ x) → (x < tmp ∨ tmp + (min nrows asz * c.nn + 16 + 8 * min nrows asz) ≤ x) →
      (vmpApplyDft c cd h res rsz a asz asl pmat nrows ncols tmp tb).mem[x]? = h.mem[x]?) ∧
    (vmpApplyDft c cd h res rsz a asz asl pmat nrows ncols tmp tb).mem.extract res (res + rsz * c.nn) =
      (Module.vmpApplyDft c rsz (viewI cd h.mem a) asz asl (rdD cd h pmat (c.nn * nrows * ncols)) nrows ncols).map cd.enc := by
  have htb' : 8 * (min nrows asz * c.nn) + 128 + 64 * min nrows asz ≤ tb := by
    simp only [vmpApplyDftTmpBytes, TmpBytes.formula] at htb
    have e : min nrows asz * c.nn * 8 = 8 * (min nrows asz * c.nn) := Nat.mul_comm _ _
    omega
  obtain ⟨f, v⟩ := vmpApplyDft_heap c cd hr hs h res rsz a asz asl pmat nrows ncols tmp tb hnn hm4 htb' hres hpm htmp
    hsrc drp drt dpt
  obtain ⟨a1, a2, a3, a4⟩ := final_form f cd.dflt res (rsz * c.nn) _ hres v
  exact ⟨a1, a2, fun x hx hy => a3 x (by unfold In; omega), a4⟩

/-- The hypotheses on the module and the codec hold for what the library executes: the parts of an FFT64 module
    configuration (`Spq.Module.Cfg.parts`: bit-exact models of the installed conversion / FFT kernels, ANY twiddle
    tables) are `Sized` as soon as `nn` is even and a 4-lane AVX conversion kernel is installed only when `4 | nn`
    (the library installs them for `m ≥ 8` only; `reim_from_znx64_bnd50_fma` would write 4 cells for `nn = 2`), the
    codec `Cells.f64` (64-bit patterns, int64 in two's complement) round-trips, and `nn = 2m`. -/
theorem library_module_hypotheses (cfg : Module.Cfg) (hnn : cfg.nn % 2 = 0)
    (hv : cfg.fromBnd50 = true ∨ cfg.toVariant ≠ Conv.ToZnx64Variant.ref → cfg.nn % 4 = 0 ∧ 0 < cfg.nn) :
    Sized cfg.parts ∧ RoundTrip Cells.f64 ∧ cfg.parts.nn = 2 * cfg.parts.m :=
  ⟨sized_cfg cfg (by omega) hv, roundTrip_f64, by show cfg.nn = 2 * (cfg.nn / 2); omega⟩

/-! ### the hypotheses are satisfiable (toy module with `nn = 8`, arena `toyHeap` of 64 cells) -/

/-- dft: result of 3 limbs at 2, source of 2 limbs with stride 9 at 40 (one zero limb, padding between limbs) -/
example : (vecDft (toyParts 4) Cells.int toyHeap 2 3 40 2 9).ok = true ∧
    (vecDft (toyParts 4) Cells.int toyHeap 2 3 40 2 9).mem[48]? = toyHeap.mem[48]? := by
  obtain ⟨a1, _, a3, _⟩ := vec_znx_dft_heap (toyParts 4) Cells.int (sized_toy 4) roundTrip_int toyHeap 2 3 40 2 9
    (by simp [toy_nn, toyHeap_size]) (by intro i hi; simp [toy_nn, toyHeap_size] at *; omega)
  exact ⟨a1, a3 48 (by simp [toy_nn])⟩

/-- in-place idft with `res_size = 3 > a_size = 2`, and the same out of place at 30 -/
example : (vecIdft (toyParts 4) Cells.int toyHeap 2 3 2 2).mem.extract 2 (2 + 3 * 8) =
    (vecIdft (toyParts 4) Cells.int toyHeap 30 3 2 2).mem.extract 30 (30 + 3 * 8) :=
  (vec_znx_idft_inplace_eq_outofplace (toyParts 4) Cells.int (sized_toy 4) roundTrip_int toyHeap 30 3 2 2
    (by simp [toy_nn, toyHeap_size]) (by simp [toy_nn, toyHeap_size]) (by simp [toy_nn])).2

/-- small product with exactly `tmp_bytes = 128` bytes of scratch at 40, `res == a` -/
example : (smallProduct (toyParts 4) Cells.int toyHeap 3 3 20 40 128).ok = true :=
  (znx_small_single_product_heap (toyParts 4) Cells.int (sized_toy 4) roundTrip_int toyHeap 3 3 20 40 128
    (by simp [toy_nn, smallProductTmpBytes, TmpBytes.formula]) (by simp [toy_nn, toyHeap_size]) (by simp [toy_nn, toyHeap_size])
    (by simp [toy_nn, toyHeap_size]) (by simp [toy_nn, toyHeap_size]) (by simp [toy_nn]) (by simp [toy_nn]) (by simp [toy_nn])).1

/-- vmp_apply_dft_to_dft on a 1 × 2 matrix: pmat at 0, a_dft (1 limb) at 16, res (2 limbs) at 24, exactly
    `tmp_bytes = 128 + 64` bytes of scratch at 40 (the arena ends with it) -/
example : (vmpApplyDftToDft (toyParts 4) Cells.int toyHeap 24 2 16 1 0 1 2 40 192).ok = true :=
  (vmp_apply_dft_to_dft_heap (toyParts 4) Cells.int roundTrip_int toyHeap 24 2 16 1 0 1 2 40 192 (by simp [toy_nn, toy_m])
    (by simp [toy_m]) (by simp [vmpApplyDftToDftTmpBytes, TmpBytes.formula])
    (by simp [toy_nn, toyHeap_size]) (by simp [toy_nn, toyHeap_size]) (by simp [toy_nn, toyHeap_size])
    (by simp [toyHeap_size]) (by simp [toy_nn]) (by simp [toy_nn]) (by simp [toy_nn]) (by simp [toy_nn]) (by simp [toy_nn])).1

/-- the library's module for `nn = 16` with every AVX kernel installed (any tables): in-place idft of 2 limbs in an
    arena of 40 cells keeps `ok` -/
example (ft it : Array Nat) (mem : Array Nat) (hm : mem.size = 40) :
    (vecIdft (avxCfg16 ft it).parts Cells.f64 { mem := mem } 4 2 4 3).ok = true := by
  obtain ⟨hs, hr, _⟩ := library_module_hypotheses (avxCfg16 ft it) (by simp [avxCfg16]) (fun _ => by simp [avxCfg16])
  have e : (avxCfg16 ft it).parts.nn = 16 := rfl
  exact (vec_znx_idft_heap (avxCfg16 ft it).parts Cells.f64 hs hr { mem := mem } 4 2 4 3 (by simp [hm, e])
    (by simp [hm, e]) (Or.inl rfl)).1

end Spq.ModHeap
