/-
  NON-VACUITY WITNESS WITH REAL TWIDDLE FACTORS for the binary64 rounding theorems
  (`C06Err.reim_fft_err`, `reim_ifft_err`, `C01Err.small_product_err_partial`, `small_product_exact_f64_partial`,
  `C02Err.vmp_exact_f64_partial`, `C16Err.roundtrip_exact_f64_partial` and the budgets `RtBudget` / `ProdBudget` of `C16Err`).

  All earlier `example`s instantiate these theorems at `k = 0` (`m = 1`, `N = 2`, `K = ℚ`, `ζ = i`), where the transform has
  no butterfly and the twiddle-accuracy hypotheses `hcs` / `hcsi` are vacuous.  Here: `k = 2`, `m = 4`, `N = 8`, `K = ℝ`,
      `ζ = exp(iπ/8) = cos(π/8) + i·sin(π/8)`  (`zeta`),   `ζi = exp(−iπ/8)`  (`zetai`),
  the tables are the binary64 patterns that `new_reim_fft_precomp(4)` / `new_reim_ifft_precomp(4)` of the library STORE
  (`cN sN cNi sNi`, `witness_tables_k2`), the configuration is the one `new_module_info(8, FFT64)` INSTALLS on an
  AVX2/FMA machine (`libC8`: FMA transforms, FMA pointwise product, plain conversions), and the input is
      `a = 3 − X + 4X² + X³ − 5X⁴ + 9X⁵ + 2X⁶ − 6X⁷`,   `b = 2 + 7X − X² + 8X³ + 2X⁴ − 8X⁵ + X⁶ + 8X⁷`.
  Every hypothesis is discharged — the set {`CfgOk`, twiddle accuracy `3.5u` of BOTH tables, flags, budget} is JOINTLY
  satisfiable at a size with real twiddles:
   * `|ζ| = 1`, `ζ^m = i`, `ζ·ζi = 1`: Mathlib's `Real.cos` / `Real.sin`, de Moivre (`Lemmas/ErrWitnessRoot.lean`);
   * `hcs`, `hcsi`: `cos(π/8) = √(2+√2)/2`, `sin(π/8) = √(2−√2)/2`, `cos(π/4) = sin(π/4) = √2/2` enclosed between
     rationals by squaring; every stored component is within `1u` (measured: `0.44u, 0.56u, 0.16u, 0.09u`), hence every
     pair within `√2·u < 3.5u` (`Lemmas/ErrWitnessTable.lean`).  NOTE: the network of `m = 4` uses the exponents
     `twE = 2, 1, 5`; exponent 5 is not stored (the kernel runs the `i·ω` butterfly on entry 1) but `hcs` asks for it:
     it is satisfied by the virtual entry `(cN 5, sN 5) = (−sN 1, cN 1)`;
   * flags (`hok`, `PipeOk`, `RtOk`): a Boolean-flag copy of the flagged arithmetic (`aOkB`, integer test of
     `NormalRange`) simulates the propositional one, and the Boolean run is evaluated by `decide +kernel`
     (`Lemmas/ErrWitnessFlags.lean`, `ErrWitnessXfer.lean`, `ErrWitnessInst.lean`);
   * budget: `‖a‖₁ = 31`, `‖a‖₂² = 173 ≤ 14²`, `‖b‖₁ = 37`, `‖b‖₂² = 251 ≤ 16²`: `12·3·2^-53·(31·16 + 14·37) < 1/2`.
  The conclusions are cross-checked by evaluating the bit-exact model; the patterns / integers are those the RUNNING
  library returns on this input (`reim_fft_avx2_fma`, `reim_fft_ref`, `fft64_znx_small_single_product`).
-/
import SpqProofs.Lemmas.ErrWitnessInst
import SpqProofs.Lemmas.ErrWitnessProg
import SpqProofs.Lemmas.ErrWitnessVmpInst
import SpqProofs.Properties.C06Err
import SpqProofs.Properties.C01Err
import SpqProofs.Properties.C02Err
import SpqProofs.Properties.C16Err
namespace Spq.ErrWitnessProp
open Finset Spq Spq.Module Spq.Fft Spq.Fft.Alg Spq.Fft.SchedN Spq.FftErr Spq.F64 Spq.ProdErr Spq.Conv Spq.VmpErr
  Spq.ErrWitness Spq.ProgErr

/- elaboration only: the flag hypotheses are projections `(… )[p]!.2` of closed terms; without this the elaborator's
   `whnf` would try to evaluate the whole flagged transform (the kernel does that, inside `decide +kernel`) -/
attribute [local irreducible] reimFftA reimIfftA vmpApplyDftToDft vmpPrepare

/-- **the root**: `ζ = cos(π/8) + i·sin(π/8)` with `|ζ| = 1`, `ζ^4 = i`, `ζi = conj ζ`, `|ζi| = 1`, `ζi^4 = −i`, `ζ·ζi = 1` -/
theorem witness_root_k2 :
    zeta = (⟨Real.cos (Real.pi / 8), Real.sin (Real.pi / 8)⟩ : Cplx ℝ) ∧ nsq zeta = 1 ∧ zeta ^ 2 ^ 2 = Ic ∧
    zetai = (⟨zeta.re, -zeta.im⟩ : Cplx ℝ) ∧ nsq zetai = 1 ∧ zetai ^ 2 ^ 2 = -Ic ∧ zeta * zetai = 1 :=
  ⟨rfl, nsq_zeta, zeta_pow_m, zetai_conj, nsq_zetai, zetai_pow_m, zeta_mul_zetai⟩

/-- **the stored tables**: the tables of the theorems are the patterns the library stores for `m = 4`, and both are
    within `3.5·2^-53` of the exact roots — `hcs` and `hcsi` in exactly the form the theorems require -/
theorem witness_tables_k2 :
    ((reimFftEnts (2 ^ 2)).map (valP cN sN)).toArray =
      #[4604544271217802189, 4604544271217802188, 4606496786581982534, 4600565431771507043] ∧
    ((reimIfftEnts (2 ^ 2)).map (valP cNi sNi)).toArray =
      #[4606496786581982534, 13823937468626282851, 4604544271217802189, 13827916308072577996] ∧
    (∀ ℓ d b, ℓ + d + 1 = 2 → b < 2 ^ ℓ →
      nsq (toC (((val (cN (twE ℓ d b)) : ℚ) : ℝ), ((val (sN (twE ℓ d b)) : ℚ) : ℝ)) - zeta ^ twE ℓ d b) ≤
        (((7 / 2 * u64 : ℚ)) : ℝ) ^ 2) ∧
    (∀ ℓ d b, ℓ + d + 1 = 2 → b < 2 ^ ℓ →
      nsq (toC (((val (cNi (twE ℓ d b)) : ℚ) : ℝ), ((val (sNi (twE ℓ d b)) : ℚ) : ℝ)) - zetai ^ twE ℓ d b) ≤
        (((7 / 2 * u64 : ℚ)) : ℝ) ^ 2) :=
  ⟨tabF_lib, tabI_lib, hcs4, hcsi4⟩

/-- the hypotheses are not vacuous: the exponents really occur (`ℓ + d + 1 = 2`, `b < 2^ℓ`) -/
example : twE 0 1 0 = 2 ∧ twE 1 0 0 = 1 ∧ twE 1 0 1 = 5 := by decide

/-- **the configuration** installed for `N = 8` satisfies `CfgOk` / `VCfgOk` with these tables -/
theorem witness_cfg_k2 : CfgOk libC8 2 cN sN cNi sNi ∧ VCfgOk libC8 2 cN sN cNi sNi := ⟨libCfgOk, libVCfgOk⟩

/-! ### C06Err -/

/-- **`reim_fft_err` at `m = 4`**, both implementations, input `3 − 5i, −1 + 9i, 4 + 2i, 1 − 6i`: NO hypothesis left -/
theorem witness_reim_fft_err_k2 (fma : Bool) :
    (∀ p, p < 2 * 2 ^ 2 →
      Fin64 ((reimFft (if fma then "fma" else "ref") (2 ^ 2) ((reimFftEnts (2 ^ 2)).map (valP cN sN)).toArray exD8)[p]!)) ∧
    ∑ j ∈ range (2 ^ 2),
        nsq (outC (reimFft (if fma then "fma" else "ref") (2 ^ 2) ((reimFftEnts (2 ^ 2)).map (valP cN sN)).toArray exD8) 2 j
          - exactOut zeta 2 exD8 j) ≤
      ((1 + ((8 * u64 : ℚ) : ℝ)) ^ 2 - 1) ^ 2 * ∑ j ∈ range (2 ^ 2), nsq (exactOut zeta 2 exD8 j) :=
  C06Err.reim_fft_err fma 2 zeta nsq_zeta zeta_pow_m cN sN hcs4 exD8 exD8_size (fwd_ok fma)

/-- the property's form of the bound, `8·log2(2m)·2^-53 = 24·2^-53` -/
theorem witness_reim_fft_err_prop_k2 (fma : Bool) :
    ∑ j ∈ range (2 ^ 2),
        nsq (outC (reimFft (if fma then "fma" else "ref") (2 ^ 2) ((reimFftEnts (2 ^ 2)).map (valP cN sN)).toArray exD8) 2 j
          - exactOut zeta 2 exD8 j) ≤
      (((8 * ((2 : ℕ) + 1 : ℚ) * u64 : ℚ)) : ℝ) ^ 2 * ∑ j ∈ range (2 ^ 2), nsq (exactOut zeta 2 exD8 j) :=
  C06Err.reim_fft_err_prop fma 2 (by omega) zeta nsq_zeta zeta_pow_m cN sN hcs4 exD8 exD8_size (fwd_ok fma)

/-- the transform the bound is about, evaluated: the patterns that `reim_fft_avx2_fma` AND `reim_fft_ref` of the library
    return on this input -/
example : reimFft "fma" (2 ^ 2) ((reimFftEnts (2 ^ 2)).map (valP cN sN)).toArray exD8 =
      #[4618410054537187982, 4613614197135054515, 13843748501720723752, 4622320278076434848,
        4618219223757501269, 13843296682171914659, 13849564327500461205, 4607413680280691344] ∧
    reimFft "ref" (2 ^ 2) ((reimFftEnts (2 ^ 2)).map (valP cN sN)).toArray exD8 =
      #[4618410054537187982, 4613614197135054515, 13843748501720723752, 4622320278076434848,
        4618219223757501269, 13843296682171914659, 13849564327500461205, 4607413680280691344] := by
  constructor <;> decide +kernel

/-- **`reim_ifft_err` at `m = 4`**, both implementations, on the DFT-space product `exI8` of the pipeline -/
theorem witness_reim_ifft_err_k2 (fma : Bool) :
    (∀ p, p < 2 * 2 ^ 2 →
      Fin64 ((reimIfft (if fma then "fma" else "ref") (2 ^ 2) ((reimIfftEnts (2 ^ 2)).map (valP cNi sNi)).toArray exI8)[p]!)) ∧
    ∑ j ∈ range (2 ^ 2),
        nsq (outC (reimIfft (if fma then "fma" else "ref") (2 ^ 2) ((reimIfftEnts (2 ^ 2)).map (valP cNi sNi)).toArray exI8) 2 j
          - exactInv zetai 2 exI8 j) ≤
      ((1 + ((8 * u64 : ℚ) : ℝ)) ^ 2 - 1) ^ 2 * ∑ j ∈ range (2 ^ 2), nsq (exactInv zetai 2 exI8 j) :=
  C06Err.reim_ifft_err fma 2 zetai nsq_zetai zetai_pow_m cNi sNi hcsi4 exI8 exI8_size (inv_ok fma)

/-- the input / output of that inverse transform, evaluated (library: `reim_fftvec_mul_fma`, `reim_ifft_avx2_fma`);
    cell 0 of the output is `2^-45` (`≈ 3.6·10^-14`), not `0`: rounding really happens -/
example : exI8 = #[13845397238386677708, 13854275141426580816, 4640059075995002033, 13861199981087373246,
        4635315372556800038, 4627187909523694509, 13870618453242833711, 13862554378290830888] ∧
    reimIfft "fma" (2 ^ 2) ((reimIfftEnts (2 ^ 2)).map (valP cNi sNi)).toArray exI8 =
      #[4405646335475187712, 13868694314999087102, 4646518546795331582, 4646729653027864575,
        13871192405417394176, 13859264903279280124, 4648383318516039680, 13865175877790203903] := by
  constructor <;> decide +kernel

/-! ### C01Err -/

/-- the flags of all four stages hold for this input -/
theorem witness_pipe_ok_k2 : PipeOk libC8 2 cN sN cNi sNi exA8 exB8 := libPipeOk

/-- **`small_product_exact_f64_partial` at `N = 8`**: NO hypothesis left -/
theorem witness_small_product_exact_k2 :
    smallProduct (Cfg.parts libC8) exA8 exB8 = nmul (2 * 2 ^ 2) exA8 exB8 :=
  C01Err.small_product_exact_f64_partial (K := ℝ) libC8 2 (by omega) cN sN cNi sNi libCfgOk zeta zetai nsq_zeta zeta_pow_m
    zeta_mul_zetai hcs4 hcsi4 exA8 exB8 exA8_box exB8_box libPipeOk 14 16 (by norm_num) (by norm_num) exA8_n2 exB8_n2
    (by rw [exB8_n1]; norm_num) ex_budget

/-- both sides evaluated: the bit-exact model returns what the library returns, and it is the negacyclic product -/
example : smallProduct (Cfg.parts libC8) exA8 exB8 = #[0, -94, 111, 114, -131, -22, 147, -54] ∧
    nmul (2 * 2 ^ 2) exA8 exB8 = #[0, -94, 111, 114, -131, -22, 147, -54] := by
  constructor <;> decide +kernel

/-- **`small_product_err_partial` at `N = 8`** (the error form; `Bv ref = 2^63`): NO hypothesis left -/
theorem witness_small_product_err_k2 :
    ∀ i, i < 2 * 2 ^ 2 → ∃ r : ℤ, (smallProduct (Cfg.parts libC8) exA8 exB8)[i]? = some r ∧
      |(r : ℝ) - (((nmul (2 * 2 ^ 2) exA8 exB8).getD i 0 : Int) : ℝ)| ≤
        ((12 * ((2 : ℕ) + 1 : ℚ) * u64 : ℚ) : ℝ) *
          ((∑ t ∈ range (2 * 2 ^ 2), |((exA8.getD t 0 : Int) : ℝ)|) * 16 + 14 * ∑ t ∈ range (2 * 2 ^ 2), |((exB8.getD t 0 : Int) : ℝ)|)
        + 1 / 2 :=
  C01Err.small_product_err_partial (K := ℝ) libC8 2 (by omega) cN sN cNi sNi libCfgOk zeta zetai nsq_zeta zeta_pow_m
    zeta_mul_zetai hcs4 hcsi4 exA8 exB8 exA8_box exB8_box libPipeOk 14 16 (by norm_num) (by norm_num) exA8_n2 exB8_n2
    (by rw [exB8_n1]; norm_num) ex_outdom

/-! ### C02Err -/

/-- the flags of the `2 × 1` vector-matrix product (two limbs, two entries, accumulation, inverse transform) -/
theorem witness_vmp_ok_k2 : VmpOk libC8 2 cN sN cNi sNi exMat 2 1 exVec 2 8 1 0 := libVmpOk

/-- **`vmp_exact_f64_partial` at `N = 8`**, `2 × 1` matrix (two rows accumulate; 1-column AVX2 kernel): NO hypothesis left -/
theorem witness_vmp_exact_k2 :
    dlimb (vecIdft (Cfg.parts libC8) 1
        (vmpApplyDft (Cfg.parts libC8) 1 exVec 2 8 (vmpPrepare (Cfg.parts libC8) exMat 2 1) 2 1) 1) 0 (2 * 2 ^ 2) =
      isum (2 * 2 ^ 2) (min 2 2)
        (fun i => nmul (2 * 2 ^ 2) (limbOf exVec i 8 (2 * 2 ^ 2)) (matEntry exMat 1 (2 * 2 ^ 2) i 0)) :=
  C02Err.vmp_exact_f64_partial (K := ℝ) libC8 2 (by omega) cN sN cNi sNi libVCfgOk zeta zetai nsq_zeta zeta_pow_m
    zeta_mul_zetai hcs4 hcsi4 exMat 2 1 exVec 2 8 1 1 (by decide) exVec_box exMat_box 0 (by decide) (by decide)
    (fun h => absurd h (by decide)) libVmpOk exNa exNb exNa_nonneg exNb_nonneg exVec_n2 exMat_n2 exMat_nl exVmp_budget

/-- both sides evaluated: the model returns what the library returns (`vmp_prepare_contiguous`, `vmp_apply_dft`,
    `vec_znx_idft`), and it is `a₀ ⊛ M₀₀ + a₁ ⊛ M₁₀` -/
example : vecIdft (Cfg.parts libC8) 1
      (vmpApplyDft (Cfg.parts libC8) 1 exVec 2 8 (vmpPrepare (Cfg.parts libC8) exMat 2 1) 2 1) 1 =
      #[84, -123, 131, 175, -189, -31, 169, -1] ∧
    isum (2 * 2 ^ 2) (min 2 2)
        (fun i => nmul (2 * 2 ^ 2) (limbOf exVec i 8 (2 * 2 ^ 2)) (matEntry exMat 1 (2 * 2 ^ 2) i 0)) =
      #[84, -123, 131, 175, -189, -31, 169, -1] := by
  constructor <;> decide +kernel

/-! ### C16Err -/

/-- the binary64 module of `N = 8` as an `F64Mod ℝ` (root, tables, accuracy bundled) with the round-trip budget of `a`
    and the product budget of `(a, b)` -/
theorem witness_budgets_k2 : libMod8.k = 2 ∧ libMod8.c = libC8 ∧ RtBudget libMod8 exA8 ∧ ProdBudget libMod8 exA8 exB8 :=
  ⟨rfl, rfl, libRtBudget, libProdBudget⟩

/-- **`roundtrip_exact_f64_partial` at `N = 8`**: `toZnx (ifft (fft (fromZnx a))) = a`, NO hypothesis left -/
theorem witness_roundtrip_exact_k2 :
    libMod8.parts.toZnx (libMod8.parts.ifft (libMod8.parts.fft (libMod8.parts.fromZnx exA8))) = firstN libMod8.N exA8 :=
  C16Err.roundtrip_exact_f64_partial libMod8 exA8 libRtBudget

example : libMod8.parts.toZnx (libMod8.parts.ifft (libMod8.parts.fft (libMod8.parts.fromZnx exA8))) =
    #[3, -1, 4, 1, -5, 9, 2, -6] := by decide +kernel

end Spq.ErrWitnessProp
