/-
  C11 — memory contract: declared extents and *_tmp_bytes scratch are never exceeded.

  Index logic that is proved (all shapes, including zero limb counts):
   * `vec_ops_no_fault`: for every limb-vector operation of the model, if the declared extents
     (`rsz` output limbs, the first `min(size, rsz)` limbs of each source — all `asz` limbs for the
     normalisation, whose carry pass reads every input limb) lie inside the heap, then no access of the
     model is outside it (the model's out-of-bounds flag stays clear); together with the C18 frame theorems
     (only the `nn` coefficients of the first `rsz` output limbs can change) this is "reads only the declared
     extent of its inputs, writes only the declared extent of its outputs".
   * `normalize_scratch_fits`: the only scratch the normalisation uses is one carry limb (`nn` cells), which is
     what `vec_znx_normalize_base2k_tmp_bytes` returns; the model keeps the carry as a local value, so by
     construction no result depends on the previous content of scratch or output (see also C15 `*_pure`).
   * `tmpbytes_current` (Gen obligation): the size formulas of `Spq.TmpBytes` equal the values returned by
     the LIVE `*_tmp_bytes` / `bytes_of_*` functions of the library built from the current tree, over a shape box.
  Runtime residue (NOT theorems — observed by the AddressSanitizer/UBSan/LeakSanitizer build on heap buffers of
  exactly the declared size): out-of-bounds accesses inside the float kernels and asm leaves, allocation/free
  pairing of new_*/delete_*, alignment (all loads are unaligned loads), the table allocators' overflow abort.
-/
import SpqProofs.Properties.C08
import SpqProofs.Properties.C05
import Spq.TmpBytes
import Gen.TmpBytes
namespace Spq.C11
open Spq Heap C08
variable {α : Type}

/-- no out-of-bounds access for any vec_znx operation whose declared extents are inside the heap -/
theorem vec_ops_no_fault (o : Ops α) (nn : Nat) (p : Int) (h : Heap α) (res rsz rsl a asz asl b bsz bsl : Nat)
    (hres : InBounds nn h.mem.size res rsz rsl)
    (ha : InBounds nn h.mem.size a (min asz rsz) asl) (hb : InBounds nn h.mem.size b (min bsz rsz) bsl) :
    (VecZnx.zero o nn h res rsz rsl).ok = h.ok ∧
    (VecZnx.copy o nn h res rsz rsl a asz asl).ok = h.ok ∧
    (VecZnx.negate o nn h res rsz rsl a asz asl).ok = h.ok ∧
    (VecZnx.add o nn h res rsz rsl a asz asl b bsz bsl).ok = h.ok ∧
    (VecZnx.sub o nn h res rsz rsl a asz asl b bsz bsl).ok = h.ok ∧
    (VecZnx.rotate o nn p h res rsz rsl a asz asl).ok = h.ok ∧
    (VecZnx.automorphism o nn p h res rsz rsl a asz asl).ok = h.ok :=
  ⟨zero_no_fault o nn h res rsz rsl hres,
   copy_no_fault o nn h res rsz rsl a asz asl hres ha,
   negate_no_fault o nn h res rsz rsl a asz asl hres ha,
   add_no_fault o nn h res rsz rsl a asz asl b bsz bsl hres ha hb,
   sub_no_fault o nn h res rsz rsl a asz asl b bsz bsl hres ha hb,
   rotate_no_fault o nn p h res rsz rsl a asz asl hres ha,
   automorphism_no_fault o nn p h res rsz rsl a asz asl hres ha⟩

/-- zero limb counts: with `rsz = 0` nothing at all is accessed or changed, whatever the other arguments -/
theorem zero_res_size_touches_nothing (o : Ops α) (nn : Nat) (h : Heap α) (res rsl a asz asl b bsz bsl : Nat) :
    VecZnx.add o nn h res 0 rsl a asz asl b bsz bsl = h ∧
    VecZnx.copy o nn h res 0 rsl a asz asl = h := by
  refine ⟨?_, ?_⟩
  · unfold VecZnx.add; split <;> simp [forLimbs]
  · simp [VecZnx.copy, forLimbs]

/-- normalisation: all `asz` input limbs are read (carry pass), all `rsz` output limbs written; with both
    inside the heap no access is out of bounds; `rsz = 0` touches nothing (also when `asz = 0`: zeros only) -/
theorem normalize_no_fault (nn k : Nat) (h : Heap Int) (res rsz rsl a asz asl : Nat)
    (hsl : nn ≤ rsl) (hres : InBounds nn h.mem.size res rsz rsl)
    (ha : SrcOK nn res rsz rsl a asz asl) (hab : InBounds nn h.mem.size a asz asl) :
    (VecZnx.normalize nn k h res rsz rsl a asz asl).ok = h.ok ∧
    VecZnx.normalize nn k h res 0 rsl a asz asl = h :=
  ⟨C05.normalize_no_fault nn k h res rsz rsl a asz asl hsl hres ha hab,
   C05.normalize_size0_res nn k h res rsl a asz asl⟩

/-- the scratch requirement of the normalisation is one carry limb -/
theorem normalize_scratch_fits (ty nn : Nat) :
    TmpBytes.formula 1 ty nn 0 0 0 0 = 8 * nn ∧ TmpBytes.formula 2 ty nn 0 0 0 0 = 8 * nn ∧
    TmpBytes.formula 3 ty nn 0 0 0 0 = 8 * nn := by
  simp [TmpBytes.formula, Nat.mul_comm]

def rowOK (r : List Nat) : Bool :=
  match r with
  | [fn, ty, nn, a1, a2, a3, a4, v] => TmpBytes.formula fn ty nn a1 a2 a3 a4 == v
  | _ => false

/-- Gen obligation: the size formulas equal the live library values -/
theorem tmpbytes_current : Gen.TmpBytes.rows.all rowOK = true := by decide +kernel

/-- the table is not empty and covers the vmp scratch formula (non-vacuity) -/
theorem tmpbytes_nonvacuous : (Gen.TmpBytes.rows.length ≥ 100 ∧
    (Gen.TmpBytes.rows.any fun r => r.head? == some 10 && r.getLast? != some 0)) = true := by decide +kernel

end Spq.C11
