/-
  ErrWitness2 — non-vacuity of the metric-invariant theorems of C16Err2 at a size with real twiddles: N = 8 (m = 4), K = ℝ,
  the library's stored table patterns and installed configuration (`libMod8` of ErrWitness).  A PRODUCT OF A PRODUCT:
  P0 = exA8 ⊛ exB8 (DFT-space product of the pipeline), then `vmp_apply_dft_to_dft` with the 1×1 matrix (exC8), then the
  inverse transform: the binary64 result is exactly Q0 = (exA8 ⊛ exB8) ⊛ exC8, obtained from
  `C16Err2.idft_of_metric_f64_partial` with no hypothesis left, and cross-checked by evaluation.
-/
import SpqProofs.Lemmas.ErrWitnessChain
namespace Spq.ErrWitness2
open Spq Spq.Module Spq.ErrWitness Spq.ErrWitnessChain

/-- the metric representation of the svp-product (first product) with its budget -/
theorem witness_metric_rep_first_product_k2 : ProgErr2.MetricRep libMod8 PV 1 exI8 (fun _ => d0) := rep0

/-- the second product (`vmp_apply_dft_to_dft` on the output of the first) keeps a metric representation -/
theorem witness_metric_rep_second_product_k2 :
    ProgErr2.MetricRep libMod8 (Prog.Val.mk libMod8.N 1 (Prog.vmpVal libMod8.N 1 (Prog.zext 1 fun i t => PV.coef i t) MV 1 1)) 1
      (vmpApplyDftToDft libMod8.parts 1 exI8 1 (vmpPrepare libMod8.parts (ProgErr.matOf libMod8 MV 1 1) 1 1) 1 1) d1 := rep1

/-- THE CHAIN: the inverse transform of the product of a product is the exact integer polynomial -/
theorem witness_product_of_product_exact_k2 :
    libMod8.parts.toZnx (libMod8.parts.ifft (dlimb R1 0 libMod8.N)) = Q0 := chain_exact

example : libMod8.parts.toZnx (libMod8.parts.ifft (dlimb R1 0 libMod8.N)) = Q0 := by decide +kernel
example : nmul 8 (nmul 8 exA8 exB8) exC8 = Q0 := by decide +kernel

end Spq.ErrWitness2
