/-
  C03 — NTT120 transform is an exact, invertible negacyclic transform on all 64-bit data (q120 NTT/iNTT part).

  Property theorems only (helper lemmas are in SpqProofs/Lemmas/Ntt*.lean, C04Ntt.lean).

  Objects.  `nttLane k levels R tbl x` / `inttLane …` are the model of ONE 64-bit lane of
  `q120_ntt_bb_avx2` / `q120_intt_bb_avx2` for `n = 2^k` (wrapped 64-bit arithmetic, `mul_epu32` truncation,
  mixed level-by-level / block-by-block schedule), taking the per-level metadata, the reduction metadata and
  the twiddle table as inputs.  `Gen.nttMeta k j`, `Gen.inttMeta k j` are lane `j` of the metadata extracted
  from the live precomp objects on every run; `tableFwd`, `tableInv` are the model of the integer part of the
  precomputation (compared exhaustively with the real tables by the stream `qn_tables`).
  `exNtt w k`, `exIntt v ninv k` are the exact transforms over `ZMod q`:
     exNtt:  twist `g_i ↦ g_i w^i`, then DIF levels `nn = 2^k … 2`, `(a, b) ↦ (a + b, (a - b) w^(j·2n/nn))`
             (no permutation: the output is in bit-reversed order);
     exIntt: DIT levels `nn = 2 … 2^k`, `(a, b) ↦ (a + b v^(j·2n/nn), a - b v^(j·2n/nn))`, then `g_i ↦ g_i v^i n^-1`.
-/
import SpqProofs.Lemmas.C04Ntt

namespace Spq.C03
open Spq.Q120Ntt Finset

/-- **(1) the mixed schedule equals the plain level-by-level schedule** (`levelPass` distributes over blocks):
    for every `n = 2^k`, every split point `2^ks ≤ n` (the code uses `min(n, CHANGE_MODE_N)`), every metadata,
    every table and every vector of `n` cells, forward and inverse.  In particular the result does not depend on
    `CHANGE_MODE_N`. -/
theorem sched_eq_rec (ks k : Nat) (hks : ks ≤ k) (levels : Array Level) (R : Reduc) (tbl x : Array Nat)
    (hx : x.size = 2 ^ k) :
    nttLaneS ks k levels R tbl x = nttPlain k levels R tbl x ∧
    inttLaneS ks k levels R tbl x = inttPlain k levels R tbl x :=
  ⟨nttLaneS_eq_plain ks k hks levels R tbl x hx, inttLaneS_eq_plain ks k hks levels R tbl x hx⟩

/-- the drivers' own split point -/
theorem sched_eq_rec_driver (k : Nat) (levels : Array Level) (R : Reduc) (tbl x : Array Nat) (hx : x.size = 2 ^ k) :
    nttLane k levels R tbl x = nttPlain k levels R tbl x ∧ inttLane k levels R tbl x = inttPlain k levels R tbl x :=
  sched_eq_rec _ k (Nat.min_le_left _ _) levels R tbl x hx

/-- **(2a) refinement, forward**: for every `n = 2^k`, `1 ≤ k ≤ 16`, every lane `j`, every vector of 64-bit
    words, every output word of the model run on the REAL metadata is congruent mod `q_j` to the exact
    transform `exNtt` of the input residues, with root `w = OMEGA_j^(2^16/n)`. -/
theorem ntt_refines (k j : Nat) (hk1 : 1 ≤ k) (hk : k ≤ 16) (hj : j < 4)
    (x : Array Nat) (hx : x.size = 2 ^ k) (hlt : ∀ i < 2 ^ k, rd x i < W64) :
    let M := Gen.nttMeta k j
    ∀ i < 2 ^ k,
      ((rd (nttLane k M.levels M.R (tableFwd M.q M.Ω k M.levels) x) i : Nat) : ZMod M.q)
        = exNtt ((omegaN M.q M.Ω k : Nat) : ZMod M.q) k (fun t => ((rd x t : Nat) : ZMod M.q)) i :=
  fun i hi => ((ntt_nowrap k j hk1 hk hj x hx hlt).2 i hi).2

/-- **(2b) refinement, inverse**: same for `q120_intt_bb_avx2` and `exIntt` with `v = w^-1`, `ninv = n^-1`. -/
theorem intt_refines (k j : Nat) (hk1 : 1 ≤ k) (hk : k ≤ 16) (hj : j < 4)
    (x : Array Nat) (hx : x.size = 2 ^ k) (hlt : ∀ i < 2 ^ k, rd x i < W64) :
    let M := Gen.inttMeta k j
    ∀ i < 2 ^ k,
      ((rd (inttLane k M.levels M.R (tableInv M.q M.Ω k M.levels) x) i : Nat) : ZMod M.q)
        = exIntt ((modqPow (omegaN M.q M.Ω k) (-1) M.q : Nat) : ZMod M.q)
            ((modqPow (2 ^ k) (-1) M.q : Nat) : ZMod M.q) k (fun t => ((rd x t : Nat) : ZMod M.q)) i :=
  fun i hi => ((intt_nowrap k j hk1 hk hj x hx hlt).2 i hi).2

/-- **(2c) the exact transforms are inverse of each other** whenever `w v = 1` and `2^k ninv = 1`
    (any modulus, any `k`): each DIT level undoes the DIF level of the same size up to the factor 2. -/
theorem dit_dif {q : Nat} (w v ninv : ZMod q) (k : Nat) (hwv : w * v = 1) (hn : (2 : ZMod q) ^ k * ninv = 1)
    (g : Nat → ZMod q) : exIntt v ninv k (exNtt w k g) = g :=
  exIntt_exNtt w v ninv k hwv hn g

/-- **(2d) round trip on all 64-bit data**: for every `n = 2^k`, `0 ≤ k ≤ 16`, every lane `j` and EVERY
    vector of 64-bit words `x`,  `intt (ntt x) ≡ x (mod q_j)` cell by cell, where both transforms run on the
    metadata of the real precomp objects and on the model's tables. -/
theorem roundtrip (k j : Nat) (hk : k ≤ 16) (hj : j < 4)
    (x : Array Nat) (hx : x.size = 2 ^ k) (hlt : ∀ i < 2 ^ k, rd x i < W64) :
    let F := Gen.nttMeta k j
    let I := Gen.inttMeta k j
    ∀ i < 2 ^ k,
      rd (inttLane k I.levels I.R (tableInv I.q I.Ω k I.levels)
            (nttLane k F.levels F.R (tableFwd F.q F.Ω k F.levels) x)) i % F.q = rd x i % F.q := by
  intro F I i hi
  rcases Nat.eq_zero_or_pos k with h0 | hpos
  · subst h0
    simp [nttLane, nttLaneS, inttLane, inttLaneS]
  · obtain ⟨cF, cI, cR, eq, eΩ, _⟩ := cert_current k j hpos hk hj
    obtain ⟨hq, BF, hcF, hBF⟩ := certBound_spec cF
    obtain ⟨_, BI, hcI, _⟩ := certBound_spec cI
    simp only [rootsOK, Bool.and_eq_true, decide_eq_true_eq] at cR
    show rd (inttLane k I.levels I.R (tableInv I.q I.Ω k I.levels) _) i % F.q = _
    rw [show I.q = F.q from eq, show I.Ω = F.Ω from eΩ]
    rw [show I.q = F.q from eq] at hcI
    exact roundtrip_lane F.q F.Ω k hq (by omega) F.levels I.levels F.R I.R BF BI hcF hBF hcI cR.1 cR.2 x hx hlt i hi

/-- **(3) linearity mod q_j**: for every `n = 2^k`, `1 ≤ k ≤ 16`, lane `j`, scalar `a` and 64-bit vectors
    `x y z` with `z ≡ a·x + y (mod q_j)` cell by cell:  `ntt z ≡ a·ntt x + ntt y (mod q_j)` cell by cell. -/
theorem ntt_linear (k j : Nat) (hk1 : 1 ≤ k) (hk : k ≤ 16) (hj : j < 4) (a : Nat)
    (x y z : Array Nat) (hx : x.size = 2 ^ k) (hy : y.size = 2 ^ k) (hz : z.size = 2 ^ k)
    (hxl : ∀ i < 2 ^ k, rd x i < W64) (hyl : ∀ i < 2 ^ k, rd y i < W64) (hzl : ∀ i < 2 ^ k, rd z i < W64) :
    let M := Gen.nttMeta k j
    let ntt := fun v => nttLane k M.levels M.R (tableFwd M.q M.Ω k M.levels) v
    (∀ i < 2 ^ k, rd z i % M.q = (a * rd x i + rd y i) % M.q) →
    ∀ i < 2 ^ k, rd (ntt z) i % M.q = (a * rd (ntt x) i + rd (ntt y) i) % M.q := by
  intro M ntt hlin
  obtain ⟨hq, B', hc, _⟩ := certBound_spec (cert_current k j hk1 hk hj).1
  exact linear_lane M.q M.Ω k hq (by omega) M.levels M.R B' hc a x y z hx hy hz hxl hyl hzl hlin

/-- **(4a) evaluation form**: for every `n = 2^k`, `1 ≤ k ≤ 16`, lane `j`, every 64-bit vector `x`, output cell
    `p` of the forward transform is congruent mod `q_j` to the value of the input polynomial `Σ x_i X^i` at
    `w^(2·brev_k(p)+1)`, `w = OMEGA_j^(2^16/n)` a primitive `2n`-th root of unity (`w^n = -1`):
    the transform is the evaluation map at the `n` roots of `X^n + 1`, in BIT-REVERSED order (the code has no
    permutation pass). -/
theorem dif_eval (k j : Nat) (hk1 : 1 ≤ k) (hk : k ≤ 16) (hj : j < 4)
    (x : Array Nat) (hx : x.size = 2 ^ k) (hlt : ∀ i < 2 ^ k, rd x i < W64) :
    let M := Gen.nttMeta k j
    let w : ZMod M.q := ((omegaN M.q M.Ω k : Nat) : ZMod M.q)
    w ^ (2 ^ k) = -1 ∧
    ∀ p < 2 ^ k,
      ((rd (nttLane k M.levels M.R (tableFwd M.q M.Ω k M.levels) x) p : Nat) : ZMod M.q)
        = ∑ i ∈ range (2 ^ k), ((rd x i : Nat) : ZMod M.q) * w ^ (i * (2 * brev k p + 1)) := by
  intro M w
  obtain ⟨cF, _, _, _, _, cP⟩ := cert_current k j hk1 hk hj
  obtain ⟨hq, B', hc, _⟩ := certBound_spec cF
  simp only [primOK, decide_eq_true_eq] at cP
  exact ⟨cast_neg_one_of_sqPow hq cP, eval_lane M.q M.Ω k hq (by omega) M.levels M.R B' hc cP x hx hlt⟩

/-- **(4b) convolution theorem**: for every `n = 2^k`, `1 ≤ k ≤ 16`, lane `j`, 64-bit vectors `x y p` with
    `p ≡ ntt x ⊙ ntt y (mod q_j)` cell by cell:  `intt p` is, coefficient by coefficient, congruent mod `q_j` to
    the negacyclic product `x·y mod (X^n + 1)` of the input polynomials. -/
theorem ntt_mul (k j : Nat) (hk1 : 1 ≤ k) (hk : k ≤ 16) (hj : j < 4)
    (x y p : Array Nat) (hx : x.size = 2 ^ k) (hy : y.size = 2 ^ k) (hp : p.size = 2 ^ k)
    (hxl : ∀ i < 2 ^ k, rd x i < W64) (hyl : ∀ i < 2 ^ k, rd y i < W64) (hpl : ∀ i < 2 ^ k, rd p i < W64) :
    let F := Gen.nttMeta k j
    let I := Gen.inttMeta k j
    let ntt := fun v => nttLane k F.levels F.R (tableFwd F.q F.Ω k F.levels) v
    (∀ i < 2 ^ k, rd p i % F.q = (rd (ntt x) i * rd (ntt y) i) % F.q) →
    ∀ i < 2 ^ k,
      ((rd (inttLane k I.levels I.R (tableInv I.q I.Ω k I.levels) p) i : Nat) : ZMod F.q)
        = nmul (2 ^ k) (fun t => ((rd x t : Nat) : ZMod F.q)) (fun t => ((rd y t : Nat) : ZMod F.q)) i := by
  intro F I ntt hprod
  obtain ⟨cF, cI, cR, eq, eΩ, cP⟩ := cert_current k j hk1 hk hj
  obtain ⟨hq, BF, hcF, _⟩ := certBound_spec cF
  obtain ⟨_, BI, hcI, _⟩ := certBound_spec cI
  simp only [rootsOK, Bool.and_eq_true, decide_eq_true_eq] at cR
  simp only [primOK, decide_eq_true_eq] at cP
  rw [show I.q = F.q from eq, show I.Ω = F.Ω from eΩ]
  rw [show I.q = F.q from eq] at hcI
  exact mul_lane F.q F.Ω k hq (by omega) F.levels I.levels F.R I.R BF BI hcF hcI cR.1 cR.2 cP x y p hx hy hp
    hxl hyl hpl hprod

/-! ### the hypotheses are satisfiable / the statements are not vacuous -/

/-- a concrete lane: n = 4, lane 0, the all-ones vector; the model's round trip gives back `2^64-1 mod q` -/
example :
    let F := Gen.nttMeta 2 0
    let I := Gen.inttMeta 2 0
    let x : Array Nat := #[W64 - 1, W64 - 1, W64 - 1, W64 - 1]
    (inttLane 2 I.levels I.R (tableInv I.q I.Ω 2 I.levels)
        (nttLane 2 F.levels F.R (tableFwd F.q F.Ω 2 F.levels) x)).map (· % F.q) = x.map (· % F.q)
    ∧ nttLane 2 F.levels F.R (tableFwd F.q F.Ω 2 F.levels) x ≠ x := by
  decide +kernel

/-- the certificate is not vacuous: halving the `q2bs` offset of one level of the real metadata is rejected -/
example :
    let M := Gen.nttMeta 4 0
    let bad := M.levels.modify 2 fun L => { L with q2bs := L.q2bs / 2 }
    certFwdOK M 4 = true ∧ certFwdOK { M with levels := bad } 4 = false := by
  decide +kernel

/-- the split point changes the order of the work, not the result: n = 8, lane 2, split at 2 / 4 / 8 -/
example :
    let M := Gen.nttMeta 3 2
    let tbl := tableFwd M.q M.Ω 3 M.levels
    let x : Array Nat := #[1, W64 - 1, 5, 0, 2 ^ 63, 7, W64 - 2, 3]
    nttLaneS 1 3 M.levels M.R tbl x = nttLaneS 3 3 M.levels M.R tbl x ∧
    nttLaneS 2 3 M.levels M.R tbl x = nttLaneS 3 3 M.levels M.R tbl x := by
  decide +kernel

/-- evaluation form on a concrete vector: n = 4, lane 1, output cell 1 is the value at `w^(2·brev_2(1)+1) = w^5` -/
example :
    let M := Gen.nttMeta 2 1
    let x : Array Nat := #[W64 - 1, 12345, 0, 2 ^ 63 + 1]
    let w := omegaN M.q M.Ω 2
    brev 2 1 = 2 ∧
    rd (nttLane 2 M.levels M.R (tableFwd M.q M.Ω 2 M.levels) x) 1 % M.q
      = (rd x 0 + rd x 1 * w ^ 5 + rd x 2 * w ^ 10 + rd x 3 * w ^ 15) % M.q := by
  decide +kernel

end Spq.C03
