/-
  SrcFftvec: the C SOURCE equals the hand-written model, for all inputs — the binary64 pointwise product kernels
  `reim_fftvec_mul_ref` / `reim_fftvec_addmul_ref` of spqlios/reim/reim_fftvec_addmul_ref.c (source tie stage 6).
  Closes the residual of property C13 (in-place = out-of-place) "pointwise products with r==a / r==b at kernel level are
  covered only by a stream": the statements hold for ANY coincidence among the buffer indices `r`, `a`, `b`
  (all distinct, r==a, r==b, a==b, r==a==b) and the result is always the model applied to the ORIGINAL contents of `a`, `b`
  (and `r` for addmul).

  Conventions of the statements (as in `Properties/SrcElem.lean`):
  * `mem : Mem` is the whole memory; pointer parameter `i` is bound to `some (buf, 0)`; the data buffers have EXACTLY `2m` cells;
  * the precomputation object (`REIM_FFTVEC_[ADD]MUL_PRECOMP`: a function pointer, then `int64_t m`) is buffer `p` with at least
    2 cells, cell 1 = `m`; cell 0 (the function pointer) is never read.  `p` may be any buffer (even `r`: `m` is read once,
    before the loop);
  * the model is `Spq.Reim4.reimFftvecMulRef` / `reimFftvecAddmulRef` (`Spq/Reim4.lean`, the reference kernels: separate
    multiplications, subtraction / additions — no fused multiply-add, the file is compiled without -mfma) instantiated with
    `f64Arith` = the binary64 operations of `Spq/F64.lean` on patterns stored as `Int` (`Lemmas/SrcFftvec.lean`,
    `f64Arith_{add,sub,mul}_cast`: it is `F64.arith` on the patterns);
  * `∀ fuel, m ≤ fuel → …`: explicit sufficient fuel (one unit per loop iteration);
  * `src_<f>_no_oob`: for EVERY fuel the run is not an out-of-bounds / null / overlap / ub / unsupported error.
-/
import Gen.CSrc
import Spq.Reim4
import SpqProofs.Lemmas.SrcFftvec
namespace Spq.Src
open Spq Spq.CIR Spq.Reim4

/-! ### `r[i] = re(a_i b_i); r[i+m] = im(a_i b_i)`: any aliasing between `r`, `a`, `b` -/

theorem src_reim_fftvec_mul_ref_eq_model (m : Nat) (hm : 2 * m < 18446744073709551616) (mem : Mem) (p r a b : Nat)
    (hp : 1 < (buf mem p).size) (hpm : (buf mem p).getD 1 0 = (m : Int))
    (hr : (buf mem r).size = 2 * m) (ha : (buf mem a).size = 2 * m) (hb : (buf mem b).size = 2 * m) :
    ∀ fuel, m ≤ fuel →
      run fuel Gen.CSrc.reim_fftvec_mul_ref [] [some (p, 0), some (r, 0), some (a, 0), some (b, 0)] mem
        = .ok (mem.setIfInBounds r (reimFftvecMulRef f64Arith m (buf mem r) (buf mem a) (buf mem b))) := by
  intro fuel hf
  cir_enter Gen.CSrc.reim_fftvec_mul_ref
  rw [exec_seq, exec_assign, eval_cast, eval_precomp_m _ _ _ p rfl hp, hpm]
  have e0 : Ty.wrap .u64 (m : Int) = (m : Int) := by simp only [wrap_u64]; omega
  simp only [R.bind_ok, e0, seqK_norm, lset_zero]
  refine body_for _ 1 _ _ _ _ mem
    (fun k => mem.setIfInBounds r (lanes (0:Int) k (fun i => i) (fun i => i + m)
      (fun i _ => reRef f64Arith ((buf mem a).getD i 0) ((buf mem a).getD (i + m) 0) ((buf mem b).getD i 0) ((buf mem b).getD (i + m) 0))
      (fun i _ => imRef f64Arith ((buf mem a).getD i 0) ((buf mem a).getD (i + m) 0) ((buf mem b).getD i 0) ((buf mem b).getD (i + m) 0))
      (buf mem r)))
    (fun env => env.length = 4 ∧ lget env 0 = (m : Int)) 0 m ?hm0 (Nat.zero_le _) (by omega) ?hK0 ?hKjs ?hKlen ?he0 ?hhiE ?hbody fuel (by omega)
  case hm0 => rw [lanes_zero, set_buf_self]
  case hK0 => exact ⟨rfl, rfl⟩
  case hKjs =>
    intro env v ⟨h1, h2⟩
    exact ⟨by rw [length_lset]; exact h1, by rw [lget_lset_ne _ _ _ _ (by decide)]; exact h2⟩
  case hKlen => intro env ⟨h1, _⟩; omega
  case he0 => rfl
  case hhiE => intro env k ⟨_, h2⟩; rw [eval_var]; exact congrArg R.ok h2
  case hbody =>
    intro env k _ hk ⟨hlen, h0⟩ h1 f
    match env, hlen with
    | [x0, x1, x2, x3], _ =>
    simp only [lget_zero, lget_succ] at h0 h1
    subst h0 h1
    have ek : ((k : Int) + (m : Int)) % 18446744073709551616 = ((k + m : Nat) : Int) := by omega
    simp only [lanes_succ]
    have hAs := size_lanes (0:Int) k (fun i => i) (fun i => i + m)
      (fun i _ => reRef f64Arith ((buf mem a).getD i 0) ((buf mem a).getD (i + m) 0) ((buf mem b).getD i 0) ((buf mem b).getD (i + m) 0))
      (fun i _ => imRef f64Arith ((buf mem a).getD i 0) ((buf mem a).getD (i + m) 0) ((buf mem b).getD i 0) ((buf mem b).getD (i + m) 0))
      (buf mem r)
    have hAk := getD_lanes_untouched (0:Int) k (fun i => i) (fun i => i + m)
      (fun i _ => reRef f64Arith ((buf mem a).getD i 0) ((buf mem a).getD (i + m) 0) ((buf mem b).getD i 0) ((buf mem b).getD (i + m) 0))
      (fun i _ => imRef f64Arith ((buf mem a).getD i 0) ((buf mem a).getD (i + m) 0) ((buf mem b).getD i 0) ((buf mem b).getD (i + m) 0))
      (buf mem r) k (fun i hi => ⟨by show i ≠ k; omega, by show i + m ≠ k; omega⟩)
    have hAkm := getD_lanes_untouched (0:Int) k (fun i => i) (fun i => i + m)
      (fun i _ => reRef f64Arith ((buf mem a).getD i 0) ((buf mem a).getD (i + m) 0) ((buf mem b).getD i 0) ((buf mem b).getD (i + m) 0))
      (fun i _ => imRef f64Arith ((buf mem a).getD i 0) ((buf mem a).getD (i + m) 0) ((buf mem b).getD i 0) ((buf mem b).getD (i + m) 0))
      (buf mem r) (k + m) (fun i hi => ⟨by show i ≠ k + m; omega, by show i + m ≠ k + m; omega⟩)
    generalize lanes (0:Int) k (fun i => i) (fun i => i + m)
      (fun i _ => reRef f64Arith ((buf mem a).getD i 0) ((buf mem a).getD (i + m) 0) ((buf mem b).getD i 0) ((buf mem b).getD (i + m) 0))
      (fun i _ => imRef f64Arith ((buf mem a).getD i 0) ((buf mem a).getD (i + m) 0) ((buf mem b).getD i 0) ((buf mem b).getD (i + m) 0))
      (buf mem r) = A at hAs hAk hAkm ⊢
    refine ⟨[(m : Int), (k : Int),
      reRef f64Arith ((buf mem a).getD k 0) ((buf mem a).getD (k + m) 0) ((buf mem b).getD k 0) ((buf mem b).getD (k + m) 0),
      imRef f64Arith ((buf mem a).getD k 0) ((buf mem a).getD (k + m) 0) ((buf mem b).getD k 0) ((buf mem b).getD (k + m) 0)],
      ?_, ⟨rfl, rfl⟩, rfl⟩
    simp only [ek, exec_seq, exec_assign, exec_store, seqK_norm, eval_bin, eval_load, eval_var, lget_zero, lget_succ, R.bind_ok, evalBin_add_u64,
      List.getD_cons_zero, List.getD_cons_succ,
      load_part mem r a A k hAs (by omega) hAk, load_part mem r a A (k + m) hAs (by omega) hAkm,
      load_part mem r b A k hAs (by omega) hAk, load_part mem r b A (k + m) hAs (by omega) hAkm,
      evalBin_mul_f64, evalBin_sub_f64, evalBin_add_f64, lset_zero, lset_succ]
    rw [store_self mem r A k _ hAs (by omega)]
    simp only [R.bind_ok, seqK_norm, exec_store, eval_bin, eval_var, lget_zero, lget_succ, evalBin_add_u64, ek,
      List.getD_cons_zero, List.getD_cons_succ]
    rw [store_self mem r _ (k + m) _ (by simp only [Array.size_setIfInBounds]; exact hAs) (by omega)]
    rfl

/-! ### `r[i] += re(a_i b_i); r[i+m] += im(a_i b_i)`: any aliasing between `r`, `a`, `b` -/

theorem src_reim_fftvec_addmul_ref_eq_model (m : Nat) (hm : 2 * m < 18446744073709551616) (mem : Mem) (p r a b : Nat)
    (hp : 1 < (buf mem p).size) (hpm : (buf mem p).getD 1 0 = (m : Int))
    (hr : (buf mem r).size = 2 * m) (ha : (buf mem a).size = 2 * m) (hb : (buf mem b).size = 2 * m) :
    ∀ fuel, m ≤ fuel →
      run fuel Gen.CSrc.reim_fftvec_addmul_ref [] [some (p, 0), some (r, 0), some (a, 0), some (b, 0)] mem
        = .ok (mem.setIfInBounds r (reimFftvecAddmulRef f64Arith m (buf mem r) (buf mem a) (buf mem b))) := by
  intro fuel hf
  cir_enter Gen.CSrc.reim_fftvec_addmul_ref
  rw [exec_seq, exec_assign, eval_cast, eval_precomp_m _ _ _ p rfl hp, hpm]
  have e0 : Ty.wrap .u64 (m : Int) = (m : Int) := by simp only [wrap_u64]; omega
  simp only [R.bind_ok, e0, seqK_norm, lset_zero]
  refine body_for _ 1 _ _ _ _ mem
    (fun k => mem.setIfInBounds r (lanes (0:Int) k (fun i => i) (fun i => i + m)
      (fun i old => f64Arith.add old <| reRef f64Arith ((buf mem a).getD i 0) ((buf mem a).getD (i + m) 0) ((buf mem b).getD i 0) ((buf mem b).getD (i + m) 0))
      (fun i old => f64Arith.add old <| imRef f64Arith ((buf mem a).getD i 0) ((buf mem a).getD (i + m) 0) ((buf mem b).getD i 0) ((buf mem b).getD (i + m) 0))
      (buf mem r)))
    (fun env => env.length = 4 ∧ lget env 0 = (m : Int)) 0 m ?hm0 (Nat.zero_le _) (by omega) ?hK0 ?hKjs ?hKlen ?he0 ?hhiE ?hbody fuel (by omega)
  case hm0 => rw [lanes_zero, set_buf_self]
  case hK0 => exact ⟨rfl, rfl⟩
  case hKjs =>
    intro env v ⟨h1, h2⟩
    exact ⟨by rw [length_lset]; exact h1, by rw [lget_lset_ne _ _ _ _ (by decide)]; exact h2⟩
  case hKlen => intro env ⟨h1, _⟩; omega
  case he0 => rfl
  case hhiE => intro env k ⟨_, h2⟩; rw [eval_var]; exact congrArg R.ok h2
  case hbody =>
    intro env k _ hk ⟨hlen, h0⟩ h1 f
    match env, hlen with
    | [x0, x1, x2, x3], _ =>
    simp only [lget_zero, lget_succ] at h0 h1
    subst h0 h1
    have ek : ((k : Int) + (m : Int)) % 18446744073709551616 = ((k + m : Nat) : Int) := by omega
    simp only [lanes_succ]
    have hAs := size_lanes (0:Int) k (fun i => i) (fun i => i + m)
      (fun i old => f64Arith.add old <| reRef f64Arith ((buf mem a).getD i 0) ((buf mem a).getD (i + m) 0) ((buf mem b).getD i 0) ((buf mem b).getD (i + m) 0))
      (fun i old => f64Arith.add old <| imRef f64Arith ((buf mem a).getD i 0) ((buf mem a).getD (i + m) 0) ((buf mem b).getD i 0) ((buf mem b).getD (i + m) 0))
      (buf mem r)
    have hAk := getD_lanes_untouched (0:Int) k (fun i => i) (fun i => i + m)
      (fun i old => f64Arith.add old <| reRef f64Arith ((buf mem a).getD i 0) ((buf mem a).getD (i + m) 0) ((buf mem b).getD i 0) ((buf mem b).getD (i + m) 0))
      (fun i old => f64Arith.add old <| imRef f64Arith ((buf mem a).getD i 0) ((buf mem a).getD (i + m) 0) ((buf mem b).getD i 0) ((buf mem b).getD (i + m) 0))
      (buf mem r) k (fun i hi => ⟨by show i ≠ k; omega, by show i + m ≠ k; omega⟩)
    have hAkm := getD_lanes_untouched (0:Int) k (fun i => i) (fun i => i + m)
      (fun i old => f64Arith.add old <| reRef f64Arith ((buf mem a).getD i 0) ((buf mem a).getD (i + m) 0) ((buf mem b).getD i 0) ((buf mem b).getD (i + m) 0))
      (fun i old => f64Arith.add old <| imRef f64Arith ((buf mem a).getD i 0) ((buf mem a).getD (i + m) 0) ((buf mem b).getD i 0) ((buf mem b).getD (i + m) 0))
      (buf mem r) (k + m) (fun i hi => ⟨by show i ≠ k + m; omega, by show i + m ≠ k + m; omega⟩)
    generalize lanes (0:Int) k (fun i => i) (fun i => i + m)
      (fun i old => f64Arith.add old <| reRef f64Arith ((buf mem a).getD i 0) ((buf mem a).getD (i + m) 0) ((buf mem b).getD i 0) ((buf mem b).getD (i + m) 0))
      (fun i old => f64Arith.add old <| imRef f64Arith ((buf mem a).getD i 0) ((buf mem a).getD (i + m) 0) ((buf mem b).getD i 0) ((buf mem b).getD (i + m) 0))
      (buf mem r) = A at hAs hAk hAkm ⊢
    refine ⟨[(m : Int), (k : Int),
      reRef f64Arith ((buf mem a).getD k 0) ((buf mem a).getD (k + m) 0) ((buf mem b).getD k 0) ((buf mem b).getD (k + m) 0),
      imRef f64Arith ((buf mem a).getD k 0) ((buf mem a).getD (k + m) 0) ((buf mem b).getD k 0) ((buf mem b).getD (k + m) 0)],
      ?_, ⟨rfl, rfl⟩, rfl⟩
    simp only [ek, exec_seq, exec_assign, exec_store, seqK_norm, eval_bin, eval_load, eval_var, lget_zero, lget_succ, R.bind_ok, evalBin_add_u64,
      List.getD_cons_zero, List.getD_cons_succ,
      load_part mem r a A k hAs (by omega) hAk, load_part mem r a A (k + m) hAs (by omega) hAkm,
      load_part mem r b A k hAs (by omega) hAk, load_part mem r b A (k + m) hAs (by omega) hAkm,
      evalBin_mul_f64, evalBin_sub_f64, evalBin_add_f64, lset_zero, lset_succ]
    rw [load_self mem r A k hAs (by omega)]
    simp only [R.bind_ok]
    rw [store_self mem r A k _ hAs (by omega)]
    simp only [R.bind_ok, seqK_norm, exec_store, eval_bin, eval_var, eval_load, lget_zero, lget_succ, evalBin_add_u64, ek,
      List.getD_cons_zero, List.getD_cons_succ]
    rw [load_self mem r _ (k + m) (by simp only [Array.size_setIfInBounds]; exact hAs) (by omega)]
    simp only [R.bind_ok, evalBin_add_f64]
    rw [store_self mem r _ (k + m) _ (by simp only [Array.size_setIfInBounds]; exact hAs) (by omega)]
    rfl

/-! ### the same on buffers of binary64 PATTERNS (`patBuf`: naturals as cells): the result buffer is the model instantiated
    with `F64.arith` (`Spq/Reim4.lean`; the instance the driver family `r4` runs against the compiled code), any aliasing -/

theorem src_reim_fftvec_mul_ref_eq_f64 (m : Nat) (hm : 2 * m < 18446744073709551616) (mem : Mem) (p r a b : Nat)
    (R A B : Array Nat) (hp : 1 < (buf mem p).size) (hpm : (buf mem p).getD 1 0 = (m : Int))
    (hR : buf mem r = patBuf R) (hA : buf mem a = patBuf A) (hB : buf mem b = patBuf B)
    (hr : R.size = 2 * m) (ha : A.size = 2 * m) (hb : B.size = 2 * m) :
    ∀ fuel, m ≤ fuel →
      run fuel Gen.CSrc.reim_fftvec_mul_ref [] [some (p, 0), some (r, 0), some (a, 0), some (b, 0)] mem
        = .ok (mem.setIfInBounds r (patBuf (reimFftvecMulRef F64.arith m R A B))) := by
  intro fuel hf
  rw [src_reim_fftvec_mul_ref_eq_model m hm mem p r a b hp hpm (by rw [hR]; simpa [patBuf] using hr)
    (by rw [hA]; simpa [patBuf] using ha) (by rw [hB]; simpa [patBuf] using hb) fuel hf, hR, hA, hB,
    reimFftvecMulRef_patBuf]

theorem src_reim_fftvec_addmul_ref_eq_f64 (m : Nat) (hm : 2 * m < 18446744073709551616) (mem : Mem) (p r a b : Nat)
    (R A B : Array Nat) (hp : 1 < (buf mem p).size) (hpm : (buf mem p).getD 1 0 = (m : Int))
    (hR : buf mem r = patBuf R) (hA : buf mem a = patBuf A) (hB : buf mem b = patBuf B)
    (hr : R.size = 2 * m) (ha : A.size = 2 * m) (hb : B.size = 2 * m) :
    ∀ fuel, m ≤ fuel →
      run fuel Gen.CSrc.reim_fftvec_addmul_ref [] [some (p, 0), some (r, 0), some (a, 0), some (b, 0)] mem
        = .ok (mem.setIfInBounds r (patBuf (reimFftvecAddmulRef F64.arith m R A B))) := by
  intro fuel hf
  rw [src_reim_fftvec_addmul_ref_eq_model m hm mem p r a b hp hpm (by rw [hR]; simpa [patBuf] using hr)
    (by rw [hA]; simpa [patBuf] using ha) (by rw [hB]; simpa [patBuf] using hb) fuel hf, hR, hA, hB,
    reimFftvecAddmulRef_patBuf]

/-! ### no out-of-bounds access, for every fuel -/

theorem src_reim_fftvec_mul_ref_no_oob (m : Nat) (hm : 2 * m < 18446744073709551616) (mem : Mem) (p r a b : Nat)
    (hp : 1 < (buf mem p).size) (hpm : (buf mem p).getD 1 0 = (m : Int))
    (hr : (buf mem r).size = 2 * m) (ha : (buf mem a).size = 2 * m) (hb : (buf mem b).size = 2 * m) :
    ∀ fuel e, e ≠ .fuel →
      run fuel Gen.CSrc.reim_fftvec_mul_ref [] [some (p, 0), some (r, 0), some (a, 0), some (b, 0)] mem ≠ .err e :=
  run_no_other_error _ _ _ _ _ m (src_reim_fftvec_mul_ref_eq_model m hm mem p r a b hp hpm hr ha hb)

theorem src_reim_fftvec_addmul_ref_no_oob (m : Nat) (hm : 2 * m < 18446744073709551616) (mem : Mem) (p r a b : Nat)
    (hp : 1 < (buf mem p).size) (hpm : (buf mem p).getD 1 0 = (m : Int))
    (hr : (buf mem r).size = 2 * m) (ha : (buf mem a).size = 2 * m) (hb : (buf mem b).size = 2 * m) :
    ∀ fuel e, e ≠ .fuel →
      run fuel Gen.CSrc.reim_fftvec_addmul_ref [] [some (p, 0), some (r, 0), some (a, 0), some (b, 0)] mem ≠ .err e :=
  run_no_other_error _ _ _ _ _ m (src_reim_fftvec_addmul_ref_eq_model m hm mem p r a b hp hpm hr ha hb)

/-! ### non-vacuity: m = 2, in place (`r == a`, and `r == a == b`), concrete memory
    buffer 0 = precomp object (function pointer cell, m = 2); buffer 1 = (1+2i, 2+1i) in split layout; buffer 2 = (1+0i, 0+1i).
    binary64 patterns: 1.0 = 4607182418800017408, 2.0 = 4611686018427387904, 3.0 = 4613937818241073152,
    4.0 = 4616189618054758400, -3.0 = 13837309855095848960 -/

/-- `r == a` (buffer 1), `b` = buffer 2 -/
example :
    let mem : Mem := #[#[140737488355328, 2], #[4607182418800017408, 4611686018427387904, 4611686018427387904, 4607182418800017408],
      #[4607182418800017408, 0, 0, 4607182418800017408]]
    run 2 Gen.CSrc.reim_fftvec_mul_ref [] [some (0, 0), some (1, 0), some (1, 0), some (2, 0)] mem
      = .ok (mem.setIfInBounds 1 (reimFftvecMulRef f64Arith 2 (buf mem 1) (buf mem 1) (buf mem 2))) :=
  src_reim_fftvec_mul_ref_eq_model 2 (by decide) _ 0 1 1 2 (by decide) rfl rfl rfl rfl 2 (Nat.le_refl _)

/-- `r == a == b` (squaring in place): (1+2i)² = -3+4i, (2+i)² = 3+4i, computed by the interpreter on the generated term -/
example :
    run 2 Gen.CSrc.reim_fftvec_mul_ref [] [some (0, 0), some (1, 0), some (1, 0), some (1, 0)]
      #[#[140737488355328, 2], #[4607182418800017408, 4611686018427387904, 4611686018427387904, 4607182418800017408]]
      = .ok #[#[140737488355328, 2], #[13837309855095848960, 4613937818241073152, 4616189618054758400, 4616189618054758400]] := by
  decide +kernel

/-- the pattern form at `r == a`: `R` and `A` are the same array of patterns -/
example :
    let A : Array Nat := #[4607182418800017408, 4611686018427387904, 4611686018427387904, 4607182418800017408]
    let B : Array Nat := #[4607182418800017408, 0, 0, 4607182418800017408]
    let mem : Mem := #[#[140737488355328, 2], patBuf A, patBuf B]
    run 2 Gen.CSrc.reim_fftvec_mul_ref [] [some (0, 0), some (1, 0), some (1, 0), some (2, 0)] mem
      = .ok (mem.setIfInBounds 1 (patBuf (reimFftvecMulRef F64.arith 2 A A B))) :=
  src_reim_fftvec_mul_ref_eq_f64 2 (by decide) _ 0 1 1 2 _ _ _ (by decide) rfl rfl rfl rfl rfl rfl rfl 2 (Nat.le_refl _)

/-- addmul with `r == b`: the theorem applies -/
example :
    let mem : Mem := #[#[140737488355328, 2], #[4607182418800017408, 4611686018427387904, 4611686018427387904, 4607182418800017408],
      #[4607182418800017408, 0, 0, 4607182418800017408]]
    run 2 Gen.CSrc.reim_fftvec_addmul_ref [] [some (0, 0), some (2, 0), some (1, 0), some (2, 0)] mem
      = .ok (mem.setIfInBounds 2 (reimFftvecAddmulRef f64Arith 2 (buf mem 2) (buf mem 1) (buf mem 2))) :=
  src_reim_fftvec_addmul_ref_eq_model 2 (by decide) _ 0 2 1 2 (by decide) rfl rfl rfl rfl 2 (Nat.le_refl _)

end Spq.Src
