/-
  C16 — the BINARY64 side at program level: programs run with the binary64 module `Spq.Module.Cfg.parts` (the instance
  the streams validate bit-exactly against the library) produce exactly the integer limbs of the exact interpreter.

  Property C16 (fixed text; FULL statement, NOT completely proved — see the `_partial` theorems):
    "Any sequence of library operations - coefficient-space add/sub/negate/copy/rotate/automorphism/normalize, DFT,
     scalar and matrix products in DFT space, inverse DFT, big-coefficient arithmetic and final normalization - applied
     to integer polynomial vectors produces exactly the limbs obtained by evaluating the same expression with exact
     integer polynomial arithmetic, as long as every intermediate stays inside the precision budget of its
     representation (C01 for FFT64, 2^119 for NTT120 big coefficients).  Opaque DFT/prepared objects produced by one
     function are therefore valid inputs to every function that accepts them."

  1. DATAFLOW ANALYSIS (`Spq/Prog.lean`, `OpD`).  A `VEC_ZNX_DFT` variable is PRODUCED by `dft`, `svp` (`svp_apply_dft`),
     `vmp` (`vmp_apply_dft`), `vmpDD` (`vmp_apply_dft_to_dft`) and CONSUMED by `idft` and `vmpDD`; `SVP_PPOL` is produced by
     `svpPrepare` and consumed by `svp`; `VMP_PMAT` is produced by `vmpPrepare` and consumed by `vmp` / `vmpDD`.
     The dataflows   dft → idft*,   svpPrepare → svp → idft*,   vmpPrepare → vmp → idft*   (`*`: any number of reads, any
     limb counts, interleaved with arbitrary other calls, prepared objects reused by many products) and the
     self-contained `smallProduct` are covered by the end-to-end theorems of C01Err / C02Err and the round-trip theorem
     below: for programs without `vmpDD` there is NO excluded class (`progD_refines_f64_partial`).
     With `vmpDD` a product can be fed a product (`svp → vmpDD`, `vmp → vmpDD`, `vmpDD → vmpDD`): these are NOT
     covered by the existing end-to-end theorems (they need the error of the first product propagated through the
     second one).  The covered class is named by the decidable predicate `SingleProductDepth` (every `vmpDD` reads a
     RAW transform, i.e. a variable last written by `dft` — the static tag `AState.raw` — and only rows that are
     transforms of input limbs): there `vmp_apply_dft_to_dft (vec_znx_dft a) = vmp_apply_dft a` BIT FOR BIT
     (`vmp_dft_to_dft_raw_f64`), so C02Err applies.  (In EXACT arithmetic products of products are fine:
     `Closed.prog_refines_closed` has no such restriction.)
  2. BUDGET (`ProgErr.PreF`, the per-call `OpBudget`; all on the EXACT state):
       coefficient-space call : C16's `OpPre` (int64 range, `normalize` range, operands declared);
       `dft d a`      : every limb `i < min a.size d.size`: `RtBudget` = box `< 2^50`, flags `RtOk` of its two transforms,
                        `17·log2(N)·2^-53·na < 1/2` for some `na ≥ ‖a_i‖₂`;
       `svp d k a`    : every `i < min a.size d.size`: `ProdBudget a_i s_k` = the hypotheses of
                        `C01Err.small_product_exact_f64_partial` (boxes, `PipeOk`, `E' = 12·log2(N)·2^-53·S < 1/2`);
       `vmp d a m`, `vmpDD d a m` : `VmpBudget` = the hypotheses of `C02Err.vmp_exact_f64_partial` for every column
                        `j < min ncols d.size` (boxes, `VmpOk`, `E_sum < 1/2`, `n ≤ 2^25 − 1` rows);
       `smallProduct` : `ProdBudget` of limb 0 of the operands;
       `svpPrepare`, `vmpPrepare`, `idft` : shapes only (their rounding is inside the budget of the producing product).
     Module-level standing hypotheses, bundled in `ProgErr.F64Mod`: `VCfgOk` (dispatch), `k ≤ 16`, twiddle accuracy.
  3. INVARIANT of opaque objects (`ProgErr.RE` = `Prog.RD` of the instance `dftOpsSound_f64` of `Prog.DftOpsSound`): a `VEC_ZNX_DFT` object `d` represents the integer vector `P` iff
     `LimbExact`: `toZnx (ifft (limb_i d)) = P_i` for every limb — "inverse transform + final rounding returns exactly
     the abstract limb".  This is the weakest invariant that makes `idft` (the only consumer in `OpD`) exact, and it is
     what the C01Err / C02Err theorems establish; a metric invariant ("within the C06Err bound of the exact transform")
     is NOT derivable from their statements and is what a product-of-products theorem would need.  For `vmpDD` the
     invariant additionally records provenance: a raw transform is bit for bit `vec_znx_dft` of the exact limbs;
     prepared objects are bit for bit `svp_prepare` / `vmp_prepare_contiguous` of the exact operand.
  4. THEOREMS.  `roundtrip_exact_f64_partial`, `dft_idft_exact_f64_partial` (pure round trip, new numerics),
     `raw_dft_metric_f64_partial` (metric form for raw transforms), `vmp_dft_to_dft_raw_f64`,
     `step_refines_f64_partial`, `prog_refines_f64_partial`, `prog_output_f64_partial` (language `OpD`, class
     `SingleProductDepth`), `progD_refines_f64_partial`, `progD_output_f64_partial` (every program without `vmpDD`),
     `f64_agrees_with_exact_network_partial` (binary64 run = run over the exact FFT network of `Closed.lean` on every
     integer output), `prog_refines_sound_f64_partial` / `prog_output_sound_f64_partial` (the record `Prog.DftOpsSound`
     instantiated for `Cfg.parts`: `ProgErr.dftOpsSound_f64`), `rt_/prod_/vmp_budget_of_underflow_flags` (only the
     underflow half of the flag hypotheses is needed).
     "partial": constants 12 / 17 instead of 8 / 16, flags (underflow half) and twiddle accuracy are hypotheses (as in
     C01Err/C02Err); NTT120 programs are not modelled.
  WHAT IS MISSING for the programs outside `SingleProductDepth`: a forward-error theorem for `vmp_apply_dft_to_dft`
  whose vector operand is only KNOWN UP TO AN ERROR: `‖d − DFT(P)‖₂ ≤ δ` in, `‖d' − DFT(P·M)‖₂ ≤ δ'` out, with
  `δ' = fB ε μ_n θ·ΣS_i + δ·(‖M‖ + …)` (C02Err's `col_dft_stage` with the hypothesis `hA` generalised from "computed
  transform of an integer limb" to "any finite vector within δ of the exact transform"), and then the invariant
  `LimbExact` replaced by that metric invariant + the flags of the inverse transform at the consumer.
-/
import SpqProofs.Lemmas.ProgErrRun
import SpqProofs.Lemmas.ProgErrExample2
import SpqProofs.Lemmas.ProgErrNoOvf
import SpqProofs.Lemmas.ProgErrNet
namespace Spq.C16Err
open Finset Spq Spq.Module Spq.Prog Spq.Closed Spq.ProgErr Spq.ProdErr Spq.VmpErr Spq.FftErr Spq.F64 Spq.Fft.Alg

variable {K : Type} [Field K] [LinearOrder K] [IsStrictOrderedRing K] {hsz : ℕ} {vars : List Var}

/-! ### 1. the pure round trip `vec_znx_idft (vec_znx_dft a)` -/

/-- **`roundtrip_exact_f64_partial`**: one polynomial through `fromZnx`, forward FFT, inverse FFT, `toZnx` of the
    binary64 module returns EXACTLY its `N` coefficients if `|a_t| < 2^50`, the flags of the two transforms hold and
    `17·log2(N)·2^-53·na < 1/2` for some `na ≥ ‖a‖₂` (`2ε + ε² ≤ 17·log2(N)·2^-53`, `ε = (1+8u)^k − 1` of C06Err:
    forward error `ε·‖a‖₂`, inverse error `ε·(1+ε)·‖a‖₂`, then rounding).  ("partial": flags and twiddle accuracy
    are hypotheses.) -/
theorem roundtrip_exact_f64_partial (M : F64Mod K) (a : Array Int) (hb : RtBudget M a) :
    M.parts.toZnx (M.parts.ifft (M.parts.fft (M.parts.fromZnx a))) = firstN M.N a := by
  obtain ⟨hbox, hok, na, hna0, hna, hE⟩ := hb
  have hE' : rtRel K M.k * na < 1 / 2 :=
    lt_of_le_of_lt (mul_le_mul_of_nonneg_right (rtRel_le16 M.k M.hk) hna0) hE
  exact rt_exact M.c M.k (k961 M) M.cN M.sN M.cNi M.sNi M.ok.cfg M.ζ M.ζi M.hζ M.hI M.hinv M.hcs M.hcsi a hbox hok na
    hna0 hna hE'

/-- **`dft_idft_exact_f64_partial`**: `vec_znx_idft (vec_znx_dft x)` in the binary64 module, every limb count
    (`asz` input limbs with stride `asl`, `rsz` DFT limbs, `rsz2` output limbs): output limb `i` is input limb `i` for
    `i < min asz rsz`, zero otherwise — if every transformed limb is inside the round-trip budget. -/
theorem dft_idft_exact_f64_partial (M : F64Mod K) (x : Array Int) (asz asl rsz rsz2 : ℕ) (f : ℕ → ℕ → ℤ)
    (hag : Agree M.N x asz asl f) (hb : ∀ i, i < asz → i < rsz → RtBudget M (polyArr M.N (f i))) (i : ℕ) (hi : i < rsz2) :
    dlimb (vecIdft M.parts rsz2 (vecDft M.parts rsz x asz asl) rsz) i M.N =
      if i < rsz ∧ i < asz then polyArr M.N (f i) else Array.replicate M.N 0 := by
  rw [idft_row M rsz2 _ rsz i hi]
  by_cases h : i < rsz
  · rw [if_pos h, dft_sound M x asz asl rsz f hag hb i h]
    by_cases h2 : i < asz
    · rw [if_pos ⟨h, h2⟩]
      apply polyArr_congr
      intro t ht
      rw [coef_mk _ _ _ _ _ h ht, zext, if_pos h2]
    · rw [if_neg (fun q => h2 q.2)]
      apply polyArr_zero
      intro t ht
      rw [coef_mk _ _ _ _ _ h ht, zext, if_neg h2]
  · rw [if_neg h, if_neg (fun q => h q.1)]

/-- **`raw_dft_metric_f64_partial`** (the metric form of the invariant, for RAW transforms): limb `i < min asz rsz` of
    the binary64 `vec_znx_dft` of an integer vector in the box is a vector of finite doubles within the C06Err bound of
    the exact transform of the abstract limb: `Σ_j |val(d_i)_j − DFT(a_i)_j|² ≤ (ε·na)²·m`, `ε = (1+8u)^k − 1`,
    `na ≥ ‖a_i‖₂`, `DFT(a)_j = V ζ (pkC a) k 0 j` (the exact network on the packed coefficients).  This is the statement
    a product-of-products theorem would have to propagate; `LimbExact` (what the program theorem uses) follows from it
    only together with the flags of the inverse transform and `17·log2(N)·2^-53·na < 1/2`. -/
theorem raw_dft_metric_f64_partial (M : F64Mod K) (x : Array Int) (asz asl rsz : ℕ) (f : ℕ → ℕ → ℤ)
    (hag : Agree M.N x asz asl f) (i : ℕ) (hi : i < rsz) (hia : i < asz) (hbox : Box M.k (polyArr M.N (f i)))
    (hok : FwdOk M.c M.k M.cN M.sN (polyArr M.N (f i))) (na : K) (hna : n2sq K (polyArr M.N (f i)) M.N ≤ na ^ 2) :
    (∀ p, p < M.N → Fin64 ((dlimb (vecDft M.parts rsz x asz asl) i M.N)[p]!)) ∧
    ∑ j ∈ range (2 ^ M.k), nsq (outC (dlimb (vecDft M.parts rsz x asz asl) i M.N) M.k j -
        V M.ζ (pkC (polyArr M.N (f i)) (2 ^ M.k)) M.k 0 j) ≤ (eps K M.k * na) ^ 2 * 2 ^ M.k := by
  rw [vecDft_limb M x asz asl rsz f hag i hi, if_pos hia, parts_fft M.c M.k M.cN M.sN M.cNi M.sNi M.ok.cfg]
  exact fwd_metric M.c M.k M.cN M.sN M.cNi M.sNi M.ok.cfg M.ζ M.hζ M.hI M.hcs _ hbox hok na hna

/-! ### 2. `vmp_apply_dft_to_dft` of a raw transform -/

/-- **`vmp_dft_to_dft_raw_f64`**: in the binary64 module `vmp_apply_dft_to_dft (vec_znx_dft a)` is BIT FOR BIT
    `vmp_apply_dft a` (any prepared matrix; `a` = `asz` limbs `f`, DFT variable of `dsz` limbs, `rsz` result limbs), as
    long as the `min nrows dsz` rows it reads are transforms of input limbs (`≤ asz`). -/
theorem vmp_dft_to_dft_raw_f64 (M : F64Mod K) (rsz dsz asz : ℕ) (f : ℕ → ℕ → ℤ) (pm : Array ℕ) (nrows ncols : ℕ)
    (hrow : min nrows dsz ≤ asz) :
    vmpApplyDftToDft M.parts rsz (vecDft M.parts dsz (flatOf M.N asz f) asz M.N) dsz pm nrows ncols =
      vmpApplyDft M.parts rsz (flatOf M.N dsz (zext asz f)) dsz M.N pm nrows ncols :=
  vmpDD_eq M rsz dsz asz f pm nrows ncols hrow

/-! ### 3. programs (`Prog.OpD`, interpreters `cstepD` on `Cfg.parts` / `astepD`) -/

/-- **one call**: under its numeric budget `PreF` and its dataflow condition `opSPD`, the binary64 step simulates the
    exact step (all ten calls of `OpD`, incl. `vmp_apply_dft_to_dft`) -/
theorem step_refines_f64_partial (M : F64Mod K) (wf : WF M.N hsz vars) (o : OpD) (a : AState) (s : CState ℕ)
    (hpre : PreF M vars o a) (hspd : opSPD o a.raw) (hR : RE M hsz vars a s) :
    RE M hsz vars (astepD M.N o a) (cstepD M.parts M.N o s) :=
  stepF_refines M wf o a s hpre hspd hR

/-- **`prog_refines_f64_partial`** (class `SingleProductDepth`).
    FULL statement aimed at: the same WITHOUT the hypothesis `hspd` (products of products).
    PROVED: for every binary64 module `M : F64Mod K`, every well-formed layout, every program in the class
    `SingleProductDepth`, if every call of the exact run satisfies its budget `PreF`, then the state of the binary64
    run represents (`RE`) the state of the exact run: the heap holds exactly the integer limbs of every declared
    variable, every `VEC_ZNX_DFT` object inverse-transforms to exactly its abstract limbs, raw transforms and prepared
    objects are bit for bit the transforms of the exact operands. -/
theorem prog_refines_f64_partial (M : F64Mod K) (wf : WF M.N hsz vars) (ops : List OpD) (a : AState) (s : CState ℕ)
    (hspd : SingleProductDepth ops a.raw) (hb : Guarded (PreF M vars) (astepD M.N) ops a) (hR : RE M hsz vars a s) :
    RE M hsz vars (run (astepD M.N) ops a) (run (cstepD M.parts M.N) ops s) :=
  runF_refines M wf ops a s hspd hb hR

/-- **`prog_output_f64_partial`**: read-back form — every coefficient of every declared integer variable after the
    binary64 run is the coefficient computed by the exact interpreter; the heap kept its size, no access was out of
    bounds. -/
theorem prog_output_f64_partial (M : F64Mod K) (wf : WF M.N hsz vars) (ops : List OpD) (a : AState) (s : CState ℕ)
    (hspd : SingleProductDepth ops a.raw) (hb : Guarded (PreF M vars) (astepD M.N) ops a) (hR : RE M hsz vars a s)
    (v : Var) (hv : v ∈ vars) :
    (run (cstepD M.parts M.N) ops s).heap.ok = true ∧ (run (cstepD M.parts M.N) ops s).heap.mem.size = hsz ∧
    ∀ i t, i < v.size → t < M.N →
      (readVar M.N (run (cstepD M.parts M.N) ops s).heap v).coef i t = ((run (astepD M.N) ops a).env v).coef i t := by
  have r := (runF_refines M wf ops a s hspd hb hR).1
  refine ⟨r.2.1, r.1, fun i t hi ht => ?_⟩
  unfold readVar
  rw [coef_mk _ _ _ _ _ hi ht]
  exact getD_of_R r v hv i t hi ht

/-- **`progD_refines_f64_partial`**: EVERY program without `vmp_apply_dft_to_dft` is covered — no dataflow restriction -/
theorem progD_refines_f64_partial (M : F64Mod K) (wf : WF M.N hsz vars) (ops : List OpD) (hnd : ops.all notDD = true)
    (a : AState) (s : CState ℕ) (hb : Guarded (PreF M vars) (astepD M.N) ops a) (hR : RE M hsz vars a s) :
    RE M hsz vars (run (astepD M.N) ops a) (run (cstepD M.parts M.N) ops s) :=
  runF_refines M wf ops a s (spd_of_notDD ops a.raw hnd) hb hR

/-- read-back form for programs without `vmp_apply_dft_to_dft` -/
theorem progD_output_f64_partial (M : F64Mod K) (wf : WF M.N hsz vars) (ops : List OpD) (hnd : ops.all notDD = true)
    (a : AState) (s : CState ℕ) (hb : Guarded (PreF M vars) (astepD M.N) ops a) (hR : RE M hsz vars a s)
    (v : Var) (hv : v ∈ vars) :
    ∀ i t, i < v.size → t < M.N →
      (readVar M.N (run (cstepD M.parts M.N) ops s).heap v).coef i t = ((run (astepD M.N) ops a).env v).coef i t :=
  (prog_output_f64_partial M wf ops a s (spd_of_notDD ops a.raw hnd) hb hR v hv).2.2

/-- **`f64_agrees_with_exact_network_partial`**: "the exact-arithmetic refinement and the binary64 run agree on all
    integer outputs".  The SAME model code (`cstepD`) run with the binary64 module `Cfg.parts c` and with the exact
    FFT network `Closed.exactParts rt fl` over any characteristic-0 ring with a primitive root (`Closed.lean`) stores
    the same integers in every declared variable, for every program of the class inside the binary64 budget. -/
theorem f64_agrees_with_exact_network_partial (M : F64Mod K) {R : Type} [CommRing R] (rt : RootData R M.k) (fl : Flags)
    (hfl : fl.ok M.k) (wf : WF M.N hsz vars) (ops : List OpD) (a : AState) (s : CState ℕ) (sx : CState R)
    (hspd : SingleProductDepth ops a.raw) (hb : Guarded (PreF M vars) (astepD M.N) ops a) (hR : RE M hsz vars a s)
    (hRx : RD (ClosedProps.dftOpsSound_network rt fl hfl) hsz vars a sx) (v : Var) (hv : v ∈ vars) :
    ∀ i t, i < v.size → t < M.N →
      (readVar M.N (run (cstepD M.parts M.N) ops s).heap v).coef i t =
        (readVar M.N (run (cstepD (exactParts rt fl) M.N) ops sx).heap v).coef i t := by
  intro i t hi ht
  rw [(prog_output_f64_partial M wf ops a s hspd hb hR v hv).2.2 i t hi ht,
    ClosedProps.prog_output_closed rt fl hfl wf ops a sx (guarded_network_of_f64 M rt fl hfl ops a hb) hRx v hv i t hi ht]

/-- satisfiable: `N = 2`, binary64 module `exC` against the exact network over `ℚ` (`Closed.ratRoot`, `ζ = i`), program
    `exProg` of `Lemmas/ProgErrExample.lean` (contains `vmp_apply_dft_to_dft`) -/
example (v : Var) (hv : v ∈ ProgErr.exVars) : ∀ i t, i < v.size → t < ProgErr.exMod.N →
    (readVar ProgErr.exMod.N (run (cstepD ProgErr.exMod.parts ProgErr.exMod.N) exProg ProgErr.exS).heap v).coef i t =
      (readVar ProgErr.exMod.N (run (cstepD (exactParts ratRoot ClosedProps.exFl) ProgErr.exMod.N) exProg
        (⟨ProgErr.exHeap, fun _ => #[], fun _ => #[], fun _ => #[]⟩ : CState ℚ)).heap v).coef i t :=
  f64_agrees_with_exact_network_partial ProgErr.exMod ratRoot ClosedProps.exFl (fun h => by simp [ClosedProps.exFl] at h)
    (hsz := 8) (vars := ProgErr.exVars) (WFb_sound _ _ _ (by decide)) exProg ProgErr.exA ProgErr.exS _ (by decide)
    exGuarded (RE_init ProgErr.exMod ProgErr.exEnv ProgErr.exS (Rb_sound _ _ _ _ _ (by decide)))
    (RD_init _ ProgErr.exEnv _ (Rb_sound _ _ _ _ _ (by decide))) v hv

/-! ### 3b. the record `Prog.DftOpsSound` of `Spq/Prog.lean`, instantiated for the binary64 module

    `ProgErr.dftOpsSound_f64 M : DftOpsSound (Cfg.parts c) N` (`Lemmas/ProgErrSound.lean`): `RepV = LimbExact`,
    `RepS` / `RepM` = "bit for bit the prepared exact operand", budgets = `RtBudget` / `ProdBudget` / `VmpBudget` for the
    limb count of the result; the budget of `vmp_apply_dft_to_dft` contains the dataflow condition on the tag.
    This closes the gap named in `C16.prog_refines_partial` ("`S` instantiated by the C01/C02 theorems");
    `prog_refines_f64_partial` above is this theorem with the precondition split into numeric budget + static class
    (`ProgErr.guarded_preD` / `guarded_preF`: the two forms are equivalent). -/

/-- **`prog_refines_sound_f64_partial`**: `C16.prog_refines_partial` for `S := dftOpsSound_f64 M` — mixed programs of
    `Prog.OpD` run with the binary64 module refine the exact interpreter, the hypotheses being the budgets of the
    record (`PreD`).  ("partial": flags / twiddle accuracy / constants as above.) -/
theorem prog_refines_sound_f64_partial (M : F64Mod K) (wf : WF M.N hsz vars) (ops : List OpD) (a : AState) (s : CState ℕ)
    (hb : Guarded (PreD (dftOpsSound_f64 M) vars) (astepD M.N) ops a) (hR : RD (dftOpsSound_f64 M) hsz vars a s) :
    RD (dftOpsSound_f64 M) hsz vars (run (astepD M.N) ops a) (run (cstepD M.parts M.N) ops s) :=
  C16.prog_refines_partial (dftOpsSound_f64 M) wf ops a s hb hR

/-- read-back form -/
theorem prog_output_sound_f64_partial (M : F64Mod K) (wf : WF M.N hsz vars) (ops : List OpD) (a : AState) (s : CState ℕ)
    (hb : Guarded (PreD (dftOpsSound_f64 M) vars) (astepD M.N) ops a) (hR : RD (dftOpsSound_f64 M) hsz vars a s)
    (v : Var) (hv : v ∈ vars) :
    ∀ i t, i < v.size → t < M.N →
      (readVar M.N (run (cstepD M.parts M.N) ops s).heap v).coef i t = ((run (astepD M.N) ops a).env v).coef i t :=
  C16.prog_output_partial (dftOpsSound_f64 M) wf ops a s hb hR v hv

/-- the fields of the instance, spelled out -/
example (M : F64Mod K) (P : Val) (sz : ℕ) (d : Array ℕ) : (dftOpsSound_f64 M).RepV P sz d = LimbExact M P sz d := rfl
example (M : F64Mod K) (rsz asz : ℕ) (f : ℕ → ℕ → ℤ) :
    (dftOpsSound_f64 M).dft_budget rsz asz f = ∀ i, i < asz → i < rsz → RtBudget M (polyArr M.N (f i)) := rfl
example (M : F64Mod K) (rsz asz : ℕ) (f : ℕ → ℕ → ℤ) (Mv : Val) (nrows ncols : ℕ) :
    (dftOpsSound_f64 M).vmp_budget rsz asz f Mv nrows ncols =
      VmpBudget M (matOf M Mv nrows ncols) nrows ncols (flatOf M.N asz f) asz rsz := rfl
example (M : F64Mod K) (rsz : ℕ) (raw : Option ℕ) (P : Val) (asz : ℕ) (Mv : Val) (nrows ncols : ℕ) :
    (dftOpsSound_f64 M).vmp_dd_budget rsz raw P asz Mv nrows ncols =
      ∃ az, raw = some az ∧ min nrows asz ≤ az ∧
        VmpBudget M (matOf M Mv nrows ncols) nrows ncols (flatOf M.N asz fun i t => P.coef i t) asz rsz := rfl
example (M : F64Mod K) (P : Val) (sz : ℕ) : (dftOpsSound_f64 M).idft_budget P sz = True := rfl

/-- the hypotheses are satisfiable: `N = 2`, the 11-call program `exProg` (`svp`, `vmp`, `vmp_apply_dft_to_dft`, round
    trip; `Lemmas/ProgErrExample*.lean`): every budget of the record is discharged (`exGuardedD`) -/
example (v : Var) (hv : v ∈ ProgErr.exVars) : ∀ i t, i < v.size → t < ProgErr.exMod.N →
    (readVar ProgErr.exMod.N (run (cstepD ProgErr.exMod.parts ProgErr.exMod.N) exProg ProgErr.exS).heap v).coef i t =
      ((run (astepD ProgErr.exMod.N) exProg ProgErr.exA).env v).coef i t :=
  prog_output_sound_f64_partial ProgErr.exMod (hsz := 8) (vars := ProgErr.exVars) (WFb_sound _ _ _ (by decide)) exProg
    ProgErr.exA ProgErr.exS exGuardedD (RD_init _ ProgErr.exEnv ProgErr.exS (Rb_sound _ _ _ _ _ (by decide))) v hv

/-! ### 3c. the flag hypotheses inside the budgets: only the UNDERFLOW half is needed

    With stored twiddles that are finite doubles of magnitude `≤ 1` (`TabOk`, both tables) and the coefficient box, the
    underflow-only flags (`aU` / `arithU`: "every exact intermediate result is 0 or `≥ 2^-1022`") imply the full flags:
    no intermediate of a round trip exceeds `2^(50+6k)`, of a product `2^(102+9k)`, of a vector-matrix product
    `2^(130+9k)` (C02Err item 4). -/

/-- round-trip budget from underflow-only flags -/
theorem rt_budget_of_underflow_flags (M : F64Mod K) (htab : TabOk M.cN M.sN) (htabi : TabOk M.cNi M.sNi) (a : Array Int)
    (hbox : Box M.k a) (hok : RtOkU M.c M.k M.cN M.sN M.cNi M.sNi a)
    (hn : ∃ na : K, 0 ≤ na ∧ n2sq K a M.N ≤ na ^ 2 ∧ ((17 * (M.k + 1 : ℚ) * u64 : ℚ) : K) * na < 1 / 2) :
    RtBudget M a := rtBudget_of_noovf M htab htabi a hbox hok hn

/-- product budget from underflow-only flags (`C02Err.no_overflow_of_box`) -/
theorem prod_budget_of_underflow_flags (M : F64Mod K) (htab : TabOk M.cN M.sN) (htabi : TabOk M.cNi M.sNi)
    (a b : Array Int) (ha : Box M.k a) (hb : Box M.k b) (hok : PipeOkU M.c M.k M.cN M.sN M.cNi M.sNi a b)
    (hn : ∃ na nb : K, 0 ≤ na ∧ 0 ≤ nb ∧ n2sq K a M.N ≤ na ^ 2 ∧ n2sq K b M.N ≤ nb ^ 2 ∧ nb ≤ n1 K b M.N ∧
      ((12 * (M.k + 1 : ℚ) * u64 : ℚ) : K) * (n1 K a M.N * nb + na * n1 K b M.N) < 1 / 2) :
    ProdBudget M a b := prodBudget_of_noovf M htab htabi a b ha hb hok hn

/-- vector-matrix budget from underflow-only flags (`C02Err.vmp_no_overflow_of_box`) -/
theorem vmp_budget_of_underflow_flags (M : F64Mod K) (htab : TabOk M.cN M.sN) (htabi : TabOk M.cNi M.sNi)
    (mat : Array Int) (nrows ncols : ℕ) (a : Array Int) (asz rsz : ℕ) (hn : 2 * min nrows asz + 2 ≤ 67108864)
    (hA : ∀ i, i < min nrows asz → Box M.k (limbOf a i M.N M.N))
    (hM : ∀ i j, i < nrows → j < ncols → Box M.k (matEntry mat ncols M.N i j))
    (hcol : ∀ j, j < min ncols rsz → (M.k < 2 → 0 < min nrows asz) → VmpColBudgetU M mat nrows ncols a asz rsz j) :
    VmpBudget M mat nrows ncols a asz rsz := vmpBudget_of_noovf M htab htabi mat nrows ncols a asz rsz hn hA hM hcol

/-- satisfiable: the product budget of the example from the underflow-only flags `exPipeOkU` -/
example : ProdBudget ProgErr.exMod #[1, 2] #[3, 4] :=
  prod_budget_of_underflow_flags ProgErr.exMod exTabOk exTabOk #[1, 2] #[3, 4] box12 box34 exPipeOkU exProdBudget.2.2.2

/-! ### 4. what the definitions are (spelled out) -/

/-- the invariant of a `VEC_ZNX_DFT` object -/
example (M : F64Mod K) (P : Val) (sz : ℕ) (d : Array ℕ) :
    LimbExact M P sz d ↔ ∀ i, i < sz → M.parts.toZnx (M.parts.ifft (dlimb d i M.N)) = polyArr M.N (P.coef i) := Iff.rfl

/-- the budget of `vec_znx_dft(d, a)` / `svp_apply_dft(d, s_k, a)` / `vmp_apply_dft_to_dft(d, a, m)` /
    `vec_znx_idft(d, a)` on the exact state -/
example (M : F64Mod K) (d : DVar) (a : Var) (s : AState) :
    PreF M vars (.dft d a) s ↔
      (a ∈ vars ∧ ∀ i, i < a.size → i < d.size → RtBudget M (polyArr M.N fun t => (s.env a).coef i t)) := Iff.rfl
example (M : F64Mod K) (d : DVar) (k : ℕ) (a : Var) (s : AState) :
    PreF M vars (.svp d k a) s ↔
      (a ∈ vars ∧ ∃ sp, s.ppol k = some sp ∧ ∀ i, i < a.size → i < d.size →
        ProdBudget M (polyArr M.N fun t => (s.env a).coef i t) (polyArr M.N fun t => sp.getD t 0)) := Iff.rfl
example (M : F64Mod K) (d a : DVar) (m : MVar) (s : AState) :
    PreF M vars (.vmpDD d a m) s ↔ d ≠ a ∧ ∃ P Mv, s.dvec a = some P ∧ s.pmat m = some Mv ∧
      VmpBudget M (matOf M Mv m.nrows m.ncols) m.nrows m.ncols (flatOf M.N a.size fun i t => P.coef i t) a.size d.size :=
  Iff.rfl
example (M : F64Mod K) (d : Var) (a : DVar) (s : AState) :
    PreF M vars (.idft d a) s ↔ (d ∈ vars ∧ ∃ P, s.dvec a = some P ∧ True) := Iff.rfl
/-- the static tag is the field `raw` of the exact state -/
example (nn : ℕ) (ops : List OpD) (a : AState) : (run (astepD nn) ops a).raw = run tagStep ops a.raw := raw_run nn ops a
/-- `E_sum` of C02Err -/
example (k : ℕ) (mat : Array Int) (nrows ncols : ℕ) (a : Array Int) (asz asl j : ℕ) (na nb : ℕ → K) :
    Esum K k mat nrows ncols a asz asl j na nb =
      (((12 * (k + 1 : ℚ) + 2 * (min nrows asz : ℕ) + 3) * u64 : ℚ) : K) *
        ∑ i ∈ range (min nrows asz),
          (n1 K (limbOf a i asl (2 * 2 ^ k)) (2 * 2 ^ k) * nb i + na i * n1 K (matEntry mat ncols (2 * 2 ^ k) i j) (2 * 2 ^ k)) :=
  rfl

/-! ### 5. the class `SingleProductDepth`: decidable, not empty, contains the three pipelines; a program outside -/

section
open ProgErr
/-- `svp_prepare → svp_apply_dft → idft` (the vector is transformed inside `svp_apply_dft`: dft → svp → idft) -/
example : SingleProductDepth [.svpPrepare 0 exY, .svp exD0 0 exX, .idft exZ exD0] noTag := by decide
/-- `dft → vmp_apply_dft_to_dft → idft` on a raw transform -/
example : SingleProductDepth [.vmpPrepare exM0 exY, .dft exD1 exX, .vmpDD exD2 exD1 exM0, .idft exW exD2] noTag := by
  decide
/-- `vmp_prepare → vmp_apply_dft → idft` -/
example : SingleProductDepth [.vmpPrepare exM0 exY, .vmp exD3 exX exM0, .idft exW exD3] noTag := by decide
/-- every program without `vmp_apply_dft_to_dft` -/
example (ops : List OpD) (tg : Tag) (h : ops.all notDD = true) : SingleProductDepth ops tg := spd_of_notDD ops tg h
/-- OUTSIDE the class: a product of a product (`svp` output fed to `vmp_apply_dft_to_dft`), and a raw transform that is
    overwritten by a product before it is used -/
example : ¬ SingleProductDepth [.svpPrepare 0 exY, .svp exD0 0 exX, .vmpPrepare exM0 exY, .vmpDD exD2 exD0 exM0] noTag := by
  decide
example : ¬ SingleProductDepth [.dft exD1 exX, .svp exD1 0 exX, .vmpDD exD2 exD1 exM0] noTag := by decide

/-! ### 6. a concrete program on which every hypothesis is discharged (`N = 2`, `Lemmas/ProgErrExample*.lean`)

    heap of 8 cells, `x = 1 + 2X`, `y = 3 + 4X`, module `exC` (all-reference kernels), `K = ℚ`, `ζ = i`:
      P0 := svp_prepare(y); D0 := svp_apply_dft(P0, x); z := idft(D0);
      M0 := vmp_prepare(y); D1 := dft(x); D2 := vmp_apply_dft_to_dft(D1, M0); w := idft(D2);
      D3 := vmp_apply_dft(x, M0); w := idft(D3);  w := idft(D1);  z := z + x                       -/

example : WF exMod.N 8 exVars := WFb_sound _ _ _ (by decide)
example : SingleProductDepth exProg exA.raw := by decide
example : Guarded (PreF exMod exVars) (astepD exMod.N) exProg exA := exGuarded
example : RE exMod 8 exVars exA exS := RE_init exMod exEnv exS (Rb_sound _ _ _ _ _ (by decide))
/-- three of the budgets that `exGuarded` discharges: round trip of `x`, product `x·y`, `1 × 1` matrix product -/
example : RtBudget exMod #[1, 2] ∧ ProdBudget exMod #[1, 2] #[3, 4] ∧ VmpBudget exMod #[3, 4] 1 1 #[1, 2] 1 1 :=
  ⟨exRtBudget, exProdBudget, exVmpBudget⟩

/-- the theorem instantiated: the integer outputs of the binary64 run are those of the exact interpreter -/
example (v : Var) (hv : v ∈ exVars) : ∀ i t, i < v.size → t < exMod.N →
    (readVar exMod.N (run (cstepD exMod.parts exMod.N) exProg exS).heap v).coef i t =
      ((run (astepD exMod.N) exProg exA).env v).coef i t :=
  (prog_output_f64_partial exMod (hsz := 8) (vars := exVars) (WFb_sound _ _ _ (by decide)) exProg exA exS
    (by decide) exGuarded (RE_init exMod exEnv exS (Rb_sound _ _ _ _ _ (by decide))) v hv).2.2

/-- both sides evaluated: the binary64 run (bit-exact model of the library) … -/
example : (run (cstepD (Cfg.parts exC) 2) exProg exS).heap.mem = #[1, 2, 3, 4, -4, 12, 1, 2] := by decide +kernel
/-- … after 9 calls `w` holds the product computed through `vmp_apply_dft` (and before, through
    `vmp_apply_dft_to_dft` of the raw transform): `(1 + 2X)(3 + 4X) = −5 + 10X mod X² + 1` … -/
example : (run (cstepD (Cfg.parts exC) 2) (exProg.take 7) exS).heap.mem = #[1, 2, 3, 4, -5, 10, -5, 10] ∧
    (run (cstepD (Cfg.parts exC) 2) (exProg.take 9) exS).heap.mem = #[1, 2, 3, 4, -5, 10, -5, 10] := by
  constructor <;> decide +kernel
/-- … and the exact interpreter: `z = x·y + x`, `w = x` (the round trip) -/
example : ((run (astepD 2) exProg exA).env exZ, (run (astepD 2) exProg exA).env exW) = (#[#[-4, 12]], #[#[1, 2]]) := by
  decide +kernel
/-- the binary64 DFT objects of the raw-transform route and of the direct route are the same bits -/
example : (run (cstepD (Cfg.parts exC) 2) exProg exS).dvec exD2 = (run (cstepD (Cfg.parts exC) 2) exProg exS).dvec exD3 := by
  decide +kernel
end

end Spq.C16Err
