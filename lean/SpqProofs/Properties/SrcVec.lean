/-
  SrcVec: the C SOURCE of the reference limb-vector wrappers of `spqlios/arithmetic/vec_znx.c`, translated on every
  run (`Gen.CSrc.vec_znx_*_ref`: loops over limbs, calls of the generated kernel terms with `ptr + i*sl` pointer
  arguments, per-limb pointer-equality tests), simulates the HEAP MODEL of `Spq/VecZnx.lean` — the functions
  `Properties/C08.lean`, `C13.lean`, `C18.lean` are about.

  Setting: one arena buffer `B` of the interpreter memory holds the heap (`X : Array Int`, the heap's `mem`); the
  pointer parameters are bound to `(B, res)`, `(B, a)`, `(B, b)` (offsets in cells = the model's pointers); the
  scalar parameter `module` is `module->nn`.  Statement shape:

      (VecZnx.op i64Ops nn ⟨X, true⟩ res rsz rsl …).ok = true  →
        run fuel Gen.CSrc.vec_znx_op_ref [nn, rsz, rsl, …] [some (B, res), …] (m0.setIfInBounds B X)
          = .ok (m0.setIfInBounds B (VecZnx.op i64Ops nn ⟨X, true⟩ res rsz rsl …).mem)

  i.e. whenever the model reports no out-of-bounds access (its `ok` flag; `C08.*_no_fault` derive it from the
  declared extents), the source-level run succeeds — in particular without `Err.oob` — and produces the model's
  heap.  All `nn < 2^61`, all limb counts (0 and unequal included), all strides; per limb the result window and
  each source window are identical or disjoint (`SameOrDisj`, implied by `C08.SrcOK`).
-/
import SpqProofs.Lemmas.SrcVecC08
import SpqProofs.Lemmas.SrcVecKernAut
namespace Spq.Src
open Spq Spq.CIR Spq.Heap

theorem src_vec_znx_zero_ref_eq_model (nn rsz rsl res : Nat) (hnn : nn < 2305843009213693952)
    (hrsz : rsz < 18446744073709551616)
    (m0 : Mem) (B : Nat) (hB : B < m0.size) (X : Array Int) (hX : X.size < 18446744073709551616)
    (hok : (VecZnx.zero i64Ops nn ⟨X, true⟩ res rsz rsl).ok = true) :
    ∀ fuel, rsz ≤ fuel →
      run fuel Gen.CSrc.vec_znx_zero_ref [(nn : Int), (rsz : Int), (rsl : Int)] [some (B, res)]
          (m0.setIfInBounds B X)
        = .ok (m0.setIfInBounds B (VecZnx.zero i64Ops nn ⟨X, true⟩ res rsz rsl).mem) := by
  intro fuel hf
  cir_enter Gen.CSrc.vec_znx_zero_ref
  cir_simp
  let F : Nat → Heap Int → Heap Int := fun i => limb0 (Coeffs.zero i64Ops nn) (res + i * rsl)
  have hF : OkMono F := okMono_limb0 _ _
  have hsz : ∀ k, (forLimbs 0 k F ⟨X, true⟩).mem.size = X.size := size_forLimbs_mem0 _ _ 0 ⟨X, true⟩
  rw [limb_for _ _ _ _ _ _ m0 B F hF ⟨X, true⟩ 0 rsz 0 (Nat.zero_le _) hrsz (by simp) hok
    ?he0 ?hhi ?hbody fuel (by omega)]
  · rfl
  case he0 => rfl
  case hhi => intro k m; rfl
  case hbody => vbody0 hsz

theorem src_vec_znx_copy_ref_eq_model (nn rsz rsl asz asl res a : Nat) (hnn : nn < 2305843009213693952)
    (hrsz : rsz < 18446744073709551616)
    (m0 : Mem) (B : Nat) (hB : B < m0.size) (X : Array Int) (hX : X.size < 18446744073709551616)
    (hA : ∀ i, i < min rsz asz → SameOrDisj nn (res + i * rsl) (a + i * asl))
    (hok : (VecZnx.copy i64Ops nn ⟨X, true⟩ res rsz rsl a asz asl).ok = true) :
    ∀ fuel, rsz ≤ fuel →
      run fuel Gen.CSrc.vec_znx_copy_ref [(nn : Int), (rsz : Int), (rsl : Int), (asz : Int), (asl : Int)]
          [some (B, res), some (B, a)] (m0.setIfInBounds B X)
        = .ok (m0.setIfInBounds B (VecZnx.copy i64Ops nn ⟨X, true⟩ res rsz rsl a asz asl).mem) := by
  intro fuel hf
  cir_enter Gen.CSrc.vec_znx_copy_ref
  cir_simp
  rw [min_cond]; cir_simp
  let F1 : Nat → Heap Int → Heap Int := fun i => limb1 0 nn (Coeffs.copy i64Ops nn) (res + i * rsl) (a + i * asl)
  let F2 : Nat → Heap Int → Heap Int := fun i => limb0 (Coeffs.zero i64Ops nn) (res + i * rsl)
  have hF1 : OkMono F1 := okMono_limb1 nn _ _ _
  have hF2 : OkMono F2 := okMono_limb0 _ _
  have hs1 : min rsz asz ≤ rsz := Nat.min_le_left _ _
  change (forLimbs (min rsz asz) rsz F2 (forLimbs 0 (min rsz asz) F1 ⟨X, true⟩)).ok = true at hok
  have hok1 := forLimbs_ok_prefix F2 hF2 _ _ rsz hs1 hok (min rsz asz) (Nat.le_refl _) hs1
  rw [forLimbs_nil] at hok1
  have hsz1 : ∀ k, (forLimbs 0 k F1 ⟨X, true⟩).mem.size = X.size := size_forLimbs_mem1 nn _ _ _ 0 ⟨X, true⟩
  have hsz2 : ∀ k, (forLimbs (min rsz asz) k F2 (forLimbs 0 (min rsz asz) F1 ⟨X, true⟩)).mem.size = X.size :=
    fun k => by rw [size_forLimbs_mem0 _ _ _ _ k, hsz1]
  rw [limb_for _ _ _ _ _ _ m0 B F1 hF1 ⟨X, true⟩ 0 (min rsz asz) 0 (Nat.zero_le _) (by omega) (by simp) hok1
    ?he0 ?hhi ?hbody fuel (by omega)]
  case he0 => rfl
  case hhi => intro k m; rfl
  case hbody => vbody1 arena_copy hnn 1 a asl size_kcopy hsz1 (fun k _ hk => hA k hk)
  cir_simp
  rw [limb_for _ _ _ _ _ _ m0 B F2 hF2 _ (min rsz asz) rsz 0 hs1 hrsz (by simp) hok
    ?he0 ?hhi ?hbody fuel (by omega)]
  · rfl
  case he0 => rfl
  case hhi => intro k m; rfl
  case hbody => vbody0 hsz2

theorem src_vec_znx_negate_ref_eq_model (nn rsz rsl asz asl res a : Nat) (hnn : nn < 2305843009213693952)
    (hrsz : rsz < 18446744073709551616)
    (m0 : Mem) (B : Nat) (hB : B < m0.size) (X : Array Int) (hX : X.size < 18446744073709551616)
    (hA : ∀ i, i < min rsz asz → SameOrDisj nn (res + i * rsl) (a + i * asl))
    (hok : (VecZnx.negate i64Ops nn ⟨X, true⟩ res rsz rsl a asz asl).ok = true) :
    ∀ fuel, rsz + nn ≤ fuel →
      run fuel Gen.CSrc.vec_znx_negate_ref [(nn : Int), (rsz : Int), (rsl : Int), (asz : Int), (asl : Int)]
          [some (B, res), some (B, a)] (m0.setIfInBounds B X)
        = .ok (m0.setIfInBounds B (VecZnx.negate i64Ops nn ⟨X, true⟩ res rsz rsl a asz asl).mem) := by
  intro fuel hf
  have hnn64 : nn < 18446744073709551616 := by omega
  cir_enter Gen.CSrc.vec_znx_negate_ref
  cir_simp
  rw [min_cond]; cir_simp
  let F1 : Nat → Heap Int → Heap Int := fun i => limb1 0 nn (Coeffs.negate i64Ops nn) (res + i * rsl) (a + i * asl)
  let F2 : Nat → Heap Int → Heap Int := fun i => limb0 (Coeffs.zero i64Ops nn) (res + i * rsl)
  have hF1 : OkMono F1 := okMono_limb1 nn _ _ _
  have hF2 : OkMono F2 := okMono_limb0 _ _
  have hs1 : min rsz asz ≤ rsz := Nat.min_le_left _ _
  change (forLimbs (min rsz asz) rsz F2 (forLimbs 0 (min rsz asz) F1 ⟨X, true⟩)).ok = true at hok
  have hok1 := forLimbs_ok_prefix F2 hF2 _ _ rsz hs1 hok (min rsz asz) (Nat.le_refl _) hs1
  rw [forLimbs_nil] at hok1
  have hsz1 : ∀ k, (forLimbs 0 k F1 ⟨X, true⟩).mem.size = X.size := size_forLimbs_mem1 nn _ _ _ 0 ⟨X, true⟩
  have hsz2 : ∀ k, (forLimbs (min rsz asz) k F2 (forLimbs 0 (min rsz asz) F1 ⟨X, true⟩)).mem.size = X.size :=
    fun k => by rw [size_forLimbs_mem0 _ _ _ _ k, hsz1]
  rw [limb_for _ _ _ _ _ _ m0 B F1 hF1 ⟨X, true⟩ 0 (min rsz asz) nn (Nat.zero_le _) (by omega) (by simp) hok1
    ?he0 ?hhi ?hbody fuel (by omega)]
  case he0 => rfl
  case hhi => intro k m; rfl
  case hbody => vbody1 arena_negate hnn64 1 a asl size_kneg hsz1 (fun k _ hk => hA k hk)
  cir_simp
  rw [limb_for _ _ _ _ _ _ m0 B F2 hF2 _ (min rsz asz) rsz 0 hs1 hrsz (by simp) hok
    ?he0 ?hhi ?hbody fuel (by omega)]
  · rfl
  case he0 => rfl
  case hhi => intro k m; rfl
  case hbody => vbody0 hsz2

theorem src_vec_znx_add_ref_eq_model (nn rsz rsl asz asl bsz bsl res a b : Nat) (hnn : nn < 2305843009213693952)
    (hrsz : rsz < 18446744073709551616) (hasz : asz < 18446744073709551616) (hbsz : bsz < 18446744073709551616)
    (m0 : Mem) (B : Nat) (hB : B < m0.size) (X : Array Int) (hX : X.size < 18446744073709551616)
    (hA : ∀ i, i < min rsz asz → SameOrDisj nn (res + i * rsl) (a + i * asl))
    (hBd : ∀ i, i < min rsz bsz → SameOrDisj nn (res + i * rsl) (b + i * bsl))
    (hok : (VecZnx.add i64Ops nn ⟨X, true⟩ res rsz rsl a asz asl b bsz bsl).ok = true) :
    ∀ fuel, rsz + nn ≤ fuel →
      run fuel Gen.CSrc.vec_znx_add_ref
          [(nn : Int), (rsz : Int), (rsl : Int), (asz : Int), (asl : Int), (bsz : Int), (bsl : Int)]
          [some (B, res), some (B, a), some (B, b)] (m0.setIfInBounds B X)
        = .ok (m0.setIfInBounds B (VecZnx.add i64Ops nn ⟨X, true⟩ res rsz rsl a asz asl b bsz bsl).mem) := by
  intro fuel hf
  have hnn64 : nn < 18446744073709551616 := by omega
  cir_enter Gen.CSrc.vec_znx_add_ref
  cir_simp
  let F1 : Nat → Heap Int → Heap Int := fun i =>
    limb2 0 nn (Coeffs.add i64Ops nn) (res + i * rsl) (a + i * asl) (b + i * bsl)
  let Fb : Nat → Heap Int → Heap Int := fun i => limb1 0 nn (Coeffs.copy i64Ops nn) (res + i * rsl) (b + i * bsl)
  let Fa : Nat → Heap Int → Heap Int := fun i => limb1 0 nn (Coeffs.copy i64Ops nn) (res + i * rsl) (a + i * asl)
  let F3 : Nat → Heap Int → Heap Int := fun i => limb0 (Coeffs.zero i64Ops nn) (res + i * rsl)
  have hF1 : OkMono F1 := okMono_limb2 nn _ _ _ _
  have hFb : OkMono Fb := okMono_limb1 nn _ _ _
  have hFa : OkMono Fa := okMono_limb1 nn _ _ _
  have hF3 : OkMono F3 := okMono_limb0 _ _
  by_cases hab : asz ≤ bsz
  · have hd : decide ((asz : Int) ≤ (bsz : Int)) = true := decide_eq_true (by omega)
    simp only [hd, if_true]
    rw [min_cond]; cir_simp
    rw [min_cond]; cir_simp
    have hs1 : min rsz asz ≤ min rsz bsz := min_le_min_of_le hab
    have hs2 : min rsz bsz ≤ rsz := Nat.min_le_left _ _
    unfold VecZnx.add at hok ⊢
    simp only [if_pos hab] at hok ⊢
    change (forLimbs (min rsz bsz) rsz F3 (forLimbs (min rsz asz) (min rsz bsz) Fb
      (forLimbs 0 (min rsz asz) F1 ⟨X, true⟩))).ok = true at hok
    have hok2 := forLimbs_ok_prefix F3 hF3 _ _ rsz hs2 hok (min rsz bsz) (Nat.le_refl _) hs2
    rw [forLimbs_nil] at hok2
    have hok1 := forLimbs_ok_prefix Fb hFb _ _ _ hs1 hok2 (min rsz asz) (Nat.le_refl _) hs1
    rw [forLimbs_nil] at hok1
    have hsz1 : ∀ k, (forLimbs 0 k F1 ⟨X, true⟩).mem.size = X.size := size_forLimbs_mem2 nn _ _ _ _ 0 ⟨X, true⟩
    have hsz2 : ∀ k, (forLimbs (min rsz asz) k Fb (forLimbs 0 (min rsz asz) F1 ⟨X, true⟩)).mem.size = X.size :=
      fun k => by rw [size_forLimbs_mem1 nn _ _ _ _ _ k, hsz1]
    have hsz3 : ∀ k, (forLimbs (min rsz bsz) k F3 (forLimbs (min rsz asz) (min rsz bsz) Fb
        (forLimbs 0 (min rsz asz) F1 ⟨X, true⟩))).mem.size = X.size :=
      fun k => by rw [size_forLimbs_mem0 _ _ _ _ k, hsz2]
    rw [limb_for _ _ _ _ _ _ m0 B F1 hF1 ⟨X, true⟩ 0 (min rsz asz) nn (Nat.zero_le _) (by omega) (by simp) hok1
      ?he0 ?hhi ?hbody fuel (by omega)]
    case he0 => rfl
    case hhi => intro k m; rfl
    case hbody =>
      vbody2 arena_add size_kadd hsz1 (fun k _ hk => hA k hk) (fun k _ hk => hBd k (lt_min_of_le hk hab))
    cir_simp
    rw [limb_for _ _ _ _ _ _ m0 B Fb hFb _ (min rsz asz) (min rsz bsz) 0 hs1 (by omega) (by simp) hok2
      ?he0 ?hhi ?hbody fuel (by omega)]
    case he0 => rfl
    case hhi => intro k m; rfl
    case hbody => vbody1 arena_copy hnn 2 b bsl size_kcopy hsz2 (fun k _ hk => hBd k hk)
    cir_simp
    rw [limb_for _ _ _ _ _ _ m0 B F3 hF3 _ (min rsz bsz) rsz 0 hs2 hrsz (by simp) hok
      ?he0 ?hhi ?hbody fuel (by omega)]
    · rfl
    case he0 => rfl
    case hhi => intro k m; rfl
    case hbody => vbody0 hsz3
  · have hd : decide ((asz : Int) ≤ (bsz : Int)) = false := decide_eq_false (by omega)
    have hba : bsz ≤ asz := by omega
    simp only [hd, Bool.false_eq_true, if_false]
    rw [min_cond]; cir_simp
    rw [min_cond]; cir_simp
    have hs1 : min rsz bsz ≤ min rsz asz := min_le_min_of_le hba
    have hs2 : min rsz asz ≤ rsz := Nat.min_le_left _ _
    unfold VecZnx.add at hok ⊢
    simp only [if_neg hab] at hok ⊢
    change (forLimbs (min rsz asz) rsz F3 (forLimbs (min rsz bsz) (min rsz asz) Fa
      (forLimbs 0 (min rsz bsz) F1 ⟨X, true⟩))).ok = true at hok
    have hok2 := forLimbs_ok_prefix F3 hF3 _ _ rsz hs2 hok (min rsz asz) (Nat.le_refl _) hs2
    rw [forLimbs_nil] at hok2
    have hok1 := forLimbs_ok_prefix Fa hFa _ _ _ hs1 hok2 (min rsz bsz) (Nat.le_refl _) hs1
    rw [forLimbs_nil] at hok1
    have hsz1 : ∀ k, (forLimbs 0 k F1 ⟨X, true⟩).mem.size = X.size := size_forLimbs_mem2 nn _ _ _ _ 0 ⟨X, true⟩
    have hsz2 : ∀ k, (forLimbs (min rsz bsz) k Fa (forLimbs 0 (min rsz bsz) F1 ⟨X, true⟩)).mem.size = X.size :=
      fun k => by rw [size_forLimbs_mem1 nn _ _ _ _ _ k, hsz1]
    have hsz3 : ∀ k, (forLimbs (min rsz asz) k F3 (forLimbs (min rsz bsz) (min rsz asz) Fa
        (forLimbs 0 (min rsz bsz) F1 ⟨X, true⟩))).mem.size = X.size :=
      fun k => by rw [size_forLimbs_mem0 _ _ _ _ k, hsz2]
    rw [limb_for _ _ _ _ _ _ m0 B F1 hF1 ⟨X, true⟩ 0 (min rsz bsz) nn (Nat.zero_le _) (by omega) (by simp) hok1
      ?he0 ?hhi ?hbody fuel (by omega)]
    case he0 => rfl
    case hhi => intro k m; rfl
    case hbody =>
      vbody2 arena_add size_kadd hsz1 (fun k _ hk => hA k (lt_min_of_le hk hba)) (fun k _ hk => hBd k hk)
    cir_simp
    rw [limb_for _ _ _ _ _ _ m0 B Fa hFa _ (min rsz bsz) (min rsz asz) 0 hs1 (by omega) (by simp) hok2
      ?he0 ?hhi ?hbody fuel (by omega)]
    case he0 => rfl
    case hhi => intro k m; rfl
    case hbody => vbody1 arena_copy hnn 1 a asl size_kcopy hsz2 (fun k _ hk => hA k hk)
    cir_simp
    rw [limb_for _ _ _ _ _ _ m0 B F3 hF3 _ (min rsz asz) rsz 0 hs2 hrsz (by simp) hok
      ?he0 ?hhi ?hbody fuel (by omega)]
    · rfl
    case he0 => rfl
    case hhi => intro k m; rfl
    case hbody => vbody0 hsz3

theorem src_vec_znx_sub_ref_eq_model (nn rsz rsl asz asl bsz bsl res a b : Nat) (hnn : nn < 2305843009213693952)
    (hrsz : rsz < 18446744073709551616) (hasz : asz < 18446744073709551616) (hbsz : bsz < 18446744073709551616)
    (m0 : Mem) (B : Nat) (hB : B < m0.size) (X : Array Int) (hX : X.size < 18446744073709551616)
    (hA : ∀ i, i < min rsz asz → SameOrDisj nn (res + i * rsl) (a + i * asl))
    (hBd : ∀ i, i < min rsz bsz → SameOrDisj nn (res + i * rsl) (b + i * bsl))
    (hok : (VecZnx.sub i64Ops nn ⟨X, true⟩ res rsz rsl a asz asl b bsz bsl).ok = true) :
    ∀ fuel, rsz + nn ≤ fuel →
      run fuel Gen.CSrc.vec_znx_sub_ref
          [(nn : Int), (rsz : Int), (rsl : Int), (asz : Int), (asl : Int), (bsz : Int), (bsl : Int)]
          [some (B, res), some (B, a), some (B, b)] (m0.setIfInBounds B X)
        = .ok (m0.setIfInBounds B (VecZnx.sub i64Ops nn ⟨X, true⟩ res rsz rsl a asz asl b bsz bsl).mem) := by
  intro fuel hf
  have hnn64 : nn < 18446744073709551616 := by omega
  cir_enter Gen.CSrc.vec_znx_sub_ref
  cir_simp
  let F1 : Nat → Heap Int → Heap Int := fun i =>
    limb2 0 nn (Coeffs.sub i64Ops nn) (res + i * rsl) (a + i * asl) (b + i * bsl)
  let Fb : Nat → Heap Int → Heap Int := fun i => limb1 0 nn (Coeffs.negate i64Ops nn) (res + i * rsl) (b + i * bsl)
  let Fa : Nat → Heap Int → Heap Int := fun i => limb1 0 nn (Coeffs.copy i64Ops nn) (res + i * rsl) (a + i * asl)
  let F3 : Nat → Heap Int → Heap Int := fun i => limb0 (Coeffs.zero i64Ops nn) (res + i * rsl)
  have hF1 : OkMono F1 := okMono_limb2 nn _ _ _ _
  have hFb : OkMono Fb := okMono_limb1 nn _ _ _
  have hFa : OkMono Fa := okMono_limb1 nn _ _ _
  have hF3 : OkMono F3 := okMono_limb0 _ _
  by_cases hab : asz ≤ bsz
  · have hd : decide ((asz : Int) ≤ (bsz : Int)) = true := decide_eq_true (by omega)
    simp only [hd, if_true]
    rw [min_cond]; cir_simp
    rw [min_cond]; cir_simp
    have hs1 : min rsz asz ≤ min rsz bsz := min_le_min_of_le hab
    have hs2 : min rsz bsz ≤ rsz := Nat.min_le_left _ _
    unfold VecZnx.sub at hok ⊢
    simp only [if_pos hab] at hok ⊢
    change (forLimbs (min rsz bsz) rsz F3 (forLimbs (min rsz asz) (min rsz bsz) Fb
      (forLimbs 0 (min rsz asz) F1 ⟨X, true⟩))).ok = true at hok
    have hok2 := forLimbs_ok_prefix F3 hF3 _ _ rsz hs2 hok (min rsz bsz) (Nat.le_refl _) hs2
    rw [forLimbs_nil] at hok2
    have hok1 := forLimbs_ok_prefix Fb hFb _ _ _ hs1 hok2 (min rsz asz) (Nat.le_refl _) hs1
    rw [forLimbs_nil] at hok1
    have hsz1 : ∀ k, (forLimbs 0 k F1 ⟨X, true⟩).mem.size = X.size := size_forLimbs_mem2 nn _ _ _ _ 0 ⟨X, true⟩
    have hsz2 : ∀ k, (forLimbs (min rsz asz) k Fb (forLimbs 0 (min rsz asz) F1 ⟨X, true⟩)).mem.size = X.size :=
      fun k => by rw [size_forLimbs_mem1 nn _ _ _ _ _ k, hsz1]
    have hsz3 : ∀ k, (forLimbs (min rsz bsz) k F3 (forLimbs (min rsz asz) (min rsz bsz) Fb
        (forLimbs 0 (min rsz asz) F1 ⟨X, true⟩))).mem.size = X.size :=
      fun k => by rw [size_forLimbs_mem0 _ _ _ _ k, hsz2]
    rw [limb_for _ _ _ _ _ _ m0 B F1 hF1 ⟨X, true⟩ 0 (min rsz asz) nn (Nat.zero_le _) (by omega) (by simp) hok1
      ?he0 ?hhi ?hbody fuel (by omega)]
    case he0 => rfl
    case hhi => intro k m; rfl
    case hbody =>
      vbody2 arena_sub size_ksub hsz1 (fun k _ hk => hA k hk) (fun k _ hk => hBd k (lt_min_of_le hk hab))
    cir_simp
    rw [limb_for _ _ _ _ _ _ m0 B Fb hFb _ (min rsz asz) (min rsz bsz) nn hs1 (by omega) (by simp) hok2
      ?he0 ?hhi ?hbody fuel (by omega)]
    case he0 => rfl
    case hhi => intro k m; rfl
    case hbody => vbody1 arena_negate hnn64 2 b bsl size_kneg hsz2 (fun k _ hk => hBd k hk)
    cir_simp
    rw [limb_for _ _ _ _ _ _ m0 B F3 hF3 _ (min rsz bsz) rsz 0 hs2 hrsz (by simp) hok
      ?he0 ?hhi ?hbody fuel (by omega)]
    · rfl
    case he0 => rfl
    case hhi => intro k m; rfl
    case hbody => vbody0 hsz3
  · have hd : decide ((asz : Int) ≤ (bsz : Int)) = false := decide_eq_false (by omega)
    have hba : bsz ≤ asz := by omega
    simp only [hd, Bool.false_eq_true, if_false]
    rw [min_cond]; cir_simp
    rw [min_cond]; cir_simp
    have hs1 : min rsz bsz ≤ min rsz asz := min_le_min_of_le hba
    have hs2 : min rsz asz ≤ rsz := Nat.min_le_left _ _
    unfold VecZnx.sub at hok ⊢
    simp only [if_neg hab] at hok ⊢
    change (forLimbs (min rsz asz) rsz F3 (forLimbs (min rsz bsz) (min rsz asz) Fa
      (forLimbs 0 (min rsz bsz) F1 ⟨X, true⟩))).ok = true at hok
    have hok2 := forLimbs_ok_prefix F3 hF3 _ _ rsz hs2 hok (min rsz asz) (Nat.le_refl _) hs2
    rw [forLimbs_nil] at hok2
    have hok1 := forLimbs_ok_prefix Fa hFa _ _ _ hs1 hok2 (min rsz bsz) (Nat.le_refl _) hs1
    rw [forLimbs_nil] at hok1
    have hsz1 : ∀ k, (forLimbs 0 k F1 ⟨X, true⟩).mem.size = X.size := size_forLimbs_mem2 nn _ _ _ _ 0 ⟨X, true⟩
    have hsz2 : ∀ k, (forLimbs (min rsz bsz) k Fa (forLimbs 0 (min rsz bsz) F1 ⟨X, true⟩)).mem.size = X.size :=
      fun k => by rw [size_forLimbs_mem1 nn _ _ _ _ _ k, hsz1]
    have hsz3 : ∀ k, (forLimbs (min rsz asz) k F3 (forLimbs (min rsz bsz) (min rsz asz) Fa
        (forLimbs 0 (min rsz bsz) F1 ⟨X, true⟩))).mem.size = X.size :=
      fun k => by rw [size_forLimbs_mem0 _ _ _ _ k, hsz2]
    rw [limb_for _ _ _ _ _ _ m0 B F1 hF1 ⟨X, true⟩ 0 (min rsz bsz) nn (Nat.zero_le _) (by omega) (by simp) hok1
      ?he0 ?hhi ?hbody fuel (by omega)]
    case he0 => rfl
    case hhi => intro k m; rfl
    case hbody =>
      vbody2 arena_sub size_ksub hsz1 (fun k _ hk => hA k (lt_min_of_le hk hba)) (fun k _ hk => hBd k hk)
    cir_simp
    rw [limb_for _ _ _ _ _ _ m0 B Fa hFa _ (min rsz bsz) (min rsz asz) 0 hs1 (by omega) (by simp) hok2
      ?he0 ?hhi ?hbody fuel (by omega)]
    case he0 => rfl
    case hhi => intro k m; rfl
    case hbody => vbody1 arena_copy hnn 1 a asl size_kcopy hsz2 (fun k _ hk => hA k hk)
    cir_simp
    rw [limb_for _ _ _ _ _ _ m0 B F3 hF3 _ (min rsz asz) rsz 0 hs2 hrsz (by simp) hok
      ?he0 ?hhi ?hbody fuel (by omega)]
    · rfl
    case he0 => rfl
    case hhi => intro k m; rfl
    case hbody => vbody0 hsz3

/-! ### rotation: per limb the pointer-equality test `res + i*res_sl == a + i*a_sl` selects the in-place kernel
    (`nn = 2^t`, `t ≤ 60`; fuel `rsz + 2nn`: the in-place cycle walks need `2nn`) -/

theorem src_vec_znx_rotate_ref_eq_model (t : Nat) (ht : t ≤ 60) (nn : Nat) (hnn2 : nn = 2 ^ t) (p : Int)
    (rsz rsl asz asl res a : Nat) (hrsz : rsz < 18446744073709551616)
    (m0 : Mem) (B : Nat) (hB : B < m0.size) (X : Array Int) (hX : X.size < 18446744073709551616)
    (hA : ∀ i, i < min rsz asz → SameOrDisj nn (res + i * rsl) (a + i * asl))
    (hok : (VecZnx.rotate i64Ops nn p ⟨X, true⟩ res rsz rsl a asz asl).ok = true) :
    ∀ fuel, rsz + 2 * nn ≤ fuel →
      run fuel Gen.CSrc.vec_znx_rotate_ref
          [(nn : Int), p, (rsz : Int), (rsl : Int), (asz : Int), (asl : Int)]
          [some (B, res), some (B, a)] (m0.setIfInBounds B X)
        = .ok (m0.setIfInBounds B (VecZnx.rotate i64Ops nn p ⟨X, true⟩ res rsz rsl a asz asl).mem) := by
  intro fuel hf
  have hn1 : 1 ≤ nn := hnn2 ▸ one_le_pow2 t
  have hnn : nn < 2305843009213693952 := by
    have : 2 ^ t ≤ 2 ^ 60 := Nat.pow_le_pow_right (by decide) ht
    have e : (2 : Nat) ^ 60 = 1152921504606846976 := by decide
    omega
  cir_enter Gen.CSrc.vec_znx_rotate_ref
  cir_simp
  rw [min_cond]; cir_simp
  let F1 : Nat → Heap Int → Heap Int := fun i =>
    if res + i * rsl = a + i * asl then
      limb1 0 nn (Coeffs.rotateInplace i64Ops nn p) (res + i * rsl) (res + i * rsl)
    else limb1 0 nn (Coeffs.rotate i64Ops nn p) (res + i * rsl) (a + i * asl)
  let F2 : Nat → Heap Int → Heap Int := fun i => limb0 (Coeffs.zero i64Ops nn) (res + i * rsl)
  have hF1 : OkMono F1 := by
    intro i h hh
    simp only [F1] at hh
    split at hh
    · exact okMono_limb1 nn (fun _ => Coeffs.rotateInplace i64Ops nn p) (fun i => res + i * rsl)
        (fun i => res + i * rsl) i h hh
    · exact okMono_limb1 nn (fun _ => Coeffs.rotate i64Ops nn p) (fun i => res + i * rsl)
        (fun i => a + i * asl) i h hh
  have hF2 : OkMono F2 := okMono_limb0 _ _
  have hs1 : min rsz asz ≤ rsz := Nat.min_le_left _ _
  change (forLimbs (min rsz asz) rsz F2 (forLimbs 0 (min rsz asz) F1 ⟨X, true⟩)).ok = true at hok
  have hok1 := forLimbs_ok_prefix F2 hF2 _ _ rsz hs1 hok (min rsz asz) (Nat.le_refl _) hs1
  rw [forLimbs_nil] at hok1
  have hpre := forLimbs_ok_prefix F1 hF1 0 ⟨X, true⟩ (min rsz asz) (Nat.zero_le _) hok1
  let Hp : Nat → Heap Int := fun k => forLimbs 0 k F1 ⟨X, true⟩
  let S : Nat → State := fun k =>
    ⟨[(nn : Int), p, (rsz : Int), (rsl : Int), (asz : Int), (asl : Int), (nn : Int), ((min rsz asz : Nat) : Int),
        (k : Int), prevI (fun _ => (B : Int)) k, prevI (fun j => ((res + j * rsl : Nat) : Int)) k,
        prevI (fun _ => (B : Int)) k, prevI (fun j => ((a + j * asl : Nat) : Int)) k, 0],
      m0.setIfInBounds B (Hp k).mem⟩
  have hsz1 : ∀ j, (Hp j).mem.size = X.size := by
    intro j
    simp only [Hp]
    induction j with
    | zero => rw [forLimbs_nil]
    | succ j ih =>
      rw [forLimbs_succ 0 j (Nat.zero_le _)]
      simp only [F1]
      split
      · rw [limb1_mem, Heap.size_writeArr]; exact ih
      · rw [limb1_mem, Heap.size_writeArr]; exact ih
  rw [exec_for_range _ _ _ _ _ _ S 0 (min rsz asz) (2 * nn) (Nat.zero_le _) ?hi0 ?hc ?hs ?hx fuel (by omega)]
  case hi0 => intro f; cir_simp; rfl
  case hc =>
    intro k _ hk
    simp only [S]; cir_simp
    exact ok_decide_true (by omega)
  case hx =>
    simp only [S]; cir_simp
    exact ok_decide_false (by omega)
  case hs =>
    intro k _ hk f hfk
    have a2 : (F1 k (Hp k)).ok = true := by
      have := hpre (k + 1) (Nat.zero_le _) (by omega)
      rw [forLimbs_succ 0 k (Nat.zero_le _)] at this
      exact this
    have hb : res + k * rsl + nn ≤ X.size ∧ a + k * asl + nn ≤ X.size := by
      simp only [F1] at a2
      split at a2
      · rename_i he
        rw [limb1_ok] at a2
        simp only [Bool.and_eq_true, decide_eq_true_eq, hsz1] at a2
        omega
      · rw [limb1_ok] at a2
        simp only [Bool.and_eq_true, decide_eq_true_eq, size_krot, hsz1] at a2
        omega
    have e1 : ((k : Int) + 1) % 18446744073709551616 = ((k + 1 : Nat) : Int) := by omega
    simp only [S]; cir_simp
    rw [mul_wrap k rsl (by omega), ptrAt_param _ _ 0 B res (k * rsl) rfl]; cir_simp
    simp only [encPtr_some, Nat.reduceAdd]; cir_simp
    rw [mul_wrap k asl (by omega), ptrAt_param _ _ 1 B a (k * asl) rfl]; cir_simp
    simp only [encPtr_some, Nat.reduceAdd]; cir_simp
    rw [ptrAt_pvar _ _ 9 B (res + k * rsl) rfl rfl]; cir_simp
    rw [ptrAt_pvar _ _ 11 B (a + k * asl) rfl rfl]; cir_simp
    have hHp : Hp (k + 1) = F1 k (Hp k) := forLimbs_succ 0 k (Nat.zero_le _) F1 ⟨X, true⟩
    by_cases he : res + k * rsl = a + k * asl
    · have hd : decide (some (B, res + k * rsl) = some (B, a + k * asl)) = true := decide_eq_true (by rw [he])
      simp only [hd, if_true]
      rw [arena_rotate_inplace m0 B hB _ nn t (by omega) hnn2 p (res + k * rsl) (by rw [hsz1]; omega) f (by omega)]
      cir_simp
      rw [e1, hHp]
      simp only [prevI_succ, F1, if_pos he, limb1_mem]
    · have hd : decide (some (B, res + k * rsl) = some (B, a + k * asl)) = false :=
        decide_eq_false (by simp [he])
      simp only [hd, Bool.false_eq_true, if_false]
      have hdj : res + k * rsl + nn ≤ a + k * asl ∨ a + k * asl + nn ≤ res + k * rsl := by
        rcases hA k hk with h | h | h
        · exact absurd h.symm he
        · exact Or.inl h
        · exact Or.inr h
      rw [arena_rotate m0 B hB _ nn t (by omega) hnn2 p (res + k * rsl) (a + k * asl) (by rw [hsz1]; omega)
        (by rw [hsz1]; omega) hdj f (by omega)]
      cir_simp
      rw [e1, hHp]
      simp only [prevI_succ, F1, if_neg he, limb1_mem]
  cir_simp
  have hsz2 : ∀ k, (forLimbs (min rsz asz) k F2 (forLimbs 0 (min rsz asz) F1 ⟨X, true⟩)).mem.size = X.size := by
    intro k
    rw [size_forLimbs_mem0 _ _ _ _ k]
    exact hsz1 (min rsz asz)
  rw [limb_for _ _ _ _ _ _ m0 B F2 hF2 _ (min rsz asz) rsz 0 hs1 hrsz (by simp) hok
    ?he0 ?hhi ?hbody fuel (by omega)]
  · rfl
  case he0 => rfl
  case hhi => intro k m; rfl
  case hbody => vbody0 hsz2

/-! ### automorphism: same shape as rotation; odd `p` (the in-place kernel of an aliased limb needs it); for a
    non-aliased limb the result depends on the prior content of the result limb (cells the scatter does not
    write), exactly as in the model -/

theorem src_vec_znx_automorphism_ref_eq_model (t : Nat) (ht : t ≤ 60) (nn : Nat) (hnn2 : nn = 2 ^ t) (p : Int) (hp : p % 2 = 1)
    (rsz rsl asz asl res a : Nat) (hrsz : rsz < 18446744073709551616)
    (m0 : Mem) (B : Nat) (hB : B < m0.size) (X : Array Int) (hX : X.size < 18446744073709551616)
    (hA : ∀ i, i < min rsz asz → SameOrDisj nn (res + i * rsl) (a + i * asl))
    (hok : (VecZnx.automorphism i64Ops nn p ⟨X, true⟩ res rsz rsl a asz asl).ok = true) :
    ∀ fuel, rsz + 3 * nn + 64 ≤ fuel →
      run fuel Gen.CSrc.vec_znx_automorphism_ref
          [(nn : Int), p, (rsz : Int), (rsl : Int), (asz : Int), (asl : Int)]
          [some (B, res), some (B, a)] (m0.setIfInBounds B X)
        = .ok (m0.setIfInBounds B (VecZnx.automorphism i64Ops nn p ⟨X, true⟩ res rsz rsl a asz asl).mem) := by
  intro fuel hf
  have hn1 : 1 ≤ nn := hnn2 ▸ one_le_pow2 t
  have hnn : nn < 2305843009213693952 := by
    have : 2 ^ t ≤ 2 ^ 60 := Nat.pow_le_pow_right (by decide) ht
    have e : (2 : Nat) ^ 60 = 1152921504606846976 := by decide
    omega
  cir_enter Gen.CSrc.vec_znx_automorphism_ref
  cir_simp
  rw [min_cond]; cir_simp
  let F1 : Nat → Heap Int → Heap Int := fun i =>
    if res + i * rsl = a + i * asl then
      limb1 0 nn (Coeffs.automorphismInplace i64Ops nn p) (res + i * rsl) (res + i * rsl)
    else fun h => limb1 0 nn (fun inp => Coeffs.automorphism i64Ops nn p inp (h.readLimb 0 (res + i * rsl) nn))
      (res + i * rsl) (a + i * asl) h
  let F2 : Nat → Heap Int → Heap Int := fun i => limb0 (Coeffs.zero i64Ops nn) (res + i * rsl)
  have hF1 : OkMono F1 := by
    intro i h hh
    simp only [F1] at hh
    split at hh
    · exact okMono_limb1 nn (fun _ => Coeffs.automorphismInplace i64Ops nn p) (fun i => res + i * rsl)
        (fun i => res + i * rsl) i h hh
    · rw [limb1_ok] at hh
      simp only [Bool.and_eq_true] at hh
      exact hh.1.1
  have hF2 : OkMono F2 := okMono_limb0 _ _
  have hs1 : min rsz asz ≤ rsz := Nat.min_le_left _ _
  change (forLimbs (min rsz asz) rsz F2 (forLimbs 0 (min rsz asz) F1 ⟨X, true⟩)).ok = true at hok
  have hok1 := forLimbs_ok_prefix F2 hF2 _ _ rsz hs1 hok (min rsz asz) (Nat.le_refl _) hs1
  rw [forLimbs_nil] at hok1
  have hpre := forLimbs_ok_prefix F1 hF1 0 ⟨X, true⟩ (min rsz asz) (Nat.zero_le _) hok1
  let Hp : Nat → Heap Int := fun k => forLimbs 0 k F1 ⟨X, true⟩
  let S : Nat → State := fun k =>
    ⟨[(nn : Int), p, (rsz : Int), (rsl : Int), (asz : Int), (asl : Int), (nn : Int), ((min rsz asz : Nat) : Int),
        (k : Int), prevI (fun _ => (B : Int)) k, prevI (fun j => ((res + j * rsl : Nat) : Int)) k,
        prevI (fun _ => (B : Int)) k, prevI (fun j => ((a + j * asl : Nat) : Int)) k, 0],
      m0.setIfInBounds B (Hp k).mem⟩
  have hsz1 : ∀ j, (Hp j).mem.size = X.size := by
    intro j
    simp only [Hp]
    induction j with
    | zero => rw [forLimbs_nil]
    | succ j ih =>
      rw [forLimbs_succ 0 j (Nat.zero_le _)]
      simp only [F1]
      split
      · rw [limb1_mem, Heap.size_writeArr]; exact ih
      · rw [limb1_mem, Heap.size_writeArr]; exact ih
  rw [exec_for_range _ _ _ _ _ _ S 0 (min rsz asz) (3 * nn + 64) (Nat.zero_le _) ?hi0 ?hc ?hs ?hx fuel (by omega)]
  case hi0 => intro f; cir_simp; rfl
  case hc =>
    intro k _ hk
    simp only [S]; cir_simp
    exact ok_decide_true (by omega)
  case hx =>
    simp only [S]; cir_simp
    exact ok_decide_false (by omega)
  case hs =>
    intro k _ hk f hfk
    have a2 : (F1 k (Hp k)).ok = true := by
      have := hpre (k + 1) (Nat.zero_le _) (by omega)
      rw [forLimbs_succ 0 k (Nat.zero_le _)] at this
      exact this
    have hb : res + k * rsl + nn ≤ X.size ∧ a + k * asl + nn ≤ X.size := by
      simp only [F1] at a2
      split at a2
      · rename_i he
        rw [limb1_ok] at a2
        simp only [Bool.and_eq_true, decide_eq_true_eq, hsz1] at a2
        omega
      · rw [limb1_ok] at a2
        simp only [Bool.and_eq_true, decide_eq_true_eq, Coeffs.size_automorphism, Heap.size_readLimb, hsz1] at a2
        omega
    have e1 : ((k : Int) + 1) % 18446744073709551616 = ((k + 1 : Nat) : Int) := by omega
    simp only [S]; cir_simp
    rw [mul_wrap k rsl (by omega), ptrAt_param _ _ 0 B res (k * rsl) rfl]; cir_simp
    simp only [encPtr_some, Nat.reduceAdd]; cir_simp
    rw [mul_wrap k asl (by omega), ptrAt_param _ _ 1 B a (k * asl) rfl]; cir_simp
    simp only [encPtr_some, Nat.reduceAdd]; cir_simp
    rw [ptrAt_pvar _ _ 9 B (res + k * rsl) rfl rfl]; cir_simp
    rw [ptrAt_pvar _ _ 11 B (a + k * asl) rfl rfl]; cir_simp
    have hHp : Hp (k + 1) = F1 k (Hp k) := forLimbs_succ 0 k (Nat.zero_le _) F1 ⟨X, true⟩
    by_cases he : res + k * rsl = a + k * asl
    · have hd : decide (some (B, res + k * rsl) = some (B, a + k * asl)) = true := decide_eq_true (by rw [he])
      simp only [hd, if_true]
      rw [arena_automorphism_inplace m0 B hB _ nn t (by omega) hnn2 p hp (res + k * rsl) (by rw [hsz1]; omega) f
        (by omega)]
      cir_simp
      rw [e1, hHp]
      simp only [prevI_succ, F1, if_pos he, limb1_mem]
    · have hd : decide (some (B, res + k * rsl) = some (B, a + k * asl)) = false :=
        decide_eq_false (by simp [he])
      simp only [hd, Bool.false_eq_true, if_false]
      have hdj : res + k * rsl + nn ≤ a + k * asl ∨ a + k * asl + nn ≤ res + k * rsl := by
        rcases hA k hk with h | h | h
        · exact absurd h.symm he
        · exact Or.inl h
        · exact Or.inr h
      rw [arena_automorphism m0 B hB _ nn t (by omega) hnn2 p (res + k * rsl) (a + k * asl) (by rw [hsz1]; omega)
        (by rw [hsz1]; omega) hdj f (by omega)]
      cir_simp
      rw [e1, hHp]
      simp only [prevI_succ, F1, if_neg he, limb1_mem, readLimb_eq_win]
  cir_simp
  have hsz2 : ∀ k, (forLimbs (min rsz asz) k F2 (forLimbs 0 (min rsz asz) F1 ⟨X, true⟩)).mem.size = X.size := by
    intro k
    rw [size_forLimbs_mem0 _ _ _ _ k]
    exact hsz1 (min rsz asz)
  rw [limb_for _ _ _ _ _ _ m0 B F2 hF2 _ (min rsz asz) rsz 0 hs1 hrsz (by simp) hok
    ?he0 ?hhi ?hbody fuel (by omega)]
  · rfl
  case he0 => rfl
  case hhi => intro k m; rfl
  case hbody => vbody0 hsz2

/-! ### composition with C08: from the extents the operation declares (`C08.InBounds`) and the aliasing contract
    (`C08.SrcOK`: a source is the output itself — same offset and stride — or all its limbs are disjoint from all
    output limbs) the source-level run succeeds (no `Err.oob`) and yields the heap `C08.*_spec` describes. -/

theorem src_vec_znx_zero_ref_no_oob (nn rsz rsl res : Nat) (hnn : nn < 2305843009213693952)
    (hrsz : rsz < 18446744073709551616)
    (m0 : Mem) (B : Nat) (hB : B < m0.size) (X : Array Int) (hX : X.size < 18446744073709551616)
    (hres : C08.InBounds nn X.size res rsz rsl) :
    ∀ fuel, rsz ≤ fuel →
      run fuel Gen.CSrc.vec_znx_zero_ref [(nn : Int), (rsz : Int), (rsl : Int)] [some (B, res)]
          (m0.setIfInBounds B X)
        = .ok (m0.setIfInBounds B (VecZnx.zero i64Ops nn ⟨X, true⟩ res rsz rsl).mem) :=
  src_vec_znx_zero_ref_eq_model nn rsz rsl res hnn hrsz m0 B hB X hX
    (C08.zero_no_fault i64Ops nn ⟨X, true⟩ res rsz rsl hres)

theorem src_vec_znx_copy_ref_no_oob (nn rsz rsl asz asl res a : Nat) (hnn : nn < 2305843009213693952)
    (hrsz : rsz < 18446744073709551616)
    (m0 : Mem) (B : Nat) (hB : B < m0.size) (X : Array Int) (hX : X.size < 18446744073709551616)
    (hres : C08.InBounds nn X.size res rsz rsl) (ha : C08.InBounds nn X.size a (min asz rsz) asl)
    (hsa : Heap.SrcOK nn res rsz rsl a asz asl) :
    ∀ fuel, rsz ≤ fuel →
      run fuel Gen.CSrc.vec_znx_copy_ref [(nn : Int), (rsz : Int), (rsl : Int), (asz : Int), (asl : Int)]
          [some (B, res), some (B, a)] (m0.setIfInBounds B X)
        = .ok (m0.setIfInBounds B (VecZnx.copy i64Ops nn ⟨X, true⟩ res rsz rsl a asz asl).mem) :=
  src_vec_znx_copy_ref_eq_model nn rsz rsl asz asl res a hnn hrsz m0 B hB X hX
    (sameOrDisj_of_srcOK nn res rsz rsl a asz asl hsa) (C08.copy_no_fault i64Ops nn ⟨X, true⟩ res rsz rsl a asz asl hres ha)

theorem src_vec_znx_negate_ref_no_oob (nn rsz rsl asz asl res a : Nat) (hnn : nn < 2305843009213693952)
    (hrsz : rsz < 18446744073709551616)
    (m0 : Mem) (B : Nat) (hB : B < m0.size) (X : Array Int) (hX : X.size < 18446744073709551616)
    (hres : C08.InBounds nn X.size res rsz rsl) (ha : C08.InBounds nn X.size a (min asz rsz) asl)
    (hsa : Heap.SrcOK nn res rsz rsl a asz asl) :
    ∀ fuel, rsz + nn ≤ fuel →
      run fuel Gen.CSrc.vec_znx_negate_ref [(nn : Int), (rsz : Int), (rsl : Int), (asz : Int), (asl : Int)]
          [some (B, res), some (B, a)] (m0.setIfInBounds B X)
        = .ok (m0.setIfInBounds B (VecZnx.negate i64Ops nn ⟨X, true⟩ res rsz rsl a asz asl).mem) :=
  src_vec_znx_negate_ref_eq_model nn rsz rsl asz asl res a hnn hrsz m0 B hB X hX
    (sameOrDisj_of_srcOK nn res rsz rsl a asz asl hsa)
    (C08.negate_no_fault i64Ops nn ⟨X, true⟩ res rsz rsl a asz asl hres ha)

theorem src_vec_znx_add_ref_no_oob (nn rsz rsl asz asl bsz bsl res a b : Nat) (hnn : nn < 2305843009213693952)
    (hrsz : rsz < 18446744073709551616) (hasz : asz < 18446744073709551616) (hbsz : bsz < 18446744073709551616)
    (m0 : Mem) (B : Nat) (hB : B < m0.size) (X : Array Int) (hX : X.size < 18446744073709551616)
    (hres : C08.InBounds nn X.size res rsz rsl) (ha : C08.InBounds nn X.size a (min asz rsz) asl)
    (hb : C08.InBounds nn X.size b (min bsz rsz) bsl)
    (hsa : Heap.SrcOK nn res rsz rsl a asz asl) (hsb : Heap.SrcOK nn res rsz rsl b bsz bsl) :
    ∀ fuel, rsz + nn ≤ fuel →
      run fuel Gen.CSrc.vec_znx_add_ref
          [(nn : Int), (rsz : Int), (rsl : Int), (asz : Int), (asl : Int), (bsz : Int), (bsl : Int)]
          [some (B, res), some (B, a), some (B, b)] (m0.setIfInBounds B X)
        = .ok (m0.setIfInBounds B (VecZnx.add i64Ops nn ⟨X, true⟩ res rsz rsl a asz asl b bsz bsl).mem) :=
  src_vec_znx_add_ref_eq_model nn rsz rsl asz asl bsz bsl res a b hnn hrsz hasz hbsz m0 B hB X hX
    (sameOrDisj_of_srcOK nn res rsz rsl a asz asl hsa) (sameOrDisj_of_srcOK nn res rsz rsl b bsz bsl hsb)
    (C08.add_no_fault i64Ops nn ⟨X, true⟩ res rsz rsl a asz asl b bsz bsl hres ha hb)

theorem src_vec_znx_sub_ref_no_oob (nn rsz rsl asz asl bsz bsl res a b : Nat) (hnn : nn < 2305843009213693952)
    (hrsz : rsz < 18446744073709551616) (hasz : asz < 18446744073709551616) (hbsz : bsz < 18446744073709551616)
    (m0 : Mem) (B : Nat) (hB : B < m0.size) (X : Array Int) (hX : X.size < 18446744073709551616)
    (hres : C08.InBounds nn X.size res rsz rsl) (ha : C08.InBounds nn X.size a (min asz rsz) asl)
    (hb : C08.InBounds nn X.size b (min bsz rsz) bsl)
    (hsa : Heap.SrcOK nn res rsz rsl a asz asl) (hsb : Heap.SrcOK nn res rsz rsl b bsz bsl) :
    ∀ fuel, rsz + nn ≤ fuel →
      run fuel Gen.CSrc.vec_znx_sub_ref
          [(nn : Int), (rsz : Int), (rsl : Int), (asz : Int), (asl : Int), (bsz : Int), (bsl : Int)]
          [some (B, res), some (B, a), some (B, b)] (m0.setIfInBounds B X)
        = .ok (m0.setIfInBounds B (VecZnx.sub i64Ops nn ⟨X, true⟩ res rsz rsl a asz asl b bsz bsl).mem) :=
  src_vec_znx_sub_ref_eq_model nn rsz rsl asz asl bsz bsl res a b hnn hrsz hasz hbsz m0 B hB X hX
    (sameOrDisj_of_srcOK nn res rsz rsl a asz asl hsa) (sameOrDisj_of_srcOK nn res rsz rsl b bsz bsl hsb)
    (C08.sub_no_fault i64Ops nn ⟨X, true⟩ res rsz rsl a asz asl b bsz bsl hres ha hb)

theorem src_vec_znx_rotate_ref_no_oob (t : Nat) (ht : t ≤ 60) (nn : Nat) (hnn2 : nn = 2 ^ t) (p : Int)
    (rsz rsl asz asl res a : Nat) (hrsz : rsz < 18446744073709551616)
    (m0 : Mem) (B : Nat) (hB : B < m0.size) (X : Array Int) (hX : X.size < 18446744073709551616)
    (hres : C08.InBounds nn X.size res rsz rsl) (ha : C08.InBounds nn X.size a (min asz rsz) asl)
    (hsa : Heap.SrcOK nn res rsz rsl a asz asl) :
    ∀ fuel, rsz + 2 * nn ≤ fuel →
      run fuel Gen.CSrc.vec_znx_rotate_ref
          [(nn : Int), p, (rsz : Int), (rsl : Int), (asz : Int), (asl : Int)]
          [some (B, res), some (B, a)] (m0.setIfInBounds B X)
        = .ok (m0.setIfInBounds B (VecZnx.rotate i64Ops nn p ⟨X, true⟩ res rsz rsl a asz asl).mem) :=
  src_vec_znx_rotate_ref_eq_model t ht nn hnn2 p rsz rsl asz asl res a hrsz m0 B hB X hX
    (sameOrDisj_of_srcOK nn res rsz rsl a asz asl hsa)
    (C08.rotate_no_fault i64Ops nn p ⟨X, true⟩ res rsz rsl a asz asl hres ha)

theorem src_vec_znx_automorphism_ref_no_oob (t : Nat) (ht : t ≤ 60) (nn : Nat) (hnn2 : nn = 2 ^ t) (p : Int)
    (hp : p % 2 = 1) (rsz rsl asz asl res a : Nat) (hrsz : rsz < 18446744073709551616)
    (m0 : Mem) (B : Nat) (hB : B < m0.size) (X : Array Int) (hX : X.size < 18446744073709551616)
    (hres : C08.InBounds nn X.size res rsz rsl) (ha : C08.InBounds nn X.size a (min asz rsz) asl)
    (hsa : Heap.SrcOK nn res rsz rsl a asz asl) :
    ∀ fuel, rsz + 3 * nn + 64 ≤ fuel →
      run fuel Gen.CSrc.vec_znx_automorphism_ref
          [(nn : Int), p, (rsz : Int), (rsl : Int), (asz : Int), (asl : Int)]
          [some (B, res), some (B, a)] (m0.setIfInBounds B X)
        = .ok (m0.setIfInBounds B (VecZnx.automorphism i64Ops nn p ⟨X, true⟩ res rsz rsl a asz asl).mem) :=
  src_vec_znx_automorphism_ref_eq_model t ht nn hnn2 p hp rsz rsl asz asl res a hrsz m0 B hB X hX
    (sameOrDisj_of_srcOK nn res rsz rsl a asz asl hsa)
    (C08.automorphism_no_fault i64Ops nn p ⟨X, true⟩ res rsz rsl a asz asl hres ha)

/-- a concrete instance: `res` (2 limbs) `= a` (1 limb, zero-extended) `+ b` (3 limbs, truncated), in place on `a`'s
    storage (`res == a`), stride 3 > nn = 2; one cell too few in the arena is reported as `Err.oob`. -/
example :
    run 9 Gen.CSrc.vec_znx_add_ref [2, 2, 3, 1, 3, 3, 2] [some (0, 0), some (0, 0), some (0, 6)]
        #[#[1, 2, 99, 3, 4, 99, 10, 20, 30, 40, 50, 60]]
      = .ok #[#[11, 22, 99, 30, 40, 99, 10, 20, 30, 40, 50, 60]]
    ∧ run 9 Gen.CSrc.vec_znx_add_ref [2, 2, 3, 1, 3, 3, 2] [some (0, 0), some (0, 0), some (0, 6)]
        #[#[1, 2, 99, 3, 4, 99, 10, 20, 30]] = .err .oob := by decide

end Spq.Src
