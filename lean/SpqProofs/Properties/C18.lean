/-
  C18 — read-only operands are never modified (limb-vector part: zero, copy, negate, add, sub,
  rotate, automorphism and the big-coefficient wrappers).

  `<op>_frame`: with NO hypothesis on the arguments — any offsets, any strides (even `< nn`), any
  limb counts, sources overlapping the output or each other in any way, extents inside the heap
  or not — the only cells a call can change are the `nn` coefficients of the first `rsz` output
  limbs.  Everything else is bit-for-bit unchanged: source limbs, stride padding of sources and of
  the output, output limbs past `rsz`, any other object in memory.

  `<op>_src_a_readonly`, `<op>_src_b_readonly`: hence every coefficient of every limb of a source
  that is separate from the output (`Sep`: each source limb disjoint from each written output
  limb) is unchanged, whatever the other source does (it may be the output itself).
  `<op>_src_a_extent_readonly`, …: if the whole extent `[a, a + asz*asl)` of the source — limbs and
  stride padding — avoids the written cells, all of it is unchanged.

  (A source that *is* the output, `res == a`, is overwritten by design: that is C13.)
-/
import SpqProofs.Lemmas.VecOps
import SpqProofs.Lemmas.VecBig
namespace Spq.C18
open Spq Heap C08
variable {α : Type}

/-- the whole extent `[a, a + asz*asl)` of a source (limbs and padding) avoids every written cell -/
def ExtentSep (nn res rsz rsl a asz asl : Nat) : Prop :=
  ∀ j, j < rsz → a + asz * asl ≤ res + j * rsl ∨ res + j * rsl + nn ≤ a

/-! ### write footprint, unconditionally -/

theorem zero_frame (o : Ops α) (nn : Nat) (h : Heap α) (res rsz rsl : Nat) :
    (VecZnx.zero o nn h res rsz rsl).mem.size = h.mem.size ∧
    Frame nn res rsz rsl h.mem (VecZnx.zero o nn h res rsz rsl).mem := by
  obtain ⟨e, _⟩ := zero_nf o nn h res rsz rsl
  rw [e]
  exact frame_of_nf nn res rsz rsl _ (fun i m => size_oneK _ _ _ _ _ _ _ _ (size_readLimb ..)) h.mem

theorem copy_frame (o : Ops α) (nn : Nat) (h : Heap α) (res rsz rsl a asz asl : Nat) :
    (VecZnx.copy o nn h res rsz rsl a asz asl).mem.size = h.mem.size ∧
    Frame nn res rsz rsl h.mem (VecZnx.copy o nn h res rsz rsl a asz asl).mem := by
  obtain ⟨e, _⟩ := copy_nf o nn h res rsz rsl a asz asl
  rw [e]
  exact frame_of_nf nn res rsz rsl _ (fun i m => size_oneK _ _ _ _ _ _ _ _ (size_ccopy ..)) h.mem

theorem negate_frame (o : Ops α) (nn : Nat) (h : Heap α) (res rsz rsl a asz asl : Nat) :
    (VecZnx.negate o nn h res rsz rsl a asz asl).mem.size = h.mem.size ∧
    Frame nn res rsz rsl h.mem (VecZnx.negate o nn h res rsz rsl a asz asl).mem := by
  obtain ⟨e, _⟩ := negate_nf o nn h res rsz rsl a asz asl
  rw [e]
  exact frame_of_nf nn res rsz rsl _ (fun i m => size_oneK _ _ _ _ _ _ _ _ (size_cneg ..)) h.mem

theorem add_frame (o : Ops α) (nn : Nat) (h : Heap α) (res rsz rsl a asz asl b bsz bsl : Nat) :
    (VecZnx.add o nn h res rsz rsl a asz asl b bsz bsl).mem.size = h.mem.size ∧
    Frame nn res rsz rsl h.mem (VecZnx.add o nn h res rsz rsl a asz asl b bsz bsl).mem := by
  obtain ⟨e, _⟩ := add_nf o nn h res rsz rsl a asz asl b bsz bsl
  rw [e]
  exact frame_of_nf nn res rsz rsl _ (fun i m => size_addK ..) h.mem

theorem sub_frame (o : Ops α) (nn : Nat) (h : Heap α) (res rsz rsl a asz asl b bsz bsl : Nat) :
    (VecZnx.sub o nn h res rsz rsl a asz asl b bsz bsl).mem.size = h.mem.size ∧
    Frame nn res rsz rsl h.mem (VecZnx.sub o nn h res rsz rsl a asz asl b bsz bsl).mem := by
  obtain ⟨e, _⟩ := sub_nf o nn h res rsz rsl a asz asl b bsz bsl
  rw [e]
  exact frame_of_nf nn res rsz rsl _ (fun i m => size_subK ..) h.mem

theorem rotate_frame (o : Ops α) (nn : Nat) (p : Int) (h : Heap α) (res rsz rsl a asz asl : Nat) :
    (VecZnx.rotate o nn p h res rsz rsl a asz asl).mem.size = h.mem.size ∧
    Frame nn res rsz rsl h.mem (VecZnx.rotate o nn p h res rsz rsl a asz asl).mem := by
  obtain ⟨e, _⟩ := rotate_nf o nn p h res rsz rsl a asz asl
  rw [e]
  exact frame_of_nf nn res rsz rsl _
    (fun i m => size_oneK _ _ _ _ _ _ _ _ (size_rotKer _ _ _ _ _ _ _ _ _ _ (size_readLimb ..))) h.mem

theorem automorphism_frame (o : Ops α) (nn : Nat) (p : Int) (h : Heap α) (res rsz rsl a asz asl : Nat) :
    (VecZnx.automorphism o nn p h res rsz rsl a asz asl).mem.size = h.mem.size ∧
    Frame nn res rsz rsl h.mem (VecZnx.automorphism o nn p h res rsz rsl a asz asl).mem := by
  obtain ⟨e, _⟩ := automorphism_nf o nn p h res rsz rsl a asz asl
  rw [e]
  exact frame_of_nf nn res rsz rsl _
    (fun i m => size_oneK _ _ _ _ _ _ _ _
      (size_autKer _ _ _ _ _ _ _ _ _ _ (size_readLimb ..) (size_readLimb ..))) h.mem

/-! ### source `a` / `b`: limbs of a separate source -/

theorem copy_src_a_readonly (o : Ops α) (nn : Nat) (h : Heap α) (res rsz rsl a asz asl : Nat)
    (hsep : Sep nn res rsz rsl a asz asl) (i c : Nat) (hi : i < asz) (hc : c < nn) :
    (VecZnx.copy o nn h res rsz rsl a asz asl).mem[a + i * asl + c]? = h.mem[a + i * asl + c]? :=
  frame_src (copy_frame o nn h res rsz rsl a asz asl).2 hsep i c hi hc

theorem negate_src_a_readonly (o : Ops α) (nn : Nat) (h : Heap α) (res rsz rsl a asz asl : Nat)
    (hsep : Sep nn res rsz rsl a asz asl) (i c : Nat) (hi : i < asz) (hc : c < nn) :
    (VecZnx.negate o nn h res rsz rsl a asz asl).mem[a + i * asl + c]? = h.mem[a + i * asl + c]? :=
  frame_src (negate_frame o nn h res rsz rsl a asz asl).2 hsep i c hi hc

theorem rotate_src_a_readonly (o : Ops α) (nn : Nat) (p : Int) (h : Heap α) (res rsz rsl a asz asl : Nat)
    (hsep : Sep nn res rsz rsl a asz asl) (i c : Nat) (hi : i < asz) (hc : c < nn) :
    (VecZnx.rotate o nn p h res rsz rsl a asz asl).mem[a + i * asl + c]? = h.mem[a + i * asl + c]? :=
  frame_src (rotate_frame o nn p h res rsz rsl a asz asl).2 hsep i c hi hc

theorem automorphism_src_a_readonly (o : Ops α) (nn : Nat) (p : Int) (h : Heap α) (res rsz rsl a asz asl : Nat)
    (hsep : Sep nn res rsz rsl a asz asl) (i c : Nat) (hi : i < asz) (hc : c < nn) :
    (VecZnx.automorphism o nn p h res rsz rsl a asz asl).mem[a + i * asl + c]? = h.mem[a + i * asl + c]? :=
  frame_src (automorphism_frame o nn p h res rsz rsl a asz asl).2 hsep i c hi hc

/-- `a` separate: unchanged, whatever `b` is (e.g. `b == res`, the in-place call `res += a`) -/
theorem add_src_a_readonly (o : Ops α) (nn : Nat) (h : Heap α) (res rsz rsl a asz asl b bsz bsl : Nat)
    (hsep : Sep nn res rsz rsl a asz asl) (i c : Nat) (hi : i < asz) (hc : c < nn) :
    (VecZnx.add o nn h res rsz rsl a asz asl b bsz bsl).mem[a + i * asl + c]? = h.mem[a + i * asl + c]? :=
  frame_src (add_frame o nn h res rsz rsl a asz asl b bsz bsl).2 hsep i c hi hc

theorem add_src_b_readonly (o : Ops α) (nn : Nat) (h : Heap α) (res rsz rsl a asz asl b bsz bsl : Nat)
    (hsep : Sep nn res rsz rsl b bsz bsl) (i c : Nat) (hi : i < bsz) (hc : c < nn) :
    (VecZnx.add o nn h res rsz rsl a asz asl b bsz bsl).mem[b + i * bsl + c]? = h.mem[b + i * bsl + c]? :=
  frame_src (add_frame o nn h res rsz rsl a asz asl b bsz bsl).2 hsep i c hi hc

theorem sub_src_a_readonly (o : Ops α) (nn : Nat) (h : Heap α) (res rsz rsl a asz asl b bsz bsl : Nat)
    (hsep : Sep nn res rsz rsl a asz asl) (i c : Nat) (hi : i < asz) (hc : c < nn) :
    (VecZnx.sub o nn h res rsz rsl a asz asl b bsz bsl).mem[a + i * asl + c]? = h.mem[a + i * asl + c]? :=
  frame_src (sub_frame o nn h res rsz rsl a asz asl b bsz bsl).2 hsep i c hi hc

theorem sub_src_b_readonly (o : Ops α) (nn : Nat) (h : Heap α) (res rsz rsl a asz asl b bsz bsl : Nat)
    (hsep : Sep nn res rsz rsl b bsz bsl) (i c : Nat) (hi : i < bsz) (hc : c < nn) :
    (VecZnx.sub o nn h res rsz rsl a asz asl b bsz bsl).mem[b + i * bsl + c]? = h.mem[b + i * bsl + c]? :=
  frame_src (sub_frame o nn h res rsz rsl a asz asl b bsz bsl).2 hsep i c hi hc

/-! ### source `a` / `b`: whole extent, stride padding included -/

theorem copy_src_a_extent_readonly (o : Ops α) (nn : Nat) (h : Heap α) (res rsz rsl a asz asl : Nat)
    (hsep : ExtentSep nn res rsz rsl a asz asl) (x : Nat) (h1 : a ≤ x) (h2 : x < a + asz * asl) :
    (VecZnx.copy o nn h res rsz rsl a asz asl).mem[x]? = h.mem[x]? :=
  frame_extent (copy_frame o nn h res rsz rsl a asz asl).2 a (a + asz * asl) hsep x h1 h2

theorem negate_src_a_extent_readonly (o : Ops α) (nn : Nat) (h : Heap α) (res rsz rsl a asz asl : Nat)
    (hsep : ExtentSep nn res rsz rsl a asz asl) (x : Nat) (h1 : a ≤ x) (h2 : x < a + asz * asl) :
    (VecZnx.negate o nn h res rsz rsl a asz asl).mem[x]? = h.mem[x]? :=
  frame_extent (negate_frame o nn h res rsz rsl a asz asl).2 a (a + asz * asl) hsep x h1 h2

theorem rotate_src_a_extent_readonly (o : Ops α) (nn : Nat) (p : Int) (h : Heap α) (res rsz rsl a asz asl : Nat)
    (hsep : ExtentSep nn res rsz rsl a asz asl) (x : Nat) (h1 : a ≤ x) (h2 : x < a + asz * asl) :
    (VecZnx.rotate o nn p h res rsz rsl a asz asl).mem[x]? = h.mem[x]? :=
  frame_extent (rotate_frame o nn p h res rsz rsl a asz asl).2 a (a + asz * asl) hsep x h1 h2

theorem automorphism_src_a_extent_readonly (o : Ops α) (nn : Nat) (p : Int) (h : Heap α)
    (res rsz rsl a asz asl : Nat)
    (hsep : ExtentSep nn res rsz rsl a asz asl) (x : Nat) (h1 : a ≤ x) (h2 : x < a + asz * asl) :
    (VecZnx.automorphism o nn p h res rsz rsl a asz asl).mem[x]? = h.mem[x]? :=
  frame_extent (automorphism_frame o nn p h res rsz rsl a asz asl).2 a (a + asz * asl) hsep x h1 h2

theorem add_src_a_extent_readonly (o : Ops α) (nn : Nat) (h : Heap α) (res rsz rsl a asz asl b bsz bsl : Nat)
    (hsep : ExtentSep nn res rsz rsl a asz asl) (x : Nat) (h1 : a ≤ x) (h2 : x < a + asz * asl) :
    (VecZnx.add o nn h res rsz rsl a asz asl b bsz bsl).mem[x]? = h.mem[x]? :=
  frame_extent (add_frame o nn h res rsz rsl a asz asl b bsz bsl).2 a (a + asz * asl) hsep x h1 h2

theorem add_src_b_extent_readonly (o : Ops α) (nn : Nat) (h : Heap α) (res rsz rsl a asz asl b bsz bsl : Nat)
    (hsep : ExtentSep nn res rsz rsl b bsz bsl) (x : Nat) (h1 : b ≤ x) (h2 : x < b + bsz * bsl) :
    (VecZnx.add o nn h res rsz rsl a asz asl b bsz bsl).mem[x]? = h.mem[x]? :=
  frame_extent (add_frame o nn h res rsz rsl a asz asl b bsz bsl).2 b (b + bsz * bsl) hsep x h1 h2

theorem sub_src_a_extent_readonly (o : Ops α) (nn : Nat) (h : Heap α) (res rsz rsl a asz asl b bsz bsl : Nat)
    (hsep : ExtentSep nn res rsz rsl a asz asl) (x : Nat) (h1 : a ≤ x) (h2 : x < a + asz * asl) :
    (VecZnx.sub o nn h res rsz rsl a asz asl b bsz bsl).mem[x]? = h.mem[x]? :=
  frame_extent (sub_frame o nn h res rsz rsl a asz asl b bsz bsl).2 a (a + asz * asl) hsep x h1 h2

theorem sub_src_b_extent_readonly (o : Ops α) (nn : Nat) (h : Heap α) (res rsz rsl a asz asl b bsz bsl : Nat)
    (hsep : ExtentSep nn res rsz rsl b bsz bsl) (x : Nat) (h1 : b ≤ x) (h2 : x < b + bsz * bsl) :
    (VecZnx.sub o nn h res rsz rsl a asz asl b bsz bsl).mem[x]? = h.mem[x]? :=
  frame_extent (sub_frame o nn h res rsz rsl a asz asl b bsz bsl).2 b (b + bsz * bsl) hsep x h1 h2

/-! ### an aliased source with more limbs than the output: its limbs past `rsz` (and every cell after them) are still untouched
    (e.g. `vec_znx_negate(res, 2, sl, res, 5, sl)` leaves limbs 2..4 alone) -/

theorem negate_aliased_tail_readonly (o : Ops α) (nn : Nat) (h : Heap α) (res rsz rsl asz : Nat)
    (hsl : nn ≤ rsl) (i c : Nat) (hi : rsz ≤ i) :
    (VecZnx.negate o nn h res rsz rsl res asz rsl).mem[res + i * rsl + c]? = h.mem[res + i * rsl + c]? := by
  apply (negate_frame o nn h res rsz rsl res asz rsl).2
  intro j hj
  have : (j + 1) * rsl ≤ i * rsl := Nat.mul_le_mul_right _ (by omega)
  have h2 : (j + 1) * rsl = j * rsl + rsl := by rw [Nat.add_mul, Nat.one_mul]
  omega

/-! ### big-coefficient wrappers: the same functions (strides `nn`), e.g. the mixed forms -/

theorem big_add_small_src_readonly (o : Ops α) (nn : Nat) (h : Heap α) (res rsz a asz b bsz bsl : Nat)
    (hsa : Sep nn res rsz nn a asz nn) (hsb : Sep nn res rsz nn b bsz bsl) (i c : Nat) (hc : c < nn) :
    let h' := VecZnxBig.addSmall o nn h res rsz a asz b bsz bsl
    (i < asz → h'.mem[a + i * nn + c]? = h.mem[a + i * nn + c]?) ∧
    (i < bsz → h'.mem[b + i * bsl + c]? = h.mem[b + i * bsl + c]?) :=
  ⟨fun hi => add_src_a_readonly o nn h res rsz nn a asz nn b bsz bsl hsa i c hi hc,
   fun hi => add_src_b_readonly o nn h res rsz nn a asz nn b bsz bsl hsb i c hi hc⟩

theorem big_sub_small_a_src_readonly (o : Ops α) (nn : Nat) (h : Heap α) (res rsz a asz asl b bsz : Nat)
    (hsa : Sep nn res rsz nn a asz asl) (hsb : Sep nn res rsz nn b bsz nn) (i c : Nat) (hc : c < nn) :
    let h' := VecZnxBig.subSmallA o nn h res rsz a asz asl b bsz
    (i < asz → h'.mem[a + i * asl + c]? = h.mem[a + i * asl + c]?) ∧
    (i < bsz → h'.mem[b + i * nn + c]? = h.mem[b + i * nn + c]?) :=
  ⟨fun hi => sub_src_a_readonly o nn h res rsz nn a asz asl b bsz nn hsa i c hi hc,
   fun hi => sub_src_b_readonly o nn h res rsz nn a asz asl b bsz nn hsb i c hi hc⟩

theorem big_rotate_src_readonly (o : Ops α) (nn : Nat) (p : Int) (h : Heap α) (res rsz a asz : Nat)
    (hsa : Sep nn res rsz nn a asz nn) (i c : Nat) (hi : i < asz) (hc : c < nn) :
    (VecZnxBig.rotate o nn p h res rsz a asz).mem[a + i * nn + c]? = h.mem[a + i * nn + c]? :=
  rotate_src_a_readonly o nn p h res rsz nn a asz nn hsa i c hi hc

theorem big_automorphism_src_readonly (o : Ops α) (nn : Nat) (p : Int) (h : Heap α) (res rsz a asz : Nat)
    (hsa : Sep nn res rsz nn a asz nn) (i c : Nat) (hi : i < asz) (hc : c < nn) :
    (VecZnxBig.automorphism o nn p h res rsz a asz).mem[a + i * nn + c]? = h.mem[a + i * nn + c]? :=
  automorphism_src_a_readonly o nn p h res rsz nn a asz nn hsa i c hi hc

/-! ### the hypotheses are satisfiable: `nn = 2`, res = a at 0 (stride 3, 3 output limbs, `a` has
    1 limb), b at 9 (2 limbs, stride 2): `b` is separate, and its whole extent `[9, 13)` too -/

def exHeap : Heap Int := ⟨#[1, 2, 77, 3, 4, 77, 5, 6, 77, 10, 20, 30, 40], true⟩

example := add_src_b_readonly i64Ops 2 exHeap 0 3 3 0 1 3 9 2 2 (by intro i j hi hj; omega)
example := add_src_b_extent_readonly i64Ops 2 exHeap 0 3 3 0 1 3 9 2 2 (by intro j hj; omega)
example := sub_src_a_readonly i64Ops 2 exHeap 0 3 3 9 2 2 0 1 3 (by intro i j hi hj; omega)
/-- the call `res -= b` (res == a) changes cells 0,1,3,4,6,7 only: padding 2,5,8 and b untouched -/
example : (VecZnx.sub i64Ops 2 exHeap 0 3 3 0 1 3 9 2 2).mem
    = #[-9, -18, 77, -30, -40, 77, 0, 0, 77, 10, 20, 30, 40] := by decide
/-- out-of-place automorphism reading b: b (cells 9..12) untouched -/
example : (VecZnx.automorphism i64Ops 2 3 exHeap 0 3 3 9 2 2).mem
    = #[10, -20, 77, 30, -40, 77, 0, 0, 77, 10, 20, 30, 40] := by decide
/-- frame even for a partially overlapping (unsupported) source: `a` at offset 1 straddles output
    limb 0; the output values are then unspecified but nothing outside cells 0,1,3,4,6,7 moves -/
example := (copy_frame i64Ops 2 exHeap 0 3 3 1 3 3).2

end Spq.C18
