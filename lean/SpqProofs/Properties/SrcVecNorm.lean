/-
  C05 / translator tie, limb-vector normalisation: the C SOURCE of `vec_znx_normalize_base2k_ref`
  (`spqlios/arithmetic/vec_znx.c`), translated on every run (`Gen.CSrc.vec_znx_normalize_base2k_ref`: early returns
  for `res_size == 0` / `a_size == 0`, the pointer locals `cout = (int64_t*)tmp_space` and `cin = NULL`, then
  `cin = cout`, the signed downward loops `for (; i >= res_size; --i)` and `for (; i >= 1; --i)` calling the
  GENERATED term of `znx_normalize` with null / limb / scratch pointers, the last limb, the zero extension),
  simulates the HEAP MODEL `VecZnx.normalize` of `Properties/C05.lean`.

  Setting as in `Properties/SrcVec.lean`: one arena buffer `B` holds the heap `X`; `res`, `a` and the scratch
  `tmp_space` are offsets into it (`tmp_space` is `nn` cells = `vec_znx_normalize_base2k_tmp_bytes`; the model
  keeps the carry as a local value and does not track the scratch, so the theorem says: the arena after the run is
  the model's heap except for the scratch window, whose final content `C` does not depend on the fuel).
  Hypotheses: per limb the result window and the source window of the SAME index are identical or disjoint (the
  model reads the heap sequentially exactly as the C code, so other overlaps are covered by the model itself); the
  scratch window is inside the arena and disjoint from every limb of `res` and `a`; `1 ≤ k ≤ 63`
  (`znx_normalize` shifts by `64 - k` and `k`); limb counts `< 2^63` (the C loop counter is `int64_t`).
-/
import SpqProofs.Lemmas.SrcNormVecMain
import SpqProofs.Lemmas.SrcVecC08
import SpqProofs.Properties.C05
namespace Spq.Src
open Spq Spq.CIR Spq.Heap

theorem src_vec_znx_normalize_base2k_ref_eq_model (nn k rsz rsl asz asl res a t : Nat)
    (hnn : nn < 2305843009213693952) (hk1 : 1 ≤ k) (hk2 : k ≤ 63)
    (hrsz : rsz < 9223372036854775808) (hasz : asz < 9223372036854775808)
    (m0 : Mem) (B : Nat) (hB : B < m0.size) (X : Array Int) (hX : X.size < 18446744073709551616)
    (hA : ∀ i, i < min rsz asz → SameOrDisj nn (res + i * rsl) (a + i * asl))
    (hTr : ∀ i, i < rsz → res + i * rsl + nn ≤ t ∨ t + nn ≤ res + i * rsl)
    (hTa : ∀ i, i < asz → a + i * asl + nn ≤ t ∨ t + nn ≤ a + i * asl)
    (hT : t + nn ≤ X.size)
    (hok : (VecZnx.normalize nn k ⟨X, true⟩ res rsz rsl a asz asl).ok = true) :
    ∃ C : Array Int, C.size = nn ∧ ∀ fuel, asz + rsz + nn ≤ fuel →
        run fuel Gen.CSrc.vec_znx_normalize_base2k_ref
            [(nn : Int), (k : Int), (rsz : Int), (rsl : Int), (asz : Int), (asl : Int)]
            [some (B, res), some (B, a), some (B, t)] (m0.setIfInBounds B X)
          = .ok (m0.setIfInBounds B
              (Heap.writeArr (VecZnx.normalize nn k ⟨X, true⟩ res rsz rsl a asz asl).mem t C)) :=
  normalize_wrapper_run' nn k rsz rsl asz asl res a t hnn hk1 hk2 hrsz hasz m0 B hB X hX hA hTr hTa hT hok

/-- composition with C05/C08: from the declared extents (all `rsz` result limbs and all `asz` source limbs inside
    the heap — the carry pass reads every limb of `a`), the aliasing contract and a scratch window inside the heap
    and disjoint from the limbs, the source-level run never reports an out-of-bounds / null / overlap / ub access,
    for any fuel -/
theorem src_vec_znx_normalize_base2k_ref_no_oob (nn k rsz rsl asz asl res a t : Nat)
    (hnn : nn < 2305843009213693952) (hk1 : 1 ≤ k) (hk2 : k ≤ 63)
    (hrsz : rsz < 9223372036854775808) (hasz : asz < 9223372036854775808)
    (m0 : Mem) (B : Nat) (hB : B < m0.size) (X : Array Int) (hX : X.size < 18446744073709551616)
    (hsl : nn ≤ rsl) (hres : C08.InBounds nn X.size res rsz rsl) (hab : C08.InBounds nn X.size a asz asl)
    (hsa : Heap.SrcOK nn res rsz rsl a asz asl)
    (hTr : ∀ i, i < rsz → res + i * rsl + nn ≤ t ∨ t + nn ≤ res + i * rsl)
    (hTa : ∀ i, i < asz → a + i * asl + nn ≤ t ∨ t + nn ≤ a + i * asl)
    (hT : t + nn ≤ X.size) :
    ∀ fuel e, e ≠ .fuel →
      run fuel Gen.CSrc.vec_znx_normalize_base2k_ref
          [(nn : Int), (k : Int), (rsz : Int), (rsl : Int), (asz : Int), (asl : Int)]
          [some (B, res), some (B, a), some (B, t)] (m0.setIfInBounds B X) ≠ .err e := by
  obtain ⟨C, _, h⟩ := src_vec_znx_normalize_base2k_ref_eq_model nn k rsz rsl asz asl res a t hnn hk1 hk2 hrsz hasz
    m0 B hB X hX (sameOrDisj_of_srcOK nn res rsz rsl a asz asl hsa) hTr hTa hT
    (C05.normalize_no_fault nn k ⟨X, true⟩ res rsz rsl a asz asl hsl hres hsa hab)
  exact run_no_other_error _ _ _ _ _ _ h

/-- `vec_znx_normalize_base2k_tmp_bytes_ref` (value-returning: `return nn * sizeof(int64_t)`): the generated term
    returns `8 * nn` bytes, i.e. exactly the `nn` scratch cells the wrapper theorem above assumes (and the formula
    of `C11.normalize_scratch_fits`); for `nn ≥ 2^61` the C multiplication wraps, as does the term. -/
theorem src_vec_znx_normalize_base2k_tmp_bytes_ref_eq (nn : Nat) (hnn : nn < 18446744073709551616) (m : Mem) :
    ∀ fuel, runVal fuel Gen.CSrc.vec_znx_normalize_base2k_tmp_bytes_ref [(nn : Int)] [] m
      = .ok (some (((8 * nn) % 18446744073709551616 : Nat) : Int)) := by
  intro fuel
  simp only [runVal, Gen.CSrc.vec_znx_normalize_base2k_tmp_bytes_ref, List.length_cons, List.length_nil,
    List.replicate, List.cons_append, List.nil_append, Nat.reduceSub, Nat.reduceAdd]
  cir_simp
  simp only [Option.map_some, lget_succ, lget_zero]
  congr 2
  omega

theorem src_vec_znx_normalize_base2k_tmp_bytes_ref_cells (nn : Nat) (hnn : nn < 2305843009213693952) (m : Mem) :
    ∀ fuel, runVal fuel Gen.CSrc.vec_znx_normalize_base2k_tmp_bytes_ref [(nn : Int)] [] m
      = .ok (some ((8 * nn : Nat) : Int)) := by
  intro fuel
  rw [src_vec_znx_normalize_base2k_tmp_bytes_ref_eq nn (by omega) m fuel,
    Nat.mod_eq_of_lt (by omega)]

end Spq.Src
