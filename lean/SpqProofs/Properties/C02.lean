/-
  C02 — vector-matrix product (VMP) = naive polynomial product for all shapes, exact-arithmetic part.

  The model (`Spq/Module.lean`: `vmpPrepare`, `vmpApplyDftToDft`, `vmpApplyDft`, both prepared layouts, both
  dispatch flavours) is validated bit-exactly against the library in its binary64 instance (stream `md_model`).
  Here it is instantiated with the exact arithmetic of a commutative ring `R` (`ExactArith`), the conversion
  and the FFT stay abstract (`ExactDft`, discharged by C14 / C06).

  `matDft c mat ncols i j` is `fft (fromZnx M[i][j])`, `cx v p q` the complex number in cells `(p, q)`.
-/
import SpqProofs.Lemmas.ModuleVmpExact
import SpqProofs.Lemmas.ModuleExample
namespace Spq.C02
open Finset Spq Spq.Module Reim4
variable {R : Type} [CommRing R]

/-- `layout_inverse`: prepare and apply agree on where (row, col, blk) lives.  For ANY `fft` / `fromZnx`
    (only the size of the DFT of a matrix entry matters, and only for the `nn < 8` layout), both prepared
    layouts (`nn ≥ 8`: reim4 blocks, column pairs, lone last column; `nn < 8`: column-major), both `vmpAvx`
    flavours, every shape `nrows, ncols, asz, rsz ≥ 0` (odd / even column counts, output clipped in the middle
    of a column pair, more outputs than columns, no usable row):
    complex `t` of output column `j < min ncols rsz` is `Σ_{i < min nrows asz} adft_i[t] · fft(M[i][j])[t]`,
    the columns from `min ncols rsz` on are exactly zero. -/
theorem vmp_layout (c : Parts R) (ha : ExactArith c) (mat : Array Int) (nrows ncols rsz asz : Nat) (adft : Array R)
    (hT : c.nn < 8 → ∀ row col, row < nrows → col < ncols → (matDft c mat ncols row col).size = c.nn) :
    (vmpApplyDftToDft c rsz adft asz (vmpPrepare c mat nrows ncols) nrows ncols).size = rsz * c.nn ∧
    (∀ j t, j < min ncols rsz → t < c.m →
      cx (vmpApplyDftToDft c rsz adft asz (vmpPrepare c mat nrows ncols) nrows ncols) (j * c.nn + t) (j * c.nn + t + c.m)
        = ∑ i ∈ range (min nrows asz),
            cx adft (i * c.nn + t) (i * c.nn + t + c.m) * cx (matDft c mat ncols i j) t (t + c.m)) ∧
    (∀ j x, min ncols rsz ≤ j →
      (vmpApplyDftToDft c rsz adft asz (vmpPrepare c mat nrows ncols) nrows ncols).getD (j * c.nn + x) 0 = 0) :=
  vmp_layout_aux c ha mat nrows ncols rsz asz adft hT

/-- `vmp_exact_arith`: under H1–H4, preparing an integer matrix, applying it to an integer vector
    (`vmp_apply_dft`) and taking the inverse DFT gives column `j < min ncols rsz` =
    `Σ_{i < min nrows asz} a_i · M[i][j]` in `ℤ[X]/(X^nn + 1)`; all other output limbs (`j ≥ ncols`, or beyond the
    DFT vector) are exactly zero.  Every shape, stride and `nn = 2m ≥ 2`, both layouts, all dispatch flavours. -/
theorem vmp_exact (c : Parts R) (z : Nat → Cx R) (ha : ExactArith c) (hd : ExactDft c z) (mat : Array Int)
    (nrows ncols : Nat) (hmat : ∀ i j, i < nrows → j < ncols → (matEntry mat ncols c.nn i j).size = c.nn)
    (a : Array Int) (asz asl : Nat) (hlimb : ∀ i, i < min nrows asz → (limbOf a i asl c.nn).size = c.nn) (rsz rsz2 : Nat) :
    (vecIdft c rsz2 (vmpApplyDft c rsz a asz asl (vmpPrepare c mat nrows ncols) nrows ncols) rsz).size = rsz2 * c.nn ∧
    ∀ j, j < rsz2 →
      dlimb (vecIdft c rsz2 (vmpApplyDft c rsz a asz asl (vmpPrepare c mat nrows ncols) nrows ncols) rsz) j c.nn =
        if j < min ncols rsz then
          isum c.nn (min nrows asz) (fun i => nmul c.nn (limbOf a i asl c.nn) (matEntry mat ncols c.nn i j))
        else Array.replicate c.nn 0 :=
  vmp_exact_aux c z ha hd mat nrows ncols hmat a asz asl hlimb rsz rsz2

/-- applying from integer coefficients (`vmp_apply_dft`: DFT of only `min nrows asz` rows into scratch) = applying
    to the `vec_znx_dft` of the whole vector — equal as arrays; any carrier (binary64 included), any prepared
    matrix, both layouts.  Only the sizes of the DFT rows matter (`hsz`). -/
theorem vmp_apply_dft_eq {α : Type} (c : Parts α) (hnn : c.nn = 2 * c.m) (hblk : 8 ≤ c.nn → c.m % 4 = 0) (rsz : Nat)
    (a : Array Int) (asz asl : Nat) (pmat : Array α) (nrows ncols : Nat)
    (hsz : ∀ i, i < asz → (c.fft (c.fromZnx (limbOf a i asl c.nn))).size = c.nn) :
    vmpApplyDft c rsz a asz asl pmat nrows ncols =
      vmpApplyDftToDft c rsz (vecDft c asz a asz asl) asz pmat nrows ncols :=
  vmpApplyDft_eq c hnn hblk rsz a asz asl pmat nrows ncols hsz

/-! ### the hypotheses are satisfiable, the statements are not vacuous -/

/-- reim4 layout: `R = ℤ`, `nn = 8` (`m = 4`), `fft = fromZnx = id`, either flavour -/
example (avx : Bool) : ExactArith (idParts 8 true avx) :=
  idParts_exactArith 4 (by omega) (Or.inl rfl) true avx (fun _ => rfl)
/-- column-major layout with H1–H4: Gaussian integers, `nn = 2` -/
example : ExactArith gaussParts ∧ ExactDft gaussParts (fun _ => Cx.I) := ⟨gauss_exactArith, gauss_exactDft⟩
-- 2×3 matrix (odd column count: one pair + lone column), `nn = 8`: the slots of the prepared matrix
set_option maxRecDepth 8000 in
example : vmpPrepare (idParts 8 false false)
    #[0, 1, 2, 3, 4, 5, 6, 7, 8, 9, 10, 11, 12, 13, 14, 15, 16, 17, 18, 19, 20, 21, 22, 23, 24, 25, 26, 27, 28, 29, 30, 31,
      32, 33, 34, 35, 36, 37, 38, 39, 40, 41, 42, 43, 44, 45, 46, 47] 2 3 =
    #[0, 1, 2, 3, 4, 5, 6, 7, 8, 9, 10, 11, 12, 13, 14, 15, 24, 25, 26, 27, 28, 29, 30, 31, 32, 33, 34, 35, 36, 37, 38, 39,
      16, 17, 18, 19, 20, 21, 22, 23, 40, 41, 42, 43, 44, 45, 46, 47] := by decide
-- the same shape applied to 2 rows, 4 output columns (pair, lone column, one zero column), AVX flavour
set_option maxRecDepth 8000 in
example : vmpApplyDftToDft (idParts 8 false true) 4 #[0, 1, 2, 0, 1, 2, 0, 1, 2, 0, 1, 2, 0, 1, 2, 0] 2
    (vmpPrepare (idParts 8 false true) #[0, 1, 2, 3, 4, 0, 1, 2, 3, 4, 0, 1, 2, 3, 4, 0, 1, 2, 3, 4, 0, 1, 2, 3, 4, 0, 1, 2, 3, 4,
      0, 1, 2, 3, 4, 0, 1, 2, 3, 4, 0, 1, 2, 3, 4, 0, 1, 2] 2 3) 2 3 =
    #[4, -3, 5, 2, 6, 2, 4, 5, 2, -4, -2, 0, 5, 14, 19, 9, 0, 0, 6, 3, 9, 6, 9, 8, 0, 0, 0, 0, 0, 0, 0, 0] := by decide
-- one output column of three (the last computed column is half of a pair), reference flavour
set_option maxRecDepth 8000 in
example : vmpApplyDftToDft (idParts 8 false false) 1 #[0, 1, 2, 0, 1, 2, 0, 1, 2, 0, 1, 2, 0, 1, 2, 0] 2
    (vmpPrepare (idParts 8 false false) #[0, 1, 2, 3, 4, 0, 1, 2, 3, 4, 0, 1, 2, 3, 4, 0, 1, 2, 3, 4, 0, 1, 2, 3, 4, 0, 1, 2, 3, 4,
      0, 1, 2, 3, 4, 0, 1, 2, 3, 4, 0, 1, 2, 3, 4, 0, 1, 2] 2 3) 2 3 = #[4, -3, 5, 2, 6, 2, 4, 5] := by decide
/-- the Gaussian-integer instance: `(1 + 2X)·[[3 + 4X, 1]] ` with one spare output column -/
example : vecIdft gaussParts 3 (vmpApplyDft gaussParts 3 #[1, 2] 1 2 (vmpPrepare gaussParts #[3, 4, 1, 0] 1 2) 1 2) 3
    = #[-5, 10, 1, 2, 0, 0] := by decide

end Spq.C02
