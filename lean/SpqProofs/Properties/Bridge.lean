/-
  Bridge theorems (DESIGN.md §4): the closed coefficient formulas used as specifications in this
  framework ARE the ring `R[X]/(X^n+1)` (Mathlib: `AdjoinRoot (X^n + 1)`), `R` any commutative ring,
  `n > 0` — in particular `Z[X]/(X^N+1)`, `(ZMod q)[X]/(X^N+1)`.

  Property theorems only; helper lemmas: `SpqProofs/Lemmas/Bridge{Basic,Mul,Rot,Aut,Arr,Hom}.lean`.

  Notation (all in `Spq.Bridge`):
   * `Rq R n`  = `AdjoinRoot (X^n + 1 : R[X])`;  `mk n : R[X] →+* Rq R n`;  `root n` = class of `X`;
     `of n : R →+* Rq R n`;  `rootU n hn : (Rq R n)ˣ` = `root n` as a unit (so `rootU ^ p`, `p : ℤ`, is `X^p`);
   * `toPoly n a = Σ_{i<n} C (a i) * X^i` for `a : ℕ → R`;  `ofArr : Array R → (ℕ → R)` (zero outside);
   * `nmul n g h`  (`SpqProofs/Lemmas/NttEval.lean`) — negacyclic product formula (used by C03);
   * `rot n p a`, `mulxp n p a` — `Spq.Rq.rotCoeff`, `Spq.Rq.mulXpCoeff` instantiated with ring operations
     (`rotCoeff_ring`, `mulXpCoeff_ring` below: definitional);  `autExp/autVal` — the scatter formula (C09);
   * `autHom n hn p hp` — the ring endomorphism `X ↦ X^p` of `Rq R n` (`p` odd, any sign).
-/
import SpqProofs.Lemmas.BridgeHom
import SpqProofs.Properties.C09

namespace Spq.Bridge
open Polynomial Finset Spq.Rq Spq.Q120Ntt

variable {R : Type} [CommRing R]

/-! ### 0. the class of `X` -/

/-- `X^n = -1` and `X^(2n) = 1` in `R[X]/(X^n+1)`; hence `X` is a unit (`rootU`) -/
theorem root_pow (n : Nat) : (root n : Rq R n) ^ n = -1 ∧ (root n : Rq R n) ^ (2 * n) = 1 :=
  ⟨root_pow_n n, root_pow_2n n⟩

/-- `X^p` for an integer `p` is `X^(p mod 2n)` -/
theorem rootU_zpow_eq (n : Nat) (hn : 0 < n) (p : Int) :
    (((rootU n hn : (Rq R n)ˣ) ^ p : (Rq R n)ˣ) : Rq R n) = root n ^ (p % ((2 * n : Nat) : Int)).toNat :=
  rootU_zpow_val n hn p

/-! ### 1. product -/

/-- the negacyclic product formula is the product of `R[X]/(X^n+1)` -/
theorem mk_toPoly_nmul (n : Nat) (g h : Nat → R) :
    mk n (toPoly n (nmul n g h)) = mk n (toPoly n g) * mk n (toPoly n h) :=
  mk_toPoly_nmul' n g h

/-! ### 5. uniqueness of the representation -/

/-- two coefficient vectors of length `n` with the same class in `R[X]/(X^n+1)` are equal: equality in the
    quotient ring IS equality of coefficient vectors -/
theorem mk_toPoly_inj (n : Nat) (a b : Nat → R) (h : mk n (toPoly n a) = mk n (toPoly n b)) :
    ∀ i, i < n → a i = b i :=
  toPoly_injective' n a b h

/-- the same for arrays of size `n` -/
theorem mk_toPoly_arr_inj (n : Nat) (a b : Array R) (ha : a.size = n) (hb : b.size = n)
    (h : mk n (toPoly n (ofArr a)) = mk n (toPoly n (ofArr b))) : a = b :=
  arr_eq_of_mk_eq n a b ha hb h

/-- consequently a formula is the product iff it is `nmul`: any `c` representing `a·b` equals `nmul a b` -/
theorem nmul_unique (n : Nat) (g h c : Nat → R)
    (hc : mk n (toPoly n c) = mk n (toPoly n g) * mk n (toPoly n h)) : ∀ i, i < n → c i = nmul n g h i :=
  toPoly_injective' n _ _ (hc.trans (mk_toPoly_nmul' n g h).symm)

/-! ### 2. rotation = multiplication by `X^p`, `p : ℤ` -/

/-- `rotCoeff` with the operations of a ring is `rot` (definitional unfolding) -/
theorem rotCoeff_ring (n : Nat) (p : Int) (a : Array R) (k : Nat) :
    rotCoeff (ringOps R) n p a k = rot n p (ofArr a) k := rfl

/-- the rotation formula is multiplication by the unit `X^p` (negative `p`: by the inverse) -/
theorem mk_toPoly_rot (n : Nat) (hn : 0 < n) (p : Int) (a : Nat → R) :
    mk n (toPoly n (rot n p a)) = ((rootU n hn ^ p : (Rq R n)ˣ) : Rq R n) * mk n (toPoly n a) :=
  mk_toPoly_rot' n hn p a

/-- the same with the natural exponent `p mod 2n` -/
theorem mk_toPoly_rot_nat (n : Nat) (hn : 0 < n) (p : Int) (a : Nat → R) :
    mk n (toPoly n (rot n p a)) = root n ^ (p % ((2 * n : Nat) : Int)).toNat * mk n (toPoly n a) :=
  mk_toPoly_rot_nat' n hn p a

/-- the kernel model `Coeffs.rotate` (= `znx_rotate_i64`, C09 `rotate_spec`), run on a ring, returns the
    coefficient array of `X^p · a` -/
theorem mk_toPoly_rotate_kernel (n : Nat) (hn : 0 < n) (p : Int) (a : Array R) :
    mk n (toPoly n (ofArr (Coeffs.rotate (ringOps R) n p a))) =
      ((rootU n hn ^ p : (Rq R n)ˣ) : Rq R n) * mk n (toPoly n (ofArr a)) := by
  rw [toPoly_ofArr_of_spec n _ _ (C09.rotate_spec (ringOps R) n p a).2]
  exact mk_toPoly_rot' n hn p (ofArr a)

/-! ### 3. `(X^p - 1) · a` -/

theorem mulXpCoeff_ring (n : Nat) (p : Int) (a : Array R) (k : Nat) :
    mulXpCoeff (ringOps R) n p a k = mulxp n p (ofArr a) k := rfl

theorem mk_toPoly_mulxp (n : Nat) (hn : 0 < n) (p : Int) (a : Nat → R) :
    mk n (toPoly n (mulxp n p a)) =
      (((rootU n hn ^ p : (Rq R n)ˣ) : Rq R n) - 1) * mk n (toPoly n a) :=
  mk_toPoly_mulxp' n hn p a

theorem mk_toPoly_mulxp_kernel (n : Nat) (hn : 0 < n) (p : Int) (a : Array R) :
    mk n (toPoly n (ofArr (Coeffs.mulXpMinusOne (ringOps R) n p a))) =
      (((rootU n hn ^ p : (Rq R n)ˣ) : Rq R n) - 1) * mk n (toPoly n (ofArr a)) := by
  rw [toPoly_ofArr_of_spec n _ _ (C09.mulxp_spec (ringOps R) n p a).2]
  exact mk_toPoly_mulxp' n hn p (ofArr a)

/-! ### 4. automorphism `X ↦ X^p`, `p` odd -/

/-- `autHom` is the ring endomorphism of `R[X]/(X^n+1)` that fixes `R` and sends `X` to `X^p`
    (well defined because `(X^p)^n = -1` for odd `p`), and it is the only one -/
theorem autHom_spec (n : Nat) (hn : 0 < n) (p : Int) (hp : Odd p) :
    autHom n hn p hp (root n) = (((rootU n hn : (Rq R n)ˣ) ^ p : (Rq R n)ˣ) : Rq R n) ∧
    (∀ c : R, autHom n hn p hp (of n c) = of n c) ∧
    (∀ g : R[X], autHom n hn p hp (mk n g) =
        eval₂ (of n) (((rootU n hn : (Rq R n)ˣ) ^ p : (Rq R n)ˣ) : Rq R n) g) ∧
    (∀ φ : Rq R n →+* Rq R n, (∀ c, φ (of n c) = of n c) →
        φ (root n) = (((rootU n hn : (Rq R n)ˣ) ^ p : (Rq R n)ˣ) : Rq R n) → φ = autHom n hn p hp) :=
  ⟨autHom_root n hn p hp, autHom_of n hn p hp, autHom_mk n hn p hp, autHom_unique n hn p hp⟩

/-- a vector `b` satisfying the scatter specification (`b[(i·p mod 2n) mod n] = ± a[i]`, minus iff
    `i·p mod 2n ≥ n`) with pairwise distinct positions represents `a(X^p)` -/
theorem mk_toPoly_autom (n : Nat) (hn : 0 < n) (p : Int) (hp : Odd p) (a b : Nat → R)
    (hinj : ∀ i i', i < n → i' < n → autExp n p i % n = autExp n p i' % n → i = i')
    (hb : ∀ i, i < n → b (autExp n p i % n) = if autExp n p i < n then a i else - a i) :
    mk n (toPoly n b) = autHom n hn p hp (mk n (toPoly n a)) :=
  mk_toPoly_autom' n hn p hp a b hinj hb

/-- the positions are pairwise distinct when `p` is coprime to `n` -/
theorem mk_toPoly_autom_coprime (n : Nat) (hn : 0 < n) (p : Int) (hp : Odd p)
    (hc : IsCoprime (n : Int) p) (a b : Nat → R)
    (hb : ∀ i, i < n → b (autExp n p i % n) = if autExp n p i < n then a i else - a i) :
    mk n (toPoly n b) = autHom n hn p hp (mk n (toPoly n a)) :=
  mk_toPoly_autom' n hn p hp a b (autPos_inj_of_coprime n hn p hc) hb

/-- the kernel model `Coeffs.automorphism` (= `znx_automorphism_i64`, C09 `autom_spec`), run on a ring with
    `n = 2^t`, `p` odd, returns the coefficient array of `a(X^p)` -/
theorem mk_toPoly_autom_kernel (t : Nat) (p : Int) (hp : p % 2 = 1) (a res0 : Array R)
    (hr : res0.size = 2 ^ t) :
    mk (2 ^ t) (toPoly (2 ^ t) (ofArr (Coeffs.automorphism (ringOps R) (2 ^ t) p a res0))) =
      autHom (2 ^ t) (Nat.pow_pos (by norm_num)) p (Int.odd_iff.2 hp)
        (mk (2 ^ t) (toPoly (2 ^ t) (ofArr a))) := by
  apply mk_toPoly_autom' (2 ^ t) _ p _ (ofArr a) _ (autPos_inj t p hp)
  intro i hi
  rw [ofArr_of_getElem? _ _ _ ((C09.autom_spec (ringOps R) t p hp a res0 hr).2.1 i hi)]
  rfl

/-! ### 6. the kernels on an arbitrary coefficient type, read through a homomorphism of operations

  `OpsHom o φ`: `φ : α → R` carries `o.zero`, `o.neg`, `o.add`, `o.sub` to zero, negation, sum, difference of the commutative ring `R`.
  `ofArrVia o φ a = fun i => φ (a.getD i o.zero)`.  Instances: `opsHom_id` (a ring itself) and
  `opsHom_i64` (wrapping int64 arithmetic → `ZMod 2^64`). -/

variable {α : Type}

/-- wrapping int64 arithmetic (`i64Ops`, what the C code executes) is the arithmetic of `ZMod 2^64` -/
theorem i64_opsHom : OpsHom i64Ops (fun x : Int => (x : ZMod P64)) := opsHom_i64

/-- `Coeffs.rotate` on any coefficient type computes `X^p · a` in the image ring -/
theorem mk_toPoly_rotate_hom (o : Ops α) (φ : α → R) (h : OpsHom o φ) (n : Nat) (hn : 0 < n) (p : Int)
    (a : Array α) :
    mk n (toPoly n (ofArrVia o φ (Coeffs.rotate o n p a))) =
      ((rootU n hn ^ p : (Rq R n)ˣ) : Rq R n) * mk n (toPoly n (ofArrVia o φ a)) := by
  rw [toPoly_ofArrVia_of_spec o φ n _ _ (C09.rotate_spec o n p a).2,
    toPoly_congr n _ _ (fun k _ => rotCoeff_map o φ h n p a k)]
  exact mk_toPoly_rot' n hn p _

/-- `Coeffs.mulXpMinusOne` on any coefficient type computes `(X^p - 1) · a` in the image ring -/
theorem mk_toPoly_mulxp_hom (o : Ops α) (φ : α → R) (h : OpsHom o φ) (n : Nat) (hn : 0 < n) (p : Int)
    (a : Array α) :
    mk n (toPoly n (ofArrVia o φ (Coeffs.mulXpMinusOne o n p a))) =
      (((rootU n hn ^ p : (Rq R n)ˣ) : Rq R n) - 1) * mk n (toPoly n (ofArrVia o φ a)) := by
  rw [toPoly_ofArrVia_of_spec o φ n _ _ (C09.mulxp_spec o n p a).2,
    toPoly_congr n _ _ (fun k _ => mulXpCoeff_map o φ h n p a k)]
  exact mk_toPoly_mulxp' n hn p _

/-- `Coeffs.automorphism` (`n = 2^t`, `p` odd) on any coefficient type computes `a(X^p)` in the image ring -/
theorem mk_toPoly_autom_hom (o : Ops α) (φ : α → R) (h : OpsHom o φ) (t : Nat) (p : Int) (hp : p % 2 = 1)
    (a res0 : Array α) (hr : res0.size = 2 ^ t) :
    mk (2 ^ t) (toPoly (2 ^ t) (ofArrVia o φ (Coeffs.automorphism o (2 ^ t) p a res0))) =
      autHom (2 ^ t) (Nat.pow_pos (by norm_num)) p (Int.odd_iff.2 hp)
        (mk (2 ^ t) (toPoly (2 ^ t) (ofArrVia o φ a))) := by
  apply mk_toPoly_autom' (2 ^ t) _ p _ (ofArrVia o φ a) _ (autPos_inj t p hp)
  intro i hi
  rw [ofArrVia_of_getElem? o φ _ _ _ ((C09.autom_spec o t p hp a res0 hr).2.1 i hi)]
  exact autVal_map o φ h (2 ^ t) p a i

/-! ### examples: the hypotheses are satisfiable / the formulas are the expected ones on small instances -/

/-- `(g0 + g1 X)(h0 + h1 X) = (g0 h0 - g1 h1) + (g0 h1 + g1 h0) X  mod X^2+1` -/
example (g h : Nat → Int) :
    nmul 2 g h 0 = g 0 * h 0 - g 1 * h 1 ∧ nmul 2 g h 1 = g 0 * h 1 + g 1 * h 0 := by
  constructor
  · simp [nmul, Finset.sum_range_succ]; ring
  · simp [nmul, Finset.sum_range_succ]

/-- `X·a`, `X^{-1}·a`, `X^5·a = -X·a` for `n = 4` -/
example (a : Nat → Int) :
    rot 4 1 a 0 = - a 3 ∧ rot 4 1 a 1 = a 0 ∧ rot 4 (-1) a 3 = - a 0 ∧ rot 4 (-1) a 0 = a 1 ∧
    rot 4 5 a 1 = - a 0 := by
  refine ⟨?_, ?_, ?_, ?_, ?_⟩ <;> simp [rot]

/-- the int64 kernel, `N = 8`, `p = -3`: `X^{-3}·a` in `(Z/2^64)[X]/(X^8+1)` -/
example (a : Array Int) :
    mk 8 (toPoly 8 (ofArrVia i64Ops (fun x : Int => (x : ZMod P64)) (Coeffs.rotate i64Ops 8 (-3) a))) =
      ((rootU 8 (by norm_num) ^ (-3 : Int) : (Rq (ZMod P64) 8)ˣ) : Rq (ZMod P64) 8) *
        mk 8 (toPoly 8 (ofArrVia i64Ops (fun x : Int => (x : ZMod P64)) a)) :=
  mk_toPoly_rotate_hom i64Ops _ i64_opsHom 8 (by norm_num) (-3) a

/-- the automorphism hypotheses hold for `n = 8 = 2^3`, `p = -5`, over `ℤ`, with `b` the kernel's output -/
example (a : Array Int) :
    mk 8 (toPoly 8 (ofArr (Coeffs.automorphism (ringOps Int) (2 ^ 3) (-5) a (Array.replicate 8 0)))) =
      autHom 8 (by norm_num) (-5) ⟨-3, by norm_num⟩ (mk 8 (toPoly 8 (ofArr a))) :=
  mk_toPoly_autom_kernel 3 (-5) (by norm_num) a (Array.replicate 8 0) (by simp)

/-- a modulus that is not a power of two: `n = 6`, `p = 5` is odd and coprime to `n` -/
example : Odd (5 : Int) ∧ IsCoprime ((6 : Nat) : Int) 5 := ⟨⟨2, by norm_num⟩, ⟨1, -1, by norm_num⟩⟩

end Spq.Bridge
