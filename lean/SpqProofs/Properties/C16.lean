/-
  C16 — pipelines of API calls compute the corresponding expression in Z[X]/(X^N+1).

  Property theorems only (definitions: `Spq/Prog.lean`; helper lemmas: `SpqProofs/Lemmas/Prog{Sim,Ops,Vals}.lean`).

  Setting (coefficient-space fragment).  A program is a list of calls `Prog.Op` (add, sub, negate, copy,
  rotate, automorphism, normalize) on variables that are region descriptors `(off, size, stride)` of one
  int64 heap; the destination of a call may be one of its sources (the C code then takes its in-place
  paths) or another variable.
   * `cstep`  = the heap model of `vec_znx.c` with wrapping int64 arithmetic;
   * `astep`  = exact arithmetic on integer polynomials: pointwise `±`, `X^p·a` (`polyRot`), `a(X^p)`
                (`polyAut` = `Σ a_i X^(ip)` reduced with `X^N = -1`), balanced base-`2^k` digits
                (`balancedDigits`, the specification of C05), sources zero-extended and the result
                truncated to the destination's limb count;
   * `WF`     = layout: `N = 2^t`, strides `≥ N`, all limbs inside the heap, distinct variables disjoint;
   * `InBudget` = along the abstract run every call is well-formed (`OpOK`) and every coefficient it stores
                fits an int64, inputs of `normalize` are `≤ 2^62` in absolute value, `k ∈ [1,62]`;
   * `R`      = heap cell `(v, i, c)` holds `env v i c`, heap size fixed, no out-of-bounds access so far.

  `coeff_prog_refines`: ∀ layouts, ∀ programs, ∀ inputs: `WF → InBudget → R env h → R (run astep) (run cstep)`.
  The per-call simulation theorems `*_sim` are derived from the C08 (value + frame + bounds), C09
  (rotation / automorphism = ring maps; in-place = out-of-place) and C05 (normalize = balanced digits)
  specifications.
-/
import SpqProofs.Lemmas.ProgVals
import SpqProofs.Lemmas.ProgCheck
import SpqProofs.Lemmas.ProgDft
import SpqProofs.Lemmas.ProgRaw
import SpqProofs.Lemmas.ProgToy
namespace Spq.C16
open Spq Heap Spq.C08 Spq.Prog

variable {nn hsz : Nat} {vars : List Var}

/-! ### 1. one call: the concrete step simulates the abstract step -/

theorem add_sim (wf : WF nn hsz vars) (env : Env) (h : Heap Int) (d a b : Var)
    (hpre : OpPre nn vars (.add d a b) env) (hR : R nn hsz vars env h) :
    R nn hsz vars (astep nn (.add d a b) env) (cstep nn (.add d a b) h) := by
  obtain ⟨⟨hd, hs, -⟩, hfit, -⟩ := hpre
  have ha : a ∈ vars := hs a (by simp [Op.srcs])
  have hb : b ∈ vars := hs b (by simp [Op.srcs])
  have hsz := hR.1
  obtain ⟨s1, s2, s3⟩ := add_spec i64Ops nn h d.off d.size d.stride a.off a.size a.stride b.off b.size
    b.stride (wf.stride d hd) (hsz ▸ inBounds_of_wf wf d hd _ (Nat.le_refl _))
    (srcOK_of_wf wf d a hd ha) (srcOK_of_wf wf d b hd hb)
  have nf := add_no_fault i64Ops nn h d.off d.size d.stride a.off a.size a.stride b.off b.size b.stride
    (hsz ▸ inBounds_of_wf wf d hd _ (Nat.le_refl _)) (hsz ▸ inBounds_of_wf wf a ha _ (Nat.min_le_left _ _))
    (hsz ▸ inBounds_of_wf wf b hb _ (Nat.min_le_left _ _))
  refine R_step wf env h _ d hd _ hR s1 nf (fun i c hi hc => ?_) s3
  exact (s2 i c hi hc).trans (congrArg some (addVal_abs hR a b ha hb i c hc (hfit i c hi hc)))

theorem sub_sim (wf : WF nn hsz vars) (env : Env) (h : Heap Int) (d a b : Var)
    (hpre : OpPre nn vars (.sub d a b) env) (hR : R nn hsz vars env h) :
    R nn hsz vars (astep nn (.sub d a b) env) (cstep nn (.sub d a b) h) := by
  obtain ⟨⟨hd, hs, -⟩, hfit, -⟩ := hpre
  have ha : a ∈ vars := hs a (by simp [Op.srcs])
  have hb : b ∈ vars := hs b (by simp [Op.srcs])
  have hsz := hR.1
  obtain ⟨s1, s2, s3⟩ := sub_spec i64Ops nn h d.off d.size d.stride a.off a.size a.stride b.off b.size
    b.stride (wf.stride d hd) (hsz ▸ inBounds_of_wf wf d hd _ (Nat.le_refl _))
    (srcOK_of_wf wf d a hd ha) (srcOK_of_wf wf d b hd hb)
  have nf := sub_no_fault i64Ops nn h d.off d.size d.stride a.off a.size a.stride b.off b.size b.stride
    (hsz ▸ inBounds_of_wf wf d hd _ (Nat.le_refl _)) (hsz ▸ inBounds_of_wf wf a ha _ (Nat.min_le_left _ _))
    (hsz ▸ inBounds_of_wf wf b hb _ (Nat.min_le_left _ _))
  refine R_step wf env h _ d hd _ hR s1 nf (fun i c hi hc => ?_) s3
  exact (s2 i c hi hc).trans (congrArg some (subVal_abs hR a b ha hb i c hc (hfit i c hi hc)))

theorem negate_sim (wf : WF nn hsz vars) (env : Env) (h : Heap Int) (d a : Var)
    (hpre : OpPre nn vars (.negate d a) env) (hR : R nn hsz vars env h) :
    R nn hsz vars (astep nn (.negate d a) env) (cstep nn (.negate d a) h) := by
  obtain ⟨⟨hd, hs, -⟩, hfit, -⟩ := hpre
  have ha : a ∈ vars := hs a (by simp [Op.srcs])
  have hsz := hR.1
  obtain ⟨s1, s2, s3⟩ := negate_spec i64Ops nn h d.off d.size d.stride a.off a.size a.stride
    (wf.stride d hd) (hsz ▸ inBounds_of_wf wf d hd _ (Nat.le_refl _)) (srcOK_of_wf wf d a hd ha)
  have nf := negate_no_fault i64Ops nn h d.off d.size d.stride a.off a.size a.stride
    (hsz ▸ inBounds_of_wf wf d hd _ (Nat.le_refl _)) (hsz ▸ inBounds_of_wf wf a ha _ (Nat.min_le_left _ _))
  refine R_step wf env h _ d hd _ hR s1 nf (fun i c hi hc => ?_) s3
  exact (s2 i c hi hc).trans (congrArg some (negVal_abs hR a ha i c hc (hfit i c hi hc)))

theorem copy_sim (wf : WF nn hsz vars) (env : Env) (h : Heap Int) (d a : Var)
    (hpre : OpPre nn vars (.copy d a) env) (hR : R nn hsz vars env h) :
    R nn hsz vars (astep nn (.copy d a) env) (cstep nn (.copy d a) h) := by
  obtain ⟨⟨hd, hs, -⟩, -, -⟩ := hpre
  have ha : a ∈ vars := hs a (by simp [Op.srcs])
  have hsz := hR.1
  obtain ⟨s1, s2, s3⟩ := copy_spec i64Ops nn h d.off d.size d.stride a.off a.size a.stride
    (wf.stride d hd) (hsz ▸ inBounds_of_wf wf d hd _ (Nat.le_refl _)) (srcOK_of_wf wf d a hd ha)
  have nf := copy_no_fault i64Ops nn h d.off d.size d.stride a.off a.size a.stride
    (hsz ▸ inBounds_of_wf wf d hd _ (Nat.le_refl _)) (hsz ▸ inBounds_of_wf wf a ha _ (Nat.min_le_left _ _))
  refine R_step wf env h _ d hd _ hR s1 nf (fun i c hi hc => ?_) s3
  exact (s2 i c hi hc).trans (congrArg some (copyVal_abs hR a ha i c hc))

/-- rotation by any `p : Int`: `d = a` runs the cycle-walking in-place kernel, `d ≠ a` the four-loop
    out-of-place kernel; both store `X^p · a` -/
theorem rotate_sim (wf : WF nn hsz vars) (env : Env) (h : Heap Int) (p : Int) (d a : Var)
    (hpre : OpPre nn vars (.rotate p d a) env) (hR : R nn hsz vars env h) :
    R nn hsz vars (astep nn (.rotate p d a) env) (cstep nn (.rotate p d a) h) := by
  obtain ⟨⟨hd, hs, -⟩, hfit, -⟩ := hpre
  have ha : a ∈ vars := hs a (by simp [Op.srcs])
  have hsz := hR.1
  have hn : 0 < nn := by obtain ⟨t, rfl⟩ := wf.pow2; exact Nat.pow_pos (by omega)
  obtain ⟨s1, s2, s3⟩ := rotate_spec i64Ops nn p h d.off d.size d.stride a.off a.size a.stride
    (wf.stride d hd) (hsz ▸ inBounds_of_wf wf d hd _ (Nat.le_refl _)) (srcOK_of_wf wf d a hd ha)
  have nf := rotate_no_fault i64Ops nn p h d.off d.size d.stride a.off a.size a.stride
    (hsz ▸ inBounds_of_wf wf d hd _ (Nat.le_refl _)) (hsz ▸ inBounds_of_wf wf a ha _ (Nat.min_le_left _ _))
  refine R_step wf env h _ d hd _ hR s1 nf (fun i c hi hc => ?_) s3
  exact (s2 i c hi hc).trans (rotLimb_abs hn hR p d a ha i c hc (hfit i c hi hc))

/-- automorphism `X ↦ X^p`, odd `p`: `d = a` runs the in-place kernel (valuation classes, paired orbit
    walks), `d ≠ a` the scatter, whose result does not depend on the prior content of `d` -/
theorem automorphism_sim (wf : WF nn hsz vars) (env : Env) (h : Heap Int) (p : Int) (d a : Var)
    (hpre : OpPre nn vars (.automorphism p d a) env) (hR : R nn hsz vars env h) :
    R nn hsz vars (astep nn (.automorphism p d a) env) (cstep nn (.automorphism p d a) h) := by
  obtain ⟨⟨hd, hs, hp, hfuel⟩, hfit, -⟩ := hpre
  have ha : a ∈ vars := hs a (by simp [Op.srcs])
  have hsz := hR.1
  obtain ⟨s1, s2, s3⟩ := automorphism_spec i64Ops nn p h d.off d.size d.stride a.off a.size a.stride
    (wf.stride d hd) (hsz ▸ inBounds_of_wf wf d hd _ (Nat.le_refl _)) (srcOK_of_wf wf d a hd ha)
  have nf := automorphism_no_fault i64Ops nn p h d.off d.size d.stride a.off a.size a.stride
    (hsz ▸ inBounds_of_wf wf d hd _ (Nat.le_refl _)) (hsz ▸ inBounds_of_wf wf a ha _ (Nat.min_le_left _ _))
  refine R_step wf env h _ d hd _ hR s1 nf (fun i c hi hc => ?_) s3
  refine (s2 i c hi hc).trans ?_
  obtain ⟨t, rfl⟩ := wf.pow2
  refine autLimb_abs t hR p hp d a ha i c (fun hia e => ?_) hc (hfit i c hi hc)
  by_cases hda : d = a
  · have := hfuel hda
    exact (Nat.pow_le_pow_iff_right (by omega : 1 < 2)).1 (by simpa using this)
  · have hn : 0 < 2 ^ t := Nat.pow_pos (by omega)
    have := wf.disj d hd a ha hda i i hi hia
    omega

/-- normalize, `k ∈ [1,62]`, inputs `≤ 2^62`: the stored limbs are the balanced digits of all `a.size`
    input limbs (dropped low limbs still propagate their carry), zero beyond `a.size`; in place or not -/
theorem normalize_sim (wf : WF nn hsz vars) (env : Env) (h : Heap Int) (k : Nat) (d a : Var)
    (hpre : OpPre nn vars (.normalize k d a) env) (hR : R nn hsz vars env h) :
    R nn hsz vars (astep nn (.normalize k d a) env) (cstep nn (.normalize k d a) h) := by
  obtain ⟨⟨hd, hs, hk1, hk2⟩, -, hb⟩ := hpre
  have ha : a ∈ vars := hs a (by simp [Op.srcs])
  have hsz := hR.1
  have hres : InBounds nn h.mem.size d.off d.size d.stride := hsz ▸ inBounds_of_wf wf d hd _ (Nat.le_refl _)
  obtain ⟨s1, s2, s3⟩ := C05.normalize_spec nn k hk1 hk2 h d.off d.size d.stride a.off a.size a.stride
    (wf.stride d hd) hres (srcOK_of_wf wf d a hd ha)
    (fun i c hi hc => by rw [getD_of_R hR a ha i c hi hc]; exact hb i c hi hc)
  have nf := C05.normalize_no_fault nn k h d.off d.size d.stride a.off a.size a.stride
    (wf.stride d hd) hres (srcOK_of_wf wf d a hd ha) (hsz ▸ inBounds_of_wf wf a ha _ (Nat.le_refl _))
  refine R_step wf env h _ d hd _ hR s1 nf (fun i c hi hc => ?_) s3
  exact (s2 i c hi hc).trans (congrArg some (digitCell_abs hR k d a ha i c hc))

/-- every call of the fragment -/
theorem step_refines (wf : WF nn hsz vars) (op : Op) (env : Env) (h : Heap Int)
    (hpre : OpPre nn vars op env) (hR : R nn hsz vars env h) :
    R nn hsz vars (astep nn op env) (cstep nn op h) := by
  cases op with
  | add d a b => exact add_sim wf env h d a b hpre hR
  | sub d a b => exact sub_sim wf env h d a b hpre hR
  | negate d a => exact negate_sim wf env h d a hpre hR
  | copy d a => exact copy_sim wf env h d a hpre hR
  | rotate p d a => exact rotate_sim wf env h p d a hpre hR
  | automorphism p d a => exact automorphism_sim wf env h p d a hpre hR
  | normalize k d a => exact normalize_sim wf env h k d a hpre hR

/-! ### 2. programs -/

/-- **Refinement, coefficient-space fragment.**  For every well-formed layout, every program whose abstract
    run stays inside the budget, every environment and every heap representing it: the heap after running
    the model of the library represents the environment after running the exact interpreter. -/
theorem coeff_prog_refines (wf : WF nn hsz vars) (ops : List Op) (env : Env) (h : Heap Int)
    (hb : InBudget nn vars ops env) (hR : R nn hsz vars env h) :
    R nn hsz vars (run (astep nn) ops env) (run (cstep nn) ops h) :=
  sim_run (astep nn) (cstep nn) (R nn hsz vars) (OpPre nn vars)
    (fun op a s hpre hr => step_refines wf op a s hpre hr) ops env h hb hR

/-- read-back form: every output limb of every declared variable equals, coefficient by coefficient, the
    exact expression in Z[X]/(X^N+1) computed by the abstract interpreter; the heap keeps its size and no
    access of the run was out of bounds -/
theorem coeff_prog_output (wf : WF nn hsz vars) (ops : List Op) (env : Env) (h : Heap Int)
    (hb : InBudget nn vars ops env) (hR : R nn hsz vars env h) (v : Var) (hv : v ∈ vars) :
    (run (cstep nn) ops h).ok = true ∧ (run (cstep nn) ops h).mem.size = hsz ∧
    ∀ i c, i < v.size → c < nn →
      (readVar nn (run (cstep nn) ops h) v).coef i c = (run (astep nn) ops env v).coef i c := by
  have r := coeff_prog_refines wf ops env h hb hR
  refine ⟨r.2.1, r.1, fun i c hi hc => ?_⟩
  unfold readVar
  rw [coef_mk _ _ _ _ _ hi hc]
  exact getD_of_R r v hv i c hi hc

/-! ### 3. mixed programs: DFT-space layer, modulo the soundness of the DFT-space functions

    Full statement aimed at (`prog_refines`): for the binary64 module `Cfg.parts`, every mixed program
    whose abstract run stays inside the C01 precision budget refines its abstract semantics.  What is proved
    here is that statement *relative to* `S : DftOpsSound c nn` — the record of the per-function facts
    `dft_exact`, `svp_prepare_exact`, `svp_exact`, `vmp_prepare_exact`, `vmp_exact`, `vmp_dd_exact`
    (`vmp_apply_dft_to_dft`, `OpD.vmpDD`), `dft_idft_exact`, `small_product_exact` about the module-level model (the C01 / C02 theorems, proved separately: exact
    arithmetic with budgets `True`, binary64 with the C01 bounds), together with the representation
    relations `RepV/RepS/RepM` they are stated with.  Everything else — reading operands from the heap with
    their strides, storing results, frames, the interplay with the coefficient-space calls, opaque objects
    being valid inputs of every later call — is proved.  `RD` also carries the provenance of raw transforms (a
    `VEC_ZNX_DFT` variable whose static tag `AState.raw` is set is, bit for bit, `vec_znx_dft` of its exact limbs:
    `Lemmas/ProgRaw.lean`), which `vmp_dd_exact` may use.  The record is instantiated for the exact FFT network in
    `Properties/Closed.lean` (all budgets `True`, products of products included) and for the binary64 module
    `Cfg.parts` in `Properties/C16Err.lean` (`dftOpsSound_f64`: the C01Err / C02Err budgets). -/

variable {α : Type}

theorem stepD_refines_partial {c : Module.Parts α} (S : DftOpsSound c nn) (wf : WF nn hsz vars)
    (op : OpD) (a : AState) (s : CState α) (hpre : PreD S vars op a) (hR : RD S hsz vars a s) :
    RD S hsz vars (astepD nn op a) (cstepD c nn op s) := by
  obtain ⟨r1, r2, r3, r4, r5⟩ := hR
  -- the provenance conjunct survives a call that writes the DFT variable `d` with a product (tag cleared)
  have clear : ∀ (d : DVar) (P0 : Val) (x0 : Array α) (v : DVar) (az : Nat),
      upd a.raw d none v = some az → ∃ P, upd a.dvec d (some P0) v = some P ∧
        upd s.dvec d x0 v = Module.vecDft c v.size (flatOf nn v.size fun i t => P.coef i t) (min az v.size) nn := by
    intro d P0 x0 v az hv
    by_cases e : v = d
    · subst e
      rw [upd_same] at hv
      cases hv
    · rw [upd_other _ _ _ _ e] at hv
      rw [upd_other _ _ _ _ e, upd_other _ _ _ _ e]
      exact r5 v az hv
  cases op with
  | coeff op => exact ⟨step_refines wf op a.env s.heap hpre r1, r2, r3, r4, r5⟩
  | dft d x =>
    obtain ⟨hx, hb⟩ := hpre
    have hag := flat_agree wf r1 x hx
    refine ⟨r1, fun v P hv => ?_, r3, r4, fun v az hv => ?_⟩
    · by_cases e : v = d
      · subst e
        simp only [astepD, cstepD, upd_same] at hv ⊢
        cases hv
        exact S.dft_exact _ _ _ _ _ (wf.stride x hx) hag hb
      · simp only [astepD, cstepD, upd_other _ _ _ _ e] at hv ⊢
        exact r2 v P hv
    · by_cases e : v = d
      · subst e
        simp only [astepD, cstepD, upd_same] at hv ⊢
        cases hv
        exact ⟨_, rfl, vecDft_raw c nn S.nn_eq v.size _ x.size x.stride _ hag⟩
      · simp only [astepD, cstepD, upd_other _ _ _ _ e] at hv ⊢
        exact r5 v az hv
  | svpPrepare k x =>
    obtain ⟨hx, h0, hb⟩ := hpre
    refine ⟨r1, r2, fun j sp hj => ?_, r4, r5⟩
    by_cases e : j = k
    · subst e
      simp only [astepD, cstepD, upd_same] at hj ⊢
      cases hj
      have := S.svp_prepare_exact _ _ (fun t ht => flat_limb0 wf r1 x hx h0 t ht) hb
      simpa [Prog.ext, h0] using this
    · simp only [astepD, cstepD, upd_other _ _ _ _ e] at hj ⊢
      exact r3 j sp hj
  | svp d k x =>
    obtain ⟨hx, sp, hk, hb⟩ := hpre
    refine ⟨r1, fun v P hv => ?_, r3, r4, fun v az hv => ?_⟩
    · by_cases e : v = d
      · subst e
        simp only [astepD, cstepD, upd_same, hk, Option.getD_some] at hv ⊢
        cases hv
        exact S.svp_exact _ _ _ _ _ sp _ (wf.stride x hx) (flat_agree wf r1 x hx) (r3 k sp hk) hb
      · simp only [astepD, cstepD, upd_other _ _ _ _ e] at hv ⊢
        exact r2 v P hv
    · simp only [astepD, cstepD] at hv ⊢
      exact clear d _ _ v az hv
  | vmpPrepare m x =>
    obtain ⟨hx, hst, hsz', hb⟩ := hpre
    refine ⟨r1, r2, r3, fun j M hj => ?_, r5⟩
    by_cases e : j = m
    · subst e
      simp only [astepD, cstepD, upd_same] at hj ⊢
      cases hj
      have ag := flat_agree wf r1 x hx
      rw [hst, hsz'] at ag
      have := S.vmp_prepare_exact _ _ _ _ ag hb
      have e2 : Val.mk nn (j.nrows * j.ncols) (ext a.env x) =
          Val.mk nn (j.nrows * j.ncols) (fun i t => (a.env x).coef i t) := by
        unfold Val.mk
        congr 1; funext i; congr 1; funext t
        have := i.isLt
        simp [Prog.ext, hsz', this]
      rw [e2]; exact this
    · simp only [astepD, cstepD, upd_other _ _ _ _ e] at hj ⊢
      exact r4 j M hj
  | vmp d x m =>
    obtain ⟨hx, M, hm, hb⟩ := hpre
    refine ⟨r1, fun v P hv => ?_, r3, r4, fun v az hv => ?_⟩
    · by_cases e : v = d
      · subst e
        simp only [astepD, cstepD, upd_same, hm, Option.getD_some] at hv ⊢
        cases hv
        exact S.vmp_exact _ _ _ v.size _ M _ m.nrows m.ncols (wf.stride x hx) (flat_agree wf r1 x hx)
          (r4 m M hm) hb
      · simp only [astepD, cstepD, upd_other _ _ _ _ e] at hv ⊢
        exact r2 v P hv
    · simp only [astepD, cstepD] at hv ⊢
      exact clear d _ _ v az hv
  | vmpDD d x m =>
    obtain ⟨-, P, M, hP, hm, hb⟩ := hpre
    refine ⟨r1, fun v Q hv => ?_, r3, r4, fun v az hv => ?_⟩
    · by_cases e : v = d
      · subst e
        simp only [astepD, cstepD, upd_same, hP, hm, Option.getD_some] at hv ⊢
        cases hv
        refine S.vmp_dd_exact P x.size v.size (s.dvec x) M _ m.nrows m.ncols (a.raw x) (r2 x P hP) ?_ (r4 m M hm) hb
        intro az haz
        obtain ⟨P', hP', hd⟩ := r5 x az haz
        rw [hP] at hP'
        cases hP'
        exact hd
      · simp only [astepD, cstepD, upd_other _ _ _ _ e] at hv ⊢
        exact r2 v Q hv
    · simp only [astepD, cstepD] at hv ⊢
      exact clear d _ _ v az hv
  | idft d x =>
    obtain ⟨hd, P, hP, hb⟩ := hpre
    refine ⟨?_, r2, r3, r4, r5⟩
    have hres : InBounds nn s.heap.mem.size d.off d.size d.stride :=
      r1.1 ▸ inBounds_of_wf wf d hd _ (Nat.le_refl _)
    obtain ⟨s1, s2, s3, s4⟩ := storeVec_spec (nn := nn) s.heap d
      (Module.vecIdft c d.size (s.dvec x) x.size) (wf.stride d hd) hres
    simp only [astepD, cstepD, hP, Option.getD_some]
    refine R_step wf a.env s.heap _ d hd _ r1 s1 s2 (fun i t hi ht => ?_) s4
    rw [s3 i t hi ht, S.dft_idft_exact P x.size d.size (s.dvec x) (r2 x P hP) hb i t hi ht]
  | smallProduct d x y =>
    obtain ⟨hd, hx, hy, hd1, hx0, hy0, hb⟩ := hpre
    refine ⟨?_, r2, r3, r4, r5⟩
    have hres : InBounds nn s.heap.mem.size d.off d.size d.stride :=
      r1.1 ▸ inBounds_of_wf wf d hd _ (Nat.le_refl _)
    obtain ⟨s1, s2, s3, s4⟩ := storeVec_spec (nn := nn) s.heap d
      (Module.smallProduct c (Module.limbOf (flat s.heap x) 0 x.stride nn)
        (Module.limbOf (flat s.heap y) 0 y.stride nn)) (wf.stride d hd) hres
    simp only [astepD, cstepD]
    refine R_step wf a.env s.heap _ d hd _ r1 s1 s2 (fun i t hi ht => ?_) s4
    have hi0 : i = 0 := by omega
    subst hi0
    rw [s3 0 t hi ht, Nat.zero_mul, Nat.zero_add,
      S.small_product_exact _ _ _ _ (fun t ht => flat_limb0 wf r1 x hx hx0 t ht)
        (fun t ht => flat_limb0 wf r1 y hy hy0 t ht) hb t ht]
    have ex : Prog.ext a.env x 0 = (a.env x).coef 0 := by funext t; exact ext_of_lt _ _ _ _ hx0
    have ey : Prog.ext a.env y 0 = (a.env y).coef 0 := by funext t; exact ext_of_lt _ _ _ _ hy0
    rw [ex, ey]

/-- **Refinement of mixed programs, relative to `DftOpsSound`.**  (Named `_partial` because the fields of
    `S` are hypotheses here; with `S` instantiated by the C01/C02 theorems this is `prog_refines`.)
    For every module `c`, every `S : DftOpsSound c nn`, every well-formed layout, every mixed program whose
    abstract run satisfies `PreD` (coefficient-space budget + the budgets of `S`) at every step: the final
    implementation state represents the final abstract state — the heap holds the exact integer limbs, and
    every opaque object written by the program represents the exact polynomial vector. -/
theorem prog_refines_partial {c : Module.Parts α} (S : DftOpsSound c nn) (wf : WF nn hsz vars)
    (ops : List OpD) (a : AState) (s : CState α)
    (hb : Guarded (PreD S vars) (astepD nn) ops a) (hR : RD S hsz vars a s) :
    RD S hsz vars (run (astepD nn) ops a) (run (cstepD c nn) ops s) :=
  sim_run (astepD nn) (cstepD c nn) (RD S hsz vars) (PreD S vars)
    (fun op a s hpre hr => stepD_refines_partial S wf op a s hpre hr) ops a s hb hR

/-- read-back form for the integer outputs of a mixed program -/
theorem prog_output_partial {c : Module.Parts α} (S : DftOpsSound c nn) (wf : WF nn hsz vars)
    (ops : List OpD) (a : AState) (s : CState α)
    (hb : Guarded (PreD S vars) (astepD nn) ops a) (hR : RD S hsz vars a s) (v : Var) (hv : v ∈ vars) :
    ∀ i t, i < v.size → t < nn →
      (readVar nn (run (cstepD c nn) ops s).heap v).coef i t = ((run (astepD nn) ops a).env v).coef i t := by
  have r := (prog_refines_partial S wf ops a s hb hR).1
  intro i t hi ht
  unfold readVar
  rw [coef_mk _ _ _ _ _ hi ht]
  exact getD_of_R r v hv i t hi ht

/-! ### 4. the hypotheses are satisfiable: `N = 4`, a heap of 22 cells, three variables
    `x` (2 limbs, stride 4), `y` (2 limbs, stride 5: one padding cell), `z` (1 limb); the program
    `x := x + y` (in place); `z := X^5 · x` (truncated to one limb); `y := y(X^3)` (in place);
    `x := normalize_base2^4 (x)` (in place) -/

def exX : Var := ⟨0, 2, 4⟩
def exY : Var := ⟨8, 2, 5⟩
def exZ : Var := ⟨18, 1, 4⟩
def exVars : List Var := [exX, exY, exZ]
def exHeap : Heap Int :=
  ⟨#[1, -2, 3, 100,  5, 6, -7, 8,   10, 20, 30, 40, 77,  50, 60, 70, -80, 77,  9, 9, 9, 9], true⟩
def exEnv : Env := fun v => readVar 4 exHeap v
def exProg : List Op :=
  [.add exX exX exY, .rotate 5 exZ exX, .automorphism 3 exY exY, .normalize 4 exX exX]

example : WF 4 22 exVars := WFb_sound _ _ _ (by decide)
example : InBudget 4 exVars exProg exEnv := InBudgetb_sound _ _ _ _ (by decide)
example : R 4 22 exVars exEnv exHeap := Rb_sound _ _ _ _ _ (by decide)

/-- both interpreters, evaluated: the heap after the model of the library (padding cells 12, 17 intact) … -/
example : (run (cstep 4) exProg exHeap).mem =
    #[-2, 6, 5, -8,  7, 2, -1, -8,   10, 40, -30, 20, 77,  50, -80, -70, 60, 77,  140, -11, -18, -33] := by
  decide +kernel
/-- … and the exact interpreter.  `x + y = (11+18X+33X²+140X³, 55+66X+63X²-72X³)`; `X^5·x₀ = -X·x₀ =
    140-11X-18X²-33X³`; `y₀(X³) = 10+40X-30X²+20X³`; base-16 digits of `x`, e.g. coefficient 3:
    `-72 = -4·16 - 8`, `140 - 4 = 9·16 - 8`, digits `(-8, -8)` -/
example : (run (astep 4) exProg exEnv exX, run (astep 4) exProg exEnv exY, run (astep 4) exProg exEnv exZ) =
    (#[#[-2, 6, 5, -8], #[7, 2, -1, -8]], #[#[10, 40, -30, 20], #[50, -80, -70, 60]],
     #[#[140, -11, -18, -33]]) := by
  decide +kernel
/-- the theorem instantiated -/
example : R 4 22 exVars (run (astep 4) exProg exEnv) (run (cstep 4) exProg exHeap) :=
  coeff_prog_refines (WFb_sound _ _ _ (by decide)) exProg exEnv exHeap
    (InBudgetb_sound _ _ _ _ (by decide)) (Rb_sound _ _ _ _ _ (by decide))
/-- the budget is a real hypothesis: with `x₀[3] = 2^63 - 10` the first sum leaves the int64 range; the
    library wraps, the exact interpreter does not, and `InBudget`'s checker rejects the run -/
example : let h : Heap Int := ⟨exHeap.mem.set! 3 9223372036854775798, true⟩
    InBudgetb 4 exVars exProg (fun v => readVar 4 h v) = false ∧
    (run (cstep 4) [.add exX exX exY] h).mem[3]? = some (-9223372036854775778) ∧
    (run (astep 4) [.add exX exX exY] (fun v => readVar 4 h v) exX).coef 0 3 = 9223372036854775838 := by
  decide +kernel

/-! ### 5. `DftOpsSound` is inhabited (`toySound`: identity-transform module, dft/idft inside the budget,
    products outside), and a mixed program through it: `x := x + y; D := dft(x); z := idft(D)` (truncated
    to one limb, stride `N`); `z := -z` -/

def exD : DVar := ⟨0, 2⟩
def exProgD : List OpD := [.coeff (.add exX exX exY), .dft exD exX, .idft exZ exD, .coeff (.negate exZ exZ)]
def exA : AState := ⟨exEnv, fun _ => none, fun _ => none, fun _ => none, fun _ => none⟩
def exS : CState Int := ⟨exHeap, fun _ => #[], fun _ => #[], fun _ => #[]⟩

example : RD (toySound 4) 22 exVars (run (astepD 4) exProgD exA) (run (cstepD (toyParts 4) 4) exProgD exS) :=
  prog_refines_partial (toySound 4) (WFb_sound _ _ _ (by decide)) exProgD exA exS
    ⟨⟨OpOKb_sound _ _ _ (by decide), OpBudgetb_sound _ _ _ (by decide)⟩,
     ⟨by decide, trivial⟩,
     ⟨by decide, _, rfl, trivial⟩,
     ⟨OpOKb_sound _ _ _ (by decide), OpBudgetb_sound _ _ _ (by decide +kernel)⟩, trivial⟩
    (RD_init (toySound 4) exEnv exS (Rb_sound _ _ _ _ _ (by decide)))

example : (run (cstepD (toyParts 4) 4) exProgD exS).heap.mem =
    #[11, 18, 33, 140,  55, 66, 63, -72,   10, 20, 30, 40, 77,  50, 60, 70, -80, 77,  -11, -18, -33, -140] := by
  decide +kernel
example : (run (astepD 4) exProgD exA).env exZ = #[#[-11, -18, -33, -140]] := by decide +kernel

end Spq.C16
