/-
  C08 — vec_znx size/stride semantics: zero-extend, truncate, write only res limbs.

  Property theorems only (helper lemmas are in SpqProofs/Lemmas).  Every theorem quantifies over
  all ring dimensions `nn`, all limb counts (including 0), all strides `≥ nn`, all offsets, all heap
  contents and any coefficient type/arithmetic `o : Ops α` (so in particular wrapping int64).

  For each operation `op`:
   * value:  output limb `i < rsz`, coefficient `c < nn` equals the operation applied to the input
             limbs `i`, an input with fewer limbs being treated as absent (zero);
   * frame:  every cell that is not one of the `nn` coefficients of the first `rsz` output limbs is
             unchanged — stride padding, limbs past `rsz`, and the inputs unless aliased;
   * bounds: if the declared extents lie inside the heap the model's out-of-bounds flag stays clear.
  A source may be the output itself (same offset and stride, `SrcOK` left disjunct) or disjoint.
-/
import SpqProofs.Lemmas.VecOps
import SpqProofs.Lemmas.VecBig
namespace Spq.C08
open Spq Heap
variable {α : Type}

/-! ### add -/

/-- value of output coefficient `(i, c)` of an addition -/
def addVal (o : Ops α) (m : Array α) (a asz asl b bsz bsl i c : Nat) : α :=
  if i < asz ∧ i < bsz then o.add (m.getD (a + i * asl + c) o.zero) (m.getD (b + i * bsl + c) o.zero)
  else if i < bsz then m.getD (b + i * bsl + c) o.zero
  else if i < asz then m.getD (a + i * asl + c) o.zero
  else o.zero

theorem add_spec (o : Ops α) (nn : Nat) (h : Heap α) (res rsz rsl a asz asl b bsz bsl : Nat)
    (hsl : nn ≤ rsl) (hres : InBounds nn h.mem.size res rsz rsl)
    (ha : SrcOK nn res rsz rsl a asz asl) (hb : SrcOK nn res rsz rsl b bsz bsl) :
    let h' := VecZnx.add o nn h res rsz rsl a asz asl b bsz bsl
    h'.mem.size = h.mem.size ∧
    (∀ i c, i < rsz → c < nn →
      h'.mem[res + i * rsl + c]? = some (addVal o h.mem a asz asl b bsz bsl i c)) ∧
    Frame nn res rsz rsl h.mem h'.mem := by
  intro h'
  obtain ⟨e, _⟩ := add_nf o nn h res rsz rsl a asz asl b bsz bsl
  have g := vec_generic nn res rsz rsl a asz asl b bsz bsl o.zero (addK o nn asz bsz)
    (by intro i x y z; unfold addK; repeat' split
        all_goals simp)
    (by intro i hi x x' y z
        have c3 : ¬ i < asz := by omega
        simp [addK, c3])
    (by intro i hi x y y' z
        have c3 : ¬ i < bsz := by omega
        simp [addK, c3])
    h.mem hsl hres ha hb
  simp only at g
  show (VecZnx.add o nn h res rsz rsl a asz asl b bsz bsl).mem.size = _ ∧ _
  rw [e]
  obtain ⟨g1, g2, g3⟩ := g
  refine ⟨g1, ?_, g3⟩
  intro i c hi hc
  rw [g2 i c hi hc]
  unfold addK addVal
  split
  · simp [Coeffs.add, hc, readLimb, Nat.add_assoc]
  · split
    · simp [Coeffs.copy, hc, readLimb, Nat.add_assoc]
    · split
      · simp [Coeffs.copy, hc, readLimb, Nat.add_assoc]
      · simp [Coeffs.zero, hc]

/-- bounds: with every declared extent inside the heap, no access of the model is out of bounds -/
theorem add_no_fault (o : Ops α) (nn : Nat) (h : Heap α) (res rsz rsl a asz asl b bsz bsl : Nat)
    (hres : InBounds nn h.mem.size res rsz rsl)
    (ha : InBounds nn h.mem.size a (min asz rsz) asl) (hb : InBounds nn h.mem.size b (min bsz rsz) bsl) :
    (VecZnx.add o nn h res rsz rsl a asz asl b bsz bsl).ok = h.ok := by
  obtain ⟨_, e⟩ := add_nf o nn h res rsz rsl a asz asl b bsz bsl
  rw [e, all_range_true, Bool.and_true]
  intro i hi
  have r1 := hres i hi
  unfold addB
  split
  · rename_i c; have := ha i (by omega); have := hb i (by omega); simp; omega
  · split
    · have := hb i (by omega); simp; omega
    · split
      · have := ha i (by omega); simp; omega
      · simp; omega

/-! ### common shape of the statements -/

/-- post-condition of a limb-vector operation writing `rsz` limbs of `nn` cells at `res`, stride
    `rsl`: the heap keeps its size, output coefficient `(i, c)` holds `val i c`, every other cell
    (stride padding, limbs past `rsz`, sources that are not the output) is unchanged. -/
def VecPost (nn : Nat) (m m' : Array α) (res rsz rsl : Nat) (val : Nat → Nat → Option α) : Prop :=
  m'.size = m.size ∧
  (∀ i c, i < rsz → c < nn → m'[res + i * rsl + c]? = val i c) ∧
  Frame nn res rsz rsl m m'

/-! ### zero -/

theorem zero_spec (o : Ops α) (nn : Nat) (h : Heap α) (res rsz rsl : Nat)
    (hsl : nn ≤ rsl) (hres : InBounds nn h.mem.size res rsz rsl) :
    VecPost nn h.mem (VecZnx.zero o nn h res rsz rsl).mem res rsz rsl (fun _ _ => some o.zero) := by
  obtain ⟨e, _⟩ := zero_nf o nn h res rsz rsl
  have g := oneSrc_generic o nn (fun _ x _ => x) (fun _ _ _ hx _ => hx) h.mem res rsz rsl res 0 rsl
    hsl hres (Or.inl ⟨rfl, rfl⟩)
  simp only at g
  unfold VecPost
  rw [e]
  obtain ⟨g1, g2, g3⟩ := g
  refine ⟨g1, ?_, g3⟩
  intro i c hi hc
  rw [g2 i c hi hc]
  simp [oneK, Coeffs.zero, hc]

theorem zero_no_fault (o : Ops α) (nn : Nat) (h : Heap α) (res rsz rsl : Nat)
    (hres : InBounds nn h.mem.size res rsz rsl) :
    (VecZnx.zero o nn h res rsz rsl).ok = h.ok := by
  obtain ⟨_, e⟩ := zero_nf o nn h res rsz rsl
  rw [e, oneB_true nn h.mem.size res rsz rsl res 0 rsl hres (fun i hi => by omega), Bool.and_true]

/-! ### copy -/

/-- value of output coefficient `(i, c)` of a copy: the source limb, or zero past `asz` -/
def copyVal (o : Ops α) (m : Array α) (a asz asl i c : Nat) : α :=
  if i < asz then m.getD (a + i * asl + c) o.zero else o.zero

theorem copy_spec (o : Ops α) (nn : Nat) (h : Heap α) (res rsz rsl a asz asl : Nat)
    (hsl : nn ≤ rsl) (hres : InBounds nn h.mem.size res rsz rsl)
    (ha : SrcOK nn res rsz rsl a asz asl) :
    VecPost nn h.mem (VecZnx.copy o nn h res rsz rsl a asz asl).mem res rsz rsl
      (fun i c => some (copyVal o h.mem a asz asl i c)) := by
  obtain ⟨e, _⟩ := copy_nf o nn h res rsz rsl a asz asl
  have g := oneSrc_generic o nn (fun _ x _ => Coeffs.copy o nn x) (fun _ _ _ _ _ => by simp)
    h.mem res rsz rsl a asz asl hsl hres ha
  simp only at g
  unfold VecPost
  rw [e]
  obtain ⟨g1, g2, g3⟩ := g
  refine ⟨g1, ?_, g3⟩
  intro i c hi hc
  rw [g2 i c hi hc]
  show _ = some (copyVal o h.mem a asz asl i c)
  unfold oneK copyVal
  split
  · simp [Coeffs.copy, hc, readLimb, Nat.add_assoc]
  · simp [Coeffs.zero, hc]

theorem copy_no_fault (o : Ops α) (nn : Nat) (h : Heap α) (res rsz rsl a asz asl : Nat)
    (hres : InBounds nn h.mem.size res rsz rsl) (ha : InBounds nn h.mem.size a (min asz rsz) asl) :
    (VecZnx.copy o nn h res rsz rsl a asz asl).ok = h.ok := by
  obtain ⟨_, e⟩ := copy_nf o nn h res rsz rsl a asz asl
  rw [e, oneB_true nn h.mem.size res rsz rsl a asz asl hres ha, Bool.and_true]

/-! ### negate -/

def negVal (o : Ops α) (m : Array α) (a asz asl i c : Nat) : α :=
  if i < asz then o.neg (m.getD (a + i * asl + c) o.zero) else o.zero

theorem negate_spec (o : Ops α) (nn : Nat) (h : Heap α) (res rsz rsl a asz asl : Nat)
    (hsl : nn ≤ rsl) (hres : InBounds nn h.mem.size res rsz rsl)
    (ha : SrcOK nn res rsz rsl a asz asl) :
    VecPost nn h.mem (VecZnx.negate o nn h res rsz rsl a asz asl).mem res rsz rsl
      (fun i c => some (negVal o h.mem a asz asl i c)) := by
  obtain ⟨e, _⟩ := negate_nf o nn h res rsz rsl a asz asl
  have g := oneSrc_generic o nn (fun _ x _ => Coeffs.negate o nn x) (fun _ _ _ _ _ => by simp)
    h.mem res rsz rsl a asz asl hsl hres ha
  simp only at g
  unfold VecPost
  rw [e]
  obtain ⟨g1, g2, g3⟩ := g
  refine ⟨g1, ?_, g3⟩
  intro i c hi hc
  rw [g2 i c hi hc]
  show _ = some (negVal o h.mem a asz asl i c)
  unfold oneK negVal
  split
  · simp [Coeffs.negate, hc, readLimb, Nat.add_assoc]
  · simp [Coeffs.zero, hc]

theorem negate_no_fault (o : Ops α) (nn : Nat) (h : Heap α) (res rsz rsl a asz asl : Nat)
    (hres : InBounds nn h.mem.size res rsz rsl) (ha : InBounds nn h.mem.size a (min asz rsz) asl) :
    (VecZnx.negate o nn h res rsz rsl a asz asl).ok = h.ok := by
  obtain ⟨_, e⟩ := negate_nf o nn h res rsz rsl a asz asl
  rw [e, oneB_true nn h.mem.size res rsz rsl a asz asl hres ha, Bool.and_true]

/-! ### sub -/

/-- value of output coefficient `(i, c)` of a subtraction: `a - b`, `-b` past `asz`, `a` past `bsz` -/
def subVal (o : Ops α) (m : Array α) (a asz asl b bsz bsl i c : Nat) : α :=
  if i < asz ∧ i < bsz then o.sub (m.getD (a + i * asl + c) o.zero) (m.getD (b + i * bsl + c) o.zero)
  else if i < bsz then o.neg (m.getD (b + i * bsl + c) o.zero)
  else if i < asz then m.getD (a + i * asl + c) o.zero
  else o.zero

theorem sub_spec (o : Ops α) (nn : Nat) (h : Heap α) (res rsz rsl a asz asl b bsz bsl : Nat)
    (hsl : nn ≤ rsl) (hres : InBounds nn h.mem.size res rsz rsl)
    (ha : SrcOK nn res rsz rsl a asz asl) (hb : SrcOK nn res rsz rsl b bsz bsl) :
    VecPost nn h.mem (VecZnx.sub o nn h res rsz rsl a asz asl b bsz bsl).mem res rsz rsl
      (fun i c => some (subVal o h.mem a asz asl b bsz bsl i c)) := by
  obtain ⟨e, _⟩ := sub_nf o nn h res rsz rsl a asz asl b bsz bsl
  have g := vec_generic nn res rsz rsl a asz asl b bsz bsl o.zero (subK o nn asz bsz)
    (size_subK o nn asz bsz)
    (by intro i hi x x' y z
        have c3 : ¬ i < asz := by omega
        simp [subK, c3])
    (by intro i hi x y y' z
        have c3 : ¬ i < bsz := by omega
        simp [subK, c3])
    h.mem hsl hres ha hb
  simp only at g
  unfold VecPost
  rw [e]
  obtain ⟨g1, g2, g3⟩ := g
  refine ⟨g1, ?_, g3⟩
  intro i c hi hc
  rw [g2 i c hi hc]
  show _ = some (subVal o h.mem a asz asl b bsz bsl i c)
  unfold subK subVal
  split
  · simp [Coeffs.sub, hc, readLimb, Nat.add_assoc]
  · split
    · simp [Coeffs.negate, hc, readLimb, Nat.add_assoc]
    · split
      · simp [Coeffs.copy, hc, readLimb, Nat.add_assoc]
      · simp [Coeffs.zero, hc]

theorem sub_no_fault (o : Ops α) (nn : Nat) (h : Heap α) (res rsz rsl a asz asl b bsz bsl : Nat)
    (hres : InBounds nn h.mem.size res rsz rsl)
    (ha : InBounds nn h.mem.size a (min asz rsz) asl) (hb : InBounds nn h.mem.size b (min bsz rsz) bsl) :
    (VecZnx.sub o nn h res rsz rsl a asz asl b bsz bsl).ok = h.ok := by
  obtain ⟨_, e⟩ := sub_nf o nn h res rsz rsl a asz asl b bsz bsl
  rw [e, addB_true nn h.mem.size res rsz rsl a asz asl b bsz bsl hres ha hb, Bool.and_true]

/-! ### rotate: per limb, the in-place kernel iff the two limb pointers are equal -/

/-- output limb `i` of `vec_znx_rotate`: the kernel chosen by the pointer-equality test of the C
    code applied to limb `i` of `a` (content before the call), or zero past `asz` -/
def rotLimb (o : Ops α) (nn : Nat) (p : Int) (h : Heap α) (res rsl a asz asl i : Nat) : Array α :=
  if i < asz then
    if res + i * rsl = a + i * asl then Coeffs.rotateInplace o nn p (h.readLimb o.zero (a + i * asl) nn)
    else Coeffs.rotate o nn p (h.readLimb o.zero (a + i * asl) nn)
  else Coeffs.zero o nn

theorem rotate_spec (o : Ops α) (nn : Nat) (p : Int) (h : Heap α) (res rsz rsl a asz asl : Nat)
    (hsl : nn ≤ rsl) (hres : InBounds nn h.mem.size res rsz rsl)
    (ha : SrcOK nn res rsz rsl a asz asl) :
    VecPost nn h.mem (VecZnx.rotate o nn p h res rsz rsl a asz asl).mem res rsz rsl
      (fun i c => (rotLimb o nn p h res rsl a asz asl i)[c]?) := by
  obtain ⟨e, _⟩ := rotate_nf o nn p h res rsz rsl a asz asl
  have g := oneSrc_generic o nn (rotKer o nn p res rsl a asl)
    (fun i x z hx _ => size_rotKer o nn p res rsl a asl i x z hx)
    h.mem res rsz rsl a asz asl hsl hres ha
  simp only at g
  unfold VecPost
  rw [e]
  obtain ⟨g1, g2, g3⟩ := g
  refine ⟨g1, ?_, g3⟩
  intro i c hi hc
  rw [g2 i c hi hc]
  rfl

/-- past `asz` the output limb is zero; the limb always has `nn` coefficients -/
theorem rotLimb_size (o : Ops α) (nn : Nat) (p : Int) (h : Heap α) (res rsl a asz asl i : Nat) :
    (rotLimb o nn p h res rsl a asz asl i).size = nn := by
  unfold rotLimb; repeat' split
  all_goals simp

theorem rotLimb_zero_ext (o : Ops α) (nn : Nat) (p : Int) (h : Heap α) (res rsl a asz asl i c : Nat)
    (hi : asz ≤ i) (hc : c < nn) : (rotLimb o nn p h res rsl a asz asl i)[c]? = some o.zero := by
  have : ¬ i < asz := by omega
  simp [rotLimb, this, Coeffs.zero, hc]

theorem rotate_no_fault (o : Ops α) (nn : Nat) (p : Int) (h : Heap α) (res rsz rsl a asz asl : Nat)
    (hres : InBounds nn h.mem.size res rsz rsl) (ha : InBounds nn h.mem.size a (min asz rsz) asl) :
    (VecZnx.rotate o nn p h res rsz rsl a asz asl).ok = h.ok := by
  obtain ⟨_, e⟩ := rotate_nf o nn p h res rsz rsl a asz asl
  rw [e, oneB_true nn h.mem.size res rsz rsl a asz asl hres ha, Bool.and_true]

/-! ### automorphism -/

/-- output limb `i` of `vec_znx_automorphism`: the in-place kernel if the limb pointers are equal,
    else the out-of-place scatter — which starts from the prior content of output limb `i` (the C
    kernel never initialises the output; for odd `p` every cell is overwritten, see C09) -/
def autLimb (o : Ops α) (nn : Nat) (p : Int) (h : Heap α) (res rsl a asz asl i : Nat) : Array α :=
  if i < asz then
    if res + i * rsl = a + i * asl then Coeffs.automorphismInplace o nn p (h.readLimb o.zero (a + i * asl) nn)
    else Coeffs.automorphism o nn p (h.readLimb o.zero (a + i * asl) nn) (h.readLimb o.zero (res + i * rsl) nn)
  else Coeffs.zero o nn

theorem automorphism_spec (o : Ops α) (nn : Nat) (p : Int) (h : Heap α) (res rsz rsl a asz asl : Nat)
    (hsl : nn ≤ rsl) (hres : InBounds nn h.mem.size res rsz rsl)
    (ha : SrcOK nn res rsz rsl a asz asl) :
    VecPost nn h.mem (VecZnx.automorphism o nn p h res rsz rsl a asz asl).mem res rsz rsl
      (fun i c => (autLimb o nn p h res rsl a asz asl i)[c]?) := by
  obtain ⟨e, _⟩ := automorphism_nf o nn p h res rsz rsl a asz asl
  have g := oneSrc_generic o nn (autKer o nn p res rsl a asl)
    (fun i x z hx hz => size_autKer o nn p res rsl a asl i x z hx hz)
    h.mem res rsz rsl a asz asl hsl hres ha
  simp only at g
  unfold VecPost
  rw [e]
  obtain ⟨g1, g2, g3⟩ := g
  refine ⟨g1, ?_, g3⟩
  intro i c hi hc
  rw [g2 i c hi hc]
  rfl

theorem autLimb_size (o : Ops α) (nn : Nat) (p : Int) (h : Heap α) (res rsl a asz asl i : Nat) :
    (autLimb o nn p h res rsl a asz asl i).size = nn := by
  unfold autLimb; repeat' split
  all_goals simp

theorem autLimb_zero_ext (o : Ops α) (nn : Nat) (p : Int) (h : Heap α) (res rsl a asz asl i c : Nat)
    (hi : asz ≤ i) (hc : c < nn) : (autLimb o nn p h res rsl a asz asl i)[c]? = some o.zero := by
  have : ¬ i < asz := by omega
  simp [autLimb, this, Coeffs.zero, hc]

theorem automorphism_no_fault (o : Ops α) (nn : Nat) (p : Int) (h : Heap α) (res rsz rsl a asz asl : Nat)
    (hres : InBounds nn h.mem.size res rsz rsl) (ha : InBounds nn h.mem.size a (min asz rsz) asl) :
    (VecZnx.automorphism o nn p h res rsz rsl a asz asl).ok = h.ok := by
  obtain ⟨_, e⟩ := automorphism_nf o nn p h res rsz rsl a asz asl
  rw [e, oneB_true nn h.mem.size res rsz rsl a asz asl hres ha, Bool.and_true]

/-! ### int64: "an input with fewer limbs is treated as zero", literally

    `ext m a asz asl i c` is coefficient `c` of limb `i` of the zero-extension of the vector
    `(a, asz, asl)`.  For wrapping int64 arithmetic and cells holding int64 values, the output of
    every operation is the operation applied to the zero-extended inputs. -/

/-- coefficient `(i, c)` of the zero-extended input vector -/
def ext (m : Array Int) (a asz asl i c : Nat) : Int :=
  if i < asz then m.getD (a + i * asl + c) 0 else 0

/-- the value fits an int64 cell -/
abbrev I64 (x : Int) : Prop := -9223372036854775808 ≤ x ∧ x < 9223372036854775808

theorem copyVal_zero_ext (m : Array Int) (a asz asl i c : Nat) :
    copyVal i64Ops m a asz asl i c = ext m a asz asl i c := rfl

theorem negVal_zero_ext (m : Array Int) (a asz asl i c : Nat) :
    negVal i64Ops m a asz asl i c = negS (ext m a asz asl i c) := by
  unfold negVal ext
  split
  · rfl
  · simp [i64Ops, negS, wrapS]

theorem addVal_zero_ext (m : Array Int) (a asz asl b bsz bsl i c : Nat)
    (ha : I64 (m.getD (a + i * asl + c) 0)) (hb : I64 (m.getD (b + i * bsl + c) 0)) :
    addVal i64Ops m a asz asl b bsz bsl i c = addS (ext m a asz asl i c) (ext m b bsz bsl i c) := by
  unfold I64 at ha hb
  unfold addVal ext
  simp only [show i64Ops.zero = (0 : Int) from rfl]
  revert ha hb
  generalize m.getD (a + i * asl + c) 0 = x
  generalize m.getD (b + i * bsl + c) 0 = y
  intro ha hb
  by_cases h1 : i < asz <;> by_cases h2 : i < bsz <;> simp [h1, h2, i64Ops, addS, wrapS] <;> omega

theorem subVal_zero_ext (m : Array Int) (a asz asl b bsz bsl i c : Nat)
    (ha : I64 (m.getD (a + i * asl + c) 0)) :
    subVal i64Ops m a asz asl b bsz bsl i c = subS (ext m a asz asl i c) (ext m b bsz bsl i c) := by
  unfold I64 at ha
  unfold subVal ext
  simp only [show i64Ops.zero = (0 : Int) from rfl]
  revert ha
  generalize m.getD (a + i * asl + c) 0 = x
  generalize m.getD (b + i * bsl + c) 0 = y
  intro ha
  by_cases h1 : i < asz <;> by_cases h2 : i < bsz <;> simp [h1, h2, i64Ops, subS, negS, wrapS] <;> omega

/-- every cell of the heap holds an int64 value -/
def HeapI64 (m : Array Int) : Prop := ∀ x, I64 (m.getD x 0)

theorem add_zero_extend (nn : Nat) (h : Heap Int) (res rsz rsl a asz asl b bsz bsl : Nat)
    (hsl : nn ≤ rsl) (hres : InBounds nn h.mem.size res rsz rsl)
    (ha : SrcOK nn res rsz rsl a asz asl) (hb : SrcOK nn res rsz rsl b bsz bsl)
    (h64 : HeapI64 h.mem) (i c : Nat) (hi : i < rsz) (hc : c < nn) :
    (VecZnx.add i64Ops nn h res rsz rsl a asz asl b bsz bsl).mem[res + i * rsl + c]? =
      some (addS (ext h.mem a asz asl i c) (ext h.mem b bsz bsl i c)) := by
  rw [(add_spec i64Ops nn h res rsz rsl a asz asl b bsz bsl hsl hres ha hb).2.1 i c hi hc,
    addVal_zero_ext _ _ _ _ _ _ _ _ _ (h64 _) (h64 _)]

theorem sub_zero_extend (nn : Nat) (h : Heap Int) (res rsz rsl a asz asl b bsz bsl : Nat)
    (hsl : nn ≤ rsl) (hres : InBounds nn h.mem.size res rsz rsl)
    (ha : SrcOK nn res rsz rsl a asz asl) (hb : SrcOK nn res rsz rsl b bsz bsl)
    (h64 : HeapI64 h.mem) (i c : Nat) (hi : i < rsz) (hc : c < nn) :
    (VecZnx.sub i64Ops nn h res rsz rsl a asz asl b bsz bsl).mem[res + i * rsl + c]? =
      some (subS (ext h.mem a asz asl i c) (ext h.mem b bsz bsl i c)) := by
  have e := (sub_spec i64Ops nn h res rsz rsl a asz asl b bsz bsl hsl hres ha hb).2.1 i c hi hc
  replace e : _ = some _ := e
  rw [e, subVal_zero_ext _ _ _ _ _ _ _ _ _ (h64 _)]

theorem negate_zero_extend (nn : Nat) (h : Heap Int) (res rsz rsl a asz asl : Nat)
    (hsl : nn ≤ rsl) (hres : InBounds nn h.mem.size res rsz rsl)
    (ha : SrcOK nn res rsz rsl a asz asl) (i c : Nat) (hi : i < rsz) (hc : c < nn) :
    (VecZnx.negate i64Ops nn h res rsz rsl a asz asl).mem[res + i * rsl + c]? =
      some (negS (ext h.mem a asz asl i c)) := by
  have e := (negate_spec i64Ops nn h res rsz rsl a asz asl hsl hres ha).2.1 i c hi hc
  replace e : _ = some _ := e
  rw [e, negVal_zero_ext]

theorem copy_zero_extend (nn : Nat) (h : Heap Int) (res rsz rsl a asz asl : Nat)
    (hsl : nn ≤ rsl) (hres : InBounds nn h.mem.size res rsz rsl)
    (ha : SrcOK nn res rsz rsl a asz asl) (i c : Nat) (hi : i < rsz) (hc : c < nn) :
    (VecZnx.copy i64Ops nn h res rsz rsl a asz asl).mem[res + i * rsl + c]? =
      some (ext h.mem a asz asl i c) := by
  have e := (copy_spec i64Ops nn h res rsz rsl a asz asl hsl hres ha).2.1 i c hi hc
  replace e : _ = some _ := e
  rw [e, copyVal_zero_ext]

/-! ### big-coefficient wrappers (vec_znx_big.c:101-201): the same functions, big operands having
    stride `nn` — so the stride hypothesis `nn ≤ rsl` is always met by the wrapper itself -/

theorem big_add_spec (o : Ops α) (nn : Nat) (h : Heap α) (res rsz a asz b bsz : Nat)
    (hres : InBounds nn h.mem.size res rsz nn)
    (ha : SrcOK nn res rsz nn a asz nn) (hb : SrcOK nn res rsz nn b bsz nn) :
    VecPost nn h.mem (VecZnxBig.add o nn h res rsz a asz b bsz).mem res rsz nn
      (fun i c => some (addVal o h.mem a asz nn b bsz nn i c)) :=
  add_spec o nn h res rsz nn a asz nn b bsz nn (Nat.le_refl _) hres ha hb

theorem big_add_small_spec (o : Ops α) (nn : Nat) (h : Heap α) (res rsz a asz b bsz bsl : Nat)
    (hres : InBounds nn h.mem.size res rsz nn)
    (ha : SrcOK nn res rsz nn a asz nn) (hb : SrcOK nn res rsz nn b bsz bsl) :
    VecPost nn h.mem (VecZnxBig.addSmall o nn h res rsz a asz b bsz bsl).mem res rsz nn
      (fun i c => some (addVal o h.mem a asz nn b bsz bsl i c)) :=
  add_spec o nn h res rsz nn a asz nn b bsz bsl (Nat.le_refl _) hres ha hb

theorem big_add_small2_spec (o : Ops α) (nn : Nat) (h : Heap α) (res rsz a asz asl b bsz bsl : Nat)
    (hres : InBounds nn h.mem.size res rsz nn)
    (ha : SrcOK nn res rsz nn a asz asl) (hb : SrcOK nn res rsz nn b bsz bsl) :
    VecPost nn h.mem (VecZnxBig.addSmall2 o nn h res rsz a asz asl b bsz bsl).mem res rsz nn
      (fun i c => some (addVal o h.mem a asz asl b bsz bsl i c)) :=
  add_spec o nn h res rsz nn a asz asl b bsz bsl (Nat.le_refl _) hres ha hb

theorem big_sub_spec (o : Ops α) (nn : Nat) (h : Heap α) (res rsz a asz b bsz : Nat)
    (hres : InBounds nn h.mem.size res rsz nn)
    (ha : SrcOK nn res rsz nn a asz nn) (hb : SrcOK nn res rsz nn b bsz nn) :
    VecPost nn h.mem (VecZnxBig.sub o nn h res rsz a asz b bsz).mem res rsz nn
      (fun i c => some (subVal o h.mem a asz nn b bsz nn i c)) :=
  sub_spec o nn h res rsz nn a asz nn b bsz nn (Nat.le_refl _) hres ha hb

theorem big_sub_small_b_spec (o : Ops α) (nn : Nat) (h : Heap α) (res rsz a asz b bsz bsl : Nat)
    (hres : InBounds nn h.mem.size res rsz nn)
    (ha : SrcOK nn res rsz nn a asz nn) (hb : SrcOK nn res rsz nn b bsz bsl) :
    VecPost nn h.mem (VecZnxBig.subSmallB o nn h res rsz a asz b bsz bsl).mem res rsz nn
      (fun i c => some (subVal o h.mem a asz nn b bsz bsl i c)) :=
  sub_spec o nn h res rsz nn a asz nn b bsz bsl (Nat.le_refl _) hres ha hb

theorem big_sub_small_a_spec (o : Ops α) (nn : Nat) (h : Heap α) (res rsz a asz asl b bsz : Nat)
    (hres : InBounds nn h.mem.size res rsz nn)
    (ha : SrcOK nn res rsz nn a asz asl) (hb : SrcOK nn res rsz nn b bsz nn) :
    VecPost nn h.mem (VecZnxBig.subSmallA o nn h res rsz a asz asl b bsz).mem res rsz nn
      (fun i c => some (subVal o h.mem a asz asl b bsz nn i c)) :=
  sub_spec o nn h res rsz nn a asz asl b bsz nn (Nat.le_refl _) hres ha hb

theorem big_sub_small2_spec (o : Ops α) (nn : Nat) (h : Heap α) (res rsz a asz asl b bsz bsl : Nat)
    (hres : InBounds nn h.mem.size res rsz nn)
    (ha : SrcOK nn res rsz nn a asz asl) (hb : SrcOK nn res rsz nn b bsz bsl) :
    VecPost nn h.mem (VecZnxBig.subSmall2 o nn h res rsz a asz asl b bsz bsl).mem res rsz nn
      (fun i c => some (subVal o h.mem a asz asl b bsz bsl i c)) :=
  sub_spec o nn h res rsz nn a asz asl b bsz bsl (Nat.le_refl _) hres ha hb

theorem big_rotate_spec (o : Ops α) (nn : Nat) (p : Int) (h : Heap α) (res rsz a asz : Nat)
    (hres : InBounds nn h.mem.size res rsz nn) (ha : SrcOK nn res rsz nn a asz nn) :
    VecPost nn h.mem (VecZnxBig.rotate o nn p h res rsz a asz).mem res rsz nn
      (fun i c => (rotLimb o nn p h res nn a asz nn i)[c]?) :=
  rotate_spec o nn p h res rsz nn a asz nn (Nat.le_refl _) hres ha

theorem big_automorphism_spec (o : Ops α) (nn : Nat) (p : Int) (h : Heap α) (res rsz a asz : Nat)
    (hres : InBounds nn h.mem.size res rsz nn) (ha : SrcOK nn res rsz nn a asz nn) :
    VecPost nn h.mem (VecZnxBig.automorphism o nn p h res rsz a asz).mem res rsz nn
      (fun i c => (autLimb o nn p h res nn a asz nn i)[c]?) :=
  automorphism_spec o nn p h res rsz nn a asz nn (Nat.le_refl _) hres ha

/-- the wrappers' bounds flag: same statement as the forwarded call, e.g. for the mixed sum -/
theorem big_add_small_no_fault (o : Ops α) (nn : Nat) (h : Heap α) (res rsz a asz b bsz bsl : Nat)
    (hres : InBounds nn h.mem.size res rsz nn)
    (ha : InBounds nn h.mem.size a (min asz rsz) nn) (hb : InBounds nn h.mem.size b (min bsz rsz) bsl) :
    (VecZnxBig.addSmall o nn h res rsz a asz b bsz bsl).ok = h.ok :=
  add_no_fault o nn h res rsz nn a asz nn b bsz bsl hres ha hb

/-! ### the hypotheses are satisfiable: `nn = 2`, three output limbs with stride 3 (one padding
    cell each), `a` = the output itself with one limb, `b` disjoint with two limbs and stride 2 -/

/-- cells: res/a limbs at 0,3,6 (padding 2,5,8), b limbs at 9,11 -/
def exHeap : Heap Int := ⟨#[1, 2, 77, 3, 4, 77, 5, 6, 77, 10, 20, 30, 40], true⟩

example := add_spec i64Ops 2 exHeap 0 3 3 0 1 3 9 2 2 (by omega)
  (by intro i hi; simp [exHeap]; omega) (Or.inl ⟨rfl, rfl⟩) (Or.inr (by intro i j hi hj; omega))
example := add_no_fault i64Ops 2 exHeap 0 3 3 0 1 3 9 2 2
  (by intro i hi; simp [exHeap]; omega) (by intro i hi; simp [exHeap]; omega) (by intro i hi; simp [exHeap]; omega)
/-- limb 0 = a+b, limb 1 = b (a has one limb), limb 2 = 0 (b has two); padding and b untouched -/
example : (VecZnx.add i64Ops 2 exHeap 0 3 3 0 1 3 9 2 2).mem
    = #[11, 22, 77, 30, 40, 77, 0, 0, 77, 10, 20, 30, 40] := by decide
example : (VecZnx.sub i64Ops 2 exHeap 0 3 3 0 1 3 9 2 2).mem
    = #[-9, -18, 77, -30, -40, 77, 0, 0, 77, 10, 20, 30, 40] := by decide
example := sub_spec i64Ops 2 exHeap 0 3 3 0 1 3 9 2 2 (by omega)
  (by intro i hi; simp [exHeap]; omega) (Or.inl ⟨rfl, rfl⟩) (Or.inr (by intro i j hi hj; omega))
example := sub_zero_extend 2 exHeap 0 3 3 0 1 3 9 2 2 (by omega)
  (by intro i hi; simp [exHeap]; omega) (Or.inl ⟨rfl, rfl⟩) (Or.inr (by intro i j hi hj; omega))
  (by
    intro x
    by_cases hx : x < 13
    · exact (by decide : ∀ x, x < 13 → I64 (exHeap.mem.getD x 0)) x hx
    · simp [exHeap, I64, Array.getD, show ¬ x < 13 from hx])
/-- rotation in place on an aliased vector with fewer limbs than the output, and out of place -/
example := rotate_spec i64Ops 2 1 exHeap 0 3 3 0 1 3 (by omega)
  (by intro i hi; simp [exHeap]; omega) (Or.inl ⟨rfl, rfl⟩)
example := automorphism_spec i64Ops 2 3 exHeap 0 3 3 9 2 2 (by omega)
  (by intro i hi; simp [exHeap]; omega) (Or.inr (by intro i j hi hj; omega))
example : (VecZnx.rotate i64Ops 2 1 exHeap 0 3 3 0 1 3).mem
    = #[-2, 1, 77, 0, 0, 77, 0, 0, 77, 10, 20, 30, 40] := by decide
example : (VecZnx.automorphism i64Ops 2 3 exHeap 0 3 3 9 2 2).mem
    = #[10, -20, 77, 30, -40, 77, 0, 0, 77, 10, 20, 30, 40] := by decide
example := big_add_small_spec i64Ops 2 exHeap 0 3 0 1 9 2 2
  (by intro i hi; simp [exHeap]; omega) (Or.inl ⟨rfl, rfl⟩) (Or.inr (by intro i j hi hj; omega))

end Spq.C08
