/-
  C08 — vec_znx size/stride semantics: zero-extend, truncate, write only res limbs.

  Property theorems only (helper lemmas are in SpqProofs/Lemmas).  Every theorem quantifies over
  all ring dimensions `nn`, all limb counts (including 0), all strides `≥ nn`, all offsets, all heap
  contents and any coefficient type/arithmetic `o : Ops α` (so in particular wrapping int64).

  For each operation `op`:
   * value:  output limb `i < rsz`, coefficient `c < nn` equals the operation applied to the input
             limbs `i`, an input with fewer limbs being treated as absent (zero);
   * frame:  every cell that is not one of the `nn` coefficients of the first `rsz` output limbs is
             unchanged — stride padding, limbs past `rsz`, and the inputs unless aliased;
   * bounds: if the declared extents lie inside the heap the model's out-of-bounds flag stays clear.
  A source may be the output itself (same offset and stride, `SrcOK` left disjunct) or disjoint.
-/
import SpqProofs.Lemmas.VecOps
namespace Spq.C08
open Spq Heap
variable {α : Type}

/-! ### add -/

/-- value of output coefficient `(i, c)` of an addition -/
def addVal (o : Ops α) (m : Array α) (a asz asl b bsz bsl i c : Nat) : α :=
  if i < asz ∧ i < bsz then o.add (m.getD (a + i * asl + c) o.zero) (m.getD (b + i * bsl + c) o.zero)
  else if i < bsz then m.getD (b + i * bsl + c) o.zero
  else if i < asz then m.getD (a + i * asl + c) o.zero
  else o.zero

theorem add_spec (o : Ops α) (nn : Nat) (h : Heap α) (res rsz rsl a asz asl b bsz bsl : Nat)
    (hsl : nn ≤ rsl) (hres : InBounds nn h.mem.size res rsz rsl)
    (ha : SrcOK nn res rsz rsl a asz asl) (hb : SrcOK nn res rsz rsl b bsz bsl) :
    let h' := VecZnx.add o nn h res rsz rsl a asz asl b bsz bsl
    h'.mem.size = h.mem.size ∧
    (∀ i c, i < rsz → c < nn →
      h'.mem[res + i * rsl + c]? = some (addVal o h.mem a asz asl b bsz bsl i c)) ∧
    Frame nn res rsz rsl h.mem h'.mem := by
  intro h'
  obtain ⟨e, _⟩ := add_nf o nn h res rsz rsl a asz asl b bsz bsl
  have g := vec_generic nn res rsz rsl a asz asl b bsz bsl o.zero (addK o nn asz bsz)
    (by intro i x y z; unfold addK; repeat' split
        all_goals simp)
    (by intro i hi x x' y z
        have c3 : ¬ i < asz := by omega
        simp [addK, c3])
    (by intro i hi x y y' z
        have c3 : ¬ i < bsz := by omega
        simp [addK, c3])
    h.mem hsl hres ha hb
  simp only at g
  show (VecZnx.add o nn h res rsz rsl a asz asl b bsz bsl).mem.size = _ ∧ _
  rw [e]
  obtain ⟨g1, g2, g3⟩ := g
  refine ⟨g1, ?_, g3⟩
  intro i c hi hc
  rw [g2 i c hi hc]
  unfold addK addVal
  split
  · simp [Coeffs.add, hc, readLimb, Nat.add_assoc]
  · split
    · simp [Coeffs.copy, hc, readLimb, Nat.add_assoc]
    · split
      · simp [Coeffs.copy, hc, readLimb, Nat.add_assoc]
      · simp [Coeffs.zero, hc]

/-- bounds: with every declared extent inside the heap, no access of the model is out of bounds -/
theorem add_no_fault (o : Ops α) (nn : Nat) (h : Heap α) (res rsz rsl a asz asl b bsz bsl : Nat)
    (hres : InBounds nn h.mem.size res rsz rsl)
    (ha : InBounds nn h.mem.size a (min asz rsz) asl) (hb : InBounds nn h.mem.size b (min bsz rsz) bsl) :
    (VecZnx.add o nn h res rsz rsl a asz asl b bsz bsl).ok = h.ok := by
  obtain ⟨_, e⟩ := add_nf o nn h res rsz rsl a asz asl b bsz bsl
  rw [e, all_range_true, Bool.and_true]
  intro i hi
  have r1 := hres i hi
  unfold addB
  split
  · rename_i c; have := ha i (by omega); have := hb i (by omega); simp; omega
  · split
    · have := hb i (by omega); simp; omega
    · split
      · have := ha i (by omega); simp; omega
      · simp; omega

end Spq.C08
