/-
  C11 / C18, translator tie of the ADDRESSING of the FFT64 vector-matrix product (continuation of
  `Properties/SrcMod.lean`, same conventions): the terms generated from
  `spqlios/arithmetic/vector_matrix_product.c` run with the kernel record `modSem c cd B nrows` are the entry points
  `vmpPrepare`, `vmpApplyDftToDft`, `vmpApplyDft` of `lean/Spq/ModuleHeap.lean`.

  * `module->nn`, `module->m` are the scalar arguments `c.nn`, `c.m` (the functions that read `module->m`, or pass
    the module to one that does, get it as a second scalar);
  * `tb` (the byte count the caller declares for the scratch pointer) is not an argument of the C functions: the
    theorems hold for every `tb` for which the model's run is `ok`;
  * `x / 2^k` on unsigned operands is translated as `x >> k`; `bytep + E * 8` as the cell offset `(E * 8) >> 3`.
-/
import Gen.CSrc
import SpqProofs.Lemmas.SrcMod
import SpqProofs.Lemmas.SrcModVmp
import SpqProofs.Properties.SrcMod
namespace Spq.Src
open Spq Spq.CIR Heap ModuleHeap
variable {α : Type}

theorem src_fft64_vmp_prepare_contiguous_ref_eq_model (c : Module.Parts α) (cd : Cells Int α) (nr : Nat)
    (m0 : Mem) (B : Nat) (hB : B < m0.size) (X : Array Int) (hX : X.size < 2305843009213693952)
    (pmat mat nrows ncols tmp tb : Nat) (hnn0 : 0 < c.nn) (hnn : c.nn < 18446744073709551616)
    (hm : c.m < 18446744073709551616) (hnr : nrows < 18446744073709551616) (hnc : ncols < 18446744073709551616)
    (hok : (vmpPrepare c cd ⟨X, true⟩ pmat mat nrows ncols tmp tb).ok = true) :
    ∀ fuel, nrows + ncols + c.m / 4 ≤ fuel →
      runK (modSem c cd B nr) fuel Gen.CSrc.fft64_vmp_prepare_contiguous_ref
          [(c.nn : Int), (c.m : Int), (nrows : Int), (ncols : Int)]
          [some (B, pmat), some (B, mat), some (B, tmp)] (m0.setIfInBounds B X)
        = .ok (m0.setIfInBounds B (vmpPrepare c cd ⟨X, true⟩ pmat mat nrows ncols tmp tb).mem) := by
  intro fuel hf
  have pp0 : ∀ env, ptrAt [some (B, pmat), some (B, mat), some (B, tmp)] env (.param 0) 0 = .ok (some (B, pmat)) :=
    fun env => ptrAt_param_zero _ env 0 B pmat rfl
  have pp2 : ∀ env, ptrAt [some (B, pmat), some (B, mat), some (B, tmp)] env (.param 2) 0 = .ok (some (B, tmp)) :=
    fun env => ptrAt_param_zero _ env 2 B tmp rfl
  cirk_enter Gen.CSrc.fft64_vmp_prepare_contiguous_ref
  cirkx [pp0, pp2]
  by_cases hn8 : 8 ≤ c.nn
  · have hc8 : (decide ((c.nn : Int) ≥ 8 % 18446744073709551616)) = true := by
      simp; omega
    simp only [hc8, if_true]
    -- the model
    let offset := nrows * ncols * 8
    let blkBody : Nat → Nat → Nat → Heap Int → Heap Int := fun row col blk h =>
      h |> scr tb 0 c.nn |> kExtract1 c cd blk (pmat + Module.pmatStart nrows ncols row col + blk * offset) tmp
    let colBody : Nat → Nat → Heap Int → Heap Int := fun row col h =>
      h |> scr tb 0 c.nn |> kFromZnx c cd tmp (mat + (row * ncols + col) * c.nn)
        |> scr tb 0 c.nn |> kFft c cd tmp |> loop (c.m / 4) (blkBody row col)
    let Hr : Nat → Heap Int := fun r => loop r (fun row => loop ncols (colBody row)) ⟨X, true⟩
    have hfin : vmpPrepare c cd ⟨X, true⟩ pmat mat nrows ncols tmp tb = Hr nrows := by
      unfold vmpPrepare
      simp only [ge_iff_le, hn8, if_true]
      rfl
    rw [hfin] at hok ⊢
    have mBlk : ∀ row col blk, OkMono (blkBody row col blk) := fun row col blk =>
      okMono_comp (okMono_scr _ _ _) (okMono_kExtract1 c cd _ _ _)
    have mCol : ∀ row col, OkMono (colBody row col) := fun row col =>
      okMono_comp (okMono_comp (okMono_comp (okMono_comp (okMono_scr _ _ _) (okMono_kFromZnx c cd _ _))
        (okMono_scr _ _ _)) (okMono_kFft c cd _)) (okMono_loop _ _ (mBlk row col))
    have mRow : ∀ row, OkMono (loop ncols (colBody row)) := fun row => okMono_loop _ _ (mCol row)
    have szBlk : ∀ row col blk h, (blkBody row col blk h).mem.size = h.mem.size := fun row col blk h => by
      simp only [blkBody]; rw [size_kExtract1, size_scr]
    have szCol : ∀ row col h, (colBody row col h).mem.size = h.mem.size := fun row col h => by
      simp only [colBody]
      rw [size_loop _ _ (szBlk row col), size_kFft, size_scr, size_kFromZnx, size_scr]
    have szRow : ∀ r, (Hr r).mem.size = X.size := fun r =>
      size_loop r _ (fun row h => size_loop _ _ (szCol row) h) _
    have okRow : ∀ r, r ≤ nrows → (Hr r).ok = true := fun r hr => loop_ok_prefix _ mRow _ _ r hr hok
    generalize hOFF : (↑nrows * ↑ncols % 18446744073709551616 * (8 % 18446744073709551616) % 18446744073709551616 : Int) = OFF
    let E : Int → Int → Int → Int → Int → List Int := fun sb so r k b =>
      [(c.nn : Int), (c.m : Int), (nrows : Int), (ncols : Int), (c.nn : Int), (c.m : Int), (B : Int), (pmat : Int),
        sb, so, OFF, r, k, b, 0, 0, 0, 0]
    let I : Nat → State → Prop := fun r σ =>
      ∃ sb so jk jb, σ = ⟨E sb so (r : Int) jk jb, m0.setIfInBounds B (Hr r).mem⟩
    refine memOf_of_exists _ _ (I nrows) (execK_for_inv _ _ _ _ _ _ _ I nrows (ncols + c.m / 4)
      ?hi0 ?hc ?hs ?hx fuel (by omega)) ?hfinal
    case hfinal =>
      rintro σ ⟨sb, so, jk, jb, rfl⟩
      rfl
    case hi0 =>
      intro f
      exact ⟨_, rfl, ⟨_, _, _, _, rfl⟩⟩
    case hc =>
      rintro r σ hr ⟨sb, so, jk, jb, rfl⟩
      simp only [E]
      cirk_simp
      exact ok_decide_true (by omega)
    case hx =>
      rintro σ ⟨sb, so, jk, jb, rfl⟩
      simp only [E]
      cirk_simp
      exact ok_decide_false (by omega)
    case hs =>
      rintro r σ hr ⟨sb, so, jk, jb, rfl⟩ f hf
      let Hc : Nat → Heap Int := fun k => loop k (colBody r) (Hr r)
      have hHr1 : Hr (r + 1) = Hc ncols := loop_succ r _ _
      have okCol : ∀ k, k ≤ ncols → (Hc k).ok = true := fun k hk =>
        loop_ok_prefix _ (mCol r) _ _ k hk (by have := okRow (r + 1) (by omega); rw [hHr1] at this; exact this)
      have szCol' : ∀ k, (Hc k).mem.size = X.size := fun k => by
        rw [← szRow r]; exact size_loop k _ (szCol r) _
      let Ic : Nat → State → Prop := fun k σ =>
        ∃ sb so jb, σ = ⟨E sb so (r : Int) (k : Int) jb, m0.setIfInBounds B (Hc k).mem⟩
      refine thenStep_of_exists _ _ (Ic ncols) _ (execK_for_inv _ _ _ _ _ _ _ Ic ncols (c.m / 4)
        ?hi0 ?hc ?hs ?hx f (by omega)) ?hk
      case hk =>
        rintro σ1 ⟨sb1, so1, jb1, rfl⟩
        simp only [E]
        cirk_simp
        refine ⟨_, rfl, ⟨sb1, so1, (ncols : Int), jb1, ?_⟩⟩
        have e3 : ((r : Int) + 1) % 18446744073709551616 = ((r + 1 : Nat) : Int) := by omega
        rw [hHr1, e3]
      case hi0 =>
        intro f
        exact ⟨_, rfl, ⟨_, _, _, rfl⟩⟩
      case hc =>
        rintro k σ hk ⟨sb, so, jb, rfl⟩
        simp only [E]
        cirk_simp
        exact ok_decide_true (by omega)
      case hx =>
        rintro σ ⟨sb, so, jb, rfl⟩
        simp only [E]
        cirk_simp
        exact ok_decide_false (by omega)
      case hs =>
        rintro k σ hk ⟨sb, so, jb, rfl⟩ f hf
        -- the model's column step
        have hHc1 : Hc (k + 1) = colBody r k (Hc k) := loop_succ k _ _
        let src := mat + (r * ncols + k) * c.nn
        let g1 := scr tb 0 c.nn (Hc k)
        let h1 := kFromZnx c cd tmp src g1
        let g2 := scr tb 0 c.nn h1
        let h2 := kFft c cd tmp g2
        let Hb : Nat → Heap Int := fun b => loop b (blkBody r k) h2
        have hHcb : Hc (k + 1) = Hb (c.m / 4) := hHc1
        have okb : ∀ b, b ≤ c.m / 4 → (Hb b).ok = true := fun b hb =>
          loop_ok_prefix _ (mBlk r k) _ _ b hb (by have := okCol (k + 1) (by omega); rw [hHcb] at this; exact this)
        have o2 : h2.ok = true := okb 0 (Nat.zero_le _)
        have o2' : g2.ok = true := okMono_kFft c cd _ _ o2
        have o1 : h1.ok = true := okMono_scr _ _ _ _ o2'
        have o1' : g1.ok = true := okMono_kFromZnx c cd _ _ _ o1
        have q1 : g1 = Hc k := scr_of_ok _ _ _ _ o1'
        have q2 : g2 = h1 := scr_of_ok _ _ _ _ o2'
        have e1 : kFromZnx c cd tmp src (Hc k) = h1 := by show _ = kFromZnx c cd tmp src g1; rw [q1]
        have e2 : kFft c cd tmp h1 = h2 := by show _ = kFft c cd tmp g2; rw [q2]
        have bsrc := kFromZnx_bound c cd _ _ _ o1
        rw [q1, szCol'] at bsrc
        have sz2 : h2.mem.size = X.size := by
          show (kFft c cd tmp g2).mem.size = _
          rw [size_kFft, q2]
          show (kFromZnx c cd tmp src g1).mem.size = _
          rw [size_kFromZnx, q1, szCol']
        have szb : ∀ b, (Hb b).mem.size = X.size := fun b => by
          rw [← sz2]; exact size_loop b _ (szBlk r k) _
        -- index of the source entry
        have p1 : (r * ncols + k) ≤ (r * ncols + k) * c.nn := Nat.le_mul_of_pos_right _ hnn0
        have esrc : (((r : Int) * (ncols : Int)) % 18446744073709551616 + (k : Int)) % 18446744073709551616 * (c.nn : Int)
            % 18446744073709551616 = (((r * ncols + k) * c.nn : Nat) : Int) := by
          have t1 : ((r : Int) * (ncols : Int)) = ((r * ncols : Nat) : Int) := by push_cast; rfl
          have t2 : (((r * ncols + k : Nat) : Int)) * (c.nn : Int) = (((r * ncols + k) * c.nn : Nat) : Int) := by
            push_cast; rfl
          have t3 : (((r * ncols : Nat) : Int) % 18446744073709551616 + (k : Int)) % 18446744073709551616
              = ((r * ncols + k : Nat) : Int) := by
            simp only [src] at bsrc
            omega
          rw [t1, t3, t2]
          simp only [src] at bsrc
          omega
        simp only [E]
        cirkx [pp2]
        rw [esrc, ptrAt_param _ _ 1 B mat ((r * ncols + k) * c.nn) rfl]
        simp only [R.bind_ok, modSem, and_self, if_true]
        rw [onArena_ok2 B _ m0 _ (Hc k) hB rfl (okCol k (by omega)) (by rw [e1]; exact o1), e1]
        cirkx [pp2]
        simp only [modSem, if_true]
        rw [onArena_ok2 B _ m0 _ h1 hB rfl o1 (by rw [e2]; exact o2), e2]
        cirkx [pp2]
        -- the block loop, for any start address that is the model's one when the loop runs at all
        have hblk : ∀ (sa : Nat), (1 ≤ c.m / 4 → sa = pmat + Module.pmatStart nrows ncols r k) →
            ∃ σ', thenStep (seqK (R.ok (Flow.norm, (⟨E (B : Int) (sa : Int) (r : Int) (k : Int) jb,
                  m0.setIfInBounds B h2.mem⟩ : State)))
                (execK (modSem c cd B nr) [some (B, pmat), some (B, mat), some (B, tmp)]
                  ((Stmt.assign 13 (Expr.cast Ty.u64 (Expr.lit 0))).for
                    (Expr.bin BinOp.lt Ty.u64 (Expr.var 13) (Expr.bin BinOp.shr Ty.u64 (Expr.var 5) (Expr.lit 2)))
                    (Stmt.assign 13 (Expr.bin BinOp.add Ty.u64 (Expr.var 13) (Expr.lit 1)))
                    (Stmt.extcall "reim4_extract_1blk_from_reim_ref" [Expr.var 5, Expr.var 13]
                      [(PBase.pvar 8, Expr.bin BinOp.mul Ty.u64 (Expr.var 13) (Expr.var 10)), (PBase.param 2, Expr.lit 0)]))
                  f))
              (fun σ' => R.ok (Flow.norm, { env := lset σ'.env 12 ((lget σ'.env 12 + 1) % 18446744073709551616), mem := σ'.mem }))
              = R.ok (Flow.norm, σ') ∧ Ic (k + 1) σ' := by
          intro sa hsa
          rw [seqK_norm]
          let S : Nat → State := fun b =>
            ⟨E (B : Int) (sa : Int) (r : Int) (k : Int) (b : Int), m0.setIfInBounds B (Hb b).mem⟩
          have em4 : (c.m : Int) / 2 ^ Int.toNat 2 = ((c.m / 4 : Nat) : Int) := by
            show (c.m : Int) / 4 = _
            omega
          rw [execK_for_range _ _ _ _ _ _ _ S 0 (c.m / 4) 0 (Nat.zero_le _) ?hi0 ?hc ?hs ?hx f (by omega)]
          · simp only [S, E]
            cirk_simp
            refine ⟨_, rfl, ⟨(B : Int), (sa : Int), ((c.m / 4 : Nat) : Int), ?_⟩⟩
            have e3 : ((k : Int) + 1) % 18446744073709551616 = ((k + 1 : Nat) : Int) := by omega
            rw [hHcb, e3]
          case hi0 => intro f; rfl
          case hc =>
            intro b _ hb
            simp only [S, E]
            cirk_simp
            simp (config := { decide := true }) only [if_true, R.bind_ok, em4, decide_b2i_ne_zero]
            exact ok_decide_true (by omega)
          case hx =>
            simp only [S, E]
            cirk_simp
            simp (config := { decide := true }) only [if_true, R.bind_ok, em4, decide_b2i_ne_zero]
            exact ok_decide_false (by omega)
          case hs =>
            intro b _ hb f _
            have hsa' := hsa (by omega)
            have hb1 : (Hb (b + 1)).ok = true := okb (b + 1) (by omega)
            have hHb1 : Hb (b + 1) = blkBody r k b (Hb b) := loop_succ b _ _
            rw [hHb1] at hb1
            have hg : (scr tb 0 c.nn (Hb b)).ok = true := okMono_kExtract1 c cd _ _ _ _ hb1
            have qg : scr tb 0 c.nn (Hb b) = Hb b := scr_of_ok _ _ _ _ hg
            have ex : kExtract1 c cd b (pmat + Module.pmatStart nrows ncols r k + b * offset) tmp (Hb b) = Hb (b + 1) := by
              rw [hHb1]; show _ = kExtract1 c cd b _ tmp (scr tb 0 c.nn (Hb b)); rw [qg]
            have bd := (kExtract1_bound c cd _ _ _ _ hb1).1
            rw [qg, szb] at bd
            -- `blk_i * offset`
            have eoff : ((b : Int) * OFF) % 18446744073709551616 = ((b * offset : Nat) : Int) := by
              by_cases hb0 : b = 0
              · subst hb0; simp
              · have hle : offset ≤ b * offset := Nat.le_mul_of_pos_left _ (Nat.pos_of_ne_zero hb0)
                have t1 : ((nrows : Int) * (ncols : Int)) = ((nrows * ncols : Nat) : Int) := by push_cast; rfl
                have t2 : (b : Int) * ((offset : Nat) : Int) = ((b * offset : Nat) : Int) := by push_cast; rfl
                have t3 : OFF = ((offset : Nat) : Int) := by
                  rw [← hOFF, t1]
                  simp only [offset] at hle bd ⊢
                  omega
                rw [t3, t2]
                omega
            simp only [S, E]
            cirk_simp
            rw [eoff, ptrAt_pvar_off _ _ 8 B sa (b * offset) _ rfl rfl rfl]
            simp only [pp2, R.bind_ok, modSem, and_self, if_true, Int.toNat_natCast, Int.natCast_nonneg]
            rw [hsa', onArena_ok2 B _ m0 _ (Hb b) hB rfl (okb b (by omega)) (by rw [ex]; exact okb (b + 1) (by omega)), ex]
            cirk_simp
            have e3 : ((b : Int) + 1) % 18446744073709551616 = ((b + 1 : Nat) : Int) := by omega
            rw [e3]
        -- bound on the start address when the block loop runs
        have hstart : 1 ≤ c.m / 4 → pmat + Module.pmatStart nrows ncols r k + 8 ≤ X.size := by
          intro h1
          have hb1 : (Hb 1).ok = true := okb 1 h1
          have hHb1 : Hb 1 = blkBody r k 0 (Hb 0) := loop_succ 0 _ _
          rw [hHb1] at hb1
          have hg : (scr tb 0 c.nn (Hb 0)).ok = true := okMono_kExtract1 c cd _ _ _ _ hb1
          have bd := (kExtract1_bound c cd _ _ _ _ hb1).1
          rw [scr_of_ok _ _ _ _ hg, szb] at bd
          simpa using bd
        by_cases hlast : k = ncols - 1 ∧ ncols % 2 = 1
        · have d1 : decide ((k : Int) = ((ncols : Int) - 1 % 18446744073709551616) % 18446744073709551616) = true :=
            decide_eq_true (by have := hlast.1; omega)
          have e2m : (2 : Int) % 18446744073709551616 = 2 := by decide
          have d2 : ((ncols : Int) % (2 % 18446744073709551616)) = 1 := by rw [e2m]; have := hlast.2; omega
          simp (config := { decide := true }) only [d1, d2, b2i, if_true, if_false, R.bind_ok]
          generalize hv : (((k : Int) * (nrows : Int) % 18446744073709551616 * (8 % 18446744073709551616) % 18446744073709551616 +
              (r : Int) * (8 % 18446744073709551616) % 18446744073709551616) % 18446744073709551616) = v
          have hv0 : 0 ≤ v := by rw [← hv]; omega
          rw [ptrAt_pvar_off _ _ 6 B pmat v.toNat v (by omega) rfl rfl]
          cirkx []
          refine hblk (pmat + v.toNat) (fun h1 => ?_)
          have hs := hstart h1
          have hps : Module.pmatStart nrows ncols r k = k * nrows * 8 + r * 8 := by
            simp [Module.pmatStart, hlast.1, hlast.2]
          rw [hps] at hs ⊢
          have t1 : ((k : Int) * (nrows : Int)) = ((k * nrows : Nat) : Int) := by push_cast; rfl
          rw [t1] at hv
          omega
        · have e2m : (2 : Int) % 18446744073709551616 = 2 := by decide
          have hcond : (if b2i (decide ((k : Int) = ((ncols : Int) - 1 % 18446744073709551616) % 18446744073709551616)) = 0
              then (R.ok 0 : R Int)
              else ((if (2 : Int) % 18446744073709551616 = 0 then R.err Err.ub
                      else R.ok ((ncols : Int) % (2 % 18446744073709551616))).bind
                    fun x => R.ok (b2i (decide (x = 1 % 18446744073709551616)))).bind
                  fun y => R.ok (if y = 0 then 0 else 1)) = R.ok 0 := by
            by_cases hk1 : k = ncols - 1
            · have hn2 : ¬ ncols % 2 = 1 := fun h => hlast ⟨hk1, h⟩
              have d1 : decide ((k : Int) = ((ncols : Int) - 1 % 18446744073709551616) % 18446744073709551616) = true :=
                decide_eq_true (by omega)
              have d2 : ((ncols : Int) % (2 % 18446744073709551616)) = 0 := by rw [e2m]; omega
              simp (config := { decide := true }) only [d1, d2, b2i, if_true, if_false, R.bind_ok]
            · have d1 : decide ((k : Int) = ((ncols : Int) - 1 % 18446744073709551616) % 18446744073709551616) = false :=
                decide_eq_false (by omega)
              simp (config := { decide := true }) only [d1, b2i, if_true]
          rw [hcond]
          simp (config := { decide := true }) only [R.bind_ok, if_false, if_true]
          generalize hv : ((((k : Int) / 2 ^ Int.toNat 1 * (2 % 18446744073709551616 * (nrows : Int) % 18446744073709551616) %
              18446744073709551616 * (8 % 18446744073709551616) % 18446744073709551616 +
              (r : Int) * (2 % 18446744073709551616) % 18446744073709551616 * (8 % 18446744073709551616) %
                18446744073709551616) % 18446744073709551616 +
              (k : Int) % (2 % 18446744073709551616) * (8 % 18446744073709551616) % 18446744073709551616) %
              18446744073709551616) = v
          have hv0 : 0 ≤ v := by rw [← hv]; omega
          rw [ptrAt_pvar_off _ _ 6 B pmat v.toNat v (by omega) rfl rfl]
          cirkx []
          refine hblk (pmat + v.toNat) (fun h1 => ?_)
          have hs := hstart h1
          have hps : Module.pmatStart nrows ncols r k = (k / 2) * (2 * nrows) * 8 + r * 2 * 8 + (k % 2) * 8 := by
            by_cases hk1 : k = ncols - 1
            · have hn2 : ¬ ncols % 2 = 1 := fun h => hlast ⟨hk1, h⟩
              simp [Module.pmatStart, hn2]
            · simp [Module.pmatStart, hk1]
          rw [hps] at hs ⊢
          have t0 : (k : Int) / 2 ^ Int.toNat 1 = ((k / 2 : Nat) : Int) := by
            show (k : Int) / 2 = _; omega
          have tP : ((k / 2 : Nat) : Int) * (2 % 18446744073709551616 * (nrows : Int) % 18446744073709551616)
              % 18446744073709551616 = ((k / 2 * (2 * nrows) : Nat) : Int) := by
            rw [e2m]
            by_cases hk0 : k / 2 = 0
            · rw [hk0]; simp
            · have hle : 2 * nrows ≤ k / 2 * (2 * nrows) := Nat.le_mul_of_pos_left _ (Nat.pos_of_ne_zero hk0)
              have t1 : ((k / 2 : Nat) : Int) * ((2 * nrows : Nat) : Int) = ((k / 2 * (2 * nrows) : Nat) : Int) := by
                push_cast; rfl
              have t2 : (2 : Int) * (nrows : Int) % 18446744073709551616 = ((2 * nrows : Nat) : Int) := by
                generalize k / 2 * (2 * nrows) = P at hle hs
                omega
              rw [t2, t1]
              generalize k / 2 * (2 * nrows) = P at hle hs
              omega
          rw [t0, tP, e2m] at hv
          omega
  · have hc8 : (decide ((c.nn : Int) ≥ 8 % 18446744073709551616)) = false := by
      simp; omega
    simp only [hc8, Bool.false_eq_true, if_false]
    let colBody : Nat → Nat → Heap Int → Heap Int := fun row col h =>
      h |> kFromZnx c cd (pmat + (col * nrows + row) * c.nn) (mat + (row * ncols + col) * c.nn)
        |> kFft c cd (pmat + (col * nrows + row) * c.nn)
    let Hr : Nat → Heap Int := fun r => loop r (fun row => loop ncols (colBody row)) ⟨X, true⟩
    have hfin : vmpPrepare c cd ⟨X, true⟩ pmat mat nrows ncols tmp tb = Hr nrows := by
      unfold vmpPrepare
      simp only [ge_iff_le, hn8, if_false]
      rfl
    rw [hfin] at hok ⊢
    have mCol : ∀ row col, OkMono (colBody row col) := fun row col =>
      okMono_comp (okMono_kFromZnx c cd _ _) (okMono_kFft c cd _)
    have mRow : ∀ row, OkMono (loop ncols (colBody row)) := fun row => okMono_loop _ _ (mCol row)
    have szCol : ∀ row col h, (colBody row col h).mem.size = h.mem.size := fun row col h => by
      simp only [colBody]; rw [size_kFft, size_kFromZnx]
    have szRow : ∀ r, (Hr r).mem.size = X.size := fun r =>
      size_loop r _ (fun row h => size_loop _ _ (szCol row) h) _
    have okRow : ∀ r, r ≤ nrows → (Hr r).ok = true := fun r hr => loop_ok_prefix _ mRow _ _ r hr hok
    generalize hOFF : (↑nrows * ↑ncols % 18446744073709551616 * (8 % 18446744073709551616) % 18446744073709551616 : Int) = OFF
    let E : Int → Int → Int → Int → List Int := fun r k j16 j17 =>
      [(c.nn : Int), (c.m : Int), (nrows : Int), (ncols : Int), (c.nn : Int), (c.m : Int), (B : Int), (pmat : Int),
        (B : Int), (pmat : Int), OFF, 0, 0, 0, r, k, j16, j17]
    let I : Nat → State → Prop := fun r σ =>
      ∃ jk j16 j17, σ = ⟨E (r : Int) jk j16 j17, m0.setIfInBounds B (Hr r).mem⟩
    refine memOf_of_exists _ _ (I nrows) (execK_for_inv _ _ _ _ _ _ _ I nrows ncols
      ?hi0 ?hc ?hs ?hx fuel (by omega)) ?hfinal
    case hfinal =>
      rintro σ ⟨jk, j16, j17, rfl⟩
      rfl
    case hi0 =>
      intro f
      exact ⟨_, rfl, ⟨_, _, _, rfl⟩⟩
    case hc =>
      rintro r σ hr ⟨jk, j16, j17, rfl⟩
      simp only [E]
      cirk_simp
      exact ok_decide_true (by omega)
    case hx =>
      rintro σ ⟨jk, j16, j17, rfl⟩
      simp only [E]
      cirk_simp
      exact ok_decide_false (by omega)
    case hs =>
      rintro r σ hr ⟨jk, j16, j17, rfl⟩ f hf
      let Hc : Nat → Heap Int := fun k => loop k (colBody r) (Hr r)
      have hHr1 : Hr (r + 1) = Hc ncols := loop_succ r _ _
      have okCol : ∀ k, k ≤ ncols → (Hc k).ok = true := fun k hk =>
        loop_ok_prefix _ (mCol r) _ _ k hk (by have := okRow (r + 1) (by omega); rw [hHr1] at this; exact this)
      have szCol' : ∀ k, (Hc k).mem.size = X.size := fun k => by
        rw [← szRow r]; exact size_loop k _ (szCol r) _
      let S : Nat → State := fun k =>
        ⟨E (r : Int) (k : Int) (if k = 0 then j16 else (B : Int))
          (if k = 0 then j17 else ((pmat + ((k - 1) * nrows + r) * c.nn : Nat) : Int)), m0.setIfInBounds B (Hc k).mem⟩
      rw [execK_for_range _ _ _ _ _ _ _ S 0 ncols 0 (Nat.zero_le _) ?hi0 ?hc ?hs ?hx f (by omega)]
      · simp only [S, E]
        cirk_simp
        refine ⟨_, rfl, ⟨(ncols : Int), (if ncols = 0 then j16 else (B : Int)),
          (if ncols = 0 then j17 else ((pmat + ((ncols - 1) * nrows + r) * c.nn : Nat) : Int)), ?_⟩⟩
        have e3 : ((r : Int) + 1) % 18446744073709551616 = ((r + 1 : Nat) : Int) := by omega
        rw [hHr1, e3]
      case hi0 => intro f; simp only [S, E]; rfl
      case hc =>
        intro k _ hk
        simp only [S, E]
        cirk_simp
        exact ok_decide_true (by omega)
      case hx =>
        simp only [S, E]
        cirk_simp
        exact ok_decide_false (by omega)
      case hs =>
        intro k _ hk f _
        have hk2 : (Hc (k + 1)).ok = true := okCol (k + 1) (by omega)
        have hHc1 : Hc (k + 1) = kFft c cd (pmat + (k * nrows + r) * c.nn)
            (kFromZnx c cd (pmat + (k * nrows + r) * c.nn) (mat + (r * ncols + k) * c.nn) (Hc k)) := loop_succ k _ _
        rw [hHc1] at hk2
        have hk1 := okMono_kFft c cd _ _ hk2
        have b1 := kFft_bound c cd _ _ hk2
        have b2 := kFromZnx_bound c cd _ _ _ hk1
        rw [size_kFromZnx, szCol'] at b1
        rw [szCol'] at b2
        have p1 : (r * ncols + k) ≤ (r * ncols + k) * c.nn := Nat.le_mul_of_pos_right _ hnn0
        have p2 : (k * nrows + r) ≤ (k * nrows + r) * c.nn := Nat.le_mul_of_pos_right _ hnn0
        have esrc : (((r : Int) * (ncols : Int)) % 18446744073709551616 + (k : Int)) % 18446744073709551616 * (c.nn : Int)
            % 18446744073709551616 = (((r * ncols + k) * c.nn : Nat) : Int) := by
          have t1 : ((r : Int) * (ncols : Int)) = ((r * ncols : Nat) : Int) := by push_cast; rfl
          have t2 : (((r * ncols + k : Nat) : Int)) * (c.nn : Int) = (((r * ncols + k) * c.nn : Nat) : Int) := by
            push_cast; rfl
          have t3 : (((r * ncols : Nat) : Int) % 18446744073709551616 + (k : Int)) % 18446744073709551616
              = ((r * ncols + k : Nat) : Int) := by omega
          rw [t1, t3, t2]
          omega
        have edst : (((k : Int) * (nrows : Int)) % 18446744073709551616 + (r : Int)) % 18446744073709551616 * (c.nn : Int)
            % 18446744073709551616 = (((k * nrows + r) * c.nn : Nat) : Int) := by
          have t1 : ((k : Int) * (nrows : Int)) = ((k * nrows : Nat) : Int) := by push_cast; rfl
          have t2 : (((k * nrows + r : Nat) : Int)) * (c.nn : Int) = (((k * nrows + r) * c.nn : Nat) : Int) := by
            push_cast; rfl
          have t3 : (((k * nrows : Nat) : Int) % 18446744073709551616 + (r : Int)) % 18446744073709551616
              = ((k * nrows + r : Nat) : Int) := by omega
          rw [t1, t3, t2]
          omega
        simp only [S, E]
        cirk_simp
        rw [edst, ptrAt_param _ _ 0 B pmat ((k * nrows + r) * c.nn) rfl]
        cirkx []
        rw [esrc, ptrAt_param _ _ 1 B mat ((r * ncols + k) * c.nn) rfl,
          ptrAt_pvar_off _ _ 16 B (pmat + (k * nrows + r) * c.nn) 0 0 rfl rfl rfl]
        simp only [R.bind_ok, modSem, and_self, if_true, Nat.add_zero]
        rw [onArena_ok B _ m0 (Hc k) hB (okCol k (by omega)) hk1]
        cirkx []
        rw [ptrAt_pvar_off _ _ 16 B (pmat + (k * nrows + r) * c.nn) 0 0 rfl rfl rfl]
        simp only [R.bind_ok, modSem, if_true, Nat.add_zero]
        rw [onArena_ok B _ m0 _ hB hk1 hk2]
        cirk_simp
        have e3 : ((k : Int) + 1) % 18446744073709551616 = ((k + 1 : Nat) : Int) := by omega
        rw [hHc1, e3]
        simp

theorem src_fft64_vmp_apply_dft_to_dft_ref_eq_model (c : Module.Parts α) (cd : Cells Int α)
    (hz : cd.enc c.ar.zero = 0)
    (m0 : Mem) (B : Nat) (hB : B < m0.size) (X : Array Int) (hX : X.size < 2305843009213693952)
    (res rsz adft asz pmat nrows ncols tmp tb : Nat) (hnn0 : 0 < c.nn) (hnn : c.nn < 18446744073709551616)
    (hm : c.m < 18446744073709551616) (hrsz : rsz < 18446744073709551616) (hasz : asz < 18446744073709551616)
    (hnr : nrows < 18446744073709551616) (hnc : ncols < 18446744073709551616)
    (hok : (vmpApplyDftToDft c cd ⟨X, true⟩ res rsz adft asz pmat nrows ncols tmp tb).ok = true) :
    ∀ fuel, c.m / 4 + ncols + nrows + 1 ≤ fuel →
      runK (modSem c cd B nrows) fuel Gen.CSrc.fft64_vmp_apply_dft_to_dft_ref
          [(c.nn : Int), (c.m : Int), (rsz : Int), (asz : Int), (nrows : Int), (ncols : Int)]
          [some (B, res), some (B, adft), some (B, pmat), some (B, tmp)] (m0.setIfInBounds B X)
        = .ok (m0.setIfInBounds B (vmpApplyDftToDft c cd ⟨X, true⟩ res rsz adft asz pmat nrows ncols tmp tb).mem) := by
  intro fuel hf
  have pp0 : ∀ env, ptrAt [some (B, res), some (B, adft), some (B, pmat), some (B, tmp)] env (.param 0) 0
      = .ok (some (B, res)) := fun env => ptrAt_param_zero _ env 0 B res rfl
  have pp1 : ∀ env, ptrAt [some (B, res), some (B, adft), some (B, pmat), some (B, tmp)] env (.param 1) 0
      = .ok (some (B, adft)) := fun env => ptrAt_param_zero _ env 1 B adft rfl
  have pp2 : ∀ env, ptrAt [some (B, res), some (B, adft), some (B, pmat), some (B, tmp)] env (.param 2) 0
      = .ok (some (B, pmat)) := fun env => ptrAt_param_zero _ env 2 B pmat rfl
  have pp3 : ∀ env, ptrAt [some (B, res), some (B, adft), some (B, pmat), some (B, tmp)] env (.param 3) 0
      = .ok (some (B, tmp)) := fun env => ptrAt_param_zero _ env 3 B tmp rfl
  have pp3' : ∀ env, ptrAt [some (B, res), some (B, adft), some (B, pmat), some (B, tmp)] env (.param 3) 16
      = .ok (some (B, tmp + 16)) := fun env => ptrAt_param _ env 3 B tmp 16 rfl
  cirk_enter Gen.CSrc.fft64_vmp_apply_dft_to_dft_ref
  cirkx [pp0, pp1, pp2, pp3, pp3']
  rw [min_cond, R.bind_ok]
  cirkx [pp0, pp1, pp2, pp3, pp3']
  rw [min_cond, R.bind_ok]
  cirkx [pp0, pp1, pp2, pp3, pp3']
  -- the model
  let rowMax := min nrows asz
  let colMax := min ncols rsz
  let out := tmp
  let ext := tmp + 16
  let matBlk : Nat → Nat := fun blk => pmat + blk * (8 * nrows * ncols)
  let pairBody : Nat → Nat → Heap Int → Heap Int := fun blk t h =>
    h |> scr tb 0 16 |> scr tb 16 (8 * rowMax) |> kProd2 c cd rowMax nrows out ext (matBlk blk + (2 * t) * (8 * nrows))
      |> kSave c cd blk (res + (2 * t) * c.nn) out
      |> kSave c cd blk (res + (2 * t + 1) * c.nn) (out + 8)
  let lastBody : Nat → Heap Int → Heap Int := fun blk h =>
    (if ncols == colMax then
        h |> scr tb 0 8 |> scr tb 16 (8 * rowMax) |> kProd1 c cd rowMax nrows out ext (matBlk blk + (colMax - 1) * (8 * nrows))
      else h |> scr tb 0 16 |> scr tb 16 (8 * rowMax)
        |> kProd2 c cd rowMax nrows out ext (matBlk blk + (colMax - 1) * (8 * nrows)))
      |> kSave c cd blk (res + (colMax - 1) * c.nn) out
  let blkBody : Nat → Heap Int → Heap Int := fun blk h =>
    let h1 := h |> scr tb 16 (8 * rowMax) |> kExtractRows c cd rowMax blk ext adft
    let h2 := loop (colMax / 2) (pairBody blk) h1
    if colMax % 2 == 1 then lastBody blk h2 else h2
  let colBodyB : Nat → Heap Int → Heap Int := fun col h =>
    if rowMax == 0 then kZeroD c cd (res + col * c.nn) c.nn h
    else
      h |> kMul c cd (res + col * c.nn) adft (pmat + col * nrows * c.nn)
        |> loop (rowMax - 1) (fun k => kAddmul c cd (res + col * c.nn) (adft + (k + 1) * c.nn)
            (pmat + col * nrows * c.nn + (k + 1) * c.nn))
  let Hmid : Heap Int :=
    if c.nn ≥ 8 then loop (c.m / 4) blkBody ⟨X, true⟩ else loop colMax colBodyB ⟨X, true⟩
  have hfin : vmpApplyDftToDft c cd ⟨X, true⟩ res rsz adft asz pmat nrows ncols tmp tb
      = kZeroD c cd (res + colMax * c.nn) ((rsz - colMax) * c.nn) Hmid := rfl
  rw [hfin] at hok ⊢
  have hokM : Hmid.ok = true := okMono_kZeroD c cd _ _ _ hok
  have hzb := kZeroD_bound c cd _ _ _ hok
  let Efull : Int → Int → Int → Int → Int → Int → Int → Int → Int → Int → Int → Int → List Int :=
    fun j20 j21 j22 j23 j24 j25 j26 j27 j28 j29 j30 j31 =>
      [(c.nn : Int), (c.m : Int), (rsz : Int), (asz : Int), (nrows : Int), (ncols : Int), (c.m : Int), (c.nn : Int),
        (B : Int), (tmp : Int), (B : Int), ((tmp + 16 : Nat) : Int), (B : Int), (pmat : Int), (B : Int), (adft : Int),
        (B : Int), (res : Int), ((min nrows asz : Nat) : Int), ((min ncols rsz : Nat) : Int),
        j20, j21, j22, j23, j24, j25, j26, j27, j28, j29, j30, j31]
  let P : State → Prop := fun σ => ∃ j20 j21 j22 j23 j24 j25 j26 j27 j28 j29 j30 j31,
    σ = ⟨Efull j20 j21 j22 j23 j24 j25 j26 j27 j28 j29 j30 j31, m0.setIfInBounds B Hmid.mem⟩
  -- monotonicity and sizes of the pieces
  have mPair : ∀ blk t, OkMono (pairBody blk t) := fun blk t =>
    okMono_comp (okMono_comp (okMono_comp (okMono_comp (okMono_scr _ _ _) (okMono_scr _ _ _))
      (okMono_kProd2 c cd _ _ _ _ _)) (okMono_kSave c cd _ _ _)) (okMono_kSave c cd _ _ _)
  have mLast : ∀ blk, OkMono (lastBody blk) := fun blk =>
    okMono_comp (okMono_ite _
      (okMono_comp (okMono_comp (okMono_scr _ _ _) (okMono_scr _ _ _)) (okMono_kProd1 c cd _ _ _ _ _))
      (okMono_comp (okMono_comp (okMono_scr _ _ _) (okMono_scr _ _ _)) (okMono_kProd2 c cd _ _ _ _ _)))
      (okMono_kSave c cd _ _ _)
  have mBlk : ∀ blk, OkMono (blkBody blk) := fun blk =>
    okMono_comp (okMono_comp (okMono_comp (okMono_scr _ _ _) (okMono_kExtractRows c cd _ _ _ _))
      (okMono_loop _ _ (mPair blk))) (okMono_ite _ (mLast blk) okMono_id)
  have mColB : ∀ col, OkMono (colBodyB col) := fun col =>
    okMono_ite _ (okMono_kZeroD c cd _ _)
      (okMono_comp (okMono_kMul c cd _ _ _) (okMono_loop _ _ (fun k => okMono_kAddmul c cd _ _ _)))
  have szPair : ∀ blk t h, (pairBody blk t h).mem.size = h.mem.size := fun blk t h => by
    simp only [pairBody]; rw [size_kSave, size_kSave, size_kProd2, size_scr, size_scr]
  have szLast : ∀ blk h, (lastBody blk h).mem.size = h.mem.size := fun blk h => by
    simp only [lastBody]; rw [size_kSave]
    split
    · rw [size_kProd1, size_scr, size_scr]
    · rw [size_kProd2, size_scr, size_scr]
  have szBlk : ∀ blk h, (blkBody blk h).mem.size = h.mem.size := fun blk h => by
    simp only [blkBody]
    split
    · rw [szLast, size_loop _ _ (szPair blk), size_kExtractRows, size_scr]
    · rw [size_loop _ _ (szPair blk), size_kExtractRows, size_scr]
  have szColB : ∀ col h, (colBodyB col h).mem.size = h.mem.size := fun col h => by
    simp only [colBodyB]
    split
    · rw [size_kZeroD]
    · rw [size_loop _ _ (fun k h => size_kAddmul c cd _ _ _ h), size_kMul]
  have hszM : Hmid.mem.size = X.size := by
    simp only [Hmid]
    split
    · exact size_loop _ _ szBlk _
    · exact size_loop _ _ szColB _
  refine memOf_of_exists _ _ (fun σ => σ.mem = m0.setIfInBounds B
      (kZeroD c cd (res + colMax * c.nn) ((rsz - colMax) * c.nn) Hmid).mem)
    (seqK_of_exists _ _ P _ ?hmid ?htail) (fun σ h => h)
  case htail =>
    rintro σ1 ⟨j20, j21, j22, j23, j24, j25, j26, j27, j28, j29, j30, j31, rfl⟩
    rw [hszM] at hzb
    simp only [Efull]
    cirkx []
    simp only [List.length_cons, List.length_nil, List.replicate, List.cons_append, List.nil_append, Nat.reduceSub, Nat.reduceAdd]
    cirkx []
    have e4 : ((min ncols rsz : Nat) : Int) * (c.nn : Int) % 18446744073709551616 = ((colMax * c.nn : Nat) : Int) := by
      have : ((min ncols rsz : Nat) : Int) * (c.nn : Int) = ((colMax * c.nn : Nat) : Int) := by push_cast; rfl
      rw [this]; omega
    have e5 : ((rsz : Int) - ((min ncols rsz : Nat) : Int)) % 18446744073709551616 * (c.nn : Int) % 18446744073709551616 * 8
        % 18446744073709551616 = ((8 * ((rsz - colMax) * c.nn) : Nat) : Int) := by
      have hm := Nat.min_le_right ncols rsz
      have t1 : ((rsz : Int) - ((min ncols rsz : Nat) : Int)) = ((rsz - colMax : Nat) : Int) := by
        simp only [colMax]; omega
      have t2 : ((rsz - colMax : Nat) : Int) * (c.nn : Int) = (((rsz - colMax) * c.nn : Nat) : Int) := by
        push_cast; rfl
      have t0 : ((rsz - colMax : Nat) : Int) % 18446744073709551616 = ((rsz - colMax : Nat) : Int) :=
        Int.emod_eq_of_lt (by omega) (by omega)
      rw [t1, t0, t2]
      omega
    rw [e4, e5, ptrAt_pvar_off _ _ 16 B res (colMax * c.nn) _ rfl rfl rfl]
    simp only [R.bind_ok, List.getD_cons_zero, show (0 : Int) % 18446744073709551616 = 0 from rfl]
    rw [memset_arena m0 B hB _ _ _ .f64 rfl rfl (by rw [hszM]; omega)]
    simp only [R.bind_ok, callRet_ok, kZeroD_mem, hz]
    exact ⟨_, rfl, rfl⟩
  case hmid =>
    by_cases hn8 : 8 ≤ c.nn
    · have hc8 : (decide ((c.nn : Int) ≥ 8 % 18446744073709551616)) = true := by
        simp; omega
      simp only [hc8, if_true]
      let Hb : Nat → Heap Int := fun b => loop b blkBody ⟨X, true⟩
      have hHmid : Hmid = Hb (c.m / 4) := by simp only [Hmid, ge_iff_le, hn8, if_true, Hb]
      have okB : ∀ b, b ≤ c.m / 4 → (Hb b).ok = true := fun b hb =>
        loop_ok_prefix _ mBlk _ _ b hb (by have := hokM; rw [hHmid] at this; exact this)
      have szB : ∀ b, (Hb b).mem.size = X.size := fun b => size_loop b _ szBlk _
      let I : Nat → State → Prop := fun b σ => ∃ j21 j22 j23 j24 j25 j26,
        σ = ⟨Efull (b : Int) j21 j22 j23 j24 j25 j26 0 0 0 0 0, m0.setIfInBounds B (Hb b).mem⟩
      have em4 : (c.m : Int) / 2 ^ Int.toNat 2 = ((c.m / 4 : Nat) : Int) := by
        show (c.m : Int) / 4 = _
        omega
      refine exists_weaken _ (I (c.m / 4)) P (execK_for_inv _ _ _ _ _ _ _ I (c.m / 4) (ncols + 1)
        ?hi0 ?hc ?hs ?hx fuel (by omega)) ?hw
      case hw =>
        rintro σ ⟨j21, j22, j23, j24, j25, j26, rfl⟩
        refine ⟨((c.m / 4 : Nat) : Int), j21, j22, j23, j24, j25, j26, 0, 0, 0, 0, 0, ?_⟩
        rw [hHmid]
      case hi0 =>
        intro f
        exact ⟨_, rfl, ⟨_, _, _, _, _, _, rfl⟩⟩
      case hc =>
        rintro b σ hb ⟨j21, j22, j23, j24, j25, j26, rfl⟩
        simp only [Efull]
        cirk_simp
        simp (config := { decide := true }) only [if_true, R.bind_ok, em4, decide_b2i_ne_zero]
        exact ok_decide_true (by omega)
      case hx =>
        rintro σ ⟨j21, j22, j23, j24, j25, j26, rfl⟩
        simp only [Efull]
        cirk_simp
        simp (config := { decide := true }) only [if_true, R.bind_ok, em4, decide_b2i_ne_zero]
        exact ok_decide_false (by omega)
      case hs =>
        rintro b σ hb ⟨j21, j22, j23, j24, j25, j26, rfl⟩ f hf
        -- the model's block step
        have hHb1 : Hb (b + 1) = blkBody b (Hb b) := loop_succ b _ _
        let g0 := scr tb 16 (8 * rowMax) (Hb b)
        let h1 := kExtractRows c cd rowMax b ext adft g0
        let Hp : Nat → Heap Int := fun t => loop t (pairBody b) h1
        let h2 := Hp (colMax / 2)
        have hHb1' : Hb (b + 1) = if colMax % 2 == 1 then lastBody b h2 else h2 := hHb1
        have ob1 : (Hb (b + 1)).ok = true := okB (b + 1) (by omega)
        have o2 : h2.ok = true := by
          rw [hHb1'] at ob1
          exact okMono_ite _ (mLast b) okMono_id h2 ob1
        have okP : ∀ t, t ≤ colMax / 2 → (Hp t).ok = true := fun t ht => loop_ok_prefix _ (mPair b) _ _ t ht o2
        have o1 : h1.ok = true := okP 0 (Nat.zero_le _)
        have o0 : g0.ok = true := okMono_kExtractRows c cd _ _ _ _ _ o1
        have q0 : g0 = Hb b := scr_of_ok _ _ _ _ o0
        have e1 : kExtractRows c cd rowMax b ext adft (Hb b) = h1 := by
          show _ = kExtractRows c cd rowMax b ext adft g0; rw [q0]
        have sz1 : h1.mem.size = X.size := by
          show (kExtractRows c cd rowMax b ext adft g0).mem.size = _
          rw [size_kExtractRows, q0, szB]
        have szP : ∀ t, (Hp t).mem.size = X.size := fun t => by
          rw [← sz1]; exact size_loop t _ (szPair b) _
        -- facts of one pair step
        have pairFacts : ∀ t, t < colMax / 2 →
            kSave c cd b (res + (2 * t + 1) * c.nn) (out + 8) (kSave c cd b (res + (2 * t) * c.nn) out
              (kProd2 c cd rowMax nrows out ext (matBlk b + (2 * t) * (8 * nrows)) (Hp t))) = Hp (t + 1) ∧
            (kProd2 c cd rowMax nrows out ext (matBlk b + (2 * t) * (8 * nrows)) (Hp t)).ok = true ∧
            (kSave c cd b (res + (2 * t) * c.nn) out
              (kProd2 c cd rowMax nrows out ext (matBlk b + (2 * t) * (8 * nrows)) (Hp t))).ok = true := by
          intro t ht
          have hP1 : Hp (t + 1) = pairBody b t (Hp t) := loop_succ t _ _
          have ok5 : (pairBody b t (Hp t)).ok = true := by rw [← hP1]; exact okP (t + 1) (by omega)
          have ok4 := okMono_kSave c cd _ _ _ _ ok5
          have ok3 := okMono_kSave c cd _ _ _ _ ok4
          have ok2 := okMono_kProd2 c cd _ _ _ _ _ _ ok3
          have ok1 := okMono_scr _ _ _ _ ok2
          have r1 : scr tb 0 16 (Hp t) = Hp t := scr_of_ok _ _ _ _ ok1
          have r2 : scr tb 16 (8 * rowMax) (scr tb 0 16 (Hp t)) = Hp t := by rw [scr_of_ok _ _ _ _ ok2, r1]
          have hP1' : Hp (t + 1) = kSave c cd b (res + (2 * t + 1) * c.nn) (out + 8) (kSave c cd b (res + (2 * t) * c.nn) out
              (kProd2 c cd rowMax nrows out ext (matBlk b + (2 * t) * (8 * nrows))
                (scr tb 16 (8 * rowMax) (scr tb 0 16 (Hp t))))) := hP1
          rw [r2] at hP1' ok3 ok4
          exact ⟨hP1'.symm, ok3, ok4⟩
        have hmb : 1 ≤ colMax → matBlk b + 8 * nrows ≤ X.size := by
          intro h1c
          by_cases hc2 : 1 ≤ colMax / 2
          · obtain ⟨_, ok3, _⟩ := pairFacts 0 hc2
            have := (kProd2_bound c cd _ _ _ _ _ _ ok3).2.2
            rw [szP] at this
            omega
          · have hc1 : colMax % 2 = 1 := by omega
            have hc0 : colMax - 1 = 0 := by omega
            have hl : (lastBody b h2).ok = true := by
              have := ob1; rw [hHb1'] at this
              simpa [hc1] using this
            have hl2 := okMono_kSave c cd _ _ _ _ hl
            have sz2 : h2.mem.size = X.size := szP _
            by_cases hnc2 : ncols = colMax
            · have hl3 : (kProd1 c cd rowMax nrows out ext (matBlk b + (colMax - 1) * (8 * nrows))
                  (scr tb 16 (8 * rowMax) (scr tb 0 8 h2))).ok = true := by simpa [hnc2] using hl2
              have := (kProd1_bound c cd _ _ _ _ _ _ hl3).2.2
              rw [size_scr, size_scr, sz2, hc0] at this
              omega
            · have hl3 : (kProd2 c cd rowMax nrows out ext (matBlk b + (colMax - 1) * (8 * nrows))
                  (scr tb 16 (8 * rowMax) (scr tb 0 16 h2))).ok = true := by simpa [hnc2] using hl2
              have := (kProd2_bound c cd _ _ _ _ _ _ hl3).2.2
              rw [size_scr, size_scr, sz2, hc0] at this
              omega
        simp only [Efull]
        cirkx []
        generalize hvb : ((b : Int) * (8 % 18446744073709551616 * (nrows : Int) % 18446744073709551616 * (ncols : Int)
            % 18446744073709551616) % 18446744073709551616) = vb
        have hvb0 : 0 ≤ vb := by rw [← hvb]; omega
        have hsa : 1 ≤ colMax → pmat + vb.toNat = matBlk b := by
          intro h1c
          have hb' := hmb h1c
          simp only [matBlk] at hb' ⊢
          by_cases hb0 : b = 0
          · subst hb0
            simp at hvb
            subst hvb
            simp
          · have hle : 8 * nrows * ncols ≤ b * (8 * nrows * ncols) := Nat.le_mul_of_pos_left _ (Nat.pos_of_ne_zero hb0)
            have t1 : (8 : Int) * (nrows : Int) = ((8 * nrows : Nat) : Int) := by push_cast; rfl
            have t2 : ((8 * nrows : Nat) : Int) * (ncols : Int) = ((8 * nrows * ncols : Nat) : Int) := by push_cast; rfl
            have t3 : (b : Int) * ((8 * nrows * ncols : Nat) : Int) = ((b * (8 * nrows * ncols) : Nat) : Int) := by
              push_cast; rfl
            have e8 : (8 : Int) % 18446744073709551616 = 8 := by decide
            have u1 : ((8 * nrows : Nat) : Int) % 18446744073709551616 = ((8 * nrows : Nat) : Int) :=
              Int.emod_eq_of_lt (by omega) (by omega)
            rw [e8, t1, u1, t2] at hvb
            generalize 8 * nrows * ncols = Q at hle hb' hvb t3 ⊢
            have u2 : ((Q : Nat) : Int) % 18446744073709551616 = ((Q : Nat) : Int) := by
              generalize b * Q = R at hle hb'
              omega
            rw [u2, t3] at hvb
            generalize b * Q = R at hle hb' hvb ⊢
            omega
        rw [ptrAt_pvar_off _ _ 12 B pmat vb.toNat vb (by omega) rfl rfl]
        cirkx [pp1]
        rw [ptrAt_pvar_off _ _ 10 B (tmp + 16) 0 0 rfl rfl rfl]
        simp only [R.bind_ok, modSem, and_self, if_true, Int.toNat_natCast, Int.natCast_nonneg, Nat.add_zero]
        rw [onArena_ok2 B _ m0 _ (Hb b) hB rfl (okB b (by omega)) (by rw [e1]; exact o1), e1]
        cirkx []
        -- the loop over column pairs
        let S : Nat → State := fun t =>
          ⟨Efull (b : Int) (B : Int) ((pmat + vb.toNat : Nat) : Int) ((2 * t : Nat) : Int)
            (if t = 0 then j24 else (((2 * (t - 1)) * (8 * nrows) : Nat) : Int)) j25 j26 0 0 0 0 0,
            m0.setIfInBounds B (Hp t).mem⟩
        rw [execK_for_range _ _ _ _ _ _ _ S 0 (colMax / 2) 0 (Nat.zero_le _) ?hi0 ?hc ?hs ?hx f (by
          have := Nat.min_le_left ncols rsz; simp only [colMax]; omega)]
        case hi0 => intro f; simp only [S, Efull]; rfl
        case hc =>
          intro t _ ht
          simp only [S, Efull]
          cirk_simp
          exact ok_decide_true (by simp only [colMax] at ht; omega)
        case hx =>
          simp only [S, Efull]
          cirk_simp
          exact ok_decide_false (by simp only [colMax]; omega)
        case hs =>
          intro t _ ht f _
          obtain ⟨hP1, ok3, ok4⟩ := pairFacts t ht
          have ok5 : (Hp (t + 1)).ok = true := okP (t + 1) (by omega)
          have h1c : 1 ≤ colMax := by omega
          have hsa' := hsa h1c
          have bP := kProd2_bound c cd _ _ _ _ _ _ ok3
          have bS1 := kSave_bound c cd _ _ _ _ ok4
          have bS2 := kSave_bound c cd _ _ _ _ (by rw [hP1]; exact ok5)
          rw [szP] at bP
          rw [size_kProd2, szP] at bS1
          rw [size_kSave, size_kProd2, szP] at bS2
          have ecol : ((2 * t : Nat) : Int) * (8 % 18446744073709551616 * (nrows : Int) % 18446744073709551616)
              % 18446744073709551616 = (((2 * t) * (8 * nrows) : Nat) : Int) := by
            have e8 : (8 : Int) % 18446744073709551616 = 8 := by decide
            have t1 : (8 : Int) * (nrows : Int) = ((8 * nrows : Nat) : Int) := by push_cast; rfl
            have t2 : ((2 * t : Nat) : Int) * ((8 * nrows : Nat) : Int) = (((2 * t) * (8 * nrows) : Nat) : Int) := by
              push_cast; rfl
            have u1 : ((8 * nrows : Nat) : Int) % 18446744073709551616 = ((8 * nrows : Nat) : Int) :=
              Int.emod_eq_of_lt (by omega) (by omega)
            rw [e8, t1, u1, t2]
            generalize (2 * t) * (8 * nrows) = Q at bP ⊢
            omega
          have eres1 : ((2 * t : Nat) : Int) * (c.nn : Int) % 18446744073709551616 = (((2 * t) * c.nn : Nat) : Int) := by
            have t2 : ((2 * t : Nat) : Int) * (c.nn : Int) = (((2 * t) * c.nn : Nat) : Int) := by push_cast; rfl
            rw [t2]
            generalize (2 * t) * c.nn = Q at bS1 ⊢
            omega
          have eres2 : (((2 * t : Nat) : Int) + 1 % 18446744073709551616) % 18446744073709551616 * (c.nn : Int)
              % 18446744073709551616 = (((2 * t + 1) * c.nn : Nat) : Int) := by
            have t2 : ((2 * t + 1 : Nat) : Int) * (c.nn : Int) = (((2 * t + 1) * c.nn : Nat) : Int) := by push_cast; rfl
            have t3 : (((2 * t : Nat) : Int) + 1 % 18446744073709551616) % 18446744073709551616 = ((2 * t + 1 : Nat) : Int) := by
              simp only [colMax] at ht; omega
            rw [t3, t2]
            generalize (2 * t + 1) * c.nn = Q at bS2 ⊢
            omega
          simp only [S, Efull]
          cirk_simp
          rw [ecol]
          rw [ptrAt_pvar_off _ _ 8 B tmp 0 0 rfl rfl rfl, ptrAt_pvar_off _ _ 10 B (tmp + 16) 0 0 rfl rfl rfl,
            ptrAt_pvar_off _ _ 21 B (pmat + vb.toNat) ((2 * t) * (8 * nrows)) _ rfl rfl rfl]
          simp only [R.bind_ok, modSem, and_self, if_true, Int.toNat_natCast, Int.natCast_nonneg, Nat.add_zero]
          rw [hsa', onArena_ok2 B _ m0 _ (Hp t) hB rfl (okP t (by omega)) ok3]
          cirkx []
          rw [eres1, ptrAt_pvar_off _ _ 16 B res ((2 * t) * c.nn) _ rfl rfl rfl, ptrAt_pvar_off _ _ 8 B tmp 0 0 rfl rfl rfl]
          simp only [R.bind_ok, modSem, and_self, if_true, Int.toNat_natCast, Int.natCast_nonneg, Nat.add_zero]
          rw [onArena_ok2 B _ m0 _ _ hB rfl ok3 ok4]
          cirkx []
          rw [eres2, ptrAt_pvar_off _ _ 16 B res ((2 * t + 1) * c.nn) _ rfl rfl rfl,
            ptrAt_pvar_off _ _ 8 B tmp 8 8 rfl rfl rfl]
          simp only [R.bind_ok, modSem, and_self, if_true, Int.toNat_natCast, Int.natCast_nonneg]
          rw [onArena_ok2 B _ m0 _ _ hB rfl ok4 (by rw [hP1]; exact ok5), hP1]
          cirk_simp
          have e3 : (((2 * t : Nat) : Int) + 2 % 18446744073709551616) % 18446744073709551616 = ((2 * (t + 1) : Nat) : Int) := by
            simp only [colMax] at ht; omega
          rw [e3]
          simp
        rw [seqK_norm]
        have e2m : (2 : Int) % 18446744073709551616 = 2 := by decide
        have e3b : ((b : Int) + 1) % 18446744073709551616 = ((b + 1 : Nat) : Int) := by omega
        by_cases hodd : colMax % 2 = 1
        · -- odd number of columns: the last one alone
          have h1c : 1 ≤ colMax := by omega
          have hsa' := hsa h1c
          have hl : (lastBody b h2).ok = true := by
            have := ob1; rw [hHb1'] at this
            simpa [hodd] using this
          have hHl : Hb (b + 1) = lastBody b h2 := by rw [hHb1']; simp [hodd]
          have hl2 := okMono_kSave c cd _ _ _ _ hl
          have sz2 : h2.mem.size = X.size := szP _
          have dodd : decide (((min ncols rsz : Nat) : Int) % 2 = 1 % 18446744073709551616) = true :=
            decide_eq_true (by simp only [colMax] at hodd; omega)
          have elast : (((min ncols rsz : Nat) : Int) - 1 % 18446744073709551616) % 18446744073709551616
              = ((colMax - 1 : Nat) : Int) := by simp only [colMax] at h1c ⊢; omega
          simp only [S, Efull]
          cirk_simp
          simp (config := { decide := true }) only [e2m, if_false, R.bind_ok]
          simp (config := { decide := true }) only [dodd, if_true]
          rw [elast]
          have e8 : (8 : Int) % 18446744073709551616 = 8 := by decide
          have t1 : (8 : Int) * (nrows : Int) = ((8 * nrows : Nat) : Int) := by push_cast; rfl
          have t2 : ((colMax - 1 : Nat) : Int) * ((8 * nrows : Nat) : Int) = (((colMax - 1) * (8 * nrows) : Nat) : Int) := by
            push_cast; rfl
          have t4 : ((colMax - 1 : Nat) : Int) * (c.nn : Int) = (((colMax - 1) * c.nn : Nat) : Int) := by push_cast; rfl
          have hmb' := hmb h1c
          have u1 : ((8 * nrows : Nat) : Int) % 18446744073709551616 = ((8 * nrows : Nat) : Int) :=
            Int.emod_eq_of_lt (by omega) (by omega)
          have witness : ∀ (s22 : Int) (M : Array Int), M = (Hb (b + 1)).mem →
              ∃ σ', (R.ok (Flow.norm, (⟨Efull (((b : Int) + 1) % 18446744073709551616) (B : Int)
                  s22 ((2 * (colMax / 2) : Nat) : Int)
                  (if colMax / 2 = 0 then j24 else (((2 * (colMax / 2 - 1)) * (8 * nrows) : Nat) : Int))
                  ((colMax - 1 : Nat) : Int) (((colMax - 1) * (8 * nrows) : Nat) : Int) 0 0 0 0 0,
                  Array.setIfInBounds m0 B M⟩ : State)) : Out) = R.ok (Flow.norm, σ') ∧ I (b + 1) σ' := by
            intro s22 M hM
            refine ⟨_, rfl, ⟨(B : Int), s22, ((2 * (colMax / 2) : Nat) : Int),
              (if colMax / 2 = 0 then j24 else (((2 * (colMax / 2 - 1)) * (8 * nrows) : Nat) : Int)),
              ((colMax - 1 : Nat) : Int), (((colMax - 1) * (8 * nrows) : Nat) : Int), ?_⟩⟩
            rw [hM, e3b]
          by_cases hnc2 : ncols = colMax
          · have hl3 : (kProd1 c cd rowMax nrows out ext (matBlk b + (colMax - 1) * (8 * nrows))
                (scr tb 16 (8 * rowMax) (scr tb 0 8 h2))).ok = true := by simpa [hnc2] using hl2
            have hs2 := okMono_kProd1 c cd _ _ _ _ _ _ hl3
            have hs1 := okMono_scr _ _ _ _ hs2
            have r2 : scr tb 16 (8 * rowMax) (scr tb 0 8 h2) = h2 := by
              rw [scr_of_ok _ _ _ _ hs2, scr_of_ok _ _ _ _ hs1]
            have hlast : lastBody b h2 = kSave c cd b (res + (colMax - 1) * c.nn) out
                (kProd1 c cd rowMax nrows out ext (matBlk b + (colMax - 1) * (8 * nrows)) h2) := by
              simp only [lastBody, hnc2, beq_self_eq_true, if_true]
              rw [r2]
            rw [r2] at hl3
            rw [hlast] at hl
            have bS := kSave_bound c cd _ _ _ _ hl
            have bP := kProd1_bound c cd _ _ _ _ _ _ hl3
            rw [sz2] at bP
            rw [size_kProd1, sz2] at bS
            have ecol2 : ((colMax - 1 : Nat) : Int) * (8 % 18446744073709551616 * (nrows : Int) % 18446744073709551616)
                % 18446744073709551616 = (((colMax - 1) * (8 * nrows) : Nat) : Int) := by
              rw [e8, t1, u1, t2]
              generalize (colMax - 1) * (8 * nrows) = Q at bP ⊢
              omega
            have eres3 : ((colMax - 1 : Nat) : Int) * (c.nn : Int) % 18446744073709551616
                = (((colMax - 1) * c.nn : Nat) : Int) := by
              rw [t4]
              generalize (colMax - 1) * c.nn = Q at bS ⊢
              omega
            have dnc : decide ((ncols : Int) = ((min ncols rsz : Nat) : Int)) = true :=
              decide_eq_true (by simp only [colMax] at hnc2; omega)
            simp only [dnc, if_true]
            rw [ecol2, ptrAt_pvar_off _ _ 8 B tmp 0 0 rfl rfl rfl, ptrAt_pvar_off _ _ 10 B (tmp + 16) 0 0 rfl rfl rfl,
              ptrAt_pvar_off _ _ 21 B (pmat + vb.toNat) ((colMax - 1) * (8 * nrows)) _ rfl rfl rfl]
            simp only [R.bind_ok, modSem, and_self, if_true, Int.toNat_natCast, Int.natCast_nonneg, Nat.add_zero]
            rw [hsa', onArena_ok2 B _ m0 _ h2 hB rfl o2 hl3]
            cirkx []
            rw [eres3, ptrAt_pvar_off _ _ 16 B res ((colMax - 1) * c.nn) _ rfl rfl rfl,
              ptrAt_pvar_off _ _ 8 B tmp 0 0 rfl rfl rfl]
            simp only [R.bind_ok, modSem, and_self, if_true, Int.toNat_natCast, Int.natCast_nonneg, Nat.add_zero]
            rw [onArena_ok2 B _ m0 _ _ hB rfl hl3 hl]
            cirk_simp
            exact witness _ _ (by rw [hHl, hlast])
          · have hl3 : (kProd2 c cd rowMax nrows out ext (matBlk b + (colMax - 1) * (8 * nrows))
                (scr tb 16 (8 * rowMax) (scr tb 0 16 h2))).ok = true := by simpa [hnc2] using hl2
            have hs2 := okMono_kProd2 c cd _ _ _ _ _ _ hl3
            have hs1 := okMono_scr _ _ _ _ hs2
            have r2 : scr tb 16 (8 * rowMax) (scr tb 0 16 h2) = h2 := by
              rw [scr_of_ok _ _ _ _ hs2, scr_of_ok _ _ _ _ hs1]
            have hlast : lastBody b h2 = kSave c cd b (res + (colMax - 1) * c.nn) out
                (kProd2 c cd rowMax nrows out ext (matBlk b + (colMax - 1) * (8 * nrows)) h2) := by
              have hne : (ncols == colMax) = false := by simpa using hnc2
              simp only [lastBody, hne, Bool.false_eq_true, if_false]
              rw [r2]
            rw [r2] at hl3
            rw [hlast] at hl
            have bS := kSave_bound c cd _ _ _ _ hl
            have bP := kProd2_bound c cd _ _ _ _ _ _ hl3
            rw [sz2] at bP
            rw [size_kProd2, sz2] at bS
            have ecol2 : ((colMax - 1 : Nat) : Int) * (8 % 18446744073709551616 * (nrows : Int) % 18446744073709551616)
                % 18446744073709551616 = (((colMax - 1) * (8 * nrows) : Nat) : Int) := by
              rw [e8, t1, u1, t2]
              generalize (colMax - 1) * (8 * nrows) = Q at bP ⊢
              omega
            have eres3 : ((colMax - 1 : Nat) : Int) * (c.nn : Int) % 18446744073709551616
                = (((colMax - 1) * c.nn : Nat) : Int) := by
              rw [t4]
              generalize (colMax - 1) * c.nn = Q at bS ⊢
              omega
            have dnc : decide ((ncols : Int) = ((min ncols rsz : Nat) : Int)) = false :=
              decide_eq_false (by simp only [colMax] at hnc2; omega)
            simp only [dnc, Bool.false_eq_true, if_false]
            rw [ecol2, ptrAt_pvar_off _ _ 8 B tmp 0 0 rfl rfl rfl, ptrAt_pvar_off _ _ 10 B (tmp + 16) 0 0 rfl rfl rfl,
              ptrAt_pvar_off _ _ 21 B (pmat + vb.toNat) ((colMax - 1) * (8 * nrows)) _ rfl rfl rfl]
            simp only [R.bind_ok, modSem, and_self, if_true, Int.toNat_natCast, Int.natCast_nonneg, Nat.add_zero]
            rw [hsa', onArena_ok2 B _ m0 _ h2 hB rfl o2 hl3]
            cirkx []
            rw [eres3, ptrAt_pvar_off _ _ 16 B res ((colMax - 1) * c.nn) _ rfl rfl rfl,
              ptrAt_pvar_off _ _ 8 B tmp 0 0 rfl rfl rfl]
            simp only [R.bind_ok, modSem, and_self, if_true, Int.toNat_natCast, Int.natCast_nonneg, Nat.add_zero]
            rw [onArena_ok2 B _ m0 _ _ hB rfl hl3 hl]
            cirk_simp
            exact witness _ _ (by rw [hHl, hlast])
        · -- even: nothing more
          have hHl : Hb (b + 1) = h2 := by rw [hHb1']; simp [hodd]
          have deven : decide (((min ncols rsz : Nat) : Int) % 2 = 1 % 18446744073709551616) = false :=
            decide_eq_false (by simp only [colMax] at hodd; omega)
          simp only [S, Efull]
          cirk_simp
          simp (config := { decide := true }) only [e2m, if_false, R.bind_ok]
          simp (config := { decide := true }) only [deven, if_false]
          cirk_simp
          refine ⟨_, rfl, ⟨(B : Int), ((pmat + vb.toNat : Nat) : Int), ((2 * (colMax / 2) : Nat) : Int),
            (if colMax / 2 = 0 then j24 else (((2 * (colMax / 2 - 1)) * (8 * nrows) : Nat) : Int)), j25, j26, ?_⟩⟩
          rw [hHl, e3b]
    · have hc8 : (decide ((c.nn : Int) ≥ 8 % 18446744073709551616)) = false := by
        simp; omega
      simp only [hc8, Bool.false_eq_true, if_false]
      let Hc : Nat → Heap Int := fun k => loop k colBodyB ⟨X, true⟩
      have hHmid : Hmid = Hc colMax := by simp only [Hmid, ge_iff_le, hn8, if_false, Hc]
      have okC : ∀ k, k ≤ colMax → (Hc k).ok = true := fun k hk =>
        loop_ok_prefix _ mColB _ _ k hk (by have := hokM; rw [hHmid] at this; exact this)
      have szC : ∀ k, (Hc k).mem.size = X.size := fun k => size_loop k _ szColB _
      let I : Nat → State → Prop := fun k σ => ∃ j28 j29 j30 j31,
        σ = ⟨Efull 0 0 0 0 0 0 0 (k : Int) j28 j29 j30 j31, m0.setIfInBounds B (Hc k).mem⟩
      refine exists_weaken _ (I colMax) P (execK_for_inv _ _ _ _ _ _ _ I colMax (nrows + 1)
        ?hi0 ?hc ?hs ?hx fuel (by have := Nat.min_le_left ncols rsz; simp only [colMax]; omega)) ?hw
      case hw =>
        rintro σ ⟨j28, j29, j30, j31, rfl⟩
        refine ⟨0, 0, 0, 0, 0, 0, 0, ((colMax : Nat) : Int), j28, j29, j30, j31, ?_⟩
        rw [hHmid]
      case hi0 =>
        intro f
        exact ⟨_, rfl, ⟨_, _, _, _, rfl⟩⟩
      case hc =>
        rintro k σ hk ⟨j28, j29, j30, j31, rfl⟩
        simp only [Efull]
        cirk_simp
        exact ok_decide_true (by simp only [colMax] at hk; omega)
      case hx =>
        rintro σ ⟨j28, j29, j30, j31, rfl⟩
        simp only [Efull]
        cirk_simp
        exact ok_decide_false (by simp only [colMax]; omega)
      case hs =>
        rintro k σ hk ⟨j28, j29, j30, j31, rfl⟩ f hf
        have hHc1 : Hc (k + 1) = colBodyB k (Hc k) := loop_succ k _ _
        have oc1 : (Hc (k + 1)).ok = true := okC (k + 1) (by omega)
        have e3k : ((k : Int) + 1) % 18446744073709551616 = ((k + 1 : Nat) : Int) := by omega
        simp only [Efull]
        cirkx []
        generalize hvp : (((k : Int) * (nrows : Int)) % 18446744073709551616 * (c.nn : Int) % 18446744073709551616) = vp
        have hvp0 : 0 ≤ vp := by rw [← hvp]; omega
        rw [ptrAt_pvar_off _ _ 12 B pmat vp.toNat vp (by omega) rfl rfl]
        cirkx []
        by_cases hr0 : rowMax = 0
        · -- no usable row: the column of the result is zeroed
          have hcb : colBodyB k (Hc k) = kZeroD c cd (res + k * c.nn) c.nn (Hc k) := by
            simp only [colBodyB, hr0, beq_self_eq_true, if_true]
          rw [hHc1, hcb] at oc1
          have bz := kZeroD_bound c cd _ _ _ oc1
          rw [szC] at bz
          have dr0 : decide (((min nrows asz : Nat) : Int) = 0 % 18446744073709551616) = true :=
            decide_eq_true (by simp only [rowMax] at hr0; omega)
          have ek : ((k : Int) * (c.nn : Int)) % 18446744073709551616 = ((k * c.nn : Nat) : Int) := by
            have : ((k : Int) * (c.nn : Int)) = ((k * c.nn : Nat) : Int) := by push_cast; rfl
            rw [this]
            generalize k * c.nn = Q at bz ⊢
            omega
          have eb : ((c.nn : Int) * 8) % 18446744073709551616 = ((8 * c.nn : Nat) : Int) := by omega
          simp only [dr0, if_true]
          rw [ek, ptrAt_pvar_off _ _ 16 B res (k * c.nn) _ rfl rfl rfl]
          simp only [R.bind_ok, List.getD_cons_zero, List.length_cons, List.length_nil, List.replicate, List.cons_append,
            List.nil_append, Nat.reduceSub, Nat.reduceAdd, lget_zero, lget_succ,
            show (0 : Int) % 18446744073709551616 = 0 from rfl, eb]
          rw [memset_arena m0 B hB _ _ _ .f64 rfl rfl (by rw [szC]; omega)]
          simp only [R.bind_ok, callRet_ok, seqK_norm, execK_cont, seqK_cont, thenStep_cont]
          cirk_simp
          refine ⟨_, rfl, ⟨(B : Int), ((pmat + vp.toNat : Nat) : Int), j30, j31, ?_⟩⟩
          rw [hHc1, hcb, kZeroD_mem, hz, e3k]
        · have hr1 : 1 ≤ rowMax := Nat.pos_of_ne_zero hr0
          let r := res + k * c.nn
          let pcol := pmat + k * nrows * c.nn
          let addBody : Nat → Heap Int → Heap Int := fun j =>
            kAddmul c cd r (adft + (j + 1) * c.nn) (pcol + (j + 1) * c.nn)
          let G1 := kMul c cd r adft pcol (Hc k)
          let La : Nat → Heap Int := fun j => loop j addBody G1
          have hcb : colBodyB k (Hc k) = La (rowMax - 1) := by
            have hne : (rowMax == 0) = false := by simpa using hr0
            simp only [colBodyB, hne, Bool.false_eq_true, if_false]
            rfl
          rw [hHc1, hcb] at oc1
          have okA : ∀ j, j ≤ rowMax - 1 → (La j).ok = true := fun j hj =>
            loop_ok_prefix _ (fun j => okMono_kAddmul c cd _ _ _) _ _ j hj oc1
          have oG1 : G1.ok = true := okA 0 (Nat.zero_le _)
          have szG1 : G1.mem.size = X.size := by
            show (kMul c cd r adft pcol (Hc k)).mem.size = _
            rw [size_kMul, szC]
          have szA : ∀ j, (La j).mem.size = X.size := fun j => by
            rw [← szG1]; exact size_loop j _ (fun j h => size_kAddmul c cd _ _ _ h) _
          have bM := kMul_bound c cd _ _ _ _ oG1
          have bMr := kMul_bound_r c cd _ _ _ _ oG1
          rw [szC] at bM bMr
          have dr0 : decide (((min nrows asz : Nat) : Int) = 0 % 18446744073709551616) = false :=
            decide_eq_false (by simp only [rowMax] at hr0; omega)
          have ek : ((k : Int) * (c.nn : Int)) % 18446744073709551616 = ((k * c.nn : Nat) : Int) := by
            have : ((k : Int) * (c.nn : Int)) = ((k * c.nn : Nat) : Int) := by push_cast; rfl
            rw [this]
            simp only [r] at bMr
            generalize k * c.nn = Q at bMr ⊢
            omega
          have hsp : pmat + vp.toNat = pcol := by
            have p1 : k * nrows ≤ k * nrows * c.nn := Nat.le_mul_of_pos_right _ hnn0
            have t1 : ((k : Int) * (nrows : Int)) = ((k * nrows : Nat) : Int) := by push_cast; rfl
            have t2 : ((k * nrows : Nat) : Int) * (c.nn : Int) = ((k * nrows * c.nn : Nat) : Int) := by push_cast; rfl
            have u1 : ((k * nrows : Nat) : Int) % 18446744073709551616 = ((k * nrows : Nat) : Int) := by
              simp only [pcol] at bM
              generalize k * nrows * c.nn = Q at bM p1
              generalize k * nrows = Q' at p1 ⊢
              omega
            rw [t1, u1, t2] at hvp
            simp only [pcol] at bM ⊢
            generalize k * nrows * c.nn = Q at bM hvp ⊢
            omega
          simp only [dr0, Bool.false_eq_true, if_false, seqK_norm]
          cirk_simp
          -- `for (row_i = 0; row_i < 1; row_i++)`: the product with row 0
          let S0 : Nat → State := fun i =>
            ⟨Efull 0 0 0 0 0 0 0 (k : Int) (B : Int) ((pmat + vp.toNat : Nat) : Int) (i : Int) j31,
              m0.setIfInBounds B (if i = 0 then Hc k else G1).mem⟩
          rw [execK_for_range _ _ _ _ _ _ _ S0 0 1 0 (Nat.zero_le _) ?hi0 ?hc ?hs ?hx f (by omega)]
          case hi0 => intro f; simp only [S0, Efull]; rfl
          case hc =>
            intro i _ hi
            simp only [S0, Efull]
            cirk_simp
            exact ok_decide_true (by omega)
          case hx =>
            simp only [S0, Efull]
            cirk_simp
            exact ok_decide_false (by omega)
          case hs =>
            intro i _ hi f _
            have hi0 : i = 0 := by omega
            subst hi0
            simp only [S0, Efull]
            cirk_simp
            have e0 : ((0 : Nat) : Int) * (c.nn : Int) % 18446744073709551616 = ((0 : Nat) : Int) := by simp
            rw [ek, e0, ptrAt_pvar_off _ _ 16 B res (k * c.nn) _ rfl rfl rfl, ptrAt_pvar_off _ _ 14 B adft 0 _ rfl rfl rfl,
              ptrAt_pvar_off _ _ 28 B (pmat + vp.toNat) 0 _ rfl rfl rfl]
            simp only [R.bind_ok, modSem, and_self, if_true, Nat.add_zero]
            rw [hsp, onArena_ok2 B _ m0 _ (Hc k) hB rfl (okC k (by omega)) oG1]
            cirk_simp
            simp
            rfl
          rw [seqK_norm]
          -- `for (row_i = 1; row_i < row_max; row_i++)`: accumulate the other rows
          let S1 : Nat → State := fun i =>
            ⟨Efull 0 0 0 0 0 0 0 (k : Int) (B : Int) ((pmat + vp.toNat : Nat) : Int) ((1 : Nat) : Int) (i : Int),
              m0.setIfInBounds B (La (i - 1)).mem⟩
          rw [execK_for_range _ _ _ _ _ _ _ S1 1 rowMax 0 hr1 ?hi0 ?hc ?hs ?hx f (by
            have := Nat.min_le_left nrows asz; simp only [rowMax]; omega)]
          · simp only [S1, Efull]
            cirk_simp
            refine ⟨_, rfl, ⟨(B : Int), ((pmat + vp.toNat : Nat) : Int), ((1 : Nat) : Int), ((rowMax : Nat) : Int), ?_⟩⟩
            rw [hHc1, hcb, e3k]
          case hi0 =>
            intro f
            simp only [S0, S1, Efull]
            simp (config := { decide := true }) only [if_false]
            rfl
          case hc =>
            intro i _ hi
            simp only [S1, Efull]
            cirk_simp
            exact ok_decide_true (by simp only [rowMax] at hi; omega)
          case hx =>
            simp only [S1, Efull]
            cirk_simp
            exact ok_decide_false (by simp only [rowMax]; omega)
          case hs =>
            intro i hi1 hi f _
            have hj : i - 1 + 1 = i := by omega
            have hA1 : La i = kAddmul c cd r (adft + i * c.nn) (pcol + i * c.nn) (La (i - 1)) := by
              have := loop_succ (i - 1) addBody G1
              rw [hj] at this
              simpa [addBody, hj] using this
            have oA1 : (La i).ok = true := okA i (by omega)
            have bA := kAddmul_bound c cd _ _ _ _ (by rw [← hA1]; exact oA1)
            rw [szA] at bA
            have ei : ((i : Int) * (c.nn : Int)) % 18446744073709551616 = ((i * c.nn : Nat) : Int) := by
              have : ((i : Int) * (c.nn : Int)) = ((i * c.nn : Nat) : Int) := by push_cast; rfl
              rw [this]
              generalize i * c.nn = Q at bA ⊢
              omega
            simp only [S1, Efull]
            cirk_simp
            rw [ek, ei, ptrAt_pvar_off _ _ 16 B res (k * c.nn) _ rfl rfl rfl,
              ptrAt_pvar_off _ _ 14 B adft (i * c.nn) _ rfl rfl rfl,
              ptrAt_pvar_off _ _ 28 B (pmat + vp.toNat) (i * c.nn) _ rfl rfl rfl]
            simp only [R.bind_ok, modSem, and_self, if_true]
            rw [hsp, onArena_ok2 B _ m0 _ (La (i - 1)) hB rfl (okA (i - 1) (by omega)) (by rw [← hA1]; exact oA1), ← hA1]
            cirk_simp
            have e3 : ((i : Int) + 1) % 18446744073709551616 = ((i + 1 : Nat) : Int) := by omega
            rw [e3]
            simp

set_option linter.unusedSimpArgs false in
theorem src_fft64_vmp_apply_dft_ref_eq_model (c : Module.Parts α) (cd : Cells Int α) (hz : cd.enc c.ar.zero = 0)
    (m0 : Mem) (B : Nat) (hB : B < m0.size) (X : Array Int) (hX : X.size < 2305843009213693952)
    (res rsz a asz asl pmat nrows ncols tmp tb : Nat) (hnn0 : 0 < c.nn) (hnn : c.nn < 18446744073709551616)
    (hm : c.m < 18446744073709551616) (hrsz : rsz < 18446744073709551616) (hasz : asz < 18446744073709551616)
    (hnr : nrows < 18446744073709551616) (hnc : ncols < 18446744073709551616)
    (hok : (vmpApplyDft c cd ⟨X, true⟩ res rsz a asz asl pmat nrows ncols tmp tb).ok = true) :
    ∀ fuel, c.m / 4 + ncols + nrows + 1 ≤ fuel →
      runK (modSem c cd B nrows) fuel Gen.CSrc.fft64_vmp_apply_dft_ref
          [(c.nn : Int), (c.m : Int), (rsz : Int), (asz : Int), (asl : Int), (nrows : Int), (ncols : Int)]
          [some (B, res), some (B, a), some (B, pmat), some (B, tmp)] (m0.setIfInBounds B X)
        = .ok (m0.setIfInBounds B (vmpApplyDft c cd ⟨X, true⟩ res rsz a asz asl pmat nrows ncols tmp tb).mem) := by
  intro fuel hf
  let rows := min nrows asz
  let h1 : Heap Int := scr tb 0 (rows * c.nn) ⟨X, true⟩
  let h2 := vecDft c cd h1 tmp rows a asz asl
  have hfin : vmpApplyDft c cd ⟨X, true⟩ res rsz a asz asl pmat nrows ncols tmp tb
      = vmpApplyDftToDft c cd h2 res rsz tmp asz pmat nrows ncols (tmp + rows * c.nn) (tb - 8 * (rows * c.nn)) := rfl
  rw [hfin] at hok ⊢
  have o2 : h2.ok = true := okMono_vmpApplyDftToDft c cd _ _ _ _ _ _ _ _ _ h2 hok
  have mDft : OkMono (fun h => vecDft c cd h tmp rows a asz asl) := by
    intro h hk
    unfold vecDft at hk
    exact okMono_loop _ _ (fun i => okMono_comp (okMono_kFromZnx c cd _ _) (okMono_kFft c cd _)) h
      (okMono_kZeroD c cd _ _ _ hk)
  have o1 : h1.ok = true := mDft h1 o2
  have q1 : h1 = ⟨X, true⟩ := scr_of_ok _ _ _ _ o1
  have hh2 : h2 = vecDft c cd ⟨X, true⟩ tmp rows a asz asl := by
    show vecDft c cd h1 tmp rows a asz asl = _; rw [q1]
  have sz2 : h2.mem.size = X.size := by rw [hh2, size_vecDft]
  -- `tmp + rows * nn` is inside the arena
  have bz : tmp + rows * c.nn ≤ X.size := by
    have hk := o2
    rw [hh2] at hk
    unfold vecDft at hk
    have := kZeroD_bound c cd _ _ _ hk
    rw [size_loop _ _ (fun i h => by rw [size_kFft, size_kFromZnx])] at this
    have hmin : min rows asz = rows := Nat.min_eq_left (Nat.min_le_right nrows asz)
    simp only [hmin, Nat.sub_self, Nat.zero_mul, Nat.add_zero] at this
    exact this
  have pp0 : ∀ env, ptrAt [some (B, res), some (B, a), some (B, pmat), some (B, tmp)] env (.param 0) 0
      = .ok (some (B, res)) := fun env => ptrAt_param_zero _ env 0 B res rfl
  have pp1 : ∀ env, ptrAt [some (B, res), some (B, a), some (B, pmat), some (B, tmp)] env (.param 1) 0
      = .ok (some (B, a)) := fun env => ptrAt_param_zero _ env 1 B a rfl
  have pp2 : ∀ env, ptrAt [some (B, res), some (B, a), some (B, pmat), some (B, tmp)] env (.param 2) 0
      = .ok (some (B, pmat)) := fun env => ptrAt_param_zero _ env 2 B pmat rfl
  have pp3 : ∀ env, ptrAt [some (B, res), some (B, a), some (B, pmat), some (B, tmp)] env (.param 3) 0
      = .ok (some (B, tmp)) := fun env => ptrAt_param_zero _ env 3 B tmp rfl
  have eoff : (((rows : Nat) : Int) * (c.nn : Int) % 18446744073709551616 * 8 % 18446744073709551616) / 2 ^ Int.toNat 3
      = ((rows * c.nn : Nat) : Int) := by
    have t1 : ((rows : Nat) : Int) * (c.nn : Int) = ((rows * c.nn : Nat) : Int) := by push_cast; rfl
    rw [t1]
    show _ / 8 = _
    generalize rows * c.nn = Q at bz ⊢
    omega
  cirk_enter Gen.CSrc.fft64_vmp_apply_dft_ref
  simp only [execK_seq, execK_assign, execK_passign, eval_var, eval_cond, eval_bin, eval_lit, eval_cast,
    evalBin_lt_u64, evalBin_mul_u64, evalBin_shr_u64, ite_b2i_ne_zero, wrap_u64, R.bind_ok, seqK_norm, lget_zero, lget_succ,
    lset_zero, lset_succ, encPtr_some, pp3]
  rw [min_cond]
  simp (config := { decide := true }) only [execK_seq, execK_assign, execK_passign, eval_var, eval_cond, eval_bin, eval_lit,
    eval_cast, evalBin_lt_u64, evalBin_mul_u64, evalBin_shr_u64, ite_b2i_ne_zero, wrap_u64, R.bind_ok, seqK_norm, lget_zero,
    lget_succ, lset_zero, lset_succ, encPtr_some, pp3, if_true]
  rw [eoff, ptrAt_param _ _ 3 B tmp (rows * c.nn) rfl]
  simp only [R.bind_ok, encPtr_some, lset_zero, lset_succ, seqK_norm, execK_seq]
  -- first call: `fft64_vec_znx_dft(module, a_dft, rows, a, a_size, a_sl)`
  rw [execK_call_run]
  simp only [evalList_nil, evalList_cons, evalPtrs_nil, evalPtrs_cons, eval_var, eval_lit, R.bind_ok, lget_zero, lget_succ,
    pp0, pp1, pp2]
  rw [ptrAt_pvar_off _ _ 9 B tmp 0 0 rfl rfl rfl]
  simp only [R.bind_ok, Nat.add_zero]
  have hdft := src_fft64_vec_znx_dft_eq_model c cd nrows hz m0 B hB X hX tmp rows a asz asl hnn
    (by have := Nat.min_le_left nrows asz; simp only [rows]; omega) hasz (by rw [← hh2]; exact o2) fuel
    (by have := Nat.min_le_left nrows asz; simp only [rows]; omega)
  rw [hdft, ← hh2]
  simp only [R.bind_ok, seqK_norm]
  -- second call: `fft64_vmp_apply_dft_to_dft_ref(module, res, res_size, a_dft, a_size, pmat, nrows, ncols, new_tmp_space)`
  rw [execK_call_run]
  simp only [evalList_nil, evalList_cons, evalPtrs_nil, evalPtrs_cons, eval_var, eval_lit, R.bind_ok, lget_zero, lget_succ,
    pp0, pp1, pp2]
  rw [ptrAt_pvar_off _ _ 9 B tmp 0 0 rfl rfl rfl, ptrAt_pvar_off _ _ 11 B (tmp + rows * c.nn) 0 0 rfl rfl rfl]
  simp only [R.bind_ok, Nat.add_zero]
  have hto := src_fft64_vmp_apply_dft_to_dft_ref_eq_model c cd hz m0 B hB h2.mem (by rw [sz2]; exact hX)
    res rsz tmp asz pmat nrows ncols (tmp + rows * c.nn) (tb - 8 * (rows * c.nn)) hnn0 hnn hm hrsz hasz hnr hnc
    (by rw [heap_eta h2 o2]; exact hok) fuel hf
  rw [heap_eta h2 o2] at hto
  rw [hto]
  rfl

/-! ### no out-of-bounds access (nor any error other than running out of fuel), for every fuel -/

theorem src_fft64_vmp_prepare_contiguous_ref_no_oob (c : Module.Parts α) (cd : Cells Int α) (nr : Nat)
    (m0 : Mem) (B : Nat) (hB : B < m0.size) (X : Array Int) (hX : X.size < 2305843009213693952)
    (pmat mat nrows ncols tmp tb : Nat) (hnn0 : 0 < c.nn) (hnn : c.nn < 18446744073709551616)
    (hm : c.m < 18446744073709551616) (hnr : nrows < 18446744073709551616) (hnc : ncols < 18446744073709551616)
    (hok : (vmpPrepare c cd ⟨X, true⟩ pmat mat nrows ncols tmp tb).ok = true) :
    ∀ fuel e, e ≠ .fuel →
      runK (modSem c cd B nr) fuel Gen.CSrc.fft64_vmp_prepare_contiguous_ref [(c.nn : Int), (c.m : Int), (nrows : Int), (ncols : Int)] [some (B, pmat), some (B, mat), some (B, tmp)] (m0.setIfInBounds B X) ≠ .err e :=
  runK_no_other_error _ _ _ _ _ _ (nrows + ncols + c.m / 4) (src_fft64_vmp_prepare_contiguous_ref_eq_model c cd nr m0 B hB X hX pmat mat nrows ncols tmp tb hnn0 hnn hm hnr hnc hok)

theorem src_fft64_vmp_apply_dft_to_dft_ref_no_oob (c : Module.Parts α) (cd : Cells Int α)
    (hz : cd.enc c.ar.zero = 0)
    (m0 : Mem) (B : Nat) (hB : B < m0.size) (X : Array Int) (hX : X.size < 2305843009213693952)
    (res rsz adft asz pmat nrows ncols tmp tb : Nat) (hnn0 : 0 < c.nn) (hnn : c.nn < 18446744073709551616)
    (hm : c.m < 18446744073709551616) (hrsz : rsz < 18446744073709551616) (hasz : asz < 18446744073709551616)
    (hnr : nrows < 18446744073709551616) (hnc : ncols < 18446744073709551616)
    (hok : (vmpApplyDftToDft c cd ⟨X, true⟩ res rsz adft asz pmat nrows ncols tmp tb).ok = true) :
    ∀ fuel e, e ≠ .fuel →
      runK (modSem c cd B nrows) fuel Gen.CSrc.fft64_vmp_apply_dft_to_dft_ref [(c.nn : Int), (c.m : Int), (rsz : Int), (asz : Int), (nrows : Int), (ncols : Int)] [some (B, res), some (B, adft), some (B, pmat), some (B, tmp)] (m0.setIfInBounds B X) ≠ .err e :=
  runK_no_other_error _ _ _ _ _ _ (c.m / 4 + ncols + nrows + 1) (src_fft64_vmp_apply_dft_to_dft_ref_eq_model c cd hz m0 B hB X hX res rsz adft asz pmat nrows ncols tmp tb hnn0 hnn hm hrsz hasz hnr hnc hok)

theorem src_fft64_vmp_apply_dft_ref_no_oob (c : Module.Parts α) (cd : Cells Int α) (hz : cd.enc c.ar.zero = 0)
    (m0 : Mem) (B : Nat) (hB : B < m0.size) (X : Array Int) (hX : X.size < 2305843009213693952)
    (res rsz a asz asl pmat nrows ncols tmp tb : Nat) (hnn0 : 0 < c.nn) (hnn : c.nn < 18446744073709551616)
    (hm : c.m < 18446744073709551616) (hrsz : rsz < 18446744073709551616) (hasz : asz < 18446744073709551616)
    (hnr : nrows < 18446744073709551616) (hnc : ncols < 18446744073709551616)
    (hok : (vmpApplyDft c cd ⟨X, true⟩ res rsz a asz asl pmat nrows ncols tmp tb).ok = true) :
    ∀ fuel e, e ≠ .fuel →
      runK (modSem c cd B nrows) fuel Gen.CSrc.fft64_vmp_apply_dft_ref [(c.nn : Int), (c.m : Int), (rsz : Int), (asz : Int), (asl : Int), (nrows : Int), (ncols : Int)] [some (B, res), some (B, a), some (B, pmat), some (B, tmp)] (m0.setIfInBounds B X) ≠ .err e :=
  runK_no_other_error _ _ _ _ _ _ (c.m / 4 + ncols + nrows + 1) (src_fft64_vmp_apply_dft_ref_eq_model c cd hz m0 B hB X hX res rsz a asz asl pmat nrows ncols tmp tb hnn0 hnn hm hrsz hasz hnr hnc hok)

end Spq.Src
