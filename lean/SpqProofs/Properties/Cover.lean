/-
  Cover — exported kernels that no other property file reaches, tied to the C code by the streams
  `cv_conv32`, `cv_rnx`, `cv_cplxvec` (model: `Spq/Cover.lean`; helper lemmas: `SpqProofs/Lemmas/Cover*.lean`).

  §1  reim <-> int32 conversions (`reim_{from_znx32,from_tnx32,to_tnx32}_{ref,avx2_fma}`): all six kernels are
      `NOT_IMPLEMENTED()` stubs, so every entry point that reaches them aborts the process; there is no output the
      contract C14 could be checked on.  What exists are the constructors: argument checks and kernel selection.
  §2  `rnx_divide_by_m_{ref,avx}`: `res[i] = RN(a[i] · RN(1/m))`; the AVX kernel returns the same array as the
      reference for `n ∈ {1,2,4}` and every multiple of 8, aborts (`NOT_SUPPORTED`) for the other `n < 8`, and for
      `n ≥ 8` not a multiple of 8 silently handles `8⌈n/8⌉` cells; for `m = 2^j` the result is exactly `a[i]/2^j`
      unless that underflows or overflows.
  §3  interleaved-complex helpers in exact arithmetic (any commutative ring `R`, `Cx R` of C17):
      `add`, `sub2_to`, `copy`, `twiddle_fma` (= the reference butterfly `cplx_twiddle_fft_ref` when both halves of
      `omg` hold the same twiddle), the reference passes themselves, and — as it is — `bitwiddle_fma`, which does
      NOT compute the reference radix-4 step (counterexample below; no caller in the library).
      `twiddle_avx512` and `bitwiddle_avx512` (as repaired by commits 7805316 / 36935af of the library) are EQUAL
      to their AVX2 twins for every arithmetic — in particular bit for bit on binary64 (`F64.arith`): every zmm is
      two ymm of the AVX2 kernel, same operations in the same order per lane.  The kernels before the repair are
      kept as `…Avx512Old` in the model; `cplx_*_avx512_old_exact` / `…_old_ne_fma` document the two defects
      (D8: the data shuffle swapped only one pair of each 256-bit half; D9: 4-bit immediates in 512-bit shuffles).
-/
import SpqProofs.Lemmas.CoverRnx
import SpqProofs.Lemmas.CoverTop
import SpqProofs.Lemmas.ConvToTnx
namespace Spq.CoverProps
open Spq Spq.Cover Spq.Reim4 Spq.F64

/-! ## 1. reim <-> int32 conversions -/

/-- Every kernel, every dispatching entry point and every `_simple` wrapper of the three conversions ends in
    `abort()`, for every dimension, every table and every input.  (Consequently the C14 contract — exact
    int32 → double, `round(x·2^32/d) mod 2^32` — is not implemented for the reim layout by any variant.) -/
theorem reim32_all_entry_points_abort :
    (∀ m x, reimFromZnx32Ref m x = none ∧ reimFromZnx32Avx m x = none ∧
            reimFromTnx32Ref m x = none ∧ reimFromTnx32Avx m x = none) ∧
    (∀ m d x, reimToTnx32Ref m d x = none ∧ reimToTnx32Avx m d x = none) ∧
    (∀ sel m x, reimFromZnx32 sel m x = none ∧ reimFromTnx32 sel m x = none) ∧
    (∀ sel m d x, reimToTnx32 sel m d x = none) ∧
    (∀ m lb avx2 x, reimFromZnx32Simple m lb avx2 x = none ∧ reimFromTnx32Simple m avx2 x = none) ∧
    (∀ m d lo avx2 x, reimToTnx32Simple m d lo avx2 x = none) := by
  refine ⟨fun _ _ => ⟨rfl, rfl, rfl, rfl⟩, fun _ _ _ => ⟨rfl, rfl⟩, ?_, ?_, ?_, ?_⟩
  · intro sel m x; cases sel <;> exact ⟨rfl, rfl⟩
  · intro sel m d x; cases sel <;> rfl
  · intro m lb avx2 x
    constructor
    · unfold reimFromZnx32Simple
      cases initReimFromZnx32 m lb avx2 with
      | none => rfl
      | some s => cases s <;> rfl
    · unfold reimFromTnx32Simple
      cases initReimFromTnx32 m avx2 with
      | none => rfl
      | some s => cases s <;> rfl
  · intro m d lo avx2 x
    unfold reimToTnx32Simple
    cases initReimToTnx32 m d lo avx2 with
    | none => rfl
    | some s => cases s <;> rfl

/-- The constructors: refusal (= `spqlios_error`, which aborts) exactly when `m & (m-1) ≠ 0`, the bound exceeds
    32 resp. 52, or the low 51 bits of the divisor are not 0; the AVX2 kernel is selected exactly when the CPU
    has AVX2, `m ≥ 8` and (for `to_tnx32`) `log2overhead ≤ 18`. -/
theorem reim32_init_spec (m lb d : Nat) (avx2 : Bool) :
    (initReimFromZnx32 m lb avx2 = none ↔ (Conv.notPow2U32 m = true ∨ 32 < lb)) ∧
    (initReimFromZnx32 m lb avx2 = some .avx ↔ (Conv.notPow2U32 m = false ∧ lb ≤ 32 ∧ avx2 = true ∧ 8 ≤ m)) ∧
    (initReimFromTnx32 m avx2 = none ↔ Conv.notPow2U32 m = true) ∧
    (initReimFromTnx32 m avx2 = some .avx ↔ (Conv.notPow2U32 m = false ∧ avx2 = true ∧ 8 ≤ m)) ∧
    (initReimToTnx32 m d lb avx2 = none ↔ (Conv.notPow2U32 m = true ∨ Conv.isNotPow2Double d ≠ 0 ∨ 52 < lb)) ∧
    (initReimToTnx32 m d lb avx2 = some .avx ↔
      (Conv.notPow2U32 m = false ∧ Conv.isNotPow2Double d = 0 ∧ lb ≤ 18 ∧ avx2 = true ∧ 8 ≤ m)) := by
  unfold initReimFromZnx32 initReimFromTnx32 initReimToTnx32
  cases hm : Conv.notPow2U32 m <;> cases avx2 <;>
    by_cases h32 : 32 < lb <;> by_cases h52 : 52 < lb <;> by_cases h18 : lb ≤ 18 <;> by_cases h8 : 8 ≤ m <;>
    by_cases hd : Conv.isNotPow2Double d = 0 <;>
    simp [h32, h52, h18, h8, hd] <;> omega

/-- every documented-valid argument is accepted: `m = 2^k` (`k < 32`), a bound within the documented range, and a
    divisor that is a (normal) power of two -/
theorem reim32_init_accepts (k lb : Nat) (j : Int) (avx2 : Bool) (hk : k < 32) :
    (lb ≤ 32 → initReimFromZnx32 (2 ^ k) lb avx2 ≠ none) ∧
    initReimFromTnx32 (2 ^ k) avx2 ≠ none ∧
    (lb ≤ 52 → initReimToTnx32 (2 ^ k) (pow2 j) lb avx2 ≠ none) := by
  have hm : Conv.notPow2U32 (2 ^ k) = false := by
    revert k; decide
  have hd : Conv.isNotPow2Double (pow2 j) = 0 := by
    have := Conv.isNotPow2Double_pow2 j
    simpa using this
  obtain ⟨a, _, b, _, c, _⟩ := reim32_init_spec (2 ^ k) lb (pow2 j) avx2
  refine ⟨fun h hc => ?_, fun hc => ?_, fun h hc => ?_⟩
  · rcases a.1 hc with h1 | h1
    · rw [hm] at h1; exact Bool.noConfusion h1
    · omega
  · have := b.1 hc; rw [hm] at this; exact Bool.noConfusion this
  · rcases c.1 hc with h1 | h1 | h1
    · rw [hm] at h1; exact Bool.noConfusion h1
    · exact h1 hd
    · omega

/-- instance: `m = 16`, AVX2, divisor 2^10, 18 bits of overhead selects the AVX2 kernel — which aborts -/
example : initReimToTnx32 16 (pow2 10) 18 true = some .avx ∧ reimToTnx32Simple 16 (pow2 10) 18 true #[] = none := by
  decide

/-! ## 2. rnx_divide_by_m -/

/-- `rnx_divide_by_m_ref(n, m, res, a)`: cell `i < n` becomes the correctly rounded product of `a[i]` and
    `invm = RN(1/m)` (the model's `F64.div`, bit-exact against `divsd`), the other cells are untouched.
    `val (F64.mul x y) = rnd (val x · val y)` says "correctly rounded" (`rnd`: round to nearest even binary64).
    About the MODEL for every pattern; it describes the C code only for finite `a[i]` and finite non-zero `m`
    (Inf/NaN/zero-divisor behaviour is not modelled by `Spq.F64`; the stream `cv_rnx` covers those cases oracle-only). -/
theorem rnx_divide_spec (n m : Nat) (res a : Array Nat) (hn : n ≤ res.size) :
    (rnxDivideByMRef n m res a).size = res.size ∧
    (∀ i, i < n → (rnxDivideByMRef n m res a).getD i 0 = F64.mul (a.getD i 0) (F64.div Conv.D_ONE m) ∧
      val ((rnxDivideByMRef n m res a).getD i 0) = rnd (val (a.getD i 0) * val (F64.div Conv.D_ONE m))) ∧
    (∀ i, n ≤ i → (rnxDivideByMRef n m res a).getD i 0 = res.getD i 0) := by
  refine ⟨rnxRef_size n m res a, ?_, ?_⟩
  · intro i hi
    have e : (rnxDivideByMRef n m res a).getD i 0 = F64.mul (a.getD i 0) (F64.div Conv.D_ONE m) := by
      rw [rnxRef_getD, if_pos ⟨hi, by omega⟩]; rfl
    exact ⟨e, by rw [e, val_mul]⟩
  · intro i hi
    rw [rnxRef_getD, if_neg (by omega)]

/-- the AVX kernel returns the reference result, bit for bit, for every `n` it is meant for: 1, 2, 4 and every
    multiple of 8 (every power of two in particular) -/
theorem rnx_divide_avx_eq_ref (n m : Nat) (res a : Array Nat)
    (hacc : n = 1 ∨ n = 2 ∨ n = 4 ∨ (8 ≤ n ∧ n % 8 = 0)) (hn : n ≤ res.size) :
    rnxDivideByMAvx n m res a = some (rnxDivideByMRef n m res a) := by
  rcases hacc with h | h | h | ⟨h8, hmod⟩
  · exact rnxAvx_small n m res a (Or.inl h) hn
  · exact rnxAvx_small n m res a (Or.inr (Or.inl h)) hn
  · exact rnxAvx_small n m res a (Or.inr (Or.inr h)) hn
  · have e : 8 * ((n + 7) / 8) = n := by omega
    have := rnxAvx_big n m res a h8 (by omega)
    rw [e] at this; exact this

/-- outside that set: `n ∈ {0,3,5,6,7}` is `NOT_SUPPORTED()` (abort); `n ≥ 8` not a multiple of 8 is accepted
    silently and handled as `8⌈n/8⌉`: up to 7 cells behind `res[n-1]` are written (and read behind `a[n-1]`) -/
theorem rnx_divide_avx_outside_domain (n m : Nat) (res a : Array Nat) :
    (n < 8 → n ≠ 1 → n ≠ 2 → n ≠ 4 → rnxDivideByMAvx n m res a = none) ∧
    (8 ≤ n → 8 * ((n + 7) / 8) ≤ res.size →
      rnxDivideByMAvx n m res a = some (rnxDivideByMRef (8 * ((n + 7) / 8)) m res a)) :=
  ⟨fun h h1 h2 h4 => rnxAvx_abort n m res a h h1 h2 h4, fun h hs => rnxAvx_big n m res a h hs⟩

/-- `m = 2^j` (`-1022 ≤ j ≤ 1022`): both variants return exactly `a[i]/2^j` whenever that quotient is 0 or lies in
    the normal range (no underflow, no overflow); every accepted `n` -/
theorem rnx_divide_pow2_exact (n : Nat) (j : Int) (res a : Array Nat) (hj1 : -1022 ≤ j) (hj2 : j ≤ 1022)
    (hn : n ≤ res.size) (i : Nat) (hi : i < n)
    (_hfin : F64.isFinite (a.getD i 0) = true)   -- Inf/NaN patterns are not modelled (the soft-float decodes exponent 2047 as a finite number)
    (hq : val (a.getD i 0) = 0 ∨
      (minNormal ≤ |val (a.getD i 0) * 2 ^ (-j)| ∧ |val (a.getD i 0) * 2 ^ (-j)| < 2 ^ (1024 : ℤ))) :
    val (pow2 j) = 2 ^ j ∧
    val ((rnxDivideByMRef n (pow2 j) res a).getD i 0) = val (a.getD i 0) * 2 ^ (-j) ∧
    ((n = 1 ∨ n = 2 ∨ n = 4 ∨ (8 ≤ n ∧ n % 8 = 0)) →
      ∃ r, rnxDivideByMAvx n (pow2 j) res a = some r ∧ val (r.getD i 0) = val (a.getD i 0) * 2 ^ (-j)) := by
  have e : (rnxDivideByMRef n (pow2 j) res a).getD i 0 = F64.mul (a.getD i 0) (invM (pow2 j)) := by
    rw [rnxRef_getD, if_pos ⟨hi, by omega⟩]
  have v := mul_invM_pow2_exact (a.getD i 0) j hj1 hj2 hq
  refine ⟨val_pow2 j hj1 (by omega), by rw [e, v], fun hacc => ⟨_, rnx_divide_avx_eq_ref n (pow2 j) res a hacc hn, by rw [e, v]⟩⟩

/-- instances: `[3, -0.0, 2^-1074, 1.5·2^-1022] / 4` — the third one underflows (excluded by `hq`) and rounds to
    `+0` (tie to even), the others are exact; the AVX kernel with `n = 4` returns the same patterns -/
example : rnxDivideByMRef 4 (pow2 2) #[7, 7, 7, 7, 9] #[4613937818241073152, 9223372036854775808, 1, 6755399441055744]
      = #[4604930618986332160, 9223372036854775808, 0, 1688849860263936, 9] ∧
    rnxDivideByMAvx 4 (pow2 2) #[7, 7, 7, 7, 9] #[4613937818241073152, 9223372036854775808, 1, 6755399441055744]
      = some #[4604930618986332160, 9223372036854775808, 0, 1688849860263936, 9] ∧
    rnxDivideByMAvx 3 (pow2 2) #[7, 7, 7] #[1, 2, 3] = none := by
  decide +kernel

/-! ## 3. interleaved-complex helper kernels, exact arithmetic -/

section exact
variable {R : Type} [CommRing R]

/-- `cplx_fftvec_add_fma(m, r, a, b)`: `r_i = a_i + b_i` for `i < m`, nothing else changes (`8 | m`, `m > 0`:
    the loop handles 8 complexes per step and runs at least once) -/
theorem cplx_add_exact (m : Nat) (hm : m % 8 = 0) (h0 : 0 < m) (r a b : Array R) (hr : 2 * m ≤ r.size) :
    Pointwise idxCplx m r (cplxFftvecAddFma (RArith.ofRing R) m r a b) (fun i => ev idxCplx a i + ev idxCplx b i) :=
  cplxFftvecAddFma_spec m hm h0 r a b hr

/-- `cplx_fftvec_sub2_to_fma(m, r, a, b)`: `r_i = r_i − (a_i + b_i)` -/
theorem cplx_sub2_to_exact (m : Nat) (hm : m % 8 = 0) (h0 : 0 < m) (r a b : Array R) (hr : 2 * m ≤ r.size) :
    Pointwise idxCplx m r (cplxFftvecSub2ToFma (RArith.ofRing R) m r a b)
      (fun i => ev idxCplx r i - (ev idxCplx a i + ev idxCplx b i)) :=
  cplxFftvecSub2ToFma_spec m hm h0 r a b hr

/-- `cplx_fftvec_copy_fma(m, r, a)`: the first `2m` cells of `r` become those of `a` — for every element type
    (bit patterns included), nothing else changes -/
theorem cplx_copy_exact {α : Type} (ar : RArith α) (m : Nat) (hm : m % 8 = 0) (h0 : 0 < m) (r a : Array α)
    (hr : 2 * m ≤ r.size) :
    (cplxFftvecCopyFma ar m r a).size = r.size ∧
    (∀ x, x < 2 * m → (cplxFftvecCopyFma ar m r a).getD x ar.zero = a.getD x ar.zero) ∧
    (∀ x, 2 * m ≤ x → (cplxFftvecCopyFma ar m r a).getD x ar.zero = r.getD x ar.zero) :=
  cplxFftvecCopyFma_any ar m hm h0 r a hr

/-- `cplx_twiddle_fft_ref(h, data, ω)`: `(d_i, d_{h+i}) ← (d_i + ω d_{h+i}, d_i − ω d_{h+i})`, every `h ≥ 0` -/
theorem cplx_twiddle_ref_exact (h : Nat) (data om : Array R) (hs : 4 * h ≤ data.size) :
    (cplxTwiddleFftRef (RArith.ofRing R) h data om).size = data.size ∧
    (∀ i, i < h →
      cxAt (cplxTwiddleFftRef (RArith.ofRing R) h data om) (2 * i) =
        cxAt data (2 * i) + cxAt om 0 * cxAt data (2 * (h + i)) ∧
      cxAt (cplxTwiddleFftRef (RArith.ofRing R) h data om) (2 * (h + i)) =
        cxAt data (2 * i) - cxAt om 0 * cxAt data (2 * (h + i))) ∧
    (∀ x, 4 * h ≤ x → (cplxTwiddleFftRef (RArith.ofRing R) h data om).getD x 0 = data.getD x 0) :=
  cplxTwiddleFftRef_spec h data om hs

/-- `cplx_bitwiddle_fft_ref(h, data, (ω0, ω1))`: the radix-4 step `bitwRefCx` on every column
    `(d_i, d_{h+i}, d_{2h+i}, d_{3h+i})`: first level with `ω0`, second level with `ω1` and `i·ω1` -/
theorem cplx_bitwiddle_ref_exact (h : Nat) (data om : Array R) (hs : 8 * h ≤ data.size) :
    (cplxBitwiddleFftRef (CArith.ofRing R) h data om).size = data.size ∧
    (∀ i, i < h →
      let q := bitwRefCx (cxAt om 0) (cxAt om 2) (cxAt data (2 * i)) (cxAt data (2 * (h + i)))
        (cxAt data (2 * (2 * h + i))) (cxAt data (2 * (3 * h + i)))
      cxAt (cplxBitwiddleFftRef (CArith.ofRing R) h data om) (2 * i) = q.1 ∧
      cxAt (cplxBitwiddleFftRef (CArith.ofRing R) h data om) (2 * (h + i)) = q.2.1 ∧
      cxAt (cplxBitwiddleFftRef (CArith.ofRing R) h data om) (2 * (2 * h + i)) = q.2.2.1 ∧
      cxAt (cplxBitwiddleFftRef (CArith.ofRing R) h data om) (2 * (3 * h + i)) = q.2.2.2) ∧
    (∀ x, 8 * h ≤ x → (cplxBitwiddleFftRef (CArith.ofRing R) h data om).getD x 0 = data.getD x 0) :=
  cplxBitwiddleFftRef_spec h data om hs

/-- `cplx_fftvec_twiddle_fma(precomp, a, b, omg)`, `m = precomp->m`, `8 | m`, `m > 0`:
    `(a_i, b_i) ← (a_i + ω_{i mod 2} b_i, a_i − ω_{i mod 2} b_i)` with `ω_0 = omg[0..1]`, `ω_1 = omg[2..3]` -/
theorem cplx_twiddle_fma_exact (m : Nat) (hm : m % 8 = 0) (h0 : 0 < m) (a b om : Array R)
    (ha : 2 * m ≤ a.size) (hb : 2 * m ≤ b.size) :
    Pointwise idxCplx m a (cplxFftvecTwiddleFma (RArith.ofRing R) m a b om).1
      (fun i => ev idxCplx a i + ev idxCplx b i * omW om (i % 2)) ∧
    Pointwise idxCplx m b (cplxFftvecTwiddleFma (RArith.ofRing R) m a b om).2
      (fun i => ev idxCplx a i - ev idxCplx b i * omW om (i % 2)) :=
  twiddleFma_spec m hm h0 a b om ha hb

/-- accelerated = reference: when both halves of `omg` hold the same twiddle, `cplx_fftvec_twiddle_fma` on
    `(a, b)` computes what `cplx_twiddle_fft_ref(m, data, omg)` computes on `data = a ‖ b` -/
theorem cplx_twiddle_fma_eq_ref (m : Nat) (hm : m % 8 = 0) (h0 : 0 < m) (a b om data : Array R)
    (ha : 2 * m ≤ a.size) (hb : 2 * m ≤ b.size) (hd : 4 * m ≤ data.size)
    (hom : om.getD 2 0 = om.getD 0 0 ∧ om.getD 3 0 = om.getD 1 0)
    (hda : ∀ x, x < 2 * m → data.getD x 0 = a.getD x 0)
    (hdb : ∀ x, x < 2 * m → data.getD (2 * m + x) 0 = b.getD x 0) :
    ∀ i, i < m →
      cxAt (cplxTwiddleFftRef (RArith.ofRing R) m data om) (2 * i) =
        ev idxCplx (cplxFftvecTwiddleFma (RArith.ofRing R) m a b om).1 i ∧
      cxAt (cplxTwiddleFftRef (RArith.ofRing R) m data om) (2 * (m + i)) =
        ev idxCplx (cplxFftvecTwiddleFma (RArith.ofRing R) m a b om).2 i := by
  intro i hi
  obtain ⟨_, rv, _⟩ := cplxTwiddleFftRef_spec m data om hd
  obtain ⟨⟨_, fa, _⟩, ⟨_, fb, _⟩⟩ := twiddleFma_spec m hm h0 a b om ha hb
  obtain ⟨r1, r2⟩ := rv i hi
  have eA : cxAt data (2 * i) = ev idxCplx a i := by
    ext
    · simp only [cxAt_re, ev, idxCplx, cx_re]; exact hda _ (by omega)
    · simp only [cxAt_im, ev, idxCplx, cx_im]; exact hda _ (by omega)
  have eB : cxAt data (2 * (m + i)) = ev idxCplx b i := by
    ext
    · simp only [cxAt_re, ev, idxCplx, cx_re]
      have := hdb (2 * i) (by omega)
      rw [show 2 * (m + i) = 2 * m + 2 * i by ring]; exact this
    · simp only [cxAt_im, ev, idxCplx, cx_im]
      have := hdb (2 * i + 1) (by omega)
      rw [show 2 * (m + i) + 1 = 2 * m + (2 * i + 1) by ring]; exact this
  have eW : omW om (i % 2) = cxAt om 0 := by
    rcases Nat.mod_two_eq_zero_or_one i with h | h <;> rw [h]
    · rfl
    · ext
      · simp only [omW, cxAt_re]; exact hom.1
      · simp only [omW, cxAt_im]; exact hom.2
  have fa' := fa i hi
  have fb' := fb i hi
  beta_reduce at fa' fb'
  rw [r1, r2, fa', fb', eA, eB, eW, Cx.mul_comm']
  exact ⟨rfl, rfl⟩

end exact

/-- `cplx_fftvec_twiddle_avx512` (repaired) = `cplx_fftvec_twiddle_fma`, `16 | m`, `m > 0`: the same pair of arrays
    for EVERY arithmetic `ar` — a commutative ring, or binary64 bit patterns (`F64.arith`), where this is
    bit-for-bit equality of the two kernels (C07) -/
theorem cplx_twiddle_avx512_eq_fma {α : Type} (ar : RArith α) (m : Nat) (hm : m % 16 = 0) (h0 : 0 < m)
    (a b om : Array α) :
    cplxFftvecTwiddleAvx512 ar m a b om = cplxFftvecTwiddleFma ar m a b om :=
  twiddleAvx512_eq_fma ar m hm h0 a b om

section exact
variable {R : Type} [CommRing R]

/-- hence `cplx_fftvec_twiddle_avx512` computes `(a_i, b_i) ← (a_i + ω_{i mod 2} b_i, a_i − ω_{i mod 2} b_i)` -/
theorem cplx_twiddle_avx512_exact (m : Nat) (hm : m % 16 = 0) (h0 : 0 < m) (a b om : Array R)
    (ha : 2 * m ≤ a.size) (hb : 2 * m ≤ b.size) :
    Pointwise idxCplx m a (cplxFftvecTwiddleAvx512 (RArith.ofRing R) m a b om).1
      (fun i => ev idxCplx a i + ev idxCplx b i * omW om (i % 2)) ∧
    Pointwise idxCplx m b (cplxFftvecTwiddleAvx512 (RArith.ofRing R) m a b om).2
      (fun i => ev idxCplx a i - ev idxCplx b i * omW om (i % 2)) := by
  rw [twiddleAvx512_eq_fma (RArith.ofRing R) m hm h0 a b om]
  exact twiddleFma_spec m (by omega) h0 a b om ha hb

/-- D8, the kernel before commit 7805316 (`cplxFftvecTwiddleAvx512Old`): the even-indexed complexes got `ω_0 b`,
    the odd-indexed ones `badMul b ω_1 = (b.re·ω.re − b.re·ω.im, b.im·ω.re + b.im·ω.im)` instead of `ω_1 b`
    (`_mm512_shuffle_pd(bri, bri, 0b10011001)` swapped only the first pair of each 256-bit half) -/
theorem cplx_twiddle_avx512_old_exact (m : Nat) (hm : m % 16 = 0) (h0 : 0 < m) (a b om : Array R)
    (ha : 2 * m ≤ a.size) (hb : 2 * m ≤ b.size) :
    Pointwise idxCplx m a (cplxFftvecTwiddleAvx512Old (RArith.ofRing R) m a b om).1
      (fun i => ev idxCplx a i + twMulAvx512 om (i % 2) (ev idxCplx b i)) ∧
    Pointwise idxCplx m b (cplxFftvecTwiddleAvx512Old (RArith.ofRing R) m a b om).2
      (fun i => ev idxCplx a i - twMulAvx512 om (i % 2) (ev idxCplx b i)) :=
  twiddleAvx512Old_spec m hm h0 a b om ha hb

/-- D8 on concrete data: `a = 0`, `b = (0,1),(2,3),…`, `ω_1 = i`, `m = 16`: the old kernel returned −2 where the
    AVX2 kernel (and the repaired one) return −3 -/
theorem cplx_twiddle_avx512_old_ne_fma :
    (cplxFftvecTwiddleAvx512Old (RArith.ofRing Int) 16 (Array.replicate 32 0)
        ((Array.range 32).map (fun (i : Nat) => Int.ofNat i)) #[0, 0, 0, 1]).1.getD 2 0 = -2 ∧
    (cplxFftvecTwiddleFma (RArith.ofRing Int) 16 (Array.replicate 32 0)
        ((Array.range 32).map (fun (i : Nat) => Int.ofNat i)) #[0, 0, 0, 1]).1.getD 2 0 = -3 ∧
    (cplxFftvecTwiddleAvx512 (RArith.ofRing Int) 16 (Array.replicate 32 0)
        ((Array.range 32).map (fun (i : Nat) => Int.ofNat i)) #[0, 0, 0, 1]).1.getD 2 0 = -3 := by
  decide +kernel

/-- `cplx_fftvec_bitwiddle_fma(precomp, a, slicea, omg)` as it is (`m` even, `m > 0`, slices `off = 4⌊slicea/32⌋`
    doubles apart and not overlapping): on every column `(A, B, C, D)` of the four slices the two-level butterfly
    `bitwFmaCx ω`: first level with `ω = ω_{i mod 2}` — second level with `(ω.re, ω.re)` on `(A, B)` and
    `(ω.im, ω.im)` on `(C, D)` (`om2rr = om2ii = shuffle(om, 0)`, `om3rr = om3ii = shuffle(om, 15)` in the source) -/
theorem cplx_bitwiddle_fma_exact (m slicea : Nat) (hm : m % 2 = 0) (h0 : 0 < m) (a om : Array R)
    (hoff : 2 * m ≤ 4 * (slicea / 32)) (hb : 3 * (4 * (slicea / 32)) + 2 * m ≤ a.size) :
    (cplxFftvecBitwiddleFma (RArith.ofRing R) m slicea a om).size = a.size ∧
    (∀ i, i < m →
      let off := 4 * (slicea / 32)
      let Q := bitwFmaCx (omW om (i % 2)) (cxAt a (2 * i)) (cxAt a (off + 2 * i)) (cxAt a (2 * off + 2 * i))
        (cxAt a (3 * off + 2 * i))
      cxAt (cplxFftvecBitwiddleFma (RArith.ofRing R) m slicea a om) (2 * i) = Q.1 ∧
      cxAt (cplxFftvecBitwiddleFma (RArith.ofRing R) m slicea a om) (off + 2 * i) = Q.2.1 ∧
      cxAt (cplxFftvecBitwiddleFma (RArith.ofRing R) m slicea a om) (2 * off + 2 * i) = Q.2.2.1 ∧
      cxAt (cplxFftvecBitwiddleFma (RArith.ofRing R) m slicea a om) (3 * off + 2 * i) = Q.2.2.2) ∧
    (∀ x, (∀ s, s < 4 → x < s * (4 * (slicea / 32)) ∨ s * (4 * (slicea / 32)) + 2 * m ≤ x) →
      (cplxFftvecBitwiddleFma (RArith.ofRing R) m slicea a om).getD x 0 = a.getD x 0) :=
  bitwiddleFma_spec m slicea hm h0 a om hoff hb

/-- the reference radix-4 step and the `bitwiddle_fma` column function agree when the second-level twiddles the
    kernel makes up, `(ω.re, ω.re)` and `(ω.im, ω.im)`, happen to be `ω1` and `i·ω1` — for twiddles on the unit circle
    over ℝ that never happens (it forces `ω.re = ω.im = −ω.re`); this is the only relation between the two -/
theorem cplx_bitwiddle_fma_eq_ref_partial (w w1 A B C D : Cx R)
    (h2 : (⟨w.re, w.re⟩ : Cx R) = w1) (h3 : (⟨w.im, w.im⟩ : Cx R) = Cx.mulI w1) :
    bitwFmaCx w A B C D = bitwRefCx w w1 A B C D := by
  unfold bitwFmaCx bitwGen bitwRefCx
  rw [h2, h3]
  simp only [Cx.mul_comm']

/-- … and on ordinary data they differ: `m = h = 2`, data `0..15`, `omg = (1+2i, 1+2i)` -/
theorem cplx_bitwiddle_fma_ne_ref :
    (cplxFftvecBitwiddleFma (RArith.ofRing Int) 2 32 ((Array.range 16).map (fun (i : Nat) => Int.ofNat i)) #[1, 2, 1, 2]).getD 0 0 = -62 ∧
    (cplxBitwiddleFftRef (CArith.ofRing Int) 2 ((Array.range 16).map (fun (i : Nat) => Int.ofNat i)) #[1, 2, 1, 2]).getD 0 0 = -104 := by
  decide +kernel

end exact

/-- `cplx_fftvec_bitwiddle_avx512` (repaired) = `cplx_fftvec_bitwiddle_fma`, `8 | m`, `m > 0`, for EVERY arithmetic
    (binary64 bit patterns included: bit-for-bit equality, C07), every column, whenever both kernels address the
    same slices: `OFFSET` is `⌊slicea/64⌋` zmm resp. `⌊slicea/32⌋` ymm, the same distance iff `slicea mod 64 < 32`
    (every multiple of 64 in particular) -/
theorem cplx_bitwiddle_avx512_eq_fma {α : Type} (ar : RArith α) (m slicea : Nat) (hm : m % 8 = 0) (h0 : 0 < m)
    (hs : slicea % 64 < 32) (a om : Array α) :
    cplxFftvecBitwiddleAvx512 ar m slicea a om = cplxFftvecBitwiddleFma ar m slicea a om :=
  bitwiddleAvx512_eq_fma ar m slicea hm h0 hs a om

/-- the two equalities on the carrier the driver runs: binary64 as 64-bit patterns -/
theorem cplx_avx512_eq_fma_binary64 (m slicea : Nat) (a b om : Array Nat) (h0 : 0 < m) :
    (m % 16 = 0 → cplxFftvecTwiddleAvx512 F64.arith m a b om = cplxFftvecTwiddleFma F64.arith m a b om) ∧
    (m % 8 = 0 → slicea % 64 < 32 →
      cplxFftvecBitwiddleAvx512 F64.arith m slicea a om = cplxFftvecBitwiddleFma F64.arith m slicea a om) :=
  ⟨fun hm => twiddleAvx512_eq_fma F64.arith m hm h0 a b om,
   fun hm hs => bitwiddleAvx512_eq_fma F64.arith m slicea hm h0 hs a om⟩

section exact
variable {R : Type} [CommRing R]

/-- D9, the kernel before commit 36935af (`cplxFftvecBitwiddleAvx512Old`, `8 | m`, `off = 8⌊slicea/64⌋`): columns `i`
    with `⌊i/2⌋` even (lower 256-bit half of a zmm) got the AVX2 kernel's `bitwFmaCx`, the others `bitwHiCx` (every
    product replaced by `hiT ω.re`: the 8-bit immediates 5 and 15 of `_mm512_shuffle_pd` have a zero upper nibble) -/
theorem cplx_bitwiddle_avx512_old_exact (m slicea : Nat) (hm : m % 8 = 0) (h0 : 0 < m) (a om : Array R)
    (hoff : 2 * m ≤ 8 * (slicea / 64)) (hb : 3 * (8 * (slicea / 64)) + 2 * m ≤ a.size) :
    (cplxFftvecBitwiddleAvx512Old (RArith.ofRing R) m slicea a om).size = a.size ∧
    (∀ i, i < m →
      let off := 8 * (slicea / 64)
      let Q := (if i / 2 % 2 = 0 then bitwFmaCx (omW om (i % 2)) else bitwHiCx (omW om (i % 2)))
        (cxAt a (2 * i)) (cxAt a (off + 2 * i)) (cxAt a (2 * off + 2 * i)) (cxAt a (3 * off + 2 * i))
      cxAt (cplxFftvecBitwiddleAvx512Old (RArith.ofRing R) m slicea a om) (2 * i) = Q.1 ∧
      cxAt (cplxFftvecBitwiddleAvx512Old (RArith.ofRing R) m slicea a om) (off + 2 * i) = Q.2.1 ∧
      cxAt (cplxFftvecBitwiddleAvx512Old (RArith.ofRing R) m slicea a om) (2 * off + 2 * i) = Q.2.2.1 ∧
      cxAt (cplxFftvecBitwiddleAvx512Old (RArith.ofRing R) m slicea a om) (3 * off + 2 * i) = Q.2.2.2) ∧
    (∀ x, (∀ s, s < 4 → x < s * (8 * (slicea / 64)) ∨ s * (8 * (slicea / 64)) + 2 * m ≤ x) →
      (cplxFftvecBitwiddleAvx512Old (RArith.ofRing R) m slicea a om).getD x 0 = a.getD x 0) :=
  bitwiddleAvx512Old_spec m slicea hm h0 a om hoff hb

/-- D9 on concrete data: `m = 8`, `slicea = 128`, data `0..63`, `omg = (1+2i, 3+4i)`, column 2: the old kernel
    returned 4 where the AVX2 kernel (and the repaired one) return −246 -/
theorem cplx_bitwiddle_avx512_old_ne_fma :
    (cplxFftvecBitwiddleAvx512Old (RArith.ofRing Int) 8 128 ((Array.range 64).map (fun (i : Nat) => Int.ofNat i)) #[1, 2, 3, 4]).getD 4 0 = 4 ∧
    (cplxFftvecBitwiddleFma (RArith.ofRing Int) 8 128 ((Array.range 64).map (fun (i : Nat) => Int.ofNat i)) #[1, 2, 3, 4]).getD 4 0 = -246 ∧
    (cplxFftvecBitwiddleAvx512 (RArith.ofRing Int) 8 128 ((Array.range 64).map (fun (i : Nat) => Int.ofNat i)) #[1, 2, 3, 4]).getD 4 0 = -246 := by
  decide +kernel

end exact

/-- the hypotheses of the exact statements are satisfiable: `m = 8` complexes `0..15`, `omg = (2+3i, 2+3i)`:
    `a_1 + ω b_1 = (2+3i) + (2+3i)(2+3i) = −3 + 15i` -/
example : (8 % 8 = 0 ∧ 0 < 8 ∧ 2 * 8 ≤ ((Array.range 16).map (fun (i : Nat) => Int.ofNat i)).size) ∧
    (cplxFftvecTwiddleFma (RArith.ofRing Int) 8 ((Array.range 16).map (fun (i : Nat) => Int.ofNat i))
      ((Array.range 16).map (fun (i : Nat) => Int.ofNat i)) #[2, 3, 2, 3]).1.getD 2 0 = -3 ∧
    (cplxTwiddleFftRef (RArith.ofRing Int) 8 ((Array.range 16).map (fun (i : Nat) => Int.ofNat i) ++
      (Array.range 16).map (fun (i : Nat) => Int.ofNat i)) #[2, 3, 2, 3]).getD 3 0 = 15 := by
  decide +kernel

/-! ## 4. small utilities -/

/-- `ceilto32b` / `ceilto64b`: the least multiple of 32 (64) that is `≥ size`, as long as `size + 31` (`+ 63`) does
    not wrap; `vec_znx_big_range_normalize_base2k_tmp_bytes` asks for one limb of `nn` int64 -/
theorem ceilto_spec (size nn : Nat) :
    (size + 31 < 18446744073709551616 →
      ceilto32b size % 32 = 0 ∧ size ≤ ceilto32b size ∧ ceilto32b size < size + 32) ∧
    (size + 63 < 18446744073709551616 →
      ceilto64b size % 64 = 0 ∧ size ≤ ceilto64b size ∧ ceilto64b size < size + 64) ∧
    rangeNormalizeTmpBytes nn = nn * 8 ∧ moduleGetN nn = nn := by
  unfold ceilto32b ceilto64b
  refine ⟨fun h => ?_, fun h => ?_, rfl, rfl⟩
  · rw [Nat.mod_eq_of_lt h]; omega
  · rw [Nat.mod_eq_of_lt h]; omega

end Spq.CoverProps
