/-
  C16 — the BINARY64 side at program level WITHOUT the dataflow restriction `SingleProductDepth` of `C16Err.lean`:
  programs in which `vmp_apply_dft_to_dft` reads the output of `svp_apply_dft`, `vmp_apply_dft` or another
  `vmp_apply_dft_to_dft` (a product fed into a product, e.g. dft → svp → vmpDD → idft = `Σ_i (a_i·s)·M_ij`).

  Property C16 (fixed text; FULL statement, NOT completely proved — see the `_partial` theorems):
    "Any sequence of library operations - coefficient-space add/sub/negate/copy/rotate/automorphism/normalize, DFT,
     scalar and matrix products in DFT space, inverse DFT, big-coefficient arithmetic and final normalization - applied
     to integer polynomial vectors produces exactly the limbs obtained by evaluating the same expression with exact
     integer polynomial arithmetic, as long as every intermediate stays inside the precision budget of its
     representation (C01 for FFT64, 2^119 for NTT120 big coefficients).  Opaque DFT/prepared objects produced by one
     function are therefore valid inputs to every function that accepts them."

  1. INVARIANT.  `C16Err` represents a `VEC_ZNX_DFT` object observationally (`LimbExact`: its inverse transform rounds to
     the exact limb) — too weak to go through a second product.  Here the invariant is METRIC (`ProgErr2.MetricRep`):
     `d` represents the integer vector `P` with budgets `δ` iff every cell is a finite double and, limb by limb,
         Σ_j |val(d_i)_j − DFT(P_i)_j|² ≤ δ_i²·m,     DFT(x)_j = V ζ (pkC x m) k 0 j,   m = 2^k = N/2
     (`δ_i` = root-mean-square error per complex point, in coefficient units; no square root needed).
  2. PRODUCERS (the DFT-space bounds that C01Err / C02Err prove internally, re-exposed BEFORE the inverse transform;
     none of them needs a flag of an inverse transform):
       `dft_metric_f64_partial`   : `vec_znx_dft`,   `δ_i = ε·na_i`,  `ε = (1+8u)^k − 1`, `na_i ≥ ‖a_i‖₂`;
       `svp_metric_f64_partial`   : `svp_apply_dft`, `δ_i = fB ε μ (ε·m)·(‖a_i‖₁·nb + na_i·‖s‖₁)`  (`fB ≈ 3/2·μ + ε`, `μ ≈ 3u`);
       `vmpDD_metric_f64_partial` : `vmp_apply_dft_to_dft` on an operand that satisfies `MetricRep` with budgets `δ_i`:
            δ'_j = Σ_{i<n} rowF μ_n δ_i (ε·nb_i) na_i nb_i ‖P_i‖₁ ‖M_ij‖₁ m,      n = min nrows asz,  μ_n = 3/2·γ(n),
            rowF μ da db na nb la lb t = μ·((la·nb + na·lb)/2 + D) + D,   D = da·(lb + db·t) + la·db
         (2-norm of one factor times sup-norm `‖·‖₁ ≥ |DFT(·)_j|` of the other; `vmpDD_budget_explicit_partial`:
          `δ'_j ≤ Σ_i [(1+μ̄)(1+ε̄m)·δ_i·‖M_ij‖₁ + (1+μ̄)·ε̄·‖P_i‖₁·nb_i + μ̄·S_i/2]`, `ε̄ = 8·log2(N)·u`, `μ̄ = 3/2·(2n+3)·u`);
       `vmp_metric_f64_partial`   : `vmp_apply_dft` = `vmp_apply_dft_to_dft ∘ vec_znx_dft` (budgets `ε·na_i` in).
  3. CONSUMER `idft_of_metric_f64_partial`: `MetricRep d P δ`, the flags of the inverse transform of the CONCRETE limb,
     `S2 ≥ ‖P_i‖₂`, `ε·(S2 + δ_i) + δ_i < 1/2` (and the domain of the final conversion, implied by `S2 + 1/2 ≤ 2^50`)
     ⇒ `toZnx (ifft (limb_i d)) = P_i` EXACTLY.  For a raw transform the budget is `(2ε+ε²)·na ≤ 17·log2(N)·u·na`
     (`metric_budget_roundtrip_consistent`), for a single product it is C01Err's `E' ≤ 12·log2(N)·u·S`
     (`metric_budget_product_consistent`): the chain budgets specialise to the ones of `C16Err`.
  4. PROGRAMS.  `prog_refines_f64_metric_partial` / `prog_output_f64_metric_partial`: every program of `Prog.OpD`, NO
     dataflow restriction.  The budget is `ProgErr2.GuardedM`: along the joint run of the exact interpreter, the ghost
     budget map `β : DVar → ℕ → K` (`ProgErr2.bstep`: a call writing the DFT variable `d` installs the budgets `δn` of its
     result) and the binary64 interpreter, every call satisfies `ProgErr2.PreM` for SOME choice of `δn` — the budget is
     defined recursively over the program and propagates `δ` through chains of products of any length.
     The NUMERIC part of `PreM` (boxes, norms, `δ`) is on the exact state.  The FLAGS of the accumulation of
     `vmp_apply_dft_to_dft` (`ProgErr2.vmpFlagD`, as in `C02Err.dot_cols_err`) and of the inverse transform in
     `vec_znx_idft` are about the CONCRETE binary64 operand `s.dvec x`: for a product of products the operand is no
     longer "the computed transform of one integer limb", so its flags cannot be stated on the exact state alone.
  "partial": constants 12 / 17 instead of 8 / 16 (inherited from C06Err), flags and twiddle accuracy are hypotheses.
  WHAT IS MISSING: (a) the no-overflow half of the two flag hypotheses on concrete operands is NOT discharged from the
  magnitude box here (`C16Err` does it for its class via `C02Err.vmp_no_overflow_of_box`; for an operand inside
  `MetricRep` one has `|d_j| ≤ ‖P_i‖₁ + δ_i·√m`, so the same argument would go through with that bound in place of
  `8^k·2^50`); (b) NTT120 programs are not modelled; (c) no theorem here derives `GuardedM` from `C16Err`'s
  `Guarded PreF ∧ SingleProductDepth` as a whole: limb by limb `RtBudget` (dft → idft) and `ProdBudget` (svp → idft) of
  `C16Err` DO imply the producer + consumer budgets used here (`metric_covers_roundtrip_f64_partial`,
  `metric_covers_product_f64_partial`); for `VmpBudget` the witnesses `na_i` are chosen per column there and per call here.
-/
import SpqProofs.Lemmas.ProgErr2Step
import SpqProofs.Lemmas.ProgErr2Bnd
import SpqProofs.Lemmas.ProgErr2Old
import SpqProofs.Lemmas.ProgErr2Example2
namespace Spq.C16Err2
open Finset Spq Spq.Module Spq.Prog Spq.Closed Spq.ProgErr Spq.ProgErr2 Spq.ProdErr Spq.VmpErr Spq.FftErr Spq.F64
  Spq.Fft.Alg Spq.Conv

variable {K : Type} [Field K] [LinearOrder K] [IsStrictOrderedRing K] {hsz : ℕ} {vars : List Var}

/-! ### 1. producers of the metric invariant -/

/-- **`dft_metric_f64_partial`** (`C16Err.raw_dft_metric_f64_partial` for the whole object): binary64 `vec_znx_dft` of
    an integer vector (`asz` limbs `f`, stride `asl`, `rsz` result limbs) satisfies `MetricRep` with any budgets
    `δ_i ≥ ε·na_i` (`DftLimbBudget`: box, forward flags, `na_i ≥ ‖a_i‖₂`); the padding limbs `i ≥ asz` are `+0`. -/
theorem dft_metric_f64_partial (M : F64Mod K) (x : Array Int) (asz asl rsz : ℕ) (f : ℕ → ℕ → ℤ)
    (hag : Agree M.N x asz asl f) (δ : ℕ → K) (hδ0 : ∀ i, i < rsz → 0 ≤ δ i)
    (hb : ∀ i, i < asz → i < rsz → DftLimbBudget M (polyArr M.N (f i)) (δ i)) :
    MetricRep M (Val.mk M.N rsz (zext asz f)) rsz (vecDft M.parts rsz x asz asl) δ :=
  dft_metric M x asz asl rsz f hag δ hδ0 hb

/-- **`svp_metric_f64_partial`**: binary64 `svp_apply_dft (svp_prepare s) a` satisfies `MetricRep` for the exact
    products `a_i ⊛ s` with any budgets `δ_i ≥ fB ε μ (ε·m)·(‖a_i‖₁·nb + na_i·‖s‖₁)` (`SvpLimbBudget`: boxes, flags of the
    two forward transforms and of the pointwise product — NOT of an inverse transform). -/
theorem svp_metric_f64_partial (M : F64Mod K) (x : Array Int) (asz asl rsz : ℕ) (f : ℕ → ℕ → ℤ)
    (hag : Agree M.N x asz asl f) (sp : Array Int) (δ : ℕ → K) (hδ0 : ∀ i, i < rsz → 0 ≤ δ i)
    (hb : ∀ i, i < asz → i < rsz → SvpLimbBudget M (polyArr M.N (f i)) sp (δ i)) :
    MetricRep M (Val.mk M.N rsz fun i c => polyMul M.N (zext asz f i) (fun t => sp.getD t 0) c) rsz
      (svpApply M.parts rsz (svpPrepare M.parts sp) x asz asl) δ :=
  svp_metric M x asz asl rsz f hag sp δ hδ0 hb

/-- **`vmpDD_metric_f64_partial`**: binary64 `vmp_apply_dft_to_dft` on an operand `d` satisfying `MetricRep` with
    budgets `δ`, against the prepared matrix of the integer matrix `Mv`: the result satisfies `MetricRep` for the exact
    vector-matrix product `(Σ_{i < min nrows asz} P_i ⊛ M_ij)_j` with the budgets `δ'` of `VmpDDBudget`
    (`δ'_j ≥ colDelta`; matrix entries in the box with forward flags; flags of the accumulation on `d`).
    Columns `j ≥ min ncols rsz` are `+0` cells and represent 0. -/
theorem vmpDD_metric_f64_partial (M : F64Mod K) (P : Val) (asz rsz : ℕ) (d : Array ℕ) (δ : ℕ → K) (Mv : Val)
    (nrows ncols : ℕ) (hrep : MetricRep M P asz d δ) (δ' : ℕ → K) (hδ0 : ∀ j, j < rsz → 0 ≤ δ' j)
    (hb : VmpDDBudget M (matOf M Mv nrows ncols) nrows ncols (fun i => polyArr M.N (P.coef i)) d asz rsz δ δ') :
    MetricRep M (Val.mk M.N rsz (Prog.vmpVal M.N asz (zext asz fun i t => P.coef i t) Mv nrows ncols)) rsz
      (vmpApplyDftToDft M.parts rsz d asz (vmpPrepare M.parts (matOf M Mv nrows ncols) nrows ncols) nrows ncols) δ' :=
  vmpDD_metric M P asz rsz d δ Mv nrows ncols hrep δ' hδ0 hb

/-- **`vmpDD_budget_explicit_partial`** (`k ≤ 16`, `n ≤ 2^25 − 1` rows, `nb_i ≤ ‖M_ij‖₁`): the propagated budget of one
    column in closed form — incoming error × sup-norm of the entry, forward error of the entry × sup-norm of the operand,
    accumulation term; `ε̄ = 8·log2(N)·2^-53`, `μ̄ = 3/2·(2n+3)·2^-53`. -/
theorem vmpDD_budget_explicit_partial (M : F64Mod K) (mat : Array Int) (ncols n : ℕ) (P : ℕ → Array Int) (j : ℕ)
    (δ na nb : ℕ → K) (hn : 2 * n + 2 ≤ 67108864) (hδ : ∀ i, i < n → 0 ≤ δ i) (hna : ∀ i, i < n → 0 ≤ na i)
    (hnb : ∀ i, i < n → 0 ≤ nb i) (hnl : ∀ i, i < n → nb i ≤ n1 K (matEntry mat ncols M.N i j) M.N) :
    colDelta M mat ncols n P j δ na nb ≤
      ∑ i ∈ range n,
        ((1 + ((3 / 2 * ((2 * (n : ℚ) + 3) * u64) : ℚ) : K)) * (1 + ((8 * (M.k + 1 : ℚ) * u64 : ℚ) : K) * 2 ^ M.k) * δ i *
            n1 K (matEntry mat ncols M.N i j) M.N +
          (1 + ((3 / 2 * ((2 * (n : ℚ) + 3) * u64) : ℚ) : K)) * ((8 * (M.k + 1 : ℚ) * u64 : ℚ) : K) * n1 K (P i) M.N * nb i +
          ((3 / 2 * ((2 * (n : ℚ) + 3) * u64) : ℚ) : K) *
            ((n1 K (P i) M.N * nb i + na i * n1 K (matEntry mat ncols M.N i j) M.N) / 2)) :=
  colDelta_le16 M mat ncols n P j δ na nb hn hδ hna hnb hnl

/-- **`vmp_metric_f64_partial`**: binary64 `vmp_apply_dft` of an integer vector (= `vmp_apply_dft_to_dft` of its
    `vec_znx_dft`) satisfies `MetricRep` with the budgets of `VmpBudgetM` -/
theorem vmp_metric_f64_partial (M : F64Mod K) (asz rsz : ℕ) (f : ℕ → ℕ → ℤ) (Mv : Val) (nrows ncols : ℕ) (δ' : ℕ → K)
    (hδ0 : ∀ j, j < rsz → 0 ≤ δ' j)
    (hb : VmpBudgetM M (matOf M Mv nrows ncols) nrows ncols (flatOf M.N asz f) asz rsz δ') :
    MetricRep M (Val.mk M.N rsz (Prog.vmpVal M.N asz (zext asz f) Mv nrows ncols)) rsz
      (vmpApplyDft M.parts rsz (flatOf M.N asz f) asz M.N (vmpPrepare M.parts (matOf M Mv nrows ncols) nrows ncols)
        nrows ncols) δ' :=
  vmp_metric M asz rsz f Mv nrows ncols δ' hδ0 hb

/-! ### 2. the consumer -/

/-- **`idft_of_metric_f64_partial`**: if `MetricRep d P δ`, the flags of the inverse transform of the concrete limb `i`
    hold and `ε·(S2 + δ_i) + δ_i < 1/2` for some `S2 ≥ ‖P_i‖₂` (`IdftLimbBudget`), then
    `toZnx (ifft (limb_i d)) = P_i` exactly (generalises the last step of `C01Err.small_product_exact_f64_partial`). -/
theorem idft_of_metric_f64_partial (M : F64Mod K) (P : Val) (sz : ℕ) (d : Array ℕ) (δ : ℕ → K)
    (hrep : MetricRep M P sz d δ) (i : ℕ) (hi : i < sz)
    (hb : IdftLimbBudget M (dlimb d i M.N) (polyArr M.N (P.coef i)) (δ i)) :
    M.parts.toZnx (M.parts.ifft (dlimb d i M.N)) = polyArr M.N (P.coef i) :=
  idft_of_metric M P sz d δ hrep i hi hb

/-- the observational invariant of `C16Err` follows from the metric one + the consumer budget of every limb -/
theorem limbExact_of_metric_f64_partial (M : F64Mod K) (P : Val) (sz : ℕ) (d : Array ℕ) (δ : ℕ → K)
    (hrep : MetricRep M P sz d δ)
    (hb : ∀ i, i < sz → IdftLimbBudget M (dlimb d i M.N) (polyArr M.N (P.coef i)) (δ i)) : LimbExact M P sz d :=
  limbExact_of_metric M P sz d δ hrep hb

/-- the domain condition inside `IdftLimbBudget` follows from `S2 + 1/2 ≤ 2^50` -/
theorem idft_domain_of_box (M : F64Mod K) (x : Array Int) (δ S2 : K) (hS0 : 0 ≤ S2) (hS : n2sq K x M.N ≤ S2 ^ 2)
    (hbox : S2 + 1 / 2 ≤ 1125899906842624) (hE : invBudget M S2 δ < 1 / 2) :
    ∀ t, t < M.N → |((x.getD t 0 : Int) : K)| + invBudget M S2 δ < ((Bv M.c.toVariant : ℚ) : K) :=
  dom_of_box M x δ S2 hS0 hS hbox hE

/-- dft → idft: the chain budget is the round-trip budget `17·log2(N)·2^-53·na` of `C16Err` -/
theorem metric_budget_roundtrip_consistent (M : F64Mod K) (na : K) (hna : 0 ≤ na) :
    invBudget M na (eps K M.k * na) ≤ ((17 * (M.k + 1 : ℚ) * u64 : ℚ) : K) * na :=
  invBudget_raw_le16 M na hna

/-- svp → idft: the chain budget is `E' = 12·log2(N)·2^-53·(‖a‖₁·nb + na·‖b‖₁)` of `C01Err` -/
theorem metric_budget_product_consistent (M : F64Mod K) (a b : Array Int) (na nb : K) (hna : 0 ≤ na) (hnb : 0 ≤ nb) :
    invBudget M ((n1 K a M.N * nb + na * n1 K b M.N) / 2) (svpDelta M a b na nb) ≤
      ((12 * (M.k + 1 : ℚ) * u64 : ℚ) : K) * (n1 K a M.N * nb + na * n1 K b M.N) :=
  invBudget_svp_le16 M a b na nb hna hnb

/-- **dft → idft is covered with the hypotheses of `C16Err`**: the round-trip budget `RtBudget` of a limb gives the
    producer budget of `vec_znx_dft` and the consumer budget of `vec_znx_idft` on the computed transform -/
theorem metric_covers_roundtrip_f64_partial (M : F64Mod K) (a : Array Int) (hb : RtBudget M a) :
    ∃ δ : K, DftLimbBudget M a δ ∧ IdftLimbBudget M (M.parts.fft (M.parts.fromZnx a)) a δ :=
  metric_of_rtBudget M a hb

/-- **svp → idft is covered with the hypotheses of `C16Err`**: the product budget `ProdBudget` (= the hypotheses of
    `C01Err.small_product_exact_f64_partial`) gives the producer budget of `svp_apply_dft` and the consumer budget of
    `vec_znx_idft` on the computed product `stM a b` -/
theorem metric_covers_product_f64_partial (M : F64Mod K) (a b : Array Int) (hb : ProdBudget M a b) :
    ∃ δ : K, SvpLimbBudget M a b δ ∧ IdftLimbBudget M (stM M.c M.k M.cN M.sN a b) (nmul M.N a b) δ :=
  metric_of_prodBudget M a b hb

/-! ### 3. programs (`Prog.OpD`, interpreters `cstepD` on `Cfg.parts` / `astepD`), no dataflow restriction -/

/-- **one call**: under its budget `PreM` (with `δn` the budgets claimed for its `VEC_ZNX_DFT` result) the binary64 step
    simulates the exact step and re-establishes the metric invariant with the budget map `bstep o β δn` -/
theorem step_refines_f64_metric_partial (M : F64Mod K) (wf : WF M.N hsz vars) (o : OpD) (a : AState) (β : Bud K)
    (s : CState ℕ) (δn : ℕ → K) (hpre : PreM M vars o a β s δn) (hR : RM M hsz vars a β s) :
    RM M hsz vars (astepD M.N o a) (bstep o β δn) (cstepD M.parts M.N o s) :=
  stepM_refines M wf o a β s δn hpre hR

/-- **`prog_refines_f64_metric_partial`** (NO `SingleProductDepth` hypothesis).
    FULL statement aimed at: property C16 for FFT64 programs with the constants 8 / 16 of the property text and without
    flag / twiddle hypotheses.
    PROVED: for every binary64 module `M : F64Mod K`, every well-formed layout, EVERY program of `Prog.OpD` — products of
    products of any depth included —, if along the joint run every call satisfies its budget (`GuardedM`: the error
    budgets `δ` are propagated through the chains of products), then the state of the binary64 run represents (`RM`,
    with some final budget map) the state of the exact run: the heap holds exactly the integer limbs of every declared
    variable, every `VEC_ZNX_DFT` object is within its budget of the exact transform of its abstract limbs, prepared
    objects are bit for bit the prepared exact operands. -/
theorem prog_refines_f64_metric_partial (M : F64Mod K) (wf : WF M.N hsz vars) (ops : List OpD) (a : AState) (β : Bud K)
    (s : CState ℕ) (hb : GuardedM M vars ops a β s) (hR : RM M hsz vars a β s) :
    ∃ β', RM M hsz vars (run (astepD M.N) ops a) β' (run (cstepD M.parts M.N) ops s) :=
  runM_refines M wf ops a β s hb hR

/-- **`prog_output_f64_metric_partial`**: read-back form — every coefficient of every declared integer variable after
    the binary64 run is the coefficient computed by the exact interpreter; the heap kept its size, no access was out of
    bounds. -/
theorem prog_output_f64_metric_partial (M : F64Mod K) (wf : WF M.N hsz vars) (ops : List OpD) (a : AState) (β : Bud K)
    (s : CState ℕ) (hb : GuardedM M vars ops a β s) (hR : RM M hsz vars a β s) (v : Var) (hv : v ∈ vars) :
    (run (cstepD M.parts M.N) ops s).heap.ok = true ∧ (run (cstepD M.parts M.N) ops s).heap.mem.size = hsz ∧
    ∀ i t, i < v.size → t < M.N →
      (readVar M.N (run (cstepD M.parts M.N) ops s).heap v).coef i t = ((run (astepD M.N) ops a).env v).coef i t := by
  obtain ⟨β', r, _⟩ := runM_refines M wf ops a β s hb hR
  refine ⟨r.2.1, r.1, fun i t hi ht => ?_⟩
  unfold readVar
  rw [coef_mk _ _ _ _ _ hi ht]
  exact getD_of_R r v hv i t hi ht

/-- the initial state (no opaque object written yet) is in the relation, for any budget map -/
theorem init_refines_f64_metric (M : F64Mod K) (env : Env) (β : Bud K) (s : CState ℕ) (hR : R M.N hsz vars env s.heap) :
    RM M hsz vars ⟨env, fun _ => none, fun _ => none, fun _ => none, fun _ => none⟩ β s :=
  RM_init M env β s hR

/-! ### 4. what the definitions are (spelled out) -/

example (M : F64Mod K) (d : Array ℕ) (x : Array Int) (δ : K) :
    LimbMetric M d x δ ↔ (0 ≤ δ ∧ (∀ p, p < M.N → Fin64 (d.getD p 0)) ∧
      ∑ j ∈ range (2 ^ M.k), nsq (outC d M.k j - V M.ζ (pkC x (2 ^ M.k)) M.k 0 j) ≤ δ ^ 2 * 2 ^ M.k) := Iff.rfl
example (M : F64Mod K) (P : Val) (sz : ℕ) (d : Array ℕ) (δ : ℕ → K) :
    MetricRep M P sz d δ ↔ (d.size = sz * M.N ∧
      ∀ i, i < sz → LimbMetric M (dlimb d i M.N) (polyArr M.N (P.coef i)) (δ i)) := Iff.rfl
example (μ da db na nb la lb t : K) :
    rowF μ da db na nb la lb t =
      μ * ((la * nb + na * lb) / 2 + (da * (lb + db * t) + la * db)) + (da * (lb + db * t) + la * db) := rfl
example (M : F64Mod K) (mat : Array Int) (ncols n : ℕ) (P : ℕ → Array Int) (j : ℕ) (δ na nb : ℕ → K) :
    colDelta M mat ncols n P j δ na nb =
      ∑ i ∈ range n, rowF ((muD n : ℚ) : K) (δ i) (eps K M.k * nb i) (na i) (nb i) (n1 K (P i) M.N)
        (n1 K (matEntry mat ncols M.N i j) M.N) (2 ^ M.k) := rfl
example (M : F64Mod K) (S2 δ : K) : invBudget M S2 δ = eps K M.k * (S2 + δ) + δ := rfl
/-- the budget of `vmp_apply_dft_to_dft(d, x, m)` / `vec_znx_idft(d, x)` in a program -/
example (M : F64Mod K) (d x : DVar) (m : MVar) (a : AState) (β : Bud K) (s : CState ℕ) (δn : ℕ → K) :
    PreM M vars (.vmpDD d x m) a β s δn ↔ (d ≠ x ∧ (∀ i, i < d.size → 0 ≤ δn i) ∧ ∃ P Mv, a.dvec x = some P ∧ a.pmat m = some Mv ∧
      VmpDDBudget M (matOf M Mv m.nrows m.ncols) m.nrows m.ncols (fun i => polyArr M.N (P.coef i)) (s.dvec x) x.size
        d.size (β x) δn) := Iff.rfl
example (M : F64Mod K) (d : Var) (x : DVar) (a : AState) (β : Bud K) (s : CState ℕ) (δn : ℕ → K) :
    PreM M vars (.idft d x) a β s δn ↔ (d ∈ vars ∧ ∃ P, a.dvec x = some P ∧
      ∀ i, i < x.size → i < d.size → IdftLimbBudget M (dlimb (s.dvec x) i M.N) (polyArr M.N (P.coef i)) (β x i)) := Iff.rfl
example (M : F64Mod K) (o : OpD) (ops : List OpD) (a : AState) (β : Bud K) (s : CState ℕ) :
    GuardedM M vars (o :: ops) a β s ↔ ∃ δn : ℕ → K, PreM M vars o a β s δn ∧
      GuardedM M vars ops (astepD M.N o a) (bstep o β δn) (cstepD M.parts M.N o s) := Iff.rfl
/-- the accumulation flag on a concrete operand generalises `VmpErr.vmpFlag` of C02Err -/
example (c : Cfg) (mat : Array Int) (nrows ncols : ℕ) (a : Array Int) (asz asl rsz p : ℕ) :
    vmpFlag c mat nrows ncols a asz asl rsz p =
      vmpFlagD c mat nrows ncols (vecDft (Cfg.parts c) (min nrows asz) a asz asl) asz rsz p := rfl

/-! ### 5. a concrete program OUTSIDE `SingleProductDepth` on which every hypothesis is discharged
    (`N = 2`, `K = ℚ`, module `exC`, `Lemmas/ProgErr2Example*.lean`): heap of 8 cells, `x = 1 + 2X`, `y = 3 + 4X`,
      P0 := svp_prepare(y);  M0 := vmp_prepare(y);  D0 := svp_apply_dft(P0, x);  D2 := vmp_apply_dft_to_dft(D0, M0);
      w := idft(D2)                          -- dft → svp → vmpDD → idft:  w = (x·y)·y = −55 + 10X mod X² + 1 -/

section
open ProgErr
example : ¬ SingleProductDepth exProg2 noTag := by decide
example : WF exMod.N 8 exVars := WFb_sound _ _ _ (by decide)
example : GuardedM exMod exVars exProg2 ProgErr.exA exB0 exS := exGuardedM
/-- three of the budgets that `exGuardedM` discharges: the first product in DFT space (`δ = 2^-40`), the second product
    on the concrete operand `(−5.0, 10.0)` (`δ' = 2^-30`), the consumer (`0·(56 + δ') + δ' < 1/2`) -/
example : SvpLimbBudget exMod #[1, 2] #[3, 4] (1 / 2 ^ 40) ∧
    VmpDDBudget exMod #[3, 4] 1 1 (fun _ => #[-5, 10]) exAd 1 1 exDl0 exDl1 ∧
    IdftLimbBudget exMod exAd2 #[-55, 10] (1 / 2 ^ 30) := ⟨exSvpLimb, exVmpDD, exIdftLimb⟩

/-- the theorem instantiated: the integer outputs of the binary64 run are those of the exact interpreter -/
example (v : Var) (hv : v ∈ exVars) : ∀ i t, i < v.size → t < exMod.N →
    (readVar exMod.N (run (cstepD exMod.parts exMod.N) exProg2 exS).heap v).coef i t =
      ((run (astepD exMod.N) exProg2 ProgErr.exA).env v).coef i t :=
  (prog_output_f64_metric_partial exMod (hsz := 8) (vars := exVars) (WFb_sound _ _ _ (by decide)) exProg2 ProgErr.exA exB0
    exS exGuardedM (init_refines_f64_metric exMod exEnv exB0 exS (Rb_sound _ _ _ _ _ (by decide))) v hv).2.2

/-- both sides evaluated: the binary64 run (bit-exact model of the library) … -/
example : (run (cstepD (Cfg.parts exC) 2) exProg2 exS).heap.mem = #[1, 2, 3, 4, 0, 0, -55, 10] := by decide +kernel
/-- … and the exact interpreter: `w = (1 + 2X)(3 + 4X)² = −55 + 10X mod X² + 1` -/
example : (run (astepD 2) exProg2 ProgErr.exA).env exW = #[#[-55, 10]] := by decide +kernel
/-- the intermediate DFT-space objects of the binary64 run: `D0 = (−5.0, 10.0)`, `D2 = (−55.0, 10.0)` -/
example : (run (cstepD (Cfg.parts exC) 2) exProg2 exS).dvec exD0 = exAd ∧
    (run (cstepD (Cfg.parts exC) 2) exProg2 exS).dvec exD2 = exAd2 := by constructor <;> decide +kernel
end

end Spq.C16Err2
