/-
  C07 / translator tie, AVX limb-vector wrappers: the C SOURCE of `vec_znx_add_avx`, `vec_znx_sub_avx`,
  `vec_znx_negate_avx` (`spqlios/arithmetic/vec_znx_avx.c`), translated on every run (limb loops calling the
  GENERATED terms of the AVX kernels `znx_add/sub/negate_i64_avx`, and of `znx_copy/zero_i64_ref` through the
  `#define znx_copy_i64_avx znx_copy_i64_ref` of the C file), simulates the SAME heap model `VecZnx.add/sub/negate`
  as the reference wrappers (`Properties/SrcVec.lean`), for every `nn` the AVX kernels accept (1, 2, positive
  multiples of 4), all limb counts and strides, per-limb identical or disjoint windows.  Hence, with the theorems
  of `SrcVec.lean`, generated AVX wrapper term = generated reference wrapper term on those inputs
  (`src_vec_znx_*_avx_eq_ref`).  Proof scripts: those of the reference wrappers with the kernel lemmas
  `arena_*_avx` (`Lemmas/SrcAvxKern.lean`; lane loads/stores on windows of the arena).
-/
import SpqProofs.Lemmas.SrcVecC08
import SpqProofs.Lemmas.SrcVecKernAut
import SpqProofs.Lemmas.SrcAvxKern
import SpqProofs.Properties.SrcVec
namespace Spq.Src
open Spq Spq.CIR Spq.Heap

theorem src_vec_znx_negate_avx_eq_model (nn rsz rsl asz asl res a : Nat) (hnn : nn < 2305843009213693952)
    (hacc : nn = 1 ∨ nn = 2 ∨ (4 ≤ nn ∧ nn % 4 = 0))
    (hrsz : rsz < 18446744073709551616)
    (m0 : Mem) (B : Nat) (hB : B < m0.size) (X : Array Int) (hX : X.size < 18446744073709551616)
    (hA : ∀ i, i < min rsz asz → SameOrDisj nn (res + i * rsl) (a + i * asl))
    (hok : (VecZnx.negate i64Ops nn ⟨X, true⟩ res rsz rsl a asz asl).ok = true) :
    ∀ fuel, rsz + nn ≤ fuel →
      run fuel Gen.CSrc.vec_znx_negate_avx [(nn : Int), (rsz : Int), (rsl : Int), (asz : Int), (asl : Int)]
          [some (B, res), some (B, a)] (m0.setIfInBounds B X)
        = .ok (m0.setIfInBounds B (VecZnx.negate i64Ops nn ⟨X, true⟩ res rsz rsl a asz asl).mem) := by
  intro fuel hf
  have hnn64 : nn < 18446744073709551616 := by omega
  cir_enter Gen.CSrc.vec_znx_negate_avx
  cir_simp
  rw [min_cond]; cir_simp
  let F1 : Nat → Heap Int → Heap Int := fun i => limb1 0 nn (Coeffs.negate i64Ops nn) (res + i * rsl) (a + i * asl)
  let F2 : Nat → Heap Int → Heap Int := fun i => limb0 (Coeffs.zero i64Ops nn) (res + i * rsl)
  have hF1 : OkMono F1 := okMono_limb1 nn _ _ _
  have hF2 : OkMono F2 := okMono_limb0 _ _
  have hs1 : min rsz asz ≤ rsz := Nat.min_le_left _ _
  change (forLimbs (min rsz asz) rsz F2 (forLimbs 0 (min rsz asz) F1 ⟨X, true⟩)).ok = true at hok
  have hok1 := forLimbs_ok_prefix F2 hF2 _ _ rsz hs1 hok (min rsz asz) (Nat.le_refl _) hs1
  rw [forLimbs_nil] at hok1
  have hsz1 : ∀ k, (forLimbs 0 k F1 ⟨X, true⟩).mem.size = X.size := size_forLimbs_mem1 nn _ _ _ 0 ⟨X, true⟩
  have hsz2 : ∀ k, (forLimbs (min rsz asz) k F2 (forLimbs 0 (min rsz asz) F1 ⟨X, true⟩)).mem.size = X.size :=
    fun k => by rw [size_forLimbs_mem0 _ _ _ _ k, hsz1]
  rw [limb_for _ _ _ _ _ _ m0 B F1 hF1 ⟨X, true⟩ 0 (min rsz asz) nn (Nat.zero_le _) (by omega) (by simp) hok1
    ?he0 ?hhi ?hbody fuel (by omega)]
  case he0 => rfl
  case hhi => intro k m; rfl
  case hbody => vbody1 arena_negate_avx hnn64 1 a asl size_kneg hsz1 (fun k _ hk => hA k hk)
  cir_simp
  rw [limb_for _ _ _ _ _ _ m0 B F2 hF2 _ (min rsz asz) rsz 0 hs1 hrsz (by simp) hok
    ?he0 ?hhi ?hbody fuel (by omega)]
  · rfl
  case he0 => rfl
  case hhi => intro k m; rfl
  case hbody => vbody0 hsz2

theorem src_vec_znx_add_avx_eq_model (nn rsz rsl asz asl bsz bsl res a b : Nat) (hnn : nn < 2305843009213693952)
    (hacc : nn = 1 ∨ nn = 2 ∨ (4 ≤ nn ∧ nn % 4 = 0))
    (hrsz : rsz < 18446744073709551616) (hasz : asz < 18446744073709551616) (hbsz : bsz < 18446744073709551616)
    (m0 : Mem) (B : Nat) (hB : B < m0.size) (X : Array Int) (hX : X.size < 18446744073709551616)
    (hA : ∀ i, i < min rsz asz → SameOrDisj nn (res + i * rsl) (a + i * asl))
    (hBd : ∀ i, i < min rsz bsz → SameOrDisj nn (res + i * rsl) (b + i * bsl))
    (hok : (VecZnx.add i64Ops nn ⟨X, true⟩ res rsz rsl a asz asl b bsz bsl).ok = true) :
    ∀ fuel, rsz + nn ≤ fuel →
      run fuel Gen.CSrc.vec_znx_add_avx
          [(nn : Int), (rsz : Int), (rsl : Int), (asz : Int), (asl : Int), (bsz : Int), (bsl : Int)]
          [some (B, res), some (B, a), some (B, b)] (m0.setIfInBounds B X)
        = .ok (m0.setIfInBounds B (VecZnx.add i64Ops nn ⟨X, true⟩ res rsz rsl a asz asl b bsz bsl).mem) := by
  intro fuel hf
  have hnn64 : nn < 18446744073709551616 := by omega
  cir_enter Gen.CSrc.vec_znx_add_avx
  cir_simp
  let F1 : Nat → Heap Int → Heap Int := fun i =>
    limb2 0 nn (Coeffs.add i64Ops nn) (res + i * rsl) (a + i * asl) (b + i * bsl)
  let Fb : Nat → Heap Int → Heap Int := fun i => limb1 0 nn (Coeffs.copy i64Ops nn) (res + i * rsl) (b + i * bsl)
  let Fa : Nat → Heap Int → Heap Int := fun i => limb1 0 nn (Coeffs.copy i64Ops nn) (res + i * rsl) (a + i * asl)
  let F3 : Nat → Heap Int → Heap Int := fun i => limb0 (Coeffs.zero i64Ops nn) (res + i * rsl)
  have hF1 : OkMono F1 := okMono_limb2 nn _ _ _ _
  have hFb : OkMono Fb := okMono_limb1 nn _ _ _
  have hFa : OkMono Fa := okMono_limb1 nn _ _ _
  have hF3 : OkMono F3 := okMono_limb0 _ _
  by_cases hab : asz ≤ bsz
  · have hd : decide ((asz : Int) ≤ (bsz : Int)) = true := decide_eq_true (by omega)
    simp only [hd, if_true]
    rw [min_cond]; cir_simp
    rw [min_cond]; cir_simp
    have hs1 : min rsz asz ≤ min rsz bsz := min_le_min_of_le hab
    have hs2 : min rsz bsz ≤ rsz := Nat.min_le_left _ _
    unfold VecZnx.add at hok ⊢
    simp only [if_pos hab] at hok ⊢
    change (forLimbs (min rsz bsz) rsz F3 (forLimbs (min rsz asz) (min rsz bsz) Fb
      (forLimbs 0 (min rsz asz) F1 ⟨X, true⟩))).ok = true at hok
    have hok2 := forLimbs_ok_prefix F3 hF3 _ _ rsz hs2 hok (min rsz bsz) (Nat.le_refl _) hs2
    rw [forLimbs_nil] at hok2
    have hok1 := forLimbs_ok_prefix Fb hFb _ _ _ hs1 hok2 (min rsz asz) (Nat.le_refl _) hs1
    rw [forLimbs_nil] at hok1
    have hsz1 : ∀ k, (forLimbs 0 k F1 ⟨X, true⟩).mem.size = X.size := size_forLimbs_mem2 nn _ _ _ _ 0 ⟨X, true⟩
    have hsz2 : ∀ k, (forLimbs (min rsz asz) k Fb (forLimbs 0 (min rsz asz) F1 ⟨X, true⟩)).mem.size = X.size :=
      fun k => by rw [size_forLimbs_mem1 nn _ _ _ _ _ k, hsz1]
    have hsz3 : ∀ k, (forLimbs (min rsz bsz) k F3 (forLimbs (min rsz asz) (min rsz bsz) Fb
        (forLimbs 0 (min rsz asz) F1 ⟨X, true⟩))).mem.size = X.size :=
      fun k => by rw [size_forLimbs_mem0 _ _ _ _ k, hsz2]
    rw [limb_for _ _ _ _ _ _ m0 B F1 hF1 ⟨X, true⟩ 0 (min rsz asz) nn (Nat.zero_le _) (by omega) (by simp) hok1
      ?he0 ?hhi ?hbody fuel (by omega)]
    case he0 => rfl
    case hhi => intro k m; rfl
    case hbody =>
      vbody2 arena_add_avx size_kadd hsz1 (fun k _ hk => hA k hk) (fun k _ hk => hBd k (lt_min_of_le hk hab))
    cir_simp
    rw [limb_for _ _ _ _ _ _ m0 B Fb hFb _ (min rsz asz) (min rsz bsz) 0 hs1 (by omega) (by simp) hok2
      ?he0 ?hhi ?hbody fuel (by omega)]
    case he0 => rfl
    case hhi => intro k m; rfl
    case hbody => vbody1 arena_copy hnn 2 b bsl size_kcopy hsz2 (fun k _ hk => hBd k hk)
    cir_simp
    rw [limb_for _ _ _ _ _ _ m0 B F3 hF3 _ (min rsz bsz) rsz 0 hs2 hrsz (by simp) hok
      ?he0 ?hhi ?hbody fuel (by omega)]
    · rfl
    case he0 => rfl
    case hhi => intro k m; rfl
    case hbody => vbody0 hsz3
  · have hd : decide ((asz : Int) ≤ (bsz : Int)) = false := decide_eq_false (by omega)
    have hba : bsz ≤ asz := by omega
    simp only [hd, Bool.false_eq_true, if_false]
    rw [min_cond]; cir_simp
    rw [min_cond]; cir_simp
    have hs1 : min rsz bsz ≤ min rsz asz := min_le_min_of_le hba
    have hs2 : min rsz asz ≤ rsz := Nat.min_le_left _ _
    unfold VecZnx.add at hok ⊢
    simp only [if_neg hab] at hok ⊢
    change (forLimbs (min rsz asz) rsz F3 (forLimbs (min rsz bsz) (min rsz asz) Fa
      (forLimbs 0 (min rsz bsz) F1 ⟨X, true⟩))).ok = true at hok
    have hok2 := forLimbs_ok_prefix F3 hF3 _ _ rsz hs2 hok (min rsz asz) (Nat.le_refl _) hs2
    rw [forLimbs_nil] at hok2
    have hok1 := forLimbs_ok_prefix Fa hFa _ _ _ hs1 hok2 (min rsz bsz) (Nat.le_refl _) hs1
    rw [forLimbs_nil] at hok1
    have hsz1 : ∀ k, (forLimbs 0 k F1 ⟨X, true⟩).mem.size = X.size := size_forLimbs_mem2 nn _ _ _ _ 0 ⟨X, true⟩
    have hsz2 : ∀ k, (forLimbs (min rsz bsz) k Fa (forLimbs 0 (min rsz bsz) F1 ⟨X, true⟩)).mem.size = X.size :=
      fun k => by rw [size_forLimbs_mem1 nn _ _ _ _ _ k, hsz1]
    have hsz3 : ∀ k, (forLimbs (min rsz asz) k F3 (forLimbs (min rsz bsz) (min rsz asz) Fa
        (forLimbs 0 (min rsz bsz) F1 ⟨X, true⟩))).mem.size = X.size :=
      fun k => by rw [size_forLimbs_mem0 _ _ _ _ k, hsz2]
    rw [limb_for _ _ _ _ _ _ m0 B F1 hF1 ⟨X, true⟩ 0 (min rsz bsz) nn (Nat.zero_le _) (by omega) (by simp) hok1
      ?he0 ?hhi ?hbody fuel (by omega)]
    case he0 => rfl
    case hhi => intro k m; rfl
    case hbody =>
      vbody2 arena_add_avx size_kadd hsz1 (fun k _ hk => hA k (lt_min_of_le hk hba)) (fun k _ hk => hBd k hk)
    cir_simp
    rw [limb_for _ _ _ _ _ _ m0 B Fa hFa _ (min rsz bsz) (min rsz asz) 0 hs1 (by omega) (by simp) hok2
      ?he0 ?hhi ?hbody fuel (by omega)]
    case he0 => rfl
    case hhi => intro k m; rfl
    case hbody => vbody1 arena_copy hnn 1 a asl size_kcopy hsz2 (fun k _ hk => hA k hk)
    cir_simp
    rw [limb_for _ _ _ _ _ _ m0 B F3 hF3 _ (min rsz asz) rsz 0 hs2 hrsz (by simp) hok
      ?he0 ?hhi ?hbody fuel (by omega)]
    · rfl
    case he0 => rfl
    case hhi => intro k m; rfl
    case hbody => vbody0 hsz3

theorem src_vec_znx_sub_avx_eq_model (nn rsz rsl asz asl bsz bsl res a b : Nat) (hnn : nn < 2305843009213693952)
    (hacc : nn = 1 ∨ nn = 2 ∨ (4 ≤ nn ∧ nn % 4 = 0))
    (hrsz : rsz < 18446744073709551616) (hasz : asz < 18446744073709551616) (hbsz : bsz < 18446744073709551616)
    (m0 : Mem) (B : Nat) (hB : B < m0.size) (X : Array Int) (hX : X.size < 18446744073709551616)
    (hA : ∀ i, i < min rsz asz → SameOrDisj nn (res + i * rsl) (a + i * asl))
    (hBd : ∀ i, i < min rsz bsz → SameOrDisj nn (res + i * rsl) (b + i * bsl))
    (hok : (VecZnx.sub i64Ops nn ⟨X, true⟩ res rsz rsl a asz asl b bsz bsl).ok = true) :
    ∀ fuel, rsz + nn ≤ fuel →
      run fuel Gen.CSrc.vec_znx_sub_avx
          [(nn : Int), (rsz : Int), (rsl : Int), (asz : Int), (asl : Int), (bsz : Int), (bsl : Int)]
          [some (B, res), some (B, a), some (B, b)] (m0.setIfInBounds B X)
        = .ok (m0.setIfInBounds B (VecZnx.sub i64Ops nn ⟨X, true⟩ res rsz rsl a asz asl b bsz bsl).mem) := by
  intro fuel hf
  have hnn64 : nn < 18446744073709551616 := by omega
  cir_enter Gen.CSrc.vec_znx_sub_avx
  cir_simp
  let F1 : Nat → Heap Int → Heap Int := fun i =>
    limb2 0 nn (Coeffs.sub i64Ops nn) (res + i * rsl) (a + i * asl) (b + i * bsl)
  let Fb : Nat → Heap Int → Heap Int := fun i => limb1 0 nn (Coeffs.negate i64Ops nn) (res + i * rsl) (b + i * bsl)
  let Fa : Nat → Heap Int → Heap Int := fun i => limb1 0 nn (Coeffs.copy i64Ops nn) (res + i * rsl) (a + i * asl)
  let F3 : Nat → Heap Int → Heap Int := fun i => limb0 (Coeffs.zero i64Ops nn) (res + i * rsl)
  have hF1 : OkMono F1 := okMono_limb2 nn _ _ _ _
  have hFb : OkMono Fb := okMono_limb1 nn _ _ _
  have hFa : OkMono Fa := okMono_limb1 nn _ _ _
  have hF3 : OkMono F3 := okMono_limb0 _ _
  by_cases hab : asz ≤ bsz
  · have hd : decide ((asz : Int) ≤ (bsz : Int)) = true := decide_eq_true (by omega)
    simp only [hd, if_true]
    rw [min_cond]; cir_simp
    rw [min_cond]; cir_simp
    have hs1 : min rsz asz ≤ min rsz bsz := min_le_min_of_le hab
    have hs2 : min rsz bsz ≤ rsz := Nat.min_le_left _ _
    unfold VecZnx.sub at hok ⊢
    simp only [if_pos hab] at hok ⊢
    change (forLimbs (min rsz bsz) rsz F3 (forLimbs (min rsz asz) (min rsz bsz) Fb
      (forLimbs 0 (min rsz asz) F1 ⟨X, true⟩))).ok = true at hok
    have hok2 := forLimbs_ok_prefix F3 hF3 _ _ rsz hs2 hok (min rsz bsz) (Nat.le_refl _) hs2
    rw [forLimbs_nil] at hok2
    have hok1 := forLimbs_ok_prefix Fb hFb _ _ _ hs1 hok2 (min rsz asz) (Nat.le_refl _) hs1
    rw [forLimbs_nil] at hok1
    have hsz1 : ∀ k, (forLimbs 0 k F1 ⟨X, true⟩).mem.size = X.size := size_forLimbs_mem2 nn _ _ _ _ 0 ⟨X, true⟩
    have hsz2 : ∀ k, (forLimbs (min rsz asz) k Fb (forLimbs 0 (min rsz asz) F1 ⟨X, true⟩)).mem.size = X.size :=
      fun k => by rw [size_forLimbs_mem1 nn _ _ _ _ _ k, hsz1]
    have hsz3 : ∀ k, (forLimbs (min rsz bsz) k F3 (forLimbs (min rsz asz) (min rsz bsz) Fb
        (forLimbs 0 (min rsz asz) F1 ⟨X, true⟩))).mem.size = X.size :=
      fun k => by rw [size_forLimbs_mem0 _ _ _ _ k, hsz2]
    rw [limb_for _ _ _ _ _ _ m0 B F1 hF1 ⟨X, true⟩ 0 (min rsz asz) nn (Nat.zero_le _) (by omega) (by simp) hok1
      ?he0 ?hhi ?hbody fuel (by omega)]
    case he0 => rfl
    case hhi => intro k m; rfl
    case hbody =>
      vbody2 arena_sub_avx size_ksub hsz1 (fun k _ hk => hA k hk) (fun k _ hk => hBd k (lt_min_of_le hk hab))
    cir_simp
    rw [limb_for _ _ _ _ _ _ m0 B Fb hFb _ (min rsz asz) (min rsz bsz) nn hs1 (by omega) (by simp) hok2
      ?he0 ?hhi ?hbody fuel (by omega)]
    case he0 => rfl
    case hhi => intro k m; rfl
    case hbody => vbody1 arena_negate_avx hnn64 2 b bsl size_kneg hsz2 (fun k _ hk => hBd k hk)
    cir_simp
    rw [limb_for _ _ _ _ _ _ m0 B F3 hF3 _ (min rsz bsz) rsz 0 hs2 hrsz (by simp) hok
      ?he0 ?hhi ?hbody fuel (by omega)]
    · rfl
    case he0 => rfl
    case hhi => intro k m; rfl
    case hbody => vbody0 hsz3
  · have hd : decide ((asz : Int) ≤ (bsz : Int)) = false := decide_eq_false (by omega)
    have hba : bsz ≤ asz := by omega
    simp only [hd, Bool.false_eq_true, if_false]
    rw [min_cond]; cir_simp
    rw [min_cond]; cir_simp
    have hs1 : min rsz bsz ≤ min rsz asz := min_le_min_of_le hba
    have hs2 : min rsz asz ≤ rsz := Nat.min_le_left _ _
    unfold VecZnx.sub at hok ⊢
    simp only [if_neg hab] at hok ⊢
    change (forLimbs (min rsz asz) rsz F3 (forLimbs (min rsz bsz) (min rsz asz) Fa
      (forLimbs 0 (min rsz bsz) F1 ⟨X, true⟩))).ok = true at hok
    have hok2 := forLimbs_ok_prefix F3 hF3 _ _ rsz hs2 hok (min rsz asz) (Nat.le_refl _) hs2
    rw [forLimbs_nil] at hok2
    have hok1 := forLimbs_ok_prefix Fa hFa _ _ _ hs1 hok2 (min rsz bsz) (Nat.le_refl _) hs1
    rw [forLimbs_nil] at hok1
    have hsz1 : ∀ k, (forLimbs 0 k F1 ⟨X, true⟩).mem.size = X.size := size_forLimbs_mem2 nn _ _ _ _ 0 ⟨X, true⟩
    have hsz2 : ∀ k, (forLimbs (min rsz bsz) k Fa (forLimbs 0 (min rsz bsz) F1 ⟨X, true⟩)).mem.size = X.size :=
      fun k => by rw [size_forLimbs_mem1 nn _ _ _ _ _ k, hsz1]
    have hsz3 : ∀ k, (forLimbs (min rsz asz) k F3 (forLimbs (min rsz bsz) (min rsz asz) Fa
        (forLimbs 0 (min rsz bsz) F1 ⟨X, true⟩))).mem.size = X.size :=
      fun k => by rw [size_forLimbs_mem0 _ _ _ _ k, hsz2]
    rw [limb_for _ _ _ _ _ _ m0 B F1 hF1 ⟨X, true⟩ 0 (min rsz bsz) nn (Nat.zero_le _) (by omega) (by simp) hok1
      ?he0 ?hhi ?hbody fuel (by omega)]
    case he0 => rfl
    case hhi => intro k m; rfl
    case hbody =>
      vbody2 arena_sub_avx size_ksub hsz1 (fun k _ hk => hA k (lt_min_of_le hk hba)) (fun k _ hk => hBd k hk)
    cir_simp
    rw [limb_for _ _ _ _ _ _ m0 B Fa hFa _ (min rsz bsz) (min rsz asz) 0 hs1 (by omega) (by simp) hok2
      ?he0 ?hhi ?hbody fuel (by omega)]
    case he0 => rfl
    case hhi => intro k m; rfl
    case hbody => vbody1 arena_copy hnn 1 a asl size_kcopy hsz2 (fun k _ hk => hA k hk)
    cir_simp
    rw [limb_for _ _ _ _ _ _ m0 B F3 hF3 _ (min rsz asz) rsz 0 hs2 hrsz (by simp) hok
      ?he0 ?hhi ?hbody fuel (by omega)]
    · rfl
    case he0 => rfl
    case hhi => intro k m; rfl
    case hbody => vbody0 hsz3

/-! ### generated AVX wrapper term = generated reference wrapper term -/

theorem src_vec_znx_negate_avx_eq_ref (nn rsz rsl asz asl res a : Nat) (hnn : nn < 2305843009213693952)
    (hacc : nn = 1 ∨ nn = 2 ∨ (4 ≤ nn ∧ nn % 4 = 0))
    (hrsz : rsz < 18446744073709551616)
    (m0 : Mem) (B : Nat) (hB : B < m0.size) (X : Array Int) (hX : X.size < 18446744073709551616)
    (hA : ∀ i, i < min rsz asz → SameOrDisj nn (res + i * rsl) (a + i * asl))
    (hok : (VecZnx.negate i64Ops nn ⟨X, true⟩ res rsz rsl a asz asl).ok = true) :
    ∀ fuel, rsz + nn ≤ fuel →
      run fuel Gen.CSrc.vec_znx_negate_avx [(nn : Int), (rsz : Int), (rsl : Int), (asz : Int), (asl : Int)]
          [some (B, res), some (B, a)] (m0.setIfInBounds B X)
        = run fuel Gen.CSrc.vec_znx_negate_ref [(nn : Int), (rsz : Int), (rsl : Int), (asz : Int), (asl : Int)]
          [some (B, res), some (B, a)] (m0.setIfInBounds B X) := by
  intro fuel hf
  rw [src_vec_znx_negate_avx_eq_model nn rsz rsl asz asl res a hnn hacc hrsz m0 B hB X hX hA hok fuel hf,
    src_vec_znx_negate_ref_eq_model nn rsz rsl asz asl res a hnn hrsz m0 B hB X hX hA hok fuel hf]

theorem src_vec_znx_add_avx_eq_ref (nn rsz rsl asz asl bsz bsl res a b : Nat) (hnn : nn < 2305843009213693952)
    (hacc : nn = 1 ∨ nn = 2 ∨ (4 ≤ nn ∧ nn % 4 = 0))
    (hrsz : rsz < 18446744073709551616) (hasz : asz < 18446744073709551616) (hbsz : bsz < 18446744073709551616)
    (m0 : Mem) (B : Nat) (hB : B < m0.size) (X : Array Int) (hX : X.size < 18446744073709551616)
    (hA : ∀ i, i < min rsz asz → SameOrDisj nn (res + i * rsl) (a + i * asl))
    (hBd : ∀ i, i < min rsz bsz → SameOrDisj nn (res + i * rsl) (b + i * bsl))
    (hok : (VecZnx.add i64Ops nn ⟨X, true⟩ res rsz rsl a asz asl b bsz bsl).ok = true) :
    ∀ fuel, rsz + nn ≤ fuel →
      run fuel Gen.CSrc.vec_znx_add_avx
          [(nn : Int), (rsz : Int), (rsl : Int), (asz : Int), (asl : Int), (bsz : Int), (bsl : Int)]
          [some (B, res), some (B, a), some (B, b)] (m0.setIfInBounds B X)
        = run fuel Gen.CSrc.vec_znx_add_ref
          [(nn : Int), (rsz : Int), (rsl : Int), (asz : Int), (asl : Int), (bsz : Int), (bsl : Int)]
          [some (B, res), some (B, a), some (B, b)] (m0.setIfInBounds B X) := by
  intro fuel hf
  rw [src_vec_znx_add_avx_eq_model nn rsz rsl asz asl bsz bsl res a b hnn hacc hrsz hasz hbsz m0 B hB X hX hA hBd hok
      fuel hf,
    src_vec_znx_add_ref_eq_model nn rsz rsl asz asl bsz bsl res a b hnn hrsz hasz hbsz m0 B hB X hX hA hBd hok fuel hf]

theorem src_vec_znx_sub_avx_eq_ref (nn rsz rsl asz asl bsz bsl res a b : Nat) (hnn : nn < 2305843009213693952)
    (hacc : nn = 1 ∨ nn = 2 ∨ (4 ≤ nn ∧ nn % 4 = 0))
    (hrsz : rsz < 18446744073709551616) (hasz : asz < 18446744073709551616) (hbsz : bsz < 18446744073709551616)
    (m0 : Mem) (B : Nat) (hB : B < m0.size) (X : Array Int) (hX : X.size < 18446744073709551616)
    (hA : ∀ i, i < min rsz asz → SameOrDisj nn (res + i * rsl) (a + i * asl))
    (hBd : ∀ i, i < min rsz bsz → SameOrDisj nn (res + i * rsl) (b + i * bsl))
    (hok : (VecZnx.sub i64Ops nn ⟨X, true⟩ res rsz rsl a asz asl b bsz bsl).ok = true) :
    ∀ fuel, rsz + nn ≤ fuel →
      run fuel Gen.CSrc.vec_znx_sub_avx
          [(nn : Int), (rsz : Int), (rsl : Int), (asz : Int), (asl : Int), (bsz : Int), (bsl : Int)]
          [some (B, res), some (B, a), some (B, b)] (m0.setIfInBounds B X)
        = run fuel Gen.CSrc.vec_znx_sub_ref
          [(nn : Int), (rsz : Int), (rsl : Int), (asz : Int), (asl : Int), (bsz : Int), (bsl : Int)]
          [some (B, res), some (B, a), some (B, b)] (m0.setIfInBounds B X) := by
  intro fuel hf
  rw [src_vec_znx_sub_avx_eq_model nn rsz rsl asz asl bsz bsl res a b hnn hacc hrsz hasz hbsz m0 B hB X hX hA hBd hok
      fuel hf,
    src_vec_znx_sub_ref_eq_model nn rsz rsl asz asl bsz bsl res a b hnn hrsz hasz hbsz m0 B hB X hX hA hBd hok fuel hf]

/-! ### composition with C08 (declared extents, aliasing contract): no out-of-bounds access -/

theorem src_vec_znx_negate_avx_no_oob (nn rsz rsl asz asl res a : Nat) (hnn : nn < 2305843009213693952)
    (hacc : nn = 1 ∨ nn = 2 ∨ (4 ≤ nn ∧ nn % 4 = 0))
    (hrsz : rsz < 18446744073709551616)
    (m0 : Mem) (B : Nat) (hB : B < m0.size) (X : Array Int) (hX : X.size < 18446744073709551616)
    (hres : C08.InBounds nn X.size res rsz rsl) (ha : C08.InBounds nn X.size a (min asz rsz) asl)
    (hsa : Heap.SrcOK nn res rsz rsl a asz asl) :
    ∀ fuel, rsz + nn ≤ fuel →
      run fuel Gen.CSrc.vec_znx_negate_avx [(nn : Int), (rsz : Int), (rsl : Int), (asz : Int), (asl : Int)]
          [some (B, res), some (B, a)] (m0.setIfInBounds B X)
        = .ok (m0.setIfInBounds B (VecZnx.negate i64Ops nn ⟨X, true⟩ res rsz rsl a asz asl).mem) :=
  src_vec_znx_negate_avx_eq_model nn rsz rsl asz asl res a hnn hacc hrsz m0 B hB X hX
    (sameOrDisj_of_srcOK nn res rsz rsl a asz asl hsa)
    (C08.negate_no_fault i64Ops nn ⟨X, true⟩ res rsz rsl a asz asl hres ha)

theorem src_vec_znx_add_avx_no_oob (nn rsz rsl asz asl bsz bsl res a b : Nat) (hnn : nn < 2305843009213693952)
    (hacc : nn = 1 ∨ nn = 2 ∨ (4 ≤ nn ∧ nn % 4 = 0))
    (hrsz : rsz < 18446744073709551616) (hasz : asz < 18446744073709551616) (hbsz : bsz < 18446744073709551616)
    (m0 : Mem) (B : Nat) (hB : B < m0.size) (X : Array Int) (hX : X.size < 18446744073709551616)
    (hres : C08.InBounds nn X.size res rsz rsl) (ha : C08.InBounds nn X.size a (min asz rsz) asl)
    (hb : C08.InBounds nn X.size b (min bsz rsz) bsl)
    (hsa : Heap.SrcOK nn res rsz rsl a asz asl) (hsb : Heap.SrcOK nn res rsz rsl b bsz bsl) :
    ∀ fuel, rsz + nn ≤ fuel →
      run fuel Gen.CSrc.vec_znx_add_avx
          [(nn : Int), (rsz : Int), (rsl : Int), (asz : Int), (asl : Int), (bsz : Int), (bsl : Int)]
          [some (B, res), some (B, a), some (B, b)] (m0.setIfInBounds B X)
        = .ok (m0.setIfInBounds B (VecZnx.add i64Ops nn ⟨X, true⟩ res rsz rsl a asz asl b bsz bsl).mem) :=
  src_vec_znx_add_avx_eq_model nn rsz rsl asz asl bsz bsl res a b hnn hacc hrsz hasz hbsz m0 B hB X hX
    (sameOrDisj_of_srcOK nn res rsz rsl a asz asl hsa) (sameOrDisj_of_srcOK nn res rsz rsl b bsz bsl hsb)
    (C08.add_no_fault i64Ops nn ⟨X, true⟩ res rsz rsl a asz asl b bsz bsl hres ha hb)

theorem src_vec_znx_sub_avx_no_oob (nn rsz rsl asz asl bsz bsl res a b : Nat) (hnn : nn < 2305843009213693952)
    (hacc : nn = 1 ∨ nn = 2 ∨ (4 ≤ nn ∧ nn % 4 = 0))
    (hrsz : rsz < 18446744073709551616) (hasz : asz < 18446744073709551616) (hbsz : bsz < 18446744073709551616)
    (m0 : Mem) (B : Nat) (hB : B < m0.size) (X : Array Int) (hX : X.size < 18446744073709551616)
    (hres : C08.InBounds nn X.size res rsz rsl) (ha : C08.InBounds nn X.size a (min asz rsz) asl)
    (hb : C08.InBounds nn X.size b (min bsz rsz) bsl)
    (hsa : Heap.SrcOK nn res rsz rsl a asz asl) (hsb : Heap.SrcOK nn res rsz rsl b bsz bsl) :
    ∀ fuel, rsz + nn ≤ fuel →
      run fuel Gen.CSrc.vec_znx_sub_avx
          [(nn : Int), (rsz : Int), (rsl : Int), (asz : Int), (asl : Int), (bsz : Int), (bsl : Int)]
          [some (B, res), some (B, a), some (B, b)] (m0.setIfInBounds B X)
        = .ok (m0.setIfInBounds B (VecZnx.sub i64Ops nn ⟨X, true⟩ res rsz rsl a asz asl b bsz bsl).mem) :=
  src_vec_znx_sub_avx_eq_model nn rsz rsl asz asl bsz bsl res a b hnn hacc hrsz hasz hbsz m0 B hB X hX
    (sameOrDisj_of_srcOK nn res rsz rsl a asz asl hsa) (sameOrDisj_of_srcOK nn res rsz rsl b bsz bsl hsb)
    (C08.sub_no_fault i64Ops nn ⟨X, true⟩ res rsz rsl a asz asl b bsz bsl hres ha hb)

end Spq.Src
