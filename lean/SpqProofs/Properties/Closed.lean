/-
  Closed — C01 / C02 / C16 in exact arithmetic WITHOUT the abstract hypotheses H1–H4 / `DftOpsSound`:
  they are discharged by the real FFT network (C06).

  `exactParts rt fl` (`Lemmas/ClosedParts.lean`) is `Spq.Module.Cfg.parts` with binary64 replaced by a
  commutative ring `R` of "real" cells: `fft` / `ifft` ARE `Spq.Fft.reimFftA` / `reimIfftA` with the reference or
  the FMA/assembly schedule (`fl.fftFma`, `fl.ifftFma`) — the code that runs bit-exactly against the library on
  binary64 — on the exact table `cos e = Re ζ^e`, `sin e = Im ζ^e` laid out by `reimFftEnts` / `reimIfftEnts`;
  `fromZnx` casts `nn` integers, `toZnx` applies `rt.rd` (division by `m`) to `nn` cells.
  What is left as hypothesis is ring-level only (`rt : RootData R k`): `ζ : Cx R` with `ζ^m = i` (`m = 2^k`),
  `ζ·conj ζ = 1`, `rd (m·n) = n` for every integer `n`; plus the dispatch invariant `fl.ok k` (FMA pointwise
  kernels only when `m ≥ 4`) and the size/shape hypotheses of C01/C02/C16.
  Satisfiable for EVERY `k` with `R = ℝ` (`realRoot k`: `ζ = exp(iπ/2m)`, `rd x = round(x/m)`), and computably for
  `k = 0` with `R = ℚ` (`ratRoot`).

  Route: naturality of the network under `Cx.ofRe : R → Cx R` (`ClosedNat*.lean`) transports the C06 theorems
  (stated in one ring containing `I`; instantiated in `Cx R`) to the network on real cells, giving H2/H3 with
  `z_j = ζ^(1 + 4·brev_k j)`; H1/H4 hold by definition.  `DftOpsSound` is built from H1–H4 (`ClosedSound*.lean`).
-/
import SpqProofs.Lemmas.ClosedExactDft
import SpqProofs.Lemmas.ClosedSound2
import SpqProofs.Lemmas.ClosedInst
import SpqProofs.Properties.C01
import SpqProofs.Properties.C02
import SpqProofs.Properties.C16
namespace Spq.ClosedProps
open Finset Spq Spq.Module Spq.Prog Spq.Closed Spq.Fft

variable {R : Type} [CommRing R] {k : ℕ}

/-- **`exactDft_of_network`**: H1–H4 hold for the module built on the real network, with the evaluation points
    `z_j = ζ^(1 + 4·brev_k j)` (the documented output order of `reim_fft`) -/
theorem exactDft_network (rt : RootData R k) (fl : Flags) : ExactDft (exactParts rt fl) rt.z :=
  exactDft_of_network rt fl

/-- the dispatch invariants of `ExactArith` -/
theorem exactArith_network (rt : RootData R k) (fl : Flags) (hfl : fl.ok k) : ExactArith (exactParts rt fl) :=
  exactParts_exactArith rt fl hfl

/-- **C01, closed**: `fft64_znx_small_single_product` over the real network returns the negacyclic product,
    every `nn = 2·2^k`, every combination of reference / FMA kernels -/
theorem small_product_closed (rt : RootData R k) (fl : Flags) (hfl : fl.ok k) (a b : Array Int)
    (hsa : a.size = 2 * 2 ^ k) (hsb : b.size = 2 * 2 ^ k) :
    smallProduct (exactParts rt fl) a b = nmul (2 * 2 ^ k) a b :=
  C01.small_product_exact _ rt.z (exactParts_exactArith rt fl hfl) (exactDft_of_network rt fl) a b hsa hsb

/-- **C01, closed**: `svp_prepare` + `svp_apply_dft` + `vec_znx_idft` over the real network -/
theorem svp_closed (rt : RootData R k) (fl : Flags) (hfl : fl.ok k) (pol : Array Int) (hp : pol.size = 2 * 2 ^ k)
    (vec : Array Int) (asz asl rsz rsz2 : ℕ)
    (hlimb : ∀ i, i < rsz → i < asz → (limbOf vec i asl (2 * 2 ^ k)).size = 2 * 2 ^ k) :
    let c := exactParts rt fl
    (vecIdft c rsz2 (svpApply c rsz (svpPrepare c pol) vec asz asl) rsz).size = rsz2 * (2 * 2 ^ k) ∧
    ∀ i, i < rsz2 → dlimb (vecIdft c rsz2 (svpApply c rsz (svpPrepare c pol) vec asz asl) rsz) i (2 * 2 ^ k) =
      if i < rsz ∧ i < asz then nmul (2 * 2 ^ k) pol (limbOf vec i asl (2 * 2 ^ k)) else Array.replicate (2 * 2 ^ k) 0 :=
  C01.svp_exact _ rt.z (exactParts_exactArith rt fl hfl) (exactDft_of_network rt fl) pol hp vec asz asl rsz rsz2 hlimb

/-- **C02, closed**: `vmp_prepare_contiguous` + `vmp_apply_dft` + `vec_znx_idft` over the real network: column
    `j < min ncols rsz` is `Σ_{i < min nrows asz} a_i · M[i][j]` in `ℤ[X]/(X^nn + 1)`, every other limb is zero -/
theorem vmp_closed (rt : RootData R k) (fl : Flags) (hfl : fl.ok k) (mat : Array Int) (nrows ncols : ℕ)
    (hmat : ∀ i j, i < nrows → j < ncols → (matEntry mat ncols (2 * 2 ^ k) i j).size = 2 * 2 ^ k)
    (a : Array Int) (asz asl : ℕ) (hlimb : ∀ i, i < min nrows asz → (limbOf a i asl (2 * 2 ^ k)).size = 2 * 2 ^ k)
    (rsz rsz2 : ℕ) :
    let c := exactParts rt fl
    (vecIdft c rsz2 (vmpApplyDft c rsz a asz asl (vmpPrepare c mat nrows ncols) nrows ncols) rsz).size
        = rsz2 * (2 * 2 ^ k) ∧
    ∀ j, j < rsz2 →
      dlimb (vecIdft c rsz2 (vmpApplyDft c rsz a asz asl (vmpPrepare c mat nrows ncols) nrows ncols) rsz) j (2 * 2 ^ k) =
        if j < min ncols rsz then
          isum (2 * 2 ^ k) (min nrows asz)
            (fun i => nmul (2 * 2 ^ k) (limbOf a i asl (2 * 2 ^ k)) (matEntry mat ncols (2 * 2 ^ k) i j))
        else Array.replicate (2 * 2 ^ k) 0 :=
  C02.vmp_exact _ rt.z (exactParts_exactArith rt fl hfl) (exactDft_of_network rt fl) mat nrows ncols hmat a asz asl
    hlimb rsz rsz2

/-- `fromZnx` of `exactParts` reads exactly `nn` coefficients -/
theorem fromLocal_network (rt : RootData R k) (fl : Flags) : FromLocal (exactParts rt fl) := by
  intro x y h
  show (Array.ofFn (n := 2 * 2 ^ k) fun i => ((x.getD i.val 0 : Int) : R)) = Array.ofFn fun i => ((y.getD i.val 0 : Int) : R)
  congr 1
  funext i
  rw [h i.val i.isLt]

/-- **C16, closed**: the record of per-function facts the refinement theorem assumes, for the real network;
    every budget is `True` -/
def dftOpsSound_network (rt : RootData R k) (fl : Flags) (hfl : fl.ok k) :
    DftOpsSound (exactParts rt fl) (2 * 2 ^ k) :=
  dftOpsSound_of_exact (exactParts rt fl) rt.z (exactParts_exactArith rt fl hfl) (exactDft_of_network rt fl)
    (fromLocal_network rt fl)

/-- **C16, closed: refinement of mixed coefficient / DFT-space programs over the real network.**
    For every well-formed layout and every mixed program (`vec_znx_*` calls, `vec_znx_dft`, `svp_*`, `vmp_*`,
    `vec_znx_idft`, small product) whose abstract run satisfies the coefficient-space preconditions (operands declared,
    int64 budget of the `vec_znx_*` calls; the DFT-space budgets are `True`): the final implementation state — heap of
    int64 cells computed by the library model with `exactParts`, opaque objects computed by the network — represents
    the final state of the exact integer semantics in `ℤ[X]/(X^nn + 1)`. -/
theorem prog_refines_closed (rt : RootData R k) (fl : Flags) (hfl : fl.ok k) {hsz : ℕ} {vars : List Var}
    (wf : WF (2 * 2 ^ k) hsz vars) (ops : List OpD) (a : AState) (s : CState R)
    (hb : Guarded (PreD (dftOpsSound_network rt fl hfl) vars) (astepD (2 * 2 ^ k)) ops a)
    (hR : RD (dftOpsSound_network rt fl hfl) hsz vars a s) :
    RD (dftOpsSound_network rt fl hfl) hsz vars (run (astepD (2 * 2 ^ k)) ops a)
      (run (cstepD (exactParts rt fl) (2 * 2 ^ k)) ops s) :=
  C16.prog_refines_partial (dftOpsSound_network rt fl hfl) wf ops a s hb hR

/-- read-back form: every coefficient of every declared variable in the final heap is the exact integer -/
theorem prog_output_closed (rt : RootData R k) (fl : Flags) (hfl : fl.ok k) {hsz : ℕ} {vars : List Var}
    (wf : WF (2 * 2 ^ k) hsz vars) (ops : List OpD) (a : AState) (s : CState R)
    (hb : Guarded (PreD (dftOpsSound_network rt fl hfl) vars) (astepD (2 * 2 ^ k)) ops a)
    (hR : RD (dftOpsSound_network rt fl hfl) hsz vars a s) (v : Var) (hv : v ∈ vars) :
    ∀ i t, i < v.size → t < 2 * 2 ^ k →
      (readVar (2 * 2 ^ k) (run (cstepD (exactParts rt fl) (2 * 2 ^ k)) ops s).heap v).coef i t
        = ((run (astepD (2 * 2 ^ k)) ops a).env v).coef i t :=
  C16.prog_output_partial (dftOpsSound_network rt fl hfl) wf ops a s hb hR v hv

/-! ### the hypotheses are satisfiable, the statements are not vacuous -/

/-- `exactParts.fft` / `.ifft` are the network of `Spq.Fft` (reference schedule shown; `fl.fftFma = true` selects
    `fwdFma`), on the exact table -/
example (rt : RootData R k) (b1 b2 b3 b4 : Bool) (d : Array R) :
    (exactParts rt ⟨false, b1, b2, b3, b4⟩).fft d =
      @reimFftA R (inh0 R) (fwdRef Sim.ringA) (2 ^ k) ((reimFftEnts (2 ^ k)).map (Tab.val rt.c rt.s)).toArray d := rfl
example (rt : RootData R k) (b1 b2 b3 b4 : Bool) (d : Array R) :
    (exactParts rt ⟨b1, true, b2, b3, b4⟩).ifft d =
      @reimIfftA R (inh0 R) (invFma Sim.ringA) (2 ^ k) ((reimIfftEnts (2 ^ k)).map (Tab.val rt.c rt.s)).toArray d := rfl

/-- `RootData` is inhabited for EVERY size over the reals: `ζ = exp(iπ/2m)` -/
noncomputable example (k : ℕ) : RootData ℝ k := realRoot k
/-- and computably for `m = 1` over `ℚ` -/
example : RootData ℚ 0 := ratRoot

/-- the closed product theorem at `nn = 16` over ℝ with every FMA/AVX kernel selected -/
example (a b : Array Int) (ha : a.size = 16) (hb : b.size = 16) :
    smallProduct (exactParts (realRoot 3) ⟨true, true, true, true, true⟩) a b = nmul 16 a b :=
  small_product_closed (realRoot 3) _ (fun _ => by omega) a b ha hb

/-- at `nn = 2` over ℚ: `(1 + 2X)(3 + 4X) = -5 + 10X (mod X² + 1)` -/
example : smallProduct (exactParts ratRoot ⟨false, false, false, false, false⟩) #[1, 2] #[3, 4] = #[-5, 10] := by
  rw [small_product_closed ratRoot _ (fun h => by simp at h) _ _ rfl rfl]
  decide

/-! a mixed program through the network module (`R = ℚ`, `nn = 2`, heap of 6 cells, `x = 1 + 2X`, `y = 3 + 4X`):
    `P := svp_prepare(x); D := svp_apply_dft(P, y); z := idft(D); z := z + x` -/

def exX : Var := ⟨0, 1, 2⟩
def exY : Var := ⟨2, 1, 2⟩
def exZ : Var := ⟨4, 1, 2⟩
def exVars : List Var := [exX, exY, exZ]
def exHeap : Heap Int := ⟨#[1, 2, 3, 4, 0, 0], true⟩
def exEnv : Env := fun v => readVar 2 exHeap v
def exD : DVar := ⟨0, 1⟩
def exProg : List OpD := [.svpPrepare 0 exX, .svp exD 0 exY, .idft exZ exD, .coeff (.add exZ exZ exX)]
def exA : AState := ⟨exEnv, fun _ => none, fun _ => none, fun _ => none, fun _ => none⟩
def exS : CState ℚ := ⟨exHeap, fun _ => #[], fun _ => #[], fun _ => #[]⟩
def exFl : Flags := ⟨false, false, false, false, false⟩

/-- every hypothesis of `prog_output_closed` holds for this program; the conclusion, read back:
    `z = x·y + x = (-5 + 10X) + (1 + 2X)` -/
example : ∀ i t, i < exZ.size → t < 2 →
    (readVar 2 (run (cstepD (exactParts ratRoot exFl) 2) exProg exS).heap exZ).coef i t
      = ((run (astepD 2) exProg exA).env exZ).coef i t :=
  prog_output_closed ratRoot exFl (fun h => by simp [exFl] at h) (hsz := 6) (vars := exVars) (WFb_sound _ _ _ (by decide)) exProg exA exS
    ⟨⟨by decide, by decide, trivial⟩,
     ⟨by decide, _, rfl, trivial⟩,
     ⟨by decide, _, rfl, trivial⟩,
     ⟨OpOKb_sound _ _ _ (by decide), OpBudgetb_sound _ _ _ (by decide +kernel)⟩, trivial⟩
    (RD_init _ exEnv exS (Rb_sound _ _ _ _ _ (by decide))) exZ (by decide)
example : (run (astepD 2) exProg exA).env exZ = #[#[-4, 12]] := by decide +kernel
/-- the implementation-level run, evaluated (the model of the library with the network module) -/
example : (run (cstepD (exactParts ratRoot exFl) 2) exProg exS).heap.mem = #[1, 2, 3, 4, -4, 12] := by decide +kernel

/-! `vmp_apply_dft_to_dft` (`OpD.vmpDD`) applied to a PRODUCT (exact arithmetic has no rounding to propagate, so products of
    products are covered): `P := svp_prepare(x); D := svp_apply_dft(P, y); M := vmp_prepare(x);
    D' := vmp_apply_dft_to_dft(D, M); z := idft(D')`, i.e. `z = (x·y)·x = (-5 + 10X)(1 + 2X) = -25 (mod X² + 1)` -/

def exD2 : DVar := ⟨1, 1⟩
def exM : MVar := ⟨0, 1, 1⟩
def exProgDD : List OpD := [.svpPrepare 0 exX, .svp exD 0 exY, .vmpPrepare exM exX, .vmpDD exD2 exD exM, .idft exZ exD2]

example : ∀ i t, i < exZ.size → t < 2 →
    (readVar 2 (run (cstepD (exactParts ratRoot exFl) 2) exProgDD exS).heap exZ).coef i t
      = ((run (astepD 2) exProgDD exA).env exZ).coef i t :=
  prog_output_closed ratRoot exFl (fun h => by simp [exFl] at h) (hsz := 6) (vars := exVars) (WFb_sound _ _ _ (by decide)) exProgDD exA exS
    ⟨⟨by decide, by decide, trivial⟩,
     ⟨by decide, _, rfl, trivial⟩,
     ⟨by decide, rfl, rfl, trivial⟩,
     ⟨by decide, _, _, rfl, rfl, trivial⟩,
     ⟨by decide, _, rfl, trivial⟩, trivial⟩
    (RD_init _ exEnv exS (Rb_sound _ _ _ _ _ (by decide))) exZ (by decide)
example : (run (astepD 2) exProgDD exA).env exZ = #[#[-25, 0]] := by decide +kernel
example : (run (cstepD (exactParts ratRoot exFl) 2) exProgDD exS).heap.mem = #[1, 2, 3, 4, -25, 0] := by decide +kernel

/-! the decidable characteristic-0 instance `k4Root` (`R = ℚ(√2, w)`, `m = 4`, `nn = 8`: reim4 layout, `fft4` kernels):
    the closed theorems apply, and the kernel EVALUATES the model through the network — both agree -/

example : RootData K4 2 := k4Root
def exFl4 : Flags := ⟨true, true, true, true, true⟩

example (a b : Array Int) (ha : a.size = 8) (hb : b.size = 8) :
    smallProduct (exactParts k4Root exFl4) a b = nmul 8 a b :=
  small_product_closed k4Root exFl4 (fun _ => Nat.le_refl 2) a b ha hb
/-- `(1 + 2X + … + 8X⁷)(X + X⁷) mod X⁸ + 1`, FMA network and FMA pointwise kernels, evaluated -/
example : smallProduct (exactParts k4Root exFl4) #[1, 2, 3, 4, 5, 6, 7, 8] #[0, 1, 0, 0, 0, 0, 0, 1] =
    #[-10, -2, -2, -2, -2, -2, -2, 8] := by decide +kernel
/-- reference network and reference kernels, evaluated -/
example : smallProduct (exactParts k4Root exFl) #[1, 2, 3, 4, 5, 6, 7, 8] #[0, 1, 0, 0, 0, 0, 0, 1] =
    #[-10, -2, -2, -2, -2, -2, -2, 8] := by decide +kernel
example : nmul 8 #[1, 2, 3, 4, 5, 6, 7, 8] #[0, 1, 0, 0, 0, 0, 0, 1] = #[-10, -2, -2, -2, -2, -2, -2, 8] := by
  decide +kernel
/-- VMP through the network: `(a₀, a₁) = (1 + … + 8X⁷, 1)`, `M = [[X, 1], [2, X⁷]]`, three output limbs:
    `(a₀X + 2a₁, a₀ + a₁X⁷, 0)` -/
example : vecIdft (exactParts k4Root exFl4) 3 (vmpApplyDft (exactParts k4Root exFl4) 3
      #[1, 2, 3, 4, 5, 6, 7, 8,  1, 0, 0, 0, 0, 0, 0, 0] 2 8
      (vmpPrepare (exactParts k4Root exFl4)
        #[0, 1, 0, 0, 0, 0, 0, 0,  1, 0, 0, 0, 0, 0, 0, 0,  2, 0, 0, 0, 0, 0, 0, 0,  0, 0, 0, 0, 0, 0, 0, 1] 2 2) 2 2) 3
    = #[-6, 1, 2, 3, 4, 5, 6, 7,  1, 2, 3, 4, 5, 6, 7, 9,  0, 0, 0, 0, 0, 0, 0, 0] := by decide +kernel

/-! the same mixed program shape at `nn = 8` over `k4Root`, FMA kernels: `z := -(x·y)`, `x = 1 + … + 8X⁷`, `y = X + X⁷` -/

def exX8 : Var := ⟨0, 1, 8⟩
def exY8 : Var := ⟨8, 1, 8⟩
def exZ8 : Var := ⟨16, 1, 8⟩
def exVars8 : List Var := [exX8, exY8, exZ8]
def exHeap8 : Heap Int := ⟨#[1, 2, 3, 4, 5, 6, 7, 8,  0, 1, 0, 0, 0, 0, 0, 1,  9, 9, 9, 9, 9, 9, 9, 9], true⟩
def exEnv8 : Env := fun v => readVar 8 exHeap8 v
def exProg8 : List OpD := [.svpPrepare 0 exX8, .svp exD 0 exY8, .idft exZ8 exD, .coeff (.negate exZ8 exZ8)]
def exA8 : AState := ⟨exEnv8, fun _ => none, fun _ => none, fun _ => none, fun _ => none⟩
def exS8 : CState K4 := ⟨exHeap8, fun _ => #[], fun _ => #[], fun _ => #[]⟩

example : ∀ i t, i < exZ8.size → t < 8 →
    (readVar 8 (run (cstepD (exactParts k4Root exFl4) 8) exProg8 exS8).heap exZ8).coef i t
      = ((run (astepD 8) exProg8 exA8).env exZ8).coef i t :=
  prog_output_closed k4Root exFl4 (fun _ => Nat.le_refl 2) (hsz := 24) (vars := exVars8)
    (WFb_sound _ _ _ (by decide)) exProg8 exA8 exS8
    ⟨⟨by decide, by decide, trivial⟩,
     ⟨by decide, _, rfl, trivial⟩,
     ⟨by decide, _, rfl, trivial⟩,
     ⟨OpOKb_sound _ _ _ (by decide), OpBudgetb_sound _ _ _ (by decide +kernel)⟩, trivial⟩
    (RD_init _ exEnv8 exS8 (Rb_sound _ _ _ _ _ (by decide))) exZ8 (by decide)
example : (run (astepD 8) exProg8 exA8).env exZ8 = #[#[10, 2, 2, 2, 2, 2, 2, -8]] := by decide +kernel
example : (run (cstepD (exactParts k4Root exFl4) 8) exProg8 exS8).heap.mem =
    #[1, 2, 3, 4, 5, 6, 7, 8,  0, 1, 0, 0, 0, 0, 0, 1,  10, 2, 2, 2, 2, 2, 2, -8] := by decide +kernel

end Spq.ClosedProps
