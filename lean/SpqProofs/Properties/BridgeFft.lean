/-
  Bridge theorems, FFT side (DESIGN.md §4, §16): the negacyclic product formulas used as SPECIFICATIONS by
  C01 / C02 / Closed / C01Err / C02Err / C16 —
    `Spq.nmulF`, `Spq.nmul`, `Spq.isum`   (`SpqProofs/Lemmas/ModuleSpec.lean`),
    `Spq.Prog.polyMul`, `Spq.Prog.vmpVal` (`Spq/Prog.lean`) —
  ARE the product (sum of products) of `R[X]/(X^N+1)` = Mathlib's `AdjoinRoot (X^N + 1)`; `Properties/Bridge.lean`
  does this for `Spq.Q120Ntt.nmul` (NTT side) and for rotation / automorphism.

  Separate file (and not appended to `Bridge.lean`): importing `ModuleSpec` brings `Spq.nmul` (arrays) into scope,
  which shadows the opened `Spq.Q120Ntt.nmul` in the existing statements of `Bridge.lean` inside `namespace Spq.Bridge`.
  Here both are written with their full names.

  Property theorems only; helper lemmas: `SpqProofs/Lemmas/BridgeFft.lean`.
  Notation as in `Bridge.lean`: `Rq R n`, `mk n`, `toPoly n a = Σ_{i<n} C (a i) X^i`, `ofArr` (zero outside).
-/
import SpqProofs.Properties.Bridge
import SpqProofs.Lemmas.BridgeFft

namespace Spq.Bridge
open Polynomial Finset

variable {R : Type} [CommRing R]

/-! ### 1. the coefficient formulas agree -/

/-- the FFT-side formula `Spq.nmulF` (`Σ_{i+j=k} − Σ_{i+j=k+N}`) and the NTT-side formula `Spq.Q120Ntt.nmul`
    (tied to `AdjoinRoot` by `Bridge.mk_toPoly_nmul`) are the same function: every `N`, every `k` (in
    particular every `k < N`), any commutative ring -/
theorem nmulF_eq_nttNmul (N : Nat) (a b : Nat → R) (k : Nat) :
    Spq.nmulF N a b k = Spq.Q120Ntt.nmul N a b k :=
  nmulF_eq_nttNmul' N a b k

/-- `Prog.polyMul` (single sum, C16) is the same function on `k < N` (over `ℤ`, where it is defined) -/
theorem polyMul_eq_nttNmul (N : Nat) (a b : Nat → Int) (k : Nat) (hk : k < N) :
    Spq.Prog.polyMul N a b k = Spq.Q120Ntt.nmul N a b k :=
  (Spq.Closed.nmulF_eq_polyMul N a b k hk).symm.trans (nmulF_eq_nttNmul' N a b k)

/-! ### 2. product in `R[X]/(X^N+1)` -/

/-- `nmulF N a b` represents `a · b` in `R[X]/(X^N+1)` -/
theorem mk_toPoly_nmulF (N : Nat) (a b : Nat → R) :
    mk N (toPoly N (Spq.nmulF N a b)) = mk N (toPoly N a) * mk N (toPoly N b) :=
  mk_toPoly_nmulF' N a b

/-- the coefficient array `Spq.nmul N a b` (the right-hand side of C01 `svp_exact`, `znx_small_product_exact`,
    C02 `vmp_exact`) represents `a · b` in `ℤ[X]/(X^N+1)` -/
theorem mk_toPoly_nmul_arr (N : Nat) (a b : Array Int) :
    (mk N (toPoly N (ofArr (Spq.nmul N a b))) : Rq Int N) =
      mk N (toPoly N (ofArr a)) * mk N (toPoly N (ofArr b)) :=
  mk_toPoly_nmul_arr' N a b

/-- the same read in any commutative ring (e.g. `ZMod q`, `ZMod 2^64`) through the cast `ℤ → R` -/
theorem mk_toPoly_nmul_cast (N : Nat) (a b : Array Int) :
    (mk N (toPoly N (fun k => ((ofArr (Spq.nmul N a b) k : Int) : R))) : Rq R N) =
      mk N (toPoly N (fun k => ((ofArr a k : Int) : R))) * mk N (toPoly N (fun k => ((ofArr b k : Int) : R))) :=
  mk_toPoly_nmul_cast' N a b

/-- and it is the only array of size `N` doing so -/
theorem nmul_arr_unique (N : Nat) (a b c : Array Int) (hc : c.size = N)
    (h : (mk N (toPoly N (ofArr c)) : Rq Int N) = mk N (toPoly N (ofArr a)) * mk N (toPoly N (ofArr b))) :
    c = Spq.nmul N a b :=
  arr_eq_of_mk_eq N c _ hc (Spq.size_nmul N a b) (h.trans (mk_toPoly_nmul_arr' N a b).symm)

/-! ### 3. sums of products (the matrix–vector column of C02 `vmp_exact`) -/

/-- `isum` is the sum of `ℤ[X]/(X^N+1)` -/
theorem mk_toPoly_isum (N n : Nat) (f : Nat → Array Int) :
    (mk N (toPoly N (ofArr (Spq.isum N n f))) : Rq Int N) = ∑ i ∈ range n, mk N (toPoly N (ofArr (f i))) :=
  mk_toPoly_isum' N n f

/-- `isum N n (fun i => nmul N (a i) (b i))` (column `j` of C02: `a i` = limb `i` of the vector, `b i` = matrix entry
    `(i, j)`, `n = min nrows asz`) represents `Σ_{i<n} a_i · b_i` in `ℤ[X]/(X^N+1)` -/
theorem mk_toPoly_isum_nmul (N n : Nat) (a b : Nat → Array Int) :
    (mk N (toPoly N (ofArr (Spq.isum N n (fun i => Spq.nmul N (a i) (b i))))) : Rq Int N) =
      ∑ i ∈ range n, mk N (toPoly N (ofArr (a i))) * mk N (toPoly N (ofArr (b i))) :=
  mk_toPoly_isum_nmul' N n a b

/-! ### 4. the program-level formulas (C16, Closed) -/

/-- `Prog.polyMul N a b` represents `a · b` in `ℤ[X]/(X^N+1)` -/
theorem mk_toPoly_polyMul (N : Nat) (a b : Nat → Int) :
    (mk N (toPoly N (Spq.Prog.polyMul N a b)) : Rq Int N) = mk N (toPoly N a) * mk N (toPoly N b) :=
  mk_toPoly_polyMul' N a b

/-- column `j < ncols` of `Prog.vmpVal` represents `Σ_{i < min nrows asz} f_i · M[i][j]` in `ℤ[X]/(X^nn+1)` -/
theorem mk_toPoly_vmpVal (nn asz : Nat) (f : Nat → Nat → Int) (M : Spq.Prog.Val) (nrows ncols j : Nat)
    (hj : j < ncols) :
    (mk nn (toPoly nn (Spq.Prog.vmpVal nn asz f M nrows ncols j)) : Rq Int nn) =
      ∑ i ∈ range (min nrows asz),
        mk nn (toPoly nn (f i)) * mk nn (toPoly nn (fun t => M.coef (i * ncols + j) t)) :=
  mk_toPoly_vmpVal' nn asz f M nrows ncols j hj

/-! ### examples, `N = 4` -/

/-- the four coefficients of `(a0 + a1 X + a2 X² + a3 X³)(b0 + b1 X + b2 X² + b3 X³) mod X⁴+1` -/
example (a b : Nat → Int) :
    Spq.nmulF 4 a b 0 = a 0 * b 0 - a 1 * b 3 - a 2 * b 2 - a 3 * b 1 ∧
    Spq.nmulF 4 a b 1 = a 0 * b 1 + a 1 * b 0 - a 2 * b 3 - a 3 * b 2 ∧
    Spq.nmulF 4 a b 2 = a 0 * b 2 + a 1 * b 1 + a 2 * b 0 - a 3 * b 3 ∧
    Spq.nmulF 4 a b 3 = a 0 * b 3 + a 1 * b 2 + a 2 * b 1 + a 3 * b 0 := by
  refine ⟨?_, ?_, ?_, ?_⟩ <;> simp [Spq.nmulF, Finset.sum_range_succ] <;> ring

/-- `(1 + 2X + 3X² + 4X³)(5 + 6X + 7X² + 8X³) = -56 - 36X + 2X² + 60X³  mod X⁴+1`: the array computed by `Spq.nmul`,
    and (by `mk_toPoly_nmul_arr`) the product in `ℤ[X]/(X⁴+1)` -/
example :
    Spq.nmul 4 #[1, 2, 3, 4] #[5, 6, 7, 8] = #[-56, -36, 2, 60] ∧
    (mk 4 (toPoly 4 (ofArr #[-56, -36, 2, 60])) : Rq Int 4) =
      mk 4 (toPoly 4 (ofArr #[1, 2, 3, 4])) * mk 4 (toPoly 4 (ofArr #[5, 6, 7, 8])) := by
  have e : Spq.nmul 4 #[1, 2, 3, 4] #[5, 6, 7, 8] = #[-56, -36, 2, 60] := by
    apply Array.ext (by simp)
    intro i h1 h2
    have hi : i < 4 := by simpa using h1
    interval_cases i <;> simp [Spq.nmul, Spq.nmulF, Spq.icoef, Finset.sum_range_succ]
  exact ⟨e, e ▸ mk_toPoly_nmul_arr 4 _ _⟩

/-- `Prog.polyMul` on the same instance -/
example : (List.range 4).map (Spq.Prog.polyMul 4 (fun i => (i : Int) + 1) (fun i => (i : Int) + 5)) = [-56, -36, 2, 60] := by
  decide

end Spq.Bridge
